import JF.Lemmas.OutputFloatPol
import JF.Lemmas.OutputFloatAsm
import JF.Lemmas.RoundedBinary
/-!
# Output handlers, continued: the polarization handler, and what is written in floats

E25 (`JF/Props/Output.lean`) left two gaps: no theorem about `polarization`, no rounding-abstract reading.

## 1. `PolarizationOutputHandler.write` (exact reading, `ℚ`)
`/repo/jellyfysh/input_output_handler/output_handler/polarization_output_handler.py`; model `JF.Output.polarization`.
* `polarization_eq` / `polarization_neutral`: closed form `Σ_i q_i · r_i` (positions unwrapped relative to the composite
  object) `= Σ_i q_i · (nearest-image separation root → leaf)` for neutral molecules;
* `polarization_invariant`: moving every unit to a congruent position (translation of the whole configuration modulo the box,
  lattice shifts of single particles, of the root unit included) changes nothing;
* `polarization_perm_molecules`, `polarization_perm_leaves`; `polarization_linear` (linear in the charges);
* `polarization_dipole`, `dipole_nearest_image` (`q ·` nearest-image separation of the two charges WHEN the difference of
  the two unwrapped positions lies in the window `[-L/2, L/2)`), `dipole_not_nearest_image` (it fails otherwise: the
  clause of the brief is false for extended dipoles);
* assertion outcomes: `polRoot_assertion`, `polRoot_typeError`, `polarization_error`.

## 2. rounding-abstract reading of `vectors.norm(separation_vector(a, b))` (every `FloatModel`; cubic box)
What the separation handler, the oxygen-oxygen handler and the bond handler (bond LENGTHS) print (`sepEntry_written`).
Every `+ − *` rounds with `fm.rnd` where the Python code performs it; C `fmod` is exact (hypothesis `CompOK.hm`: its result is
representable); CPython's compensated `sum` and libm's `pow(x, 0.5)` enter with their relative errors `δs`, `δp` as
PARAMETERS (hypotheses `NormOK.sum`, `NormOK.pow`), as `C05Float` does for `sum`.
* `written_err_partial`: `lo · (D − η) ≤ written ≤ up · (D + η)` and `written ≤ up · √d · L/2`, with `D` the exact
  nearest-image distance, `η = √d · 9/2 · eps · L` (an ABSOLUTE error: the relative-error clause of the brief is false for
  separations small against the box, see `compSep_err`), `up/lo = (1 ± δp)(1 ± δs)(1 ± eps)`.
  `_partial`: `δs` is a parameter, not a proved multiple of `eps`; cubic box only; positions inside the closed box.
* `written_symm_partial`: the two argument orders differ by at most `(up − lo) · D + (up + lo) · η`.
* `float_symmetry_fails`: in binary64 the two orders do differ (kernel evaluation on the squared norms).
* `normOK_example`: the hypotheses are met in binary64 (`L = 4`, `a = 1`, `b = 2`).
Not done: the translation clause, the cuboid box.
-/
namespace JF.OutputFloat
open JF JF.Periodic JF.C15 JF.Output
set_option linter.unusedSectionVars false

/-! ## 1. polarization -/

section polarization
variable {st : Setting ℚ} {Ls : List ℚ}

/-- **closed form of the written vector**: `Σ_i q_i · r_i` over all point masses, `r_i` the position of the leaf closest to
its root unit (`yield_closest_leaf_unit_positions`); never an exception for well-formed neutral molecules -/
theorem polarization_eq (hb : BoxOK st.box Ls) (state : List (Root ℚ)) (h : ∀ r ∈ state, RootOK Ls r) :
    polarization Ops.rat st state = .ok (polSpec Ls state) := by
  unfold polarization
  rw [hb.dim, replicate_zero, foldRoots hb state _ h]
  simp only [zero_add, polSpec]

/-- … and, the molecules being neutral, the root positions drop out: `Σ_i q_i · (nearest-image separation root → leaf)` -/
theorem polarization_neutral (hb : BoxOK st.box Ls) (state : List (Root ℚ)) (h : ∀ r ∈ state, RootOK Ls r) :
    polarization Ops.rat st state = .ok (polSpecRel Ls state) := by
  rw [polarization_eq hb state h, polSpec_eq_rel state h]

theorem rootOK_mapLeaf (r : Root ℚ) (ok : RootOK Ls r) (f : Leaf ℚ → Leaf ℚ) (t : List ℚ)
    (hq : ∀ l ∈ r.children, (f l).charge = l.charge)
    (hf : CongrMove Ls t f r.self ∧ ∀ l ∈ r.children, CongrMove Ls t f l) : RootOK Ls (r.mapLeaf f) := by
  refine ⟨?_, ?_, ?_, ?_⟩
  · obtain ⟨-, hl, -⟩ := hf.1
    show (f r.self).pos.length = Ls.length
    rw [hl]; exact ok.pos
  · show r.children.map f ≠ []
    simpa using ok.ne
  · intro l hl
    change l ∈ r.children.map f at hl
    obtain ⟨l0, hl0, rfl⟩ := List.mem_map.mp hl
    obtain ⟨-, hlen, -⟩ := hf.2 l0 hl0
    rw [hlen, hq l0 hl0]
    exact ok.leaf l0 hl0
  · show ((r.children.map f).map chargeOf).sum = 0
    rw [List.map_map, ← ok.neutral]
    congr 1
    apply List.map_congr_left
    intro l hl
    simp [chargeOf, hq l hl]

/-- **invariance**: moving every unit (root units and leaves) to a position congruent modulo the box to its position
translated by one common vector `t` — translation of the whole configuration by any vector with every coordinate wrapped
back into the box (`Output.congrMove_translate`), lattice shifts of single particles (`t = 0`,
`Output.congrMove_latticeShift`), any mixture — does not change the written polarization (charges kept) -/
theorem polarization_invariant (hb : BoxOK st.box Ls) (state : List (Root ℚ)) (h : ∀ r ∈ state, RootOK Ls r)
    (f : Leaf ℚ → Leaf ℚ) (t : List ℚ) (ht : t.length = Ls.length)
    (hq : ∀ r ∈ state, ∀ l ∈ r.children, (f l).charge = l.charge)
    (hf : ∀ r ∈ state, CongrMove Ls t f r.self ∧ ∀ l ∈ r.children, CongrMove Ls t f l) :
    polarization Ops.rat st (state.map (Root.mapLeaf f)) = polarization Ops.rat st state := by
  have h' : ∀ r ∈ state.map (Root.mapLeaf f), RootOK Ls r := by
    intro r hr
    obtain ⟨r0, hr0, rfl⟩ := List.mem_map.mp hr
    exact rootOK_mapLeaf r0 (h r0 hr0) f t (hq r0 hr0) (hf r0 hr0)
  rw [polarization_neutral hb _ h', polarization_neutral hb _ h]
  congr 1
  unfold polSpecRel
  apply List.map_congr_left
  intro j _
  rw [List.map_map]
  congr 1
  apply List.map_congr_left
  intro r hr
  show (((r.children.map f).map fun l => relTerm Ls (r.mapLeaf f) l j).sum) = _
  rw [List.map_map]
  congr 1
  apply List.map_congr_left
  intro l hl
  have m := sepSpec_move hb.pos ht (x := r.self) (y := l) (h r hr).pos ((h r hr).leaf l hl).1 (hf r hr).1 ((hf r hr).2 l hl)
  simp only [Function.comp, relTerm, chargeOf, hq r hr l hl]
  show _ * (sepSpec Ls (f r.self).pos (f l).pos).getD j 0 = _ * (sepSpec Ls r.self.pos l.pos).getD j 0
  rw [m]

/-- **permuting the molecules** does not change the written vector -/
theorem polarization_perm_molecules (hb : BoxOK st.box Ls) (state state' : List (Root ℚ)) (h : ∀ r ∈ state, RootOK Ls r)
    (hp : state'.Perm state) : polarization Ops.rat st state' = polarization Ops.rat st state := by
  rw [polarization_eq hb state h, polarization_eq hb state' (fun r hr => h r (hp.mem_iff.mp hr))]
  congr 1
  unfold polSpec
  apply List.map_congr_left
  intro j _
  exact (hp.map _).sum_eq

/-- **permuting the leaves inside molecules** (same root unit, children in any order) does not change the written vector -/
theorem polarization_perm_leaves (hb : BoxOK st.box Ls) (state state' : List (Root ℚ)) (h : ∀ r ∈ state, RootOK Ls r)
    (hp : List.Forall₂ (fun r' r => r'.pos = r.pos ∧ r'.children.Perm r.children) state' state) :
    polarization Ops.rat st state' = polarization Ops.rat st state := by
  have key : (∀ r ∈ state', RootOK Ls r) ∧ polSpec Ls state' = polSpec Ls state := by
    unfold polSpec
    induction hp with
    | nil => exact ⟨by simp, rfl⟩
    | @cons r' r s' s hr _ ih =>
      obtain ⟨ih1, ih2⟩ := ih (fun x hx => h x (by simp [hx]))
      have ok := h r (by simp)
      have ok' : RootOK Ls r' := by
        refine ⟨by rw [hr.1]; exact ok.pos, ?_, ?_, ?_⟩
        · intro hn; rw [hn] at hr; exact ok.ne (List.Perm.nil_eq hr.2).symm
        · intro l hl; exact ok.leaf l (hr.2.mem_iff.mp hl)
        · rw [← ok.neutral]; exact (hr.2.map _).sum_eq
      refine ⟨?_, ?_⟩
      · intro x hx
        rcases List.mem_cons.mp hx with rfl | hx
        · exact ok'
        · exact ih1 x hx
      · apply List.map_congr_left
        intro j hj
        have ihj := List.map_eq_map_iff.mp ih2 j hj
        simp only [List.map_cons, List.sum_cons]
        rw [ihj]
        congr 1
        have e : ∀ l, leafTerm Ls r' l j = leafTerm Ls r l j := by
          intro l; unfold leafTerm closest; rw [hr.1]
        simp only [e]
        exact (hr.2.map _).sum_eq
  rw [polarization_eq hb state h, polarization_eq hb state' key.1, key.2]

/-- the same molecules with the charge of leaf `k` of molecule `i` (identifiers) set to `g i k` -/
def reCharge (g : Int → Int → ℚ) (state : List (Root ℚ)) : List (Root ℚ) :=
  state.map fun r => { r with children := r.children.map fun l => { l with charge := some (g r.ident l.ident) } }

/-- positions of `dimension` entries, at least one child per molecule -/
def ShapeOK (Ls : List ℚ) (state : List (Root ℚ)) : Prop :=
  ∀ r ∈ state, r.pos.length = Ls.length ∧ r.children ≠ [] ∧ ∀ l ∈ r.children, l.pos.length = Ls.length

/-- the charge assignment makes every molecule neutral -/
def Neutral (g : Int → Int → ℚ) (state : List (Root ℚ)) : Prop :=
  ∀ r ∈ state, (r.children.map fun l => g r.ident l.ident).sum = 0

theorem rootOK_reCharge {g : Int → Int → ℚ} {state : List (Root ℚ)} (hs : ShapeOK Ls state) (hn : Neutral g state) :
    ∀ r ∈ reCharge g state, RootOK Ls r := by
  intro r hr
  obtain ⟨r0, hr0, rfl⟩ := List.mem_map.mp hr
  obtain ⟨h1, h2, h3⟩ := hs r0 hr0
  refine ⟨h1, by simpa using h2, ?_, ?_⟩
  · intro l hl
    obtain ⟨l0, hl0, rfl⟩ := List.mem_map.mp hl
    exact ⟨h3 l0 hl0, _, rfl⟩
  · simp only [List.map_map]
    rw [← hn r0 hr0]
    congr 1

theorem polSpec_reCharge (g : Int → Int → ℚ) (state : List (Root ℚ)) :
    polSpec Ls (reCharge g state) = (List.range Ls.length).map fun j =>
      (state.map fun r => (r.children.map fun l => g r.ident l.ident * (closest Ls r l).getD j 0).sum).sum := by
  unfold polSpec reCharge
  simp only [List.map_map, Function.comp_def, leafTerm, chargeOf, closest, Option.getD_some]

/-- **linear in the charges**: for two neutral charge assignments `g`, `h` of the same molecules and numbers `a`, `b`, the
vector written for the charges `a·g + b·h` is `a ·` (the vector written for `g`) `+ b ·` (the vector written for `h`) -/
theorem polarization_linear (hb : BoxOK st.box Ls) (state : List (Root ℚ)) (hs : ShapeOK Ls state)
    (g h : Int → Int → ℚ) (hg : Neutral g state) (hh : Neutral h state) (a b : ℚ) :
    ∃ P Q, polarization Ops.rat st (reCharge g state) = .ok P ∧ polarization Ops.rat st (reCharge h state) = .ok Q ∧
      polarization Ops.rat st (reCharge (fun i k => a * g i k + b * h i k) state) =
        .ok (List.zipWith (fun x y => a * x + b * y) P Q) := by
  have hc : Neutral (fun i k => a * g i k + b * h i k) state := by
    intro r hr
    rw [sum_map_add, sum_map_mul_left, sum_map_mul_left, hg r hr, hh r hr]; ring
  refine ⟨_, _, polarization_eq hb _ (rootOK_reCharge hs hg), polarization_eq hb _ (rootOK_reCharge hs hh), ?_⟩
  rw [polarization_eq hb _ (rootOK_reCharge hs hc)]
  congr 1
  simp only [polSpec_reCharge, List.zipWith_map_left, List.zipWith_map_right, List.zipWith_self]
  apply List.map_congr_left
  intro j _
  rw [← sum_map_mul_left, ← sum_map_mul_left, ← sum_map_add]
  congr 1
  apply List.map_congr_left
  intro r _
  rw [← sum_map_mul_left, ← sum_map_mul_left, ← sum_map_add]
  congr 1
  apply List.map_congr_left
  intro l _
  ring

theorem sepSpec_getD {a b : List ℚ} (ha : a.length = Ls.length) (hb' : b.length = Ls.length) (j : Nat) (hj : j < Ls.length) :
    (sepSpec Ls a b).getD j 0 = wrapSep Ops.rat (b.getD j 0 - a.getD j 0) (Ls.getD j 0) (Ls.getD j 0 / 2) := by
  have hl := sepSpec_length ha hb'
  simp only [List.getD_eq_getElem?_getD]
  rw [List.getElem?_eq_getElem (by omega), List.getElem?_eq_getElem (by omega : j < a.length),
    List.getElem?_eq_getElem (by omega : j < b.length), List.getElem?_eq_getElem hj]
  simp only [Option.getD_some]
  exact sepSpec_getElem j (by omega) hj (by omega) (by omega)

/-- **a neutral dipole** (children with charges `q`, `-q`): the written vector is `q · (r₊ − r₋)`, the difference of the two
unwrapped positions (each the image closest to the root unit) -/
theorem polarization_dipole (hb : BoxOK st.box Ls) (r : Root ℚ) (lp lm : Leaf ℚ) (q : ℚ) (hc : r.children = [lp, lm])
    (hp : lp.charge = some q) (hm : lm.charge = some (-q)) (hr : r.pos.length = Ls.length)
    (hlp : lp.pos.length = Ls.length) (hlm : lm.pos.length = Ls.length) :
    polarization Ops.rat st [r] = .ok ((List.range Ls.length).map fun j =>
      q * ((sepSpec Ls r.pos lp.pos).getD j 0 - (sepSpec Ls r.pos lm.pos).getD j 0)) := by
  have ok : RootOK Ls r := by
    refine ⟨hr, by simp [hc], ?_, ?_⟩
    · intro l hl
      rw [hc] at hl
      rcases List.mem_cons.mp hl with rfl | hl
      · exact ⟨hlp, _, hp⟩
      · rw [List.mem_singleton] at hl; subst hl; exact ⟨hlm, _, hm⟩
    · simp [hc, chargeOf, hp, hm]
  rw [polarization_neutral hb [r] (by simpa using ok)]
  congr 1
  unfold polSpecRel
  apply List.map_congr_left
  intro j _
  simp only [List.map_cons, List.map_nil, List.sum_cons, List.sum_nil, hc, relTerm, chargeOf, hp, hm, Option.getD_some]
  ring

/-- … and `r₊ − r₋` **is the nearest-image separation of the two charges** (from the negative to the positive one) in every
component in which it lies in the window `[-L/2, L/2)` — e.g. when both leaves are closer than a quarter box to the root
unit -/
theorem dipole_nearest_image (hpos : ∀ L ∈ Ls, 0 < L) (rp lp lm : List ℚ) (hr : rp.length = Ls.length)
    (hlp : lp.length = Ls.length) (hlm : lm.length = Ls.length) (j : Nat) (hj : j < Ls.length)
    (hw : -(Ls.getD j 0 / 2) ≤ (sepSpec Ls rp lp).getD j 0 - (sepSpec Ls rp lm).getD j 0 ∧
      (sepSpec Ls rp lp).getD j 0 - (sepSpec Ls rp lm).getD j 0 < Ls.getD j 0 / 2) :
    (sepSpec Ls rp lp).getD j 0 - (sepSpec Ls rp lm).getD j 0 = (sepSpec Ls lm lp).getD j 0 := by
  have hL : 0 < Ls.getD j 0 := by
    rw [List.getD_eq_getElem?_getD, List.getElem?_eq_getElem hj]; exact hpos _ (List.getElem_mem hj)
  rw [sepSpec_getD hlm hlp j hj]
  rw [sepSpec_getD hr hlp j hj, sepSpec_getD hr hlm j hj] at hw ⊢
  obtain ⟨k1, e1⟩ := wrapSep_congr (s := lp.getD j 0 - rp.getD j 0) hL
  obtain ⟨k2, e2⟩ := wrapSep_congr (s := lm.getD j 0 - rp.getD j 0) hL
  exact wrapSep_unique hL hw.1 hw.2 ⟨k1 - k2, by push_cast; linarith⟩

/-- **the clause "equals `q ·` (nearest-image separation of the two charges)" fails for an extended dipole**: box `L = 1`
(one dimension), root unit at `0`, charges `+1` at `2/5` and `-1` at `3/5`: the unwrapped positions are `2/5` and `-2/5`,
the handler writes `4/5`, the nearest-image separation of the two charges is `-1/5` -/
theorem dipole_not_nearest_image :
    (sepSpec [1] [0] [2/5]).getD 0 0 - (sepSpec [1] [0] [3/5]).getD 0 0 = 4 / 5 ∧ (sepSpec [1] [3/5] [2/5]).getD 0 0 = -(1 / 5) := by
  have h1 : wrapSep Ops.rat (2 / 5 - 0) 1 (1 / 2) = 2 / 5 := by
    rw [show (2 / 5 - 0 : ℚ) = 2 / 5 by norm_num]; exact wrapSep_fixed (by norm_num) (by norm_num) (by norm_num)
  have h2 : wrapSep Ops.rat (3 / 5 - 0) 1 (1 / 2) = -(2 / 5) :=
    (wrapSep_unique (by norm_num) (by norm_num) (by norm_num) ⟨1, by norm_num⟩).symm
  have h3 : wrapSep Ops.rat (2 / 5 - 3 / 5) 1 (1 / 2) = -(1 / 5) :=
    (wrapSep_unique (by norm_num) (by norm_num) (by norm_num) ⟨0, by norm_num⟩).symm
  simp only [sepSpec, List.zipWith_cons_cons, List.zipWith_nil_right, List.getD_cons_zero, h1, h2, h3]
  norm_num

/-! ### assertion outcomes -/

/-- **a molecule whose charges do not sum to zero raises the handler's `AssertionError`** (whatever was accumulated) -/
theorem polRoot_assertion (r : Root ℚ) (pol : List ℚ) (hq : ∀ l ∈ r.children, ∃ q, l.charge = some q)
    (hn : (r.children.map chargeOf).sum ≠ 0) : polRoot Ops.rat st r pol = .error "err:AssertionError" := by
  unfold polRoot
  have hs := JF.Lifting.pySum_exact Ops.rat rfl (r.children.map chargeOf)
  rw [mapM_charge hq]
  simp [hs, hn]

/-- a child whose `charge` is `None` raises `TypeError` (from the `sum` inside the `assert`) -/
theorem polRoot_typeError (r : Root ℚ) (pol : List ℚ) (hq : ∃ l ∈ r.children, l.charge = none) :
    polRoot Ops.rat st r pol = .error "err:TypeError" := by
  unfold polRoot
  rw [mapM_charge_none hq]

/-- **nothing is written when a molecule fails**: the molecules before it being fine, the `write` ends with the exception of
the first failing molecule (with `polRoot_assertion`: the first non-neutral molecule gives `AssertionError`) -/
theorem polarization_error (hb : BoxOK st.box Ls) (pre post : List (Root ℚ)) (r : Root ℚ) (e : String)
    (hpre : ∀ r ∈ pre, RootOK Ls r) (he : ∀ pol, polRoot Ops.rat st r pol = .error e) :
    polarization Ops.rat st (pre ++ r :: post) = .error e ∧
      polarizationOut Ops.rat st (pre ++ r :: post) = ([], some e) := by
  have : polarization Ops.rat st (pre ++ r :: post) = .error e := by
    unfold polarization
    rw [hb.dim, replicate_zero]
    exact foldRoots_error hb pre post r e hpre he _
  exact ⟨this, by unfold polarizationOut; rw [this]⟩

/-! ### non-vacuity -/

/-- a water-like molecule (charges `-2, 1, 1`) and a dipole in a 2-d box of side 1, one leaf across the boundary: the
hypotheses `RootOK` hold; a non-neutral molecule meets those of `polRoot_assertion` -/
example :
    RootOK [1, 1] ⟨0, [1/10, 1/2], none, [⟨0, [1/20, 1/2], some 1⟩, ⟨1, [1/10, 11/20], some (-2)⟩, ⟨2, [19/20, 1/2], some 1⟩]⟩ ∧
    RootOK [1, 1] ⟨1, [1/2, 1/2], none, [⟨0, [2/5, 1/2], some (1/3)⟩, ⟨1, [3/5, 1/2], some (-(1/3))⟩]⟩ := by
  refine ⟨⟨rfl, by simp, ?_, by norm_num [chargeOf]⟩, ⟨rfl, by simp, ?_, by norm_num [chargeOf]⟩⟩ <;>
  · intro l hl
    simp only [List.mem_cons, List.not_mem_nil, or_false] at hl
    rcases hl with rfl | rfl | rfl <;> exact ⟨rfl, _, rfl⟩

example : let r : Root ℚ := ⟨0, [0], none, [⟨0, [0], some 1⟩, ⟨1, [1/2], some (-(1/2))⟩]⟩
    (∀ l ∈ r.children, ∃ q, l.charge = some q) ∧ (r.children.map chargeOf).sum ≠ 0 := by
  intro r
  refine ⟨?_, by norm_num [r, chargeOf]⟩
  intro l hl
  simp only [r, List.mem_cons, List.not_mem_nil, or_false] at hl
  rcases hl with rfl | rfl <;> exact ⟨_, rfl⟩

end polarization

/-! ## 2. rounding-abstract reading of the written separation -/

section rounding
open JF.R JF.Lifting
variable {fm : FloatModel}

/-- the scalar record of the handlers over `R fm`, `pow(x, 0.5)` a parameter -/
def oopsR (fm : FloatModel) (pw : R fm → R fm) : OOps (R fm) := ⟨Ops.rounded fm, pw, fun x => .ok x⟩

/-- **the written value** `vectors.norm(setting.periodic_boundaries.separation_vector(a, b))`, cubic box, over `R fm` -/
def written (fm : FloatModel) (pw : R fm → R fm) (c : Cubic (R fm)) (a b : List (R fm)) : Option (R fm) :=
  (c.separationVector (Ops.rounded fm) a b).map (Output.norm (oopsR fm pw))

/-- this IS what the separation handler prints for a pair of leaves (and, with the same `written`, what the oxygen-oxygen
handler and the bond handler print as lengths: their loop bodies apply the same `root (normSq o v)` to `sepVec`) -/
theorem sepEntry_written (pw : R fm → R fm) (st : Setting (R fm)) (c : Cubic (R fm)) (hbox : st.box = .cubic c)
    (p : Leaf (R fm) × Leaf (R fm)) (hk : identDistance st.levels p.1.ident p.2.ident < st.perRoot) :
    sepEntryWith (Ops.rounded fm) pw st p =
      match written fm pw c p.1.pos p.2.pos with
      | none => ([], some "err:IndexError")
      | some w => ([(identDistance st.levels p.1.ident p.2.ident, [w])], none) := by
  unfold sepEntryWith written
  rw [hbox]
  simp only [Box.sepVec]
  cases c.separationVector (Ops.rounded fm) p.1.pos p.2.pos with
  | none => rfl
  | some v => simp [hk, oopsR, Output.norm]

/-- the computed separation vector, entry by entry -/
def compList (fm : FloatModel) (c : Cubic (R fm)) (a b : List (R fm)) : List (R fm) :=
  List.zipWith (fun x y => compSep fm x y c.L c.half) a b

/-- the hypotheses: per dimension `CompOK` (representable coordinates inside the closed box, representable `L` and `L/2`,
no overflow, exact `fmod`), no under/overflow in the squares, relative error `δs` of the compensated `sum` on the squares
and `δp` of `pow(·, 0.5)` on the computed squared norm -/
structure NormOK (fm : FloatModel) (pw : R fm → R fm) (c : Cubic (R fm)) (a b : List (R fm)) (δs δp : ℚ) : Prop where
  L0 : 0 < toQ c.L
  h0 : 0 ≤ toQ c.half
  box : BoxCompOK fm c a b
  sq : SqOK fm (compList fm c a b)
  sum : SumOK fm ((compList fm c a b).map fun x => x * x) δs
  pow : |((toQ (pw (normSq (Ops.rounded fm) (compList fm c a b))) : ℚ) : ℝ) -
            Real.sqrt ((toQ (normSq (Ops.rounded fm) (compList fm c a b)) : ℚ) : ℝ)| ≤
          (δp : ℝ) * Real.sqrt ((toQ (normSq (Ops.rounded fm) (compList fm c a b)) : ℚ) : ℝ)
  δs0 : 0 ≤ δs
  δs1 : δs ≤ 1
  δp0 : 0 ≤ δp
  δp1 : δp ≤ 1

/-- upper and lower factor -/
noncomputable def upF (fm : FloatModel) (δs δp : ℚ) : ℝ := (1 + (δp : ℝ)) * (((1 + δs) * (1 + fm.eps) : ℚ) : ℝ)
noncomputable def loF (fm : FloatModel) (δs δp : ℚ) : ℝ := (1 - (δp : ℝ)) * (((1 - δs) * (1 - fm.eps) : ℚ) : ℝ)

/-- the exact nearest-image distance of the two (representable) positions -/
noncomputable def exactDist (c : Cubic (R fm)) (a b : List (R fm)) : ℝ :=
  Real.sqrt ((sepSq (List.replicate c.dim (toQ c.L)) (a.map toQ) (b.map toQ) : ℚ) : ℝ)

/-- the absolute error of the computed vector: `√d · 9/2 · eps · L` -/
noncomputable def etaF (fm : FloatModel) (c : Cubic (R fm)) : ℝ :=
  Real.sqrt (c.dim : ℝ) * ((9 / 2 * (fm.eps * toQ c.L) : ℚ) : ℝ)

theorem loF_nonneg {δs δp : ℚ} (h1 : δs ≤ 1) (h2 : δp ≤ 1) : 0 ≤ loF fm δs δp := by
  unfold loF
  have : (0 : ℚ) ≤ (1 - δs) * (1 - fm.eps) := mul_nonneg (by linarith) (by linarith [fm.eps_le_half])
  have h2' : (δp : ℝ) ≤ 1 := by exact_mod_cast h2
  exact mul_nonneg (by linarith) (by exact_mod_cast this)

theorem upF_nonneg {δs δp : ℚ} (h1 : 0 ≤ δs) (h2 : 0 ≤ δp) : 0 ≤ upF fm δs δp := by
  unfold upF
  have : (0 : ℚ) ≤ (1 + δs) * (1 + fm.eps) := mul_nonneg (by linarith) (by linarith [fm.eps_nonneg])
  have h2' : (0 : ℝ) ≤ (δp : ℝ) := by exact_mod_cast h2
  exact mul_nonneg (by linarith) (by exact_mod_cast this)

/-- **the written value against the exact nearest-image distance `D`, for every `FloatModel`**:
`lo · (D − η) ≤ written ≤ up · (D + η)`, `η = √d · 9/2 · eps · L`, `up/lo = (1 ± δp)(1 ± δs)(1 ± eps)`;
and **`written ≤ up · √d · L/2`**.  `_partial`: the error `δs` of the compensated `sum` is a parameter (not derived from
`eps`), cubic box, positions inside the closed box `[0, L]^d` -/
theorem written_err_partial {pw : R fm → R fm} {c : Cubic (R fm)} {a b : List (R fm)} {δs δp : ℚ}
    (ok : NormOK fm pw c a b δs δp) :
    ∃ w, written fm pw c a b = some w ∧
      loF fm δs δp * (exactDist c a b - etaF fm c) ≤ ((toQ w : ℚ) : ℝ) ∧
      ((toQ w : ℚ) : ℝ) ≤ upF fm δs δp * (exactDist c a b + etaF fm c) ∧
      ((toQ w : ℚ) : ℝ) ≤ upF fm δs δp * (Real.sqrt (c.dim : ℝ) * ((toQ c.half : ℚ) : ℝ)) := by
  obtain ⟨ha, hb, hc⟩ := ok.box
  refine ⟨pw (normSq (Ops.rounded fm) (compList fm c a b)), ?_, ?_⟩
  · unfold written
    rw [cubic_sepVec_R c a b ha hb]; rfl
  have nb := normSq_bounds (compList fm c a b) ok.sq δs ok.δs0 ok.δs1 ok.sum
  have hNq : (compList fm c a b).map toQ = compVec fm c a b := rfl
  rw [hNq] at nb
  have nb1 := nb.1
  have nb2 := nb.2
  rw [← mul_assoc] at nb1 nb2
  have hN := sqR_nonneg (compVec fm c a b)
  have hlo0 : (0 : ℚ) ≤ (1 - δs) * (1 - fm.eps) := mul_nonneg (by linarith [ok.δs1]) (by linarith [fm.eps_le_half])
  have hlo1 : (1 - δs) * (1 - fm.eps) ≤ 1 := by nlinarith [ok.δs0, ok.δs1, fm.eps_nonneg, fm.eps_le_half]
  have hup : (1 : ℚ) ≤ (1 + δs) * (1 + fm.eps) := by nlinarith [ok.δs0, fm.eps_nonneg]
  have X1 : (((1 - δs) * (1 - fm.eps) : ℚ) : ℝ) * sqR (compVec fm c a b) ≤
      ((toQ (normSq (Ops.rounded fm) (compList fm c a b)) : ℚ) : ℝ) := by
    unfold sqR; exact_mod_cast nb1
  have X2 : ((toQ (normSq (Ops.rounded fm) (compList fm c a b)) : ℚ) : ℝ) ≤
      (((1 + δs) * (1 + fm.eps) : ℚ) : ℝ) * sqR (compVec fm c a b) := by
    unfold sqR; exact_mod_cast nb2
  obtain ⟨w1, w2⟩ := written_of_bounds hN (by exact_mod_cast hlo0) (by exact_mod_cast hlo1) (by exact_mod_cast hup)
    X1 X2 (by exact_mod_cast ok.δp0) (by exact_mod_cast ok.δp1) ok.pow
  -- the computed vector against the exact one
  obtain ⟨f1, f2⟩ := comp_exact_forall₂ c a b ok.box
  have hη : (0 : ℚ) ≤ 9 / 2 * (fm.eps * toQ c.L) :=
    mul_nonneg (by norm_num) (mul_nonneg fm.eps_nonneg ok.L0.le)
  have p1 := norm_perturb hη f1
  have p2 := norm_perturb hη f2
  rw [exactVec_length c a b ha hb] at p1
  rw [show (compVec fm c a b).length = c.dim by simp [compVec, ha, hb]] at p2
  have p3 := norm_perturb ok.h0 (comp_zero_forall₂ c a b ok.box)
  rw [sqR_replicate_zero, Real.sqrt_zero, zero_add, List.length_replicate] at p3
  have hD : exactDist c a b = Real.sqrt (sqR (exactVec c a b)) := rfl
  have hE : etaF fm c = Real.sqrt (c.dim : ℝ) * ((9 / 2 * (fm.eps * toQ c.L) : ℚ) : ℝ) := rfl
  rw [← hD, ← hE] at p1 p2
  have hlo := loF_nonneg (fm := fm) ok.δs1 ok.δp1
  have hupn := upF_nonneg (fm := fm) ok.δs0 ok.δp0
  refine ⟨?_, ?_, ?_⟩
  · have : loF fm δs δp * (exactDist c a b - etaF fm c) ≤ loF fm δs δp * Real.sqrt (sqR (compVec fm c a b)) :=
      mul_le_mul_of_nonneg_left (by linarith) hlo
    unfold loF at this ⊢
    rw [mul_assoc] at this
    linarith
  · have : upF fm δs δp * Real.sqrt (sqR (compVec fm c a b)) ≤ upF fm δs δp * (exactDist c a b + etaF fm c) :=
      mul_le_mul_of_nonneg_left (by linarith) hupn
    unfold upF at this ⊢
    rw [mul_assoc] at this
    linarith
  · have : upF fm δs δp * Real.sqrt (sqR (compVec fm c a b)) ≤
        upF fm δs δp * (Real.sqrt (c.dim : ℝ) * ((toQ c.half : ℚ) : ℝ)) :=
      mul_le_mul_of_nonneg_left p3 hupn
    unfold upF at this ⊢
    rw [mul_assoc] at this
    linarith

/-- **symmetric in the two arguments up to that error**: `|written(a, b) − written(b, a)| ≤ (up − lo) · D + (up + lo) · η`
(`_partial` for the same reasons as `written_err_partial`) -/
theorem written_symm_partial {pw : R fm → R fm} {c : Cubic (R fm)} {a b : List (R fm)} {δs δp : ℚ}
    (ok1 : NormOK fm pw c a b δs δp) (ok2 : NormOK fm pw c b a δs δp) :
    ∃ w1 w2, written fm pw c a b = some w1 ∧ written fm pw c b a = some w2 ∧
      |((toQ w1 : ℚ) : ℝ) - ((toQ w2 : ℚ) : ℝ)| ≤
        (upF fm δs δp - loF fm δs δp) * exactDist c a b + (upF fm δs δp + loF fm δs δp) * etaF fm c := by
  obtain ⟨w1, e1, l1, u1, -⟩ := written_err_partial ok1
  obtain ⟨w2, e2, l2, u2, -⟩ := written_err_partial ok2
  refine ⟨w1, w2, e1, e2, ?_⟩
  have hD : exactDist c b a = exactDist c a b := by
    unfold exactDist
    rw [sepSq_symm (Ls := List.replicate c.dim (toQ c.L))
      (fun L hL => by rw [List.eq_of_mem_replicate hL]; exact ok1.L0)
      (by simp [ok1.box.2.1]) (by simp [ok1.box.1])]
  rw [hD] at l2 u2
  rw [mul_add] at u1 u2
  rw [mul_sub] at l1 l2
  rw [sub_mul, add_mul, abs_le]
  constructor <;> linarith

/-- binary64 (`FloatModel.binary64`, `eps = 2^-53`): the same statements hold, with `η = √d · 9/2 · 2^-53 · L` -/
theorem written_err_binary64_partial {pw : R FloatModel.binary64 → R FloatModel.binary64}
    {c : Cubic (R FloatModel.binary64)} {a b : List (R FloatModel.binary64)} {δs δp : ℚ}
    (ok : NormOK FloatModel.binary64 pw c a b δs δp) :
    ∃ w, written FloatModel.binary64 pw c a b = some w ∧
      loF FloatModel.binary64 δs δp * (exactDist c a b - etaF FloatModel.binary64 c) ≤ ((toQ w : ℚ) : ℝ) ∧
      ((toQ w : ℚ) : ℝ) ≤ upF FloatModel.binary64 δs δp * (exactDist c a b + etaF FloatModel.binary64 c) ∧
      ((toQ w : ℚ) : ℝ) ≤ upF FloatModel.binary64 δs δp * (Real.sqrt (c.dim : ℝ) * ((toQ c.half : ℚ) : ℝ)) :=
  written_err_partial ok

theorem etaF_binary64 (c : Cubic (R FloatModel.binary64)) :
    etaF FloatModel.binary64 c = Real.sqrt (c.dim : ℝ) * ((9 / 2 * (1 / 2 ^ 53 * toQ c.L) : ℚ) : ℝ) := by
  unfold etaF; rw [binary64_eps]

/-! ### the edge: in binary64 the two argument orders do NOT give the same bits -/

/-- **symmetry fails bit for bit**: box `L = 1.0` in one dimension, `a = 0x1.132d8f91b7584p-3`, `b = 0x1.b1e2d5b3584f8p-1`:
the squared norm of `separation_vector(a, b)` and of `separation_vector(b, a)` differ by four ulps (the window
`[-L/2, L/2)` is not symmetric and `s + L/2` rounds differently for `s` and `-s`); evaluated by the kernel on native
binary64 with the model's own `separation_vector` and `norm_sq` (`pow` is opaque, hence the squared norms) -/
theorem float_symmetry_fails :
    (match Cubic.init Ops.floatK 1 1.0 with
     | .ok c =>
       ((c.separationVector Ops.floatK [Float.ofBits 4594009002368267652] [Float.ofBits 4605808224069059832]).map
          fun v => (normSq Ops.floatK v).toBits) == some 4590596858677632955 &&
       ((c.separationVector Ops.floatK [Float.ofBits 4605808224069059832] [Float.ofBits 4594009002368267652]).map
          fun v => (normSq Ops.floatK v).toBits) == some 4590596858677632959
     | .error _ => false) = true := by decide +kernel

/-! ### non-vacuity (binary64) -/

/-- IEEE-754 binary64, round to nearest even -/
abbrev b64 := FloatModel.binary64

theorem rndI (n : ℤ) (h : |(n:ℚ)| ≤ 2 ^ 53 := by norm_num) : b64.rnd (n : ℚ) = n := b64.rnd_int n h

theorem nv_comp : toQ (compSep b64 (ofQ 1) (ofQ 2) (ofQ 4) (ofQ 2)) = 1 ∧
    CompOK b64 (ofQ 1) (ofQ 2) (ofQ 4) (ofQ 2) := by
  have r1 : b64.rnd 1 = 1 := by simpa using rndI 1
  have r3 : b64.rnd 3 = 3 := by simpa using rndI 3
  have s1 : toQ ((ofQ 2 : R b64) - ofQ 1) = 1 := by rw [toQ_sub]; norm_num [r1]
  have s2 : toQ (((ofQ 2 : R b64) - ofQ 1) + ofQ 2) = 3 := by rw [toQ_add, s1]; norm_num [r3]
  have f3 : Ops.rat.fmod 3 4 = 3 := fmod_rat_fixed (by norm_num) (by norm_num)
  have m3 : (3 : ℚ) ∈ b64.F := by simpa using b64.int_mem 3 (by norm_num)
  have hm : Ops.rat.fmod (toQ (((ofQ 2 : R b64) - ofQ 1) + ofQ 2)) (toQ (ofQ 4 : R b64)) ∈ b64.F := by
    rw [s2]; simp only [toQ_ofQ]; rw [f3]; exact m3
  have p3 : pymod Ops.rat 3 4 = 3 := by
    rw [pymod_rat (by norm_num)]
    have : ⌊(3 : ℚ) / 4⌋ = 0 := by rw [Int.floor_eq_iff]; norm_num
    rw [this]; norm_num
  refine ⟨?_, ⟨by simp, by simp; norm_num, ?_, ?_, ?_, ?_, by simp, by simp, by simp, by norm_num [toQ_ofQ], ?_, hm⟩⟩
  · rw [compSep_toQ, pymod_rounded _ _ hm, s2]
    simp only [toQ_ofQ]
    rw [p3, r3]; norm_num [r1]
  · simpa using b64.int_mem 1 (by norm_num)
  · simpa using b64.int_mem 2 (by norm_num)
  · simpa using b64.int_mem 4 (by norm_num)
  · simpa using b64.int_mem 2 (by norm_num)
  · show 2 * (4 : ℚ) ≤ b64.huge
    calc 2 * (4 : ℚ) ≤ 2 ^ 55 := by norm_num
      _ ≤ b64.huge := b64.huge_ge

/-- non-vacuity of `NormOK` (hence of `written_err_binary64_partial`, `written_symm_partial`): binary64, box `L = 4` in one
dimension, `a = 1`, `b = 2`; the computed component is `1`, `sum` and `pow` are exact on it (`δs = δp = 0`) -/
theorem normOK_example : NormOK b64 (fun _ => ofQ 1) ⟨1, ofQ 4, ofQ 2⟩ [ofQ 1] [ofQ 2] 0 0 := by
  obtain ⟨hv, hc⟩ := nv_comp
  have r1 : b64.rnd 1 = 1 := by simpa using rndI 1
  have hl : compList b64 ⟨1, ofQ 4, ofQ 2⟩ [ofQ 1] [ofQ 2] = [compSep b64 (ofQ 1) (ofQ 2) (ofQ 4) (ofQ 2)] := rfl
  have hsum : toQ (pySum (Ops.rounded b64) [compSep b64 (ofQ 1) (ofQ 2) (ofQ 4) (ofQ 2) * compSep b64 (ofQ 1) (ofQ 2) (ofQ 4) (ofQ 2)]) = 1 := by
    simp [pySum, neumaier, hv, r1]
  refine ⟨by simp, by simp, ⟨rfl, rfl, ?_⟩, ?_, ?_, ?_, le_refl _, by norm_num, le_refl _, by norm_num⟩
  · intro j ha hb
    have : j = 0 := by simpa using ha
    subst this
    exact hc
  · rw [hl]
    intro x hx
    rw [List.mem_singleton] at hx
    subst hx
    right
    rw [hv, binary64_tiny]
    constructor
    · calc (2 : ℚ) ^ (-1022 : ℤ) ≤ 2 ^ (0 : ℤ) := zpow_le_zpow_right₀ (by norm_num) (by norm_num)
        _ = 1 * 1 := by norm_num
    · calc (1 : ℚ) * 1 ≤ 2 ^ 55 := by norm_num
        _ ≤ b64.huge := b64.huge_ge
  · rw [hl]
    unfold SumOK
    simp only [List.map_cons, List.map_nil, hsum, List.sum_cons, List.sum_nil, toQ_mul, hv]
    norm_num [r1]
  · rw [hl]
    unfold normSq
    simp only [List.map_cons, List.map_nil, hsum, toQ_ofQ]
    simp

end rounding

end JF.OutputFloat
