import JF.Lemmas.SystemRunMain
import JF.Lemmas.SystemRunOcc
import JF.Props.C17
import JF.Gen.WiringsSound
import Mathlib.Tactic.IntervalCases
/-!
# One joint invariant for the composed system of the concrete coulomb_atoms world (closes the cross-file premises)

**System** (`JF/Model/SystemRun.lean`, `JF/Lemmas/SystemRunStep.lean`, namespace `JF.Sys`): a run `Reach os cs s` is any number of legs
`SysStep`, each of which is one pass of `SingleProcessMediator.run` = `JF.Med.leg` (E1, spec-level scheduler over exact times
`XTime`) on the concrete state of E8 (`JF.CW`: point masses + one `SingleActiveCellOccupancy`), where
* the taggers' yields are COMPUTED from the concrete state (`CW.yieldCls`, after the occupancy update of the leg),
* the cell-boundary handler's candidate is EXACTLY `time stamp of the unit of its in-state + geo.ttb position velocity`
  (`CellBoundaryEventHandler.send_event_time`; for `geo = axisGeoPos B` this is `JF.Occ.timeToBoundary` in the direction of motion),
  every other candidate is a normalised finite time or `inf`, not before the last commit (`CandsOK`),
* the global state moves by `Kin.step` of an event of the kind allowed for the committing tagger (`CW.allowedEv`) at the committed
  time, under C07's side conditions `Adm` / `Smooth` (`Commits`, `EvAdm`), and no leg follows the end-of-run commit,
* the occupancy starts as `initialize` builds it from all point masses (`Init`).

**Hypotheses** (`Hyp`): exact reading (`env.o = Ops.rat`), `WiringSound c`, `Supported c`, and the decidable `cbWired c S` (a wiring
with an occupancy has exactly one cell-boundary tagger, of class `CellBoundaryTagger`, activated in every reachable activation state);
the geometry `geo : Geo env` (`JF/Lemmas/SystemRunGeo.lean`: the time to the boundary is positive, and strictly before it the
time-sliced position is in the cell of the start position; instance `axisGeoPos`: cuboid box, ≥ 2 cells per direction, motion along
one axis in the POSITIVE direction, from `JF.C11.boundary_pos` / `stays_in_cell_pos`); and the **no-tie hypothesis** `TieFree cs`: no
sampling / dumping event is committed at exactly the time of a pending cell-boundary candidate (weaker than `hne` of
`JF.Links.active_unit_stays_in_recorded_cell`, which excludes the tie for every kind of event).  At such a tie C09's freshness really
fails for a moment in the exact reading (`JF.Footprints.Example.quiet_commit_needs_premise`): the hypothesis cannot be dropped.  Ties
with other events (interaction, end of chain, …) are harmless for everything but C11's full `OccInv`, for which `TieFreeAll`
(no event but the cell-boundary event itself at the time of a pending cell-boundary candidate) is assumed.

**Main theorem** `joint_inv`: by ONE induction over the legs, `JInv` = `Big` (`JF/Lemmas/SystemRunStep.lean`) holds after every leg:
E1's invariant `MInv` (scheduler mirrors the running lists); the state in the middle of the leg is a state of `JF.Act.Run` *for the
transition relation `Tr` of E8 with the premise `StaysInRecordedCell` discharged* — hence C09's `Fresh` for every live tagger
(`JF.Act.run_inv`) without `FootprintsSound` as a hypothesis — and of C08's `Reach8` for the concrete motion relation `motionOf`
with both hypotheses of `StepOK8` discharged; C11's mirror for the active unit and `StaysInRecordedCell` itself; C07's one-mover
invariant (time stamp of the mover = time of the last commit); every pending cell-boundary candidate is a time until which the
mover stays in its cell.

**Corollaries** (no cross-file hypotheses left): `sched_mirrors_running_closed` (item 1), `c09_fresh_closed` /
`c09_fresh_every_leg` (item 2), `c11_active_in_recorded_cell_closed`, `staysInRecordedCell_closed`, `c11_occinv_closed` (item 3),
`candOK_closed`, `commit_times_sorted_closed`, `guard_never_fires_closed` (item 4), `c08_closed`, `c08_stale_trashed_closed`,
`no_sample_skipped` (C17 link); instantiated for the four shipped coulomb_atoms wirings (`hyp_cell_bounded`, …,
`c09_fresh_cell_bounded`, …) and on a concrete 3-unit, 6-leg run of `cell_bounded.ini` (`Example`).

Not closed here: the NEGATIVE direction of motion.  `JF.C11.stays_in_cell_neg` needs the representability predicate `F` of the
time-sliced coordinates; in the exact reading every rational is a coordinate, and between the recorded `cell_max` of the lower
neighbour and the lower edge of the cell there IS a sliver in which the unit has left its cell before the event fires
(`boundary_neg_partial`), so `Geo.stays` is false there and no negative-direction instance of `Geo` exists in this reading.  The
theorems are stated for an arbitrary `Geo`; `axisGeoPos` is the positive direction (the only one the shipped coulomb_atoms
configurations use: start-of-run and end-of-chain handlers give velocities `+speed · e_d`).
Also not derived: `Smooth` for the cell-boundary event (the written coordinate is congruent to the time-sliced one — side
condition of `Commits` as in C07), the sampling candidates being the ticks of C17's clock (`CandsOK` only asks them to be
normalised and not before the last commit), liveness (that a pending sampling event IS eventually committed).
-/
namespace JF.SystemInv
open JF JF.Act JF.Heap JF.Sched JF.Med JF.CW JF.C14 JF.MediatorLoop JF.Kin JF.Sys

section
variable {env : Env ℚ} {geo : Geo env} {c : Wiring} {S : TaggerIdx} {needs : HandlerId → Bool}

/-! ## the joint invariant -/

/-- before the first leg: the initial state; after a leg: `Big` for the last committed event -/
def JInv (env : Env ℚ) (geo : Geo env) (c : Wiring) (S : TaggerIdx) (needs : HandlerId → Bool)
    (cs : List (Committed XTime)) (s : Sys) : Prop :=
  (cs = [] ∧ Init env c s) ∨
  ∃ cs0 cl E tl a pos v ts, cs = cs0 ++ [cl] ∧ Big env geo c S needs cs cl s E tl a pos v ts

theorem tieFree_snoc {cs : List (Committed XTime)} {cm : Committed XTime} (h : TieFree c (cs ++ [cm])) :
    TieFree c cs ∧ TieFreeLeg c (pendOf (fun _ => none) cs) cm := by
  constructor
  · intro k x hk
    have hlt : k < cs.length := (List.getElem?_eq_some_iff.mp hk).1
    have := h k x (by rw [List.getElem?_append_left hlt]; exact hk)
    rwa [List.take_append_of_le_length (Nat.le_of_lt hlt)] at this
  · have := h cs.length cm (by simp)
    simpa using this

theorem tieFree_take {cs : List (Committed XTime)} (h : TieFree c cs) (k : Nat) : TieFree c (cs.take k) := by
  intro j x hj
  rw [List.getElem?_take] at hj
  split at hj
  · next hjk =>
    have := h j x hj
    rwa [List.take_take, Nat.min_eq_left (Nat.le_of_lt hjk)]
  · cases hj

/-- **the joint invariant holds after every leg of every run** (ONE induction over the legs) -/
theorem joint_inv (H : Hyp env c S) {os : List (Oracle XTime)} {cs : List (Committed XTime)} {s : Sys}
    (hr : Reach env geo c S needs os cs s) (nt : TieFree c cs) : JInv env geo c S needs cs s := by
  induction hr with
  | init s h => exact Or.inl ⟨rfl, h⟩
  | @step os cs s s' o cm prev hgo hstep ih =>
    obtain ⟨nt0, _⟩ := tieFree_snoc nt
    right
    rcases ih nt0 with ⟨rfl, hi⟩ | ⟨cs0, cl, E, tl, a, pos, v, ts, rfl, big⟩
    · obtain ⟨E', tl', a', pos', v', ts', hb⟩ := first_step H hi hstep
      exact ⟨[], cm, E', tl', a', pos', v', ts', rfl, hb⟩
    · have hgo' : cl.stop = false := hgo cl (by simp)
      have ntl : TieFreeLeg c (pendOf (fun _ => none) (cs0 ++ [cl]).dropLast) cl := by
        rw [List.dropLast_concat]; exact (tieFree_snoc nt0).2
      obtain ⟨E', tl', a', pos', v', ts', hb⟩ := big_step H big hgo' ntl hstep
      exact ⟨cs0 ++ [cl], cm, E', tl', a', pos', v', ts', rfl, hb⟩

/-! ## runs of the composed system are runs of E1's loop; every leg of a run -/

/-- the mediator component of a run is a run of `JF.Med.leg` from the initial state: all theorems of
`JF/Props/MediatorLoop.lean` apply to it -/
theorem reach_medRun {os : List (Oracle XTime)} {cs : List (Committed XTime)} {s : Sys}
    (hr : Reach env geo c S needs os cs s) :
    MediatorLoop.Run (mwire c S needs) (specI xcfg) (MedState.init (specI xcfg) (mwire c S needs).w) os cs s.med := by
  induction hr with
  | init s h => rw [h.med]; exact .nil _
  | step _ _ hstep ih => exact run_snoc ih hstep.leg

/-- every leg of a run is a step from a reachable state (the run up to that leg) -/
theorem reach_leg {os : List (Oracle XTime)} {cs : List (Committed XTime)} {s : Sys}
    (hr : Reach env geo c S needs os cs s) {k : Nat} {cm : Committed XTime} (hk : cs[k]? = some cm) :
    ∃ s0 s1 o, Reach env geo c S needs (os.take k) (cs.take k) s0 ∧
      (∀ cl, (cs.take k).getLast? = some cl → cl.stop = false) ∧ SysStep env geo c S needs s0 o cm s1 := by
  induction hr with
  | init s h => simp at hk
  | @step os cs s s' o cm' prev hgo hstep ih =>
    have hlen : os.length = cs.length := by
      clear ih hk hgo hstep
      induction prev with
      | init => rfl
      | step _ _ _ ih => simp [ih]
    by_cases hlt : k < cs.length
    · rw [List.getElem?_append_left hlt] at hk
      obtain ⟨s0, s1, o0, h1, h2, h3⟩ := ih hk
      refine ⟨s0, s1, o0, ?_, ?_, h3⟩
      · rw [List.take_append_of_le_length (Nat.le_of_lt hlt), List.take_append_of_le_length (by omega)]; exact h1
      · rw [List.take_append_of_le_length (Nat.le_of_lt hlt)]; exact h2
    · have hke : k = cs.length := by
        have := (List.getElem?_eq_some_iff.mp hk).1
        simp at this; omega
      subst hke
      simp only [List.getElem?_concat_length, Option.some.injEq] at hk
      subst hk
      refine ⟨s, s', o, ?_, ?_, hstep⟩
      · rw [List.take_left' rfl, ← hlen, List.take_left' rfl]; exact prev
      · rw [List.take_left' rfl]; exact hgo

/-- the invariant for the last committed event -/
theorem jinv_big {cs : List (Committed XTime)} {s : Sys} (h : JInv env geo c S needs cs s) {cl : Committed XTime}
    (hl : cs.getLast? = some cl) : ∃ E tl a pos v ts, Big env geo c S needs cs cl s E tl a pos v ts := by
  rcases h with ⟨rfl, _⟩ | ⟨cs0, cl', E, tl, a, pos, v, ts, rfl, big⟩
  · simp at hl
  · have : cl' = cl := by simpa using hl
    subst this
    exact ⟨E, tl, a, pos, v, ts, big⟩

theorem legs_snoc {κ : Type} {P : Pend κ → κ → Committed κ → Prop} : ∀ (cs : List (Committed κ)) (p : Pend κ) (l : κ)
    (c : Committed κ), MediatorLoop.Legs P p l (cs ++ [c]) ↔ MediatorLoop.Legs P p l cs ∧ P (pendOf p cs) (lastOf l cs) c := by
  intro cs
  induction cs with
  | nil => intro p l c; simp [MediatorLoop.Legs, pendOf, lastOf]
  | cons a cs ih =>
    intro p l c
    show (P p l a ∧ MediatorLoop.Legs P (pendAfter p a) a.time (cs ++ [c])) ↔
      ((P p l a ∧ MediatorLoop.Legs P (pendAfter p a) a.time cs) ∧ P (pendOf (pendAfter p a) cs) (lastOf a.time cs) c)
    rw [ih, and_assoc]

theorem legs_get {κ : Type} {P : Pend κ → κ → Committed κ → Prop} : ∀ (cs : List (Committed κ)) (p : Pend κ) (l : κ),
    MediatorLoop.Legs P p l cs → ∀ (k : Nat) (c : Committed κ), cs[k]? = some c →
      P (pendOf p (cs.take k)) (lastOf l (cs.take k)) c := by
  intro cs
  induction cs with
  | nil => intro p l _ k c hk; simp at hk
  | cons a cs ih =>
    intro p l legs k c hk
    cases k with
    | zero =>
      simp only [List.getElem?_cons_zero, Option.some.injEq] at hk
      subst hk
      exact legs.1
    | succ k => exact ih _ _ legs.2 k c (by simpa using hk)

/-! ## corollaries -/

/-- **item 1 — E1's invariant**: after every leg of every run the spec-level scheduler holds exactly the finite pending events,
one per handler, and a handler has a pending event iff it is a running handler of some tagger -/
theorem sched_mirrors_running_closed (H : Hyp env c S) {os : List (Oracle XTime)} {cs : List (Committed XTime)} {s : Sys}
    (hr : Reach env geo c S needs os cs s) :
    (∀ h t, (t, h) ∈ s.med.sched.live ↔ pendOf (fun _ => none) cs h = some t ∧ xcfg.finite t = true) ∧
    s.med.sched.live.Pairwise (fun a b => a.2 ≠ b.2) ∧
    (∀ h, (pendOf (fun _ => none : Pend XTime) cs h).isSome ↔ ∃ T, h ∈ (getT s.med.act.ts T).running) ∧
    (∀ h, (∀ T, h ∉ (getT s.med.act.ts T).running) → ∀ t, (t, h) ∉ s.med.sched.live) :=
  spec_sched_mirrors_running xcfg_strictWeak (hyp_static H) (reach_medRun hr)

/-- **`c09_fresh_closed` — C09 without the `FootprintsSound` hypothesis and without the premise `StaysInRecordedCell`**: after
every leg but the first, the state in the middle of that leg — the activator's lists `s.mid`, the identifiers handed out `s.ids`,
the concrete global state `⟨s.usPrev, s.occ⟩` the leg's candidates were computed on — is consistent, every live tagger is
`Fresh` there (its pending events are what it generates from scratch for that state), and it is a state of `JF.Act.Run` for the
transition relation `Tr` of E8 (premise included, now proved) -/
theorem c09_fresh_closed (H : Hyp env c S) {os : List (Oracle XTime)} {cs : List (Committed XTime)} {s : Sys}
    (hr : Reach env geo c S needs os cs s) (nt : TieFree c cs) (h2 : 2 ≤ cs.length) :
    ∃ hc : Consistent env (hasOccOf c) ⟨s.usPrev, s.occ⟩,
      (∀ T, (world env c).live T → Fresh (world env c) ⟨s.mid, s.ids, ⟨⟨s.usPrev, s.occ⟩, hc⟩⟩ T) ∧
      Act.Run c (world env c) (Tr env c) S ⟨s.mid, s.ids, ⟨⟨s.usPrev, s.occ⟩, hc⟩⟩ := by
  rcases joint_inv H hr nt with ⟨rfl, _⟩ | ⟨cs0, cl, E, tl, a, pos, v, ts, rfl, big⟩
  · simp at h2
  · obtain ⟨hc, hph⟩ := big.phase
    rcases hph with ⟨h1, _⟩ | hrun
    · omega
    · exact ⟨hc, (Act.run_inv c (world env c) (Tr env c) S H.sound H.hS
        (Footprints.footprintsSound_concrete env c H.sup) (liveIs env c) hrun).fresh, hrun⟩

/-- … and the pending events in the middle of a leg are exactly those of the running handlers of that moment: **pending = fresh
yield at every leg** (leg `k ≥ 1` of a run; `s1` the state after it) -/
theorem c09_fresh_every_leg (H : Hyp env c S) {os : List (Oracle XTime)} {cs : List (Committed XTime)} {s : Sys}
    (hr : Reach env geo c S needs os cs s) (nt : TieFree c cs) {k : Nat} {cm : Committed XTime}
    (hk : cs[k + 1]? = some cm) :
    ∃ (s1 : Sys) (hc : Consistent env (hasOccOf c) ⟨s1.usPrev, s1.occ⟩),
      (∀ T, (world env c).live T → Fresh (world env c) ⟨s1.mid, s1.ids, ⟨⟨s1.usPrev, s1.occ⟩, hc⟩⟩ T) ∧
      (∀ x, (pendPushed (pendOf (fun _ => none) (cs.take (k + 1))) cm x).isSome ↔ ∃ T, x ∈ (getT s1.mid T).running) := by
  obtain ⟨s0, s1, o, hr0, hgo, hst⟩ := reach_leg hr hk
  have hr1 := Reach.step hr0 hgo hst
  have htake : cs.take (k + 1) ++ [cm] = cs.take (k + 2) := by
    rw [List.take_add_one (i := k + 1), hk]; rfl
  have nt1 : TieFree c (cs.take (k + 1) ++ [cm]) := by rw [htake]; exact tieFree_take nt _
  have hklt : k + 1 < cs.length := (List.getElem?_eq_some_iff.mp hk).1
  have hlen : 2 ≤ (cs.take (k + 1) ++ [cm]).length := by
    rw [List.length_append, List.length_take, Nat.min_eq_left (Nat.le_of_lt hklt)]; simp
  obtain ⟨hc, hfr, _⟩ := c09_fresh_closed H hr1 nt1 hlen
  refine ⟨s1, hc, hfr, ?_⟩
  have inv0 := joint_inv H hr0 (tieFree_take nt _)
  rcases inv0 with ⟨he, _⟩ | ⟨cs0, cl, E, tl, a, pos, v, ts, he, big⟩
  · have h0 : (cs.take (k + 1)).length = 0 := by rw [he]; rfl
    rw [List.length_take, Nat.min_eq_left (Nat.le_of_lt hklt)] at h0; omega
  · have := (mid_mirror (hyp_static H) big.med hst.leg).2.1
    rw [hst.mid']; exact this

/-- **`c11_active_in_recorded_cell_closed` — C11's mirror for the active unit, and the former premise, as consequences.**  After
every leg of every run of a wiring with an occupancy:
(1) in the middle of the leg the occupancy's recorded active cell is the cell of the (relevant) active unit's position;
(2) if the committed event is not the cell-boundary event and its time is not the time of a pending cell-boundary candidate
    (`NoTieAll`), the unit that was active is — time-sliced to the committed time — still in its recorded cell: this is the premise
    `hmove` of `JF.C11.update_inv` for a unit that stops being active, and `StaysInRecordedCell` for one that stays active.
This closes `JF.Links.active_unit_stays_in_recorded_cell`: its hypotheses `hb` (a pending cell-boundary candidate `ts +
timeToBoundary`, from C09) and `hleg` (minimality, from E1) are now derived. -/
theorem c11_active_in_recorded_cell_closed (H : Hyp env c S) {os : List (Oracle XTime)} {cs : List (Committed XTime)}
    {s : Sys} (hr : Reach env geo c S needs os cs s) (nt : TieFree c cs) (hO : hasOccOf c = true) {cl : Committed XTime}
    (hl : cs.getLast? = some cl) :
    OldActiveStays env s.occ s.usPrev s.usPrev ∧
    (kindOfH c cl.handler ≠ .cellBoundary → NoTieAll c (pendOf (fun _ => none) cs.dropLast) cl →
      OldActiveStays env s.occ s.usPrev s.us) := by
  obtain ⟨E, tl, a, pos, v, ts, big⟩ := jinv_big (joint_inv H hr nt) hl
  refine ⟨big.mirror hO, fun hk hnt => big.stays hO ?_ hnt⟩
  rw [← kindOfH_of_owner big.owner]; exact hk

/-- the last leg's no-tie hypothesis, from `TieFree` -/
theorem tieFree_last {cs : List (Committed XTime)} (nt : TieFree c cs) {cl : Committed XTime} (hl : cs.getLast? = some cl) :
    TieFreeLeg c (pendOf (fun _ => none) cs.dropLast) cl := by
  have hne : cs ≠ [] := by intro h; rw [h] at hl; simp at hl
  have hcs : cs = cs.dropLast ++ [cl] := by
    have := List.dropLast_append_getLast? cl (by rw [hl]; simp)
    exact this.symm
  have := nt cs.dropLast.length cl (by rw [hcs]; simp)
  rw [show cs.take cs.dropLast.length = cs.dropLast by
    conv_lhs => rw [hcs]
    simp] at this
  exact this

/-- **`StaysInRecordedCell` (the premise E8 carried inside `Tr`) is a theorem**: after a sampling / dumping commit the active
unit, time-sliced to the event time, is still in the cell the occupancy has recorded for it -/
theorem staysInRecordedCell_closed (H : Hyp env c S) {os : List (Oracle XTime)} {cs : List (Committed XTime)}
    {s : Sys} (hr : Reach env geo c S needs os cs s) (nt : TieFree c cs) (hO : hasOccOf c = true) {cl : Committed XTime}
    (hl : cs.getLast? = some cl) (hq : kindOfH c cl.handler = .sampling ∨ kindOfH c cl.handler = .dumping) :
    StaysInRecordedCell env s.occ s.us := by
  obtain ⟨E, tl, a, pos, v, ts, big⟩ := jinv_big (joint_inv H hr nt) hl
  have hkE : kindOfH c cl.handler = (c.tagger E).kind := kindOfH_of_owner big.owner
  have hq' : (c.tagger E).kind = .sampling ∨ (c.tagger E).kind = .dumping := by rw [← hkE]; exact hq
  have hncb : (c.tagger E).kind ≠ .cellBoundary := by rcases hq' with h | h <;> rw [h] <;> decide
  have hold := big.stays hO hncb (tieFree_last nt hl hq)
  have hdis : (∃ ev : Kin.Ev ℚ, allowedEv (c.tagger E).kind ev = true ∧ s.us = Kin.step env.o env.L s.usPrev ev) ∨
      ((c.tagger E).kind = .dumping ∧ s.us = s.usPrev) := by
    rcases big.commit with ⟨ev, hal, _, _, hus⟩ | h
    · exact Or.inl ⟨ev, hal, hus⟩
    · exact Or.inr h
  have hqk : quietKind (c.tagger E).kind = true := by rcases hq' with h | h <;> rw [h] <;> rfl
  have hmv := (movers_of_identQuiet (env := env) (Or.inl hqk) hdis).1
  intro a0 hm hrel
  exact hold a0 (by rw [← hmv]; exact hm) hrel

/-- the stronger no-tie hypothesis of `c11_occinv_closed`: NO event other than the cell-boundary event itself is committed at
exactly the time of a pending cell-boundary candidate (as `hne` of `JF.Links.active_unit_stays_in_recorded_cell`).  At such a tie a
lifting would re-insert the previous active unit, which then stands ON the cell boundary, under its old cell. -/
def TieFreeAll (c : Wiring) (cs : List (Committed XTime)) : Prop :=
  ∀ k cm, cs[k]? = some cm → kindOfH c cm.handler ≠ .cellBoundary → NoTieAll c (pendOf (fun _ => none) (cs.take k)) cm

theorem tieFree_of_all {cs : List (Committed XTime)} (h : TieFreeAll c cs) : TieFree c cs := by
  intro k cm hk hq
  apply h k cm hk
  rcases hq with hq | hq <;> rw [hq] <;> decide

theorem tieFreeAll_snoc {cs : List (Committed XTime)} {cm : Committed XTime} (h : TieFreeAll c (cs ++ [cm])) :
    TieFreeAll c cs := by
  intro k x hk
  have hlt : k < cs.length := (List.getElem?_eq_some_iff.mp hk).1
  have := h k x (by rw [List.getElem?_append_left hlt]; exact hk)
  rwa [List.take_append_of_le_length (Nat.le_of_lt hlt)] at this

theorem tieFreeAll_last {cs : List (Committed XTime)} (nt : TieFreeAll c cs) {cl : Committed XTime}
    (hl : cs.getLast? = some cl) (hk : kindOfH c cl.handler ≠ .cellBoundary) :
    NoTieAll c (pendOf (fun _ => none) cs.dropLast) cl := by
  have hcs : cs = cs.dropLast ++ [cl] := by
    have := List.dropLast_append_getLast? cl (by rw [hl]; simp)
    exact this.symm
  have := nt cs.dropLast.length cl (by rw [hcs]; simp) hk
  rw [show cs.take cs.dropLast.length = cs.dropLast by
    conv_lhs => rw [hcs]
    simp] at this
  exact this

/-- **`c11_occinv_closed` — C11's full invariant along every run, its history premise derived.**  At every leg of every run of a
wiring with an occupancy, for the state the leg works on (`s.usPrev`, the occupancy `s.occ` just updated):
`JF.C11.OccInv` — every relevant non-active point mass is recorded exactly once, in the occupant or surplus list of the cell
that contains its position, nothing else is recorded, the active unit is in no list but recorded as the active unit of the cell
containing its position, no cell exceeds the occupant limit — and no `update` ever raised.  The premise of
`JF.C11.update_inv` / `reach_inv` ("between two updates only a continuing active unit changes its cell") is no longer a hypothesis:
units at rest do not move (C07), and the unit that stops being active has not left its recorded cell (the joint invariant, under
the no-tie hypothesis `TieFreeAll`). -/
theorem c11_occinv_closed (H : Hyp env c S) {os : List (Oracle XTime)} {cs : List (Committed XTime)} {s : Sys}
    (hr : Reach env geo c S needs os cs s) (nta : TieFreeAll c cs) (hO : hasOccOf c = true) :
    C11.OccInv (relW env s.usPrev) (cellW env s.usPrev) s.occ := by
  induction hr with
  | init s h =>
    obtain ⟨cap, hocc⟩ := h.occInit
    rw [h.prev, hocc]
    exact init_occInv env s.us cap
  | @step os cs s s' o cm prev hgo hstep ih =>
    have nta0 := tieFreeAll_snoc nta
    have ih0 := ih nta0
    rw [hstep.prev]
    have hocc1 := hstep.occ1
    unfold occNext at hocc1
    rcases joint_inv H prev (tieFree_of_all nta0) with ⟨rfl, hi⟩ | ⟨cs0, cl, E, tl, a, pos, v, ts, rfl, big⟩
    · have hst : s.med.act.started = false := by rw [hi.med]; rfl
      rw [hst] at hocc1
      simp only [Bool.false_eq_true, if_false, Option.some.injEq] at hocc1
      rw [← hocc1, ← hi.prev]
      exact ih0
    · rw [big.started, hO] at hocc1
      simp only [if_true] at hocc1
      obtain ⟨hc, _⟩ := big.phase
      have hkE : kindOfH c cl.handler = (c.tagger E).kind := kindOfH_of_owner big.owner
      refine occ_step H.ho ih0 (by rw [hO] at hc; exact hc) big.kinPrev big.kin big.commit (big.mirror hO)
        (fun hncb => big.stays hO hncb ?_) hocc1
      exact tieFreeAll_last nta0 (by simp) (by rw [hkE]; exact hncb)

/-- **item 4 — `CandOK` of E1 holds along every run**: every pushed candidate time is not before the previous commit.  For the
handlers other than the cell-boundary handler this is the constraint `CandsOK` on the oracle; for the cell-boundary handler it is
DERIVED: its candidate is `time stamp of the active unit + geo.ttb`, the time stamp is the time of the last commit (C07), and the
time to the boundary is positive (`Geo.pos`: `JF.C11.boundary_pos`).  (`dumpQuiet`: a dumping event, which commits nothing, does
not create a cell-boundary handler — decidable, true for the shipped wirings.) -/
theorem candOK_closed (H : Hyp env c S) (hdq : dumpQuiet c = true) {os : List (Oracle XTime)}
    {cs : List (Committed XTime)} {s : Sys} (hr : Reach env geo c S needs os cs s) (nt : TieFree c cs) :
    MediatorLoop.Legs (CandOK xcfg) (fun _ => none) xcfg.bot cs := by
  induction hr with
  | init => trivial
  | @step os cs s s' o cm prev hgo hstep ih =>
    obtain ⟨nt0, _⟩ := tieFree_snoc nt
    rw [legs_snoc]
    refine ⟨ih nt0, ?_⟩
    show ∀ q ∈ cm.pushed, xcfg.lt q.2 (lastOf xcfg.bot cs) = false
    rcases joint_inv H prev nt0 with ⟨rfl, _⟩ | ⟨cs0, cl, E, tl, a, pos, v, ts, rfl, big⟩
    · intro q _; exact xcfg_strictWeak.bot_min q.2
    · rw [lastOf_snoc]; exact candOK_step H hdq big hstep

/-- **commit times never decrease** (C07's time order for the composed system), from `candOK_closed` and E1 — not from the
scheduler's own monotonicity assertion -/
theorem commit_times_sorted_closed (H : Hyp env c S) (hdq : dumpQuiet c = true) {os : List (Oracle XTime)}
    {cs : List (Committed XTime)} {s : Sys} (hr : Reach env geo c S needs os cs s) (nt : TieFree c cs) :
    cs.Pairwise (fun a b => xcfg.lt b.time a.time = false) :=
  commit_times_sorted_pairwise xcfg_strictWeak (specLaws xcfg_strictWeak) (hyp_static H) (reach_medRun hr)
    (candOK_closed H hdq hr nt)

/-- … and the assertion `_event_time_increasing` of the scheduler never fires in the next leg, whatever the oracle, as long as
the candidates of the handlers that leg hands out obey `CandsOK` -/
theorem guard_never_fires_closed (H : Hyp env c S) (hdq : dumpQuiet c = true) {os : List (Oracle XTime)}
    {cs : List (Committed XTime)} {s : Sys} (hr : Reach env geo c S needs os cs s) (nt : TieFree c cs) (o : Oracle XTime)
    (hc : ∀ a1 created, getToRun (mwire c S needs).w (mwire c S needs).S s.med.act s.med.preceding o.yields =
        (a1, .ok created) → CandsOK env geo c s.us s.med.sched.last o created) (h : HandlerId) :
    leg (mwire c S needs) (specI xcfg) s.med o ≠ .error (.schedGuard h) := by
  refine guard_never_fires (specLaws xcfg_strictWeak) (hyp_static H) (reach_medRun hr) o ?_ h
  intro x hx
  rcases joint_inv H hr nt with ⟨rfl, _⟩ | ⟨cs0, cl, E, tl, a, pos, v, ts, rfl, big⟩
  · exact xcfg_strictWeak.bot_min _
  · rw [lastOf_snoc]
    unfold createdOf at hx
    split at hx
    · next created hcr =>
      obtain ⟨q, hq, rfl⟩ := List.mem_map.mp hx
      have hg : getToRun (mwire c S needs).w (mwire c S needs).S s.med.act s.med.preceding o.yields =
          ((getToRun (mwire c S needs).w (mwire c S needs).S s.med.act s.med.preceding o.yields).1, .ok created) :=
        Prod.ext rfl hcr
      exact candOK_created H hdq big hg (hc _ _ hg) q hq
    · cases hx

/-- **`no_sample_skipped` — the C17 link.**  In every leg `k` of every run: while a sampling candidate with time `t_s` is pending
(in the middle of the leg), the event committed by the leg is not later than `t_s` (minimality, E1/C06), and when the sampling
handler itself commits, it commits at exactly `t_s` — the candidate time it returned when it was handed out
(`JF.MediatorLoop.pend_origin`).  With `commit_times_sorted_closed`: no event after `t_s` is committed before the sample. -/
theorem no_sample_skipped (H : Hyp env c S) {os : List (Oracle XTime)} {cs : List (Committed XTime)} {s : Sys}
    (hr : Reach env geo c S needs os cs s) {k : Nat} {cm : Committed XTime} (hk : cs[k]? = some cm)
    {hs : HandlerId} {ts : XTime} (_ : kindOfH c hs = .sampling)
    (hp : pendPushed (pendOf (fun _ => none) (cs.take k)) cm hs = some ts) (hfin : xcfg.finite ts = true) :
    xcfg.lt ts cm.time = false ∧ (cm.handler = hs → cm.time = ts) := by
  have legs := (MediatorLoop.run_inv (specLaws xcfg_strictWeak) (hyp_static H) (reach_medRun hr)
    (minv_init (specLaws xcfg_strictWeak) (mwire c S needs))).2
  have ok := legs_get _ _ _ legs k cm hk
  refine ⟨ok.minimal hs ts hp hfin, fun he => ?_⟩
  have := ok.pending
  rw [he, hp] at this
  exact (Option.some.inj this).symm

/-- the same in the rational order of the exact reading -/
theorem no_sample_skipped_val (H : Hyp env c S) {os : List (Oracle XTime)} {cs : List (Committed XTime)} {s : Sys}
    (hr : Reach env geo c S needs os cs s) {k : Nat} {cm : Committed XTime} (hk : cs[k]? = some cm)
    {hs : HandlerId} {ts t : Time ℚ} (hkind : kindOfH c hs = .sampling)
    (hp : pendPushed (pendOf (fun _ => none) (cs.take k)) cm hs = some (.fin ts)) (hts : Normalised ts)
    (ht : cm.time = .fin t) (htn : Normalised t) : val t ≤ val ts := by
  have := (no_sample_skipped H hr hk hkind hp rfl).1
  rw [ht] at this
  exact (xlt_false_iff hts htn).mp this

/-- **`c08_closed` — C08's first sentence for every run: the in-state of a committed interaction / cell-veto event is current.**
After every leg there is the bookkeeping `born` of C08 (`born h` = the concrete state in the middle of the leg in which `h` was
handed out last, i.e. the state its candidate was computed from — it is determined by `JF.C08.commit8` along the run `Reach8`),
and for the handler `cl.handler` the leg committed, if its tagger is an interaction or cell-veto tagger: every unit of its
in-state moves in the state the leg committed on (`s.usPrev`) as it did in `born cl.handler` — same velocity, same position if at
rest, on the same straight line (modulo the box) if moving (`SameMotion`).  More generally (`Current`) this holds for every
pending handler of every such tagger.  Both hypotheses of C08's `StepOK8` are discharged: the footprint hypothesis `quiet` by the
kinematic model (`same_of_quiet`), clause (h) by `WiringSound`. -/
theorem c08_closed (H : Hyp env c S) {os : List (Oracle XTime)} {cs : List (Committed XTime)} {s : Sys}
    (hr : Reach env geo c S needs os cs s) (nt : TieFree c cs) {cl : Committed XTime} (hl : cs.getLast? = some cl) :
    ∃ (hc : Consistent env (hasOccOf c) ⟨s.usPrev, s.occ⟩) (born : HandlerId → G env c),
      C08.Reach8 c.wires (world env c) (motionOf env c) S ⟨⟨s.mid, s.ids, ⟨⟨s.usPrev, s.occ⟩, hc⟩⟩, born⟩ ∧
      C08.Current (motionOf env c) ⟨⟨s.mid, s.ids, ⟨⟨s.usPrev, s.occ⟩, hc⟩⟩, born⟩ ∧
      ∀ E, owner c.wires cl.handler = some E → motionBound (c.tagger E) = true →
        ∀ u ∈ (motionOf env c).units (s.ids cl.handler), SameMotion env.L (born cl.handler).1.us s.usPrev u := by
  obtain ⟨E0, tl, a, pos, v, ts, big⟩ := jinv_big (joint_inv H hr nt) hl
  obtain ⟨hc, born, hr8⟩ := big.cur
  have hcur := (C08.current_of_reach (hyp_static (needs := needs) H).wf hr8).1
  refine ⟨hc, born, hr8, hcur, fun E hE hb u hu => ?_⟩
  rw [big.owner] at hE
  have : E0 = E := Option.some.inj hE
  subst this
  have hEn : E0 < c.n := by rw [← c.wires_length]; exact owner_lt big.owner
  exact hcur E0 ⟨hEn, hb⟩ cl.handler big.running u hu

/-- **`c08_stale_trashed_closed` — C08's second sentence for every run, without the footprint hypothesis.**  If leg `k` commits an event that may
change the motion of a unit (`affects · .motion`: anything but sampling, dumping, end of run, cell boundary) while the event of a
handler `h` of an interaction / cell-veto tagger is pending — i.e. `h`'s candidate was computed before that commit —, then `h`'s
event is in the trash list of leg `k`, and if `h` commits in a later leg `j`, it was handed out again (its candidate recomputed from
the then current state) in some leg `i` with `k < i ≤ j`.  Clause (h) is no longer a hypothesis: it comes from `WiringSound`
through the run of `JF.Act.Run` the joint invariant carries. -/
theorem c08_stale_trashed_closed (H : Hyp env c S) {os : List (Oracle XTime)} {cs : List (Committed XTime)} {s : Sys}
    (hr : Reach env geo c S needs os cs s) (nt : TieFree c cs) {k j : Nat} {ck cj : Committed XTime}
    (hk : cs[k]? = some ck) {E : TaggerIdx} (hE : owner c.wires ck.handler = some E)
    (hm : affects (c.tagger E) .motion = true) {h : HandlerId} {T : TaggerIdx} (hT : owner c.wires h = some T)
    (hb : motionBound (c.tagger T) = true)
    (hp : (pendPushed (pendOf (fun _ => none) (cs.take k)) ck h).isSome) :
    h ∈ ck.trashed ∧
    (k < j → cs[j]? = some cj → cj.handler = h →
      ∃ (i : Nat) (ci : Committed XTime), k < i ∧ i ≤ j ∧ cs[i]? = some ci ∧ h ∈ ci.created.map Prod.fst) := by
  have htr : h ∈ ck.trashed := by
    obtain ⟨s0, s1, o, hr0, hgo, hst⟩ := reach_leg hr hk
    have nt0 := tieFree_take nt k
    rcases joint_inv H hr0 nt0 with ⟨he, hi⟩ | ⟨cs0, cl, E0, tl, a, pos, v, ts, he, big⟩
    · -- the first leg: only the start-of-run handler is pending
      exfalso
      rw [he] at hp
      have := first_leg_pending_kind H hi hst hp
      rw [kindOfH_of_owner hT] at this
      rw [motionBound, this] at hb; simp at hb
    · have hl : (cs.take k).getLast? = some cl := by rw [he]; simp
      have hgo' := hgo cl hl
      have ntl := tieFree_last nt0 hl
      have hTn : T < c.n := by rw [← c.wires_length]; exact owner_lt hT
      obtain ⟨pmid, mirr, _⟩ := mid_mirror (hyp_static H) big.med hst.leg
      obtain ⟨T', hT'⟩ := (mirr h).mp hp
      have : owner c.wires h = some T' := owner_of_running (poolsOK_wires c) pmid hT'
      rw [hT] at this
      have : T = T' := Option.some.inj this
      subst this
      exact stale_trashed_step H big hgo' ntl hst hE hm hTn hb (by rw [hst.mid']; exact hT')
  refine ⟨htr, fun hkj hj hc => ?_⟩
  exact trashed_never_committed_run (specLaws xcfg_strictWeak) (hyp_static H) (reach_medRun hr) hk htr hkj hj hc

end

/-! ## the four shipped coulomb_atoms wirings satisfy the hypotheses (by `decide`) -/

open JF.Act.Gen JF.Footprints

theorem hyp_cell_bounded (env : Env ℚ) (ho : env.o = Ops.rat) : Hyp env cfg_coulomb_atoms_cell_bounded 7 :=
  ⟨ho, cfg_sound_coulomb_atoms_cell_bounded, by decide, supported_cell_bounded, by decide +kernel⟩
theorem hyp_cell_veto (env : Env ℚ) (ho : env.o = Ops.rat) : Hyp env cfg_coulomb_atoms_cell_veto 7 :=
  ⟨ho, cfg_sound_coulomb_atoms_cell_veto, by decide, supported_cell_veto, by decide +kernel⟩
theorem hyp_power_bounded (env : Env ℚ) (ho : env.o = Ops.rat) : Hyp env cfg_coulomb_atoms_power_bounded 3 :=
  ⟨ho, cfg_sound_coulomb_atoms_power_bounded, by decide, supported_power_bounded, by decide +kernel⟩
theorem hyp_power_bounded_dump (env : Env ℚ) (ho : env.o = Ops.rat) : Hyp env cfg_coulomb_atoms_power_bounded_dump 4 :=
  ⟨ho, cfg_sound_coulomb_atoms_power_bounded_dump, by decide, supported_power_bounded_dump, by decide +kernel⟩

theorem dumpQuiet_shipped : dumpQuiet cfg_coulomb_atoms_cell_bounded = true ∧ dumpQuiet cfg_coulomb_atoms_cell_veto = true ∧
    dumpQuiet cfg_coulomb_atoms_power_bounded = true ∧ dumpQuiet cfg_coulomb_atoms_power_bounded_dump = true := by
  decide +kernel

/-- the side condition `cbWired` is not trivially true: if the cell-boundary handler is driven by a tagger of another class, it fails -/
example : cbWired { cfg_coulomb_atoms_cell_bounded with taggers := cfg_coulomb_atoms_cell_bounded.taggers.map fun t =>
    if t.kind == .cellBoundary then { t with cls := .cellVeto } else t } 7 = false := by decide +kernel

section
variable {geo : ∀ env : Env ℚ, Geo env} {needs : HandlerId → Bool}

/-- **C09 for every run of `coulomb_atoms/cell_bounded.ini`** in the composed system (any geometry instance, any number of point
masses, any cell grid): no `FootprintsSound`, no `StaysInRecordedCell`, no `StepOK` hypothesis -/
theorem c09_fresh_cell_bounded (env : Env ℚ) (ho : env.o = Ops.rat) {os : List (Oracle XTime)} {cs : List (Committed XTime)}
    {s : Sys} (hr : Reach env (geo env) cfg_coulomb_atoms_cell_bounded 7 needs os cs s)
    (nt : TieFree cfg_coulomb_atoms_cell_bounded cs) (h2 : 2 ≤ cs.length) :
    ∃ hc : Consistent env (hasOccOf cfg_coulomb_atoms_cell_bounded) ⟨s.usPrev, s.occ⟩,
      ∀ T, (world env cfg_coulomb_atoms_cell_bounded).live T →
        Fresh (world env cfg_coulomb_atoms_cell_bounded) ⟨s.mid, s.ids, ⟨⟨s.usPrev, s.occ⟩, hc⟩⟩ T :=
  let ⟨hc, h, _⟩ := c09_fresh_closed (hyp_cell_bounded env ho) hr nt h2; ⟨hc, h⟩

theorem c09_fresh_cell_veto (env : Env ℚ) (ho : env.o = Ops.rat) {os : List (Oracle XTime)} {cs : List (Committed XTime)}
    {s : Sys} (hr : Reach env (geo env) cfg_coulomb_atoms_cell_veto 7 needs os cs s)
    (nt : TieFree cfg_coulomb_atoms_cell_veto cs) (h2 : 2 ≤ cs.length) :
    ∃ hc : Consistent env (hasOccOf cfg_coulomb_atoms_cell_veto) ⟨s.usPrev, s.occ⟩,
      ∀ T, (world env cfg_coulomb_atoms_cell_veto).live T →
        Fresh (world env cfg_coulomb_atoms_cell_veto) ⟨s.mid, s.ids, ⟨⟨s.usPrev, s.occ⟩, hc⟩⟩ T :=
  let ⟨hc, h, _⟩ := c09_fresh_closed (hyp_cell_veto env ho) hr nt h2; ⟨hc, h⟩

/-- a wiring without a cell-boundary handler needs no no-tie hypothesis -/
theorem tieFree_of_no_cb {c : Wiring} (h : (List.range c.n).all (fun E => (c.tagger E).kind != .cellBoundary) = true)
    (cs : List (Committed XTime)) : TieFree c cs := by
  intro k cm _ _ hb hkb
  exfalso
  unfold kindOfH at hkb
  cases ho : owner c.wires hb with
  | none => rw [ho] at hkb; cases hkb
  | some E =>
    rw [ho] at hkb
    have hE : E < c.n := by rw [← c.wires_length]; exact owner_lt ho
    have := List.all_eq_true.mp h E (List.mem_range.mpr hE)
    simp [hkb] at this

theorem c09_fresh_power_bounded (env : Env ℚ) (ho : env.o = Ops.rat) {os : List (Oracle XTime)} {cs : List (Committed XTime)}
    {s : Sys} (hr : Reach env (geo env) cfg_coulomb_atoms_power_bounded 3 needs os cs s) (h2 : 2 ≤ cs.length) :
    ∃ hc : Consistent env (hasOccOf cfg_coulomb_atoms_power_bounded) ⟨s.usPrev, s.occ⟩,
      ∀ T, (world env cfg_coulomb_atoms_power_bounded).live T →
        Fresh (world env cfg_coulomb_atoms_power_bounded) ⟨s.mid, s.ids, ⟨⟨s.usPrev, s.occ⟩, hc⟩⟩ T :=
  let ⟨hc, h, _⟩ := c09_fresh_closed (hyp_power_bounded env ho) hr (tieFree_of_no_cb (by decide) cs) h2; ⟨hc, h⟩

theorem c09_fresh_power_bounded_dump (env : Env ℚ) (ho : env.o = Ops.rat) {os : List (Oracle XTime)}
    {cs : List (Committed XTime)} {s : Sys}
    (hr : Reach env (geo env) cfg_coulomb_atoms_power_bounded_dump 4 needs os cs s) (h2 : 2 ≤ cs.length) :
    ∃ hc : Consistent env (hasOccOf cfg_coulomb_atoms_power_bounded_dump) ⟨s.usPrev, s.occ⟩,
      ∀ T, (world env cfg_coulomb_atoms_power_bounded_dump).live T →
        Fresh (world env cfg_coulomb_atoms_power_bounded_dump) ⟨s.mid, s.ids, ⟨⟨s.usPrev, s.occ⟩, hc⟩⟩ T :=
  let ⟨hc, h, _⟩ := c09_fresh_closed (hyp_power_bounded_dump env ho) hr (tieFree_of_no_cb (by decide) cs) h2; ⟨hc, h⟩

end

/-! ## non-vacuity: a run of `coulomb_atoms/cell_bounded.ini` with three point masses

The configuration of `JF.Footprints.Example`: one-dimensional box of length 1, seven cells (one layer of nearby cells),
`maximum_number_occupants = 1`, every unit relevant, units 0, 1, 2 at 1/14, 3/14, 9/14 (cells 0, 1, 4).  Six legs of the composed
system, every one computed by `JF.Med.leg` (`decide +kernel`): start of run at 0 (unit 0 starts moving, velocity 1) — the sampling
event at 1/28 while the cell-boundary candidate `0 + timeToBoundary = 1/14` is pending — that cell-boundary event (unit 0 enters
cell 1) — the accepted `coulomb_nearby` event at 5/56 (lifting 0 → 1; unit 0 goes to the surplus of cell 1) — the next sampling
event at 3/28 — the accepted `coulomb_surplus` event at 1/8 (lifting 1 → 0).  Every hypothesis of the theorems above holds for it:
`Hyp` (`hyp`), the geometry (`axisGeoPos box`), `Reach` (`reach6`), `TieFree` (`tieFree6`), `dumpQuiet`. -/

namespace Example
open JF.C11

abbrev cfg : Wiring := cfg_coulomb_atoms_cell_bounded

/-- seven cells of side 1/7 -/
def g7 : Grid := ⟨7, 1 / 7, by decide, by norm_num⟩

def env : Env ℚ :=
  { o := Ops.rat, L := [g7.L], grid := ⟨[7], 1⟩
    cellOf := fun p => (g7.idx (p.headD 0)).toNat
    relevant := fun _ => true }

def box : AxisBox env where
  grids := [g7]
  hn2 := by intro g hg; simp at hg; subst hg; decide
  hL := rfl
  hcell := by
    intro p q hp hq h
    have hpl : p.length = 1 := hp.length
    have hql : q.length = 1 := hq.length
    obtain ⟨x, rfl⟩ := List.length_eq_one_iff.mp hpl
    obtain ⟨y, rfl⟩ := List.length_eq_one_iff.mp hql
    have := h 0 (by simp) (by simp) (by simp)
    simp only [List.getElem_cons_zero] at this
    show (g7.idx x).toNat = (g7.idx y).toNat
    rw [this]

def geo : Geo env := axisGeoPos box

/-- the handlers of the taggers with an in-state: cell bounding, nearby, cell boundary, surplus (0–3), end of chain (5) -/
def needs : HandlerId → Bool := fun h => decide (h < 4 ∨ h = 5)

abbrev M : MWire := mwire cfg 7 needs

theorem hyp : Hyp env cfg 7 := hyp_cell_bounded env rfl

def us0 : List (PUnit ℚ) := [⟨[1/14], none, none⟩, ⟨[3/14], none, none⟩, ⟨[9/14], none, none⟩]
def occ0 : Occ.State := Occ.init 1 (unitsOf env us0)
example : (unitsOf env us0).map (fun u => (u.id, u.relevant, u.cell)) = [(0, true, 0), (1, true, 1), (2, true, 4)] := by
  decide +kernel
def s0 : Sys := Sys.init cfg us0 occ0

theorem init0 : Init env cfg s0 where
  med := rfl
  wf := by intro u hu; simp [s0, Sys.init, us0] at hu; rcases hu with rfl | rfl | rfl <;> simp [WFU, env]
  box := by
    intro u hu; simp [s0, Sys.init, us0] at hu
    rcases hu with rfl | rfl | rfl <;> norm_num [InBox, env, Grid.L, g7]
  rest := by intro u hu; simp [s0, Sys.init, us0] at hu; rcases hu with rfl | rfl | rfl <;> rfl
  occId := (init_active _ _).1
  occCell := (init_active _ _).2
  occInit := ⟨1, rfl⟩
  prev := rfl

theorem ok_of_toOption {ε α : Type} {e : Except ε α} {x : α} (h : e.toOption = some x) : e = .ok x := by
  cases e with
  | error _ => simp [Except.toOption] at h
  | ok y => simp only [Except.toOption, Option.some.injEq] at h; rw [h]

/-- the result of a leg that succeeds -/
def legR (s : Sys) (o : Oracle XTime) (h : (leg M (specI xcfg) s.med o).toOption.isSome = true) :
    MedState (SSched XTime) × Committed XTime := (leg M (specI xcfg) s.med o).toOption.get h

/-- the state after it, given the new global state and the occupancy the leg worked with -/
def nextS (s : Sys) (o : Oracle XTime) (h : (leg M (specI xcfg) s.med o).toOption.isSome = true)
    (us' : List (PUnit ℚ)) (occ' : Occ.State) : Sys :=
  ⟨(legR s o h).1, us', occ', assign s.ids (legR s o h).2.created, s.us, midAct M s.med o⟩

/-- the oracle of a leg: the yields are computed from the state, the candidate times are given -/
def mkO (us : List (PUnit ℚ)) (occ' : Occ.State) (cand : HandlerId → XTime) : Oracle XTime :=
  ⟨fun T => yieldCls env (cfg.tagger T).cls ⟨us, occ'⟩, cand⟩

theorem step_of (s : Sys) (occ' : Occ.State) (cand : HandlerId → XTime)
    (h : (leg M (specI xcfg) s.med (mkO s.us occ' cand)).toOption.isSome = true) (us' : List (PUnit ℚ))
    (hocc : occNext env (hasOccOf cfg) s = some occ')
    (hc : CandsOK env geo cfg s.us s.med.sched.last (mkO s.us occ' cand) (legR s _ h).2.created)
    (hev : ∃ t, (legR s _ h).2.time = .fin t ∧ Commits env geo (kindOfH cfg (legR s _ h).2.handler) t s.us us') :
    SysStep env geo cfg 7 needs s (mkO s.us occ' cand) (legR s _ h).2 (nextS s _ h us' occ') where
  occ1 := hocc
  yields := rfl
  leg := ok_of_toOption (Option.some_get h).symm
  cands := hc
  ev := hev
  ids' := rfl
  prev := rfl
  mid' := rfl

theorem normT (q : ℤ) (r : ℚ) (h0 : 0 ≤ r) (h1 : r < 1) : Normalised ⟨q, r⟩ := ⟨⟨q, rfl⟩, h0, h1⟩

/-- C07's `Smooth` for a cell-boundary event from a computation: the written coordinate IS the time-sliced one -/
theorem smooth_of_check {L : List ℚ} {us : List (PUnit ℚ)} {t : Time ℚ} {d : Nat} {x : ℚ}
    (h : (us.all fun u => !isMoving u || decide ((timeSlice Ops.rat L t u).pos[d]? = some x)) = true) :
    Smooth L us (.snap t d x) := by
  intro u hu hm hd hd'
  have := List.all_eq_true.mp h u hu
  simp only [hm, Bool.not_true, Bool.false_or, decide_eq_true_eq] at this
  rw [List.getElem?_eq_getElem hd'] at this
  exact Cong.of_eq (Option.some.inj this)

theorem velOK1 : geo.velOK [1] :=
  ⟨rfl, 0, by simp, by norm_num, by intro d' hd' hne; simp at hd'; omega⟩

/-! leg 1: the start-of-run handler (7) is handed out, commits at time 0: unit 0 starts moving with velocity 1 -/

def cand1 : HandlerId → XTime := fun _ => .fin ⟨0, 0⟩
theorem h1 : (leg M (specI xcfg) s0.med (mkO s0.us occ0 cand1)).toOption.isSome = true := by decide +kernel
def us1 : List (PUnit ℚ) := Kin.step Ops.rat env.L us0 (.start ⟨0, 0⟩ 0 [1])
def s1 : Sys := nextS s0 _ h1 us1 occ0
def c1 : Committed XTime := (legR s0 _ h1).2

theorem step1 : SysStep env geo cfg 7 needs s0 (mkO s0.us occ0 cand1) c1 s1 := by
  refine step_of s0 occ0 cand1 h1 us1 rfl ?_ ⟨⟨0, 0⟩, by decide +kernel, ?_⟩
  · have hcr : (legR s0 _ h1).2.created = [(7, none)] := by decide +kernel
    rw [hcr]
    intro q hq
    simp only [List.mem_singleton] at hq
    subst hq
    refine ⟨fun h => absurd h (by decide), fun _ => ⟨normT 0 0 (by norm_num) (by norm_num), by decide +kernel⟩⟩
  · have hk : kindOfH cfg (legR s0 _ h1).2.handler = .startOfRun := by decide +kernel
    rw [hk]
    exact Or.inl ⟨.start ⟨0, 0⟩ 0 [1], rfl, rfl, ⟨by decide, velOK1, init0.rest⟩, rfl⟩

/-! leg 2 -/

theorem hoccS (s : Sys) (hs : s.med.act.started = true) (h : (occAfter env (hasOccOf cfg) s.occ s.us).isSome = true) :
    occNext env (hasOccOf cfg) s = some ((occAfter env (hasOccOf cfg) s.occ s.us).get h) := by
  unfold occNext; rw [if_pos hs]; exact (Option.some_get h).symm

def occ1 : Occ.State := (occAfter env (hasOccOf cfg) s1.occ s1.us).get (by decide +kernel)
def cand2 : HandlerId → XTime := fun h =>
  if h = 2 then .fin (Time.add Ops.rat ⟨0, 0⟩ (axisTtb [g7] [1/14] [1]))
  else if h = 4 then .fin ⟨0, 1/28⟩ else if h = 1 then .fin ⟨0, 1/2⟩ else if h = 5 then .fin ⟨10, 0⟩
  else if h = 6 then .fin ⟨100, 0⟩ else .inf
theorem h2 : (leg M (specI xcfg) s1.med (mkO s1.us occ1 cand2)).toOption.isSome = true := by decide +kernel
def us2 : List (PUnit ℚ) := Kin.step env.o env.L s1.us (.keep ⟨0, 1/28⟩)
def s2 : Sys := nextS s1 _ h2 us2 occ1
def c2 : Committed XTime := (legR s1 _ h2).2

theorem step2 : SysStep env geo cfg 7 needs s1 (mkO s1.us occ1 cand2) c2 s2 := by
  refine step_of s1 occ1 cand2 h2 us2 (hoccS s1 (by decide +kernel) _) ?_ ⟨⟨0, 1/28⟩, by decide +kernel, ?_⟩
  · have hcr : (legR s1 _ h2).2.created =
        [(5, some [[0]]), (1, some [[0], [1]]), (0, some [[0], [2]]), (2, some [[0]]), (4, none), (6, none)] := by
      decide +kernel
    rw [hcr]
    intro q hq
    simp only [List.mem_cons, List.not_mem_nil, or_false] at hq
    rcases hq with rfl | rfl | rfl | rfl | rfl | rfl
    · exact ⟨fun h => absurd h (by decide), fun _ => ⟨normT 10 0 (by norm_num) (by norm_num), by decide +kernel⟩⟩
    · exact ⟨fun h => absurd h (by decide), fun _ => ⟨normT 0 (1/2) (by norm_num) (by norm_num), by decide +kernel⟩⟩
    · exact ⟨fun h => absurd h (by decide), fun _ => ⟨trivial, by decide +kernel⟩⟩
    · refine ⟨fun _ => ⟨0, s1.us[0]'(by decide +kernel), [1], ⟨0, 0⟩, rfl, List.getElem?_eq_getElem _, by decide +kernel,
        by decide +kernel, by decide +kernel⟩, fun h => absurd (by decide) h⟩
    · exact ⟨fun h => absurd h (by decide), fun _ => ⟨normT 0 (1/28) (by norm_num) (by norm_num), by decide +kernel⟩⟩
    · exact ⟨fun h => absurd h (by decide), fun _ => ⟨normT 100 0 (by norm_num) (by norm_num), by decide +kernel⟩⟩
  · have hk : kindOfH cfg (legR s1 _ h2).2.handler = .sampling := by decide +kernel
    rw [hk]
    exact Or.inl ⟨.keep ⟨0, 1/28⟩, rfl, rfl, trivial, rfl⟩

/-! leg 3: the sampling handler is handed out again (next sample at 3/28); the cell-boundary event of unit 0 (time 1/14) commits -/

def occ2 : Occ.State := (occAfter env (hasOccOf cfg) s2.occ s2.us).get (by decide +kernel)
def cand3 : HandlerId → XTime := fun h => if h = 4 then .fin ⟨0, 3/28⟩ else .inf
theorem h3 : (leg M (specI xcfg) s2.med (mkO s2.us occ2 cand3)).toOption.isSome = true := by decide +kernel
def us3 : List (PUnit ℚ) := Kin.step env.o env.L s2.us (.snap ⟨0, 1/14⟩ 0 (1/7))
def s3 : Sys := nextS s2 _ h3 us3 occ2
def c3 : Committed XTime := (legR s2 _ h3).2

theorem step3 : SysStep env geo cfg 7 needs s2 (mkO s2.us occ2 cand3) c3 s3 := by
  refine step_of s2 occ2 cand3 h3 us3 (hoccS s2 (by decide +kernel) _) ?_ ⟨⟨0, 1/14⟩, by decide +kernel, ?_⟩
  · have hcr : (legR s2 _ h3).2.created = [(4, none)] := by decide +kernel
    rw [hcr]
    intro q hq
    simp only [List.mem_singleton] at hq
    subst hq
    exact ⟨fun h => absurd h (by decide), fun _ => ⟨normT 0 (3/28) (by norm_num) (by norm_num), by decide +kernel⟩⟩
  · have hk : kindOfH cfg (legR s2 _ h3).2.handler = .cellBoundary := by decide +kernel
    rw [hk]
    refine Or.inl ⟨.snap ⟨0, 1/14⟩ 0 (1/7), rfl, rfl, ⟨?_, smooth_of_check (by decide +kernel)⟩, rfl⟩
    intro _
    norm_num [env, Grid.L, g7]

/-! leg 4: the cell taggers are re-created on the new cell; the `coulomb_nearby` event (0, 1) is accepted: lifting 0 → 1 -/

def occ3 : Occ.State := (occAfter env (hasOccOf cfg) s3.occ s3.us).get (by decide +kernel)
def cand4 : HandlerId → XTime := fun h =>
  if h = 2 then .fin (Time.add Ops.rat ⟨0, 1/14⟩ (axisTtb [g7] [1/7] [1]))
  else if h = 1 then .fin ⟨0, 5/56⟩ else .inf
theorem h4 : (leg M (specI xcfg) s3.med (mkO s3.us occ3 cand4)).toOption.isSome = true := by decide +kernel
def us4 : List (PUnit ℚ) := Kin.step env.o env.L s3.us (.lift ⟨0, 5/56⟩ 1)
def s4 : Sys := nextS s3 _ h4 us4 occ3
def c4 : Committed XTime := (legR s3 _ h4).2

theorem step4 : SysStep env geo cfg 7 needs s3 (mkO s3.us occ3 cand4) c4 s4 := by
  refine step_of s3 occ3 cand4 h4 us4 (hoccS s3 (by decide +kernel) _) ?_ ⟨⟨0, 5/56⟩, by decide +kernel, ?_⟩
  · have hcr : (legR s3 _ h4).2.created = [(1, some [[0], [1]]), (0, some [[0], [2]]), (2, some [[0]])] := by
      decide +kernel
    rw [hcr]
    intro q hq
    simp only [List.mem_cons, List.not_mem_nil, or_false] at hq
    rcases hq with rfl | rfl | rfl
    · exact ⟨fun h => absurd h (by decide), fun _ => ⟨normT 0 (5/56) (by norm_num) (by norm_num), by decide +kernel⟩⟩
    · exact ⟨fun h => absurd h (by decide), fun _ => ⟨trivial, by decide +kernel⟩⟩
    · refine ⟨fun _ => ⟨0, s3.us[0]'(by decide +kernel), [1], ⟨0, 1/14⟩, rfl, List.getElem?_eq_getElem _, by decide +kernel,
        by decide +kernel, by decide +kernel⟩, fun h => absurd (by decide) h⟩
  · have hk : kindOfH cfg (legR s3 _ h4).2.handler = .interaction := by decide +kernel
    rw [hk]
    exact Or.inl ⟨.lift ⟨0, 5/56⟩ 1, rfl, rfl, (by decide +kernel : 1 < s3.us.length), rfl⟩

/-! leg 5: the cell taggers are re-created for the new active unit 1 (unit 0 sits in the surplus of cell 1); the pending sampling
event (3/28) commits -/

def occ4 : Occ.State := (occAfter env (hasOccOf cfg) s4.occ s4.us).get (by decide +kernel)
def cand5 : HandlerId → XTime := fun h =>
  if h = 2 then .fin (Time.add Ops.rat ⟨0, 5/56⟩ (axisTtb [g7] [3/14] [1]))
  else if h = 3 then .fin ⟨0, 1/8⟩ else .inf
theorem h5 : (leg M (specI xcfg) s4.med (mkO s4.us occ4 cand5)).toOption.isSome = true := by decide +kernel
def us5 : List (PUnit ℚ) := Kin.step env.o env.L s4.us (.keep ⟨0, 3/28⟩)
def s5 : Sys := nextS s4 _ h5 us5 occ4
def c5 : Committed XTime := (legR s4 _ h5).2

theorem step5 : SysStep env geo cfg 7 needs s4 (mkO s4.us occ4 cand5) c5 s5 := by
  refine step_of s4 occ4 cand5 h5 us5 (hoccS s4 (by decide +kernel) _) ?_ ⟨⟨0, 3/28⟩, by decide +kernel, ?_⟩
  · have hcr : (legR s4 _ h5).2.created = [(0, some [[1], [2]]), (2, some [[1]]), (3, some [[1], [0]])] := by
      decide +kernel
    rw [hcr]
    intro q hq
    simp only [List.mem_cons, List.not_mem_nil, or_false] at hq
    rcases hq with rfl | rfl | rfl
    · exact ⟨fun h => absurd h (by decide), fun _ => ⟨trivial, by decide +kernel⟩⟩
    · refine ⟨fun _ => ⟨1, s4.us[1]'(by decide +kernel), [1], ⟨0, 5/56⟩, rfl, List.getElem?_eq_getElem _, by decide +kernel,
        by decide +kernel, by decide +kernel⟩, fun h => absurd (by decide) h⟩
    · exact ⟨fun h => absurd h (by decide), fun _ => ⟨normT 0 (1/8) (by norm_num) (by norm_num), by decide +kernel⟩⟩
  · have hk : kindOfH cfg (legR s4 _ h5).2.handler = .sampling := by decide +kernel
    rw [hk]
    exact Or.inl ⟨.keep ⟨0, 3/28⟩, rfl, rfl, trivial, rfl⟩

/-! leg 6: the `coulomb_surplus` event (1, 0), handed out in leg 5 and still pending after the sampling commit, is accepted -/

def occ5 : Occ.State := (occAfter env (hasOccOf cfg) s5.occ s5.us).get (by decide +kernel)
def cand6 : HandlerId → XTime := fun h => if h = 4 then .fin ⟨0, 1/2⟩ else .inf
theorem h6 : (leg M (specI xcfg) s5.med (mkO s5.us occ5 cand6)).toOption.isSome = true := by decide +kernel
def us6 : List (PUnit ℚ) := Kin.step env.o env.L s5.us (.lift ⟨0, 1/8⟩ 0)
def s6 : Sys := nextS s5 _ h6 us6 occ5
def c6 : Committed XTime := (legR s5 _ h6).2

theorem step6 : SysStep env geo cfg 7 needs s5 (mkO s5.us occ5 cand6) c6 s6 := by
  refine step_of s5 occ5 cand6 h6 us6 (hoccS s5 (by decide +kernel) _) ?_ ⟨⟨0, 1/8⟩, by decide +kernel, ?_⟩
  · have hcr : (legR s5 _ h6).2.created = [(4, none)] := by decide +kernel
    rw [hcr]
    intro q hq
    simp only [List.mem_singleton] at hq
    subst hq
    exact ⟨fun h => absurd h (by decide), fun _ => ⟨normT 0 (1/2) (by norm_num) (by norm_num), by decide +kernel⟩⟩
  · have hk : kindOfH cfg (legR s5 _ h6).2.handler = .interaction := by decide +kernel
    rw [hk]
    exact Or.inl ⟨.lift ⟨0, 1/8⟩ 0, rfl, rfl, (by decide +kernel : 0 < s5.us.length), rfl⟩

/-! the run -/

def os6 : List (Oracle XTime) :=
  [] ++ [mkO s0.us occ0 cand1] ++ [mkO s1.us occ1 cand2] ++ [mkO s2.us occ2 cand3] ++ [mkO s3.us occ3 cand4] ++
    [mkO s4.us occ4 cand5] ++ [mkO s5.us occ5 cand6]
def cs6 : List (Committed XTime) := [] ++ [c1] ++ [c2] ++ [c3] ++ [c4] ++ [c5] ++ [c6]
def os4 : List (Oracle XTime) := os6.take 4
def cs4 : List (Committed XTime) := cs6.take 4

theorem reach1 : Reach env geo cfg 7 needs ([] ++ [mkO s0.us occ0 cand1]) ([] ++ [c1]) s1 :=
  .step (.init s0 init0) (by simp) step1
theorem reach2 : Reach env geo cfg 7 needs ([] ++ [mkO s0.us occ0 cand1] ++ [mkO s1.us occ1 cand2]) ([] ++ [c1] ++ [c2]) s2 :=
  .step reach1 (by intro cl h; simp at h; subst h; decide +kernel) step2
theorem reach3 : Reach env geo cfg 7 needs
    ([] ++ [mkO s0.us occ0 cand1] ++ [mkO s1.us occ1 cand2] ++ [mkO s2.us occ2 cand3]) ([] ++ [c1] ++ [c2] ++ [c3]) s3 :=
  .step reach2 (by intro cl h; simp at h; subst h; decide +kernel) step3
theorem reach4 : Reach env geo cfg 7 needs os4 cs4 s4 :=
  .step reach3 (by intro cl h; simp at h; subst h; decide +kernel) step4
theorem reach5 : Reach env geo cfg 7 needs (os4 ++ [mkO s4.us occ4 cand5]) (cs4 ++ [c5]) s5 :=
  .step reach4 (by intro cl h; simp [cs4, cs6] at h; subst h; decide +kernel) step5
theorem reach6 : Reach env geo cfg 7 needs os6 cs6 s6 :=
  .step reach5 (by intro cl h; simp at h; subst h; decide +kernel) step6

/-- the committed handlers and times: start of run at 0, sampling at 1/28, cell boundary at 1/14, `coulomb_nearby` at 5/56,
sampling at 3/28, `coulomb_surplus` at 1/8 -/
example : cs6.map (·.handler) = [7, 4, 2, 1, 4, 3] ∧
    cs6.map (·.time) = [.fin ⟨0, 0⟩, .fin ⟨0, 1/28⟩, .fin ⟨0, 1/14⟩, .fin ⟨0, 5/56⟩, .fin ⟨0, 3/28⟩, .fin ⟨0, 1/8⟩] := by
  decide +kernel

/-- the only cell-boundary handler of the configuration is handler 2 -/
theorem cb_handler {hb : HandlerId} (h : kindOfH cfg hb = .cellBoundary) : hb = 2 := by
  unfold kindOfH at h
  cases ho : owner cfg.wires hb with
  | none => rw [ho] at h; cases h
  | some E =>
    rw [ho] at h
    have hE : E < 8 := owner_lt ho
    have hm := owner_mem ho
    revert h hm
    interval_cases E <;> intro h hm <;> first | (exact absurd h (by decide)) | skip
    have : (getW cfg.wires 2).pool = [2] := by decide
    rw [this] at hm
    simpa using hm

/-- **the no-tie hypotheses hold for this run** (the strong one, hence the weak one): no event other than the cell-boundary
event itself is committed at the time of the pending cell-boundary candidate (1/14, then 3/14, then 9/56) -/
theorem tieFreeAll6 : TieFreeAll cfg cs6 := by
  intro k cm hk hq hb hkb
  have := cb_handler hkb
  subst this
  have hk6 : k < 6 := (List.getElem?_eq_some_iff.mp hk).1
  interval_cases k
  all_goals
    simp only [cs6, List.nil_append, List.cons_append, List.getElem?_cons_zero, List.getElem?_cons_succ,
      Option.some.injEq] at hk
    subst hk
  · decide +kernel
  · decide +kernel
  · exact absurd (by decide +kernel) hq
  · decide +kernel
  · decide +kernel
  · decide +kernel

theorem tieFree6 : TieFree cfg cs6 := tieFree_of_all tieFreeAll6

theorem tieFree4 : TieFree cfg cs4 := tieFree_take tieFree6 4

/-! ### the theorems apply -/

/-- the joint invariant after the six legs -/
example : JInv env geo cfg 7 needs cs6 s6 := joint_inv hyp reach6 tieFree6

/-- C09 in the middle of the fourth leg, and it speaks about non-empty pending lists: the cell-bounding tagger's event carries
the tuple (0, 2), the nearby tagger's (0, 1), the cell-boundary tagger's (0,) -/
example : ∃ hc : Consistent env (hasOccOf cfg) ⟨s4.usPrev, s4.occ⟩,
    ∀ T, (world env cfg).live T → Fresh (world env cfg) ⟨s4.mid, s4.ids, ⟨⟨s4.usPrev, s4.occ⟩, hc⟩⟩ T :=
  let ⟨hc, h, _⟩ := c09_fresh_closed hyp reach4 tieFree4 (by decide); ⟨hc, h⟩
example : (getT s4.mid 0).running.map s4.ids = [some [[0], [2]]] ∧ (getT s4.mid 1).running.map s4.ids = [some [[0], [1]]] ∧
    (getT s4.mid 2).running.map s4.ids = [some [[0]]] := by decide +kernel

/-- the former premise after the sampling commit (leg 2): unit 0, time-sliced to 1/28, is still in its recorded cell 0 -/
example : StaysInRecordedCell env s2.occ s2.us :=
  staysInRecordedCell_closed hyp reach2 (tieFree_take (k := 2) tieFree6) rfl (cl := c2) (by simp) (by decide +kernel)
example : movers s2.us = [0] ∧ s2.occ.activeCell = some 0 := by decide +kernel

/-- C11's mirror in the middle of leg 4 (unit 0 in its recorded cell 1), and after the lifting (a commit that is not the
cell-boundary event, at a time — 5/56 — that is not the pending cell-boundary candidate 3/14): unit 0, time-sliced to 5/56, is
still in cell 1 when the occupancy re-inserts it there in the next leg -/
example : OldActiveStays env s4.occ s4.usPrev s4.usPrev ∧ OldActiveStays env s4.occ s4.usPrev s4.us := by
  have h := c11_active_in_recorded_cell_closed hyp reach4 tieFree4 rfl (cl := c4) (by simp [cs4, cs6])
  refine ⟨h.1, h.2 (by decide +kernel) ?_⟩
  intro hb hkb
  have := cb_handler hkb
  subst this
  decide +kernel
example : movers s4.usPrev = [0] ∧ s4.occ.activeCell = some 1 ∧ movers s4.us = [1] := by decide +kernel

/-- C11's full invariant in the middle of leg 6: unit 1 is active in cell 1, unit 0 (which stopped in cell 1 at the lifting of leg
4) is in the surplus of cell 1, unit 2 is the occupant of cell 4 — as `OccInv` for the positions of that moment says -/
example : C11.OccInv (relW env s6.usPrev) (cellW env s6.usPrev) s6.occ := c11_occinv_closed hyp reach6 tieFreeAll6 rfl
example : s6.occ.activeId = some 1 ∧ s6.occ.activeCell = some 1 ∧ s6.occ.surplus = [(1, [0])] ∧ s6.occ.occupants 4 = [2] ∧
    cellW env s6.usPrev 0 = 1 ∧ cellW env s6.usPrev 1 = 1 ∧ cellW env s6.usPrev 2 = 4 := by decide +kernel

/-- item 4 and the C17 link on the run: in leg 3 the sampling candidate 3/28 is pending, the committed time 1/14 is not later -/
example : cs6.Pairwise (fun a b => xcfg.lt b.time a.time = false) :=
  commit_times_sorted_closed hyp dumpQuiet_shipped.1 reach6 tieFree6
example : xcfg.lt (.fin ⟨0, 3/28⟩) c3.time = false :=
  (no_sample_skipped hyp reach6 (k := 2) (cm := c3) (by simp [cs6]) (hs := 4) (ts := .fin ⟨0, 3/28⟩) (by decide)
    (by decide +kernel) rfl).1

/-- `c08_stale_trashed_closed`: the lifting of leg 4 (tagger 1, motion-changing) finds the cell-bounding event of handler 0
pending — it is in the trash list of that leg -/
example : (0 : HandlerId) ∈ c4.trashed :=
  (c08_stale_trashed_closed hyp reach6 tieFree6 (k := 3) (j := 3) (ck := c4) (cj := c4) (by simp [cs6]) (E := 1)
    (by decide +kernel) (by decide) (h := 0) (T := 0) (by decide) (by decide) (by decide +kernel)).1

/-- `c08_closed`: the `coulomb_surplus` event of handler 3 committed in leg 6 was computed in leg 5 (unit 1 at 3/14 with time stamp
5/56, unit 0 at rest); in between the sampling event time-sliced unit 1 to 13/56: both units of the in-state still move as they
did (unit 1 on its line, unit 0 where it was) -/
example : ∃ born : HandlerId → G env cfg,
    ∀ u ∈ (motionOf env cfg).units (s6.ids c6.handler), SameMotion env.L (born c6.handler).1.us s6.usPrev u :=
  let ⟨_, born, _, _, h⟩ := c08_closed hyp reach6 tieFree6 (cl := c6) (by simp [cs6])
  ⟨born, h 3 (by decide +kernel) (by decide)⟩
example : c6.handler = 3 ∧ (motionOf env cfg).units (s6.ids 3) = [1, 0] ∧ (c5.created.map Prod.fst).contains 3 = true ∧
    (s6.usPrev[1]?.map (·.pos)) = some [13/56] := by decide +kernel

end Example

end JF.SystemInv
