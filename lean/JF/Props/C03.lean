import JF.Model.Potential.Derivative
import JF.Model.Potential.DerivativeEwald
import Mathlib.Analysis.SpecialFunctions.Pow.Deriv
/-!
# C03 — Reported event rates are the directional derivative of the model energy
-/
namespace JF.C03
open JF JF.Deriv

/-- direction `d` is handled by rotating component `d` to the front -/
theorem perm_x {α : Type} (v : V3 α) (d : Nat) : (v.perm d).x = v.get d := by
  unfold V3.perm V3.get; split <;> rfl

end JF.C03
