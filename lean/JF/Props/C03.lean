import JF.Lemmas.DerivReal
import JF.Lemmas.DerivEwald
import JF.Lemmas.DerivBend
import Mathlib.MeasureTheory.Integral.IntervalIntegral.FundThmCalculus
/-!
# C03 — Reported event rates are the directional derivative of the model energy

Exact reading (`DOps.real`, Mathlib's real functions, `erfc` a parameter) of the SAME definitions that the
driver runs in binary64 against the real classes and the compiled C.

Sign convention throughout: separation = target − active, the ACTIVE unit moves with velocity `v`, so the
separation at time `t` is `s − t·v` (`V3.subSmul`), and the reported value is `d/dt U(s − t·v)` at `t = 0`.

Proved for ALL inputs in the stated domains (no sampling):
* `ip_derivative_correct`, `lj_derivative_correct`, `dep_derivative_correct`, `bound_derivative_correct`:
  the class's `derivative` returns `.ok val` with `HasDerivAt (fun t => U (s − t v)) val 0`, `val` given in closed
  form (linear in speed and charge product); every constructible parameter set, every standard velocity, every
  separation except the origin (where `ip_svd_origin` shows the `ZeroDivisionError` outcome);
* `derivative_rejects_nonstandard` with `stdVel_of_analyseVelocity`: exactly the standard velocities are accepted;
* `perm_x`, `perm_nsq`, `perm_moved`: direction `d` is the `x` routine on the rotated separation;
* `bend_derivative_correct`: the three bending values are the time derivatives for unit `i`, `j`, `k` moving, and sum
  to zero; `bend_derivative_sum_zero`: they sum to zero on EVERY input on which the routine returns;
* Ewald routine: `ewaldC_eq` (recurrence_spec: the loops with the three trigonometric recurrences and their reset
  pattern compute the plain octant sum), `ewaldC_odd_x`, `ewaldC_zero_x`, `fourier_part_periodic`,
  `ewaldC_homogeneous`.

PARTIAL (named so): `ewald_deriv_partial`, `merged_derivative_partial` — the routine's value is the derivative of the
TRUNCATED Ewald energy (integer ball / octant cut-offs as in the C code, `erfc` any function with the right
derivative).  The clause "derivative of the fully converged lattice sum, independent of the splitting parameter,
periodic in the box" is a truncation-error statement about an infinite conditionally convergent sum; it is NOT
proved here (it is probed numerically by the oracle of `harness/props/c03.py` for the shipped parameter sets inside
the minimum-image cube).  Also not proved: that the per-direction truncated energies `E_trunc ∘ perm_d` are one and the
same function of the separation (the `i = 0` Fourier modes are dropped per direction); rounding error of the binary64
reading (covered by the correspondence run only).
-/
namespace JF.C03
open JF JF.Deriv Real

variable (e : ℝ → ℝ)

/-! ## energies (written from the class docstrings) -/

/-- `U = c_i c_j k / |r|^p` -/
noncomputable def ipEnergy (power k cc : ℝ) (s : V3 ℝ) : ℝ := cc * k / (√(s.nsq)) ^ power

/-- `U = c_i c_j k / |r|` (the bound of the merged-image Coulomb potential) -/
noncomputable def boundEnergy (pp : ℝ) (s : V3 ℝ) : ℝ := pp / √(s.nsq)

/-! ## direction `d` is handled by rotating component `d` to the front -/

theorem perm_x {α : Type} (v : V3 α) (d : Nat) : (v.perm d).x = v.get d := by
  unfold V3.perm V3.get; split <;> rfl

/-- the rotation is a permutation of the components: the squared norm is unchanged -/
theorem perm_nsq (s : V3 ℝ) (d : ℕ) : (s.perm d).nsq = s.nsq := by
  unfold V3.perm V3.nsq; split <;> ring

/-! ## inverse power potential -/

theorem ip_make_ok {power k : ℝ} (hk : k ≠ 0) (hp : 0 < power) :
    IP.make (DOps.real e) power k = .ok ⟨power, k, power + 2⟩ := by
  simp [IP.make, hk, hp]

theorem ip_make_inv {power k : ℝ} {p : IP ℝ} (h : IP.make (DOps.real e) power k = .ok p) :
    k ≠ 0 ∧ 0 < power ∧ p = ⟨power, k, power + 2⟩ := by
  unfold IP.make at h
  split_ifs at h with h1 h2
  simp only [real_ofInt, Int.cast_zero, beq_iff_eq, Bool.not_eq_true', decide_eq_false_iff_not, not_not] at h1 h2
  exact ⟨h1, h2, by simpa using h.symm⟩

/-- value of `InversePowerPotential.standard_velocity_derivative` away from the origin -/
theorem ip_svd_eq (p : IP ℝ) (d : ℕ) (s : V3 ℝ) (c1 c2 : ℝ) (hs : s.nsq ≠ 0) :
    p.svd (DOps.real e) d s c1 c2
      = .ok (p.power * s.get d / (√(s.nsq)) ^ p.powerPlusTwo * p.prefactor * c1 * c2) := by
  have hn : 0 < √(s.nsq) := Real.sqrt_pos.mpr (lt_of_le_of_ne s.nsq_nonneg (Ne.symm hs))
  have hden : (√(s.nsq)) ^ p.powerPlusTwo ≠ 0 := (Real.rpow_pos_of_pos hn _).ne'
  simp [IP.svd, norm_real, pyPow_real, pyDiv_real e _ _ hden, bind, Except.bind, pure, Except.pure]

/-- at the origin the routine raises `ZeroDivisionError` (for a positive power) -/
theorem ip_svd_origin (p : IP ℝ) (d : ℕ) (c1 c2 : ℝ) (hp : p.powerPlusTwo ≠ 0) :
    p.svd (DOps.real e) d ⟨0, 0, 0⟩ c1 c2 = .error "ZeroDivisionError" := by
  simp [IP.svd, norm_real, pyPow_real, V3.nsq, Real.zero_rpow hp, pyDiv_real_zero, bind, Except.bind]

/-- **C03 for the inverse power potential, space derivative**: the routine's value is the derivative of
`U(s − x e_d)` at `x = 0`. -/
theorem ip_svd_hasDerivAt (power k : ℝ) (d : ℕ) (s : V3 ℝ) (c1 c2 : ℝ) (hs : s.nsq ≠ 0) :
    HasDerivAt (fun x => ipEnergy power k (c1 * c2) (s.moved d x))
      (power * s.get d / (√(s.nsq)) ^ (power + 2) * k * c1 * c2) 0 := by
  have hn : 0 < √(s.nsq) := Real.sqrt_pos.mpr (lt_of_le_of_ne s.nsq_nonneg (Ne.symm hs))
  have h1 := norm_moved_hasDerivAt s d hs
  have h2 := h1.rpow_const (p := power) (Or.inl (by simpa using hn.ne'))
  have hP : 0 < (√(s.nsq)) ^ power := Real.rpow_pos_of_pos hn _
  have h3 := (h2.inv (by simpa using hP.ne')).const_mul (c1 * c2 * k)
  have e1 : (√(s.nsq)) ^ (power + 2) = (√(s.nsq)) ^ power * (√(s.nsq)) ^ 2 := by
    rw [Real.rpow_add hn]; norm_cast
  have e2 : (√(s.nsq)) ^ (power - 1) = (√(s.nsq)) ^ power / √(s.nsq) := Real.rpow_sub_one hn.ne' _
  unfold ipEnergy
  refine (h3.congr_deriv ?_).congr_of_eventuallyEq (Filter.Eventually.of_forall fun x => ?_)
  · simp only [moved_zero]
    rw [e1, e2]
    field_simp
  · simp only [div_eq_mul_inv, Pi.inv_apply]

/-- **C03 for the inverse power potential, full statement**: for every constructible potential, every
standard velocity, every separation but the origin and every charge pair the class returns the time
derivative of the pair energy along the motion of the active unit (linear in speed and charge product). -/
theorem ip_derivative_correct {power k : ℝ} {p : IP ℝ} (hp : IP.make (DOps.real e) power k = .ok p)
    {v : V3 ℝ} {d : ℕ} {sp : ℝ} (hv : StdVel v d sp) (s : V3 ℝ) (c1 c2 : ℝ) (hs : s.nsq ≠ 0) :
    ∃ val, p.derivative (DOps.real e) v s c1 c2 = .ok val ∧
      val = power * s.get d / (√(s.nsq)) ^ (power + 2) * k * c1 * c2 * sp ∧
      HasDerivAt (fun t => ipEnergy power k (c1 * c2) (s.subSmul v t)) val 0 := by
  obtain ⟨_, _, rfl⟩ := ip_make_inv e hp
  have h := timeDerivative_hasDerivAt e (U := ipEnergy power k (c1 * c2))
    (svd := fun d => IP.svd (DOps.real e) ⟨power, k, power + 2⟩ d s c1 c2) hv
    (ip_svd_eq e ⟨power, k, power + 2⟩ d s c1 c2 hs) (ip_svd_hasDerivAt power k d s c1 c2 hs)
  exact ⟨_, h.1, rfl, h.2⟩

/-- non-vacuity: the Coulomb case `p = 1`, `k = 1`, unit speed along `y`, separation `(1, 2, 2)` (`|s| = 3`) -/
example : ∃ p, IP.make (DOps.real e) 1 1 = .ok p ∧ StdVel ⟨0, 1, 0⟩ 1 1 ∧ (⟨1, 2, 2⟩ : V3 ℝ).nsq ≠ 0 :=
  ⟨_, ip_make_ok e one_ne_zero one_pos, ⟨one_pos, Or.inr (Or.inl ⟨rfl, rfl⟩)⟩, by norm_num [V3.nsq]⟩

/-! ## the 1/r bound (C routine `derivative` of `inverse_power_coulomb_bounding_potential.c`) -/

theorem rpow_three_halves {q : ℝ} (hq : 0 ≤ q) : q ^ ((3 : ℝ) / 2) = √q ^ 3 := by
  rw [Real.sqrt_eq_rpow, ← Real.rpow_natCast, ← Real.rpow_mul hq]; norm_num

/-- value of the wrapper: the C routine on the rotated separation -/
theorem bound_svd_eq (p : Bound ℝ) (d : ℕ) (s : V3 ℝ) (c1 c2 : ℝ) :
    p.svd (DOps.real e) d s c1 c2 = p.prefactor * c1 * c2 * s.get d / √(s.nsq) ^ 3 := by
  have h := perm_nsq s d
  have hx := perm_x s d
  simp only [V3.nsq] at h
  simp only [Bound.svd, boundC, real_pow, real_ofInt]
  rw [h, hx, show ((3 : ℤ) : ℝ) / ((2 : ℤ) : ℝ) = (3 : ℝ) / 2 by norm_num]
  have := rpow_three_halves s.nsq_nonneg
  simp only [V3.nsq] at this
  rw [this]; rfl

theorem bound_svd_hasDerivAt (pp : ℝ) (d : ℕ) (s : V3 ℝ) (hs : s.nsq ≠ 0) :
    HasDerivAt (fun x => boundEnergy pp (s.moved d x)) (pp * s.get d / √(s.nsq) ^ 3) 0 := by
  have hn : 0 < √(s.nsq) := Real.sqrt_pos.mpr (lt_of_le_of_ne s.nsq_nonneg (Ne.symm hs))
  have h3 := ((norm_moved_hasDerivAt s d hs).inv (by simpa using hn.ne')).const_mul pp
  unfold boundEnergy
  refine (h3.congr_deriv ?_).congr_of_eventuallyEq (Filter.Eventually.of_forall fun x => ?_)
  · simp only [moved_zero]; field_simp
  · simp only [div_eq_mul_inv, Pi.inv_apply]

/-- **C03 for the 1/r bound**: the class returns the time derivative of `k c₁c₂/|s − t v|`. -/
theorem bound_derivative_correct (p : Bound ℝ) {v : V3 ℝ} {d : ℕ} {sp : ℝ} (hv : StdVel v d sp)
    (s : V3 ℝ) (c1 c2 : ℝ) (hs : s.nsq ≠ 0) :
    ∃ val, p.derivative (DOps.real e) v s c1 c2 = .ok val ∧
      val = p.prefactor * c1 * c2 * s.get d / √(s.nsq) ^ 3 * sp ∧
      HasDerivAt (fun t => boundEnergy (p.prefactor * c1 * c2) (s.subSmul v t)) val 0 := by
  have h := timeDerivative_hasDerivAt e (U := boundEnergy (p.prefactor * c1 * c2))
    (svd := fun d => .ok (p.svd (DOps.real e) d s c1 c2)) hv
    (by rw [bound_svd_eq]) (bound_svd_hasDerivAt (p.prefactor * c1 * c2) d s hs)
  exact ⟨_, h.1, rfl, h.2⟩

example : StdVel ⟨0, 0, 2⟩ 2 2 ∧ (⟨1, 2, 2⟩ : V3 ℝ).nsq ≠ 0 :=
  ⟨⟨two_pos, Or.inr (Or.inr ⟨rfl, rfl⟩)⟩, by norm_num [V3.nsq]⟩

/-! ## Lennard-Jones -/

/-- `U = k ((σ/|r|)^12 − (σ/|r|)^6)` -/
noncomputable def ljEnergy (k cl : ℝ) (s : V3 ℝ) : ℝ := k * ((cl / √(s.nsq)) ^ 12 - (cl / √(s.nsq)) ^ 6)

theorem mexicanHatInit_real (k r : ℝ) :
    mexicanHatInit (DOps.real e) k r = if 0 < k ∧ 0 < r then .ok () else .error "ConfigurationError" := by
  unfold mexicanHatInit
  by_cases hk0 : k = 0
  · simp [hk0]
  · by_cases hk : 0 < k <;> by_cases hr : 0 < r <;> simp [hk0, hk, hr]

theorem lj_make_inv {k cl : ℝ} {p : LJ ℝ} (h : LJ.make (DOps.real e) k cl = .ok p) :
    0 < k ∧ 0 < cl ∧ p = ⟨⟨6, -k * cl ^ 6, 6 + 2⟩, ⟨12, k * cl ^ 12, 12 + 2⟩⟩ := by
  have h2 : (0 : ℝ) < (2 : ℝ) ^ ((1 : ℝ) / 6) := Real.rpow_pos_of_pos two_pos _
  unfold LJ.make at h
  rw [mexicanHatInit_real] at h
  split_ifs at h with hc
  · obtain ⟨hk, hm⟩ := hc
    simp only [real_ofInt, real_pow, Int.cast_ofNat, Int.cast_one] at hm
    have hc : 0 < cl := pos_of_mul_pos_left hm h2.le
    have h6 : cl ^ 6 ≠ 0 := (pow_pos hc 6).ne'
    have h12 : cl ^ 12 ≠ 0 := (pow_pos hc 12).ne'
    have e6 : cl ^ (6 : ℝ) = cl ^ 6 := by exact_mod_cast Real.rpow_natCast cl 6
    have e12 : cl ^ (12 : ℝ) = cl ^ 12 := by exact_mod_cast Real.rpow_natCast cl 12
    simp [IP.make, pyPow_real, bind, Except.bind, hk.ne', e6, e12, h6, h12, pure, Except.pure] at h
    exact ⟨hk, hc, by rw [← h, neg_mul]⟩
  · simp [bind, Except.bind] at h

theorem lj_energy_split (k cl : ℝ) (s : V3 ℝ) (hs : s.nsq ≠ 0) :
    ljEnergy k cl s = ipEnergy 6 (-k * cl ^ 6) (1 * 1) s + ipEnergy 12 (k * cl ^ 12) (1 * 1) s := by
  have hn : 0 < √(s.nsq) := Real.sqrt_pos.mpr (lt_of_le_of_ne s.nsq_nonneg (Ne.symm hs))
  have e6 : √(s.nsq) ^ (6 : ℝ) = √(s.nsq) ^ 6 := by exact_mod_cast Real.rpow_natCast _ 6
  have e12 : √(s.nsq) ^ (12 : ℝ) = √(s.nsq) ^ 12 := by exact_mod_cast Real.rpow_natCast _ 12
  unfold ljEnergy ipEnergy
  rw [e6, e12]
  field_simp
  ring

/-- **C03 for the Lennard-Jones potential** -/
theorem lj_derivative_correct {k cl : ℝ} {p : LJ ℝ} (hp : LJ.make (DOps.real e) k cl = .ok p)
    {v : V3 ℝ} {d : ℕ} {sp : ℝ} (hv : StdVel v d sp) (s : V3 ℝ) (hs : s.nsq ≠ 0) :
    ∃ val, p.derivative (DOps.real e) v s = .ok val ∧
      val = (6 * s.get d / √(s.nsq) ^ ((6 : ℝ) + 2) * (-k * cl ^ 6) * 1 * 1
              + 12 * s.get d / √(s.nsq) ^ ((12 : ℝ) + 2) * (k * cl ^ 12) * 1 * 1) * sp ∧
      HasDerivAt (fun t => ljEnergy k cl (s.subSmul v t)) val 0 := by
  obtain ⟨_, _, rfl⟩ := lj_make_inv e hp
  have hsvd : LJ.svd (DOps.real e) ⟨⟨6, -k * cl ^ 6, 6 + 2⟩, ⟨12, k * cl ^ 12, 12 + 2⟩⟩ d s
      = .ok (6 * s.get d / √(s.nsq) ^ ((6 : ℝ) + 2) * (-k * cl ^ 6) * 1 * 1
              + 12 * s.get d / √(s.nsq) ^ ((12 : ℝ) + 2) * (k * cl ^ 12) * 1 * 1) := by
    simp only [LJ.svd, ip_svd_eq e _ d s _ _ hs, bind, Except.bind, pure, Except.pure, real_ofInt, Int.cast_one]
  have hd := (ip_svd_hasDerivAt 6 (-k * cl ^ 6) d s 1 1 hs).add (ip_svd_hasDerivAt 12 (k * cl ^ 12) d s 1 1 hs)
  have hs' : ∀ᶠ x in nhds (0 : ℝ), (s.moved d x).nsq ≠ 0 := by
    have hc : ContinuousAt (fun x => (s.moved d x).nsq) 0 := (nsq_moved_hasDerivAt s d).continuousAt
    exact hc.eventually_ne (by simpa using hs)
  have hU : HasDerivAt (fun x => ljEnergy k cl (s.moved d x)) _ 0 :=
    hd.congr_of_eventuallyEq (hs'.mono fun x hx => lj_energy_split k cl _ hx)
  have h := timeDerivative_hasDerivAt e (U := ljEnergy k cl) (svd := fun d => LJ.svd (DOps.real e) _ d s) hv hsvd hU
  exact ⟨_, h.1, rfl, h.2⟩

example : ∃ p, LJ.make (DOps.real e) 1 1 = .ok p := by
  have h2 : (0 : ℝ) < (2 : ℝ) ^ ((1 : ℝ) / 6) := Real.rpow_pos_of_pos two_pos _
  refine ⟨⟨⟨6, -1, 6 + 2⟩, ⟨12, 1, 12 + 2⟩⟩, ?_⟩
  unfold LJ.make
  rw [mexicanHatInit_real, if_pos ⟨one_pos, by simpa using h2⟩]
  simp [IP.make, pyPow_real, bind, Except.bind, pure, Except.pure]

/-! ## displaced even power -/

/-- `U = k (|r| − r₀)^p` -/
noncomputable def depEnergy (k r0 : ℝ) (power : ℤ) (s : V3 ℝ) : ℝ := k * (√(s.nsq) - r0) ^ power

theorem dep_make_inv {k r0 : ℝ} {power : ℤ} {p : DEP ℝ} (h : DEP.make (DOps.real e) r0 power k = .ok p) :
    0 < k ∧ 0 < r0 ∧ 0 < power ∧ power % 2 = 0 ∧ p = ⟨r0, power, k⟩ := by
  unfold DEP.make at h
  rw [mexicanHatInit_real] at h
  by_cases hc : 0 < k ∧ 0 < r0
  · rw [if_pos hc] at h
    simp only [bind, Except.bind] at h
    split_ifs at h with hq
    simp only [Bool.not_eq_true, Bool.not_eq_false', Bool.and_eq_true, decide_eq_true_eq, beq_iff_eq] at hq
    cases h
    exact ⟨hc.1, hc.2, hq.1, hq.2, rfl⟩
  · rw [if_neg hc] at h
    simp [bind, Except.bind] at h

theorem dep_svd_eq (p : DEP ℝ) (d : ℕ) (s : V3 ℝ) (hs : s.nsq ≠ 0) :
    p.svd (DOps.real e) d s
      = .ok ((-p.power : ℤ) * p.prefactor * (√(s.nsq) - p.eqSep) ^ (p.power - 1) * s.get d / √(s.nsq)) := by
  have hn : √(s.nsq) ≠ 0 := (Real.sqrt_pos.mpr (lt_of_le_of_ne s.nsq_nonneg (Ne.symm hs))).ne'
  simp only [DEP.svd, norm_real, pyPow_real, pyDiv_real e _ _ hn, bind, Except.bind, real_ofInt,
    Real.rpow_intCast]

theorem dep_svd_hasDerivAt (k r0 : ℝ) (power : ℤ) (hp : 0 < power) (d : ℕ) (s : V3 ℝ) (hs : s.nsq ≠ 0) :
    HasDerivAt (fun x => depEnergy k r0 power (s.moved d x))
      ((-power : ℤ) * k * (√(s.nsq) - r0) ^ (power - 1) * s.get d / √(s.nsq)) 0 := by
  have hn : √(s.nsq) ≠ 0 := (Real.sqrt_pos.mpr (lt_of_le_of_ne s.nsq_nonneg (Ne.symm hs))).ne'
  have h1 := (norm_moved_hasDerivAt s d hs).sub_const r0
  have hz : HasDerivAt (fun y : ℝ => y ^ power) (power * (√(s.nsq) - r0) ^ (power - 1))
      (√((s.moved d 0).nsq) - r0) := by
    simpa using hasDerivAt_zpow power (√(s.nsq) - r0) (Or.inr hp.le)
  have h3 := (hz.comp (0 : ℝ) h1).const_mul k
  unfold depEnergy
  refine (h3.congr_deriv ?_).congr_of_eventuallyEq (Filter.Eventually.of_forall fun x => ?_)
  · push_cast; field_simp
  · rfl

/-- **C03 for the displaced even power potential** -/
theorem dep_derivative_correct {k r0 : ℝ} {power : ℤ} {p : DEP ℝ}
    (hp : DEP.make (DOps.real e) r0 power k = .ok p)
    {v : V3 ℝ} {d : ℕ} {sp : ℝ} (hv : StdVel v d sp) (s : V3 ℝ) (hs : s.nsq ≠ 0) :
    ∃ val, p.derivative (DOps.real e) v s = .ok val ∧
      val = (-power : ℤ) * k * (√(s.nsq) - r0) ^ (power - 1) * s.get d / √(s.nsq) * sp ∧
      HasDerivAt (fun t => depEnergy k r0 power (s.subSmul v t)) val 0 := by
  obtain ⟨_, _, hpos, _, rfl⟩ := dep_make_inv e hp
  have h := timeDerivative_hasDerivAt e (U := depEnergy k r0 power)
    (svd := fun d => DEP.svd (DOps.real e) ⟨r0, power, k⟩ d s) hv
    (dep_svd_eq e ⟨r0, power, k⟩ d s hs) (dep_svd_hasDerivAt k r0 power hpos d s hs)
  exact ⟨_, h.1, rfl, h.2⟩

example : ∃ p, DEP.make (DOps.real e) 1 2 1 = .ok p := by
  refine ⟨⟨1, 2, 1⟩, ?_⟩
  unfold DEP.make
  rw [mexicanHatInit_real, if_pos ⟨one_pos, one_pos⟩]
  simp [bind, Except.bind]

/-! ## bending: translation invariance -/

/-- **the three per-unit derivatives of the bending potential sum to zero**, for every input on which the
routine returns (immediate from the construction of the middle entry, stated because the property names it) -/
theorem bend_svd_sum_zero (p : Bend ℝ) (d : ℕ) (s1 s2 : V3 ℝ) (a b c : ℝ)
    (h : p.svd (DOps.real e) d s1 s2 = .ok (a, b, c)) : a + b + c = 0 := by
  unfold Bend.svd at h
  simp only [bind, Except.bind, pure, Except.pure] at h
  repeat' split at h
  all_goals (cases h <;> ring)

theorem bend_derivative_sum_zero (p : Bend ℝ) (v s1 s2 : V3 ℝ) (a b c : ℝ)
    (h : p.derivative (DOps.real e) v s1 s2 = .ok (a, b, c)) : a + b + c = 0 := by
  unfold Bend.derivative at h
  simp only [bind, Except.bind, pure, Except.pure] at h
  split at h
  · cases h
  · split at h
    · cases h
    · rename_i r hr
      obtain ⟨a', b', c'⟩ := r
      simp only [Except.ok.injEq, Prod.mk.injEq] at h
      obtain ⟨rfl, rfl, rfl⟩ := h
      have := bend_svd_sum_zero e p _ s1 s2 a' b' c' hr
      rw [← add_mul, ← add_mul, this, zero_mul]

/-! ## merged-image Coulomb potential: the Ewald routine -/

/-- **`recurrence_spec` + loop structure**: in the exact reading the C routine `derivative` computes the plain sums
`Σ_{n ∈ ball(pc)} T_n(s) + Σ_{octant(fc)} A_ijk sin(iθx) cos(jθy) cos(kθz)`, `θ = 2π s / L`; i.e. after the register
updates and resets of the three trigonometric recurrences the registers hold `cos(kθ), sin(kθ)`
(`JF.Deriv.fStep_prefix`, `fLoopK_spec`, `fLoopJ_spec`, `fourierSum_spec`). -/
theorem ewaldC_eq (p : Ewald ℝ) (sx sy sz : ℝ) :
    ewaldC (DOps.real e) p sx sy sz
      = latSum p.pc (posTerm (DOps.real e) p sx sy sz)
        + octSum p.fc (octTerm p (p.twoPiOverL * sx) (p.twoPiOverL * sy) (p.twoPiOverL * sz)) := by
  have hD : deltas (DOps.real e) p sx sy sz = Dθ (p.twoPiOverL * sx) (p.twoPiOverL * sy) (p.twoPiOverL * sz) := rfl
  simp only [ewaldC, hD, fourierSum_spec, posSum_eq, real_ofInt, Int.cast_zero, zero_add]

/-- the TRUNCATED Ewald energy whose `x`-derivative the routine computes: the position-space sum over the integer
ball of radius `pc` and the Fourier sum over the octant `i ≥ 1, j, k ≥ 0, i²+j²+k² ≤ fc²` (the modes with `i = 0`
do not depend on `sx` and are left out; multiplicities 1/2/4 are inside `fourier_array`). -/
noncomputable def ewaldEnergyTrunc (p : Ewald ℝ) (sx sy sz : ℝ) : ℝ :=
  latSum p.pc (posEnergyTerm e p sx sy sz) + octSum p.fc (fourierEnergyTerm p sx sy sz)

/-- `s` is not a lattice point -/
def OffLattice (L sx sy sz : ℝ) : Prop := ∀ i j k : ℤ, (latVec L sx sy sz i j k).nsq ≠ 0

theorem construct_facts (fc pc : ℕ) (alpha L : ℝ) (hL : L ≠ 0) :
    let p := Ewald.construct (DOps.real e) fc pc alpha L
    p.twoAolRootPi = 2 * p.aol / √π ∧ p.aolSq = p.aol * p.aol ∧ p.twoPiOverL ≠ 0 ∧ p.L = L := by
  have hpi : √π ≠ 0 := (Real.sqrt_pos.mpr Real.pi_pos).ne'
  refine ⟨?_, ?_, ?_, rfl⟩
  · simp only [Ewald.construct, real_ofInt, real_sqrt, real_pi]; push_cast; field_simp
  · simp only [Ewald.construct]; field_simp
  · simp only [Ewald.construct, real_ofInt, real_pi]; push_cast
    exact div_ne_zero (mul_ne_zero two_ne_zero Real.pi_ne_zero) hL

/-- **`ewald_deriv_partial`** (PARTIAL with respect to the property: truncated sums, `erfc` abstract).
For the struct built by `construct_merged_image_coulomb_potential` (any cut-offs, any `alpha`, any box length
`L ≠ 0`), any function `erfc` with `erfc' y = −2/√π · exp(−y²)`, and any separation that is not a lattice point, the
value of the C routine `derivative` is the derivative of the truncated Ewald energy along the motion of the active
unit in `+x` (separation = target − active, so `sx ↦ sx − x`).
NOT proved (cannot be, here): that the truncated energy is within the claimed accuracy of the fully converged
lattice sum `Σ_n 1/|s + nL|` (tin-foil), hence independent of `alpha` and exactly `L`-periodic. -/
theorem ewald_deriv_partial (fc pc : ℕ) (alpha L : ℝ) (hL : L ≠ 0)
    (he : ∀ y, HasDerivAt e (-(2 / √π) * Real.exp (-(y * y))) y)
    (sx sy sz : ℝ) (hs : OffLattice L sx sy sz) :
    HasDerivAt (fun x => ewaldEnergyTrunc e (Ewald.construct (DOps.real e) fc pc alpha L) (sx - x) sy sz)
      (ewaldC (DOps.real e) (Ewald.construct (DOps.real e) fc pc alpha L) sx sy sz) 0 := by
  obtain ⟨h1, h2, h3, h4⟩ := construct_facts e fc pc alpha L hL
  rw [ewaldC_eq]
  unfold ewaldEnergyTrunc
  refine HasDerivAt.add ?_ ?_
  · exact latSum_hasDerivAt _ (fun x i j k => posEnergyTerm e _ (sx - x) sy sz i j k) _ 0
      fun i j k => posTerm_hasDerivAt e _ h1 h2 he sx sy sz i j k (by rw [h4]; exact hs i j k)
  · exact octSum_hasDerivAt _ (fun x i j k => fourierEnergyTerm _ (sx - x) sy sz i j k) _ 0
      fun i0 j k => fourierTerm_hasDerivAt _ h3 sx sy sz (i0 + 1) j k (Nat.succ_ne_zero i0)

/-- non-vacuity of the hypothesis on `erfc`: the function `1 − 2/√π ∫₀^y exp(−t²) dt` (the complementary error
function itself) has the required derivative everywhere. -/
example : ∃ erfc : ℝ → ℝ, erfc 0 = 1 ∧ ∀ y, HasDerivAt erfc (-(2 / √π) * Real.exp (-(y * y))) y := by
  refine ⟨fun y => 1 + -(2 / √π) * ∫ t in (0 : ℝ)..y, Real.exp (-(t * t)), by simp, fun y => ?_⟩
  have hc : Continuous fun t : ℝ => Real.exp (-(t * t)) := by fun_prop
  exact (((hc.integral_hasStrictDerivAt 0 y).hasDerivAt).const_mul _).const_add 1

theorem perm_moved (s : V3 ℝ) (d : ℕ) (x : ℝ) :
    (s.moved d x).perm d = ⟨(s.perm d).x - x, (s.perm d).y, (s.perm d).z⟩ := by
  match d with
  | 0 => rfl
  | 1 => rfl
  | (n + 2) => rfl

theorem merged_make_inv {alpha k L : ℝ} {fc pc : ℤ} {m : Merged ℝ}
    (h : Merged.make (DOps.real e) alpha fc pc k L = .ok m) :
    k ≠ 0 ∧ 0 < alpha ∧ 0 ≤ fc ∧ 0 ≤ pc ∧
      m = ⟨k, Ewald.construct (DOps.real e) fc.toNat pc.toNat alpha L⟩ := by
  unfold Merged.make at h
  split_ifs at h with h1 h2 h3 h4
  simp only [real_ofInt, Int.cast_zero, beq_iff_eq] at h1 h2
  cases h
  exact ⟨h1, lt_of_not_ge h2, by omega, by omega, rfl⟩

/-- the truncated pair energy seen by direction `d`: `k c₁ c₂ · E_trunc(rotated separation)` -/
noncomputable def mergedEnergyTrunc (m : Merged ℝ) (d : ℕ) (c1 c2 : ℝ) (s : V3 ℝ) : ℝ :=
  m.prefactor * c1 * c2 * ewaldEnergyTrunc e m.pot (s.perm d).x (s.perm d).y (s.perm d).z

/-- **C03 for the merged-image Coulomb potential, PARTIAL** (truncated sums, abstract `erfc`; see
`ewald_deriv_partial`): for every constructible potential, standard velocity, charge pair and separation off the
lattice, `MergedImageCoulombPotential.derivative` returns the time derivative of `k c₁c₂ E_trunc` along the
motion of the active unit; direction `d` is reduced to the `x` routine by the cyclic rotation, the result is linear in
speed and charge product. -/
theorem merged_derivative_partial {alpha k L : ℝ} {fc pc : ℤ} {m : Merged ℝ}
    (hm : Merged.make (DOps.real e) alpha fc pc k L = .ok m) (hL : L ≠ 0)
    (he : ∀ y, HasDerivAt e (-(2 / √π) * Real.exp (-(y * y))) y)
    {v : V3 ℝ} {d : ℕ} {sp : ℝ} (hv : StdVel v d sp) (s : V3 ℝ) (c1 c2 : ℝ)
    (hs : OffLattice L (s.perm d).x (s.perm d).y (s.perm d).z) :
    ∃ val, m.derivative (DOps.real e) v s c1 c2 = .ok val ∧
      val = k * c1 * c2 * ewaldC (DOps.real e) m.pot (s.perm d).x (s.perm d).y (s.perm d).z * sp ∧
      HasDerivAt (fun t => mergedEnergyTrunc e m d c1 c2 (s.subSmul v t)) val 0 := by
  obtain ⟨_, _, _, _, rfl⟩ := merged_make_inv e hm
  have hU : HasDerivAt (fun x => mergedEnergyTrunc e
      ⟨k, Ewald.construct (DOps.real e) fc.toNat pc.toNat alpha L⟩ d c1 c2 (s.moved d x))
      (k * c1 * c2 * ewaldC (DOps.real e) (Ewald.construct (DOps.real e) fc.toNat pc.toNat alpha L)
        (s.perm d).x (s.perm d).y (s.perm d).z) 0 := by
    have := (ewald_deriv_partial e fc.toNat pc.toNat alpha L hL he _ _ _ hs).const_mul (k * c1 * c2)
    simpa only [mergedEnergyTrunc, perm_moved] using this
  have h := timeDerivative_hasDerivAt e
    (U := mergedEnergyTrunc e ⟨k, Ewald.construct (DOps.real e) fc.toNat pc.toNat alpha L⟩ d c1 c2)
    (svd := fun d' => .ok (Merged.svd (DOps.real e) ⟨k, Ewald.construct (DOps.real e) fc.toNat pc.toNat alpha L⟩ d' s c1 c2))
    hv rfl hU
  exact ⟨_, h.1, rfl, h.2⟩

/-- non-vacuity of the hypotheses: the shipped parameters, unit box, separation `(1/2, 0, 0)` -/
example : (∃ m, Merged.make (DOps.real e) 3.45 6 2 1 1 = .ok m) ∧ OffLattice 1 (1 / 2) 0 0 := by
  constructor
  · refine ⟨⟨1, Ewald.construct (DOps.real e) 6 2 3.45 1⟩, ?_⟩
    unfold Merged.make
    norm_num
    rfl
  · intro i j k
    have h : ((1 : ℝ) / 2 + i * 1) ≠ 0 := by
      intro h0
      have h2 : ((2 * i + 1 : ℤ) : ℝ) = 0 := by push_cast; linarith
      have : (2 * i + 1 : ℤ) = 0 := by exact_mod_cast h2
      omega
    have := mul_self_pos.mpr h
    simp only [latVec, V3.nsq]
    nlinarith [mul_self_nonneg ((0 : ℝ) + j * 1), mul_self_nonneg ((0 : ℝ) + k * 1)]

/-- **`odd_x`**: the routine's value is odd in the component along the direction of motion — exactly, for every
struct (any cut-offs and parameters): the integer ball is symmetric under `i ↦ −i` and the Fourier part is a
sine series in `sx`. -/
theorem ewaldC_odd_x (p : Ewald ℝ) (sx sy sz : ℝ) :
    ewaldC (DOps.real e) p (-sx) sy sz = -ewaldC (DOps.real e) p sx sy sz := by
  rw [ewaldC_eq, ewaldC_eq]
  have h1 : latSum p.pc (posTerm (DOps.real e) p (-sx) sy sz)
      = -latSum p.pc (posTerm (DOps.real e) p sx sy sz) := by
    rw [← latSum_neg_reflect]
    congr 1; funext i j k; exact posTerm_neg e p sx sy sz i j k
  have h2 : octSum p.fc (octTerm p (p.twoPiOverL * -sx) (p.twoPiOverL * sy) (p.twoPiOverL * sz))
      = -octSum p.fc (octTerm p (p.twoPiOverL * sx) (p.twoPiOverL * sy) (p.twoPiOverL * sz)) := by
    rw [← octSum_neg]
    congr 1; funext i j k; exact octTerm_neg p _ sx _ _ i j k
  rw [h1, h2]; ring

/-- in particular the routine vanishes (exactly, in the exact reading) on the symmetry plane `sx = 0` -/
theorem ewaldC_zero_x (p : Ewald ℝ) (sy sz : ℝ) : ewaldC (DOps.real e) p 0 sy sz = 0 := by
  have := ewaldC_odd_x e p 0 sy sz
  rw [neg_zero] at this
  linarith

/-- **the Fourier part is periodic in the box** (all three directions, any integer number of boxes); the
truncated position-space part is not — its periodicity is a statement about the converged sum. -/
theorem fourier_part_periodic (fc pc : ℕ) (alpha L : ℝ) (hL : L ≠ 0) (sx sy sz : ℝ) (a b c : ℤ) :
    let p := Ewald.construct (DOps.real e) fc pc alpha L
    octSum p.fc (octTerm p (p.twoPiOverL * (sx + a * L)) (p.twoPiOverL * (sy + b * L)) (p.twoPiOverL * (sz + c * L)))
      = octSum p.fc (octTerm p (p.twoPiOverL * sx) (p.twoPiOverL * sy) (p.twoPiOverL * sz)) := by
  intro p
  have hw : ∀ (n : ℕ) (s : ℝ) (m : ℤ), (n : ℝ) * (p.twoPiOverL * (s + m * L))
      = n * (p.twoPiOverL * s) + ((n * m : ℤ) : ℝ) * (2 * π) := by
    intro n s m
    have : p.twoPiOverL = 2 * π / L := by
      simp only [p, Ewald.construct, real_ofInt, real_pi]; push_cast; ring
    rw [this]; push_cast; field_simp
  congr 1; funext i j k
  simp only [octTerm, hw, Real.sin_add_int_mul_two_pi, Real.cos_add_int_mul_two_pi]

/-- **homogeneity in the box length**: `derivative(s; L) = L⁻² · derivative(s/L; 1)` for the same `alpha` and
cut-offs — every box length reduces to the unit box. -/
theorem ewaldC_homogeneous (fc pc : ℕ) (alpha L : ℝ) (hL : 0 < L) (sx sy sz : ℝ) :
    ewaldC (DOps.real e) (Ewald.construct (DOps.real e) fc pc alpha L) sx sy sz
      = 1 / L ^ 2 * ewaldC (DOps.real e) (Ewald.construct (DOps.real e) fc pc alpha 1) (sx / L) (sy / L) (sz / L) := by
  rw [ewaldC_eq, ewaldC_eq, mul_add, ← latSum_mul, ← octSum_mul]
  congr 1
  · congr 1; funext i j k; exact posTerm_scale e fc pc alpha L hL sx sy sz i j k
  · congr 1; funext i j k; exact octTerm_scale e fc pc alpha L hL sx sy sz i j k

/-! ## bending: the three per-unit derivatives -/

theorem dCos_swap (s1 s2 : V3 ℝ) (d : ℕ) :
    s1.get d / √(s1.nsq) / √(s2.nsq) - cosAngle s1 s2 * s2.get d / √(s2.nsq) ^ 2 = dCos s2 s1 d := by
  simp only [dCos, cosAngle, V3.dot]; ring

/-- value of `BendingPotential.standard_velocity_derivative` for two non-zero, non-collinear separations -/
theorem bend_svd_eq (p : Bend ℝ) (d : ℕ) (s1 s2 : V3 ℝ) (h1 : s1.nsq ≠ 0) (h2 : s2.nsq ≠ 0)
    (hlo : -1 < cosAngle s1 s2) (hhi : cosAngle s1 s2 < 1) :
    let K := p.prefactor * (arccos (cosAngle s1 s2) - p.eqAngle) * (-1 / sin (arccos (cosAngle s1 s2)))
    p.svd (DOps.real e) d s1 s2
      = .ok (K * dCos s1 s2 d, -(K * dCos s1 s2 d) - K * dCos s2 s1 d, K * dCos s2 s1 d) := by
  intro K
  have hn1 : √(s1.nsq) ≠ 0 := (Real.sqrt_pos.mpr (lt_of_le_of_ne s1.nsq_nonneg (Ne.symm h1))).ne'
  have hn2 : √(s2.nsq) ≠ 0 := (Real.sqrt_pos.mpr (lt_of_le_of_ne s2.nsq_nonneg (Ne.symm h2))).ne'
  have hpos : 0 < 1 - cosAngle s1 s2 ^ 2 := by nlinarith
  have hsin : sin (arccos (cosAngle s1 s2)) ≠ 0 := by
    rw [Real.sin_arccos]; exact (Real.sqrt_pos.mpr hpos).ne'
  have hc : pySum (DOps.real e) [s1.x * s2.x, s1.y * s2.y, s1.z * s2.z] / √(s1.nsq) / √(s2.nsq) = cosAngle s1 s2 := by
    rw [pySum3_real]; rfl
  have hacos : pyAcos (DOps.real e) (cosAngle s1 s2) = .ok (arccos (cosAngle s1 s2)) := by
    simp only [pyAcos, real_ofInt, real_acos]; push_cast
    rw [if_neg (not_or.mpr ⟨not_lt.mpr hlo.le, not_lt.mpr hhi.le⟩)]
  have hsq1 : √(s1.nsq) ^ (((2 : ℤ) : ℝ)) = √(s1.nsq) ^ 2 := by push_cast; exact Real.rpow_two _
  have hsq2 : √(s2.nsq) ^ (((2 : ℤ) : ℝ)) = √(s2.nsq) ^ 2 := by push_cast; exact Real.rpow_two _
  have hq1 : √(s1.nsq) ^ 2 ≠ 0 := pow_ne_zero 2 hn1
  have hq2 : √(s2.nsq) ^ 2 ≠ 0 := pow_ne_zero 2 hn2
  simp only [Bend.svd, norm_real, bind, Except.bind, pure, Except.pure, pyDiv_real e _ _ hn1, pyDiv_real e _ _ hn2,
    hc, hacos, real_sin, pyDiv_real e _ _ hsin, pyPow_real, real_ofInt, hsq1, hsq2, pyDiv_real e _ _ hq1,
    pyDiv_real e _ _ hq2, dCos_swap]
  simp only [Int.reduceNeg, Int.cast_neg, Int.cast_one, K, dCos]

/-- `s + t v` -/
def _root_.JF.Deriv.V3.addSmul (s v : V3 ℝ) (t : ℝ) : V3 ℝ := s.subSmul v (-t)

/-- **C03 for the bending potential**: for two non-zero, non-collinear separations `s₁ = r_i − r_j`, `s₂ = r_k − r_j`
and a standard velocity, the three reported values are the time derivatives of `k/2 (φ − φ₀)²` when unit `i`,
unit `j`, unit `k` respectively moves with that velocity; they sum to zero. -/
theorem bend_derivative_correct (p : Bend ℝ) {v : V3 ℝ} {d : ℕ} {sp : ℝ} (hv : StdVel v d sp) (s1 s2 : V3 ℝ)
    (h1 : s1.nsq ≠ 0) (h2 : s2.nsq ≠ 0) (hlo : -1 < cosAngle s1 s2) (hhi : cosAngle s1 s2 < 1) :
    ∃ a b c, p.derivative (DOps.real e) v s1 s2 = .ok (a, b, c) ∧ a + b + c = 0 ∧
      HasDerivAt (fun t => bendEnergy p.prefactor p.eqAngle (s1.addSmul v t) s2) a 0 ∧
      HasDerivAt (fun t => bendEnergy p.prefactor p.eqAngle (s1.subSmul v t) (s2.subSmul v t)) b 0 ∧
      HasDerivAt (fun t => bendEnergy p.prefactor p.eqAngle s1 (s2.addSmul v t)) c 0 := by
  have hsvd := bend_svd_eq e p d s1 s2 h1 h2 hlo hhi
  simp only at hsvd
  set K := p.prefactor * (arccos (cosAngle s1 s2) - p.eqAngle) * (-1 / sin (arccos (cosAngle s1 s2))) with hK
  refine ⟨K * dCos s1 s2 d * sp, (-(K * dCos s1 s2 d) - K * dCos s2 s1 d) * sp, K * dCos s2 s1 d * sp, ?_, by ring, ?_, ?_, ?_⟩
  · simp [Bend.derivative, analyseVelocity_of_stdVel e hv, hsvd, bind, Except.bind, pure, Except.pure]
  · have h := bendEnergy_hasDerivAt p.prefactor p.eqAngle s1 s2 d (-sp) 0 h1 h2 hlo hhi
    simp only [zero_mul, moved_zero] at h
    simp only [V3.addSmul, subSmul_of_stdVel hv, mul_neg, ← neg_mul]
    refine h.congr_deriv ?_
    rw [← hK]; ring
  · have h := bendEnergy_hasDerivAt p.prefactor p.eqAngle s1 s2 d sp sp h1 h2 hlo hhi
    simp only [subSmul_of_stdVel hv]
    refine h.congr_deriv ?_
    rw [← hK]; ring
  · have h := bendEnergy_hasDerivAt p.prefactor p.eqAngle s1 s2 d 0 (-sp) h1 h2 hlo hhi
    simp only [zero_mul, moved_zero] at h
    simp only [V3.addSmul, subSmul_of_stdVel hv, mul_neg, ← neg_mul]
    refine h.congr_deriv ?_
    rw [← hK]; ring

/-- non-vacuity: a right angle, `s₁ = (1,0,0)`, `s₂ = (0,1,0)` -/
example : (⟨1, 0, 0⟩ : V3 ℝ).nsq ≠ 0 ∧ (⟨0, 1, 0⟩ : V3 ℝ).nsq ≠ 0 ∧
    -1 < cosAngle ⟨1, 0, 0⟩ ⟨0, 1, 0⟩ ∧ cosAngle ⟨1, 0, 0⟩ ⟨0, 1, 0⟩ < 1 := by
  simp [V3.nsq, cosAngle, V3.dot]

/-- a velocity that is not standard is rejected, whatever the rest of the input -/
theorem derivative_rejects_nonstandard (v : V3 ℝ) (svd : ℕ → Res ℝ)
    (hv : ∀ d sp, ¬ StdVel v d sp) : timeDerivative (DOps.real e) v svd = .error "AssertionError" := by
  unfold timeDerivative
  cases h : analyseVelocity (DOps.real e) v with
  | error m =>
    have : m = "AssertionError" := by
      unfold analyseVelocity at h
      split at h
      · split_ifs at h; simpa using h.symm
      · simpa using h.symm
    simp [this, bind, Except.bind]
  | ok r => exact absurd (stdVel_of_analyseVelocity e (d := r.1) (sp := r.2) h) (hv _ _)

end JF.C03
