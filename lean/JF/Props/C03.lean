import JF.Lemmas.DerivReal
/-!
# C03 — Reported event rates are the directional derivative of the model energy

Exact reading (`DOps.real`, Mathlib's real functions, `erfc` a parameter) of the SAME definitions that the
driver runs in binary64 against the real classes and the compiled C.

Sign convention throughout: separation = target − active, the ACTIVE unit moves with velocity `v`, so the
separation at time `t` is `s − t·v` (`V3.subSmul`), and the reported value is `d/dt U(s − t·v)` at `t = 0`.
-/
namespace JF.C03
open JF JF.Deriv Real

variable (e : ℝ → ℝ)

/-! ## energies (written from the class docstrings) -/

/-- `U = c_i c_j k / |r|^p` -/
noncomputable def ipEnergy (power k cc : ℝ) (s : V3 ℝ) : ℝ := cc * k / (√(s.nsq)) ^ power

/-- `U = c_i c_j k / |r|` (the bound of the merged-image Coulomb potential) -/
noncomputable def boundEnergy (pp : ℝ) (s : V3 ℝ) : ℝ := pp / √(s.nsq)

/-! ## direction `d` is handled by rotating component `d` to the front -/

theorem perm_x {α : Type} (v : V3 α) (d : Nat) : (v.perm d).x = v.get d := by
  unfold V3.perm V3.get; split <;> rfl

/-- the rotation is a permutation of the components: the squared norm is unchanged -/
theorem perm_nsq (s : V3 ℝ) (d : ℕ) : (s.perm d).nsq = s.nsq := by
  unfold V3.perm V3.nsq; split <;> ring

/-! ## inverse power potential -/

theorem ip_make_ok {power k : ℝ} (hk : k ≠ 0) (hp : 0 < power) :
    IP.make (DOps.real e) power k = .ok ⟨power, k, power + 2⟩ := by
  simp [IP.make, hk, hp]

theorem ip_make_inv {power k : ℝ} {p : IP ℝ} (h : IP.make (DOps.real e) power k = .ok p) :
    k ≠ 0 ∧ 0 < power ∧ p = ⟨power, k, power + 2⟩ := by
  unfold IP.make at h
  split_ifs at h with h1 h2
  simp only [real_ofInt, Int.cast_zero, beq_iff_eq, Bool.not_eq_true', decide_eq_false_iff_not, not_not] at h1 h2
  exact ⟨h1, h2, by simpa using h.symm⟩

/-- value of `InversePowerPotential.standard_velocity_derivative` away from the origin -/
theorem ip_svd_eq (p : IP ℝ) (d : ℕ) (s : V3 ℝ) (c1 c2 : ℝ) (hs : s.nsq ≠ 0) :
    p.svd (DOps.real e) d s c1 c2
      = .ok (p.power * s.get d / (√(s.nsq)) ^ p.powerPlusTwo * p.prefactor * c1 * c2) := by
  have hn : 0 < √(s.nsq) := Real.sqrt_pos.mpr (lt_of_le_of_ne s.nsq_nonneg (Ne.symm hs))
  have hden : (√(s.nsq)) ^ p.powerPlusTwo ≠ 0 := (Real.rpow_pos_of_pos hn _).ne'
  simp [IP.svd, norm_real, pyPow_real, pyDiv_real e _ _ hden, bind, Except.bind, pure, Except.pure]

/-- at the origin the routine raises `ZeroDivisionError` (for a positive power) -/
theorem ip_svd_origin (p : IP ℝ) (d : ℕ) (c1 c2 : ℝ) (hp : p.powerPlusTwo ≠ 0) :
    p.svd (DOps.real e) d ⟨0, 0, 0⟩ c1 c2 = .error "ZeroDivisionError" := by
  simp [IP.svd, norm_real, pyPow_real, V3.nsq, Real.zero_rpow hp, pyDiv_real_zero, bind, Except.bind]

/-- **C03 for the inverse power potential, space derivative**: the routine's value is the derivative of
`U(s − x e_d)` at `x = 0`. -/
theorem ip_svd_hasDerivAt (power k : ℝ) (d : ℕ) (s : V3 ℝ) (c1 c2 : ℝ) (hs : s.nsq ≠ 0) :
    HasDerivAt (fun x => ipEnergy power k (c1 * c2) (s.moved d x))
      (power * s.get d / (√(s.nsq)) ^ (power + 2) * k * c1 * c2) 0 := by
  have hn : 0 < √(s.nsq) := Real.sqrt_pos.mpr (lt_of_le_of_ne s.nsq_nonneg (Ne.symm hs))
  have h1 := norm_moved_hasDerivAt s d hs
  have h2 := h1.rpow_const (p := power) (Or.inl (by simpa using hn.ne'))
  have hP : 0 < (√(s.nsq)) ^ power := Real.rpow_pos_of_pos hn _
  have h3 := (h2.inv (by simpa using hP.ne')).const_mul (c1 * c2 * k)
  have e1 : (√(s.nsq)) ^ (power + 2) = (√(s.nsq)) ^ power * (√(s.nsq)) ^ 2 := by
    rw [Real.rpow_add hn]; norm_cast
  have e2 : (√(s.nsq)) ^ (power - 1) = (√(s.nsq)) ^ power / √(s.nsq) := Real.rpow_sub_one hn.ne' _
  unfold ipEnergy
  refine (h3.congr_deriv ?_).congr_of_eventuallyEq (Filter.Eventually.of_forall fun x => ?_)
  · simp only [moved_zero]
    rw [e1, e2]
    field_simp
  · simp only [div_eq_mul_inv, Pi.inv_apply]

/-- **C03 for the inverse power potential, full statement**: for every constructible potential, every
standard velocity, every separation but the origin and every charge pair the class returns the time
derivative of the pair energy along the motion of the active unit (linear in speed and charge product). -/
theorem ip_derivative_correct {power k : ℝ} {p : IP ℝ} (hp : IP.make (DOps.real e) power k = .ok p)
    {v : V3 ℝ} {d : ℕ} {sp : ℝ} (hv : StdVel v d sp) (s : V3 ℝ) (c1 c2 : ℝ) (hs : s.nsq ≠ 0) :
    ∃ val, p.derivative (DOps.real e) v s c1 c2 = .ok val ∧
      val = power * s.get d / (√(s.nsq)) ^ (power + 2) * k * c1 * c2 * sp ∧
      HasDerivAt (fun t => ipEnergy power k (c1 * c2) (s.subSmul v t)) val 0 := by
  obtain ⟨_, _, rfl⟩ := ip_make_inv e hp
  have h := timeDerivative_hasDerivAt e (U := ipEnergy power k (c1 * c2))
    (svd := fun d => IP.svd (DOps.real e) ⟨power, k, power + 2⟩ d s c1 c2) hv
    (ip_svd_eq e ⟨power, k, power + 2⟩ d s c1 c2 hs) (ip_svd_hasDerivAt power k d s c1 c2 hs)
  exact ⟨_, h.1, rfl, h.2⟩

/-- non-vacuity: the Coulomb case `p = 1`, `k = 1`, unit speed along `y`, separation `(1, 2, 2)` (`|s| = 3`) -/
example : ∃ p, IP.make (DOps.real e) 1 1 = .ok p ∧ StdVel ⟨0, 1, 0⟩ 1 1 ∧ (⟨1, 2, 2⟩ : V3 ℝ).nsq ≠ 0 :=
  ⟨_, ip_make_ok e one_ne_zero one_pos, ⟨one_pos, Or.inr (Or.inl ⟨rfl, rfl⟩)⟩, by norm_num [V3.nsq]⟩

/-! ## the 1/r bound (C routine `derivative` of `inverse_power_coulomb_bounding_potential.c`) -/

theorem rpow_three_halves {q : ℝ} (hq : 0 ≤ q) : q ^ ((3 : ℝ) / 2) = √q ^ 3 := by
  rw [Real.sqrt_eq_rpow, ← Real.rpow_natCast, ← Real.rpow_mul hq]; norm_num

/-- value of the wrapper: the C routine on the rotated separation -/
theorem bound_svd_eq (p : Bound ℝ) (d : ℕ) (s : V3 ℝ) (c1 c2 : ℝ) :
    p.svd (DOps.real e) d s c1 c2 = p.prefactor * c1 * c2 * s.get d / √(s.nsq) ^ 3 := by
  have h := perm_nsq s d
  have hx := perm_x s d
  simp only [V3.nsq] at h
  simp only [Bound.svd, boundC, real_pow, real_ofInt]
  rw [h, hx, show ((3 : ℤ) : ℝ) / ((2 : ℤ) : ℝ) = (3 : ℝ) / 2 by norm_num]
  have := rpow_three_halves s.nsq_nonneg
  simp only [V3.nsq] at this
  rw [this]; rfl

theorem bound_svd_hasDerivAt (pp : ℝ) (d : ℕ) (s : V3 ℝ) (hs : s.nsq ≠ 0) :
    HasDerivAt (fun x => boundEnergy pp (s.moved d x)) (pp * s.get d / √(s.nsq) ^ 3) 0 := by
  have hn : 0 < √(s.nsq) := Real.sqrt_pos.mpr (lt_of_le_of_ne s.nsq_nonneg (Ne.symm hs))
  have h3 := ((norm_moved_hasDerivAt s d hs).inv (by simpa using hn.ne')).const_mul pp
  unfold boundEnergy
  refine (h3.congr_deriv ?_).congr_of_eventuallyEq (Filter.Eventually.of_forall fun x => ?_)
  · simp only [moved_zero]; field_simp
  · simp only [div_eq_mul_inv, Pi.inv_apply]

/-- **C03 for the 1/r bound**: the class returns the time derivative of `k c₁c₂/|s − t v|`. -/
theorem bound_derivative_correct (p : Bound ℝ) {v : V3 ℝ} {d : ℕ} {sp : ℝ} (hv : StdVel v d sp)
    (s : V3 ℝ) (c1 c2 : ℝ) (hs : s.nsq ≠ 0) :
    ∃ val, p.derivative (DOps.real e) v s c1 c2 = .ok val ∧
      val = p.prefactor * c1 * c2 * s.get d / √(s.nsq) ^ 3 * sp ∧
      HasDerivAt (fun t => boundEnergy (p.prefactor * c1 * c2) (s.subSmul v t)) val 0 := by
  have h := timeDerivative_hasDerivAt e (U := boundEnergy (p.prefactor * c1 * c2))
    (svd := fun d => .ok (p.svd (DOps.real e) d s c1 c2)) hv
    (by rw [bound_svd_eq]) (bound_svd_hasDerivAt (p.prefactor * c1 * c2) d s hs)
  exact ⟨_, h.1, rfl, h.2⟩

example : StdVel ⟨0, 0, 2⟩ 2 2 ∧ (⟨1, 2, 2⟩ : V3 ℝ).nsq ≠ 0 :=
  ⟨⟨two_pos, Or.inr (Or.inr ⟨rfl, rfl⟩)⟩, by norm_num [V3.nsq]⟩

/-! ## Lennard-Jones -/

/-- `U = k ((σ/|r|)^12 − (σ/|r|)^6)` -/
noncomputable def ljEnergy (k cl : ℝ) (s : V3 ℝ) : ℝ := k * ((cl / √(s.nsq)) ^ 12 - (cl / √(s.nsq)) ^ 6)

theorem mexicanHatInit_real (k r : ℝ) :
    mexicanHatInit (DOps.real e) k r = if 0 < k ∧ 0 < r then .ok () else .error "ConfigurationError" := by
  unfold mexicanHatInit
  by_cases hk0 : k = 0
  · simp [hk0]
  · by_cases hk : 0 < k <;> by_cases hr : 0 < r <;> simp [hk0, hk, hr]

theorem lj_make_inv {k cl : ℝ} {p : LJ ℝ} (h : LJ.make (DOps.real e) k cl = .ok p) :
    0 < k ∧ 0 < cl ∧ p = ⟨⟨6, -k * cl ^ 6, 6 + 2⟩, ⟨12, k * cl ^ 12, 12 + 2⟩⟩ := by
  have h2 : (0 : ℝ) < (2 : ℝ) ^ ((1 : ℝ) / 6) := Real.rpow_pos_of_pos two_pos _
  unfold LJ.make at h
  rw [mexicanHatInit_real] at h
  split_ifs at h with hc
  · obtain ⟨hk, hm⟩ := hc
    simp only [real_ofInt, real_pow, Int.cast_ofNat, Int.cast_one] at hm
    have hc : 0 < cl := pos_of_mul_pos_left hm h2.le
    have h6 : cl ^ 6 ≠ 0 := (pow_pos hc 6).ne'
    have h12 : cl ^ 12 ≠ 0 := (pow_pos hc 12).ne'
    have e6 : cl ^ (6 : ℝ) = cl ^ 6 := by exact_mod_cast Real.rpow_natCast cl 6
    have e12 : cl ^ (12 : ℝ) = cl ^ 12 := by exact_mod_cast Real.rpow_natCast cl 12
    simp [IP.make, pyPow_real, bind, Except.bind, hk.ne', e6, e12, h6, h12, pure, Except.pure] at h
    exact ⟨hk, hc, by rw [← h, neg_mul]⟩
  · simp [bind, Except.bind] at h

theorem lj_energy_split (k cl : ℝ) (s : V3 ℝ) (hs : s.nsq ≠ 0) :
    ljEnergy k cl s = ipEnergy 6 (-k * cl ^ 6) (1 * 1) s + ipEnergy 12 (k * cl ^ 12) (1 * 1) s := by
  have hn : 0 < √(s.nsq) := Real.sqrt_pos.mpr (lt_of_le_of_ne s.nsq_nonneg (Ne.symm hs))
  have e6 : √(s.nsq) ^ (6 : ℝ) = √(s.nsq) ^ 6 := by exact_mod_cast Real.rpow_natCast _ 6
  have e12 : √(s.nsq) ^ (12 : ℝ) = √(s.nsq) ^ 12 := by exact_mod_cast Real.rpow_natCast _ 12
  unfold ljEnergy ipEnergy
  rw [e6, e12]
  field_simp
  ring

/-- **C03 for the Lennard-Jones potential** -/
theorem lj_derivative_correct {k cl : ℝ} {p : LJ ℝ} (hp : LJ.make (DOps.real e) k cl = .ok p)
    {v : V3 ℝ} {d : ℕ} {sp : ℝ} (hv : StdVel v d sp) (s : V3 ℝ) (hs : s.nsq ≠ 0) :
    ∃ val, p.derivative (DOps.real e) v s = .ok val ∧
      val = (6 * s.get d / √(s.nsq) ^ ((6 : ℝ) + 2) * (-k * cl ^ 6) * 1 * 1
              + 12 * s.get d / √(s.nsq) ^ ((12 : ℝ) + 2) * (k * cl ^ 12) * 1 * 1) * sp ∧
      HasDerivAt (fun t => ljEnergy k cl (s.subSmul v t)) val 0 := by
  obtain ⟨_, _, rfl⟩ := lj_make_inv e hp
  have hsvd : LJ.svd (DOps.real e) ⟨⟨6, -k * cl ^ 6, 6 + 2⟩, ⟨12, k * cl ^ 12, 12 + 2⟩⟩ d s
      = .ok (6 * s.get d / √(s.nsq) ^ ((6 : ℝ) + 2) * (-k * cl ^ 6) * 1 * 1
              + 12 * s.get d / √(s.nsq) ^ ((12 : ℝ) + 2) * (k * cl ^ 12) * 1 * 1) := by
    simp only [LJ.svd, ip_svd_eq e _ d s _ _ hs, bind, Except.bind, pure, Except.pure, real_ofInt, Int.cast_one]
  have hd := (ip_svd_hasDerivAt 6 (-k * cl ^ 6) d s 1 1 hs).add (ip_svd_hasDerivAt 12 (k * cl ^ 12) d s 1 1 hs)
  have hs' : ∀ᶠ x in nhds (0 : ℝ), (s.moved d x).nsq ≠ 0 := by
    have hc : ContinuousAt (fun x => (s.moved d x).nsq) 0 := (nsq_moved_hasDerivAt s d).continuousAt
    exact hc.eventually_ne (by simpa using hs)
  have hU : HasDerivAt (fun x => ljEnergy k cl (s.moved d x)) _ 0 :=
    hd.congr_of_eventuallyEq (hs'.mono fun x hx => lj_energy_split k cl _ hx)
  have h := timeDerivative_hasDerivAt e (U := ljEnergy k cl) (svd := fun d => LJ.svd (DOps.real e) _ d s) hv hsvd hU
  exact ⟨_, h.1, rfl, h.2⟩

example : ∃ p, LJ.make (DOps.real e) 1 1 = .ok p := by
  have h2 : (0 : ℝ) < (2 : ℝ) ^ ((1 : ℝ) / 6) := Real.rpow_pos_of_pos two_pos _
  refine ⟨⟨⟨6, -1, 6 + 2⟩, ⟨12, 1, 12 + 2⟩⟩, ?_⟩
  unfold LJ.make
  rw [mexicanHatInit_real, if_pos ⟨one_pos, by simpa using h2⟩]
  simp [IP.make, pyPow_real, bind, Except.bind, pure, Except.pure]

/-! ## displaced even power -/

/-- `U = k (|r| − r₀)^p` -/
noncomputable def depEnergy (k r0 : ℝ) (power : ℤ) (s : V3 ℝ) : ℝ := k * (√(s.nsq) - r0) ^ power

theorem dep_make_inv {k r0 : ℝ} {power : ℤ} {p : DEP ℝ} (h : DEP.make (DOps.real e) r0 power k = .ok p) :
    0 < k ∧ 0 < r0 ∧ 0 < power ∧ power % 2 = 0 ∧ p = ⟨r0, power, k⟩ := by
  unfold DEP.make at h
  rw [mexicanHatInit_real] at h
  by_cases hc : 0 < k ∧ 0 < r0
  · rw [if_pos hc] at h
    simp only [bind, Except.bind] at h
    split_ifs at h with hq
    simp only [Bool.not_eq_true, Bool.not_eq_false', Bool.and_eq_true, decide_eq_true_eq, beq_iff_eq] at hq
    cases h
    exact ⟨hc.1, hc.2, hq.1, hq.2, rfl⟩
  · rw [if_neg hc] at h
    simp [bind, Except.bind] at h

theorem dep_svd_eq (p : DEP ℝ) (d : ℕ) (s : V3 ℝ) (hs : s.nsq ≠ 0) :
    p.svd (DOps.real e) d s
      = .ok ((-p.power : ℤ) * p.prefactor * (√(s.nsq) - p.eqSep) ^ (p.power - 1) * s.get d / √(s.nsq)) := by
  have hn : √(s.nsq) ≠ 0 := (Real.sqrt_pos.mpr (lt_of_le_of_ne s.nsq_nonneg (Ne.symm hs))).ne'
  simp only [DEP.svd, norm_real, pyPow_real, pyDiv_real e _ _ hn, bind, Except.bind, real_ofInt,
    Real.rpow_intCast]

theorem dep_svd_hasDerivAt (k r0 : ℝ) (power : ℤ) (hp : 0 < power) (d : ℕ) (s : V3 ℝ) (hs : s.nsq ≠ 0) :
    HasDerivAt (fun x => depEnergy k r0 power (s.moved d x))
      ((-power : ℤ) * k * (√(s.nsq) - r0) ^ (power - 1) * s.get d / √(s.nsq)) 0 := by
  have hn : √(s.nsq) ≠ 0 := (Real.sqrt_pos.mpr (lt_of_le_of_ne s.nsq_nonneg (Ne.symm hs))).ne'
  have h1 := (norm_moved_hasDerivAt s d hs).sub_const r0
  have hz : HasDerivAt (fun y : ℝ => y ^ power) (power * (√(s.nsq) - r0) ^ (power - 1))
      (√((s.moved d 0).nsq) - r0) := by
    simpa using hasDerivAt_zpow power (√(s.nsq) - r0) (Or.inr hp.le)
  have h3 := (hz.comp (0 : ℝ) h1).const_mul k
  unfold depEnergy
  refine (h3.congr_deriv ?_).congr_of_eventuallyEq (Filter.Eventually.of_forall fun x => ?_)
  · push_cast; field_simp
  · rfl

/-- **C03 for the displaced even power potential** -/
theorem dep_derivative_correct {k r0 : ℝ} {power : ℤ} {p : DEP ℝ}
    (hp : DEP.make (DOps.real e) r0 power k = .ok p)
    {v : V3 ℝ} {d : ℕ} {sp : ℝ} (hv : StdVel v d sp) (s : V3 ℝ) (hs : s.nsq ≠ 0) :
    ∃ val, p.derivative (DOps.real e) v s = .ok val ∧
      val = (-power : ℤ) * k * (√(s.nsq) - r0) ^ (power - 1) * s.get d / √(s.nsq) * sp ∧
      HasDerivAt (fun t => depEnergy k r0 power (s.subSmul v t)) val 0 := by
  obtain ⟨_, _, hpos, _, rfl⟩ := dep_make_inv e hp
  have h := timeDerivative_hasDerivAt e (U := depEnergy k r0 power)
    (svd := fun d => DEP.svd (DOps.real e) ⟨r0, power, k⟩ d s) hv
    (dep_svd_eq e ⟨r0, power, k⟩ d s hs) (dep_svd_hasDerivAt k r0 power hpos d s hs)
  exact ⟨_, h.1, rfl, h.2⟩

example : ∃ p, DEP.make (DOps.real e) 1 2 1 = .ok p := by
  refine ⟨⟨1, 2, 1⟩, ?_⟩
  unfold DEP.make
  rw [mexicanHatInit_real, if_pos ⟨one_pos, one_pos⟩]
  simp [bind, Except.bind]

/-! ## bending: translation invariance -/

/-- **the three per-unit derivatives of the bending potential sum to zero**, for every input on which the
routine returns (immediate from the construction of the middle entry, stated because the property names it) -/
theorem bend_svd_sum_zero (p : Bend ℝ) (d : ℕ) (s1 s2 : V3 ℝ) (a b c : ℝ)
    (h : p.svd (DOps.real e) d s1 s2 = .ok (a, b, c)) : a + b + c = 0 := by
  unfold Bend.svd at h
  simp only [bind, Except.bind, pure, Except.pure] at h
  repeat' split at h
  all_goals (cases h <;> ring)

theorem bend_derivative_sum_zero (p : Bend ℝ) (v s1 s2 : V3 ℝ) (a b c : ℝ)
    (h : p.derivative (DOps.real e) v s1 s2 = .ok (a, b, c)) : a + b + c = 0 := by
  unfold Bend.derivative at h
  simp only [bind, Except.bind, pure, Except.pure] at h
  split at h
  · cases h
  · split at h
    · cases h
    · rename_i r hr
      obtain ⟨a', b', c'⟩ := r
      simp only [Except.ok.injEq, Prod.mk.injEq] at h
      obtain ⟨rfl, rfl, rfl⟩ := h
      have := bend_svd_sum_zero e p _ s1 s2 a' b' c' hr
      rw [← add_mul, ← add_mul, this, zero_mul]

/-- a velocity that is not standard is rejected, whatever the rest of the input -/
theorem derivative_rejects_nonstandard (v : V3 ℝ) (svd : ℕ → Res ℝ)
    (hv : ∀ d sp, ¬ StdVel v d sp) : timeDerivative (DOps.real e) v svd = .error "AssertionError" := by
  unfold timeDerivative
  cases h : analyseVelocity (DOps.real e) v with
  | error m =>
    have : m = "AssertionError" := by
      unfold analyseVelocity at h
      split at h
      · split_ifs at h; simpa using h.symm
      · simpa using h.symm
    simp [this, bind, Except.bind]
  | ok r => exact absurd (stdVel_of_analyseVelocity e (d := r.1) (sp := r.2) h) (hv _ _)

end JF.C03
