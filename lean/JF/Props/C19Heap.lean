import JF.Props.C19
import JF.Props.C06
import JF.Lemmas.HeapObsSched
/-!
# C19, the link to the heap scheduler: the unpickled `HeapScheduler` is observationally equal to the original

`JF.C19.resume_same` reduces "a dumped run resumes to exactly the run that was never interrupted" to
observational equality (`ObsEq`) of the one component that pickling *rebuilds* instead of copying: the C heap
inside `HeapScheduler` (`__getstate__` reads the entries in array order, `__setstate__` re-inserts them into a
fresh heap).  C06's `pickle_id` shows that the rebuilt array has the same live part (indices `1 … length - 1`),
the same counters and the same last returned time.  Here the remaining step is proved: the two states may differ
in the allocated size (a fresh heap starts with 64 entries, the old one may have grown) and in the memory beyond
`length`, and **no future answer depends on that**.

* `JF.Sched.LiveEq` (in `JF/Lemmas/HeapObsSched.lean`): same live part.
* `JF.Sched.push_liveEq / trash_liveEq / get_liveEq`: every operation maps `LiveEq` states to `LiveEq` states and
  returns equal results (`JF/Lemmas/HeapObs.lean` has the loop-by-loop simulation of `heap.c`).
* `liveEq_obsEq`: `LiveEq` implies `ObsEq` — for **all** future operation sequences, protocol-respecting or not
  (the *unrelativised* version of `ObsEq` is proved; no `ObsEqOn Protocol` was needed, because `LiveEq` contains
  the heap invariant of C06, and `insert`, `root`, `delete_events` preserve that invariant for arbitrary arguments).
* `pickle_obsEq`, `resume_same_heap`: the statement for every state reached by a protocol-respecting history
  (the history may itself contain earlier pickle round trips).

The scheduler instance reports to the client what `get_succeeding_event` returns to the mediator: the handler, or
an exception.  `liveEq_results` is the finer statement on the full outcomes (time, and which of the two errors).
-/
namespace JF.C19
open JF JF.Heap JF.Sched

section Link
variable {κ : Type} {cfg : Cfg κ}

/-- what the caller of `get_succeeding_event` sees: the returned handler, or `none` for an exception (empty
scheduler, or the monotonicity assertion) -/
def resHandler : GetRes κ → Option Nat
  | .ok h _ => some h
  | .empty => none
  | .guard _ _ => none

/-- the model of `HeapScheduler` (C counter range `W`) as a `JF.C19.Sched` -/
def heapSched (cfg : Cfg κ) (W : Nat) : Sched (HSched κ) κ Nat where
  apply s
    | .push t h => (.unit, s.push cfg W t h)
    | .trash h => (.unit, s.trash h)
    | .get => (.got (resHandler (s.get cfg).2), (s.get cfg).1)

/-- the model of `ListScheduler`; a `trash_event` of a handler without event raises (`.got none`) and leaves the list
unchanged -/
def listSched (cfg : Cfg κ) : Sched (LSched κ) κ Nat where
  apply s
    | .push t h => (.unit, s.push t h)
    | .trash h =>
      match s.trash h with
      | some s' => (.unit, s')
      | none => (.got none, s)
    | .get => (.got (resHandler (s.get cfg).2), (s.get cfg).1)

/-- the full outcomes (handler, time, kind of error) of the `get`s of an operation sequence -/
def results (cfg : Cfg κ) (W : Nat) : HSched κ → List (Op κ Nat) → List (GetRes κ)
  | _, [] => []
  | s, .push t h :: ops => results cfg W (s.push cfg W t h) ops
  | s, .trash h :: ops => results cfg W (s.trash h) ops
  | s, .get :: ops => (s.get cfg).2 :: results cfg W (s.get cfg).1 ops

/-- one operation on two states with the same live part: same answer, and again the same live part -/
theorem liveEq_step (o : StrictWeak cfg) (W : Nat) {a b : HSched κ} (E : LiveEq cfg a b) (op : Op κ Nat) :
    ((heapSched cfg W).apply a op).1 = ((heapSched cfg W).apply b op).1 ∧
    LiveEq cfg ((heapSched cfg W).apply a op).2 ((heapSched cfg W).apply b op).2 := by
  cases op with
  | push t h => exact ⟨rfl, push_liveEq o E W t h⟩
  | trash h => exact ⟨rfl, trash_liveEq E h⟩
  | get =>
    obtain ⟨E', e⟩ := get_liveEq o E
    exact ⟨by show Out.got _ = Out.got _; rw [e], E'⟩

/-- **same live part ⇒ observationally equal**, for all future operation sequences (no protocol assumption):
the allocated size and the memory beyond `length` never influence an answer -/
theorem liveEq_obsEq (o : StrictWeak cfg) (W : Nat) {a b : HSched κ} (E : LiveEq cfg a b) :
    ObsEq (heapSched cfg W) (heapSched cfg W) a b := by
  intro ops
  induction ops generalizing a b with
  | nil => rfl
  | cons op ops ih =>
    obtain ⟨e, E'⟩ := liveEq_step o W E op
    simp only [outputs]
    rw [e, ih E']

/-- the finer statement: the same handlers **at the same times**, and the same kind of error -/
theorem liveEq_results (o : StrictWeak cfg) (W : Nat) {a b : HSched κ} (E : LiveEq cfg a b) (ops : List (Op κ Nat)) :
    results cfg W a ops = results cfg W b ops := by
  induction ops generalizing a b with
  | nil => rfl
  | cons op ops ih =>
    cases op with
    | push t h => exact ih (push_liveEq o E W t h)
    | trash h => exact ih (trash_liveEq E h)
    | get =>
      obtain ⟨E', e⟩ := get_liveEq o E
      simp only [results]
      rw [e, ih E']

/-- the unpickled scheduler is observationally equal to the pickled one, for every state that refines the reference
model of C06 -/
theorem pickle_obsEq_of_rel (o : StrictWeak cfg) {W : Nat} {s : HSched κ} {live : Live κ} (R : Rel cfg W s live) :
    ObsEq (heapSched cfg W) (heapSched cfg W) s (s.pickle cfg) :=
  liveEq_obsEq o W (pickle_liveEq o R)

variable (o : StrictWeak cfg) {W : Nat} (hW : 0 < W) (ops : List (C06.Op κ))
  (hp : C06.Protocol (fun _ => none : Live κ) ops)
include o hW hp

/-- **pickle round trip = nothing happened**, as far as any future sequence of scheduler calls can tell: after every
protocol-respecting history from the initial state (pushes, trashes, gets, earlier pickle round trips), every key
order `StrictWeak`, every content of fresh memory and every counter range `W ≥ 1`. -/
theorem pickle_obsEq :
    ObsEq (heapSched cfg W) (heapSched cfg W) (C06.hRun cfg W (HSched.init cfg) ops)
      ((C06.hRun cfg W (HSched.init cfg) ops).pickle cfg) :=
  pickle_obsEq_of_rel o (C06.run_rel o hW ops _ _ _ (rel_init cfg W) (lrel_init cfg) hp).1

/-- … with times and error kinds -/
theorem pickle_results (fut : List (Op κ Nat)) :
    results cfg W (C06.hRun cfg W (HSched.init cfg) ops) fut =
      results cfg W ((C06.hRun cfg W (HSched.init cfg) ops).pickle cfg) fut :=
  liveEq_results o W (pickle_liveEq o (C06.run_rel o hW ops _ _ _ (rel_init cfg W) (lrel_init cfg) hp).1) fut

/-- **C19 for the heap scheduler**: any deterministic client (mediator, activator, handlers, random stream — state
`R`) continued on the unpickled scheduler sees the same answers for ever, in the same order, and is in the same state
after any number of steps, as the client that was never interrupted. -/
theorem resume_same_heap {R : Type} (c : Client R κ Nat) (n : Nat) (r : R) :
    runClient (heapSched cfg W) c n r (C06.hRun cfg W (HSched.init cfg) ops) =
      runClient (heapSched cfg W) c n r ((C06.hRun cfg W (HSched.init cfg) ops).pickle cfg) :=
  resume_same _ _ c n r _ _ (pickle_obsEq o hW ops hp)

omit o hW hp in
/-- the list scheduler is pickled attribute by attribute (`pickle = id` on the model): trivially the same -/
theorem resume_same_list {R : Type} (c : Client R κ Nat) (n : Nat) (r : R) (s : LSched κ) :
    runClient (listSched cfg) c n r s = runClient (listSched cfg) c n r (C06.lStep cfg s .pickle) :=
  resume_same _ _ c n r _ _ (ObsEq.refl _ _)

end Link

/-! ### non-vacuity -/

section Examples
open JF.C06 (exCfg)

/-- `Protocol` is decidable (for the concrete history below) -/
def decProtocol {κ : Type} : (live : Live κ) → (ops : List (C06.Op κ)) → Decidable (C06.Protocol live ops)
  | _, [] => isTrue trivial
  | live, .push t h :: ops =>
    have := decProtocol (live.set h (some t)) ops
    have : Decidable (live h = none) := decidable_of_iff ((live h).isNone = true) (by cases live h <;> simp)
    (inferInstance : Decidable (h ≠ 0 ∧ live h = none ∧ C06.Protocol (live.set h (some t)) ops))
  | live, .trash h :: ops => decProtocol (C06.specStep live (.trash h)) ops
  | live, .get :: ops => decProtocol (C06.specStep live .get) ops
  | live, .pickle :: ops => decProtocol (C06.specStep live .pickle) ops

/-- 70 pushes (the block grows from 64 to 128 entries), handlers 30 and 31 at exactly the same time `(1, 30)`;
then the 29 earlier events are trashed and a `get` removes them lazily from the root: 41 live entries are left in a
block of 128, with a tie at the top -/
def exGrown : List (C06.Op (Time Nat)) :=
  (List.range 70).map (fun i => .push ⟨1, if i + 1 = 31 then 30 else i + 1⟩ (i + 1)) ++
  (List.range 29).map (fun i => .trash (i + 1)) ++ [.get]

/-- what happens after the dump: the tie is served, both tied handlers are trashed one after the other, one is
pushed again -/
def exFuture : List (Op (Time Nat) Nat) :=
  [.get, .trash 30, .get, .trash 31, .get, .push ⟨2, 0⟩ 30, .get, .push ⟨1, 1⟩ 31, .get]

theorem exGrown_protocol : C06.Protocol (fun _ => none) exGrown :=
  @of_decide_eq_true _ (decProtocol _ _) (by decide +kernel)

/-- the state that is dumped -/
def exState : HSched (Time Nat) := C06.hRun exCfg 4294967296 (HSched.init exCfg) exGrown

/-- the two states really differ where `LiveEq` allows it: the original block has 128 entries, the rebuilt one 64;
both have length 42; the first slot beyond the live part holds a stale entry (handler 62) in the original and fresh
memory (the bogus handler 99 of `exCfg.garbage`) in the rebuilt heap -/
example : exState.heap.mem.size = 128 ∧ (exState.pickle exCfg).heap.mem.size = 64 ∧
    exState.heap.length = 42 ∧ (exState.pickle exCfg).heap.length = 42 ∧
    (get exCfg exState.heap 42).h = 62 ∧ (get exCfg (exState.pickle exCfg).heap 42).h = 99 := by decide +kernel

/-- … and the answers to `exFuture` are the same, computed on either state: of the two handlers at exactly the same
time `(1, 30)`, 30 is served before 31 in both; the last `get` trips the monotonicity assertion in both -/
example : outputs (heapSched exCfg 4294967296) exState exFuture =
      [.got (some 30), .unit, .got (some 31), .unit, .got (some 32), .unit, .got (some 32), .unit, .got none] ∧
    outputs (heapSched exCfg 4294967296) (exState.pickle exCfg) exFuture =
      [.got (some 30), .unit, .got (some 31), .unit, .got (some 32), .unit, .got (some 32), .unit, .got none] := by
  decide +kernel

/-- the theorems apply to this history (all hypotheses met) -/
example : ObsEq (heapSched exCfg 4294967296) (heapSched exCfg 4294967296) exState (exState.pickle exCfg) :=
  pickle_obsEq (C06.timeCfg_strictWeak 0 1000 _ (fun a => Nat.zero_le a)) (by decide) exGrown exGrown_protocol

/-- a concrete deterministic client: it replays `exFuture` and remembers how many handlers it was given -/
def exClient : Client (Nat × Nat) (Time Nat) Nat where
  next r := exFuture.getD r.1 .get
  feed r out := (r.1 + 1, match out with | .got (some _) => r.2 + 1 | _ => r.2)

example (n : Nat) : runClient (heapSched exCfg 4294967296) exClient n (0, 0) exState =
    runClient (heapSched exCfg 4294967296) exClient n (0, 0) (exState.pickle exCfg) :=
  resume_same_heap (C06.timeCfg_strictWeak 0 1000 _ (fun a => Nat.zero_le a)) (by decide) exGrown exGrown_protocol
    exClient n (0, 0)

/-- … and it is not a trivial client: after 9 steps it has been given a handler 4 times -/
example : (runClient (heapSched exCfg 4294967296) exClient 9 (0, 0) (exState.pickle exCfg)).2 = (9, 4) := by
  decide +kernel

end Examples
end JF.C19
