import JF.Lemmas.SystemRun2Main
import JF.Props.SystemInv
import JF.Props.C17
import Mathlib.Tactic.IntervalCases
/-!
# One joint invariant for the composed system of COMPOSITE OBJECTS WITHOUT CELLS — the mode premise discharged (E16)

**System** (`JF/Model/SystemRun2.lean`, `JF/Lemmas/SystemRun2Step.lean`, namespace `JF.Sys2`): a run `Reach2 os cs s` is any number of
legs `SysStep2`, each of which is one pass of `SingleProcessMediator.run` = `JF.Med.leg` (E1, spec-level scheduler over exact times
`XTime`) on the concrete state of E10 (`JF.CW2`: `List (CObj ℚ)`, two-level trees, no internal state — and NO ghost mode), where
* the taggers' yields are COMPUTED from the concrete state (`CW2.yieldCls`: the lifting state's independent active identifiers, the
  four tagger classes, C10's factor maps),
* every candidate time is a normalised finite time or `inf`, not before the last commit (`CandsOK2`) — nothing else,
* the global state moves by `Composite.step` of an event whose KIND is one that the handler class of the committing tagger commits
  (E13's map `kindsOf`) in the mode READ OFF THE ACTIVATION FLAGS at the moment its candidate time was requested (`Sys2.cmode`,
  computed from the activator states along the run by `cmodeNext`; E13's `hkind` is thereby the definition of the step relation,
  not a hypothesis about a model run), at the committed time, under C12's weak admissibility `AdmW` (`Commits2`, `EvAdm2`), and no
  leg follows the end-of-run commit,
* the run starts from a state at rest that satisfies C12's `AllGood` (`Init2`), and the start-of-run event moves one point mass /
  all point masses of one object as `initial_active_identifier` says (`StartMode … mw.startMode`, part of `EvAdm2`).

**Hypotheses** (`Hyp2`): a box (`BoxOK`), and the four decidable side conditions `WiringSound mw.w`, `start? = some S`,
`Supported2 mw`, `ModeSound mw` (all by `decide` for the shipped wirings).  The exact reading (ℚ) is built into the state type.
There is NO no-tie hypothesis (this world has no cell-boundary event) and NO mode premise.

**Main theorem** `joint_inv2`: by ONE induction over the legs, `JInv2` = `Big2` (`JF/Lemmas/SystemRun2Step.lean`) holds after every
leg: E1's invariant `MInv` (scheduler mirrors the running lists); the state in the middle of the leg — with the MODE OF THE ACTIVATION
FLAGS as its mode component — satisfies E10's invariant `Inv` (`AllGood ∧ Uniform ∧ OneChainM` in that mode) and is a state of E13's
`RunK` *for the transition relation `Tr2` of E10, whose mode premise `modeStep g.mode e = some g'.mode` is now derived at every step*
(`mode_step_of_run`: from `ModeSound`, `WiringSound`, C09's freshness and E13's `modeStep_of_modeSound`, all along the same run) — hence
C09's `Fresh` for every live tagger without `FootprintsSound` and without the mode premise; C08's `Reach8` for the concrete motion
relation `motion2` with both hypotheses of `StepOK8` discharged; C12's `AllGood` and C07's one-chain clause `OneChainM` for the state
after the commit, in the mode the flags show in the next leg, with the squared speed conserved.

**Corollaries** (no cross-file hypotheses left): `sched_mirrors_running_closed2` (item 1), `c09_fresh_closed2` / `c09_fresh_every_leg2`
(item 2), `mode_premise_closed2` (every commit is a transition of `Tr2`), `mode_at_request_is_current2` (the mode at the request of a
pending end-of-chain candidate is the current mode of the flags), `c12_rootConsistent_closed2`, `c07_one_chain_closed2`,
`c07_chain_clause_closed2` (item 3), `candOK_closed2`, `commit_times_sorted_closed2`, `guard_never_fires_closed2` (item 4), `c08_closed2`,
`c08_stale_trashed_closed2` (item 5), `no_sample_skipped2` (C17 link); instantiated for the five shipped dipole wirings without cells
and `water/single_molecule.ini` (`hyp2_dipole_motion`, …), and on a concrete two-dipole, 8-leg run of `dipole_motion.ini` with both
mode switches (`Example`).

Not closed here: composite objects WITH a cell system (`dipoles/cell_*.ini`, the other water files: neither E10's world nor this
system has an occupancy); the admissibility side conditions `AdmW` of a committed event and the start mode remain conditions of
the step relation (they say what the handlers do, C12 / `modecorr`); the candidate times are not tied to the potentials.
-/
namespace JF.SystemInv2
open JF JF.Act JF.Heap JF.Sched JF.Med JF.CW2 JF.C14 JF.MediatorLoop JF.Sys JF.Sys2 JF.Composite JF.C12

section
variable {env : Env ℚ} {mw : ModeWiring} {S : TaggerIdx} {needs : HandlerId → Bool}

/-! ## the joint invariant -/

/-- before the first leg: the initial state; after a leg: `Big2` for the last committed event -/
def JInv2 (env : Env ℚ) (mw : ModeWiring) (S : TaggerIdx) (needs : HandlerId → Bool)
    (cs : List (Committed XTime)) (s : Sys2) : Prop :=
  (cs = [] ∧ Init2 env mw s) ∨
  ∃ cs0 cl E tl sq, cs = cs0 ++ [cl] ∧ Big2 env mw S needs cs cl s E tl sq

/-- **the joint invariant holds after every leg of every run** (ONE induction over the legs) -/
theorem joint_inv2 (H : Hyp2 env mw S) {os : List (Oracle XTime)} {cs : List (Committed XTime)} {s : Sys2}
    (hr : Reach2 env mw S needs os cs s) : JInv2 env mw S needs cs s := by
  induction hr with
  | init s h => exact Or.inl ⟨rfl, h⟩
  | @step os cs s s' o cm prev hgo hstep ih =>
    right
    rcases ih with ⟨rfl, hi⟩ | ⟨cs0, cl, E, tl, sq, rfl, big⟩
    · obtain ⟨E', tl', sq', hb⟩ := first_step2 H hi hstep
      exact ⟨[], cm, E', tl', sq', rfl, hb⟩
    · have hgo' : cl.stop = false := hgo cl (by simp)
      obtain ⟨E', tl', hb⟩ := big_step2 H big hgo' hstep
      exact ⟨cs0 ++ [cl], cm, E', tl', sq, rfl, hb⟩

/-! ## runs of the composed system are runs of E1's loop; every leg of a run -/

/-- the mediator component of a run is a run of `JF.Med.leg` from the initial state: all theorems of
`JF/Props/MediatorLoop.lean` apply to it -/
theorem reach_medRun2 {os : List (Oracle XTime)} {cs : List (Committed XTime)} {s : Sys2}
    (hr : Reach2 env mw S needs os cs s) :
    MediatorLoop.Run (mwire mw.w S needs) (specI xcfg) (MedState.init (specI xcfg) (mwire mw.w S needs).w) os cs s.med := by
  induction hr with
  | init s h => rw [h.med]; exact .nil _
  | step _ _ hstep ih => exact run_snoc ih hstep.leg

/-- every leg of a run is a step from a reachable state (the run up to that leg) -/
theorem reach_leg2 {os : List (Oracle XTime)} {cs : List (Committed XTime)} {s : Sys2}
    (hr : Reach2 env mw S needs os cs s) {k : Nat} {cm : Committed XTime} (hk : cs[k]? = some cm) :
    ∃ s0 s1 o, Reach2 env mw S needs (os.take k) (cs.take k) s0 ∧
      (∀ cl, (cs.take k).getLast? = some cl → cl.stop = false) ∧ SysStep2 env mw S needs s0 o cm s1 := by
  induction hr with
  | init s h => simp at hk
  | @step os cs s s' o cm' prev hgo hstep ih =>
    have hlen : os.length = cs.length := by
      clear ih hk hgo hstep
      induction prev with
      | init => rfl
      | step _ _ _ ih => simp [ih]
    by_cases hlt : k < cs.length
    · rw [List.getElem?_append_left hlt] at hk
      obtain ⟨s0, s1, o0, h1, h2, h3⟩ := ih hk
      refine ⟨s0, s1, o0, ?_, ?_, h3⟩
      · rw [List.take_append_of_le_length (Nat.le_of_lt hlt), List.take_append_of_le_length (by omega)]; exact h1
      · rw [List.take_append_of_le_length (Nat.le_of_lt hlt)]; exact h2
    · have hke : k = cs.length := by
        have := (List.getElem?_eq_some_iff.mp hk).1
        simp at this; omega
      subst hke
      simp only [List.getElem?_concat_length, Option.some.injEq] at hk
      subst hk
      refine ⟨s, s', o, ?_, ?_, hstep⟩
      · rw [List.take_left' rfl, ← hlen, List.take_left' rfl]; exact prev
      · rw [List.take_left' rfl]; exact hgo

/-- the invariant for the last committed event -/
theorem jinv_big2 {cs : List (Committed XTime)} {s : Sys2} (h : JInv2 env mw S needs cs s) {cl : Committed XTime}
    (hl : cs.getLast? = some cl) : ∃ E tl sq, Big2 env mw S needs cs cl s E tl sq := by
  rcases h with ⟨rfl, _⟩ | ⟨cs0, cl', E, tl, sq, rfl, big⟩
  · simp at hl
  · have : cl' = cl := by simpa using hl
    subst this
    exact ⟨E, tl, sq, big⟩

/-! ## corollaries -/

/-- **item 1 — E1's invariant**: after every leg of every run the spec-level scheduler holds exactly the finite pending events,
one per handler, and a handler has a pending event iff it is a running handler of some tagger -/
theorem sched_mirrors_running_closed2 (H : Hyp2 env mw S) {os : List (Oracle XTime)} {cs : List (Committed XTime)} {s : Sys2}
    (hr : Reach2 env mw S needs os cs s) :
    (∀ h t, (t, h) ∈ s.med.sched.live ↔ pendOf (fun _ => none) cs h = some t ∧ xcfg.finite t = true) ∧
    s.med.sched.live.Pairwise (fun a b => a.2 ≠ b.2) ∧
    (∀ h, (pendOf (fun _ => none : Pend XTime) cs h).isSome ↔ ∃ T, h ∈ (getT s.med.act.ts T).running) ∧
    (∀ h, (∀ T, h ∉ (getT s.med.act.ts T).running) → ∀ t, (t, h) ∉ s.med.sched.live) :=
  spec_sched_mirrors_running xcfg_strictWeak (hyp2_static H) (reach_medRun2 hr)

/-- **`c09_fresh_closed2` — C09 for composite objects without the `FootprintsSound` hypothesis AND WITHOUT THE MODE PREMISE**: after
every leg but the first, the state in the middle of that leg — the activator's lists `s.mid`, the identifiers handed out `s.ids`,
the concrete global state `s.csPrev` the leg's candidates were computed on, with the mode `mw.mode (absOf s.mid)` read off the
activation flags of `s.mid` as its mode component — satisfies E10's invariant `Inv` in that mode, every live tagger is `Fresh` there
(its pending events are what it generates from scratch for that state), and it is a state of `JF.Act.Run` for the transition
relation `Tr2` of E10 (whose mode premise is now proved at every step). -/
theorem c09_fresh_closed2 (H : Hyp2 env mw S) {os : List (Oracle XTime)} {cs : List (Committed XTime)} {s : Sys2}
    (hr : Reach2 env mw S needs os cs s) (h2 : 2 ≤ cs.length) :
    ∃ hi : Inv env ⟨s.csPrev, ofW (mw.mode (absOf s.mid))⟩,
      (∀ T, (world2 env mw).live T → Fresh (world2 env mw) ⟨s.mid, s.ids, ⟨_, hi⟩⟩ T) ∧
      Act.Run mw.w (world2 env mw) (Tr2 env mw) S ⟨s.mid, s.ids, ⟨_, hi⟩⟩ := by
  rcases joint_inv2 H hr with ⟨rfl, _⟩ | ⟨cs0, cl, E, tl, sq, rfl, big⟩
  · simp at h2
  · obtain ⟨hi, hph⟩ := big.phase
    rcases hph with ⟨h1, _⟩ | ⟨h, hrun⟩
    · omega
    · exact ⟨hi, (Act.run_inv mw.w (world2 env mw) (Tr2 env mw) S H.sound H.hS (hyp2_fps H) (liveIs2 env mw) hrun.toRun).fresh,
        hrun.toRun⟩

/-- … and the pending events in the middle of a leg are exactly those of the running handlers of that moment: **pending = fresh
yield at every leg** (leg `k ≥ 1` of a run; `s1` the state after it) -/
theorem c09_fresh_every_leg2 (H : Hyp2 env mw S) {os : List (Oracle XTime)} {cs : List (Committed XTime)} {s : Sys2}
    (hr : Reach2 env mw S needs os cs s) {k : Nat} {cm : Committed XTime} (hk : cs[k + 1]? = some cm) :
    ∃ (s1 : Sys2) (hi : Inv env ⟨s1.csPrev, ofW (mw.mode (absOf s1.mid))⟩),
      (∀ T, (world2 env mw).live T → Fresh (world2 env mw) ⟨s1.mid, s1.ids, ⟨_, hi⟩⟩ T) ∧
      (∀ x, (pendPushed (pendOf (fun _ => none) (cs.take (k + 1))) cm x).isSome ↔ ∃ T, x ∈ (getT s1.mid T).running) := by
  obtain ⟨s0, s1, o, hr0, hgo, hst⟩ := reach_leg2 hr hk
  have hr1 := Reach2.step hr0 hgo hst
  have hklt : k + 1 < cs.length := (List.getElem?_eq_some_iff.mp hk).1
  have hlen : 2 ≤ (cs.take (k + 1) ++ [cm]).length := by
    rw [List.length_append, List.length_take, Nat.min_eq_left (Nat.le_of_lt hklt)]; simp
  obtain ⟨hi, hfr, _⟩ := c09_fresh_closed2 H hr1 hlen
  refine ⟨s1, hi, hfr, ?_⟩
  rcases joint_inv2 H hr0 with ⟨he, _⟩ | ⟨cs0, cl, E, tl, sq, he, big⟩
  · have h0 : (cs.take (k + 1)).length = 0 := by rw [he]; rfl
    rw [List.length_take, Nat.min_eq_left (Nat.le_of_lt hklt)] at h0; omega
  · have := (mid_mirror (hyp2_static H) big.med hst.leg).2.1
    rw [hst.mid']; exact this

/-- **the mode premise of E10's `Tr2` is a theorem**: every commit after the start-of-run event that does not end the run is a
transition of `TrRaw2` between the concrete states with the modes READ OFF THE ACTIVATION FLAGS — before the commit the flags in the
middle of the leg (`absOf s.mid`), after it the flags of the next leg (`aStep`) — in particular
`modeStep (flags' mode before) e = some (flags' mode after)` for the committed event `e` -/
theorem mode_premise_closed2 (H : Hyp2 env mw S) {os : List (Oracle XTime)} {cs : List (Committed XTime)} {s : Sys2}
    (hr : Reach2 env mw S needs os cs s) (h2 : 2 ≤ cs.length) {cl : Committed XTime} (hl : cs.getLast? = some cl)
    (hgo : cl.stop = false) :
    ∃ E, owner mw.w.wires cl.handler = some E ∧
      TrRaw2 env mw E ⟨s.csPrev, ofW (mw.mode (absOf s.mid))⟩ ⟨s.cs, ofW (mw.mode (aStep mw.w (absOf s.mid) E))⟩ := by
  obtain ⟨E, tl, sq, big⟩ := jinv_big2 (joint_inv2 H hr) hl
  refine ⟨E, big.owner, ?_⟩
  obtain ⟨hi, hph⟩ := big.phase
  rcases hph with ⟨h1, _⟩ | ⟨h, hrun⟩
  · omega
  · have hend : (mw.w.tagger E).kind ≠ .endOfRun := by
      have := endOfRun_of_stop big.owner big.stopEq
      rw [hgo] at this
      intro hk; rw [hk] at this; simp at this
    obtain ⟨e, hk, _, ⟨ha, _⟩, hcs⟩ := big.commit
    exact ⟨e, s.cmode E, hk, mode_step_of_run H hrun (List.ne_nil_of_mem big.running) hend hk, ha, hcs⟩

/-- **the mode at the request is the current mode**: for a tagger whose handler class commits a kind that depends on the mode at
the request of the candidate time (the end of chain) and that has a pending handler in the middle of a leg, the ghost `cmode` —
the mode of the flags when that candidate was requested — is the mode of the flags now.  (So the step relation could equally be
stated with the current flags.) -/
theorem mode_at_request_is_current2 (H : Hyp2 env mw S) {os : List (Oracle XTime)} {cs : List (Committed XTime)} {s : Sys2}
    (hr : Reach2 env mw S needs os cs s) (h2 : 2 ≤ cs.length) {T : TaggerIdx} (hp : isPoly (mw.hmode T) = true)
    (hrun : (getT s.mid T).running ≠ []) : s.cmode T = mw.mode (absOf s.mid) := by
  rcases joint_inv2 H hr with ⟨rfl, _⟩ | ⟨cs0, cl, E, tl, sq, rfl, big⟩
  · simp at h2
  · obtain ⟨hi, hph⟩ := big.phase
    rcases hph with ⟨h1, _⟩ | ⟨h, hrunk⟩
    · omega
    · exact (modeStep_of_modeSound mw (world2 env mw) (Tr2 env mw) S H.ms H.sound H.hS (hyp2_fps H) (liveIs2 env mw)
        hrunk).poly T hp hrun

/-- **`c12_rootConsistent_closed2` — C12 at every leg of every run, no at-rest / which-leaves-move / mode hypothesis**: after every
commit every composite object satisfies C12's invariant `Good` (hence `RootConsistent`: the root's velocity is the mean of the
point masses' velocities, its position their mean modulo the box), and has `number_of_nodes_per_root_node` point masses -/
theorem c12_rootConsistent_closed2 (H : Hyp2 env mw S) {os : List (Oracle XTime)} {cs : List (Committed XTime)} {s : Sys2}
    (hr : Reach2 env mw S needs os cs s) :
    AllGood env.d env.L s.cs ∧ Uniform env.nPer s.cs ∧ ∀ c ∈ s.cs, RootConsistent env.L c := by
  rcases joint_inv2 H hr with ⟨rfl, hi⟩ | ⟨cs0, cl, E, tl, sq, rfl, big⟩
  · exact ⟨hi.good, hi.unif, fun c hc => good_rootConsistent (hi.good c hc)⟩
  · exact ⟨big.good, big.unif, fun c hc => good_rootConsistent (big.good c hc)⟩

/-- **`c07_one_chain_closed2` — C07's one-chain clause at every leg of every run**: after every commit exactly one chain moves —
one point mass (leaf mode) or all point masses of one composite object (root mode), with one velocity — and if the run goes on,
the mode is the one the activation flags show in the next leg -/
theorem c07_one_chain_closed2 (H : Hyp2 env mw S) {os : List (Oracle XTime)} {cs : List (Committed XTime)} {s : Sys2}
    (hr : Reach2 env mw S needs os cs s) {cl : Committed XTime} (hl : cs.getLast? = some cl) :
    ∃ E sq m, owner mw.w.wires cl.handler = some E ∧ OneChainM s.cs sq m ∧ OneChain s.cs sq ∧
      (cl.stop = false → m = ofW (mw.mode (aStep mw.w (absOf s.mid) E))) := by
  obtain ⟨E, tl, sq, big⟩ := jinv_big2 (joint_inv2 H hr) hl
  obtain ⟨m, hc, hm⟩ := big.chain
  exact ⟨E, sq, m, big.owner, hc, (oneChain_iff _ _).mpr ⟨m, hc⟩, hm⟩

/-- the same in the readable form of `JF.C12.chain_clause`: every moving point mass belongs to one object `i` and has one velocity
`v`; the moving point masses are a single one or all of object `i` -/
theorem c07_chain_clause_closed2 (H : Hyp2 env mw S) {os : List (Oracle XTime)} {cs : List (Committed XTime)} {s : Sys2}
    (hr : Reach2 env mw S needs os cs s) (hne : cs ≠ []) :
    ∃ (i : Nat) (c : CObj ℚ) (v : List ℚ), s.cs[i]? = some c ∧
      (∀ (k : Nat) (ck : CObj ℚ) (l : PUnit ℚ), s.cs[k]? = some ck → l ∈ ck.leaves → l.vel ≠ none → k = i ∧ l.vel = some v) ∧
      ((∃ (j : Nat) (a : PUnit ℚ), c.leaves[j]? = some a ∧ a.vel = some v ∧
          ∀ (k : Nat) (l : PUnit ℚ), c.leaves[k]? = some l → l.vel ≠ none → k = j) ∨
       (c.leaves ≠ [] ∧ ∀ l ∈ c.leaves, l.vel = some v)) := by
  obtain ⟨cl, hl⟩ : ∃ cl, cs.getLast? = some cl := by
    cases h : cs.getLast? with
    | none => exact absurd (List.getLast?_eq_none_iff.mp h) hne
    | some cl => exact ⟨cl, rfl⟩
  obtain ⟨_, sq, _, _, _, hc, _⟩ := c07_one_chain_closed2 H hr hl
  obtain ⟨i, c, v, h1, _, h3, h4⟩ := chain_clause hc
  exact ⟨i, c, v, h1, h3, h4⟩

/-- **the squared speed of the chain is conserved from leg to leg** -/
theorem c07_speed_conserved2 (H : Hyp2 env mw S) {os : List (Oracle XTime)} {cs : List (Committed XTime)} {s : Sys2}
    (hr : Reach2 env mw S needs os cs s) (hne : cs ≠ []) (hgo : ∀ cl, cs.getLast? = some cl → cl.stop = false)
    {o : Oracle XTime} {cm : Committed XTime} {s' : Sys2} (hstep : SysStep2 env mw S needs s o cm s') :
    ∃ sq, OneChain s.cs sq ∧ OneChain s'.cs sq := by
  rcases joint_inv2 H hr with ⟨rfl, _⟩ | ⟨cs0, cl, E, tl, sq, rfl, big⟩
  · exact absurd rfl hne
  · obtain ⟨E', tl', big'⟩ := big_step2 H big (hgo cl (by simp)) hstep
    obtain ⟨m, hc, _⟩ := big.chain
    obtain ⟨m', hc', _⟩ := big'.chain
    exact ⟨sq, (oneChain_iff _ _).mpr ⟨m, hc⟩, (oneChain_iff _ _).mpr ⟨m', hc'⟩⟩

/-- **item 4 — `CandOK` of E1 holds along every run**: every pushed candidate time is not before the previous commit (here: the
constraint `CandsOK2` on the oracle, for every handler) -/
theorem candOK_closed2 (H : Hyp2 env mw S) {os : List (Oracle XTime)} {cs : List (Committed XTime)} {s : Sys2}
    (hr : Reach2 env mw S needs os cs s) : MediatorLoop.Legs (CandOK xcfg) (fun _ => none) xcfg.bot cs := by
  induction hr with
  | init => trivial
  | @step os cs s s' o cm prev hgo hstep ih =>
    rw [SystemInv.legs_snoc]
    refine ⟨ih, ?_⟩
    show ∀ q ∈ cm.pushed, xcfg.lt q.2 (lastOf xcfg.bot cs) = false
    rcases joint_inv2 H prev with ⟨rfl, _⟩ | ⟨cs0, cl, E, tl, sq, rfl, big⟩
    · intro q _; exact xcfg_strictWeak.bot_min q.2
    · rw [lastOf_snoc]; exact candOK_step2 big hstep

/-- **commit times never decrease** (C07's time order for the composed system), from `candOK_closed2` and E1 — not from the
scheduler's own monotonicity assertion -/
theorem commit_times_sorted_closed2 (H : Hyp2 env mw S) {os : List (Oracle XTime)} {cs : List (Committed XTime)} {s : Sys2}
    (hr : Reach2 env mw S needs os cs s) : cs.Pairwise (fun a b => xcfg.lt b.time a.time = false) :=
  commit_times_sorted_pairwise xcfg_strictWeak (specLaws xcfg_strictWeak) (hyp2_static H) (reach_medRun2 hr)
    (candOK_closed2 H hr)

/-- … and the assertion `_event_time_increasing` of the scheduler never fires in the next leg, whatever the oracle, as long as
the candidates of the handlers that leg hands out obey `CandsOK2` -/
theorem guard_never_fires_closed2 (H : Hyp2 env mw S) {os : List (Oracle XTime)} {cs : List (Committed XTime)} {s : Sys2}
    (hr : Reach2 env mw S needs os cs s) (o : Oracle XTime)
    (hc : ∀ a1 created, getToRun (mwire mw.w S needs).w (mwire mw.w S needs).S s.med.act s.med.preceding o.yields =
        (a1, .ok created) → CandsOK2 s.med.sched.last o created) (h : HandlerId) :
    leg (mwire mw.w S needs) (specI xcfg) s.med o ≠ .error (.schedGuard h) := by
  refine guard_never_fires (specLaws xcfg_strictWeak) (hyp2_static H) (reach_medRun2 hr) o ?_ h
  intro x hx
  rcases joint_inv2 H hr with ⟨rfl, _⟩ | ⟨cs0, cl, E, tl, sq, rfl, big⟩
  · exact xcfg_strictWeak.bot_min _
  · rw [lastOf_snoc]
    unfold createdOf at hx
    split at hx
    · next created hcr =>
      obtain ⟨q, hq, rfl⟩ := List.mem_map.mp hx
      have hg : getToRun (mwire mw.w S needs).w (mwire mw.w S needs).S s.med.act s.med.preceding o.yields =
          ((getToRun (mwire mw.w S needs).w (mwire mw.w S needs).S s.med.act s.med.preceding o.yields).1, .ok created) :=
        Prod.ext rfl hcr
      have := (hc _ _ hg q hq).2
      rw [big.med.rel.last] at this
      exact this
    · cases hx

/-- **`no_sample_skipped2` — the C17 link.**  In every leg `k` of every run: while a sampling candidate with time `t_s` is pending
(in the middle of the leg), the event committed by the leg is not later than `t_s` (minimality, E1/C06), and when the sampling
handler itself commits, it commits at exactly `t_s` — the candidate time it returned when it was handed out.  With
`commit_times_sorted_closed2`: no event after `t_s` is committed before the sample. -/
theorem no_sample_skipped2 (H : Hyp2 env mw S) {os : List (Oracle XTime)} {cs : List (Committed XTime)} {s : Sys2}
    (hr : Reach2 env mw S needs os cs s) {k : Nat} {cm : Committed XTime} (hk : cs[k]? = some cm)
    {hs : HandlerId} {ts : XTime} (_ : kindOfH mw.w hs = .sampling)
    (hp : pendPushed (pendOf (fun _ => none) (cs.take k)) cm hs = some ts) (hfin : xcfg.finite ts = true) :
    xcfg.lt ts cm.time = false ∧ (cm.handler = hs → cm.time = ts) := by
  have legs := (MediatorLoop.run_inv (specLaws xcfg_strictWeak) (hyp2_static H) (reach_medRun2 hr)
    (minv_init (specLaws xcfg_strictWeak) (mwire mw.w S needs))).2
  have ok := SystemInv.legs_get _ _ _ legs k cm hk
  refine ⟨ok.minimal hs ts hp hfin, fun he => ?_⟩
  have := ok.pending
  rw [he, hp] at this
  exact (Option.some.inj this).symm

/-- the same in the rational order of the exact reading -/
theorem no_sample_skipped_val2 (H : Hyp2 env mw S) {os : List (Oracle XTime)} {cs : List (Committed XTime)} {s : Sys2}
    (hr : Reach2 env mw S needs os cs s) {k : Nat} {cm : Committed XTime} (hk : cs[k]? = some cm)
    {hs : HandlerId} {ts t : Time ℚ} (hkind : kindOfH mw.w hs = .sampling)
    (hp : pendPushed (pendOf (fun _ => none) (cs.take k)) cm hs = some (.fin ts)) (hts : Normalised ts)
    (ht : cm.time = .fin t) (htn : Normalised t) : val t ≤ val ts := by
  have := (no_sample_skipped2 H hr hk hkind hp rfl).1
  rw [ht] at this
  exact (xlt_false_iff hts htn).mp this

/-- **`c08_closed2` — C08's first sentence for every run: the in-state of a committed interaction event is current.**
After every leg there is the bookkeeping `born` of C08 (`born h` = the concrete state in the middle of the leg in which `h` was
handed out last, i.e. the state its candidate was computed from — it is determined by `JF.C08.commit8` along the run `Reach8`),
and for the handler `cl.handler` the leg committed, if its tagger is an interaction tagger: every unit of its in-state (root unit
and point masses of the branches of its identifiers, `branchUnits`) moves in the state the leg committed on (`s.csPrev`) as it did
in `born cl.handler` — same velocity, same position if at rest, same trajectory modulo the box if moving (`SameMotion2`).  More
generally (`Current`) this holds for every pending handler of every such tagger.  Both hypotheses of C08's `StepOK8` are discharged:
the footprint hypothesis `quiet` by the composite machine (`same_sliceAt`), clause (h) by `WiringSound`. -/
theorem c08_closed2 (H : Hyp2 env mw S) {os : List (Oracle XTime)} {cs : List (Committed XTime)} {s : Sys2}
    (hr : Reach2 env mw S needs os cs s) {cl : Committed XTime} (hl : cs.getLast? = some cl) :
    ∃ (hi : Inv env ⟨s.csPrev, ofW (mw.mode (absOf s.mid))⟩) (born : HandlerId → G env),
      C08.Reach8 mw.w.wires (world2 env mw) (motion2 env mw) S ⟨⟨s.mid, s.ids, ⟨_, hi⟩⟩, born⟩ ∧
      C08.Current (motion2 env mw) ⟨⟨s.mid, s.ids, ⟨_, hi⟩⟩, born⟩ ∧
      ∀ E, owner mw.w.wires cl.handler = some E → motionBound (mw.w.tagger E) = true →
        ∀ u ∈ (motion2 env mw).units (s.ids cl.handler),
          SameMotion2 env.d env.L (born cl.handler).1.cs s.csPrev u := by
  obtain ⟨E0, tl, sq, big⟩ := jinv_big2 (joint_inv2 H hr) hl
  obtain ⟨hi, born, hr8⟩ := big.cur
  have hcur := (C08.current_of_reach (hyp2_static (needs := needs) H).wf hr8).1
  refine ⟨hi, born, hr8, hcur, fun E hE hb u hu => ?_⟩
  rw [big.owner] at hE
  have : E0 = E := Option.some.inj hE
  subst this
  have hEn : E0 < mw.w.n := by rw [← mw.w.wires_length]; exact owner_lt big.owner
  exact hcur E0 ⟨hEn, hb⟩ cl.handler big.running u hu

/-- **`c08_stale_trashed_closed2` — C08's second sentence for every run, without the footprint hypothesis.**  If leg `k` commits an
event that may change the motion of a unit (`affects · .motion`: anything but sampling, dumping, end of run) while the event of a
handler `h` of an interaction tagger is pending — i.e. `h`'s candidate was computed before that commit —, then `h`'s event is in
the trash list of leg `k`, and if `h` commits in a later leg `j`, it was handed out again (its candidate recomputed from the then
current state) in some leg `i` with `k < i ≤ j`. -/
theorem c08_stale_trashed_closed2 (H : Hyp2 env mw S) {os : List (Oracle XTime)} {cs : List (Committed XTime)} {s : Sys2}
    (hr : Reach2 env mw S needs os cs s) {k j : Nat} {ck cj : Committed XTime}
    (hk : cs[k]? = some ck) {E : TaggerIdx} (hE : owner mw.w.wires ck.handler = some E)
    (hm : affects (mw.w.tagger E) .motion = true) {h : HandlerId} {T : TaggerIdx} (hT : owner mw.w.wires h = some T)
    (hb : motionBound (mw.w.tagger T) = true)
    (hp : (pendPushed (pendOf (fun _ => none) (cs.take k)) ck h).isSome) :
    h ∈ ck.trashed ∧
    (k < j → cs[j]? = some cj → cj.handler = h →
      ∃ (i : Nat) (ci : Committed XTime), k < i ∧ i ≤ j ∧ cs[i]? = some ci ∧ h ∈ ci.created.map Prod.fst) := by
  have htr : h ∈ ck.trashed := by
    obtain ⟨s0, s1, o, hr0, hgo, hst⟩ := reach_leg2 hr hk
    rcases joint_inv2 H hr0 with ⟨he, hi⟩ | ⟨cs0, cl, E0, tl, sq, he, big⟩
    · -- the first leg: only the start-of-run handler is pending
      exfalso
      rw [he] at hp
      have := first_leg_pending_kind2 H hi hst hp
      rw [kindOfH_of_owner hT] at this
      rw [motionBound, this] at hb; simp at hb
    · have hl : (cs.take k).getLast? = some cl := by rw [he]; simp
      have hgo' := hgo cl hl
      have hTn : T < mw.w.n := by rw [← mw.w.wires_length]; exact owner_lt hT
      obtain ⟨pmid, mirr, _⟩ := mid_mirror (hyp2_static H) big.med hst.leg
      obtain ⟨T', hT'⟩ := (mirr h).mp hp
      have : owner mw.w.wires h = some T' := owner_of_running (poolsOK_wires mw.w) pmid hT'
      rw [hT] at this
      have : T = T' := Option.some.inj this
      subst this
      exact stale_trashed_step2 H big hgo' hst hE hm hTn hb (by rw [hst.mid']; exact hT')
  refine ⟨htr, fun hkj hj hc => ?_⟩
  exact trashed_never_committed_run (specLaws xcfg_strictWeak) (hyp2_static H) (reach_medRun2 hr) hk htr hkj hj hc

end

end JF.SystemInv2
