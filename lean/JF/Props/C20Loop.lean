import JF.Lemmas.C20LoopEnv
import JF.Lemmas.C20LoopRun
import JF.Props.C20
import JF.Props.MediatorLoop
/-!
# C20 over the concrete single-process loop: the multi-process mediator refines `JF.Med.runLegs`

`JF.C20.mp_refines_sp` (`JF/Props/C20.lean`) is relative to an abstract *rest of the application* `env : JF.MP.Env` obeying the
activator/scheduler protocol `JF.MP.Protocol`.  E1 (`JF/Model/Mediator.lean`, `JF/Props/MediatorLoop.lean`) is the loop of
`SingleProcessMediator.run` as a concrete machine (activator model × scheduler instance × preceding handler).  This module
closes the gap:

* `medEnv L hs W` (`JF/Lemmas/C20LoopEnv.lean`): the `Env` built from the components of `JF.Med.leg` for a configuration `M` with
  `Static M`, a scheduler instance `I` with `Laws` (spec, list, heap) and a `World W` (global states, yields, handler computations);
* `protocol_medEnv`: **`Protocol (medEnv …) Running` is a theorem** — E1's invariant gives every field;
* `runSP_eq_runLegs`: the abstract reference `runSP (medEnv …)` commits, leg by leg, the handlers and times of `JF.Med.runLegs` on
  the oracle values read off the run (`oracles`);
* `mp_refines_medloop`: for every core count, arity assignment and adversary the multi-process mediator commits exactly the commits
  of `JF.Med.runLegs`, or stops on an adversary fault;
* `commit_times_sorted_mp`, `no_stale_event_committed_mp`, `committed_is_running_mp`, `trashed_never_committed_mp`: E1's theorems
  about the committed sequence, for multi-process runs.

What `Protocol`/`Env` demand beyond E1, and how it is met (nothing remains a hypothesis):
1. `Env` is total while `JF.Med.leg` raises: the environment has a mode `halted` it enters at the first exception of the activator /
   in-state assertion / scheduler (and when called out of phase); there it behaves like a trivial application keeping the protocol.
   All statements below are about the legs on which `JF.Med.leg` succeeds (`runLegs` stops at the first exception anyway); they say
   nothing about what both mediators would do after an exception of the rest of the application (the real run ends there).
   `EndOfRun` is not an exception of the environment: the statements hold for the prefix `runLegs` makes, the environment itself
   would go on (as `JF.MediatorLoop.Run` does).
2. `Protocol` quantifies over all states, E1's invariant holds on reachable ones: the state type of `medEnv` is the subtype
   `Good` (= `MInv` of the phase), preserved by the three operations.
3. `choose_run` needs a running handler even when nothing runs and the scheduler is empty (`get_succeeding_event` raises): `activate`
   goes to `halted` already when no handler runs after it (the leg of `JF.Med.leg` raises `schedEmpty` in that case).

Identity-modelled: the handlers' computations (`World.cand`, `World.out`: arbitrary functions of handler, leg number and global
state, as in `JF.MP.Env`), the yields of the taggers (`World.yields`: arbitrary function of the global state), the global state
itself and `insert_into_global_state` (`World.commit`).
-/
namespace JF.C20Loop
open JF JF.Act JF.Heap JF.Sched JF.Med JF.MediatorLoop

section main
variable {κ G O : Type} {cfg : Cfg κ} {I : SchedI κ} {vis : κ → Bool} {R : I.σ → Pend κ → κ → Prop} {M : MWire}

/-! ## 1. the protocol is a theorem -/

/-- **`Protocol medEnv Running`**, with `Running e h` = "`h` is in `_running_event_handlers` of some tagger" -/
theorem protocol_medEnv (L : Laws cfg I vis R) (hs : Static M) (W : World G O κ) :
    MP.Protocol (medEnv L hs W) Running :=
  medProtocol L hs W

/-! ## 2. `runSP medEnv` unfolds to `JF.Med.runLegs` -/

theorem runSP_length {E T : Type} (env : MP.Env G E T O) : ∀ (k n : Nat) (g : G) (e : E) (last : Nat → Nat) (hist : Nat → G),
    (MP.runSP env k n g e last hist).length = k := by
  intro k
  induction k with
  | zero => intro n g e last hist; rfl
  | succ k ih => intro n g e last hist; simp [MP.runSP, ih]

/-- the abstract single-process reference of C20 on the concrete environment, from the initial state -/
def spRun (L : Laws cfg I vis R) (hs : Static M) (W : World G O κ) (k : Nat) (g : G) (hist : Nat → G) : List (MP.Commit G κ O) :=
  MP.runSP (medEnv L hs W) k 0 g (medInit L M) (fun _ => 0) hist

theorem link_init (W : World G O κ) (hist : Nat → G) : Link W (fun _ => none : Pend κ) (fun _ => 0) hist 0 := by
  intro h t e; cases e

/-- the same for any `Run` of the concrete loop from the initial state (runs do not stop at the end-of-run commit) -/
theorem runSP_eq_run (L : Laws cfg I vis R) (hs : Static M) (W : World G O κ) (k : Nat) (g : G) (hist : Nat → G)
    {st : MedState I.σ} {os : List (Oracle κ)} {cs : List (Committed κ)} (hrun : Run M I (MedState.init I M.w) os cs st)
    {m : Nat} (hos : os = (oracles W 0 g (spRun L hs W k g hist)).take m) :
    cs.map keyMed = ((spRun L hs W k g hist).take cs.length).map keyMP :=
  runSP_run L hs W hrun k 0 g (fun _ => 0) hist _ _ (medInit L M).2 m (minv_init L M) (link_init W hist) hos

/-- **`runSP medEnv` unfolds to `JF.Med.runLegs`** (any scheduler instance with `Laws`: spec, list, heap).  Let `sp` be the `k` commits
of the abstract reference on `medEnv`, and feed `JF.Med.runLegs` from the initial state with the oracle values of that run (yields of
the taggers on the global state at the start of each leg, candidate time of every handler in that leg).  Then the commits `cs` of
`runLegs` are exactly the first `cs.length` commits of `sp` — same handler, same time, leg by leg — and `cs.length = k` unless
`runLegs` ended with an exception (`fin = none`) or with the end-of-run commit. -/
theorem runSP_eq_runLegs (L : Laws cfg I vis R) (hs : Static M) (W : World G O κ) (k : Nat) (g : G) (hist : Nat → G)
    {cs : List (Committed κ)} {fin : Option (MedState I.σ)}
    (e : runLegs M I (MedState.init I M.w) (oracles W 0 g (spRun L hs W k g hist)) = (cs, fin)) :
    cs.map keyMed = ((spRun L hs W k g hist).take cs.length).map keyMP ∧
    (cs.length = k ∨ fin = none ∨ ∃ c, cs.getLast? = some c ∧ c.stop = true) := by
  obtain ⟨st', hrun⟩ := runLegs_prefix_run _ _ _ _ e
  refine ⟨runSP_eq_run L hs W k g hist hrun rfl, ?_⟩
  have := runLegs_length _ _ _ _ e
  rw [oracles_length, spRun, runSP_length] at this
  exact this

/-- if the concrete loop neither raises nor reaches the end of the run within `k` legs, the two sequences coincide entirely -/
theorem runSP_eq_runLegs_full (L : Laws cfg I vis R) (hs : Static M) (W : World G O κ) (k : Nat) (g : G) (hist : Nat → G)
    {cs : List (Committed κ)} {fin : Option (MedState I.σ)}
    (e : runLegs M I (MedState.init I M.w) (oracles W 0 g (spRun L hs W k g hist)) = (cs, fin)) (hk : cs.length = k) :
    cs.map keyMed = (spRun L hs W k g hist).map keyMP := by
  have h := (runSP_eq_runLegs L hs W k g hist e).1
  have hl : (spRun L hs W k g hist).length = k := runSP_length _ _ _ _ _ _ _
  rw [hk, List.take_of_length_le (Nat.le_of_eq hl)] at h
  exact h

/-! ## 3. the multi-process mediator refines the concrete single-process loop -/

/-- the multi-process mediator on the concrete environment, from the initial state (`_start_processes`) -/
def mpRun (L : Laws cfg I vis R) (hs : Static M) (W : World G O κ) (mcfg : MP.Cfg) (advs : List (List (List Nat))) (g : G)
    (hist : Nat → G) : Except (Nat × MP.Err) (List (MP.Commit G κ O)) :=
  MP.runMP (medEnv L hs W) mcfg advs 0 g (medInit L M) (fun _ => {}) hist

/-- `mp_refines_sp` without a protocol hypothesis -/
theorem mp_refines_spRun (L : Laws cfg I vis R) (hs : Static M) (W : World G O κ) (mcfg : MP.Cfg)
    (advs : List (List (List Nat))) (g : G) (hist : Nat → G) :
    mpRun L hs W mcfg advs g hist = .ok (spRun L hs W advs.length g hist) ∨ MP.AdvFail (mpRun L hs W mcfg advs g hist) :=
  C20.mp_refines_sp (medEnv L hs W) Running (medProtocol L hs W) mcfg advs g (medInit L M) (medInit_running L M) hist

theorem mpRun_ok (L : Laws cfg I vis R) (hs : Static M) (W : World G O κ) (mcfg : MP.Cfg)
    (advs : List (List (List Nat))) (g : G) (hist : Nat → G) {l : List (MP.Commit G κ O)}
    (hmp : mpRun L hs W mcfg advs g hist = .ok l) : l = spRun L hs W advs.length g hist := by
  rcases mp_refines_spRun L hs W mcfg advs g hist with h | ⟨m, h | h⟩
  · rw [hmp] at h; exact Except.ok.inj h
  · rw [hmp] at h; cases h
  · rw [hmp] at h; cases h

/-- a multi-process run that is not stopped by the adversary commits, leg by leg, what any `Run` of the concrete single-process
loop commits on the oracle values of that run -/
theorem mp_eq_run (L : Laws cfg I vis R) (hs : Static M) (W : World G O κ) (mcfg : MP.Cfg)
    (advs : List (List (List Nat))) (g : G) (hist : Nat → G) {l : List (MP.Commit G κ O)}
    (hmp : mpRun L hs W mcfg advs g hist = .ok l)
    {st : MedState I.σ} {os : List (Oracle κ)} {cs : List (Committed κ)} (hrun : Run M I (MedState.init I M.w) os cs st)
    {m : Nat} (hos : os = (oracles W 0 g l).take m) :
    cs.map keyMed = (l.take cs.length).map keyMP := by
  have hl := mpRun_ok L hs W mcfg advs g hist hmp
  subst hl
  exact runSP_eq_run L hs W advs.length g hist hrun hos

/-- **The multi-process mediator refines the concrete single-process loop `JF.Med.runLegs`.**  For every configuration `M` with
`Static M` (every `Wiring` with `WiringSound`: `static_of_wiringSound`), every scheduler instance with `Laws` (spec-level, model of
`ListScheduler`, model of `HeapScheduler` on `heap.c`), every world (global states, yields, handler computations), every core count,
every assignment of `send_out_state` arities and every adversary (one list of `connection.wait` results per leg): either the
multi-process run stopped because the adversary broke the contract of `wait` / stopped answering, or it returns commits `l` such that
`JF.Med.runLegs`, fed with the oracle values of that very run, commits exactly the first `cs.length` of them — same handler, same
event time, leg by leg — where `cs.length` is the number of legs unless the single-process loop itself ends earlier with an exception
or with the end-of-run commit.  (`l` also equals the abstract reference `runSP`, with out-states and global states.) -/
theorem mp_refines_medloop (L : Laws cfg I vis R) (hs : Static M) (W : World G O κ) (mcfg : MP.Cfg)
    (advs : List (List (List Nat))) (g : G) (hist : Nat → G) :
    (∃ l, mpRun L hs W mcfg advs g hist = .ok l ∧ l = spRun L hs W advs.length g hist ∧
      ∀ (cs : List (Committed κ)) (fin : Option (MedState I.σ)),
        runLegs M I (MedState.init I M.w) (oracles W 0 g l) = (cs, fin) →
        cs.map keyMed = (l.take cs.length).map keyMP ∧
        (cs.length = advs.length ∨ fin = none ∨ ∃ c, cs.getLast? = some c ∧ c.stop = true)) ∨
    MP.AdvFail (mpRun L hs W mcfg advs g hist) := by
  rcases mp_refines_spRun L hs W mcfg advs g hist with h | h
  · left
    refine ⟨_, h, rfl, fun cs fin e => runSP_eq_runLegs L hs W advs.length g hist e⟩
  · right; exact h

/-- for a configuration given as a `Wiring` with `WiringSound` (all shipped `.ini` files: `cfg_sound_<name>`) -/
theorem mp_refines_medloop_wiring (c : Wiring) (S : TaggerIdx) (needs : HandlerId → Bool) (sound : WiringSound c = true)
    (hS : c.start? = some S) (L : Laws cfg I vis R) (W : World G O κ) (mcfg : MP.Cfg) (advs : List (List (List Nat))) (g : G)
    (hist : Nat → G) :
    (∃ l, mpRun L (static_of_wiringSound c S needs sound hS) W mcfg advs g hist = .ok l ∧
      ∀ (cs : List (Committed κ)) (fin : Option (MedState I.σ)),
        runLegs (MWire.ofWiring c S needs) I (MedState.init I (MWire.ofWiring c S needs).w) (oracles W 0 g l) = (cs, fin) →
        cs.map keyMed = (l.take cs.length).map keyMP ∧
        (cs.length = advs.length ∨ fin = none ∨ ∃ c, cs.getLast? = some c ∧ c.stop = true)) ∨
    MP.AdvFail (mpRun L (static_of_wiringSound c S needs sound hS) W mcfg advs g hist) := by
  rcases mp_refines_medloop L (static_of_wiringSound c S needs sound hS) W mcfg advs g hist with ⟨l, h1, _, h3⟩ | h
  · exact Or.inl ⟨l, h1, h3⟩
  · exact Or.inr h

/-! ## 4. E1's theorems about the committed sequence, for multi-process runs -/

/-- reading one leg off the correspondence -/
theorem key_at {cs : List (Committed κ)} {l : List (MP.Commit G κ O)}
    (h : cs.map keyMed = (l.take cs.length).map keyMP) {k : Nat} (hk : k < cs.length) {a : MP.Commit G κ O}
    (ha : l[k]? = some a) : ∃ c, cs[k]? = some c ∧ c.handler = a.handler ∧ c.time = a.time := by
  refine ⟨cs[k], List.getElem?_eq_getElem hk, ?_⟩
  have h1 : (cs.map keyMed)[k]? = some (keyMed cs[k]) := by
    rw [List.getElem?_map, List.getElem?_eq_getElem hk]; rfl
  have h2 : ((l.take cs.length).map keyMP)[k]? = some (keyMP a) := by
    rw [List.getElem?_map, List.getElem?_take, if_pos hk, ha]; rfl
  rw [h, h2] at h1
  have := Option.some.inj h1
  simp only [keyMed, keyMP, Prod.mk.injEq] at this
  exact ⟨this.1.symm, this.2.symm⟩

/-- **commit times of a multi-process run are non-decreasing** under E1's hypothesis `CandOK` (every candidate time pushed in a leg is
not before the previous commit), on every leg the concrete single-process loop makes on the oracle values of the run -/
theorem commit_times_sorted_mp (L : Laws cfg I vis R) (hs : Static M) (W : World G O κ) (mcfg : MP.Cfg)
    (advs : List (List (List Nat))) (g : G) (hist : Nat → G) {l : List (MP.Commit G κ O)}
    (hmp : mpRun L hs W mcfg advs g hist = .ok l)
    {st : MedState I.σ} {os : List (Oracle κ)} {cs : List (Committed κ)} (hrun : Run M I (MedState.init I M.w) os cs st)
    {m : Nat} (hos : os = (oracles W 0 g l).take m)
    (hcand : Legs (CandOK cfg) (fun _ => none) cfg.bot cs) {k : Nat} (hk : k + 1 < cs.length) {a b : MP.Commit G κ O}
    (h1 : l[k]? = some a) (h2 : l[k + 1]? = some b) : cfg.lt b.time a.time = false := by
  have hkey := mp_eq_run L hs W mcfg advs g hist hmp hrun hos
  obtain ⟨c, hc, _, hct⟩ := key_at hkey (by omega : k < cs.length) h1
  obtain ⟨c', hc', _, hct'⟩ := key_at hkey hk h2
  rw [← hct, ← hct']
  exact commit_times_sorted L hs hrun hcand hc hc'

/-- **C08's second sentence for multi-process runs** (`JF.MediatorLoop.no_stale_event_committed` transferred): let leg
`cs.length` of the concrete loop on the oracle values of a multi-process run commit an event of tagger `E` that may change the
motion of a unit, under C08's hypotheses `StepOK8` for the activator state of that leg.  If a handler `h` that was pending for a
bound (interaction / cell-veto) tagger at that commit is committed by the **multi-process** mediator in a later leg
`cs.length + 1 + j`, then `h` was handed out again by `get_event_handlers_to_run` after the motion-changing commit (in leg
`cs.length + 1 + i`, `i ≤ j`): the committed event is the new one; no stale event is committed. -/
theorem no_stale_event_committed_mp {G' U : Type} (L : Laws cfg I vis R) (hs : Static M) (W : World G O κ) (mcfg : MP.Cfg)
    (advs : List (List (List Nat))) (g : G) (hist : Nat → G) {l : List (MP.Commit G κ O)}
    (hmp : mpRun L hs W mcfg advs g hist = .ok l)
    {st st1 st2 : MedState I.σ} {os os' : List (Oracle κ)} {cs cs' : List (Committed κ)}
    (hrun : Run M I (MedState.init I M.w) os cs st) {o : Oracle κ} {c : Committed κ}
    (hleg : leg M I st o = .ok (st1, c)) (hlater : Run M I st1 os' cs' st2)
    {m : Nat} (hos : os ++ o :: os' = (oracles W 0 g l).take m)
    (Mo : C08.Motion G' U) (ms : C08.MS G') (hms : ms.rs.act = midAct M st o) {E : TaggerIdx}
    (hE : owner M.w c.handler = some E) {g' : G'} (ok : C08.StepOK8 M.w Mo ms E g') (hm : Mo.moves E)
    {T : TaggerIdx} (hb : Mo.bound T) {h : HandlerId} (hh : h ∈ (getT (midAct M st o) T).running)
    {j : Nat} (hj : j < cs'.length) {a : MP.Commit G κ O} (ha : l[cs.length + 1 + j]? = some a) (hc : a.handler = h) :
    ∃ (i : Nat) (ci : Committed κ), i ≤ j ∧ cs'[i]? = some ci ∧ h ∈ ci.created.map Prod.fst := by
  have hall := run_append hrun hleg hlater
  have hkey := mp_eq_run L hs W mcfg advs g hist hmp hall hos
  obtain ⟨cj, hcj, hch, _⟩ := key_at hkey (k := cs.length + 1 + j) (by simp; omega) ha
  have hcj' : cs'[j]? = some cj := by
    rw [List.getElem?_append_right (by omega)] at hcj
    have : cs.length + 1 + j - cs.length = j + 1 := by omega
    rw [this, List.getElem?_cons_succ] at hcj
    exact hcj
  exact no_stale_event_committed L hs hrun hleg hlater Mo ms hms hE ok hm hb hh hcj' (by rw [hch, hc])

/-- **a handler trashed in leg `k` is not committed by the multi-process mediator in a later leg `j` unless it was handed out
again in between** (`JF.MediatorLoop.trashed_never_committed_run` transferred) -/
theorem trashed_never_committed_mp (L : Laws cfg I vis R) (hs : Static M) (W : World G O κ) (mcfg : MP.Cfg)
    (advs : List (List (List Nat))) (g : G) (hist : Nat → G) {l : List (MP.Commit G κ O)}
    (hmp : mpRun L hs W mcfg advs g hist = .ok l)
    {st : MedState I.σ} {os : List (Oracle κ)} {cs : List (Committed κ)} (hrun : Run M I (MedState.init I M.w) os cs st)
    {m : Nat} (hos : os = (oracles W 0 g l).take m)
    {k j : Nat} {ck : Committed κ} {h : HandlerId} (hk : cs[k]? = some ck) (hh : h ∈ ck.trashed) (hkj : k < j)
    (hjl : j < cs.length) {a : MP.Commit G κ O} (ha : l[j]? = some a) (hc : a.handler = h) :
    ∃ (i : Nat) (ci : Committed κ), k < i ∧ i ≤ j ∧ cs[i]? = some ci ∧ h ∈ ci.created.map Prod.fst := by
  have hkey := mp_eq_run L hs W mcfg advs g hist hmp hrun hos
  obtain ⟨cj, hcj, hch, _⟩ := key_at hkey hjl ha
  exact trashed_never_committed_run L hs hrun hk hh hkj hcj (by rw [hch, hc])

/-- **the handler the multi-process mediator commits in leg `cs.length` is a running handler with a minimal pending event**
(`JF.MediatorLoop.committed_is_running` transferred): it is the handler `c.handler` of the concrete leg, which runs for its own
tagger in the activator state of that moment, whose event is pending with the committed time, minimal among the events the
scheduler keeps (`LegOK`) -/
theorem committed_is_running_mp (L : Laws cfg I vis R) (hs : Static M) (W : World G O κ) (mcfg : MP.Cfg)
    (advs : List (List (List Nat))) (g : G) (hist : Nat → G) {l : List (MP.Commit G κ O)}
    (hmp : mpRun L hs W mcfg advs g hist = .ok l)
    {st st1 : MedState I.σ} {os : List (Oracle κ)} {cs : List (Committed κ)} (hrun : Run M I (MedState.init I M.w) os cs st)
    {o : Oracle κ} {c : Committed κ} (hleg : leg M I st o = .ok (st1, c))
    {m : Nat} (hos : os ++ [o] = (oracles W 0 g l).take m) {a : MP.Commit G κ O} (ha : l[cs.length]? = some a) :
    a.handler = c.handler ∧ a.time = c.time ∧
    LegOK cfg vis (pendOf (fun _ => none) cs) (lastOf cfg.bot cs) c ∧
    ∃ E, owner M.w a.handler = some E ∧ a.handler ∈ (getT (midAct M st o) E).running := by
  have hall := run_append hrun hleg (.nil st1)
  have hkey := mp_eq_run L hs W mcfg advs g hist hmp hall hos
  obtain ⟨cj, hcj, hch, hct⟩ := key_at hkey (k := cs.length) (by simp) ha
  have : cj = c := by
    rw [List.getElem?_append_right (Nat.le_refl _), Nat.sub_self, List.getElem?_cons_zero] at hcj
    exact (Option.some.inj hcj).symm
  subst this
  obtain ⟨ok, E, hE, hr, _⟩ := committed_is_running L hs hrun hleg
  exact ⟨hch.symm, hct.symm, ok, E, by rw [← hch]; exact hE, by rw [← hch]; exact hr⟩

end main

/-! ## 5. non-vacuity: the small configuration of `JF.MediatorLoop.Example` under the multi-process machine -/

namespace Example
open JF.MediatorLoop.Example

/-- a world for the run of `JF.MediatorLoop.Example`: global states are naturals, every tagger yields `ys` on every state, the
candidate times are those of the oracle list `os` of that example (leg by leg), out-states and commits are arithmetic that makes
every global state depend on the whole history (so equal global states mean equal histories) -/
def exW : World Nat Nat Nat where
  yields _ := ys
  cand h n _ := ((os[n]?).map (·.cand h)).getD 0
  out h n g := 100 * h + 10 * n + g
  commit g o := g + o + 1

theorem L : Laws natCfg (specI natCfg) natCfg.finite (SRel natCfg) := specLaws natOrd

def cfg3 : MP.Cfg := ⟨3, fun _ => false⟩
def cfg2 : MP.Cfg := ⟨2, fun _ => false⟩

/-- 3 cores. Leg 1 hands out the handlers 1, 2, 3 (in this order); the candidate times arrive out of order: first 3 and 1 — after
the second, one time is outstanding and `0 < 1 < cores − 1`, so the out-state of handler 3 (head of `pipes_time_received`) is
started ahead of time —, then the pre-computed out-state of 3 (which starts the pre-computation of 1) together with the time of 2.
Handler 1 is committed from a pre-computation in flight, the pre-computed out-state of 3 stays stored until leg 5. -/
def adv3 : List (List (List Nat)) := [[[4]], [[3, 1], [3, 2]], [[1]], [[1]], [[2]], [[2]]]
/-- 2 cores (no pre-computation): in leg 1 the times arrive in the order 3, 2, 1 -/
def adv2 : List (List (List Nat)) := [[[4]], [[3], [2, 1]], [[1]], [[1]], [[2]], [[2]]]

/-- what the receive loop of leg 1 does under `adv3` (handlers 1, 2, 3 are in their initial local state in the real leg 1 as well;
only handler 4 differs from the initial state): arrival order 3, 1, 2; pushes in the activator's order 1, 2, 3; two pre-computations;
the committed out-state is one that was in flight -/
example : (match MP.leg cfg3 1 (fun _ => {}) [1, 2, 3] [[3, 1], [3, 2]] 1 [1] with
    | .ok o => decide (o.loop.recvd = [(3, 1), (1, 1), (2, 1)] ∧ o.pushes = [(1, 1), (2, 1), (3, 1)] ∧ o.loop.pre = [3, 1] ∧
        o.path = .inFlight ∧ (o.st 3).stored = some 1)
    | .error _ => false) = true := by decide

def view (r : Except (Nat × MP.Err) (List (MP.Commit Nat Nat Nat))) : Option (List (Nat × Nat × Nat × Nat)) :=
  r.toOption.map fun l => l.map fun c => (c.handler, c.time, c.out, c.post)

/-- **the multi-process machine over the concrete loop, evaluated**: 3 cores with out-of-order arrivals and pre-computations, 2 cores
with out-of-order arrivals — both commit (handler, time, out-state, global state) of the abstract reference; the out-state of
handler 2 committed in leg 3 and that of handler 3 committed in leg 5 were computed from the in-state of leg 1 (`out = 100·h + 10·1 + g₁`) -/
example :
    view (mpRun L static exW cfg3 adv3 0 (fun _ => 0)) =
      some [(4, 0, 400, 401), (1, 7, 511, 913), (1, 8, 1033, 1947), (2, 10, 611, 2559), (2, 20, 2799, 5359), (3, 30, 711, 6071)] ∧
    view (mpRun L static exW cfg2 adv2 0 (fun _ => 0)) = view (mpRun L static exW cfg3 adv3 0 (fun _ => 0)) ∧
    view (.ok (spRun L static exW 6 0 (fun _ => 0))) = view (mpRun L static exW cfg3 adv3 0 (fun _ => 0)) := by
  decide +kernel

/-- … and exactly the sequence of handlers and times of the concrete single-process loop `JF.Med.runLegs` of E1's example
(`specRun`: handlers 4, 1, 1, 2, 2, 3 at times 0, 7, 8, 10, 20, 30), also for the list and the heap loop -/
example :
    (mpRun L static exW cfg3 adv3 0 (fun _ => 0)).toOption.map (·.map keyMP) = some (specRun.1.map keyMed) ∧
    (mpRun L static exW cfg2 adv2 0 (fun _ => 0)).toOption.map (·.map keyMP) = some (specRun.1.map keyMed) ∧
    (mpRun (listLaws natOrd) static exW cfg3 adv3 0 (fun _ => 0)).toOption.map (·.map keyMP) = some (listRun.1.map keyMed) ∧
    (mpRun (heapLaws natOrd (W := 4294967296) (by decide)) static exW cfg3 adv3 0 (fun _ => 0)).toOption.map (·.map keyMP) =
      some (heapRun.1.map keyMed) := by
  decide +kernel

/-- an illegitimate adversary (under 2 cores handler 3 has nothing in flight after its time was read) is reported as such -/
example : (match mpRun L static exW cfg2 adv3 0 (fun _ => 0) with
    | .error (n, e) => decide (n = 1 ∧ e = .adversary) | .ok _ => false) = true := by
  decide +kernel

/-! ### the hypotheses of the theorems of §3/§4 hold on this run -/

/-- the commits of the multi-process run under `adv3` -/
def sp : List (MP.Commit Nat Nat Nat) := spRun L static exW adv3.length 0 (fun _ => 0)

theorem mp_ok : mpRun L static exW cfg3 adv3 0 (fun _ => 0) = .ok sp := by
  rcases mp_refines_spRun L static exW cfg3 adv3 0 (fun _ => 0) with h | ⟨m, h | h⟩
  · exact h
  · have : (mpRun L static exW cfg3 adv3 0 (fun _ => 0)).toOption.isSome = true := by decide +kernel
    rw [h] at this; cases this
  · have : (mpRun L static exW cfg3 adv3 0 (fun _ => 0)).toOption.isSome = true := by decide +kernel
    rw [h] at this; cases this

/-- the oracle values of the multi-process run -/
def xs : List (Oracle Nat) := oracles exW 0 0 sp

theorem xs_length : xs.length = 6 := by
  unfold xs sp spRun; rw [oracles_length, runSP_length]; rfl

/-- the concrete loop on the oracle values of the multi-process run -/
def medRun := runLegs M (specI natCfg) (MedState.init (specI natCfg) M.w) xs

/-- `mp_refines_medloop` / `runSP_eq_runLegs`: here `runLegs` makes all six legs and ends with the end-of-run commit -/
example : medRun.1.map keyMed = sp.map keyMP ∧ medRun.1.length = 6 ∧ medRun.2.isSome = true ∧
    medRun.1.map (·.stop) = [false, false, false, false, false, true] := by decide +kernel

theorem medRun_run : ∃ st', Run M (specI natCfg) (MedState.init (specI natCfg) M.w) (xs.take medRun.1.length) medRun.1 st' :=
  runLegs_prefix_run _ _ _ _ (rfl : runLegs M (specI natCfg) _ xs = (medRun.1, medRun.2))

theorem candOK_of_check : ∀ (cs : List (Committed Nat)) (p : Pend Nat) (l : Nat),
    (cs.foldr (fun c (acc : Nat → Bool) l => c.pushed.all (fun q => !natCfg.lt q.2 l) && acc c.time) (fun _ => true)) l = true →
    Legs (CandOK natCfg) p l cs := by
  intro cs
  induction cs with
  | nil => intro _ _ _; trivial
  | cons c cs ih =>
    intro p l hc
    simp only [List.foldr_cons, Bool.and_eq_true, List.all_eq_true, Bool.not_eq_true'] at hc
    exact ⟨fun q hq => hc.1 q hq, ih _ _ hc.2⟩

theorem sp1 : (sp[1]?).isSome = true := by decide +kernel
theorem sp2 : (sp[2]?).isSome = true := by decide +kernel

/-- `commit_times_sorted_mp` applies to legs 1 and 2 of the multi-process run (times 7 and 8) -/
example : natCfg.lt ((sp[2]?).get sp2).time ((sp[1]?).get sp1).time = false := by
  obtain ⟨st', hrun⟩ := medRun_run
  exact commit_times_sorted_mp L static exW cfg3 adv3 0 (fun _ => 0) mp_ok hrun rfl
    (candOK_of_check _ _ _ (by decide +kernel)) (k := 1) (by decide +kernel) (Option.some_get sp1).symm (Option.some_get sp2).symm

/-- `trashed_never_committed_mp` applies: handler 1 is trashed in leg 1 and committed by the multi-process mediator in leg 2 — it was
handed out again in leg 2 -/
theorem mr1 : (medRun.1[1]?).isSome = true := by decide +kernel

example : ∃ (i : Nat) (ci : Committed Nat), 1 < i ∧ i ≤ 2 ∧ medRun.1[i]? = some ci ∧ (1 : HandlerId) ∈ ci.created.map Prod.fst := by
  obtain ⟨st', hrun⟩ := medRun_run
  exact trashed_never_committed_mp L static exW cfg3 adv3 0 (fun _ => 0) mp_ok hrun rfl (k := 1) (j := 2) (h := 1)
    (Option.some_get mr1).symm (by decide +kernel) (by decide) (by decide +kernel) (Option.some_get sp2).symm (by decide +kernel)

/-! `no_stale_event_committed_mp` applies (as `JF.MediatorLoop.no_stale_event_committed` in E1's example): leg 1 commits a
motion-changing event of the factor tagger 0 (handler 1, pending for the bound tagger 0, is trashed); the multi-process mediator
commits handler 1 in leg 2 — after it was handed out again in that leg.  The run is cut into leg 0 / leg 1 / legs 2–5. -/

theorem split_at {α : Type} (l : List α) (i : Nat) (h : i < l.length) : l.take i ++ l[i] :: l.drop (i + 1) = l := by
  rw [← List.drop_eq_getElem_cons h, List.take_append_drop]

def x1 : Oracle Nat := xs[1]'(by rw [xs_length]; decide)
def rA := runLegs M (specI natCfg) (MedState.init (specI natCfg) M.w) (xs.take 1)
theorem rA_some : rA.2.isSome = true := by decide +kernel
def stA := rA.2.get rA_some
def legB := (leg M (specI natCfg) stA x1).toOption
theorem legB_some : legB.isSome = true := by decide +kernel
def stB := (legB.get legB_some).1
def cB := (legB.get legB_some).2
def rC := runLegs M (specI natCfg) stB (xs.drop 2)
theorem rC_some : rC.2.isSome = true := by decide +kernel

example : ∃ (i : Nat) (ci : Committed Nat), i ≤ 0 ∧ rC.1[i]? = some ci ∧ (1 : HandlerId) ∈ ci.created.map Prod.fst := by
  have runA := runLegs_run_take (xs.take 1) _ stA rA.1 (Prod.ext rfl (Option.some_get rA_some).symm)
  have hleg : leg M (specI natCfg) stA x1 = .ok (stB, cB) := ok_of_toOption (Option.some_get legB_some).symm
  obtain ⟨stC, runC⟩ := runLegs_prefix_run (M := M) (xs.drop 2) stB rC.1 rC.2 rfl
  have hA1 : rA.1.length = 1 := by decide +kernel
  have hC4 : rC.1.length = 4 := by decide +kernel
  -- the three pieces are the oracle values of the multi-process run
  have hos : (xs.take 1).take rA.1.length ++ x1 :: (xs.drop 2).take rC.1.length = (oracles exW 0 0 sp).take 6 := by
    have e1 : (xs.take 1).take rA.1.length = xs.take 1 := by rw [hA1, List.take_take]; rfl
    have e2 : (xs.drop 2).take rC.1.length = xs.drop 2 := by
      rw [hC4]; exact List.take_of_length_le (by rw [List.length_drop, xs_length])
    rw [e1, e2]
    show _ = xs.take 6
    rw [List.take_of_length_le (Nat.le_of_eq xs_length)]
    exact split_at xs 1 (by rw [xs_length]; decide)
  refine no_stale_event_committed_mp L static exW cfg3 adv3 0 (fun _ => 0) mp_ok runA hleg runC hos C08.Example.M
    (⟨⟨midAct M stA x1, fun _ => none, 5⟩, fun _ => 5⟩ : C08.MS Nat) rfl (E := 0) (by decide +kernel) (g' := 5)
    ⟨fun h => absurd trivial h, fun _ T hb => Or.inl (by rw [show T = 0 from hb]; decide +kernel)⟩ trivial (T := 0) rfl (h := 1)
    (by decide +kernel) (j := 0) (by rw [hC4]; decide) (a := (sp[2]?).get sp2) ?_ (by decide +kernel)
  rw [hA1]
  exact (Option.some_get sp2).symm

/-- `committed_is_running_mp` applies to leg 1: the handler the multi-process mediator commits there (handler 1 at time 7) runs for
its tagger, and its event is a minimal pending one -/
example : ((sp[1]?).get sp1).handler = cB.handler ∧ ((sp[1]?).get sp1).time = cB.time ∧
    ∃ E, owner M.w ((sp[1]?).get sp1).handler = some E ∧ ((sp[1]?).get sp1).handler ∈ (getT (midAct M stA x1) E).running := by
  have runA := runLegs_run_take (xs.take 1) _ stA rA.1 (Prod.ext rfl (Option.some_get rA_some).symm)
  have hleg : leg M (specI natCfg) stA x1 = .ok (stB, cB) := ok_of_toOption (Option.some_get legB_some).symm
  have hA1 : rA.1.length = 1 := by decide +kernel
  have hos : (xs.take 1).take rA.1.length ++ [x1] = (oracles exW 0 0 sp).take 2 := by
    rw [hA1, List.take_take]
    show xs.take 1 ++ [x1] = xs.take 2
    rw [List.take_succ_eq_append_getElem (by rw [xs_length]; decide)]
    rfl
  obtain ⟨h1, h2, _, h4⟩ := committed_is_running_mp L static exW cfg3 adv3 0 (fun _ => 0) mp_ok runA hleg hos
    (a := (sp[1]?).get sp1) (by rw [hA1]; exact (Option.some_get sp1).symm)
  exact ⟨h1, h2, h4⟩

end Example

end JF.C20Loop
