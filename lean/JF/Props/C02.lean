import JF.Model.Potential.Displacement
import JF.Lemmas.DisplacementReal
/-!
# C02 — Candidate event distance inverts the cumulative uphill energy exactly

Theorems about the real-number reading (`JF/Lemmas/DisplacementReal.lean`) of the displacement routines
modelled in `JF/Model/Potential/Displacement.lean`.  "Accumulated energy increase" is
`JF.Uphill.uphill f 0 d`, the positive variation of the path energy `f x = U(sep - x·e)` on `[0, d]`.
-/
set_option linter.unusedVariables false
namespace JF.C02
open Set JF.Uphill JF.DispR

/-! ## Inverse power potential, repulsive branch -/

theorem dispRepulsive_eq_some {K p s q dE d : ℝ} (h : dispRepulsive K p s q dE = some d) :
    0 < s ∧ dE < pot K p (0 * 0 + q) - pot K p (s * s + q) ∧
      d = s - Real.sqrt ((K / (pot K p (s * s + q) + dE)) ^ (2 / p) - q) := by
  simp only [dispRepulsive] at h
  split_ifs at h with h1 h2
  · exact ⟨not_le.1 h1, h2, (Option.some.inj h).symm⟩

/-- facts about the radius the code solves for -/
theorem repulsive_radius {K p s q dE : ℝ} (hK : 0 < K) (hp : 0 < p) (hq : 0 < q) (hE : 0 ≤ dE)
    (hs : 0 < s) (h2 : dE < pot K p (0 * 0 + q) - pot K p (s * s + q)) :
    let R2 := (K / (pot K p (s * s + q) + dE)) ^ (2 / p)
    q < R2 ∧ R2 ≤ s * s + q ∧ pot K p R2 = pot K p (s * s + q) + dE := by
  intro R2
  have hn : 0 < s * s + q := by positivity
  have hcur : 0 < pot K p (s * s + q) := pot_pos hK hn
  have hy : 0 < pot K p (s * s + q) + dE := by linarith
  have hKy : 0 < K / (pot K p (s * s + q) + dE) := div_pos hK hy
  refine ⟨?_, ?_, pot_inv hp hKy⟩
  · -- cur + dE < K / q^(p/2)  ⇒  q^(p/2) < K / (cur + dE)
    have hq2 : 0 < q ^ (p / 2) := Real.rpow_pos_of_pos hq _
    have h3 : pot K p (s * s + q) + dE < K / q ^ (p / 2) := by
      have : pot K p (0 * 0 + q) = K / q ^ (p / 2) := by simp [pot]
      rw [this] at h2; linarith
    have h4 : q ^ (p / 2) < K / (pot K p (s * s + q) + dE) := by
      rw [lt_div_iff₀ hy]; rw [lt_div_iff₀ hq2] at h3; linarith
    have h5 := Real.rpow_lt_rpow hq2.le h4 (show 0 < 2 / p by positivity)
    rwa [rpow_two_div hp hq.le] at h5
  · have h4 : K / (pot K p (s * s + q) + dE) ≤ K / pot K p (s * s + q) :=
      div_le_div_of_nonneg_left hK.le hcur (by linarith)
    rw [div_pot hK.ne' hn] at h4
    have h5 := Real.rpow_le_rpow hKy.le h4 (show 0 ≤ 2 / p by positivity)
    rwa [rpow_two_div hp hn.le] at h5

/-- **Inverse power, repulsive: the returned distance inverts the accumulated uphill energy.**
If the routine returns the finite distance `d`, then `0 ≤ d < s`, the potential at the new
separation exceeds the current one by exactly the budget, and the energy accumulated uphill along
`[0, d]` is exactly the budget. -/
theorem repulsive_some {K p s q dE d : ℝ} (hK : 0 < K) (hp : 0 < p) (hq : 0 < q) (hE : 0 ≤ dE)
    (h : dispRepulsive K p s q dE = some d) :
    0 ≤ d ∧ d < s ∧ path K p s q d - path K p s q 0 = dE ∧ uphill (path K p s q) 0 d = dE := by
  obtain ⟨hs, h2, rfl⟩ := dispRepulsive_eq_some h
  obtain ⟨hR1, hR2, hR3⟩ := repulsive_radius hK hp hq hE hs h2
  set R2 := (K / (pot K p (s * s + q) + dE)) ^ (2 / p) with hR
  have hr0 : 0 < R2 - q := by linarith
  have hsq : Real.sqrt (R2 - q) ≤ s := by
    rw [show s = Real.sqrt (s * s) from (Real.sqrt_mul_self hs.le).symm]
    exact Real.sqrt_le_sqrt (by linarith)
  have hpos : 0 < Real.sqrt (R2 - q) := Real.sqrt_pos.2 hr0
  have hd0 : 0 ≤ s - Real.sqrt (R2 - q) := by linarith
  have hval : path K p s q (s - Real.sqrt (R2 - q)) - path K p s q 0 = dE := by
    have e1 : nsq s q (s - Real.sqrt (R2 - q)) = R2 := by
      unfold nsq
      have := Real.mul_self_sqrt hr0.le
      ring_nf; ring_nf at this; linarith
    unfold path; rw [e1, nsq_zero, hR3]; ring
  refine ⟨hd0, by linarith, hval, ?_⟩
  rw [uphill_mono (path_monoOn_of_pos hK hp hq (by linarith)) hd0, hval]

/-- total climb of the path in the repulsive case: up to the closest approach -/
theorem repulsive_uphill_le {K p s q d : ℝ} (hK : 0 < K) (hp : 0 < p) (hq : 0 < q) (hs : 0 < s)
    (hd : 0 ≤ d) : uphill (path K p s q) 0 d ≤ pot K p (0 * 0 + q) - pot K p (s * s + q) := by
  have e0 : path K p s q 0 = pot K p (s * s + q) := by unfold path; rw [nsq_zero]
  have es : path K p s q s = pot K p (0 * 0 + q) := by unfold path; rw [nsq_self]
  rcases le_total d s with hds | hds
  · rw [uphill_mono (path_monoOn_of_pos hK hp hq hds) hd, e0, ← es]
    have := path_monoOn_of_pos (a := 0) hK hp hq (le_refl s) ⟨hd, hds⟩ ⟨hs.le, le_refl s⟩ hds
    linarith
  · rw [uphill_mono_anti hs.le hds (path_monoOn_of_pos hK hp hq le_rfl)
      (path_antiOn_of_pos hK hp hq le_rfl), e0, es]

/-- **Inverse power, repulsive: infinite exactly when the path never accumulates more than the budget.**
(The code compares with `<`: a budget equal to the total climb, reached only *at* the closest
approach where the climb ends, is answered `inf`.) -/
theorem repulsive_none_iff {K p s q dE : ℝ} (hK : 0 < K) (hp : 0 < p) (hq : 0 < q) (hE : 0 ≤ dE) :
    dispRepulsive K p s q dE = none ↔ ∀ d, 0 ≤ d → uphill (path K p s q) 0 d ≤ dE := by
  constructor
  · intro h d hd
    simp only [dispRepulsive] at h
    split_ifs at h with h1 h2
    · -- in front of the target: downhill for ever
      rw [uphill_anti (path_antiOn_of_pos hK hp hq h1) hd]; exact hE
    · exact (repulsive_uphill_le hK hp hq (not_le.1 h1) hd).trans (not_lt.1 h2)
  · intro h
    by_contra hne
    obtain ⟨d, hd⟩ := Option.ne_none_iff_exists'.1 hne
    obtain ⟨hs, h2, _⟩ := dispRepulsive_eq_some hd
    have := h s hs.le
    rw [uphill_mono (path_monoOn_of_pos hK hp hq le_rfl) hs.le] at this
    unfold path at this; rw [nsq_zero, nsq_self] at this
    linarith

/-- non-vacuity: `1/r` repulsion, `s = 3, q = 16` (distance 5 → potential 1/5), budget `1/20`
(the total climb is `1/4 - 1/5 = 1/20`… the budget `1/40` is below it): a finite distance is returned -/
example : ∃ d, dispRepulsive 1 1 3 16 (1/40) = some d := by
  unfold dispRepulsive pot
  have h16 : ((0:ℝ) * 0 + 16) ^ ((1:ℝ) / 2) = 4 := by
    rw [show (0:ℝ) * 0 + 16 = 4 ^ (2:ℝ) by norm_num, ← Real.rpow_mul (by norm_num)]; norm_num
  have h25 : ((3:ℝ) * 3 + 16) ^ ((1:ℝ) / 2) = 5 := by
    rw [show (3:ℝ) * 3 + 16 = 5 ^ (2:ℝ) by norm_num, ← Real.rpow_mul (by norm_num)]; norm_num
  simp only [h16, h25]
  norm_num

/-! ## Inverse power potential, attractive branch -/

theorem dispAttractive_eq_some {K p s q dE d : ℝ} (h : dispAttractive K p s q dE = some d) :
    let cd := if 0 < s then 0 + s else 0
    let s' := if 0 < s then 0 else s
    pot K p (s' * s' + q) + dE < 0 ∧
      d = cd + (s' + Real.sqrt ((K / (pot K p (s' * s' + q) + dE)) ^ (2 / p) - q)) := by
  intro cd s'
  simp only [dispAttractive] at h
  by_cases hs : 0 < s
  · simp only [hs, if_true] at h
    split_ifs at h with h1
    simp only [cd, s', hs, if_true]
    exact ⟨not_le.1 h1, (Option.some.inj h).symm⟩
  · simp only [hs, if_false] at h
    split_ifs at h with h1
    simp only [cd, s', hs, if_false]
    exact ⟨not_le.1 h1, (Option.some.inj h).symm⟩

/-- facts about the radius the code solves for (attractive case), from the position `s'` reached
after the downhill stretch -/
theorem attractive_radius {K p s' q dE : ℝ} (hK : K < 0) (hp : 0 < p) (hq : 0 < q) (hE : 0 ≤ dE)
    (h2 : pot K p (s' * s' + q) + dE < 0) :
    let R2 := (K / (pot K p (s' * s' + q) + dE)) ^ (2 / p)
    s' * s' + q ≤ R2 ∧ pot K p R2 = pot K p (s' * s' + q) + dE := by
  intro R2
  have hn : 0 < s' * s' + q := by nlinarith [mul_self_nonneg s']
  have hcur : pot K p (s' * s' + q) < 0 := pot_neg_of_neg hK hn
  have hKy : 0 < K / (pot K p (s' * s' + q) + dE) := div_pos_of_neg_of_neg hK h2
  refine ⟨?_, pot_inv hp hKy⟩
  have h4 : K / pot K p (s' * s' + q) ≤ K / (pot K p (s' * s' + q) + dE) := by
    rw [← neg_div_neg_eq K (pot K p (s' * s' + q)), ← neg_div_neg_eq K (pot K p (s' * s' + q) + dE)]
    exact div_le_div_of_nonneg_left (by linarith) (by linarith) (by linarith)
  rw [div_pot hK.ne hn] at h4
  have h5 := Real.rpow_le_rpow (Real.rpow_pos_of_pos hn _).le h4 (show 0 ≤ 2 / p by positivity)
  rwa [rpow_two_div hp hn.le] at h5

/-- **Inverse power, attractive: the returned distance inverts the accumulated uphill energy.**
`x₀ = max s 0` is the closest approach (the end of the initial downhill stretch, which accumulates
nothing).  If the routine returns `d`, then `x₀ ≤ d`, the potential at `d` exceeds the one at `x₀` by
exactly the budget, and the energy accumulated uphill along `[0, d]` is exactly the budget. -/
theorem attractive_some {K p s q dE d : ℝ} (hK : K < 0) (hp : 0 < p) (hq : 0 < q) (hE : 0 ≤ dE)
    (h : dispAttractive K p s q dE = some d) :
    max s 0 ≤ d ∧ path K p s q d - path K p s q (max s 0) = dE ∧
      uphill (path K p s q) 0 d = dE := by
  obtain ⟨h2, hd⟩ := dispAttractive_eq_some h
  rcases lt_or_ge 0 s with hs | hs
  · -- behind the target: downhill until the closest approach `x = s`, then uphill
    simp only [hs, if_true] at h2 hd
    obtain ⟨hR1, hR3⟩ := attractive_radius (s' := 0) hK hp hq hE h2
    set R2 := (K / (pot K p (0 * 0 + q) + dE)) ^ (2 / p) with hR
    have hr0 : 0 ≤ R2 - q := by linarith
    have hsq := Real.sqrt_nonneg (R2 - q)
    rw [max_eq_left hs.le]
    have hds : s ≤ d := by rw [hd]; linarith
    have hval : path K p s q d - path K p s q s = dE := by
      have e1 : nsq s q d = R2 := by
        unfold nsq; rw [hd]
        have := Real.mul_self_sqrt hr0
        ring_nf; ring_nf at this; linarith
      unfold path; rw [e1, nsq_self, hR3]; ring
    refine ⟨hds, hval, ?_⟩
    rw [uphill_anti_mono hs.le hds (path_antiOn_of_neg hK hp hq le_rfl)
      (path_monoOn_of_neg hK hp hq le_rfl), hval]
  · -- in front of the target: uphill from the start
    have hs' : ¬ 0 < s := not_lt.2 hs
    simp only [hs', if_false] at h2 hd
    obtain ⟨hR1, hR3⟩ := attractive_radius (s' := s) hK hp hq hE h2
    set R2 := (K / (pot K p (s * s + q) + dE)) ^ (2 / p) with hR
    have hr0 : 0 ≤ R2 - q := by nlinarith [mul_self_nonneg s]
    have hsq : -s ≤ Real.sqrt (R2 - q) := by
      rw [show -s = Real.sqrt ((-s) * (-s)) from (Real.sqrt_mul_self (by linarith)).symm]
      exact Real.sqrt_le_sqrt (by nlinarith)
    rw [max_eq_right hs]
    have hd0 : 0 ≤ d := by rw [hd]; linarith
    have hval : path K p s q d - path K p s q 0 = dE := by
      have e1 : nsq s q d = R2 := by
        unfold nsq; rw [hd]
        have := Real.mul_self_sqrt hr0
        ring_nf; ring_nf at this; linarith
      unfold path; rw [e1, nsq_zero, hR3]; ring
    refine ⟨hd0, hval, ?_⟩
    rw [uphill_mono (path_monoOn_of_neg hK hp hq hs) hd0, hval]

/-- **Inverse power, attractive: infinite exactly when the path never accumulates the budget.** -/
theorem attractive_none_iff {K p s q dE : ℝ} (hK : K < 0) (hp : 0 < p) (hq : 0 < q) (hE : 0 < dE) :
    dispAttractive K p s q dE = none ↔ ∀ d, 0 ≤ d → uphill (path K p s q) 0 d < dE := by
  constructor
  · intro h d hd
    simp only [dispAttractive] at h
    have hneg : ∀ x, path K p s q x < 0 := fun x => pot_neg_of_neg hK (nsq_pos hq)
    rcases lt_or_ge 0 s with hs | hs
    · simp only [hs, if_true] at h
      split_ifs at h with h1
      rcases le_total d s with hds | hds
      · rw [uphill_anti (path_antiOn_of_neg hK hp hq hds) hd]; exact hE
      · rw [uphill_anti_mono hs.le hds (path_antiOn_of_neg hK hp hq le_rfl)
          (path_monoOn_of_neg hK hp hq le_rfl)]
        have e : path K p s q s = pot K p (0 * 0 + q) := by unfold path; rw [nsq_self]
        have := hneg d
        rw [e]; linarith
    · have hs' : ¬ 0 < s := not_lt.2 hs
      simp only [hs', if_false] at h
      split_ifs at h with h1
      rw [uphill_mono (path_monoOn_of_neg hK hp hq hs) hd]
      have e : path K p s q 0 = pot K p (s * s + q) := by unfold path; rw [nsq_zero]
      have := hneg d
      rw [e]; linarith
  · intro h
    by_contra hne
    obtain ⟨d, hd⟩ := Option.ne_none_iff_exists'.1 hne
    obtain ⟨h1, _, h3⟩ := attractive_some hK hp hq hE.le hd
    have hd0 : 0 ≤ d := (le_max_right s 0).trans h1
    have := h d hd0
    linarith

/-- non-vacuity: `-1/r` attraction from `s = 3, q = 16` (behind the target), budget `1/8 < 1/4`:
a finite distance is returned -/
example : ∃ d, dispAttractive (-1) 1 3 16 (1/8) = some d := by
  unfold dispAttractive pot
  have h16 : ((0:ℝ) * 0 + 16) ^ ((1:ℝ) / 2) = 4 := by
    rw [show (0:ℝ) * 0 + 16 = 4 ^ (2:ℝ) by norm_num, ← Real.rpow_mul (by norm_num)]; norm_num
  simp only [show (0:ℝ) < 3 by norm_num, if_true, h16]
  norm_num

/-- non-vacuity of the infinite outcome: the same start with the budget `1/2 > 1/4` escapes -/
example : dispAttractive (-1) 1 3 16 (1/2) = none := by
  unfold dispAttractive pot
  have h16 : ((0:ℝ) * 0 + 16) ^ ((1:ℝ) / 2) = 4 := by
    rw [show (0:ℝ) * 0 + 16 = 4 ^ (2:ℝ) by norm_num, ← Real.rpow_mul (by norm_num)]; norm_num
  simp only [show (0:ℝ) < 3 by norm_num, if_true, h16]
  norm_num

/-- **Inverse power potential, both signs** (`standard_velocity_displacement`): a returned finite
distance is non-negative and the uphill energy accumulated along it equals the budget. -/
theorem invPow_some {K p s q dE d : ℝ} (hK : K ≠ 0) (hp : 0 < p) (hq : 0 < q) (hE : 0 ≤ dE)
    (h : dispInvPow K p s q dE = some d) : 0 ≤ d ∧ uphill (path K p s q) 0 d = dE := by
  unfold dispInvPow at h
  split_ifs at h with h1
  · obtain ⟨a, _, _, b⟩ := repulsive_some h1 hp hq hE h; exact ⟨a, b⟩
  · have hK' : K < 0 := lt_of_le_of_ne (not_lt.1 h1) hK
    obtain ⟨a, _, b⟩ := attractive_some hK' hp hq hE h
    exact ⟨(le_max_right s 0).trans a, b⟩

/-- **Inverse power potential, both signs**: the routine answers `inf` exactly when the path never
accumulates more than the budget (repulsive, `≤` as the code compares) / never reaches it (attractive). -/
theorem invPow_none_iff {K p s q dE : ℝ} (hK : K ≠ 0) (hp : 0 < p) (hq : 0 < q) (hE : 0 < dE) :
    dispInvPow K p s q dE = none ↔
      if K > 0 then ∀ d, 0 ≤ d → uphill (path K p s q) 0 d ≤ dE
      else ∀ d, 0 ≤ d → uphill (path K p s q) 0 d < dE := by
  unfold dispInvPow
  split_ifs with h1
  · exact repulsive_none_iff h1 hp hq hE.le
  · exact attractive_none_iff (lt_of_le_of_ne (not_lt.1 h1) hK) hp hq hE


/-! ## Hard sphere: the returned time is the first time of contact -/

theorem sqrt_disc_le {a b c : ℝ} (ha : 0 < a) (hc : 0 ≤ c) (hb : 0 ≤ b) :
    Real.sqrt (b * b - a * c) ≤ b := by
  rw [show b = Real.sqrt (b * b) from (Real.sqrt_mul_self hb).symm]
  apply Real.sqrt_le_sqrt
  rw [Real.sqrt_mul_self hb]; nlinarith

/-- **Hard sphere: the returned time is the least root of the contact equation.**  For spheres that do
not overlap (`c = |s|² - σ² ≥ 0`): the returned `t` is non-negative, the centres are at distance `σ`
at time `t` (`gap = 0`), and at every earlier time they are strictly further apart. -/
theorem hardSphere_some {a b c t : ℝ} (ha : 0 < a) (hc : 0 ≤ c) (h : hardSphere a b c = some t) :
    0 ≤ t ∧ gap a b c t = 0 ∧ ∀ t', t' < t → 0 < gap a b c t' := by
  simp only [hardSphere] at h
  split_ifs at h with h1
  obtain ⟨hD, hb⟩ := h1
  have ht : t = (b - Real.sqrt (b * b - a * c)) / a := (Option.some.inj h).symm
  have hle := sqrt_disc_le ha hc hb
  have hr := Real.sqrt_nonneg (b * b - a * c)
  refine ⟨by rw [ht]; exact div_nonneg (by linarith) ha.le, by rw [ht]; exact gap_root_minus ha hD, ?_⟩
  intro t' ht'
  rw [gap_factor ha hD t']
  have h1 : t' - (b - Real.sqrt (b * b - a * c)) / a < 0 := by rw [← ht]; linarith
  have h2 : t' - (b + Real.sqrt (b * b - a * c)) / a < 0 := by
    have : (b - Real.sqrt (b * b - a * c)) / a ≤ (b + Real.sqrt (b * b - a * c)) / a :=
      div_le_div_of_nonneg_right (by linarith) ha.le
    rw [← ht] at this; linarith
  have := mul_pos_of_neg_of_neg h1 h2
  nlinarith

/-- **Hard sphere: `inf` exactly when there is no contact at any time `t ≥ 0`** (separated spheres,
`c > 0`). -/
theorem hardSphere_none_iff {a b c : ℝ} (ha : 0 < a) (hc : 0 < c) :
    hardSphere a b c = none ↔ ∀ t, 0 ≤ t → 0 < gap a b c t := by
  constructor
  · intro h t ht
    simp only [hardSphere] at h
    split_ifs at h with h1
    rw [not_and_or] at h1
    rcases h1 with h1 | h1
    · exact gap_pos_of_disc_neg ha (not_le.1 h1) t
    · unfold gap; nlinarith [mul_nonneg ha.le (mul_self_nonneg t), mul_nonneg ht (neg_pos.2 (not_le.1 h1)).le]
  · intro h
    by_contra hne
    obtain ⟨t, ht⟩ := Option.ne_none_iff_exists'.1 hne
    obtain ⟨h0, h1, _⟩ := hardSphere_some ha hc.le ht
    have := h t h0
    linarith

/-- the time scales inversely with the speed: velocity `λ v` gives `a ↦ λ² a`, `b ↦ λ b` -/
theorem hardSphere_speed {a b c l : ℝ} (hl : 0 < l) :
    hardSphere (l * l * a) (l * b) c = (hardSphere a b c).map (· / l) := by
  simp only [hardSphere]
  have e : l * b * (l * b) - l * l * a * c = l * l * (b * b - a * c) := by ring
  have hll : 0 < l * l := by positivity
  have c1 : (l * b * (l * b) - l * l * a * c ≥ 0 ∧ l * b ≥ 0) ↔ (b * b - a * c ≥ 0 ∧ b ≥ 0) := by
    rw [e]
    constructor
    · rintro ⟨h1, h2⟩; exact ⟨by nlinarith, by nlinarith⟩
    · rintro ⟨h1, h2⟩; exact ⟨by positivity, by positivity⟩
  by_cases h : b * b - a * c ≥ 0 ∧ b ≥ 0
  · rw [if_pos (c1.2 h), if_pos h, Option.map_some, e,
      Real.sqrt_mul' _ h.1, Real.sqrt_mul_self hl.le]
    congr 1
    by_cases ha : a = 0
    · simp [ha]
    · field_simp
  · rw [if_neg (fun h' => h (c1.1 h')), if_neg h, Option.map_none]

/-- non-vacuity: unit speed along `x`, centres 3 apart, `σ² = 1`: contact after time 2 -/
example : hardSphere 1 3 8 = some 2 := by
  simp only [hardSphere]
  have : Real.sqrt ((3:ℝ) * 3 - 1 * 8) = 1 := by norm_num
  rw [if_pos (by norm_num), this]; norm_num

/-! ## Hard dipole: first of (contact at the minimal, arrival at the maximal separation) -/

/-- **Hard dipole: the returned time is the first event.**  Inside the bond annulus
(`cmin = |s|² - r_min² ≥ 0`, `cmax = |s|² - r_max² ≤ 0`) the returned `t` is non-negative, at time `t`
the separation is `r_min` or `r_max`, and at every time in `[0, t]` the pair is still inside the
annulus (not closer than `r_min`, not further than `r_max`). -/
theorem hardDipole_first {a b cmin cmax : ℝ} (ha : 0 < a) (hmin : 0 ≤ cmin) (hmax : cmax ≤ 0) :
    let t := hardDipole a b cmin cmax
    0 ≤ t ∧ (gap a b cmin t = 0 ∨ gap a b cmax t = 0) ∧
      ∀ t', 0 ≤ t' → t' ≤ t → 0 ≤ gap a b cmin t' ∧ gap a b cmax t' ≤ 0 := by
  intro t
  have hDmax : 0 ≤ b * b - a * cmax := by nlinarith [mul_self_nonneg b]
  by_cases h : b ≥ 0 ∧ b * b - a * cmin ≥ 0
  · -- contact at the minimal separation
    have ht : t = (b - Real.sqrt (b * b - a * cmin)) / a := by simp only [t, hardDipole, if_pos h]
    obtain ⟨hb, hD⟩ := h
    have hs : hardSphere a b cmin = some t := by simp only [hardSphere, if_pos (And.intro hD hb), ht]
    obtain ⟨h0, h1, h2⟩ := hardSphere_some ha hmin hs
    refine ⟨h0, Or.inl h1, fun t' h0' hle => ⟨?_, ?_⟩⟩
    · rcases eq_or_lt_of_le hle with e | e
      · rw [e, h1]
      · exact (h2 t' e).le
    · -- convexity: `gap(·, cmax) ≤ 0` at `0` and at `t`
      have g0 : gap a b cmax 0 ≤ 0 := by unfold gap; linarith
      have gt : gap a b cmax t ≤ 0 := by
        have : gap a b cmax t = gap a b cmin t + (cmax - cmin) := by unfold gap; ring
        rw [this, h1]; linarith
      rcases eq_or_lt_of_le h0 with e | e
      · have : t' = 0 := le_antisymm (by rw [e]; exact hle) h0'
        rw [this]; exact g0
      · have key : t * gap a b cmax t' =
            (t - t') * gap a b cmax 0 + t' * gap a b cmax t - a * t' * (t - t') * t := by
          unfold gap; ring
        have p1 : (t - t') * gap a b cmax 0 ≤ 0 := mul_nonpos_of_nonneg_of_nonpos (sub_nonneg.2 hle) g0
        have p2 : t' * gap a b cmax t ≤ 0 := mul_nonpos_of_nonneg_of_nonpos h0' gt
        have p3 : 0 ≤ a * t' * (t - t') * t :=
          mul_nonneg (mul_nonneg (mul_nonneg ha.le h0') (sub_nonneg.2 hle)) e.le
        have : t * gap a b cmax t' ≤ 0 := by rw [key]; linarith
        by_contra hpos
        have := mul_pos e (not_le.1 hpos)
        linarith
  · -- arrival at the maximal separation
    have ht : t = (b + Real.sqrt (b * b - a * cmax)) / a := by simp only [t, hardDipole, if_neg h]
    have hr := Real.sqrt_nonneg (b * b - a * cmax)
    have hrb : |b| ≤ Real.sqrt (b * b - a * cmax) := by
      rw [← Real.sqrt_mul_self (abs_nonneg b), abs_mul_abs_self]
      exact Real.sqrt_le_sqrt (by nlinarith)
    have hb1 := neg_abs_le b
    have hb2 := le_abs_self b
    have h0 : 0 ≤ t := by rw [ht]; exact div_nonneg (by linarith) ha.le
    have hroot : gap a b cmax t = 0 := by rw [ht]; exact gap_root_plus ha hDmax
    refine ⟨h0, Or.inr hroot, fun t' h0' hle => ⟨?_, ?_⟩⟩
    · rw [not_and_or] at h
      rcases h with h | h
      · unfold gap; nlinarith [mul_nonneg ha.le (mul_self_nonneg t'), mul_nonneg h0' (neg_pos.2 (not_le.1 h)).le]
      · exact (gap_pos_of_disc_neg ha (not_le.1 h) t').le
    · rw [gap_factor ha hDmax t']
      have h1 : t' - (b + Real.sqrt (b * b - a * cmax)) / a ≤ 0 := by rw [← ht]; linarith
      have h2 : 0 ≤ t' - (b - Real.sqrt (b * b - a * cmax)) / a := by
        have : (b - Real.sqrt (b * b - a * cmax)) / a ≤ 0 := div_nonpos_of_nonpos_of_nonneg (by linarith) ha.le
        linarith
      have := mul_nonneg ha.le h2
      nlinarith

/-- non-vacuity: bond limits 1 and 2, separation 1.5 along `x`, moving apart at unit speed: the maximal
length is reached after time 1/2 -/
example : hardDipole 1 (-3/2) (9/4 - 1) (9/4 - 4) = 1/2 := by
  simp only [hardDipole]
  rw [if_neg (by norm_num)]
  have : Real.sqrt ((-3/2 : ℝ) * (-3/2) - 1 * (9/4 - 4)) = 2 := by
    rw [show (-3/2 : ℝ) * (-3/2) - 1 * (9/4 - 4) = 2 * 2 by norm_num]; exact Real.sqrt_mul_self (by norm_num)
  rw [this]; norm_num


end JF.C02
