import JF.Model.Potential.Displacement
import JF.Lemmas.DisplacementReal
import JF.Lemmas.DisplacementCoulomb
import JF.Lemmas.DisplacementHat
import JF.Lemmas.DisplacementLJ
/-!
# C02 — Candidate event distance inverts the cumulative uphill energy exactly

Theorems about the real-number reading (`JF/Lemmas/Displacement{Real,Coulomb,Hat,LJ}.lean`) of the
displacement routines modelled branch for branch in `JF/Model/Potential/Displacement.lean` (binary64, run
against the real classes by `harness/props/c02.py`).  "Accumulated energy increase" is
`JF.Uphill.uphill f 0 d`, the positive variation of the path energy `f x = U(sep - x·e)` on `[0, d]`
(`JF/Lemmas/DisplacementUphill.lean`: half of total variation plus net change; equals the sum of the
increments over the increasing stretches of a piecewise monotone function).

Reduction common to all statements: the separation vector enters through `s` (component along the
direction of motion) and `q` (sum of squares of the other components, `q > 0`: not head-on); the speed
only divides the returned distance (`speed_scaling`).

* inverse power, both signs: `invPow_some`, `invPow_none_iff` (+ `repulsive_*`, `attractive_*`, `*_total`)
* hard sphere / hard dipole: `hardSphere_some` (least root), `hardSphere_none_iff`, `hardSphere_speed`,
  `hardDipole_first`
* C routine of the periodic `1/r` bound, laps + remainder on the minimum-image path: `cb_inverts`
  (`cb_repulsive_inverts`, `cb_attractive_inverts`, `cb_laps_split`, `minImage_exists`); `cb_code_inverts` for the routine
  as repaired (`fmod` first, trips = `round((dE - remainder) / c)`, `sqrt(non_negative(…))`; equal to the former formulation
  in exact arithmetic: `cbDisplacementCode_eq`)
* Mexican-hat case tree, generic: `hat_some`, `hat_none_iff`; instances `evenPower_inverts`,
  `evenPower_finite`, `lj_inverts`
* cell bound: `cellBounding_spec`

All statements are about real numbers.  What binary64 does near turning points of the path (square root
of a rounding-negative number, …) is *not* covered here; the run found such inputs on the unchanged tree, see
`known_findings/C02.json` (the two findings about the C routine — `floor`/`fmod` disagreement, `nan` — were repaired in `/repo`).
-/
set_option linter.unusedVariables false
namespace JF.C02
open Set JF.Uphill JF.DispR

/-! ## Inverse power potential, repulsive branch -/

theorem dispRepulsive_eq_some {K p s q dE d : ℝ} (h : dispRepulsive K p s q dE = some d) :
    0 < s ∧ dE < pot K p (0 * 0 + q) - pot K p (s * s + q) ∧
      d = s - Real.sqrt ((K / (pot K p (s * s + q) + dE)) ^ (2 / p) - q) := by
  simp only [dispRepulsive] at h
  split_ifs at h with h1 h2
  · exact ⟨not_le.1 h1, h2, (Option.some.inj h).symm⟩

/-- facts about the radius the code solves for -/
theorem repulsive_radius {K p s q dE : ℝ} (hK : 0 < K) (hp : 0 < p) (hq : 0 < q) (hE : 0 ≤ dE)
    (hs : 0 < s) (h2 : dE < pot K p (0 * 0 + q) - pot K p (s * s + q)) :
    let R2 := (K / (pot K p (s * s + q) + dE)) ^ (2 / p)
    q < R2 ∧ R2 ≤ s * s + q ∧ pot K p R2 = pot K p (s * s + q) + dE := by
  intro R2
  have hn : 0 < s * s + q := by positivity
  have hcur : 0 < pot K p (s * s + q) := pot_pos hK hn
  have hy : 0 < pot K p (s * s + q) + dE := by linarith
  have hKy : 0 < K / (pot K p (s * s + q) + dE) := div_pos hK hy
  refine ⟨?_, ?_, pot_inv hp hKy⟩
  · -- cur + dE < K / q^(p/2)  ⇒  q^(p/2) < K / (cur + dE)
    have hq2 : 0 < q ^ (p / 2) := Real.rpow_pos_of_pos hq _
    have h3 : pot K p (s * s + q) + dE < K / q ^ (p / 2) := by
      have : pot K p (0 * 0 + q) = K / q ^ (p / 2) := by simp [pot]
      rw [this] at h2; linarith
    have h4 : q ^ (p / 2) < K / (pot K p (s * s + q) + dE) := by
      rw [lt_div_iff₀ hy]; rw [lt_div_iff₀ hq2] at h3; linarith
    have h5 := Real.rpow_lt_rpow hq2.le h4 (show 0 < 2 / p by positivity)
    rwa [rpow_two_div hp hq.le] at h5
  · have h4 : K / (pot K p (s * s + q) + dE) ≤ K / pot K p (s * s + q) :=
      div_le_div_of_nonneg_left hK.le hcur (by linarith)
    rw [div_pot hK.ne' hn] at h4
    have h5 := Real.rpow_le_rpow hKy.le h4 (show 0 ≤ 2 / p by positivity)
    rwa [rpow_two_div hp hn.le] at h5

/-- **Inverse power, repulsive: the returned distance inverts the accumulated uphill energy.**
If the routine returns the finite distance `d`, then `0 ≤ d < s`, the potential at the new
separation exceeds the current one by exactly the budget, and the energy accumulated uphill along
`[0, d]` is exactly the budget. -/
theorem repulsive_some {K p s q dE d : ℝ} (hK : 0 < K) (hp : 0 < p) (hq : 0 < q) (hE : 0 ≤ dE)
    (h : dispRepulsive K p s q dE = some d) :
    0 ≤ d ∧ d < s ∧ path K p s q d - path K p s q 0 = dE ∧ uphill (path K p s q) 0 d = dE := by
  obtain ⟨hs, h2, rfl⟩ := dispRepulsive_eq_some h
  obtain ⟨hR1, hR2, hR3⟩ := repulsive_radius hK hp hq hE hs h2
  set R2 := (K / (pot K p (s * s + q) + dE)) ^ (2 / p) with hR
  have hr0 : 0 < R2 - q := by linarith
  have hsq : Real.sqrt (R2 - q) ≤ s := by
    rw [show s = Real.sqrt (s * s) from (Real.sqrt_mul_self hs.le).symm]
    exact Real.sqrt_le_sqrt (by linarith)
  have hpos : 0 < Real.sqrt (R2 - q) := Real.sqrt_pos.2 hr0
  have hd0 : 0 ≤ s - Real.sqrt (R2 - q) := by linarith
  have hval : path K p s q (s - Real.sqrt (R2 - q)) - path K p s q 0 = dE := by
    have e1 : nsq s q (s - Real.sqrt (R2 - q)) = R2 := by
      unfold nsq
      have := Real.mul_self_sqrt hr0.le
      ring_nf; ring_nf at this; linarith
    unfold path; rw [e1, nsq_zero, hR3]; ring
  refine ⟨hd0, by linarith, hval, ?_⟩
  rw [uphill_mono (path_monoOn_of_pos hK hp hq (by linarith)) hd0, hval]

/-- total climb of the path in the repulsive case: up to the closest approach -/
theorem repulsive_uphill_le {K p s q d : ℝ} (hK : 0 < K) (hp : 0 < p) (hq : 0 < q) (hs : 0 < s)
    (hd : 0 ≤ d) : uphill (path K p s q) 0 d ≤ pot K p (0 * 0 + q) - pot K p (s * s + q) := by
  have e0 : path K p s q 0 = pot K p (s * s + q) := by unfold path; rw [nsq_zero]
  have es : path K p s q s = pot K p (0 * 0 + q) := by unfold path; rw [nsq_self]
  rcases le_total d s with hds | hds
  · rw [uphill_mono (path_monoOn_of_pos hK hp hq hds) hd, e0, ← es]
    have := path_monoOn_of_pos (a := 0) hK hp hq (le_refl s) ⟨hd, hds⟩ ⟨hs.le, le_refl s⟩ hds
    linarith
  · rw [uphill_mono_anti hs.le hds (path_monoOn_of_pos hK hp hq le_rfl)
      (path_antiOn_of_pos hK hp hq le_rfl), e0, es]

/-- **Inverse power, repulsive: infinite exactly when the path never accumulates more than the budget.**
(The code compares with `<`: a budget equal to the total climb, reached only *at* the closest
approach where the climb ends, is answered `inf`.) -/
theorem repulsive_none_iff {K p s q dE : ℝ} (hK : 0 < K) (hp : 0 < p) (hq : 0 < q) (hE : 0 ≤ dE) :
    dispRepulsive K p s q dE = none ↔ ∀ d, 0 ≤ d → uphill (path K p s q) 0 d ≤ dE := by
  constructor
  · intro h d hd
    simp only [dispRepulsive] at h
    split_ifs at h with h1 h2
    · -- in front of the target: downhill for ever
      rw [uphill_anti (path_antiOn_of_pos hK hp hq h1) hd]; exact hE
    · exact (repulsive_uphill_le hK hp hq (not_le.1 h1) hd).trans (not_lt.1 h2)
  · intro h
    by_contra hne
    obtain ⟨d, hd⟩ := Option.ne_none_iff_exists'.1 hne
    obtain ⟨hs, h2, _⟩ := dispRepulsive_eq_some hd
    have := h s hs.le
    rw [uphill_mono (path_monoOn_of_pos hK hp hq le_rfl) hs.le] at this
    unfold path at this; rw [nsq_zero, nsq_self] at this
    linarith

/-- non-vacuity: `1/r` repulsion, `s = 3, q = 16` (distance 5 → potential 1/5), budget `1/20`
(the total climb is `1/4 - 1/5 = 1/20`… the budget `1/40` is below it): a finite distance is returned -/
example : ∃ d, dispRepulsive 1 1 3 16 (1/40) = some d := by
  unfold dispRepulsive pot
  have h16 : ((0:ℝ) * 0 + 16) ^ ((1:ℝ) / 2) = 4 := by
    rw [show (0:ℝ) * 0 + 16 = 4 ^ (2:ℝ) by norm_num, ← Real.rpow_mul (by norm_num)]; norm_num
  have h25 : ((3:ℝ) * 3 + 16) ^ ((1:ℝ) / 2) = 5 := by
    rw [show (3:ℝ) * 3 + 16 = 5 ^ (2:ℝ) by norm_num, ← Real.rpow_mul (by norm_num)]; norm_num
  simp only [h16, h25]
  norm_num

/-! ## Inverse power potential, attractive branch -/

theorem dispAttractive_eq_some {K p s q dE d : ℝ} (h : dispAttractive K p s q dE = some d) :
    let cd := if 0 < s then 0 + s else 0
    let s' := if 0 < s then 0 else s
    pot K p (s' * s' + q) + dE < 0 ∧
      d = cd + (s' + Real.sqrt ((K / (pot K p (s' * s' + q) + dE)) ^ (2 / p) - q)) := by
  intro cd s'
  simp only [dispAttractive] at h
  by_cases hs : 0 < s
  · simp only [hs, if_true] at h
    split_ifs at h with h1
    simp only [cd, s', hs, if_true]
    exact ⟨not_le.1 h1, (Option.some.inj h).symm⟩
  · simp only [hs, if_false] at h
    split_ifs at h with h1
    simp only [cd, s', hs, if_false]
    exact ⟨not_le.1 h1, (Option.some.inj h).symm⟩

/-- facts about the radius the code solves for (attractive case), from the position `s'` reached
after the downhill stretch -/
theorem attractive_radius {K p s' q dE : ℝ} (hK : K < 0) (hp : 0 < p) (hq : 0 < q) (hE : 0 ≤ dE)
    (h2 : pot K p (s' * s' + q) + dE < 0) :
    let R2 := (K / (pot K p (s' * s' + q) + dE)) ^ (2 / p)
    s' * s' + q ≤ R2 ∧ pot K p R2 = pot K p (s' * s' + q) + dE := by
  intro R2
  have hn : 0 < s' * s' + q := by nlinarith [mul_self_nonneg s']
  have hcur : pot K p (s' * s' + q) < 0 := pot_neg_of_neg hK hn
  have hKy : 0 < K / (pot K p (s' * s' + q) + dE) := div_pos_of_neg_of_neg hK h2
  refine ⟨?_, pot_inv hp hKy⟩
  have h4 : K / pot K p (s' * s' + q) ≤ K / (pot K p (s' * s' + q) + dE) := by
    rw [← neg_div_neg_eq K (pot K p (s' * s' + q)), ← neg_div_neg_eq K (pot K p (s' * s' + q) + dE)]
    exact div_le_div_of_nonneg_left (by linarith) (by linarith) (by linarith)
  rw [div_pot hK.ne hn] at h4
  have h5 := Real.rpow_le_rpow (Real.rpow_pos_of_pos hn _).le h4 (show 0 ≤ 2 / p by positivity)
  rwa [rpow_two_div hp hn.le] at h5

/-- **Inverse power, attractive: the returned distance inverts the accumulated uphill energy.**
`x₀ = max s 0` is the closest approach (the end of the initial downhill stretch, which accumulates
nothing).  If the routine returns `d`, then `x₀ ≤ d`, the potential at `d` exceeds the one at `x₀` by
exactly the budget, and the energy accumulated uphill along `[0, d]` is exactly the budget. -/
theorem attractive_some {K p s q dE d : ℝ} (hK : K < 0) (hp : 0 < p) (hq : 0 < q) (hE : 0 ≤ dE)
    (h : dispAttractive K p s q dE = some d) :
    max s 0 ≤ d ∧ path K p s q d - path K p s q (max s 0) = dE ∧
      uphill (path K p s q) 0 d = dE := by
  obtain ⟨h2, hd⟩ := dispAttractive_eq_some h
  rcases lt_or_ge 0 s with hs | hs
  · -- behind the target: downhill until the closest approach `x = s`, then uphill
    simp only [hs, if_true] at h2 hd
    obtain ⟨hR1, hR3⟩ := attractive_radius (s' := 0) hK hp hq hE h2
    set R2 := (K / (pot K p (0 * 0 + q) + dE)) ^ (2 / p) with hR
    have hr0 : 0 ≤ R2 - q := by linarith
    have hsq := Real.sqrt_nonneg (R2 - q)
    rw [max_eq_left hs.le]
    have hds : s ≤ d := by rw [hd]; linarith
    have hval : path K p s q d - path K p s q s = dE := by
      have e1 : nsq s q d = R2 := by
        unfold nsq; rw [hd]
        have := Real.mul_self_sqrt hr0
        ring_nf; ring_nf at this; linarith
      unfold path; rw [e1, nsq_self, hR3]; ring
    refine ⟨hds, hval, ?_⟩
    rw [uphill_anti_mono hs.le hds (path_antiOn_of_neg hK hp hq le_rfl)
      (path_monoOn_of_neg hK hp hq le_rfl), hval]
  · -- in front of the target: uphill from the start
    have hs' : ¬ 0 < s := not_lt.2 hs
    simp only [hs', if_false] at h2 hd
    obtain ⟨hR1, hR3⟩ := attractive_radius (s' := s) hK hp hq hE h2
    set R2 := (K / (pot K p (s * s + q) + dE)) ^ (2 / p) with hR
    have hr0 : 0 ≤ R2 - q := by nlinarith [mul_self_nonneg s]
    have hsq : -s ≤ Real.sqrt (R2 - q) := by
      rw [show -s = Real.sqrt ((-s) * (-s)) from (Real.sqrt_mul_self (by linarith)).symm]
      exact Real.sqrt_le_sqrt (by nlinarith)
    rw [max_eq_right hs]
    have hd0 : 0 ≤ d := by rw [hd]; linarith
    have hval : path K p s q d - path K p s q 0 = dE := by
      have e1 : nsq s q d = R2 := by
        unfold nsq; rw [hd]
        have := Real.mul_self_sqrt hr0
        ring_nf; ring_nf at this; linarith
      unfold path; rw [e1, nsq_zero, hR3]; ring
    refine ⟨hd0, hval, ?_⟩
    rw [uphill_mono (path_monoOn_of_neg hK hp hq hs) hd0, hval]

/-- **Inverse power, attractive: infinite exactly when the path never accumulates the budget.** -/
theorem attractive_none_iff {K p s q dE : ℝ} (hK : K < 0) (hp : 0 < p) (hq : 0 < q) (hE : 0 < dE) :
    dispAttractive K p s q dE = none ↔ ∀ d, 0 ≤ d → uphill (path K p s q) 0 d < dE := by
  constructor
  · intro h d hd
    simp only [dispAttractive] at h
    have hneg : ∀ x, path K p s q x < 0 := fun x => pot_neg_of_neg hK (nsq_pos hq)
    rcases lt_or_ge 0 s with hs | hs
    · simp only [hs, if_true] at h
      split_ifs at h with h1
      rcases le_total d s with hds | hds
      · rw [uphill_anti (path_antiOn_of_neg hK hp hq hds) hd]; exact hE
      · rw [uphill_anti_mono hs.le hds (path_antiOn_of_neg hK hp hq le_rfl)
          (path_monoOn_of_neg hK hp hq le_rfl)]
        have e : path K p s q s = pot K p (0 * 0 + q) := by unfold path; rw [nsq_self]
        have := hneg d
        rw [e]; linarith
    · have hs' : ¬ 0 < s := not_lt.2 hs
      simp only [hs', if_false] at h
      split_ifs at h with h1
      rw [uphill_mono (path_monoOn_of_neg hK hp hq hs) hd]
      have e : path K p s q 0 = pot K p (s * s + q) := by unfold path; rw [nsq_zero]
      have := hneg d
      rw [e]; linarith
  · intro h
    by_contra hne
    obtain ⟨d, hd⟩ := Option.ne_none_iff_exists'.1 hne
    obtain ⟨h1, _, h3⟩ := attractive_some hK hp hq hE.le hd
    have hd0 : 0 ≤ d := (le_max_right s 0).trans h1
    have := h d hd0
    linarith

/-- non-vacuity: `-1/r` attraction from `s = 3, q = 16` (behind the target), budget `1/8 < 1/4`:
a finite distance is returned -/
example : ∃ d, dispAttractive (-1) 1 3 16 (1/8) = some d := by
  unfold dispAttractive pot
  have h16 : ((0:ℝ) * 0 + 16) ^ ((1:ℝ) / 2) = 4 := by
    rw [show (0:ℝ) * 0 + 16 = 4 ^ (2:ℝ) by norm_num, ← Real.rpow_mul (by norm_num)]; norm_num
  simp only [show (0:ℝ) < 3 by norm_num, if_true, h16]
  norm_num

/-- non-vacuity of the infinite outcome: the same start with the budget `1/2 > 1/4` escapes -/
example : dispAttractive (-1) 1 3 16 (1/2) = none := by
  unfold dispAttractive pot
  have h16 : ((0:ℝ) * 0 + 16) ^ ((1:ℝ) / 2) = 4 := by
    rw [show (0:ℝ) * 0 + 16 = 4 ^ (2:ℝ) by norm_num, ← Real.rpow_mul (by norm_num)]; norm_num
  simp only [show (0:ℝ) < 3 by norm_num, if_true, h16]
  norm_num

/-- **Inverse power potential, both signs** (`standard_velocity_displacement`): a returned finite
distance is non-negative and the uphill energy accumulated along it equals the budget. -/
theorem invPow_some {K p s q dE d : ℝ} (hK : K ≠ 0) (hp : 0 < p) (hq : 0 < q) (hE : 0 ≤ dE)
    (h : dispInvPow K p s q dE = some d) : 0 ≤ d ∧ uphill (path K p s q) 0 d = dE := by
  unfold dispInvPow at h
  split_ifs at h with h1
  · obtain ⟨a, _, _, b⟩ := repulsive_some h1 hp hq hE h; exact ⟨a, b⟩
  · have hK' : K < 0 := lt_of_le_of_ne (not_lt.1 h1) hK
    obtain ⟨a, _, b⟩ := attractive_some hK' hp hq hE h
    exact ⟨(le_max_right s 0).trans a, b⟩

/-- **Inverse power potential, both signs**: the routine answers `inf` exactly when the path never
accumulates more than the budget (repulsive, `≤` as the code compares) / never reaches it (attractive). -/
theorem invPow_none_iff {K p s q dE : ℝ} (hK : K ≠ 0) (hp : 0 < p) (hq : 0 < q) (hE : 0 < dE) :
    dispInvPow K p s q dE = none ↔
      if K > 0 then ∀ d, 0 ≤ d → uphill (path K p s q) 0 d ≤ dE
      else ∀ d, 0 ≤ d → uphill (path K p s q) 0 d < dE := by
  unfold dispInvPow
  split_ifs with h1
  · exact repulsive_none_iff h1 hp hq hE.le
  · exact attractive_none_iff (lt_of_le_of_ne (not_lt.1 h1) hK) hp hq hE


/-! ## Hard sphere: the returned time is the first time of contact -/

theorem sqrt_disc_le {a b c : ℝ} (ha : 0 < a) (hc : 0 ≤ c) (hb : 0 ≤ b) :
    Real.sqrt (b * b - a * c) ≤ b := by
  rw [show b = Real.sqrt (b * b) from (Real.sqrt_mul_self hb).symm]
  apply Real.sqrt_le_sqrt
  rw [Real.sqrt_mul_self hb]; nlinarith

/-- **Hard sphere: the returned time is the least root of the contact equation.**  For spheres that do
not overlap (`c = |s|² - σ² ≥ 0`): the returned `t` is non-negative, the centres are at distance `σ`
at time `t` (`gap = 0`), and at every earlier time they are strictly further apart. -/
theorem hardSphere_some {a b c t : ℝ} (ha : 0 < a) (hc : 0 ≤ c) (h : hardSphere a b c = some t) :
    0 ≤ t ∧ gap a b c t = 0 ∧ ∀ t', t' < t → 0 < gap a b c t' := by
  simp only [hardSphere] at h
  split_ifs at h with h1
  obtain ⟨hD, hb⟩ := h1
  have ht : t = (b - Real.sqrt (b * b - a * c)) / a := (Option.some.inj h).symm
  have hle := sqrt_disc_le ha hc hb
  have hr := Real.sqrt_nonneg (b * b - a * c)
  refine ⟨by rw [ht]; exact div_nonneg (by linarith) ha.le, by rw [ht]; exact gap_root_minus ha hD, ?_⟩
  intro t' ht'
  rw [gap_factor ha hD t']
  have h1 : t' - (b - Real.sqrt (b * b - a * c)) / a < 0 := by rw [← ht]; linarith
  have h2 : t' - (b + Real.sqrt (b * b - a * c)) / a < 0 := by
    have : (b - Real.sqrt (b * b - a * c)) / a ≤ (b + Real.sqrt (b * b - a * c)) / a :=
      div_le_div_of_nonneg_right (by linarith) ha.le
    rw [← ht] at this; linarith
  have := mul_pos_of_neg_of_neg h1 h2
  nlinarith

/-- **Hard sphere: `inf` exactly when there is no contact at any time `t ≥ 0`** (separated spheres,
`c > 0`). -/
theorem hardSphere_none_iff {a b c : ℝ} (ha : 0 < a) (hc : 0 < c) :
    hardSphere a b c = none ↔ ∀ t, 0 ≤ t → 0 < gap a b c t := by
  constructor
  · intro h t ht
    simp only [hardSphere] at h
    split_ifs at h with h1
    rw [not_and_or] at h1
    rcases h1 with h1 | h1
    · exact gap_pos_of_disc_neg ha (not_le.1 h1) t
    · unfold gap; nlinarith [mul_nonneg ha.le (mul_self_nonneg t), mul_nonneg ht (neg_pos.2 (not_le.1 h1)).le]
  · intro h
    by_contra hne
    obtain ⟨t, ht⟩ := Option.ne_none_iff_exists'.1 hne
    obtain ⟨h0, h1, _⟩ := hardSphere_some ha hc.le ht
    have := h t h0
    linarith

/-- the time scales inversely with the speed: velocity `λ v` gives `a ↦ λ² a`, `b ↦ λ b` -/
theorem hardSphere_speed {a b c l : ℝ} (hl : 0 < l) :
    hardSphere (l * l * a) (l * b) c = (hardSphere a b c).map (· / l) := by
  simp only [hardSphere]
  have e : l * b * (l * b) - l * l * a * c = l * l * (b * b - a * c) := by ring
  have hll : 0 < l * l := by positivity
  have c1 : (l * b * (l * b) - l * l * a * c ≥ 0 ∧ l * b ≥ 0) ↔ (b * b - a * c ≥ 0 ∧ b ≥ 0) := by
    rw [e]
    constructor
    · rintro ⟨h1, h2⟩; exact ⟨by nlinarith, by nlinarith⟩
    · rintro ⟨h1, h2⟩; exact ⟨by positivity, by positivity⟩
  by_cases h : b * b - a * c ≥ 0 ∧ b ≥ 0
  · rw [if_pos (c1.2 h), if_pos h, Option.map_some, e,
      Real.sqrt_mul' _ h.1, Real.sqrt_mul_self hl.le]
    congr 1
    by_cases ha : a = 0
    · simp [ha]
    · field_simp
  · rw [if_neg (fun h' => h (c1.1 h')), if_neg h, Option.map_none]

/-- non-vacuity: unit speed along `x`, centres 3 apart, `σ² = 1`: contact after time 2 -/
example : hardSphere 1 3 8 = some 2 := by
  simp only [hardSphere]
  have : Real.sqrt ((3:ℝ) * 3 - 1 * 8) = 1 := by norm_num
  rw [if_pos (by norm_num), this]; norm_num

/-! ## Hard dipole: first of (contact at the minimal, arrival at the maximal separation) -/

/-- **Hard dipole: the returned time is the first event.**  Inside the bond annulus
(`cmin = |s|² - r_min² ≥ 0`, `cmax = |s|² - r_max² ≤ 0`) the returned `t` is non-negative, at time `t`
the separation is `r_min` or `r_max`, and at every time in `[0, t]` the pair is still inside the
annulus (not closer than `r_min`, not further than `r_max`). -/
theorem hardDipole_first {a b cmin cmax : ℝ} (ha : 0 < a) (hmin : 0 ≤ cmin) (hmax : cmax ≤ 0) :
    let t := hardDipole a b cmin cmax
    0 ≤ t ∧ (gap a b cmin t = 0 ∨ gap a b cmax t = 0) ∧
      ∀ t', 0 ≤ t' → t' ≤ t → 0 ≤ gap a b cmin t' ∧ gap a b cmax t' ≤ 0 := by
  intro t
  have hDmax : 0 ≤ b * b - a * cmax := by nlinarith [mul_self_nonneg b]
  by_cases h : b ≥ 0 ∧ b * b - a * cmin ≥ 0
  · -- contact at the minimal separation
    have ht : t = (b - Real.sqrt (b * b - a * cmin)) / a := by simp only [t, hardDipole, if_pos h]
    obtain ⟨hb, hD⟩ := h
    have hs : hardSphere a b cmin = some t := by simp only [hardSphere, if_pos (And.intro hD hb), ht]
    obtain ⟨h0, h1, h2⟩ := hardSphere_some ha hmin hs
    refine ⟨h0, Or.inl h1, fun t' h0' hle => ⟨?_, ?_⟩⟩
    · rcases eq_or_lt_of_le hle with e | e
      · rw [e, h1]
      · exact (h2 t' e).le
    · -- convexity: `gap(·, cmax) ≤ 0` at `0` and at `t`
      have g0 : gap a b cmax 0 ≤ 0 := by unfold gap; linarith
      have gt : gap a b cmax t ≤ 0 := by
        have : gap a b cmax t = gap a b cmin t + (cmax - cmin) := by unfold gap; ring
        rw [this, h1]; linarith
      rcases eq_or_lt_of_le h0 with e | e
      · have : t' = 0 := le_antisymm (by rw [e]; exact hle) h0'
        rw [this]; exact g0
      · have key : t * gap a b cmax t' =
            (t - t') * gap a b cmax 0 + t' * gap a b cmax t - a * t' * (t - t') * t := by
          unfold gap; ring
        have p1 : (t - t') * gap a b cmax 0 ≤ 0 := mul_nonpos_of_nonneg_of_nonpos (sub_nonneg.2 hle) g0
        have p2 : t' * gap a b cmax t ≤ 0 := mul_nonpos_of_nonneg_of_nonpos h0' gt
        have p3 : 0 ≤ a * t' * (t - t') * t :=
          mul_nonneg (mul_nonneg (mul_nonneg ha.le h0') (sub_nonneg.2 hle)) e.le
        have : t * gap a b cmax t' ≤ 0 := by rw [key]; linarith
        by_contra hpos
        have := mul_pos e (not_le.1 hpos)
        linarith
  · -- arrival at the maximal separation
    have ht : t = (b + Real.sqrt (b * b - a * cmax)) / a := by simp only [t, hardDipole, if_neg h]
    have hr := Real.sqrt_nonneg (b * b - a * cmax)
    have hrb : |b| ≤ Real.sqrt (b * b - a * cmax) := by
      rw [← Real.sqrt_mul_self (abs_nonneg b), abs_mul_abs_self]
      exact Real.sqrt_le_sqrt (by nlinarith)
    have hb1 := neg_abs_le b
    have hb2 := le_abs_self b
    have h0 : 0 ≤ t := by rw [ht]; exact div_nonneg (by linarith) ha.le
    have hroot : gap a b cmax t = 0 := by rw [ht]; exact gap_root_plus ha hDmax
    refine ⟨h0, Or.inr hroot, fun t' h0' hle => ⟨?_, ?_⟩⟩
    · rw [not_and_or] at h
      rcases h with h | h
      · unfold gap; nlinarith [mul_nonneg ha.le (mul_self_nonneg t'), mul_nonneg h0' (neg_pos.2 (not_le.1 h)).le]
      · exact (gap_pos_of_disc_neg ha (not_le.1 h) t').le
    · rw [gap_factor ha hDmax t']
      have h1 : t' - (b + Real.sqrt (b * b - a * cmax)) / a ≤ 0 := by rw [← ht]; linarith
      have h2 : 0 ≤ t' - (b - Real.sqrt (b * b - a * cmax)) / a := by
        have : (b - Real.sqrt (b * b - a * cmax)) / a ≤ 0 := div_nonpos_of_nonpos_of_nonneg (by linarith) ha.le
        linarith
      have := mul_nonneg ha.le h2
      nlinarith

/-- non-vacuity: bond limits 1 and 2, separation 1.5 along `x`, moving apart at unit speed: the maximal
length is reached after time 1/2 -/
example : hardDipole 1 (-3/2) (9/4 - 1) (9/4 - 4) = 1/2 := by
  simp only [hardDipole]
  rw [if_neg (by norm_num)]
  have : Real.sqrt ((-3/2 : ℝ) * (-3/2) - 1 * (9/4 - 4)) = 2 := by
    rw [show (-3/2 : ℝ) * (-3/2) - 1 * (9/4 - 4) = 2 * 2 by norm_num]; exact Real.sqrt_mul_self (by norm_num)
  rw [this]; norm_num


/-! ## C routine of the periodic `1/r` bound: whole-box laps + remainder -/

/-- **The split into whole laps and a remainder budget is exact**: with `n = floor(dE / c)` laps, the
remainder budget `dE - n c` (the C code's `fmod`) lies in `[0, c)`, `n ≥ 0`, and `dE = n c + remainder`.
The routine returns `n L + (remainder stage)`. -/
theorem cb_laps_split {K L sx q dE : ℝ} (hc : 0 < cbPerLap K L q) (hE : 0 ≤ dE) :
    let n := ⌊dE / cbPerLap K L q⌋
    let r := dE - (n : ℝ) * cbPerLap K L q
    0 ≤ n ∧ 0 ≤ r ∧ r < cbPerLap K L q ∧
      cbDisplacement K L sx q dE = (n : ℝ) * L + cbRemainder K L sx q r := by
  intro n r
  have h1 : (n : ℝ) ≤ dE / cbPerLap K L q := Int.floor_le _
  have h2 : dE / cbPerLap K L q < n + 1 := Int.lt_floor_add_one _
  rw [le_div_iff₀ hc] at h1
  rw [div_lt_iff₀ hc] at h2
  refine ⟨Int.floor_nonneg.2 (div_nonneg hE hc.le), by simp only [r]; linarith, by simp only [r]; linarith, rfl⟩

/-- **Remainder stage, repulsive, first climb.**  For `K > 0`, the active unit behind the nearest image
(`sx > 0`) and a remainder budget below the climb to the closest approach, the C routine's remainder
stage is the inverse-power routine with power `1` toward that image; hence the returned distance is in
`[0, sx)` and the uphill energy of the `1/r` potential of the nearest image accumulated along it equals
the remainder budget.  (Building block of `cb_repulsive_inverts`, which treats all branches and the
whole-box laps on the minimum-image path.) -/
theorem cb_remainder_first_climb {K L sx q dE : ℝ} (hK : 0 < K) (hq : 0 < q) (hs : 0 < sx)
    (hE : 0 ≤ dE) (h : dE < cbPot K 0 q - cbPot K sx q) :
    let d := cbRemainder K L sx q dE
    dispRepulsive K 1 sx q dE = some d ∧ 0 ≤ d ∧ d < sx ∧ uphill (path K 1 sx q) 0 d = dE := by
  intro d
  have hd : dispRepulsive K 1 sx q dE = some d := by
    simp only [d, cbRemainder, dispRepulsive, if_pos hK, if_neg (not_le.2 hs), if_neg (not_le.2 h)]
    rw [cbPot_eq_pot, cbPot_eq_pot] at h
    rw [if_pos h, rpow_two_div_one, cbPot_eq_pot]
  obtain ⟨a, b, _, c⟩ := repulsive_some hK one_pos hq hE hd
  exact ⟨hd, a, b, c⟩

/-- non-vacuity of `cb_laps_split`/`cb_remainder_first_climb`: unit box, `K = 1`, `q = 1/4`:
the climb per lap is `2 - √2 > 0` -/
example : 0 < cbPerLap 1 1 (1/4) := by
  unfold cbPerLap cbPot
  apply abs_pos.2
  have h1 : Real.sqrt ((0:ℝ) * 0 + 1/4) = 1/2 := by
    rw [show (0:ℝ) * 0 + 1/4 = (1/2) * (1/2) by norm_num]; exact Real.sqrt_mul_self (by norm_num)
  have h2 : (1:ℝ)/2 < Real.sqrt ((1:ℝ)/2 * (1/2) + 1/4) := by
    rw [show (1:ℝ)/2 = Real.sqrt ((1/2) * (1/2)) from (Real.sqrt_mul_self (by norm_num)).symm]
    exact Real.sqrt_lt_sqrt (by norm_num) (by norm_num)
  rw [h1]
  have h3 : (0:ℝ) < Real.sqrt ((1:ℝ)/2 * (1/2) + 1/4) := by linarith
  have : (1:ℝ) / Real.sqrt ((1:ℝ)/2 * (1/2) + 1/4) < 1 / (1/2) := by
    apply div_lt_div_of_pos_left one_pos (by norm_num) h2
  linarith


/-! ## Totality of the real-number reading (inverse power) -/

/-- **No arithmetic failure, repulsive branch**: whenever the routine takes the inversion branch, every
denominator is non-zero and the argument of the square root is positive. -/
theorem repulsive_total {K p s q dE : ℝ} (hK : 0 < K) (hp : 0 < p) (hq : 0 < q) (hE : 0 ≤ dE)
    (hs : 0 < s) (h2 : dE < pot K p (0 * 0 + q) - pot K p (s * s + q)) :
    (0 * 0 + q) ^ (p / 2) ≠ 0 ∧ (s * s + q) ^ (p / 2) ≠ 0 ∧ pot K p (s * s + q) + dE ≠ 0 ∧
      0 < (K / (pot K p (s * s + q) + dE)) ^ (2 / p) - q := by
  obtain ⟨h, _, _⟩ := repulsive_radius hK hp hq hE hs h2
  have hn : 0 < s * s + q := by positivity
  refine ⟨(Real.rpow_pos_of_pos (by linarith) _).ne', (Real.rpow_pos_of_pos hn _).ne', ?_, by linarith⟩
  have := pot_pos (p := p) hK hn
  linarith

/-- **No arithmetic failure, attractive branch** (from the position `s' ≤ 0` reached after the downhill
stretch): denominators non-zero, square-root argument non-negative. -/
theorem attractive_total {K p s' q dE : ℝ} (hK : K < 0) (hp : 0 < p) (hq : 0 < q) (hE : 0 ≤ dE)
    (h2 : pot K p (s' * s' + q) + dE < 0) :
    (s' * s' + q) ^ (p / 2) ≠ 0 ∧ pot K p (s' * s' + q) + dE ≠ 0 ∧
      0 ≤ (K / (pot K p (s' * s' + q) + dE)) ^ (2 / p) - q := by
  obtain ⟨h, _⟩ := attractive_radius hK hp hq hE h2
  have hn : 0 < s' * s' + q := by nlinarith [mul_self_nonneg s']
  exact ⟨(Real.rpow_pos_of_pos hn _).ne', h2.ne, by nlinarith [mul_self_nonneg s']⟩

/-! ## Cell bounding potential: constant bounding rate -/

/-- **Cell bound: the returned distance inverts the (linear) bounding energy `x ↦ rate·x`; `inf` exactly
when that energy never increases.** -/
theorem cellBounding_spec {rate dE : ℝ} (hE : 0 < dE) :
    (∀ d, cellBounding rate dE = some d → 0 ≤ d ∧ uphill (fun x => rate * x) 0 d = dE) ∧
    (cellBounding rate dE = none ↔ ∀ d, 0 ≤ d → uphill (fun x => rate * x) 0 d < dE) := by
  unfold cellBounding
  constructor
  · intro d h
    split_ifs at h with h1
    have hd : d = dE / rate := (Option.some.inj h).symm
    have h0 : 0 ≤ d := by rw [hd]; exact div_nonneg hE.le h1.le
    refine ⟨h0, ?_⟩
    rw [uphill_mono (fun x _ y _ hxy => mul_le_mul_of_nonneg_left hxy h1.le) h0, hd]
    field_simp; ring
  · constructor
    · intro h d hd
      split_ifs at h with h1
      rw [uphill_anti (fun x _ y _ hxy => mul_le_mul_of_nonpos_left hxy (not_lt.1 h1)) hd]; exact hE
    · intro h
      by_contra hne
      split_ifs at hne with h1
      · have h0 : 0 ≤ dE / rate := div_nonneg hE.le h1.le
        have := h (dE / rate) h0
        rw [uphill_mono (fun x _ y _ hxy => mul_le_mul_of_nonneg_left hxy h1.le) h0] at this
        have e : rate * (dE / rate) - rate * 0 = dE := by field_simp; ring
        linarith
      · exact hne rfl


/-! ## C routine of the periodic `1/r` bound, repulsive sign: laps + remainder invert the uphill energy
of the minimum-image path -/

/-- the remainder climb starting at a box face is the inverse-power routine (power 1) from `s = L/2` -/
theorem face_climb {K L q r : ℝ} (hK : 0 < K) (hL : 0 < L) (hq : 0 < q) (hr0 : 0 ≤ r)
    (hr : r < cbPerLap K L q) :
    let dr := L / 2 - Real.sqrt ((K / (cbPot K (L / 2) q + r)) * (K / (cbPot K (L / 2) q + r)) - q)
    0 ≤ dr ∧ dr < L / 2 ∧ upP K L q dr - upP K L q 0 = r := by
  intro dr
  have hc := (cbPerLap_pos_of_pos hK hL hq).1
  rw [hc, cbPot_eq_pot, cbPot_eq_pot] at hr
  have hd : dispRepulsive K 1 (L / 2) q r = some dr := by
    simp only [dispRepulsive, if_neg (not_le.2 (half_pos hL)), if_pos hr, rpow_two_div_one, dr,
      cbPot_eq_pot]
  obtain ⟨a, b, c, _⟩ := repulsive_some hK one_pos hq hr0 hd
  exact ⟨a, b, c⟩

/-- one whole lap starting at a box face accumulates the climb per lap (`K > 0`) -/
theorem lap_from_face {K L sx q : ℝ} {g : ℝ → ℝ} (hK : 0 < K) (hL : 0 < L) (hq : 0 < q)
    (hg : MinImage K L sx q g) :
    uphill g (sx + L / 2) (sx + L / 2 + L) = cbPerLap K L q ∧
      BoundedVariationOn g (Icc (sx + L / 2) (sx + L / 2 + L)) := by
  obtain ⟨s1, b1⟩ := (hg.up_stretch 1 (a := sx + L / 2) (x := sx + L / 2) (y := sx + L)
    (by push_cast; ring) le_rfl (by linarith) (by linarith)).1
    (path_monoOn_of_pos hK one_pos hq (by linarith))
  obtain ⟨s2, b2⟩ := (hg.dn_stretch 1 (a := sx + L) (x := sx + L) (y := sx + L / 2 + L)
    (by push_cast; ring) le_rfl (by linarith) (by linarith)).2
    (path_antiOn_of_pos hK one_pos hq (by linarith))
  refine ⟨?_, bv_add (by linarith) (by linarith) b1 b2⟩
  rw [uphill_add (b := sx + L) (by linarith) (by linarith) b1 b2, s1, s2,
    (cbPerLap_pos_of_pos hK hL hq).1]
  have e1 : sx + L - (sx + L / 2) = L / 2 := by ring
  have e2 : sx + L / 2 - (sx + L / 2) = 0 := by ring
  rw [e1, e2, upP_half, upP_zero]; ring

/-- **Periodic `1/r` bound, repulsive charges: the C routine's distance (whole-box laps plus remainder)
inverts the uphill energy accumulated along the minimum-image path.**  For every separation inside the
box (`-L/2 ≤ sx ≤ L/2`, `q > 0`) and every budget `dE ≥ 0` the returned distance is non-negative and
the positive variation of the minimum-image energy `g` over it equals the budget. -/
theorem cb_repulsive_inverts {K L sx q dE : ℝ} {g : ℝ → ℝ} (hK : 0 < K) (hL : 0 < L) (hq : 0 < q)
    (hs1 : -(L / 2) ≤ sx) (hs2 : sx ≤ L / 2) (hE : 0 ≤ dE) (hg : MinImage K L sx q g) :
    0 ≤ cbDisplacement K L sx q dE ∧ uphill g 0 (cbDisplacement K L sx q dE) = dE := by
  obtain ⟨hc_eq, hc⟩ := cbPerLap_pos_of_pos hK hL hq
  obtain ⟨hn0, hr0, hrc, hT⟩ := cb_laps_split (K := K) (L := L) (sx := sx) (q := q) hc hE
  obtain ⟨m, hm⟩ := Int.eq_ofNat_of_zero_le hn0
  have hnm : ((⌊dE / cbPerLap K L q⌋ : ℤ) : ℝ) = (m : ℝ) := by rw [hm]; simp
  rw [hT]
  simp only [hnm] at hr0 hrc ⊢
  set c := cbPerLap K L q with hcdef
  set r := dE - (m : ℝ) * c with hrdef
  have hdE : dE = m * c + r := by rw [hrdef]; ring
  have hmL : (0:ℝ) ≤ m * L := mul_nonneg (Nat.cast_nonneg m) hL.le
  obtain ⟨lap1, lapbv⟩ := lap_from_face hK hL hq hg
  have upm : ∀ {u v : ℝ}, v ≤ L / 2 → MonotoneOn (upP K L q) (Icc u v) :=
    fun hv => path_monoOn_of_pos hK one_pos hq hv
  have dnm : ∀ {u v : ℝ}, 0 ≤ u → AntitoneOn (dnP K q) (Icc u v) :=
    fun hu => path_antiOn_of_pos hK one_pos hq hu
  simp only [cbRemainder, if_pos hK]
  by_cases hsx : sx ≤ 0
  · -- in front of the nearest image: downhill to the box face, laps, climb the remainder
    rw [if_pos hsx]
    obtain ⟨hd0, hd1, hdr⟩ := face_climb hK hL hq hr0 hrc
    set dr := L / 2 - Real.sqrt ((K / (cbPot K (L / 2) q + r)) * (K / (cbPot K (L / 2) q + r)) - q)
    have hF : 0 ≤ sx + L / 2 := by linarith
    obtain ⟨s1, b1⟩ := (hg.dn_stretch 0 (a := sx) (x := 0) (y := sx + L / 2)
      (by push_cast; ring) hsx hF le_rfl).2 (dnm (by linarith))
    obtain ⟨s2, b2⟩ := uphill_laps hg.per hL.le lapbv m
    obtain ⟨s3, b3⟩ := (hg.up_stretch (m + 1) (a := sx + L / 2 + m * L) (x := sx + L / 2 + m * L)
      (y := sx + L / 2 + m * L + dr) (by push_cast; ring) le_rfl (by linarith) (by linarith)).1
      (upm (by linarith))
    have eT : (m : ℝ) * L + (L / 2 + sx + dr) = sx + L / 2 + m * L + dr := by ring
    refine ⟨by rw [eT]; linarith, ?_⟩
    rw [eT, uphill_add (b := sx + L / 2 + m * L) (by linarith) (by linarith)
        (bv_add hF (by linarith) b1 b2) b3,
      uphill_add (b := sx + L / 2) hF (by linarith) b1 b2, s1, s2, s3, lap1]
    have e1 : sx + L / 2 + m * L + dr - (sx + L / 2 + m * L) = dr := by ring
    have e2 : sx + L / 2 + m * L - (sx + L / 2 + m * L) = 0 := by ring
    rw [e1, e2, hdr, hdE]; ring
  · rw [if_neg hsx]
    have hsx' : 0 < sx := not_le.1 hsx
    have he1 : cbPot K 0 q - cbPot K sx q = upP K L q (L / 2) - upP K L q (L / 2 - sx) := by
      rw [upP_half, upP_at]
    -- the first stretch `[0, sx]`: climb to the closest approach
    obtain ⟨sA, bA⟩ := (hg.up_stretch 0 (a := sx - L / 2) (x := 0) (y := sx)
      (by push_cast; ring) (by linarith) hsx'.le (by linarith)).1 (upm (by linarith))
    have eA1 : sx - (sx - L / 2) = L / 2 := by ring
    have eA2 : 0 - (sx - L / 2) = L / 2 - sx := by ring
    rw [eA1, eA2] at sA
    -- downhill to the box face
    obtain ⟨sB, bB⟩ := (hg.dn_stretch 0 (a := sx) (x := sx) (y := sx + L / 2)
      (by push_cast; ring) le_rfl (by linarith) le_rfl).2 (dnm (by linarith))
    by_cases hbig : r ≥ cbPot K 0 q - cbPot K sx q
    · -- the remainder budget carries over the closest approach
      rw [if_pos hbig]
      have hr0' : 0 ≤ r - (cbPot K 0 q - cbPot K sx q) := by linarith
      have hcur : cbPot K sx q ≤ cbPot K 0 q := by
        rw [cbPot_eq_pot, cbPot_eq_pot]
        exact pot_anti hK one_pos (by linarith) (by nlinarith)
      have hrc' : r - (cbPot K 0 q - cbPot K sx q) < c := by rw [hc_eq] at hrc ⊢; linarith
      obtain ⟨hd0, hd1, hdr⟩ := face_climb hK hL hq hr0' hrc'
      set r' := r - (cbPot K 0 q - cbPot K sx q)
      set dr := L / 2 - Real.sqrt ((K / (cbPot K (L / 2) q + r')) * (K / (cbPot K (L / 2) q + r')) - q)
      obtain ⟨s2, b2⟩ := uphill_laps hg.per hL.le lapbv m
      obtain ⟨s3, b3⟩ := (hg.up_stretch (m + 1) (a := sx + L / 2 + m * L) (x := sx + L / 2 + m * L)
        (y := sx + L / 2 + m * L + dr) (by push_cast; ring) le_rfl (by linarith) (by linarith)).1
        (upm (by linarith))
      have eT : (m : ℝ) * L + (sx + L / 2 + dr) = sx + L / 2 + m * L + dr := by ring
      have bAB := bv_add hsx'.le (by linarith : sx ≤ sx + L / 2) bA bB
      refine ⟨by rw [eT]; linarith, ?_⟩
      rw [eT, uphill_add (b := sx + L / 2 + m * L) (by linarith) (by linarith)
          (bv_add (by linarith) (by linarith) bAB b2) b3,
        uphill_add (b := sx + L / 2) (by linarith) (by linarith) bAB b2,
        uphill_add (b := sx) hsx'.le (by linarith) bA bB, sA, sB, s2, s3, lap1]
      have e1 : sx + L / 2 + m * L + dr - (sx + L / 2 + m * L) = dr := by ring
      have e2 : sx + L / 2 + m * L - (sx + L / 2 + m * L) = 0 := by ring
      rw [e1, e2, hdr, ← he1, hdE]; ring
    · -- the remainder budget ends on the first climb: whole laps from the start, then the climb
      rw [if_neg hbig]
      have hlt : r < cbPot K 0 q - cbPot K sx q := not_le.1 hbig
      obtain ⟨hd, hd0, hd1, _⟩ := cb_remainder_first_climb (L := L) hK hq hsx' hr0 hlt
      simp only [cbRemainder, if_pos hK, if_neg hsx, if_neg hbig] at hd hd0 hd1
      set d0 := sx - Real.sqrt ((K / (cbPot K sx q + r)) * (K / (cbPot K sx q + r)) - q)
      obtain ⟨_, _, hval, _⟩ := repulsive_some hK one_pos hq hr0 hd
      -- one lap from the start
      obtain ⟨sC, bC⟩ := (hg.up_stretch 1 (a := sx + L / 2) (x := sx + L / 2) (y := L)
        (by push_cast; ring) le_rfl (by linarith) (by linarith)).1 (upm (by linarith))
      have eC1 : L - (sx + L / 2) = L / 2 - sx := by ring
      have eC2 : sx + L / 2 - (sx + L / 2) = 0 := by ring
      rw [eC1, eC2] at sC
      have bAB := bv_add hsx'.le (by linarith : sx ≤ sx + L / 2) bA bB
      have bL : BoundedVariationOn g (Icc 0 (0 + L)) := by
        rw [zero_add]; exact bv_add (by linarith) (by linarith) bAB bC
      have lap0 : uphill g 0 (0 + L) = c := by
        rw [zero_add, uphill_add (b := sx + L / 2) (by linarith) (by linarith) bAB bC,
          uphill_add (b := sx) hsx'.le (by linarith) bA bB, sA, sB, sC, hc_eq,
          upP_half, upP_at, upP_zero]
        ring
      obtain ⟨s2, b2⟩ := uphill_laps hg.per hL.le bL m
      rw [zero_add] at s2 b2
      obtain ⟨s3, b3⟩ := (hg.up_stretch m (a := sx - L / 2 + m * L) (x := m * L) (y := m * L + d0)
        rfl (by linarith) (by linarith) (by linarith)).1 (upm (by linarith))
      have e1 : (m : ℝ) * L + d0 - (sx - L / 2 + m * L) = L / 2 - sx + d0 := by ring
      have e2 : (m : ℝ) * L - (sx - L / 2 + m * L) = L / 2 - sx + 0 := by ring
      rw [e1, e2, upP_shift, upP_shift, hval] at s3
      refine ⟨by linarith, ?_⟩
      rw [uphill_add (b := (m : ℝ) * L) hmL (by linarith) b2 b3, s2, s3, lap0, hdE]


/-- non-vacuity of `MinImage`: the minimum-image energy exists for every box, separation and charge
product (nearest image by rounding `(sx - x) / L` to the nearest integer) -/
theorem minImage_exists (K L sx q : ℝ) (hL : 0 < L) : ∃ g, MinImage K L sx q g := by
  refine ⟨fun x => cbPot K ((sx - x) - L * round ((sx - x) / L)) q, ?_, ?_⟩
  · intro x
    have h : (sx - (x + L)) / L = (sx - x) / L - 1 := by field_simp; ring
    simp only [h, round_sub_one]
    push_cast
    congr 1; ring
  · intro x hx
    set u := sx - x with hu
    have hround := abs_sub_round (u / L)
    set ρ := round (u / L) with hρ
    have ht : |u / L| ≤ 1 / 2 := by
      rw [abs_div, abs_of_pos hL, div_le_iff₀ hL]; linarith
    rw [abs_le] at hround ht hx
    have h1 : (-1 : ℝ) ≤ ρ := by linarith [hround.2, ht.1]
    have h2 : (ρ : ℝ) ≤ 1 := by linarith [hround.1, ht.2]
    have h3 : ρ = -1 ∨ ρ = 0 ∨ ρ = 1 := by
      have a : (-1 : ℤ) ≤ ρ := by exact_mod_cast h1
      have b : ρ ≤ 1 := by exact_mod_cast h2
      omega
    have key : (u - L * ρ) * (u - L * ρ) = u * u := by
      rcases h3 with e | e | e
      · rw [e] at hround ⊢
        have : u / L = -(1 / 2) := by push_cast at hround; linarith [hround.2, ht.1]
        have hu' : u = -(L / 2) := by field_simp at this; linarith
        push_cast; rw [hu']; ring
      · rw [e]; push_cast; ring
      · rw [e] at hround ⊢
        have : u / L = 1 / 2 := by push_cast at hround; linarith [hround.1, ht.2]
        have hu' : u = L / 2 := by field_simp at this; linarith
        push_cast; rw [hu']; ring
    show cbPot K (u - L * ρ) q = cbPot K u q
    unfold cbPot; rw [key]


/-! ## C routine of the periodic `1/r` bound, attractive sign -/

/-- the remainder climb starting at a closest approach is the inverse-power routine (power 1,
attractive) from `s = 0` -/
theorem closest_climb {K L q r : ℝ} (hK : K < 0) (hL : 0 < L) (hq : 0 < q) (hr0 : 0 ≤ r)
    (hr : r < cbPerLap K L q) :
    let dd := Real.sqrt ((K / (cbPot K 0 q + r)) * (K / (cbPot K 0 q + r)) - q)
    0 ≤ dd ∧ dd < L / 2 ∧ dnP K q dd - dnP K q 0 = r := by
  intro dd
  have hc := (cbPerLap_pos_of_neg hK hL hq).1
  rw [hc] at hr
  have hneg : cbPot K (L / 2) q < 0 := by
    rw [cbPot_eq_pot]; exact pot_neg_of_neg hK (by nlinarith)
  have hlt : pot K 1 (0 * 0 + q) + r < 0 := by rw [← cbPot_eq_pot]; linarith
  have hd : dispAttractive K 1 0 q r = some (0 + (0 + dd)) := by
    simp only [dispAttractive, lt_irrefl, if_false, if_neg (not_le.2 hlt), rpow_two_div_one, dd,
      cbPot_eq_pot]
  obtain ⟨a, b, _⟩ := attractive_some hK one_pos hq hr0 hd
  rw [max_self] at a b
  have e : (0:ℝ) + (0 + dd) = dd := by ring
  rw [e] at a b
  change dnP K q dd - dnP K q 0 = r at b
  refine ⟨a, ?_, b⟩
  by_contra hge
  have hge' : L / 2 ≤ dd := not_lt.1 hge
  have hm := path_monoOn_of_neg (a := L / 2) (b := dd) (s := 0) hK one_pos hq (by linarith)
    (left_mem_Icc.2 hge') (right_mem_Icc.2 hge') hge'
  change dnP K q (L / 2) ≤ dnP K q dd at hm
  rw [dnP_half] at hm
  have : dnP K q dd = cbPot K 0 q + r := by rw [← dnP_zero]; linarith
  linarith

/-- one whole lap starting at a closest approach accumulates the climb per lap (`K < 0`) -/
theorem lap_from_closest {K L sx q : ℝ} {g : ℝ → ℝ} (hK : K < 0) (hL : 0 < L) (hq : 0 < q)
    (hg : MinImage K L sx q g) (k : ℕ) :
    uphill g (sx + k * L) (sx + k * L + L) = cbPerLap K L q ∧
      BoundedVariationOn g (Icc (sx + k * L) (sx + k * L + L)) := by
  obtain ⟨s1, b1⟩ := (hg.dn_stretch k (a := sx + k * L) (x := sx + k * L) (y := sx + k * L + L / 2)
    rfl le_rfl (by linarith) le_rfl).1 (path_monoOn_of_neg hK one_pos hq (by linarith))
  obtain ⟨s2, b2⟩ := (hg.up_stretch (k + 1) (a := sx + k * L + L / 2) (x := sx + k * L + L / 2)
    (y := sx + k * L + L) (by push_cast; ring) le_rfl (by linarith) (by linarith)).2
    (path_antiOn_of_neg hK one_pos hq (by linarith))
  refine ⟨?_, bv_add (by linarith) (by linarith) b1 b2⟩
  rw [uphill_add (b := sx + k * L + L / 2) (by linarith) (by linarith) b1 b2, s1, s2,
    (cbPerLap_pos_of_neg hK hL hq).1]
  have e1 : sx + k * L + L / 2 - (sx + k * L) = L / 2 := by ring
  have e2 : sx + k * L - (sx + k * L) = 0 := by ring
  rw [e1, e2, dnP_half, dnP_zero]; ring

/-- **Periodic `1/r` bound, opposite charges: the C routine's distance (whole-box laps plus remainder)
inverts the uphill energy accumulated along the minimum-image path.** -/
theorem cb_attractive_inverts {K L sx q dE : ℝ} {g : ℝ → ℝ} (hK : K < 0) (hL : 0 < L) (hq : 0 < q)
    (hs1 : -(L / 2) ≤ sx) (hs2 : sx ≤ L / 2) (hE : 0 ≤ dE) (hg : MinImage K L sx q g) :
    0 ≤ cbDisplacement K L sx q dE ∧ uphill g 0 (cbDisplacement K L sx q dE) = dE := by
  obtain ⟨hc_eq, hc⟩ := cbPerLap_pos_of_neg hK hL hq
  obtain ⟨hn0, hr0, hrc, hT⟩ := cb_laps_split (K := K) (L := L) (sx := sx) (q := q) hc hE
  obtain ⟨m, hm⟩ := Int.eq_ofNat_of_zero_le hn0
  have hnm : ((⌊dE / cbPerLap K L q⌋ : ℤ) : ℝ) = (m : ℝ) := by rw [hm]; simp
  rw [hT]
  simp only [hnm] at hr0 hrc ⊢
  set c := cbPerLap K L q with hcdef
  set r := dE - (m : ℝ) * c with hrdef
  have hdE : dE = m * c + r := by rw [hrdef]; ring
  have hmL : (0:ℝ) ≤ m * L := mul_nonneg (Nat.cast_nonneg m) hL.le
  have upa : ∀ {u v : ℝ}, v ≤ L / 2 → AntitoneOn (upP K L q) (Icc u v) :=
    fun hv => path_antiOn_of_neg hK one_pos hq hv
  have dnm : ∀ {u v : ℝ}, 0 ≤ u → MonotoneOn (dnP K q) (Icc u v) :=
    fun hu => path_monoOn_of_neg hK one_pos hq hu
  have hKn : ¬ K > 0 := not_lt.2 hK.le
  simp only [cbRemainder, if_neg hKn]
  by_cases hsx : sx > 0
  · -- behind the nearest image: downhill to the closest approach, laps, climb the remainder
    rw [if_pos hsx]
    obtain ⟨hd0, hd1, hdr⟩ := closest_climb hK hL hq hr0 hrc
    set dd := Real.sqrt ((K / (cbPot K 0 q + r)) * (K / (cbPot K 0 q + r)) - q)
    obtain ⟨s1, b1⟩ := (hg.up_stretch 0 (a := sx - L / 2) (x := 0) (y := sx)
      (by push_cast; ring) (by linarith) hsx.le (by linarith)).2 (upa (by linarith))
    obtain ⟨lap1, lapbv⟩ := lap_from_closest hK hL hq hg 0
    simp only [Nat.cast_zero, zero_mul, add_zero] at lap1 lapbv
    obtain ⟨s2, b2⟩ := uphill_laps hg.per hL.le lapbv m
    obtain ⟨s3, b3⟩ := (hg.dn_stretch m (a := sx + m * L) (x := sx + m * L)
      (y := sx + m * L + dd) rfl le_rfl (by linarith) (by linarith)).1 (dnm (by linarith))
    have eT : (m : ℝ) * L + (sx + (0 + dd)) = sx + m * L + dd := by ring
    refine ⟨by rw [eT]; linarith, ?_⟩
    rw [eT, uphill_add (b := sx + m * L) (by linarith) (by linarith)
        (bv_add hsx.le (by linarith) b1 b2) b3,
      uphill_add (b := sx) hsx.le (by linarith) b1 b2, s1, s2, s3, lap1]
    have e1 : sx + m * L + dd - (sx + m * L) = dd := by ring
    have e2 : sx + m * L - (sx + m * L) = 0 := by ring
    rw [e1, e2, hdr, hdE]; ring
  · rw [if_neg hsx]
    have hsx' : sx ≤ 0 := not_lt.1 hsx
    -- the first stretch `[0, sx + L/2]`: climb away from the nearest image to the box face
    obtain ⟨sA, bA⟩ := (hg.dn_stretch 0 (a := sx) (x := 0) (y := sx + L / 2)
      (by push_cast; ring) hsx' (by linarith) le_rfl).1 (dnm (by linarith))
    have eA1 : sx + L / 2 - sx = L / 2 := by ring
    have eA2 : 0 - sx = -sx := by ring
    rw [eA1, eA2, dnP_half, dnP_at] at sA
    -- downhill from the face to the next closest approach
    obtain ⟨sB, bB⟩ := (hg.up_stretch 1 (a := sx + L / 2) (x := sx + L / 2) (y := sx + L)
      (by push_cast; ring) le_rfl (by linarith) (by linarith)).2 (upa (by linarith))
    by_cases hbig : r ≥ cbPot K (L / 2) q - cbPot K sx q
    · rw [if_pos hbig]
      have hr0' : 0 ≤ r - (cbPot K (L / 2) q - cbPot K sx q) := by linarith
      have hcur : cbPot K sx q ≤ cbPot K (L / 2) q := by
        rw [cbPot_eq_pot, cbPot_eq_pot]
        exact pot_mono_of_neg hK one_pos (by nlinarith [mul_self_nonneg sx]) (by nlinarith)
      have hrc' : r - (cbPot K (L / 2) q - cbPot K sx q) < c := by rw [hc_eq] at hrc ⊢; linarith
      obtain ⟨hd0, hd1, hdr⟩ := closest_climb hK hL hq hr0' hrc'
      set r' := r - (cbPot K (L / 2) q - cbPot K sx q)
      set dd := Real.sqrt ((K / (cbPot K 0 q + r')) * (K / (cbPot K 0 q + r')) - q)
      obtain ⟨lap1, lapbv⟩ := lap_from_closest hK hL hq hg 1
      simp only [Nat.cast_one, one_mul] at lap1 lapbv
      obtain ⟨s2, b2⟩ := uphill_laps hg.per hL.le lapbv m
      obtain ⟨s3, b3⟩ := (hg.dn_stretch (m + 1) (a := sx + L + m * L) (x := sx + L + m * L)
        (y := sx + L + m * L + dd) (by push_cast; ring) le_rfl (by linarith) (by linarith)).1
        (dnm (by linarith))
      have eT : (m : ℝ) * L + (sx + L + (0 + dd)) = sx + L + m * L + dd := by ring
      have bAB := bv_add (by linarith : (0:ℝ) ≤ sx + L / 2) (by linarith : sx + L / 2 ≤ sx + L) bA bB
      refine ⟨by rw [eT]; linarith, ?_⟩
      rw [eT, uphill_add (b := sx + L + m * L) (by linarith) (by linarith)
          (bv_add (by linarith) (by linarith) bAB b2) b3,
        uphill_add (b := sx + L) (by linarith) (by linarith) bAB b2,
        uphill_add (b := sx + L / 2) (by linarith) (by linarith) bA bB, sA, sB, s2, s3, lap1]
      have e1 : sx + L + m * L + dd - (sx + L + m * L) = dd := by ring
      have e2 : sx + L + m * L - (sx + L + m * L) = 0 := by ring
      rw [e1, e2, hdr, hdE]; ring
    · rw [if_neg hbig]
      have hlt : r < cbPot K (L / 2) q - cbPot K sx q := not_le.1 hbig
      have hneg : cbPot K (L / 2) q < 0 := by
        rw [cbPot_eq_pot]; exact pot_neg_of_neg hK (by nlinarith)
      have hlt0 : pot K 1 (sx * sx + q) + r < 0 := by rw [← cbPot_eq_pot]; linarith
      set d0 := sx + Real.sqrt ((K / (cbPot K sx q + r)) * (K / (cbPot K sx q + r)) - q) with hd0def
      have hd : dispAttractive K 1 sx q r = some (0 + d0) := by
        simp only [dispAttractive, if_neg hsx, if_neg (not_le.2 hlt0), rpow_two_div_one, hd0def,
          cbPot_eq_pot]
      obtain ⟨ha, hval, _⟩ := attractive_some hK one_pos hq hr0 hd
      rw [max_eq_right hsx', zero_add] at ha hval
      -- the climb ends before the box face
      have hd1 : d0 < sx + L / 2 := by
        by_contra hge
        have hge' : L / 2 ≤ -sx + d0 := by linarith [not_lt.1 hge]
        have hmm := path_monoOn_of_neg (a := L / 2) (b := -sx + d0) (s := 0) hK one_pos hq
          (by linarith) (left_mem_Icc.2 hge') (right_mem_Icc.2 hge') hge'
        change dnP K q (L / 2) ≤ dnP K q (-sx + d0) at hmm
        rw [dnP_half, dnP_shift] at hmm
        have : path K 1 sx q 0 = cbPot K sx q := by
          unfold path; rw [nsq_zero, cbPot_eq_pot]
        linarith
      -- one lap from the start
      obtain ⟨sC, bC⟩ := (hg.dn_stretch 1 (a := sx + L) (x := sx + L) (y := L)
        (by push_cast; ring) le_rfl (by linarith) (by linarith)).1 (dnm (by linarith))
      have eC1 : L - (sx + L) = -sx := by ring
      have eC2 : sx + L - (sx + L) = 0 := by ring
      rw [eC1, eC2, dnP_at, dnP_zero] at sC
      have bAB := bv_add (by linarith : (0:ℝ) ≤ sx + L / 2) (by linarith : sx + L / 2 ≤ sx + L) bA bB
      have bL : BoundedVariationOn g (Icc 0 (0 + L)) := by
        rw [zero_add]; exact bv_add (by linarith) (by linarith) bAB bC
      have lap0 : uphill g 0 (0 + L) = c := by
        rw [zero_add, uphill_add (b := sx + L) (by linarith) (by linarith) bAB bC,
          uphill_add (b := sx + L / 2) (by linarith) (by linarith) bA bB, sA, sB, sC, hc_eq]
        ring
      obtain ⟨s2, b2⟩ := uphill_laps hg.per hL.le bL m
      rw [zero_add] at s2 b2
      obtain ⟨s3, b3⟩ := (hg.dn_stretch m (a := sx + m * L) (x := m * L) (y := m * L + d0)
        rfl (by linarith) (by linarith) (by linarith)).1 (dnm (by linarith))
      have e1 : (m : ℝ) * L + d0 - (sx + m * L) = -sx + d0 := by ring
      have e2 : (m : ℝ) * L - (sx + m * L) = -sx + 0 := by ring
      rw [e1, e2, dnP_shift, dnP_shift, hval] at s3
      refine ⟨by linarith, ?_⟩
      rw [uphill_add (b := (m : ℝ) * L) hmL (by linarith) b2 b3, s2, s3, lap0, hdE]

/-- **C routine of the periodic `1/r` bound, both signs.** -/
theorem cb_inverts {K L sx q dE : ℝ} {g : ℝ → ℝ} (hK : K ≠ 0) (hL : 0 < L) (hq : 0 < q)
    (hs1 : -(L / 2) ≤ sx) (hs2 : sx ≤ L / 2) (hE : 0 ≤ dE) (hg : MinImage K L sx q g) :
    0 ≤ cbDisplacement K L sx q dE ∧ uphill g 0 (cbDisplacement K L sx q dE) = dE := by
  rcases lt_or_gt_of_ne hK with h | h
  · exact cb_attractive_inverts h hL hq hs1 hs2 hE hg
  · exact cb_repulsive_inverts h hL hq hs1 hs2 hE hg

/-- **The C routine as it is in the tree** (since the repairs `1b03a38`, `22b464f`: the remainder budget `fmod(dE, c)` first, the
number of complete trips as `round((dE - remainder) / c)`, `sqrt(non_negative(…))`): for every sign of the charges product it
inverts the accumulated uphill energy along the minimum-image path.  (`cbPerLap > 0`: the lap climb does not vanish, which
`q > 0` and `L > 0` give: `cbPerLap_pos`.) -/
theorem cb_code_inverts {K L sx q dE : ℝ} {g : ℝ → ℝ} (hK : K ≠ 0) (hL : 0 < L) (hq : 0 < q)
    (hs1 : -(L / 2) ≤ sx) (hs2 : sx ≤ L / 2) (hE : 0 ≤ dE) (hg : MinImage K L sx q g) :
    0 ≤ cbDisplacementCode K L sx q dE ∧ uphill g 0 (cbDisplacementCode K L sx q dE) = dE := by
  have hc : 0 < cbPerLap K L q := by
    rcases lt_or_gt_of_ne hK with h | h
    · exact (cbPerLap_pos_of_neg h hL hq).2
    · exact (cbPerLap_pos_of_pos h hL hq).2
  rw [cbDisplacementCode_eq K L sx q dE hc]
  exact cb_inverts hK hL hq hs1 hs2 hE hg


/-! ## Mexican-hat potentials: the four-way case tree (generic in the radial potential) -/

/-- **Mexican-hat case tree: a returned finite distance inverts the accumulated uphill energy.**
For every radial potential that is decreasing inside and increasing outside its minimum sphere and
whose two inversion methods are the (order-respecting) inverses on the two sides (`Hat.Valid`), every
separation (`q > 0`: not head-on) and every budget `dE ≥ 0`: if `standard_velocity_displacement` returns
the finite distance `d`, then `d ≥ 0` and the positive variation of the energy along `[0, d]` equals the
budget — through all of front/behind × inside/outside, the in-place updates of the separation and the
reach/miss alternative of `_displacement_behind_outside_sphere`. -/
theorem hat_some {H : Hat} {q s dE d : ℝ} (hV : H.Valid q) (hE : 0 ≤ dE)
    (h : H.disp q s dE = some d) : 0 ≤ d ∧ uphill (H.path q s) 0 d = dE := by
  have hn : 0 ≤ s * s + q := by nlinarith [mul_self_nonneg s, hV.q_pos]
  have hsq := Real.mul_self_sqrt hn
  have hs0 := Real.sqrt_nonneg (s * s + q)
  have key : Good (H.path q s) d dE := by
    unfold Hat.disp at h
    split_ifs at h with h1 h2 h3
    · have hout : H.r0 * H.r0 ≤ s * s + q := by nlinarith [hV.r0_pos]
      exact H.frontOutside_good hV h2 hout hE h
    · have hout : H.r0 * H.r0 ≤ s * s + q := by nlinarith [hV.r0_pos]
      exact H.behindOutside_good hV (not_le.1 h2).le hout hE h
    · have hin : s * s + q ≤ H.r0 * H.r0 := by nlinarith [hV.r0_pos, not_le.1 h1]
      exact H.frontInside_good hV h3 hin hE h
    · have hin : s * s + q ≤ H.r0 * H.r0 := by nlinarith [hV.r0_pos, not_le.1 h1]
      exact H.behindInside_good hV (not_le.1 h3).le hin hE h
  exact ⟨key.nonneg, key.val⟩

/-- **Mexican-hat case tree: `inf` exactly when the path never accumulates the budget.** -/
theorem hat_none_iff {H : Hat} {q s dE : ℝ} (hV : H.Valid q) (hE : 0 ≤ dE) :
    H.disp q s dE = none ↔ ∀ d, 0 ≤ d → uphill (H.path q s) 0 d < dE := by
  constructor
  · intro h
    have hn : 0 ≤ s * s + q := by nlinarith [mul_self_nonneg s, hV.q_pos]
    have hsq := Real.mul_self_sqrt hn
    have hs0 := Real.sqrt_nonneg (s * s + q)
    have key : Never (H.path q s) dE := by
      unfold Hat.disp at h
      split_ifs at h with h1 h2 h3
      · have hout : H.r0 * H.r0 ≤ s * s + q := by nlinarith [hV.r0_pos]
        exact H.frontOutside_never hV h2 hout h
      · have hout : H.r0 * H.r0 ≤ s * s + q := by nlinarith [hV.r0_pos]
        exact H.behindOutside_never hV (not_le.1 h2).le hout h
      · have hin : s * s + q ≤ H.r0 * H.r0 := by nlinarith [hV.r0_pos, not_le.1 h1]
        exact H.frontInside_never hV h3 hin h
      · have hin : s * s + q ≤ H.r0 * H.r0 := by nlinarith [hV.r0_pos, not_le.1 h1]
        exact H.behindInside_never hV (not_le.1 h3).le hin h
    exact fun d hd => (key d hd).2
  · intro h
    by_contra hne
    obtain ⟨d, hd⟩ := Option.ne_none_iff_exists'.1 hne
    obtain ⟨h0, h1⟩ := hat_some hV hE hd
    have := h d h0
    linarith

/-- **Displaced even-power potential** `U(r) = k (r - r0)^p`, `p` even: the hypotheses of the case-tree
theorems hold (this is also their non-vacuity witness), hence every returned finite distance inverts
the accumulated uphill energy. -/
theorem evenPower_inverts {k r0 q s dE d : ℝ} {p : ℕ} (hk : 0 < k) (hr0 : 0 < r0)
    (hp : Even p) (hp0 : p ≠ 0) (hq : 0 < q) (hE : 0 ≤ dE)
    (h : (evenPowerHat k r0 p).disp q s dE = some d) :
    0 ≤ d ∧ uphill ((evenPowerHat k r0 p).path q s) 0 d = dE :=
  hat_some (evenPower_valid hk hr0 hp hp0 hq) hE h

/-- a Mexican-hat potential whose outside inversion always returns a value never answers `inf` -/
theorem hat_finite {H : Hat} (hO : ∀ y, (H.invOut y).isSome) (q s dE : ℝ) :
    (H.disp q s dE).isSome := by
  have fo : ∀ s cur dE, (H.frontOutside q s cur dE).isSome := fun s cur dE => by
    simp [Hat.frontOutside, hO]
  have fi : ∀ s dE, (H.frontInside q s dE).isSome := fun s dE => by
    simp [Hat.frontInside, fo]
  have bi : ∀ s cur dE, (H.behindInside q s cur dE).isSome := fun s cur dE => by
    simp only [Hat.behindInside]; split_ifs <;> simp [fi]
  have bo : ∀ s dE, (H.behindOutside q s dE).isSome := fun s dE => by
    simp only [Hat.behindOutside]; split_ifs <;> simp [fo, bi]
  unfold Hat.disp; split_ifs <;> simp [fo, fi, bi, bo]

/-- the even-power potential never answers `inf` (its climb is unbounded) -/
theorem evenPower_finite (k r0 q s dE : ℝ) (p : ℕ) : ((evenPowerHat k r0 p).disp q s dE).isSome :=
  hat_finite (fun y => rfl) q s dE


/-- **Lennard-Jones potential**: the case-tree theorems apply (`lj_valid`): a returned finite distance
inverts the accumulated uphill energy, and the answer is `inf` exactly when the path never accumulates
the budget (escape: current potential + remaining budget `≥ 0`). -/
theorem lj_inverts {k σ q s dE : ℝ} (hk : 0 < k) (hσ : 0 < σ) (hq : 0 < q) (hE : 0 ≤ dE) :
    (∀ d, (ljHat k σ).disp q s dE = some d → 0 ≤ d ∧ uphill ((ljHat k σ).path q s) 0 d = dE) ∧
    ((ljHat k σ).disp q s dE = none ↔ ∀ d, 0 ≤ d → uphill ((ljHat k σ).path q s) 0 d < dE) :=
  ⟨fun d h => hat_some (lj_valid hk hσ hq) hE h, hat_none_iff (lj_valid hk hσ hq) hE⟩


/-- the speed only rescales the returned distance into a time: after the returned time the unit has
moved exactly the distance computed by `standard_velocity_displacement` -/
theorem speed_scaling {d v : ℝ} (hv : 0 < v) : (d / v) * v = d := by
  field_simp

end JF.C02
