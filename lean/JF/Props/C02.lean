import JF.Model.Potential.Displacement
import JF.Lemmas.DisplacementReal
/-!
# C02 — Candidate event distance inverts the cumulative uphill energy exactly

Theorems about the real-number reading (`JF/Lemmas/DisplacementReal.lean`) of the displacement routines
modelled in `JF/Model/Potential/Displacement.lean`.  "Accumulated energy increase" is
`JF.Uphill.uphill f 0 d`, the positive variation of the path energy `f x = U(sep - x·e)` on `[0, d]`.
-/
set_option linter.unusedVariables false
namespace JF.C02
open Set JF.Uphill JF.DispR

/-! ## Inverse power potential, repulsive branch -/

theorem dispRepulsive_eq_some {K p s q dE d : ℝ} (h : dispRepulsive K p s q dE = some d) :
    0 < s ∧ dE < pot K p (0 * 0 + q) - pot K p (s * s + q) ∧
      d = s - Real.sqrt ((K / (pot K p (s * s + q) + dE)) ^ (2 / p) - q) := by
  simp only [dispRepulsive] at h
  split_ifs at h with h1 h2
  · exact ⟨not_le.1 h1, h2, (Option.some.inj h).symm⟩

/-- facts about the radius the code solves for -/
theorem repulsive_radius {K p s q dE : ℝ} (hK : 0 < K) (hp : 0 < p) (hq : 0 < q) (hE : 0 ≤ dE)
    (hs : 0 < s) (h2 : dE < pot K p (0 * 0 + q) - pot K p (s * s + q)) :
    let R2 := (K / (pot K p (s * s + q) + dE)) ^ (2 / p)
    q < R2 ∧ R2 ≤ s * s + q ∧ pot K p R2 = pot K p (s * s + q) + dE := by
  intro R2
  have hn : 0 < s * s + q := by positivity
  have hcur : 0 < pot K p (s * s + q) := pot_pos hK hn
  have hy : 0 < pot K p (s * s + q) + dE := by linarith
  have hKy : 0 < K / (pot K p (s * s + q) + dE) := div_pos hK hy
  refine ⟨?_, ?_, pot_inv hp hKy⟩
  · -- cur + dE < K / q^(p/2)  ⇒  q^(p/2) < K / (cur + dE)
    have hq2 : 0 < q ^ (p / 2) := Real.rpow_pos_of_pos hq _
    have h3 : pot K p (s * s + q) + dE < K / q ^ (p / 2) := by
      have : pot K p (0 * 0 + q) = K / q ^ (p / 2) := by simp [pot]
      rw [this] at h2; linarith
    have h4 : q ^ (p / 2) < K / (pot K p (s * s + q) + dE) := by
      rw [lt_div_iff₀ hy]; rw [lt_div_iff₀ hq2] at h3; linarith
    have h5 := Real.rpow_lt_rpow hq2.le h4 (show 0 < 2 / p by positivity)
    rwa [rpow_two_div hp hq.le] at h5
  · have h4 : K / (pot K p (s * s + q) + dE) ≤ K / pot K p (s * s + q) :=
      div_le_div_of_nonneg_left hK.le hcur (by linarith)
    rw [div_pot hK.ne' hn] at h4
    have h5 := Real.rpow_le_rpow hKy.le h4 (show 0 ≤ 2 / p by positivity)
    rwa [rpow_two_div hp hn.le] at h5

/-- **Inverse power, repulsive: the returned distance inverts the accumulated uphill energy.**
If the routine returns the finite distance `d`, then `0 ≤ d < s`, the potential at the new
separation exceeds the current one by exactly the budget, and the energy accumulated uphill along
`[0, d]` is exactly the budget. -/
theorem repulsive_some {K p s q dE d : ℝ} (hK : 0 < K) (hp : 0 < p) (hq : 0 < q) (hE : 0 ≤ dE)
    (h : dispRepulsive K p s q dE = some d) :
    0 ≤ d ∧ d < s ∧ path K p s q d - path K p s q 0 = dE ∧ uphill (path K p s q) 0 d = dE := by
  obtain ⟨hs, h2, rfl⟩ := dispRepulsive_eq_some h
  obtain ⟨hR1, hR2, hR3⟩ := repulsive_radius hK hp hq hE hs h2
  set R2 := (K / (pot K p (s * s + q) + dE)) ^ (2 / p) with hR
  have hr0 : 0 < R2 - q := by linarith
  have hsq : Real.sqrt (R2 - q) ≤ s := by
    rw [show s = Real.sqrt (s * s) from (Real.sqrt_mul_self hs.le).symm]
    exact Real.sqrt_le_sqrt (by linarith)
  have hpos : 0 < Real.sqrt (R2 - q) := Real.sqrt_pos.2 hr0
  have hd0 : 0 ≤ s - Real.sqrt (R2 - q) := by linarith
  have hval : path K p s q (s - Real.sqrt (R2 - q)) - path K p s q 0 = dE := by
    have e1 : nsq s q (s - Real.sqrt (R2 - q)) = R2 := by
      unfold nsq
      have := Real.mul_self_sqrt hr0.le
      ring_nf; ring_nf at this; linarith
    unfold path; rw [e1, nsq_zero, hR3]; ring
  refine ⟨hd0, by linarith, hval, ?_⟩
  rw [uphill_mono (path_monoOn_of_pos hK hp hq (by linarith)) hd0, hval]

/-- total climb of the path in the repulsive case: up to the closest approach -/
theorem repulsive_uphill_le {K p s q d : ℝ} (hK : 0 < K) (hp : 0 < p) (hq : 0 < q) (hs : 0 < s)
    (hd : 0 ≤ d) : uphill (path K p s q) 0 d ≤ pot K p (0 * 0 + q) - pot K p (s * s + q) := by
  have e0 : path K p s q 0 = pot K p (s * s + q) := by unfold path; rw [nsq_zero]
  have es : path K p s q s = pot K p (0 * 0 + q) := by unfold path; rw [nsq_self]
  rcases le_total d s with hds | hds
  · rw [uphill_mono (path_monoOn_of_pos hK hp hq hds) hd, e0, ← es]
    have := path_monoOn_of_pos (a := 0) hK hp hq (le_refl s) ⟨hd, hds⟩ ⟨hs.le, le_refl s⟩ hds
    linarith
  · rw [uphill_mono_anti hs.le hds (path_monoOn_of_pos hK hp hq le_rfl)
      (path_antiOn_of_pos hK hp hq le_rfl), e0, es]

/-- **Inverse power, repulsive: infinite exactly when the path never accumulates more than the budget.**
(The code compares with `<`: a budget equal to the total climb, reached only *at* the closest
approach where the climb ends, is answered `inf`.) -/
theorem repulsive_none_iff {K p s q dE : ℝ} (hK : 0 < K) (hp : 0 < p) (hq : 0 < q) (hE : 0 ≤ dE) :
    dispRepulsive K p s q dE = none ↔ ∀ d, 0 ≤ d → uphill (path K p s q) 0 d ≤ dE := by
  constructor
  · intro h d hd
    simp only [dispRepulsive] at h
    split_ifs at h with h1 h2
    · -- in front of the target: downhill for ever
      rw [uphill_anti (path_antiOn_of_pos hK hp hq h1) hd]; exact hE
    · exact (repulsive_uphill_le hK hp hq (not_le.1 h1) hd).trans (not_lt.1 h2)
  · intro h
    by_contra hne
    obtain ⟨d, hd⟩ := Option.ne_none_iff_exists'.1 hne
    obtain ⟨hs, h2, _⟩ := dispRepulsive_eq_some hd
    have := h s hs.le
    rw [uphill_mono (path_monoOn_of_pos hK hp hq le_rfl) hs.le] at this
    unfold path at this; rw [nsq_zero, nsq_self] at this
    linarith

/-- non-vacuity: `1/r` repulsion, `s = 3, q = 16` (distance 5 → potential 1/5), budget `1/20`
(the total climb is `1/4 - 1/5 = 1/20`… the budget `1/40` is below it): a finite distance is returned -/
example : ∃ d, dispRepulsive 1 1 3 16 (1/40) = some d := by
  unfold dispRepulsive pot
  have h16 : ((0:ℝ) * 0 + 16) ^ ((1:ℝ) / 2) = 4 := by
    rw [show (0:ℝ) * 0 + 16 = 4 ^ (2:ℝ) by norm_num, ← Real.rpow_mul (by norm_num)]; norm_num
  have h25 : ((3:ℝ) * 3 + 16) ^ ((1:ℝ) / 2) = 5 := by
    rw [show (3:ℝ) * 3 + 16 = 5 ^ (2:ℝ) by norm_num, ← Real.rpow_mul (by norm_num)]; norm_num
  simp only [h16, h25]
  norm_num

/-! ## Inverse power potential, attractive branch -/

theorem dispAttractive_eq_some {K p s q dE d : ℝ} (h : dispAttractive K p s q dE = some d) :
    let cd := if 0 < s then 0 + s else 0
    let s' := if 0 < s then 0 else s
    pot K p (s' * s' + q) + dE < 0 ∧
      d = cd + (s' + Real.sqrt ((K / (pot K p (s' * s' + q) + dE)) ^ (2 / p) - q)) := by
  intro cd s'
  simp only [dispAttractive] at h
  split_ifs at h with h1
  exact ⟨not_le.1 h1, (Option.some.inj h).symm⟩

/-- facts about the radius the code solves for (attractive case), from the position `s'` reached
after the downhill stretch -/
theorem attractive_radius {K p s' q dE : ℝ} (hK : K < 0) (hp : 0 < p) (hq : 0 < q) (hE : 0 ≤ dE)
    (h2 : pot K p (s' * s' + q) + dE < 0) :
    let R2 := (K / (pot K p (s' * s' + q) + dE)) ^ (2 / p)
    s' * s' + q ≤ R2 ∧ pot K p R2 = pot K p (s' * s' + q) + dE := by
  intro R2
  have hn : 0 < s' * s' + q := by nlinarith [mul_self_nonneg s']
  have hcur : pot K p (s' * s' + q) < 0 := pot_neg_of_neg hK hn
  have hKy : 0 < K / (pot K p (s' * s' + q) + dE) := div_pos_of_neg_of_neg hK h2
  refine ⟨?_, pot_inv hp hKy⟩
  have h4 : K / pot K p (s' * s' + q) ≤ K / (pot K p (s' * s' + q) + dE) := by
    rw [← neg_div_neg_eq K (pot K p (s' * s' + q)), ← neg_div_neg_eq K (pot K p (s' * s' + q) + dE)]
    exact div_le_div_of_nonneg_left (by linarith) (by linarith) (by linarith)
  rw [div_pot hK.ne hn] at h4
  have h5 := Real.rpow_le_rpow (Real.rpow_pos_of_pos hn _).le h4 (show 0 ≤ 2 / p by positivity)
  rwa [rpow_two_div hp hn.le] at h5

/-- **Inverse power, attractive: the returned distance inverts the accumulated uphill energy.**
`x₀ = max s 0` is the closest approach (the end of the initial downhill stretch, which accumulates
nothing).  If the routine returns `d`, then `x₀ ≤ d`, the potential at `d` exceeds the one at `x₀` by
exactly the budget, and the energy accumulated uphill along `[0, d]` is exactly the budget. -/
theorem attractive_some {K p s q dE d : ℝ} (hK : K < 0) (hp : 0 < p) (hq : 0 < q) (hE : 0 ≤ dE)
    (h : dispAttractive K p s q dE = some d) :
    max s 0 ≤ d ∧ path K p s q d - path K p s q (max s 0) = dE ∧
      uphill (path K p s q) 0 d = dE := by
  obtain ⟨h2, hd⟩ := dispAttractive_eq_some h
  rcases lt_or_ge 0 s with hs | hs
  · -- behind the target: downhill until the closest approach `x = s`, then uphill
    simp only [hs, if_true] at h2 hd
    obtain ⟨hR1, hR3⟩ := attractive_radius (s' := 0) hK hp hq hE h2
    set R2 := (K / (pot K p (0 * 0 + q) + dE)) ^ (2 / p) with hR
    have hr0 : 0 ≤ R2 - q := by linarith
    have hsq := Real.sqrt_nonneg (R2 - q)
    rw [max_eq_left hs.le]
    have hds : s ≤ d := by rw [hd]; linarith
    have hval : path K p s q d - path K p s q s = dE := by
      have e1 : nsq s q d = R2 := by
        unfold nsq; rw [hd]
        have := Real.mul_self_sqrt hr0
        ring_nf; ring_nf at this; linarith
      unfold path; rw [e1, nsq_self, hR3]; ring
    refine ⟨hds, hval, ?_⟩
    rw [uphill_anti_mono hs.le hds (path_antiOn_of_neg hK hp hq le_rfl)
      (path_monoOn_of_neg hK hp hq le_rfl), hval]
  · -- in front of the target: uphill from the start
    have hs' : ¬ 0 < s := not_lt.2 hs
    simp only [hs', if_false] at h2 hd
    obtain ⟨hR1, hR3⟩ := attractive_radius (s' := s) hK hp hq hE h2
    set R2 := (K / (pot K p (s * s + q) + dE)) ^ (2 / p) with hR
    have hr0 : 0 ≤ R2 - q := by nlinarith [mul_self_nonneg s]
    have hsq : -s ≤ Real.sqrt (R2 - q) := by
      rw [show -s = Real.sqrt ((-s) * (-s)) from (Real.sqrt_mul_self (by linarith)).symm]
      exact Real.sqrt_le_sqrt (by nlinarith)
    rw [max_eq_right hs]
    have hd0 : 0 ≤ d := by rw [hd]; linarith
    have hval : path K p s q d - path K p s q 0 = dE := by
      have e1 : nsq s q d = R2 := by
        unfold nsq; rw [hd]
        have := Real.mul_self_sqrt hr0
        ring_nf; ring_nf at this; linarith
      unfold path; rw [e1, nsq_zero, hR3]; ring
    refine ⟨hd0, hval, ?_⟩
    rw [uphill_mono (path_monoOn_of_neg hK hp hq hs) hd0, hval]

/-- **Inverse power, attractive: infinite exactly when the path never accumulates the budget.** -/
theorem attractive_none_iff {K p s q dE : ℝ} (hK : K < 0) (hp : 0 < p) (hq : 0 < q) (hE : 0 < dE) :
    dispAttractive K p s q dE = none ↔ ∀ d, 0 ≤ d → uphill (path K p s q) 0 d < dE := by
  constructor
  · intro h d hd
    simp only [dispAttractive] at h
    have hneg : ∀ x, path K p s q x < 0 := fun x => pot_neg_of_neg hK (nsq_pos hq)
    rcases lt_or_ge 0 s with hs | hs
    · simp only [hs, if_true] at h
      split_ifs at h with h1
      rcases le_total d s with hds | hds
      · rw [uphill_anti (path_antiOn_of_neg hK hp hq hds) hd]; exact hE
      · rw [uphill_anti_mono hs.le hds (path_antiOn_of_neg hK hp hq le_rfl)
          (path_monoOn_of_neg hK hp hq le_rfl)]
        have e : path K p s q s = pot K p (0 * 0 + q) := by unfold path; rw [nsq_self]
        have := hneg d
        rw [e]; linarith
    · have hs' : ¬ 0 < s := not_lt.2 hs
      simp only [hs', if_false] at h
      split_ifs at h with h1
      rw [uphill_mono (path_monoOn_of_neg hK hp hq hs) hd]
      have e : path K p s q 0 = pot K p (s * s + q) := by unfold path; rw [nsq_zero]
      have := hneg d
      rw [e]; linarith
  · intro h
    by_contra hne
    obtain ⟨d, hd⟩ := Option.ne_none_iff_exists'.1 hne
    obtain ⟨h1, _, h3⟩ := attractive_some hK hp hq hE.le hd
    have hd0 : 0 ≤ d := (le_max_right s 0).trans h1
    have := h d hd0
    linarith

/-- non-vacuity: `-1/r` attraction from `s = 3, q = 16` (behind the target), budget `1/8 < 1/4`:
a finite distance is returned -/
example : ∃ d, dispAttractive (-1) 1 3 16 (1/8) = some d := by
  unfold dispAttractive pot
  have h16 : ((0:ℝ) * 0 + 16) ^ ((1:ℝ) / 2) = 4 := by
    rw [show (0:ℝ) * 0 + 16 = 4 ^ (2:ℝ) by norm_num, ← Real.rpow_mul (by norm_num)]; norm_num
  simp only [show (0:ℝ) < 3 by norm_num, if_true, h16]
  norm_num

/-- non-vacuity of the infinite outcome: the same start with the budget `1/2 > 1/4` escapes -/
example : dispAttractive (-1) 1 3 16 (1/2) = none := by
  unfold dispAttractive pot
  have h16 : ((0:ℝ) * 0 + 16) ^ ((1:ℝ) / 2) = 4 := by
    rw [show (0:ℝ) * 0 + 16 = 4 ^ (2:ℝ) by norm_num, ← Real.rpow_mul (by norm_num)]; norm_num
  simp only [show (0:ℝ) < 3 by norm_num, if_true, h16]
  norm_num

/-- **Inverse power potential, both signs** (`standard_velocity_displacement`): a returned finite
distance is non-negative and the uphill energy accumulated along it equals the budget. -/
theorem invPow_some {K p s q dE d : ℝ} (hK : K ≠ 0) (hp : 0 < p) (hq : 0 < q) (hE : 0 ≤ dE)
    (h : dispInvPow K p s q dE = some d) : 0 ≤ d ∧ uphill (path K p s q) 0 d = dE := by
  unfold dispInvPow at h
  split_ifs at h with h1
  · obtain ⟨a, _, _, b⟩ := repulsive_some h1 hp hq hE h; exact ⟨a, b⟩
  · have hK' : K < 0 := lt_of_le_of_ne (not_lt.1 h1) hK
    obtain ⟨a, _, b⟩ := attractive_some hK' hp hq hE h
    exact ⟨(le_max_right s 0).trans a, b⟩

/-- **Inverse power potential, both signs**: the routine answers `inf` exactly when the path never
accumulates more than the budget (repulsive, `≤` as the code compares) / never reaches it (attractive). -/
theorem invPow_none_iff {K p s q dE : ℝ} (hK : K ≠ 0) (hp : 0 < p) (hq : 0 < q) (hE : 0 < dE) :
    dispInvPow K p s q dE = none ↔
      if K > 0 then ∀ d, 0 ≤ d → uphill (path K p s q) 0 d ≤ dE
      else ∀ d, 0 ≤ d → uphill (path K p s q) 0 d < dE := by
  unfold dispInvPow
  split_ifs with h1
  · exact repulsive_none_iff h1 hp hq hE.le
  · exact attractive_none_iff (lt_of_le_of_ne (not_lt.1 h1) hK) hp hq hE


end JF.C02
