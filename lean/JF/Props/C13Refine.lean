import JF.Lemmas.StoreRefine
import JF.Lemmas.StoreRefineCor
import JF.Props.C13
/-!
# C13 as ONE refinement theorem: the reference-level store refines a pure value map

* Reference-level model: `JF/Model/Store.lean` (`Sess`, `Op`, `step`, `run`: explicit heap, references,
  copies) of `TreeStateHandler` / `TreePhysicalState` / `TreeLiftingState`.
* Specification: `JF/Lemmas/StoreRefineSpec.lean` (`Spec`, `Spec.step`, `Spec.run`: **no heap, no
  reference**; the global state is a map identifier ↦ values, a held branch is a list of values).
* Abstraction map `abs : Sess α → Spec α`: read every reference through the heap.

`refines_functional`: after any history (`C13.Reach`), for every further operation list that obeys the
discipline, `abs ∘ run = Spec.run ∘ abs` and the traces of outcome tokens (including the error
outcomes) are equal.  So whatever a client observes of the store is what it would observe of the
value map.  The C13 statements then are facts about the value map (where they are almost definitional)
carried over by this one theorem: `isolation`, `insert_readback`, `between_commits`,
`active_extraction`.

## What `Spec.Disciplined` excludes, and why it has to

`Spec.Disciplined S op` constrains only the three **in-place** mutations
`unit.position[i] = x` (`setPos`), `unit.velocity[i] = x` (`setVel`), `unit.time_stamp.update(..)`
(`tsUpdate`): the held branch `b` they go through must not carry the ghost flag `false`
(`disciplined_iff`: on the reference level, `s.live[b]? = some L → L.iso = true`).  The flag is `false`
exactly for
  (a) the branches handed out by `extract_global_state` (`Op.global`), and
  (b) the branches that have been handed to `insert_into_global_state` (`Op.insert`) since their
      extraction.
Everything else is allowed: extractions, commits (of any held branch, also of alias branches, also
repeatedly), the three re-binding mutations (`unit.position = [..]`, `unit.velocity = [..] / None`,
`unit.time_stamp = Time(..) / None`) through *any* held branch, in-place mutations through isolated
branches, and every call that ends in an exception.

The exclusion is necessary (`undisciplined_global_differs`, `undisciplined_inserted_differs`), because
in cases (a) and (b) the real code shares mutable objects between the client's branch and the global
state, which no map of values can express:
  (a) `TreeStateHandler.extract_global_state` calls `_construct_cnode_with_all_children_cnodes` with the
      default `copy_method = lambda object_to_copy: object_to_copy`: the `Unit`/`Node` wrappers are new,
      but `position`, `velocity` and `time_stamp` are **the stored list / `Time` objects themselves**
      ("When constructing the units, the positions, velocities, and time stamps are not copied.");
  (b) `insert_into_global_state` does `self._physical_state.set(identifier, cnode.value.position)`
      (`node.value.position = position`) and `self._lifting_state.set(identifier, velocity, time_stamp)`
      (`self._lifting_dictionary[identifier] = (velocity, time_stamp)`): it **stores the references** of
      the client's objects, so after the commit the client's branch aliases the global state.
Only `extract_from_global_state` / `extract_active_global_state` copy (`copy(position)`,
`copy(velocity)`, `copy(time_stamp)`).  The property C13 speaks of in-states (extracted copies) up to
their commit; that is the discipline.
-/
set_option linter.unusedSimpArgs false
namespace JF.C13Refine
open JF JF.Store JF.C13

variable {α : Type}

/-! ## the refinement theorem -/

/-- the trace of outcome tokens of a history on the reference-level model -/
def outcomes (s : Sess α) : List (Op α) → List Outcome
  | [] => []
  | op :: ops => (step s op).2 :: outcomes (step s op).1 ops

/-- in every reachable state the two sets of lifted identifiers are determined by the lifting dictionary
(the second simulation invariant, next to C13's `Inv`) -/
theorem reach_mirror {s : Sess α} (hr : Reach s) : LiftMirror s.g.lift := by
  obtain ⟨_, o, levels, perRoot, roots, ops, rfl⟩ := hr
  exact liftMirror_run (liftMirror_init o levels perRoot roots) ops

theorem reach_run {s : Sess α} (hr : Reach s) (ops : List (Op α)) : Reach (run s ops) := by
  induction ops generalizing s with
  | nil => exact hr
  | cons op ops ih => exact ih (reach_step hr op)

/-- what the discipline says on the reference level: an in-place mutation goes through a live branch
that was extracted (`extract_from_global_state` / `extract_active_global_state`) and not handed to
`insert_into_global_state` since — or through no live branch at all (client error, nothing happens) -/
theorem disciplined_iff (s : Sess α) (op : Op α) :
    Spec.Disciplined (abs s) op ↔ ∀ b, op.inPlace = some b → ∀ L, s.live[b]? = some L → L.iso = true := by
  simp only [Spec.Disciplined]
  cases op.inPlace with
  | none => simp
  | some b =>
    simp only [Store.abs, List.getElem?_map, Option.map_map, Option.some.injEq, forall_eq']
    cases s.live[b]? with
    | none => simp
    | some L => cases h : L.iso <;> simp [h]

/-- **One step.**  In a reachable state every client operation that obeys the discipline commutes with
the abstraction map and yields the same outcome token (`none`, or the exception raised). -/
theorem refines_step {s : Sess α} (hr : Reach s) (op : Op α) (hd : Spec.Disciplined (abs s) op) :
    abs (step s op).1 = (Spec.step (abs s) op).1 ∧ (step s op).2 = (Spec.step (abs s) op).2 := by
  rw [step_refines (reach_inv hr) (reach_mirror hr) op hd]
  exact ⟨rfl, rfl⟩

/-- **refines_functional.**  After any history `s0` (any tree, any settings, any earlier operations,
disciplined or not), for every operation list that obeys the discipline: running the reference-level
store and reading the result through the heap is running the purely functional specification on the
values, and the two traces of outcome tokens are equal. -/
theorem refines_functional {s0 : Sess α} (hr : Reach s0) (ops : List (Op α))
    (hd : Spec.DisciplinedRun (abs s0) ops) :
    abs (run s0 ops) = (Spec.run (abs s0) ops).1 ∧ outcomes s0 ops = (Spec.run (abs s0) ops).2 := by
  induction ops generalizing s0 with
  | nil => exact ⟨rfl, rfl⟩
  | cons op ops ih =>
    obtain ⟨h1, h2⟩ := refines_step hr op hd.1
    have hd2 : Spec.DisciplinedRun (abs (step s0 op).1) ops := by rw [h1]; exact hd.2
    obtain ⟨i1, i2⟩ := ih (reach_step hr op) hd2
    simp only [run, outcomes, Spec.run]
    rw [i1, i2, h1, h2]
    exact ⟨rfl, rfl⟩

/-! ### the observables of the reference-level store are functions of `abs` -/

/-- the identifier-indexed value of the global state (C13's `readAt`) -/
theorem readAt_abs (s : Sess α) (id : Ident) : readAt s.g s.h id = Spec.unitAt (abs s).g id :=
  (unitAt_absG s.g s.h id).symm

/-- the snapshot `extract_global_state` shows (C13's `readGlobal`) -/
theorem readGlobal_abs (s : Sess α) : readGlobal s.g s.h = Spec.snapshot (abs s).g := by
  rw [readGlobal_eq]
  simp [Spec.snapshot, Store.abs, absG]

/-- the values read through the live branches -/
theorem held_abs (s : Sess α) (j : Nat) :
    (abs s).held[j]? = (s.live[j]?).map fun L => (readBranch s.h L.b, L.iso) := by
  simp [Store.abs]

/-! ## the exclusion is necessary -/

section necessity

/-- two dipoles in one dimension (C13's example tree) -/
abbrev tree : Sess ℚ := C13.exInit

/-- the position a unit value shows -/
def posOf (v : UVal ℚ) : List ℚ := match v.pos with | some (.vec l) => l | _ => []

/-- the positions the global part of a specification state shows, per root: root, then children -/
def globalPos (S : Spec ℚ) : List (List (List ℚ)) := (Spec.snapshot S.g).map (·.map posOf)

/-- (a) `extract_global_state`, then `unit.position[0] = 7` through leaf `(0,0)` of the branch it handed out -/
def badGlobal : List (Op ℚ) := [.global, .setPos 0 1 0 7]

/-- (b) extract leaf `(0,1)`, commit it, then `unit.position[0] = 7` through the committed branch -/
def badInserted : List (Op ℚ) := [.extract [0, 1], .insert [(0, 0)], .setPos 0 1 0 7]

example : ¬ Spec.DisciplinedRun (abs tree) badGlobal := by decide +kernel
example : ¬ Spec.DisciplinedRun (abs tree) badInserted := by decide +kernel

/-- **Necessity (a).**  `extract_global_state` hands out the stored position / velocity / time-stamp
objects themselves (`copy_method` is the identity).  Mutating one in place changes the global state of
the reference-level model (as it does in the real `TreeStateHandler`): leaf `(0,0)` is at `7`
afterwards.  In the value map only the held value changes: the leaf stays at `0`.  So without the
discipline `abs ∘ run ≠ Spec.run ∘ abs`, although all outcome tokens agree. -/
theorem undisciplined_global_differs :
    globalPos (abs (run tree badGlobal)) = [[[5], [7], [1]], [[6], [2], [3]]] ∧
    globalPos (Spec.run (abs tree) badGlobal).1 = [[[5], [0], [1]], [[6], [2], [3]]] ∧
    abs (run tree badGlobal) ≠ (Spec.run (abs tree) badGlobal).1 ∧
    outcomes tree badGlobal = (Spec.run (abs tree) badGlobal).2 := by
  have h1 : globalPos (abs (run tree badGlobal)) = [[[5], [7], [1]], [[6], [2], [3]]] := by decide +kernel
  have h2 : globalPos (Spec.run (abs tree) badGlobal).1 = [[[5], [0], [1]], [[6], [2], [3]]] := by decide +kernel
  refine ⟨h1, h2, fun h => ?_, by decide +kernel⟩
  rw [h, h2] at h1
  revert h1
  decide +kernel

/-- **Necessity (b).**  `insert_into_global_state` stores the references of the committed objects
(`node.value.position = position`), so the committed branch aliases the global state afterwards:
mutating it in place moves leaf `(0,1)` of the global state to `7` in the reference-level model (and in
the real code), not in the value map. -/
theorem undisciplined_inserted_differs :
    globalPos (abs (run tree badInserted)) = [[[5], [0], [7]], [[6], [2], [3]]] ∧
    globalPos (Spec.run (abs tree) badInserted).1 = [[[5], [0], [1]], [[6], [2], [3]]] ∧
    abs (run tree badInserted) ≠ (Spec.run (abs tree) badInserted).1 := by
  have h1 : globalPos (abs (run tree badInserted)) = [[[5], [0], [7]], [[6], [2], [3]]] := by decide +kernel
  have h2 : globalPos (Spec.run (abs tree) badInserted).1 = [[[5], [0], [1]], [[6], [2], [3]]] := by decide +kernel
  refine ⟨h1, h2, fun h => ?_⟩
  rw [h, h2] at h1
  revert h1
  decide +kernel

/-- the difference is observable by the client through the interface alone: a later extraction of
the leaf reads `7` from the store and `0` from the value map -/
example :
    ((abs (run tree (badGlobal ++ [.extract [0, 0]]))).held.getLast?.map fun L => L.1.map posOf) = some [[5], [7]] ∧
    ((Spec.run (abs tree) (badGlobal ++ [.extract [0, 0]])).1.held.getLast?.map fun L => L.1.map posOf) = some [[5], [0]] := by
  decide +kernel

/-- re-binding mutations through the same alias branch are harmless (and allowed by the discipline) -/
example : Spec.DisciplinedRun (abs tree) [.global, .newPos 0 1 [7], .newVel 0 0 (some [1]), .newTs 0 0 none] := by
  decide +kernel

end necessity

/-! ## Corollary 1 — isolation -/

/-- **Isolation, on the specification.**  A mutation through held branch `b` changes that held value
only: the global part, the number of held branches, every ghost flag and every other held branch are
unchanged (`Spec.AgreeOff b`). -/
theorem spec_isolation (S : Spec α) {op : Op α} {b : Nat} (ht : op.target = some b) :
    (Spec.step S op).1.g = S.g ∧ (∀ j : Nat, j ≠ b → (Spec.step S op).1.held[j]? = S.held[j]?) ∧
    Spec.AgreeOff b (Spec.step S op).1 S :=
  let A := Spec.step_mutation_agreeOff S ht
  ⟨A.g, A.other, A⟩

/-- … hence every later observable of a history that does not hand branch `b` to `insert` is
unchanged: the final global part, every other held branch, and every outcome token (except those of
further mutations of `b` itself, which may of course depend on the value of `b`). -/
theorem spec_isolation_later {b : Nat} {S S' : Spec α} (A : Spec.AgreeOff b S S') (ops : List (Op α))
    (hni : ∀ op ∈ ops, ¬ op.Inserts b) :
    (Spec.run S ops).1.g = (Spec.run S' ops).1.g ∧
    (∀ j : Nat, j ≠ b → (Spec.run S ops).1.held[j]? = (Spec.run S' ops).1.held[j]?) ∧
    ∀ (k : Nat) (op : Op α), ops[k]? = some op → op.target ≠ some b →
      (Spec.run S ops).2[k]? = (Spec.run S' ops).2[k]? :=
  let R := Spec.run_agreeOff ops A hni
  ⟨R.1.g, R.1.other, R.2⟩

/-- **Isolation, on the reference-level store.**  After any history, let `op` be a mutation (in place
or re-binding) of a position, velocity or time stamp through live branch `b`, obeying the discipline
(for an in-place mutation: `b` was extracted and not yet inserted).  Compare the futures with and
without `op` under any disciplined history `ops` that does not hand `b` to `insert`: the global state
reads the same (`readAt_abs`, `readGlobal_abs`), every other live branch reads the same (`held_abs`),
and every outcome token is the same, except those of further mutations of `b` itself. -/
theorem isolation {s : Sess α} (hr : Reach s) (op : Op α) {b : Nat} (ht : op.target = some b)
    (hd : Spec.Disciplined (abs s) op) (ops : List (Op α)) (hni : ∀ o ∈ ops, ¬ o.Inserts b)
    (hds : Spec.DisciplinedRun (abs s) ops) :
    (abs (run (step s op).1 ops)).g = (abs (run s ops)).g ∧
    (∀ j : Nat, j ≠ b → (abs (run (step s op).1 ops)).held[j]? = (abs (run s ops)).held[j]?) ∧
    ∀ (k : Nat) (o : Op α), ops[k]? = some o → o.target ≠ some b →
      (outcomes (step s op).1 ops)[k]? = (outcomes s ops)[k]? := by
  have r1 := (refines_step hr op hd).1
  have A := Spec.step_mutation_agreeOff (abs s) ht
  have hds' : Spec.DisciplinedRun (abs (step s op).1) ops := by
    rw [r1]; exact (Spec.disciplinedRun_agreeOff ops A hni).2 hds
  obtain ⟨f1, t1⟩ := refines_functional (reach_step hr op) ops hds'
  obtain ⟨f2, t2⟩ := refines_functional hr ops hds
  rw [f1, f2, t1, t2, r1]
  exact spec_isolation_later A ops hni

/-! ## Corollary 2 — insert read-back -/

/-- **Insert read-back, on the specification.**  After a successful `insert` of the held branches
`bs` (as values): every identifier that does not occur in `bs` reads what it read before; the
identifier of every committed unit `u` (the last one, should an identifier occur twice) reads exactly
the committed position, velocity and time stamp (`Spec.over u o`: charge and weight stay those of the
node `o`), and extracting that identifier succeeds and hands out a branch containing exactly that. -/
theorem spec_insert_readback {S : Spec α} {sel : List (Nat × Nat)} {bs : List (List (UVal α))}
    (hp : sel.mapM (Spec.pick S.held) = some bs) (hok : (Spec.step S (.insert sel)).2 = none) :
    (∀ id, (∀ w ∈ bs.flatten, w.id ≠ id) →
      Spec.unitAt (Spec.step S (.insert sel)).1.g id = Spec.unitAt S.g id) ∧
    (∀ pre u post, bs.flatten = pre ++ u :: post → (∀ w ∈ post, w.id ≠ u.id) →
      ∃ o us, Spec.unitAt S.g u.id = some o ∧
        Spec.unitAt (Spec.step S (.insert sel)).1.g u.id = some (Spec.over u o) ∧
        Spec.step (Spec.step S (.insert sel)).1 (.extract u.id) =
          (⟨(Spec.step S (.insert sel)).1.g, (Spec.step S (.insert sel)).1.held ++ [(us, true)]⟩, none) ∧
        Spec.over u o ∈ us ∧ us = Spec.branch (Spec.step S (.insert sel)).1.g u.id) := by
  simp only [Spec.step, hp] at hok ⊢
  have hins : Spec.insertUnits S.g bs.flatten = ((Spec.insertUnits S.g bs.flatten).1, none) := by
    rw [← hok]
  refine ⟨fun id hn => Spec.unitAt_insertUnits_other hins hn, ?_⟩
  intro pre u post hsplit hn
  rw [hsplit] at hins
  obtain ⟨o, ho, hnew⟩ := Spec.unitAt_insertUnits_last hins hn
  rw [← hsplit] at hnew
  have hs : (Spec.unitAt (Spec.insertUnits S.g bs.flatten).1 u.id).isSome = true := by rw [hnew]; rfl
  have hex := Spec.extract_ok_of_isSome hs
  obtain ⟨_, v, hv, hmem⟩ := Spec.extract_reads hex
  rw [hnew, Option.some.injEq] at hv
  subst hv
  exact ⟨o, _, ho, hnew, by simp only [hex], hmem, rfl⟩

/-- **Insert read-back, on the reference-level store.**  After any history, a successful
`insert_into_global_state` of live branches whose *values* (read through the heap) are `bs`: afterwards
the global state reads, under the identifier of every committed unit, exactly the committed values,
extracting that identifier succeeds and the new live branch contains exactly these values; every
identifier not in `bs` reads what it read before. -/
theorem insert_readback {s : Sess α} (hr : Reach s) {sel : List (Nat × Nat)} {bs : List (List (UVal α))}
    (hp : sel.mapM (Spec.pick (abs s).held) = some bs) (hok : (step s (.insert sel)).2 = none) :
    (∀ id, (∀ w ∈ bs.flatten, w.id ≠ id) →
      readAt (step s (.insert sel)).1.g (step s (.insert sel)).1.h id = readAt s.g s.h id) ∧
    (∀ pre u post, bs.flatten = pre ++ u :: post → (∀ w ∈ post, w.id ≠ u.id) →
      ∃ o us, readAt s.g s.h u.id = some o ∧
        readAt (step s (.insert sel)).1.g (step s (.insert sel)).1.h u.id = some (Spec.over u o) ∧
        (step (step s (.insert sel)).1 (.extract u.id)).2 = none ∧
        (abs (step (step s (.insert sel)).1 (.extract u.id)).1).held =
          (abs (step s (.insert sel)).1).held ++ [(us, true)] ∧
        Spec.over u o ∈ us) := by
  obtain ⟨r1, r2⟩ := refines_step hr (.insert sel) (Spec.disciplined_of_not_inPlace _ rfl)
  rw [r2] at hok
  obtain ⟨c1, c2⟩ := spec_insert_readback hp hok
  simp only [readAt_abs, r1]
  refine ⟨c1, ?_⟩
  intro pre u post hsplit hn
  obtain ⟨o, us, ho, hnew, hstep, hmem, _⟩ := c2 pre u post hsplit hn
  obtain ⟨e1, e2⟩ := refines_step (reach_step hr (.insert sel)) (.extract u.id) (Spec.disciplined_of_not_inPlace _ rfl)
  rw [r1, hstep] at e1 e2
  exact ⟨o, us, ho, hnew, e2, by rw [e1], hmem⟩

/-! ## Corollary 3 — between two commits the global state does not change -/

/-- **On the specification**: every operation other than `insert` leaves the global part unchanged;
hence so does every history without `insert`. -/
theorem spec_between_commits (S : Spec α) (ops : List (Op α)) (hni : ∀ op ∈ ops, op.isInsert = false) :
    (Spec.run S ops).1.g = S.g := Spec.run_g_of_no_insert ops S hni

theorem spec_step_only_insert_changes_g (S : Spec α) (op : Op α) (hi : op.isInsert = false) :
    (Spec.step S op).1.g = S.g := Spec.step_g_of_not_insert S op hi

/-- **On the reference-level store**: after any history, a disciplined history without `insert`
leaves the global state as it reads: every identifier (`readAt`) and the snapshot of
`extract_global_state` (`readGlobal`). -/
theorem between_commits {s : Sess α} (hr : Reach s) (ops : List (Op α)) (hni : ∀ op ∈ ops, op.isInsert = false)
    (hd : Spec.DisciplinedRun (abs s) ops) :
    (abs (run s ops)).g = (abs s).g ∧
    (∀ id, readAt (run s ops).g (run s ops).h id = readAt s.g s.h id) ∧
    readGlobal (run s ops).g (run s ops).h = readGlobal s.g s.h := by
  have hg : (abs (run s ops)).g = (abs s).g := by
    rw [(refines_functional hr ops hd).1]; exact spec_between_commits _ ops hni
  exact ⟨hg, fun id => by rw [readAt_abs, readAt_abs, hg], by rw [readGlobal_abs, readGlobal_abs, hg]⟩

/-! ## Corollary 4 — active extraction = the independent active units -/

/-- **On the specification**: a successful `extract_active_global_state` leaves the global part
unchanged and hands out, flagged as isolated copies, exactly the branches `Spec.branch g id` (current
values) of the independent active identifiers `Spec.independent g` (sorted by key).  Which identifiers
these are: `Spec.mem_independent` (two levels: an active composite object itself if all its point
masses are active, otherwise its active point masses), `Spec.mem_independent_one` (one level: every
active unit). -/
theorem spec_active {S : Spec α} (hok : (Spec.step S .active).2 = none) :
    (Spec.step S .active).1.g = S.g ∧
    ∃ sorted : List (List (UVal α)), sorted.Perm ((Spec.independent S.g).map (Spec.branch S.g)) ∧
      sorted = ((Spec.independent S.g).map (Spec.branch S.g)).mergeSort (fun a b => lexLe (Spec.key a) (Spec.key b)) ∧
      (Spec.step S .active).1.held = S.held ++ sorted.map (·, true) := by
  simp only [Spec.step] at hok ⊢
  cases h : (Spec.independent S.g).mapM (Spec.extract S.g) with
  | error e => simp [h] at hok
  | ok bs =>
    rw [Spec.mapM_extract_ok h]
    exact ⟨rfl, _, List.mergeSort_perm _ _, rfl, rfl⟩

/-- the rule itself, restated here: two levels -/
theorem spec_active_rule {g : Spec.Global α} (hlv : g.levels = 2) (id : Ident) :
    id ∈ Spec.independent g ↔ ∃ r, Spec.active g [r] ∧
      ((id = [r] ∧ ∀ i, i < g.perRoot → Spec.active g [r, i]) ∨
       ((¬ ∀ i, i < g.perRoot → Spec.active g [r, i]) ∧ ∃ i, i < g.perRoot ∧ id = [r, i] ∧ Spec.active g [r, i])) :=
  Spec.mem_independent hlv id

/-- one level -/
theorem spec_active_rule_one_level {g : Spec.Global α} (h1 : g.levels = 1) (id : Ident) :
    id ∈ Spec.independent g ↔ Spec.active g id := Spec.mem_independent_one h1 id

/-- **On the reference-level store**: after any history, a successful `extract_active_global_state`
does not change what the global state reads, and the new live branches read (through the heap) exactly
the current values of the branches of the independent active identifiers of the lifting state — which
are those of the specification (`Spec.independent (abs s).g`, characterised by `spec_active_rule`). -/
theorem active_extraction {s : Sess α} (hr : Reach s) (hok : (step s .active).2 = none) :
    (abs (step s .active).1).g = (abs s).g ∧
    Spec.independent (abs s).g = s.g.lift.independent ∧
    ∃ sorted : List (List (UVal α)),
      sorted.Perm (s.g.lift.independent.map (Spec.branch (abs s).g)) ∧
      (abs (step s .active).1).held = (abs s).held ++ sorted.map (·, true) := by
  obtain ⟨r1, r2⟩ := refines_step hr .active (Spec.disciplined_of_not_inPlace _ rfl)
  rw [r2] at hok
  obtain ⟨hg, sorted, hperm, _, hheld⟩ := spec_active hok
  have hind : Spec.independent (abs s).g = s.g.lift.independent := independent_absG s.g s.h (reach_mirror hr)
  rw [r1]
  exact ⟨hg, hind, sorted, hind ▸ hperm, hheld⟩

/-! ## Non-vacuity: both sides evaluated on a concrete two-level tree -/

section examples

deriving instance DecidableEq for JF.Store.Obj
deriving instance DecidableEq for JF.Store.UVal
deriving instance DecidableEq for JF.Store.Spec.Node
deriving instance DecidableEq for JF.Store.Spec.Global
deriving instance DecidableEq for JF.Store.Spec

/-- A disciplined history on the two-dipole tree, 13 operations: extract leaf `(0,1)` (branch 0: root 0
and the leaf); give leaf and root a velocity and a time stamp; move the leaf in place; commit; extract
the active part (branch 1); extract the whole of root 0 (branch 2); `extract_global_state` (branches 3,
4); an extraction that raises `IndexError`; an in-place time-stamp update through the isolated
branch 2; a client error (no branch 9); an in-place velocity write to a unit without velocity
(`TypeError`). -/
def goodOps : List (Op ℚ) :=
  [.extract [0, 1], .newVel 0 1 (some [1]), .newTs 0 1 (some (0, 4)), .newVel 0 0 (some [8]),
   .newTs 0 0 (some (0, 4)), .setPos 0 1 0 7, .insert [(0, 0)], .active, .extract [0], .global,
   .extract [2], .tsUpdate 2 0 3 0, .setPos 9 0 0 1, .setVel 2 1 0 5]

theorem tree_reach : Reach tree := ⟨inferInstance, Ops.rat, 2, 2, _, [], rfl⟩

/-- the hypothesis of `refines_functional` is met … -/
theorem goodOps_disciplined : Spec.DisciplinedRun (abs tree) goodOps := by decide +kernel

/-- … and both sides of its conclusion, evaluated independently, agree: the final states … -/
example : abs (run tree goodOps) = (Spec.run (abs tree) goodOps).1 := by decide +kernel

/-- … and the traces, which are not trivial -/
example : outcomes tree goodOps =
      [none, none, none, none, none, none, none, none, none, none, some .index, none, some .key, some .type] ∧
    (Spec.run (abs tree) goodOps).2 =
      [none, none, none, none, none, none, none, none, none, none, some .index, none, some .key, some .type] := by
  decide +kernel

/-- the final state is not trivial either: the commit moved leaf `(0,1)` to `7`, five branches are
held, the active extraction handed out the leaf's branch `[(0,), (0,1)]` -/
example : globalPos (abs (run tree goodOps)) = [[[5], [0], [7]], [[6], [2], [3]]] ∧
    (abs (run tree goodOps)).held.map (fun L => (L.1.map (·.id), L.2)) =
      [([[0], [0, 1]], false), ([[0], [0, 1]], true), ([[0], [0, 0], [0, 1]], true),
       ([[0], [0, 0], [0, 1]], false), ([[1], [1, 0], [1, 1]], false)] := by
  decide +kernel

/-- the same, by the theorem -/
example : abs (run tree goodOps) = (Spec.run (abs tree) goodOps).1 :=
  (refines_functional tree_reach goodOps goodOps_disciplined).1

/-- a reachable state with history: after the commit and the extractions (first ten operations) -/
def mid : Sess ℚ := run tree (goodOps.take 10)

theorem mid_reach : Reach mid := reach_run tree_reach _

/-- `isolation`: branch 2 of `mid` is an isolated copy of the whole composite object 0; an in-place
mutation through it obeys the discipline and succeeds; a later history that commits *another* branch,
extracts and looks at the global state does not hand branch 2 to `insert` and is disciplined -/
example : (Op.setPos 2 2 0 (9 : ℚ)).target = some 2 ∧ Spec.Disciplined (abs mid) (.setPos 2 2 0 9) ∧
    (step mid (.setPos 2 2 0 9)).2 = none ∧
    (∀ o ∈ ([.insert [(1, 0)], .extract [0], .global, .active, .setPos 2 2 0 1] : List (Op ℚ)), ¬ o.Inserts 2) ∧
    Spec.DisciplinedRun (abs mid) [.insert [(1, 0)], .extract [0], .global, .active, .setPos 2 2 0 1] := by
  refine ⟨rfl, by decide +kernel, by decide +kernel, by decide, by decide +kernel⟩

/-- … and the mutation is not a no-op: the held value changes (so "nothing else changes" says something) -/
example : ((abs (step mid (.setPos 2 2 0 9)).1).held[2]?.map fun L => L.1.map posOf) = some [[5], [0], [9]] ∧
    ((abs mid).held[2]?.map fun L => L.1.map posOf) = some [[5], [0], [7]] := by decide +kernel

/-- `insert_readback`: the commit in `goodOps` is a successful insert of a two-unit branch whose
values carry a velocity, a time stamp and the moved position -/
example : ∃ bs, [(0, 0)].mapM (Spec.pick (abs (run tree (goodOps.take 6))).held) = some bs ∧
    (step (run tree (goodOps.take 6)) (.insert [(0, 0)])).2 = none ∧
    bs.flatten.map (fun u => (u.id, posOf u, u.vel.isSome)) = [([0], [5], true), ([0, 1], [7], true)] :=
  ⟨_, rfl, by decide +kernel, by decide +kernel⟩

/-- `between_commits`: a disciplined history without `insert`, with extractions, in-place and
re-binding mutations of isolated branches and re-binding mutations of an alias branch -/
example : (∀ op ∈ ([.extract [1, 0], .setPos 2 2 0 9, .newVel 1 1 none, .tsUpdate 2 0 3 0, .newPos 3 0 [4],
      .global, .active] : List (Op ℚ)), op.isInsert = false) ∧
    Spec.DisciplinedRun (abs mid) [.extract [1, 0], .setPos 2 2 0 9, .newVel 1 1 none, .tsUpdate 2 0 3 0,
      .newPos 3 0 [4], .global, .active] := by
  refine ⟨by decide, by decide +kernel⟩

/-- `active_extraction` / `spec_active_rule`: in `mid` the active extraction succeeds, the system has
two levels, root 0 is active and exactly one of its two point masses is -/
example : (step mid .active).2 = none ∧ (abs mid).g.levels = 2 ∧ Spec.independent (abs mid).g = [[0, 1]] ∧
    Spec.active (abs mid).g [0] ∧ Spec.active (abs mid).g [0, 1] ∧ ¬ Spec.active (abs mid).g [0, 0] := by
  refine ⟨by decide +kernel, by decide +kernel, by decide +kernel, ?_, ?_, ?_⟩ <;>
    simp only [Spec.active] <;> decide +kernel

end examples

end JF.C13Refine
