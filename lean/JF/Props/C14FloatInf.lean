import JF.Props.C14Float
import JF.Lemmas.RoundedInf
import Mathlib.Order.WithBot
/-!
# C14, rounding-abstract reading WITH infinity

`JF/Props/C14Float.lean` proves C14's clauses for every `FloatModel` over `R fm`, the FINITE representable values.  The
property's last clause — "infinity is absorbing and larger than every finite time" — and the `+inf` in its quantifier
("all displacements from denormals to 2^40 and +inf, all pairs of times") need the non-finite values.  Here the SAME model
(`JF/Model/Time.lean`, branch for branch after `jellyfysh/base/time.py`) is read over `RX fm = fin x | pinf | ninf | nan`
(`JF/Lemmas/RoundedInf.lean`: IEEE rules on the non-finite values, C library rules for `floor`/`fmod`, `math.isinf`).
NaN is in the carrier because the code CAN produce it: `divmod(inf, 1.0) = (nan, nan)` and `inf - inf = nan`.

What `time.py` does with `inf` (module-level `inf = Time(float_inf, float_inf)`):

* `t + inf`            `isinf(other)` branch: `Time(other, other)`, whatever `t` is                     `add_inf`
* `inf + d`, `d` finite  first branch: `divmod(inf + d, 1.0) = (nan, nan)`, result `Time(nan, nan)`       `inf_add_fin`   (d)
* `inf + inf`          `isinf(other)` branch: `inf`                                                    `inf_add_inf`
* comparisons          `inf` is `>` every finite time, `==`, `<=`, `>=` itself                          `cmp_withTop`
* `from_float(inf)`    `isinf(time)` branch: `Time(inf, inf)`                                          `fromFloat_inf`
* `inf - t = +inf`, `t - inf = -inf`, `inf - inf = nan`                                                `sub_*`         (d)

All theorems are `∀ fm : FloatModel`; the last section instantiates `FloatModel.binary64` (proved instance).
The finite clauses of `C14Float` are NOT re-proved: `fin`/`emb` is a homomorphism (`transfer`), and each finite clause is its
`C14F` theorem rewritten along it.
-/
namespace JF.C14FloatInf
open JF JF.R JF.RX JF.C14F

variable {fm : FloatModel}

/-- the scalar layer with the non-finite values -/
abbrev oX (fm : FloatModel) : Ops (RX fm) := Ops.roundedX fm
/-- the finite scalar layer of `C14Float` -/
abbrev oF (fm : FloatModel) : Ops (R fm) := Ops.rounded fm

/-- a finite time read in the extended carrier (the identity on the data) -/
def emb (t : Time (R fm)) : Time (RX fm) := ⟨fin t.q, fin t.r⟩
/-- the module-level `inf = Time(float_inf, float_inf)` -/
def infT : Time (RX fm) := ⟨pinf, pinf⟩
/-- `Time(-inf, -inf)` (what `from_float(-inf)` and `t + (-inf)` return; outside the property's quantifier) -/
def ninfT : Time (RX fm) := ⟨ninf, ninf⟩
/-- `Time(nan, nan)` -/
def nanT : Time (RX fm) := ⟨nan, nan⟩

/-- Python's default `__ne__` (`Time` defines no `__ne__`): the negation of `__eq__` -/
def ne {α : Type} [BEq α] (T U : Time α) : Bool := !(Time.eq T U)

/-- The times the property speaks about: a finite normalised representable time (`C14F.Rep`), or `inf`. -/
inductive Proper (fm : FloatModel) : Time (RX fm) → Prop
  | fin (t : Time (R fm)) (h : Rep fm t) : Proper fm (emb t)
  | inf : Proper fm infT

/-- The displacements the property quantifies over: finite in `[0, 2^40]` (representable or not), or `+inf`. -/
inductive Disp (fm : FloatModel) : RX fm → Prop
  | fin (d : R fm) (h0 : 0 ≤ toQ d) (h1 : toQ d ≤ 2 ^ 40) : Disp fm (fin d)
  | inf : Disp fm pinf

/-- neither field is NaN -/
def NoNaN (T : Time (RX fm)) : Prop := T.q.isNaN = false ∧ T.r.isNaN = false

/-- The value of a time in `ℚ ∪ {∞}`: `quotient + remainder` (not rounded) for two finite fields, `⊤` for `inf`.
(Junk `⊤` on the improper pairs — a NaN field, `-inf`, mixed — which is why the theorems about `valX` assume `Proper`.) -/
def valX : Time (RX fm) → WithTop ℚ
  | ⟨fin q, fin r⟩ => ((toQ q + toQ r : ℚ) : WithTop ℚ)
  | _ => ⊤

@[simp] theorem valX_emb (t : Time (R fm)) : valX (emb t) = ((val t : ℚ) : WithTop ℚ) := rfl
@[simp] theorem valX_inf : valX (infT : Time (RX fm)) = ⊤ := rfl

theorem Proper.noNaN {T : Time (RX fm)} (h : Proper fm T) : NoNaN T := by
  cases h <;> exact ⟨rfl, rfl⟩

theorem Proper.valX_eq_top_iff {T : Time (RX fm)} (h : Proper fm T) : valX T = ⊤ ↔ T = infT := by
  cases h with
  | fin t ht => simp [emb, infT, valX]
  | inf => simp

/-! ## (c) restriction to the finite values: ONE transfer lemma, then the clauses of `C14Float` as they are -/

theorem add_fin (t : Time (R fm)) (d : R fm) :
    Time.add (oX fm) (emb t) (fin d) = emb (Time.add (oF fm) t d) := by
  simp only [Time.add, emb, X_isInf_fin, rounded_isInf, fin_add, pydivmod1_fin]
  rfl

theorem fromFloat_fin (x : R fm) : Time.fromFloat (oX fm) (fin x) = emb (Time.fromFloat (oF fm) x) := by
  simp only [Time.fromFloat, emb, X_isInf_fin, rounded_isInf, pydivmod1_fin]
  rfl

theorem sub_fin (t u : Time (R fm)) : Time.sub (emb t) (emb u) = fin (Time.sub t u) := rfl
theorem eq_fin (t u : Time (R fm)) : Time.eq (emb t) (emb u) = Time.eq t u := rfl
theorem lt_fin (t u : Time (R fm)) : Time.lt (emb t) (emb u) = Time.lt t u := by
  show (decide ((fin t.q : RX fm) < fin u.q) || ((fin t.q : RX fm) == fin u.q) && decide ((fin t.r : RX fm) < fin u.r))
    = (decide (t.q < u.q) || (t.q == u.q) && decide (t.r < u.r))
  simp only [RX.decide_lt, ltb_fin, beq_def, beq_fin]
theorem cLt_fin (t u : Time (R fm)) : Time.cLt (emb t) (emb u) = Time.cLt t u := lt_fin t u
theorem gt_fin (t u : Time (R fm)) : Time.gt (emb t) (emb u) = Time.gt t u := by
  simp only [Time.gt, lt_fin, eq_fin]
theorem le_fin (t u : Time (R fm)) : Time.le (emb t) (emb u) = Time.le t u := by
  simp only [Time.le, lt_fin, eq_fin]
theorem ge_fin (t u : Time (R fm)) : Time.ge (emb t) (emb u) = Time.ge t u := by
  simp only [Time.ge, lt_fin]
theorem ne_fin (t u : Time (R fm)) : ne (emb t) (emb u) = ne t u := by
  simp only [ne, eq_fin]

/-- THE transfer lemma: on finite operands every operation of `Time` over `RX fm` is the operation of `C14Float`'s
reading over `R fm` (no hypothesis: any fields, any sign, representable or not). -/
theorem transfer (fm : FloatModel) :
    (∀ (t : Time (R fm)) (d : R fm), Time.add (oX fm) (emb t) (fin d) = emb (Time.add (oF fm) t d)) ∧
    (∀ x : R fm, Time.fromFloat (oX fm) (fin x) = emb (Time.fromFloat (oF fm) x)) ∧
    (∀ t u : Time (R fm), Time.sub (emb t) (emb u) = fin (Time.sub t u)) ∧
    (∀ t u : Time (R fm),
      Time.lt (emb t) (emb u) = Time.lt t u ∧ Time.eq (emb t) (emb u) = Time.eq t u ∧
      Time.gt (emb t) (emb u) = Time.gt t u ∧ Time.le (emb t) (emb u) = Time.le t u ∧
      Time.ge (emb t) (emb u) = Time.ge t u ∧ ne (emb t) (emb u) = ne t u ∧
      Time.cLt (emb t) (emb u) = Time.cLt t u) :=
  ⟨add_fin, fromFloat_fin, sub_fin,
    fun t u => ⟨lt_fin t u, eq_fin t u, gt_fin t u, le_fin t u, ge_fin t u, ne_fin t u, cLt_fin t u⟩⟩

section finite
variable {t u : Time (R fm)} {d d' : R fm}

/-- `C14F.add_normalised`, restricted -/
theorem add_normalised (ht : Rep fm t) (hq : |toQ t.q| ≤ 2 ^ 52) (hd0 : 0 ≤ toQ d) (hd1 : toQ d ≤ 2 ^ 40) :
    Proper fm (Time.add (oX fm) (emb t) (fin d)) := by
  rw [add_fin]; exact .fin _ (C14F.add_normalised ht hq hd0 hd1)

/-- `C14F.add_one_rounding`, restricted: the value of the sum is `q + fl(r + d)` -/
theorem add_one_rounding (ht : Rep fm t) (hq : |toQ t.q| ≤ 2 ^ 52) (hd0 : 0 ≤ toQ d) (hd1 : toQ d ≤ 2 ^ 40) :
    valX (Time.add (oX fm) (emb t) (fin d)) = ((toQ t.q + fm.rnd (toQ t.r + toQ d) : ℚ) : WithTop ℚ) := by
  rw [add_fin, valX_emb, C14F.add_one_rounding ht hq hd0 hd1]

/-- `C14F.add_error`, restricted -/
theorem add_error (ht : Rep fm t) (hq : |toQ t.q| ≤ 2 ^ 52) (hdF : toQ d ∈ fm.F)
    (hd0 : 0 ≤ toQ d) (hd1 : toQ d ≤ 2 ^ 40) :
    ∃ v : ℚ, valX (Time.add (oX fm) (emb t) (fin d)) = (v : WithTop ℚ) ∧
      |v - (val t + toQ d)| ≤ fm.eps * (toQ t.r + toQ d) :=
  ⟨_, by rw [add_fin, valX_emb], C14F.add_error ht hq hdF hd0 hd1⟩

/-- `C14F.add_mono`, restricted -/
theorem add_mono (ht : Rep fm t) (hq : |toQ t.q| ≤ 2 ^ 52) (hd0 : 0 ≤ toQ d) (hd'1 : toQ d' ≤ 2 ^ 40)
    (h : toQ d ≤ toQ d') :
    Time.le (Time.add (oX fm) (emb t) (fin d)) (Time.add (oX fm) (emb t) (fin d')) = true := by
  rw [add_fin, add_fin, le_fin]; exact C14F.add_mono ht hq hd0 hd'1 h

/-- `C14F.add_ge`, restricted -/
theorem add_ge (ht : Rep fm t) (hq : |toQ t.q| ≤ 2 ^ 52) (hd0 : 0 ≤ toQ d) (hd1 : toQ d ≤ 2 ^ 40) :
    Time.le (emb t) (Time.add (oX fm) (emb t) (fin d)) = true := by
  rw [add_fin, le_fin]; exact C14F.add_ge ht hq hd0 hd1

/-- `C14F.fromFloat_exact`, restricted -/
theorem fromFloat_exact (x : R fm) (hx : toQ x ∈ fm.F) (h0 : 0 ≤ toQ x) :
    valX (Time.fromFloat (oX fm) (fin x)) = ((toQ x : ℚ) : WithTop ℚ) ∧
      Proper fm (Time.fromFloat (oX fm) (fin x)) := by
  have h := C14F.fromFloat_exact x hx h0
  rw [fromFloat_fin, valX_emb, h.1]
  exact ⟨rfl, .fin _ h.2⟩

/-- `C14F.sub_error`, restricted: the difference of two finite times is finite and within `4 eps max(1, |difference|)` -/
theorem sub_error (ht : Rep fm t) (hu : Rep fm u) (hqt : |toQ t.q| ≤ 2 ^ 52) (hqu : |toQ u.q| ≤ 2 ^ 52) :
    ∃ s : R fm, Time.sub (emb t) (emb u) = fin s ∧
      |toQ s - (val t - val u)| ≤ 4 * fm.eps * max 1 |val t - val u| :=
  ⟨_, sub_fin t u, C14F.sub_error ht hu hqt hqu⟩

/-- `C14F.sub_self`, restricted -/
theorem sub_self (ht : Rep fm t) : ∃ s : R fm, Time.sub (emb t) (emb t) = fin s ∧ toQ s = 0 :=
  ⟨_, sub_fin t t, C14F.sub_self t ht⟩

end finite

/-! ## (a) `inf` and `+` -/

/-- `t + inf` is `inf` for EVERY left operand (finite, `inf`, even `Time(nan, nan)`): the `isinf(other)` branch returns
`Time(other, other)` without reading `self`.  An instance of the generic `C14.add_inf`. -/
theorem add_inf (T : Time (RX fm)) : Time.add (oX fm) T pinf = infT :=
  C14.add_inf (oX fm) T pinf rfl

/-- `inf + inf = inf` (again the `isinf(other)` branch) -/
theorem inf_add_inf : Time.add (oX fm) (infT : Time (RX fm)) pinf = infT := add_inf _

/-- the same branch for `-inf` (not a displacement of the property's quantifier): `Time(-inf, -inf)` -/
theorem add_ninf (T : Time (RX fm)) : Time.add (oX fm) T ninf = ninfT :=
  C14.add_inf (oX fm) T ninf rfl

/-- **(d)** `inf + d` for a FINITE `d` — any finite `d`, no hypothesis — takes the first branch of `__add__`:
`inf + d = inf`, `divmod(inf, 1.0) = (nan, nan)`, result `Time(inf + nan, nan) = Time(nan, nan)`.
`inf` is NOT absorbing as a left operand of `+`. -/
theorem inf_add_fin (d : R fm) : Time.add (oX fm) (infT : Time (RX fm)) (fin d) = nanT := by
  have h : (pinf : RX fm) + fin d = pinf := rfl
  simp only [Time.add, infT, X_isInf_fin, h, pydivmod1_pinf]
  rfl

/-- the same as a two-step run: a time that BECAME `inf` through an addition is lost by the next finite addition -/
theorem add_inf_then_fin (T : Time (RX fm)) (d : R fm) :
    Time.add (oX fm) (Time.add (oX fm) T pinf) (fin d) = nanT := by
  rw [add_inf, inf_add_fin]

/-- … and stays lost: NaN propagates through every further finite addition; only `+ inf` resets it (`add_inf`) -/
theorem nan_add_fin (d : R fm) : Time.add (oX fm) (nanT : Time (RX fm)) (fin d) = nanT := by
  have h : (nan : RX fm) + fin d = nan := rfl
  simp only [Time.add, nanT, X_isInf_fin, h, pydivmod1_nan]
  rfl

/-- `Time(-inf, -inf) + d` for finite `d` is `Time(nan, nan)` too (`divmod(-inf, 1.0) = (nan, nan)`) -/
theorem ninf_add_fin (d : R fm) : Time.add (oX fm) (ninfT : Time (RX fm)) (fin d) = nanT := by
  have h : (ninf : RX fm) + fin d = ninf := rfl
  simp only [Time.add, ninfT, X_isInf_fin, h, pydivmod1_ninf]
  rfl

theorem nanT_not_proper : ¬ Proper fm (nanT : Time (RX fm)) := fun h => by
  have := h.noNaN; simp [NoNaN, nanT, isNaN] at this

theorem inf_add_fin_ne_inf (d : R fm) : Time.add (oX fm) (infT : Time (RX fm)) (fin d) ≠ infT := by
  rw [inf_add_fin]; simp [nanT, infT]

/-- **no NaN on the property's inputs**: a finite normalised time with `|q| ≤ 2^52` plus a displacement of the quantifier
(finite in `[0, 2^40]`, or `+inf`) is again a time of the property's domain — finite normalised, or `inf`. -/
theorem add_proper {t : Time (R fm)} {D : RX fm} (ht : Rep fm t) (hq : |toQ t.q| ≤ 2 ^ 52) (hD : Disp fm D) :
    Proper fm (Time.add (oX fm) (emb t) D) := by
  cases hD with
  | fin d h0 h1 => exact add_normalised ht hq h0 h1
  | inf => rw [add_inf]; exact .inf

theorem add_noNaN {t : Time (R fm)} {D : RX fm} (ht : Rep fm t) (hq : |toQ t.q| ≤ 2 ^ 52) (hD : Disp fm D) :
    NoNaN (Time.add (oX fm) (emb t) D) := (add_proper ht hq hD).noNaN

/-- with `inf` as the LEFT operand, the result is a time of the domain exactly when the displacement is `+inf` -/
theorem inf_add_proper_iff {D : RX fm} (hD : Disp fm D) :
    Proper fm (Time.add (oX fm) (infT : Time (RX fm)) D) ↔ D = pinf := by
  cases hD with
  | fin d h0 h1 =>
    rw [inf_add_fin]
    exact ⟨fun h => absurd h nanT_not_proper, fun h => by cases h⟩
  | inf => rw [add_inf]; exact ⟨fun _ => rfl, fun _ => .inf⟩

/-- absorbing, as a value: whatever finite time it is added to, `+inf` gives the value `⊤` -/
theorem valX_add_inf (T : Time (RX fm)) : valX (Time.add (oX fm) T pinf) = ⊤ := by rw [add_inf]; rfl

/-! ## (b) `inf` and the comparisons -/

section cmp_inf
variable (t : Time (R fm))

/-- every finite time (no hypothesis at all on its fields) is `<`, `<=`, `!=` `inf`, and not `==`, `>`, `>=` -/
theorem fin_lt_inf : Time.lt (emb t) infT = true := rfl
theorem fin_eq_inf : Time.eq (emb t) infT = false := rfl
theorem fin_le_inf : Time.le (emb t) infT = true := by simp [Time.le, fin_lt_inf]
theorem fin_ne_inf : ne (emb t) infT = true := by simp [ne, fin_eq_inf]
theorem fin_gt_inf : Time.gt (emb t) infT = false := by simp [Time.gt, fin_lt_inf]
theorem fin_ge_inf : Time.ge (emb t) infT = false := by simp [Time.ge, fin_lt_inf]
theorem fin_cLt_inf : Time.cLt (emb t) infT = true := fin_lt_inf t

/-- `inf` against a finite time -/
theorem inf_lt_fin : Time.lt infT (emb t) = false := rfl
theorem inf_eq_fin : Time.eq infT (emb t) = false := rfl
theorem inf_le_fin : Time.le infT (emb t) = false := by simp [Time.le, inf_lt_fin, inf_eq_fin]
theorem inf_ne_fin : ne infT (emb t) = true := by simp [ne, inf_eq_fin]
theorem inf_gt_fin : Time.gt infT (emb t) = true := by simp [Time.gt, inf_lt_fin, inf_eq_fin]
theorem inf_ge_fin : Time.ge infT (emb t) = true := by simp [Time.ge, inf_lt_fin]
theorem inf_cLt_fin : Time.cLt infT (emb t) = false := inf_lt_fin t
end cmp_inf

/-- `inf` against itself: `==`, `<=`, `>=`; not `<`, `>`, `!=` -/
theorem inf_lt_inf : Time.lt (infT : Time (RX fm)) infT = false := rfl
theorem inf_eq_inf : Time.eq (infT : Time (RX fm)) infT = true := rfl
theorem inf_le_inf : Time.le (infT : Time (RX fm)) infT = true := by simp [Time.le, inf_eq_inf]
theorem inf_ne_inf : ne (infT : Time (RX fm)) infT = false := by simp [ne, inf_eq_inf]
theorem inf_gt_inf : Time.gt (infT : Time (RX fm)) infT = false := by simp [Time.gt, inf_eq_inf]
theorem inf_ge_inf : Time.ge (infT : Time (RX fm)) infT = true := by simp [Time.ge, inf_lt_inf]
theorem inf_cLt_inf : Time.cLt (infT : Time (RX fm)) infT = false := inf_lt_inf

/-- `cmp_withTop`: on the times of the property's domain (finite normalised representable, or `inf`) all six comparisons of
`Time`, and the comparison of `heap.c`, are the order of the values in `WithTop ℚ`. -/
theorem cmp_withTop {T U : Time (RX fm)} (hT : Proper fm T) (hU : Proper fm U) :
    (Time.lt T U = true ↔ valX T < valX U) ∧ (Time.le T U = true ↔ valX T ≤ valX U) ∧
    (Time.eq T U = true ↔ valX T = valX U) ∧ (ne T U = true ↔ valX T ≠ valX U) ∧
    (Time.gt T U = true ↔ valX T > valX U) ∧ (Time.ge T U = true ↔ valX T ≥ valX U) ∧
    (Time.cLt T U = true ↔ valX T < valX U) := by
  cases hT with
  | fin t ht =>
    cases hU with
    | fin u hu =>
      have nt := ht.normalised
      have nu := hu.normalised
      simp only [lt_fin, le_fin, eq_fin, ne_fin, gt_fin, ge_fin, cLt_fin, valX_emb, WithTop.coe_lt_coe,
        WithTop.coe_le_coe, WithTop.coe_eq_coe, gt_iff_lt, ge_iff_le, Ne]
      refine ⟨C14F.lt_iff nt nu, C14F.le_iff nt nu, C14F.eq_iff nt nu, ?_, C14F.gt_iff nt nu, C14F.ge_iff nt nu,
        C14F.cLt_iff nt nu⟩
      rw [← C14F.eq_iff nt nu]; simp [ne]
    | inf =>
      simp [fin_lt_inf, fin_le_inf, fin_eq_inf, fin_ne_inf, fin_gt_inf, fin_ge_inf, fin_cLt_inf]
  | inf =>
    cases hU with
    | fin u hu =>
      simp [inf_lt_fin, inf_le_fin, inf_eq_fin, inf_ne_fin, inf_gt_fin, inf_ge_fin, inf_cLt_fin]
    | inf =>
      simp [inf_lt_inf, inf_le_inf, inf_eq_inf, inf_ne_inf, inf_gt_inf, inf_ge_inf, inf_cLt_inf]

/-- every time of the domain is `<= inf`; the finite ones are `< inf` -/
theorem le_inf {T : Time (RX fm)} (hT : Proper fm T) : Time.le T infT = true := by
  rw [(cmp_withTop hT .inf).2.1]; exact le_top

theorem lt_inf_iff {T : Time (RX fm)} (hT : Proper fm T) : Time.lt T infT = true ↔ T ≠ infT := by
  rw [(cmp_withTop hT .inf).1, valX_inf, lt_top_iff_ne_top, Ne, hT.valX_eq_top_iff]

/-! ### monotonicity and `add_ge` with the displacement `+inf` included -/

/-- `add_mono` over the whole quantifier: displacements finite in `[0, 2^40]` or `+inf`, ordered by the IEEE `<=`. -/
theorem add_mono_ext {t : Time (R fm)} {D D' : RX fm} (ht : Rep fm t) (hq : |toQ t.q| ≤ 2 ^ 52)
    (hD : Disp fm D) (hD' : Disp fm D') (h : D ≤ D') :
    Time.le (Time.add (oX fm) (emb t) D) (Time.add (oX fm) (emb t) D') = true := by
  cases hD' with
  | inf => rw [add_inf]; exact le_inf (add_proper ht hq hD)
  | fin d' h0' h1' =>
    cases hD with
    | fin d h0 h1 => exact add_mono ht hq h0 h1' ((fin_le d d').mp h)
    | inf => exact absurd h (by simp [le_def, leb])

/-- `add_ge` over the whole quantifier -/
theorem add_ge_ext {t : Time (R fm)} {D : RX fm} (ht : Rep fm t) (hq : |toQ t.q| ≤ 2 ^ 52) (hD : Disp fm D) :
    Time.le (emb t) (Time.add (oX fm) (emb t) D) = true := by
  cases hD with
  | fin d h0 h1 => exact add_ge ht hq h0 h1
  | inf => rw [add_inf]; exact fin_le_inf t

/-! ## `from_float` on the non-finite values -/

/-- `from_float(inf) = Time(inf, inf)`: the `isinf` branch, equal to the module-level `inf` -/
theorem fromFloat_inf : Time.fromFloat (oX fm) (pinf : RX fm) = infT := by
  simp [Time.fromFloat, infT]
/-- `from_float(-inf) = Time(-inf, -inf)` -/
theorem fromFloat_ninf : Time.fromFloat (oX fm) (ninf : RX fm) = ninfT := by
  simp [Time.fromFloat, ninfT]
/-- `from_float(nan) = Time(nan, nan)`: `isinf(nan)` is false, `divmod(nan, 1.0) = (nan, nan)` -/
theorem fromFloat_nan : Time.fromFloat (oX fm) (nan : RX fm) = nanT := by
  simp only [Time.fromFloat, X_isInf_nan, pydivmod1_nan]; rfl

/-! ## (d) subtraction involving `inf`, and what a `Time(nan, nan)` does to the comparisons -/

/-- `inf - t = +inf` for every finite `t` (`inf - q + inf - r`) -/
theorem sub_inf_fin (t : Time (R fm)) : Time.sub infT (emb t) = (pinf : RX fm) := rfl
/-- `t - inf = -inf` for every finite `t` (`q - inf + r - inf`) -/
theorem sub_fin_inf (t : Time (R fm)) : Time.sub (emb t) infT = (ninf : RX fm) := rfl
/-- **(d)** `inf - inf` is NaN (`inf - inf + inf - inf`, the first subtraction already is) -/
theorem sub_inf_inf : Time.sub (infT : Time (RX fm)) infT = nan := rfl

/-- a difference with a `Time(nan, nan)` on either side is NaN -/
theorem sub_nan_left (U : Time (RX fm)) : Time.sub nanT U = (nan : RX fm) := rfl
theorem sub_nan_right (U : Time (RX fm)) : Time.sub U nanT = (nan : RX fm) := by
  obtain ⟨q, r⟩ := U
  cases q <;> cases r <;> rfl

/-- `Time(nan, nan)` as the LEFT operand: `<`, `<=`, `==` false; `!=`, `>`, `>=` TRUE — against every time, itself
included (`__gt__` is `not lt and ne`, `__ge__` is `not lt`). -/
theorem nan_cmp (U : Time (RX fm)) :
    Time.lt nanT U = false ∧ Time.le nanT U = false ∧ Time.eq nanT U = false ∧
    ne nanT U = true ∧ Time.gt nanT U = true ∧ Time.ge nanT U = true ∧ Time.cLt nanT U = false := by
  have hl : Time.lt nanT U = false := rfl
  have he : Time.eq nanT U = false := rfl
  exact ⟨hl, by simp [Time.le, hl, he], he, by simp [ne, he], by simp [Time.gt, hl, he], by simp [Time.ge, hl], hl⟩

/-- `Time(nan, nan)` as the RIGHT operand: the same table -/
theorem cmp_nan (U : Time (RX fm)) :
    Time.lt U nanT = false ∧ Time.le U nanT = false ∧ Time.eq U nanT = false ∧
    ne U nanT = true ∧ Time.gt U nanT = true ∧ Time.ge U nanT = true ∧ Time.cLt U nanT = false := by
  obtain ⟨q, r⟩ := U
  have hl : Time.lt (⟨q, r⟩ : Time (RX fm)) nanT = false := by
    cases q <;> cases r <;> rfl
  have he : Time.eq (⟨q, r⟩ : Time (RX fm)) nanT = false := by
    cases q <;> rfl
  exact ⟨hl, by simp [Time.le, hl, he], he, by simp [ne, he], by simp [Time.gt, hl, he], by simp [Time.ge, hl], hl⟩

/-- **(d)** consequence for the result of `inf + d`: it is `>` AND `>=` `inf` while `inf` is `>` and `>=` it, and it is not
`==` itself — after one finite addition to `inf` the comparisons no longer order the times. -/
theorem inf_add_fin_cmp (d : R fm) :
    Time.gt (Time.add (oX fm) (infT : Time (RX fm)) (fin d)) infT = true ∧
    Time.gt infT (Time.add (oX fm) (infT : Time (RX fm)) (fin d)) = true ∧
    Time.eq (Time.add (oX fm) (infT : Time (RX fm)) (fin d)) (Time.add (oX fm) (infT : Time (RX fm)) (fin d)) = false ∧
    Time.le (Time.add (oX fm) (infT : Time (RX fm)) (fin d)) infT = false := by
  rw [inf_add_fin]
  exact ⟨(nan_cmp infT).2.2.2.2.1, (cmp_nan infT).2.2.2.2.1, (nan_cmp nanT).2.2.1, (nan_cmp infT).2.1⟩

/-! ## times are values: `update` with `inf` (register reading, generic `C14.update_value`) -/

/-- `regs[i].update(inf)` (with `inf` held in register `j`) makes register `i` compare as `inf` -/
theorem update_inf (z : Time (RX fm)) (s : Time.Regs (RX fm)) (i j : Nat) (hi : i < s.length)
    (hj : s.get z j = infT) : (s.update z i j).get z i = infT := by
  rw [C14.update_value z s i j hi, hj]

/-! ## non-vacuity (fixed-point model of `C14Float`) -/

section examples
example : Proper fx (Time.add (oX fx) (emb tBig) pinf) := add_proper tBig_rep tBig_q .inf
example : Proper fx (Time.add (oX fx) (emb tBig) (fin dLarge)) :=
  add_proper tBig_rep tBig_q (.fin _ (by simp [dLarge]) (by simp [dLarge]))
example : Disp fx (fin dSmall) := .fin _ (by simp [dSmall]) (by simp only [dSmall, toQ_ofQ]; norm_num)
example : Time.le (Time.add (oX fx) (emb tBig) (fin dLarge)) (Time.add (oX fx) (emb tBig) pinf) = true :=
  add_mono_ext tBig_rep tBig_q (.fin _ (by simp [dLarge]) (by simp [dLarge])) .inf (by simp [le_def, leb])
example : Time.lt (emb tBig) (infT : Time (RX fx)) = true ↔ valX (emb tBig) < valX (infT : Time (RX fx)) :=
  (cmp_withTop (.fin _ tBig_rep) .inf).1
example : valX (emb tBig) < valX (infT : Time (RX fx)) := by
  rw [← (cmp_withTop (.fin _ tBig_rep) .inf).1]; exact fin_lt_inf _
example : Time.lt (emb tNeg) (emb tBig) = true ↔ valX (emb tNeg) < valX (emb tBig) :=
  (cmp_withTop (.fin _ tNeg_rep) (.fin _ tBig_rep)).1
example : Time.add (oX fx) (infT : Time (RX fx)) (fin dSmall) = nanT := inf_add_fin _
end examples

/-! ## IEEE-754 binary64 (`FloatModel.binary64`, proved instance) -/

section binary64

/-- binary64: finite normalised time (quotient up to `2^52`) plus any displacement of the quantifier, `+inf` included,
never gives a NaN field -/
theorem add_proper_binary64 {t : Time (R b64)} {D : RX b64} (ht : Rep b64 t) (hq : |toQ t.q| ≤ 2 ^ 52)
    (hD : Disp b64 D) : Proper b64 (Time.add (oX b64) (emb t) D) := add_proper ht hq hD

theorem add_inf_binary64 (T : Time (RX b64)) : Time.add (oX b64) T pinf = infT := add_inf T

theorem cmp_withTop_binary64 {T U : Time (RX b64)} (hT : Proper b64 T) (hU : Proper b64 U) :
    (Time.lt T U = true ↔ valX T < valX U) ∧ (Time.le T U = true ↔ valX T ≤ valX U) ∧
    (Time.eq T U = true ↔ valX T = valX U) ∧ (ne T U = true ↔ valX T ≠ valX U) ∧
    (Time.gt T U = true ↔ valX T > valX U) ∧ (Time.ge T U = true ↔ valX T ≥ valX U) ∧
    (Time.cLt T U = true ↔ valX T < valX U) := cmp_withTop hT hU

/-- binary64, (d): `inf + d = Time(nan, nan)` for every finite double `d`; `inf - inf = nan` -/
theorem inf_add_fin_binary64 (d : R b64) : Time.add (oX b64) (infT : Time (RX b64)) (fin d) = nanT := inf_add_fin d
theorem sub_inf_inf_binary64 : Time.sub (infT : Time (RX b64)) infT = nan := sub_inf_inf

/-- one addition in the extended carrier is off by at most `2^-53 (r + d)`, whatever the quotient -/
theorem add_error_binary64 {t : Time (R b64)} {d : R b64} (ht : Rep b64 t) (hq : |toQ t.q| ≤ 2 ^ 52)
    (hdF : toQ d ∈ b64.F) (hd0 : 0 ≤ toQ d) (hd1 : toQ d ≤ 2 ^ 40) :
    ∃ v : ℚ, valX (Time.add (oX b64) (emb t) (fin d)) = (v : WithTop ℚ) ∧
      |v - (val t + toQ d)| ≤ (toQ t.r + toQ d) / 2 ^ 53 :=
  ⟨_, by rw [add_fin, valX_emb], C14F.add_error_binary64 ht hq hdF hd0 hd1⟩

/-- `q = 2^52`, `r = 1 - 2^-53`, `d = +inf` -/
example : Time.add (oX b64) (emb tBig64) pinf = infT := add_inf _
example : Proper b64 (Time.add (oX b64) (emb tBig64) pinf) := add_proper tBig64_rep tBig64_q .inf
/-- `d = 2^-60`: the addition really rounds, and stays in the domain -/
example : Proper b64 (Time.add (oX b64) (emb tBig64) (fin dTiny64)) :=
  add_proper tBig64_rep tBig64_q (.fin _ (by simp [dTiny64]) (by simp only [dTiny64, toQ_ofQ]; norm_num))
example : Time.lt (emb tBig64) (infT : Time (RX b64)) = true := fin_lt_inf _
example : Time.le (emb tBig64) (Time.add (oX b64) (emb tBig64) pinf) = true := add_ge_ext tBig64_rep tBig64_q .inf
example : valX (Time.add (oX b64) (emb tBig64) (fin dTiny64)) < valX (Time.add (oX b64) (emb tBig64) pinf) := by
  have hP := add_proper tBig64_rep tBig64_q
    (.fin dTiny64 (by simp [dTiny64]) (by simp only [dTiny64, toQ_ofQ]; norm_num) : Disp b64 (fin dTiny64))
  rw [← (cmp_withTop hP (add_proper tBig64_rep tBig64_q .inf)).1, add_inf, lt_inf_iff hP, add_fin]
  simp [emb, infT]
/-- the concrete input of (d): `inf + 1.0` -/
example : Time.add (oX b64) (infT : Time (RX b64)) (fin (ofQ 1)) = nanT := inf_add_fin _
example : Time.add (oX b64) (Time.add (oX b64) (emb tBig64) pinf) (fin (ofQ 1)) = nanT := add_inf_then_fin _ _
end binary64

end JF.C14FloatInf
