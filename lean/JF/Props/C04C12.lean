import JF.Props.C04
import JF.Props.C12
import JF.Lemmas.SystemRunKin
/-!
# E52 — C04's root-unit-active handler model (`JF.Thin.sendRoot`) linked to C12's two-level machine (`JF.Composite`)

Exact reading (`α = ℚ`).  **Scope (why the names end in `_partial`).**  The theorems are proved for an in-state of TWO
DIPOLES (two leaf units per composite object, the case of the shipped dipole configurations): branches
`[active, target]` (`inSt`) or `[target, active]` (`inStR`, theorems `…_rev_partial`), identifiers `[a]`, `[a,0]`, `[a,1]` and `[b]`, `[b,0]`, `[b,1]` with arbitrary
`a ≠ b` (both sort orders of `_construct_leaf_units_of_composite_objects` are covered), root weight `1`, leaf weights
`1/2`; positions, charges, the velocity `v`, the dimension, the box length, all time stamps and the event time are
arbitrary.  NOT proved: an arbitrary number `n` of leaf units per object (e.g. water, `n = 3`), identifiers of
another shape, leaf weights other than `1/2`, branches that hold only part of a composite object.

What lines up and what differs between the two models (all differences are bridged by hypotheses that are stated):
* `Thin.Consts.L` is one box length, `Composite` takes a list (one per dimension): `L := List.replicate d c.L`, with
  all vectors of length `d`;
* `Thin.commitUnit` tests `abs(x) < c.tiny`, C12's exact reading tests `x = 0` (`isZ`): the root of the formerly
  active object gets `v + (-v/2 - v/2) = 0` exactly, so both tests agree as soon as `0 < c.tiny`;
* `Thin.timeSliceUnit` advances a moving unit without time stamp with `dt = 0` (unreachable branch),
  `Kin.timeSlice` leaves it alone: the moving units carry time stamps here;
* `Composite.weight` is `1 / len(children)`, `Thin` stores the weights in the cnodes: `1/2` here;
* time slicing conventions AGREE: both models slice the branches to the event time first and slice the root of the
  formerly active object a second time (with `dt = et - et = 0`) in the commit.
-/
namespace JF.C04C12
open JF JF.Thin

/-! ### in-state, out-state -/

/-- a dipole as a branch: root `[i]` (weight 1) with the leaf units `[i,0]`, `[i,1]` (weights 1/2) -/
def dip (i : Nat) (rp p0 p1 : List ℚ) (q0 q1 : ℚ) (vel : Option (List ℚ)) (tr t0 t1 : Option (Time ℚ)) : CNode ℚ :=
  ⟨⟨[i], rp, 0, vel, tr⟩, 1, [(⟨[i, 0], p0, q0, vel, t0⟩, 1/2), (⟨[i, 1], p1, q1, vel, t1⟩, 1/2)]⟩

/-- well-formed weights: root weight 1, child weights summing to 1 -/
def WeightsOK (st : List (CNode ℚ)) : Prop := ∀ r ∈ st, r.weight = 1 ∧ (r.children.map (·.2)).sum = 1
/-- the object moves as a whole with velocity `v` -/
def MovesWith (v : List ℚ) (r : CNode ℚ) : Prop := r.unit.vel = some v ∧ ∀ cw ∈ r.children, cw.1.vel = some v
/-- the object is at rest -/
def AtRest (r : CNode ℚ) : Prop := r.unit.vel = none ∧ ∀ cw ∈ r.children, cw.1.vel = none

/-- `_time_slice_unit` on a position: from time stamp `s` to `et` with velocity `v` -/
def sl (c : Consts ℚ) (et s : Time ℚ) (p v : List ℚ) : List ℚ :=
  List.zipWith (fun p vd => pywrap Ops.rat (p + vd * et.sub s) c.L) p v

/-- the in-state: dipole `a` moves as a whole with `v` (time stamps `sr`, `s0`, `s1`), dipole `b` is at rest -/
def inSt (a b : Nat) (v ra a0 a1 rb b0 b1 : List ℚ) (qa0 qa1 qb0 qb1 : ℚ) (sr s0 s1 : Time ℚ) : List (CNode ℚ) :=
  [dip a ra a0 a1 qa0 qa1 (some v) (some sr) (some s0) (some s1), dip b rb b0 b1 qb0 qb1 none none none none]

/-- the claimed out-state: dipole `a` at rest (no velocity, no time stamp) at the time-sliced positions, dipole `b`
moving as a whole with `v`, every time stamp the event time, positions untouched -/
def outSt (c : Consts ℚ) (et : Time ℚ) (a b : Nat) (v ra a0 a1 rb b0 b1 : List ℚ) (qa0 qa1 qb0 qb1 : ℚ)
    (sr s0 s1 : Time ℚ) : List (CNode ℚ) :=
  [dip a (sl c et sr ra v) (sl c et s0 a0 v) (sl c et s1 a1 v) qa0 qa1 none none none none,
   dip b rb b0 b1 qb0 qb1 (some v) (some et) (some et) (some et)]

theorem inSt_wellformed (a b : Nat) (v ra a0 a1 rb b0 b1 : List ℚ) (qa0 qa1 qb0 qb1 : ℚ) (sr s0 s1 : Time ℚ) :
    WeightsOK (inSt a b v ra a0 a1 rb b0 b1 qa0 qa1 qb0 qb1 sr s0 s1)
      ∧ MovesWith v (dip a ra a0 a1 qa0 qa1 (some v) (some sr) (some s0) (some s1))
      ∧ AtRest (dip b rb b0 b1 qb0 qb1 none none none none) := by
  refine ⟨?_, ?_, ?_⟩
  · intro r hr
    simp only [inSt, List.mem_cons, List.not_mem_nil, or_false] at hr
    rcases hr with rfl | rfl <;> (simp only [dip, List.map_cons, List.map_nil, List.sum_cons, List.sum_nil]; norm_num)
  · simp [MovesWith, dip]
  · simp [AtRest, dip]

/-! ### helpers -/

theorem half2 (x : ℚ) : x * 2⁻¹ + x * 2⁻¹ = x := by ring
theorem cancel2 (x : ℚ) : x + (-(x * 2⁻¹) + -(x * 2⁻¹)) = 0 := by ring
theorem tsub_self (t : Time ℚ) : t.sub t = 0 := by simp only [Time.sub]; ring

theorem zipWith_zipWith_left (f g : ℚ → ℚ → ℚ) : ∀ P V : List ℚ,
    List.zipWith f (List.zipWith g P V) V = List.zipWith (fun p vd => f (g p vd) vd) P V
  | [], _ => by simp
  | _ :: _, [] => by simp
  | p :: P, x :: V => by simp [zipWith_zipWith_left f g P V]

/-- slicing a freshly sliced position again (to the same time) does nothing -/
theorem sl_sl (c : Consts ℚ) (hL : 0 < c.L) (et s : Time ℚ) (p v : List ℚ) :
    sl c et et (sl c et s p v) v = sl c et s p v := by
  simp only [sl, zipWith_zipWith_left, tsub_self, mul_zero]
  congr 1; funext p vd
  rw [JF.Sys.pywrap_pywrap_add _ _ _ hL, add_zero]

theorem sliceVec_replicate (l dt : ℚ) : ∀ (d : Nat) (P V : List ℚ), P.length = d → V.length = d →
    Kin.sliceVec Ops.rat (List.replicate d l) P V dt = List.zipWith (fun p vd => pywrap Ops.rat (p + vd * dt) l) P V
  | 0, [], [], _, _ => by simp [Kin.sliceVec]
  | d + 1, p :: P, x :: V, hP, hV => by
    simp only [List.replicate_succ, Kin.sliceVec, Kin.sliceCoord, List.zipWith_cons_cons]
    rw [sliceVec_replicate l dt d P V (by simpa using hP) (by simpa using hV)]

/-! ### 1. the shape of the confirmed out-state -/

/-- the computation: `_pass_composite_object_velocity` on the time-sliced two-dipole branches -/
theorem passComposite_dipoles (c : Consts ℚ) (ht : 0 < c.tiny) (hL : 0 < c.L) (et sr s0 s1 : Time ℚ) (a b : Nat) (hab : a ≠ b)
    (v ra a0 a1 rb b0 b1 : List ℚ) (qa0 qa1 qb0 qb1 : ℚ) :
    passComposite Ops.rat c et (timeSliceState Ops.rat c et (inSt a b v ra a0 a1 rb b0 b1 qa0 qa1 qb0 qb1 sr s0 s1))
      = .ok (outSt c et a b v ra a0 a1 rb b0 b1 qa0 qa1 qb0 qb1 sr s0 s1) := by
  have hne : (a == b) = false := by simpa using hab
  have hne2 : (b == a) = false := by simpa using hab.symm
  have hroot := sl_sl c hL et sr ra v
  simp only [sl] at hroot
  rcases Nat.lt_or_gt_of_ne hab with h | h
  · have h' : ¬ b < a := Nat.not_lt.mpr (Nat.le_of_lt h)
    simp [passComposite, timeSliceState, timeSliceUnit, inSt, outSt, sl, dip, leafUnits, leafRefs, getLeaf,
      constructComposite, sortUnits, insSorted, idLt, h, h', hne, hne2, hab, hab.symm, Function.comp_def,
      List.zipWith_map_left, List.zipWith_map_right, List.zipWith_self, absLt, List.range, List.range.loop,
      List.zipIdx, passStep, setLeaf, Thin.register, commitUnit, half2, cancel2, ht, hroot]
  · 
    simp [passComposite, timeSliceState, timeSliceUnit, inSt, outSt, sl, dip, leafUnits, leafRefs, getLeaf,
      constructComposite, sortUnits, insSorted, idLt, h, hne, hne2, hab, hab.symm, Function.comp_def,
      List.zipWith_map_left, List.zipWith_map_right, List.zipWith_self, absLt, List.range, List.range.loop,
      List.zipIdx, passStep, setLeaf, Thin.register, commitUnit, half2, cancel2, ht, hroot]

/-- a confirmed `send_out_state` of kinds 7 / 8 returns what `_pass_composite_object_velocity` made of the time-sliced
branches (any state, any `α = ℚ` inputs) -/
theorem sendRoot_confirmed (c : Consts ℚ) (kind : Nat) (uc : Bool) (et : Time ℚ) (ist branches : List (CNode ℚ))
    (bds qs : List ℚ) (dr : Draw ℚ) {st' w cs ins u}
    (h : sendRoot Ops.rat c kind uc et ist branches bds qs dr = .out st' true w cs ins u) :
    passComposite Ops.rat c et (timeSliceState Ops.rat c et branches) = .ok st' := by
  simp only [sendRoot] at h
  repeat' split at h
  all_goals first | (cases h; assumption) | cases h

/-- velocity component `k` (`None` read as zero) -/
def vAt (o : Option (List ℚ)) (k : Nat) : ℚ := match o with | none => 0 | some v => v.getD k 0
/-- `Σ_objects Σ_leaves weight · velocity`, component `k` -/
def leafMomentum (st : List (CNode ℚ)) (k : Nat) : ℚ :=
  (st.map fun r => (r.children.map fun cw => cw.2 * vAt cw.1.vel k).sum).sum
/-- `Σ_objects root weight · root velocity`, component `k` -/
def rootMomentum (st : List (CNode ℚ)) (k : Nat) : ℚ := (st.map fun r => r.weight * vAt r.unit.vel k).sum

/-- **1. shape of the confirmed out-state** (two dipoles, see the header for what is missing to the general statement).
A confirmed `send_out_state` of the root-unit-active handlers (kind 7: thinned, kind 8: not) on the in-state `inSt`
returns exactly `outSt`: every unit of the formerly active dipole at rest (velocity and time stamp `None`) at its
time-sliced position, every unit of the target dipole moving with `v` and stamped with the event time at its old
position; the weighted velocity sums over both objects (leaf level and root level) are conserved. -/
theorem passComposite_shape_partial (c : Consts ℚ) (ht : 0 < c.tiny) (hL : 0 < c.L) (kind : Nat) (uc : Bool)
    (et sr s0 s1 : Time ℚ) (a b : Nat) (hab : a ≠ b) (v ra a0 a1 rb b0 b1 : List ℚ) (qa0 qa1 qb0 qb1 : ℚ)
    (ist : List (CNode ℚ)) (bds qs : List ℚ) (dr : Draw ℚ) {st' w cs ins u}
    (h : sendRoot Ops.rat c kind uc et ist (inSt a b v ra a0 a1 rb b0 b1 qa0 qa1 qb0 qb1 sr s0 s1) bds qs dr
          = .out st' true w cs ins u) :
    st' = outSt c et a b v ra a0 a1 rb b0 b1 qa0 qa1 qb0 qb1 sr s0 s1
      ∧ st' = [dip a (sl c et sr ra v) (sl c et s0 a0 v) (sl c et s1 a1 v) qa0 qa1 none none none none,
               dip b rb b0 b1 qb0 qb1 (some v) (some et) (some et) (some et)]
      ∧ AtRest (dip a (sl c et sr ra v) (sl c et s0 a0 v) (sl c et s1 a1 v) qa0 qa1 none none none none)
      ∧ MovesWith v (dip b rb b0 b1 qb0 qb1 (some v) (some et) (some et) (some et))
      ∧ velocities st' = [none, none, none, some v, some v, some v]
      ∧ (∀ k, leafMomentum st' k = leafMomentum (inSt a b v ra a0 a1 rb b0 b1 qa0 qa1 qb0 qb1 sr s0 s1) k)
      ∧ (∀ k, rootMomentum st' k = rootMomentum (inSt a b v ra a0 a1 rb b0 b1 qa0 qa1 qb0 qb1 sr s0 s1) k) := by
  have h1 := sendRoot_confirmed c kind uc et ist _ bds qs dr h
  rw [passComposite_dipoles c ht hL et sr s0 s1 a b hab] at h1
  have h2 : st' = outSt c et a b v ra a0 a1 rb b0 b1 qa0 qa1 qb0 qb1 sr s0 s1 := (Except.ok.inj h1).symm
  subst h2
  refine ⟨rfl, rfl, by simp [AtRest, dip], by simp [MovesWith, dip], by simp [velocities, outSt, dip], ?_, ?_⟩
  · intro k; simp [leafMomentum, outSt, inSt, dip, vAt]
  · intro k; simp [rootMomentum, outSt, inSt, dip, vAt]

/-! ### 2. the same event in C12's machine -/

/-- forget identifier and charge -/
def toP (u : LUnit ℚ) : PUnit ℚ := ⟨u.pos, u.vel, u.ts⟩
/-- a branch holding the whole composite object, read as a composite object of `JF.Composite` -/
def toObj (r : CNode ℚ) : CObj ℚ := ⟨toP r.unit, r.children.map fun cw => toP cw.1⟩

theorem passComposite_eq_composite_pass_partial (c : Consts ℚ) (ht : 0 < c.tiny) (hL : 0 < c.L) (kind : Nat) (uc : Bool)
    (et sr s0 s1 : Time ℚ) (a b : Nat) (hab : a ≠ b) (d : Nat) (v ra a0 a1 rb b0 b1 : List ℚ)
    (hv : v.length = d) (hra : ra.length = d) (ha0 : a0.length = d) (ha1 : a1.length = d) (qa0 qa1 qb0 qb1 : ℚ)
    (ist : List (CNode ℚ)) (bds qs : List ℚ) (dr : Draw ℚ) {st' w cs ins u}
    (h : sendRoot Ops.rat c kind uc et ist (inSt a b v ra a0 a1 rb b0 b1 qa0 qa1 qb0 qb1 sr s0 s1) bds qs dr
          = .out st' true w cs ins u) :
    st'.map toObj = Composite.step Ops.rat JF.Composite.isZ (List.replicate d c.L)
      ((inSt a b v ra a0 a1 rb b0 b1 qa0 qa1 qb0 qb1 sr s0 s1).map toObj) (.pass et [0, 1] 0 1) := by
  obtain ⟨h2, -⟩ := passComposite_shape_partial c ht hL kind uc et sr s0 s1 a b hab v ra a0 a1 rb b0 b1 qa0 qa1 qb0 qb1
    ist bds qs dr h
  subst h2
  have hroot := sl_sl c hL et sr ra v
  simp only [sl] at hroot
  simp [Composite.step, Composite.pass, Composite.sliceAt, Composite.sliceComp, Kin.timeSlice, Composite.leafOf,
    Composite.applyUpds, Composite.passLocalUpds, Composite.passTargetUpds, Composite.pendOf, Composite.pendFrom,
    Composite.register, Composite.commitRoot, Composite.setLeaves,
    Composite.vscale, Composite.vadd, Composite.vneg, Composite.weight, JF.Composite.isZ, List.range, List.range.loop,
    outSt, inSt, dip, toObj, toP, sl, sliceVec_replicate, hv, hra, ha0, ha1, Function.comp_def,
    List.zipWith_map_left, List.zipWith_map_right, List.zipWith_self, half2, cancel2, hroot]

theorem boxOK_replicate (d : Nat) (l : ℚ) (hl : 0 < l) : Composite.BoxOK d (List.replicate d l) :=
  ⟨by simp, fun x hx => by rw [(List.mem_replicate.mp hx).2]; exact hl⟩

/-- **2b. `RootConsistent` after a confirmed root-mode event**: if the in-state (read as two composite objects of
`JF.Composite`) satisfies C12's invariant `Good`, every object of the confirmed out-state of the root-unit-active
handlers satisfies `C12.RootConsistent` (via `passComposite_eq_composite_pass_partial` and C12's `pass_good`). -/
theorem rootConsistent_after_confirmed_partial (c : Consts ℚ) (ht : 0 < c.tiny) (hL : 0 < c.L) (kind : Nat) (uc : Bool)
    (et sr s0 s1 : Time ℚ) (a b : Nat) (hab : a ≠ b) (d : Nat) (v ra a0 a1 rb b0 b1 : List ℚ)
    (hv : v.length = d) (hra : ra.length = d) (ha0 : a0.length = d) (ha1 : a1.length = d) (qa0 qa1 qb0 qb1 : ℚ)
    (hG : Composite.AllGood d (List.replicate d c.L) ((inSt a b v ra a0 a1 rb b0 b1 qa0 qa1 qb0 qb1 sr s0 s1).map toObj))
    (ist : List (CNode ℚ)) (bds qs : List ℚ) (dr : Draw ℚ) {st' w cs ins u}
    (h : sendRoot Ops.rat c kind uc et ist (inSt a b v ra a0 a1 rb b0 b1 qa0 qa1 qb0 qb1 sr s0 s1) bds qs dr
          = .out st' true w cs ins u) :
    ∀ o ∈ st'.map toObj, C12.RootConsistent (List.replicate d c.L) o := by
  rw [passComposite_eq_composite_pass_partial c ht hL kind uc et sr s0 s1 a b hab d v ra a0 a1 rb b0 b1 hv hra ha0 ha1
    qa0 qa1 qb0 qb1 ist bds qs dr h]
  have hgood := Composite.pass_good (boxOK_replicate d c.L hL) hG et [0, 1] 0 1 (by simp) (by decide)
    (cL := toObj (dip a (sl c et sr ra v) (sl c et s0 a0 v) (sl c et s1 a1 v) qa0 qa1 (some v) (some et) (some et) (some et)))
    (cT := toObj (dip b rb b0 b1 qb0 qb1 none none none none)) (v := v)
    (by simp [Composite.sliceAt, Composite.sliceComp, Kin.timeSlice, inSt, dip, toObj, toP, sl, sliceVec_replicate,
          hv, hra, ha0, ha1])
    (by simp [Composite.sliceAt, Composite.sliceComp, Kin.timeSlice, inSt, dip, toObj, toP, sliceVec_replicate,
          hv, hra, ha0, ha1])
    (by simp [dip, toObj, toP]) (by simp [dip, toObj, toP])
  exact fun o ho => C12.good_rootConsistent (hgood o ho)

/-- **2c. the rejected branch** (any state, kind 7): the out-state is the time-sliced in-state and every velocity is
as handed in (`C04.sendRoot_spec`) -/
theorem sendRoot_rejected (c : Consts ℚ) (kind : Nat) (hk : kind ≠ 8) (uc : Bool) (et : Time ℚ)
    (ist branches : List (CNode ℚ)) (bds qs : List ℚ) (dr : Draw ℚ) {st' w cs ins u}
    (h : sendRoot Ops.rat c kind uc et ist branches bds qs dr = .out st' false w cs ins u) :
    st' = timeSliceState Ops.rat c et branches ∧ velocities st' = velocities branches :=
  (C04.sendRoot_spec Ops.rat c kind hk uc et ist branches bds qs dr h).2.1 rfl

/-! ### the other branch order: `[target, active]` -/

def inStR (a b : Nat) (v ra a0 a1 rb b0 b1 : List ℚ) (qa0 qa1 qb0 qb1 : ℚ) (sr s0 s1 : Time ℚ) : List (CNode ℚ) :=
  [dip b rb b0 b1 qb0 qb1 none none none none, dip a ra a0 a1 qa0 qa1 (some v) (some sr) (some s0) (some s1)]

def outStR (c : Consts ℚ) (et : Time ℚ) (a b : Nat) (v ra a0 a1 rb b0 b1 : List ℚ) (qa0 qa1 qb0 qb1 : ℚ)
    (sr s0 s1 : Time ℚ) : List (CNode ℚ) :=
  [dip b rb b0 b1 qb0 qb1 (some v) (some et) (some et) (some et),
   dip a (sl c et sr ra v) (sl c et s0 a0 v) (sl c et s1 a1 v) qa0 qa1 none none none none]

theorem passComposite_dipoles_rev (c : Consts ℚ) (ht : 0 < c.tiny) (hL : 0 < c.L) (et sr s0 s1 : Time ℚ) (a b : Nat)
    (hab : a ≠ b) (v ra a0 a1 rb b0 b1 : List ℚ) (qa0 qa1 qb0 qb1 : ℚ) :
    passComposite Ops.rat c et (timeSliceState Ops.rat c et (inStR a b v ra a0 a1 rb b0 b1 qa0 qa1 qb0 qb1 sr s0 s1))
      = .ok (outStR c et a b v ra a0 a1 rb b0 b1 qa0 qa1 qb0 qb1 sr s0 s1) := by
  have hne : (a == b) = false := by simpa using hab
  have hne2 : (b == a) = false := by simpa using hab.symm
  have hroot := sl_sl c hL et sr ra v
  simp only [sl] at hroot
  rcases Nat.lt_or_gt_of_ne hab with h | h
  · simp [passComposite, timeSliceState, timeSliceUnit, inStR, outStR, sl, dip, leafUnits, leafRefs, getLeaf,
      constructComposite, sortUnits, insSorted, idLt, h, hne, hne2, hab.symm, Function.comp_def,
      List.zipWith_map_left, List.zipWith_map_right, List.zipWith_self, absLt, List.range, List.range.loop,
      List.zipIdx, passStep, setLeaf, Thin.register, commitUnit, half2, cancel2, ht, hroot]
  · have h' : ¬ a < b := Nat.not_lt.mpr (Nat.le_of_lt h)
    simp [passComposite, timeSliceState, timeSliceUnit, inStR, outStR, sl, dip, leafUnits, leafRefs, getLeaf,
      constructComposite, sortUnits, insSorted, idLt, h, h', hne, hne2, hab.symm, Function.comp_def,
      List.zipWith_map_left, List.zipWith_map_right, List.zipWith_self, absLt, List.range, List.range.loop,
      List.zipIdx, passStep, setLeaf, Thin.register, commitUnit, half2, cancel2, ht, hroot]

/-- `passComposite_shape_partial` for the branch order `[target, active]` -/
theorem passComposite_shape_rev_partial (c : Consts ℚ) (ht : 0 < c.tiny) (hL : 0 < c.L) (kind : Nat) (uc : Bool)
    (et sr s0 s1 : Time ℚ) (a b : Nat) (hab : a ≠ b) (v ra a0 a1 rb b0 b1 : List ℚ) (qa0 qa1 qb0 qb1 : ℚ)
    (ist : List (CNode ℚ)) (bds qs : List ℚ) (dr : Draw ℚ) {st' w cs ins u}
    (h : sendRoot Ops.rat c kind uc et ist (inStR a b v ra a0 a1 rb b0 b1 qa0 qa1 qb0 qb1 sr s0 s1) bds qs dr
          = .out st' true w cs ins u) :
    st' = [dip b rb b0 b1 qb0 qb1 (some v) (some et) (some et) (some et),
           dip a (sl c et sr ra v) (sl c et s0 a0 v) (sl c et s1 a1 v) qa0 qa1 none none none none]
      ∧ velocities st' = [some v, some v, some v, none, none, none]
      ∧ (∀ k, leafMomentum st' k = leafMomentum (inStR a b v ra a0 a1 rb b0 b1 qa0 qa1 qb0 qb1 sr s0 s1) k)
      ∧ (∀ k, rootMomentum st' k = rootMomentum (inStR a b v ra a0 a1 rb b0 b1 qa0 qa1 qb0 qb1 sr s0 s1) k) := by
  have h1 := sendRoot_confirmed c kind uc et ist _ bds qs dr h
  rw [passComposite_dipoles_rev c ht hL et sr s0 s1 a b hab] at h1
  have h2 : st' = outStR c et a b v ra a0 a1 rb b0 b1 qa0 qa1 qb0 qb1 sr s0 s1 := (Except.ok.inj h1).symm
  subst h2
  refine ⟨rfl, by simp [velocities, outStR, dip], ?_, ?_⟩
  · intro k; simp [leafMomentum, outStR, inStR, dip, vAt]
  · intro k; simp [rootMomentum, outStR, inStR, dip, vAt]

/-- `passComposite_eq_composite_pass_partial` for the branch order `[target, active]`: the event is `pass … 1 0` -/
theorem passComposite_eq_composite_pass_rev_partial (c : Consts ℚ) (ht : 0 < c.tiny) (hL : 0 < c.L) (kind : Nat)
    (uc : Bool) (et sr s0 s1 : Time ℚ) (a b : Nat) (hab : a ≠ b) (d : Nat) (v ra a0 a1 rb b0 b1 : List ℚ)
    (hv : v.length = d) (hra : ra.length = d) (ha0 : a0.length = d) (ha1 : a1.length = d) (qa0 qa1 qb0 qb1 : ℚ)
    (ist : List (CNode ℚ)) (bds qs : List ℚ) (dr : Draw ℚ) {st' w cs ins u}
    (h : sendRoot Ops.rat c kind uc et ist (inStR a b v ra a0 a1 rb b0 b1 qa0 qa1 qb0 qb1 sr s0 s1) bds qs dr
          = .out st' true w cs ins u) :
    st'.map toObj = Composite.step Ops.rat JF.Composite.isZ (List.replicate d c.L)
      ((inStR a b v ra a0 a1 rb b0 b1 qa0 qa1 qb0 qb1 sr s0 s1).map toObj) (.pass et [0, 1] 1 0) := by
  obtain ⟨h2, -⟩ := passComposite_shape_rev_partial c ht hL kind uc et sr s0 s1 a b hab v ra a0 a1 rb b0 b1 qa0 qa1 qb0
    qb1 ist bds qs dr h
  subst h2
  have hroot := sl_sl c hL et sr ra v
  simp only [sl] at hroot
  simp [Composite.step, Composite.pass, Composite.sliceAt, Composite.sliceComp, Kin.timeSlice, Composite.leafOf,
    Composite.applyUpds, Composite.passLocalUpds, Composite.passTargetUpds, Composite.pendOf, Composite.pendFrom,
    Composite.register, Composite.commitRoot, Composite.setLeaves,
    Composite.vscale, Composite.vadd, Composite.vneg, Composite.weight, JF.Composite.isZ, List.range, List.range.loop,
    inStR, dip, toObj, toP, sl, sliceVec_replicate, hv, hra, ha0, ha1, Function.comp_def,
    List.zipWith_map_left, List.zipWith_map_right, List.zipWith_self, half2, cancel2, hroot]

theorem rootConsistent_after_confirmed_rev_partial (c : Consts ℚ) (ht : 0 < c.tiny) (hL : 0 < c.L) (kind : Nat)
    (uc : Bool) (et sr s0 s1 : Time ℚ) (a b : Nat) (hab : a ≠ b) (d : Nat) (v ra a0 a1 rb b0 b1 : List ℚ)
    (hv : v.length = d) (hra : ra.length = d) (ha0 : a0.length = d) (ha1 : a1.length = d) (qa0 qa1 qb0 qb1 : ℚ)
    (hG : Composite.AllGood d (List.replicate d c.L) ((inStR a b v ra a0 a1 rb b0 b1 qa0 qa1 qb0 qb1 sr s0 s1).map toObj))
    (ist : List (CNode ℚ)) (bds qs : List ℚ) (dr : Draw ℚ) {st' w cs ins u}
    (h : sendRoot Ops.rat c kind uc et ist (inStR a b v ra a0 a1 rb b0 b1 qa0 qa1 qb0 qb1 sr s0 s1) bds qs dr
          = .out st' true w cs ins u) :
    ∀ o ∈ st'.map toObj, C12.RootConsistent (List.replicate d c.L) o := by
  rw [passComposite_eq_composite_pass_rev_partial c ht hL kind uc et sr s0 s1 a b hab d v ra a0 a1 rb b0 b1 hv hra ha0
    ha1 qa0 qa1 qb0 qb1 ist bds qs dr h]
  have hgood := Composite.pass_good (boxOK_replicate d c.L hL) hG et [0, 1] 1 0 (by simp) (by decide)
    (cL := toObj (dip a (sl c et sr ra v) (sl c et s0 a0 v) (sl c et s1 a1 v) qa0 qa1 (some v) (some et) (some et) (some et)))
    (cT := toObj (dip b rb b0 b1 qb0 qb1 none none none none)) (v := v)
    (by simp [Composite.sliceAt, Composite.sliceComp, Kin.timeSlice, inStR, dip, toObj, toP, sl, sliceVec_replicate,
          hv, hra, ha0, ha1])
    (by simp [Composite.sliceAt, Composite.sliceComp, Kin.timeSlice, inStR, dip, toObj, toP, sliceVec_replicate,
          hv, hra, ha0, ha1])
    (by simp [dip, toObj, toP]) (by simp [dip, toObj, toP])
  exact fun o ho => C12.good_rootConsistent (hgood o ho)

/-- non-vacuity of the `[target, active]` theorems: the C04 example's branch order with the roles swapped -/
example : C04.confirmed? (sendRoot Ops.rat C04.exC 8 false ⟨5, 1/2⟩ []
    (inStR 3 0 [1, 0, 0] [6/10, 7/10, 3/10] [6/10, 7/10, 3/10] [7/10, 7/10, 3/10] [15/100, 2/10, 3/10] [1/10, 2/10, 3/10]
        [2/10, 2/10, 3/10] 1 (-1) 1 (-1) ⟨5, 1/4⟩ ⟨5, 1/4⟩ ⟨5, 1/4⟩) [] [] (.value 0)) = some true := by decide +kernel

/-! ### 3. non-vacuity: the two dipoles of `JF/Props/C04.lean` (`dipAct` = dipole 0 moving, `dipB` = dipole 3 at rest) -/

/-- all fields of a unit / a state as nested lists (types with decidable equality, for the kernel-evaluated examples) -/
def flatU (u : LUnit ℚ) (w : ℚ) : List ℕ × List (Option (List ℚ)) :=
  (u.id, [some u.pos, some [u.charge, w], u.vel, u.ts.map fun t => [t.q, t.r]])
def flat (st : List (CNode ℚ)) : List (List (List ℕ × List (Option (List ℚ)))) :=
  st.map fun r => flatU r.unit r.weight :: r.children.map fun cw => flatU cw.1 cw.2
def flatP (u : PUnit ℚ) : List (Option (List ℚ)) := [some u.pos, u.vel, u.ts.map fun t => [t.q, t.r]]
def flatO (cs : List (CObj ℚ)) : List (List (List (Option (List ℚ)))) :=
  cs.map fun o => flatP o.root :: o.leaves.map flatP
/-- the out-state of a result (`[]` for error outcomes) -/
def outOf : Res ℚ → List (CNode ℚ)
  | .out st' _ _ _ _ _ => st'
  | _ => []

example : flat [C04.dipAct, C04.dipB]
    = flat (inSt 0 3 [1, 0, 0] [15/100, 2/10, 3/10] [1/10, 2/10, 3/10] [2/10, 2/10, 3/10] [6/10, 7/10, 3/10] [6/10, 7/10, 3/10]
        [7/10, 7/10, 3/10] 1 (-1) 1 (-1) ⟨5, 1/4⟩ ⟨5, 1/4⟩ ⟨5, 1/4⟩) := by decide +kernel

/-- the hypothesis `h` of the theorems is met (kind 7, confirmed draw `1/8`; kind 8) … -/
example : C04.confirmed? (sendRoot Ops.rat C04.exC 7 true ⟨5, 1/2⟩
    (timeSliceState Ops.rat C04.exC ⟨5, 1/2⟩ [C04.dipB, C04.dipAct])
    (inSt 0 3 [1, 0, 0] [15/100, 2/10, 3/10] [1/10, 2/10, 3/10] [2/10, 2/10, 3/10] [6/10, 7/10, 3/10] [6/10, 7/10, 3/10]
        [7/10, 7/10, 3/10] 1 (-1) 1 (-1) ⟨5, 1/4⟩ ⟨5, 1/4⟩ ⟨5, 1/4⟩)
    [2, -1, -1/2, 1] [3/2, -1, -1/4, 1/2] (.unit (1/8))) = some true := by decide +kernel

/-- … the out-state is the claimed one (evaluated by the kernel, independently of the proofs above): dipole 0 at rest
at `x + 1/4`, dipole 3 moving with `[1,0,0]` stamped `5 + 1/2` … -/
example : flat (outOf (sendRoot Ops.rat C04.exC 8 false ⟨5, 1/2⟩ []
    (inSt 0 3 [1, 0, 0] [15/100, 2/10, 3/10] [1/10, 2/10, 3/10] [2/10, 2/10, 3/10] [6/10, 7/10, 3/10] [6/10, 7/10, 3/10]
        [7/10, 7/10, 3/10] 1 (-1) 1 (-1) ⟨5, 1/4⟩ ⟨5, 1/4⟩ ⟨5, 1/4⟩) [] [] (.value 0)))
    = flat [dip 0 [40/100, 2/10, 3/10] [35/100, 2/10, 3/10] [45/100, 2/10, 3/10] 1 (-1) none none none none,
       dip 3 [6/10, 7/10, 3/10] [6/10, 7/10, 3/10] [7/10, 7/10, 3/10] 1 (-1) (some [1, 0, 0]) (some ⟨5, 1/2⟩)
         (some ⟨5, 1/2⟩) (some ⟨5, 1/2⟩)] := by decide +kernel

/-- … and read as composite objects it is what C12's machine makes of the in-state with the event `pass` -/
example : flatO ((outOf (sendRoot Ops.rat C04.exC 8 false ⟨5, 1/2⟩ []
    (inSt 0 3 [1, 0, 0] [15/100, 2/10, 3/10] [1/10, 2/10, 3/10] [2/10, 2/10, 3/10] [6/10, 7/10, 3/10] [6/10, 7/10, 3/10]
        [7/10, 7/10, 3/10] 1 (-1) 1 (-1) ⟨5, 1/4⟩ ⟨5, 1/4⟩ ⟨5, 1/4⟩) [] [] (.value 0))).map toObj)
    = flatO (Composite.step Ops.rat Composite.isZ [1, 1, 1] ([C04.dipAct, C04.dipB].map toObj)
        (.pass ⟨5, 1/2⟩ [0, 1] 0 1)) := by
  decide +kernel

/-- the invariant hypothesis `hG` of `rootConsistent_after_confirmed_partial` is satisfiable: the in-state reached in C12's
own example by the start-of-run event on both leaves of dipole 0 (dimension 2, box 1) is an `inSt` and is `AllGood` -/
theorem ex_inSt_good : Composite.AllGood 2 (List.replicate 2 (1 : ℚ))
    ((inSt 0 1 [1, 0] [1/2, 1/2] [3/4, 1/2] [1/4, 1/2] [1/10, 1/5] [3/10, 1/5] [9/10, 1/5] 1 (-1) 1 (-1)
      ⟨0, 0⟩ ⟨0, 0⟩ ⟨0, 0⟩).map toObj) := by
  have h := C12.step_good C12.exBox C12.ex_initial _ C12.ex_root_admissible.1
  have e : Composite.step Ops.rat Composite.isZ C12.exL [C12.exC0, C12.exC1] (.start 0 [0, 1] [1, 0])
      = (inSt 0 1 [1, 0] [1/2, 1/2] [3/4, 1/2] [1/4, 1/2] [1/10, 1/5] [3/10, 1/5] [9/10, 1/5] 1 (-1) 1 (-1)
          ⟨0, 0⟩ ⟨0, 0⟩ ⟨0, 0⟩).map toObj := by decide +kernel
  have eL : C12.exL = List.replicate 2 (1 : ℚ) := by decide +kernel
  rw [e, eL] at h
  exact h

/-- end to end on that in-state: the confirmed out-state of the handler without thinning (kind 8) at event time `1/4`
exists, and each of its two objects is `RootConsistent` -/
example : ∃ st' w cs ins u, sendRoot Ops.rat C04.exC 8 false ⟨0, 1/4⟩ []
      (inSt 0 1 [1, 0] [1/2, 1/2] [3/4, 1/2] [1/4, 1/2] [1/10, 1/5] [3/10, 1/5] [9/10, 1/5] 1 (-1) 1 (-1)
        ⟨0, 0⟩ ⟨0, 0⟩ ⟨0, 0⟩) [] [] (.value 0) = .out st' true w cs ins u
    ∧ ∀ o ∈ st'.map toObj, C12.RootConsistent (List.replicate 2 (1 : ℚ)) o := by
  obtain ⟨st', w, cs, ins, u, h⟩ := C04.exists_out_of_confirmed? (cf := true)
    (r := sendRoot Ops.rat C04.exC 8 false ⟨0, 1/4⟩ []
      (inSt 0 1 [1, 0] [1/2, 1/2] [3/4, 1/2] [1/4, 1/2] [1/10, 1/5] [3/10, 1/5] [9/10, 1/5] 1 (-1) 1 (-1)
        ⟨0, 0⟩ ⟨0, 0⟩ ⟨0, 0⟩) [] [] (.value 0)) (by decide +kernel)
  have hG : Composite.AllGood 2 (List.replicate 2 C04.exC.L)
      ((inSt 0 1 [1, 0] [1/2, 1/2] [3/4, 1/2] [1/4, 1/2] [1/10, 1/5] [3/10, 1/5] [9/10, 1/5] 1 (-1) 1 (-1)
        ⟨0, 0⟩ ⟨0, 0⟩ ⟨0, 0⟩).map toObj) := ex_inSt_good
  exact ⟨st', w, cs, ins, u, h,
    rootConsistent_after_confirmed_partial C04.exC (by norm_num [C04.exC]) (by norm_num [C04.exC]) 8 false _ _ _ _ 0 1
      (by decide) 2 _ _ _ _ _ _ _ rfl rfl rfl rfl _ _ _ _ hG _ _ _ _ h⟩

end JF.C04C12
