import JF.Props.C19Heap
import JF.Props.MediatorLoop
/-!
# C19 at the level of the composed mediator loop: a pickled-and-restored run continues identically

Model: `JF/Model/Mediator.lean` (`JF.Med.leg`, `runLegs`: the loop of `SingleProcessMediator.run`, composed of the
activator model, a scheduler behind the interface `SchedI`, and `_event_handler_with_shortest_event_time`).

What a dump/resume does to the real mediator: the mediating method of the dumping event handler
(`Mediator.mediate_dumping_event_handler` → `DumpingOutputHandler.write`: `dill.dump([mediator, setting, uuid,
random.getstate()], file)`) is the last statement of the loop body of `SingleProcessMediator.run`, so the pickled mediator is
the mediator **at a leg boundary**; `resume.py` does `dill.load`, restores `setting`/`uuid`/the random state and calls
`mediator.run()`, which enters the loop at its top.  The whole object graph of the mediator goes through `dill`.

* **Modelled as the identity (trusted base, "`dill` on ordinary objects")**: the activator with its bookkeeping (`MedState.act`:
  tag activators, pools of running / not running handlers, activation flags), `_event_handler_with_shortest_event_time`
  (`MedState.preceding`), the event handlers with their stored in-states and the global state (not components of this machine:
  their answers are the `Oracle` values, the same for both runs), the dictionary `_minimal_valid_counter` and
  `_last_returned_event` of `HeapScheduler` (copied by `__getstate__`/`__setstate__` as they are; in `HSched.pickle` they are the
  untouched fields `mv`, `last`), and the whole `ListScheduler` (no custom pickling; `pickleL = id`, `resume_list`).  These
  identities are exercised, not proved, by C19's correspondence (real dump / `resume.main()` runs compared bit for bit).
* **Proved**: the one component that is *rebuilt* — the C heap of `HeapScheduler` (`__getstate__` reads `entry(0), entry(1), …`
  until the `NULL` handler, `__setstate__` inserts them one by one into a fresh `heap.c` heap; `HSched.pickle`, model in
  `JF/Model/Sched.lean`).  The rebuilt heap differs from the original (allocated size, memory beyond `length`), and the proof
  that no future answer of the scheduler depends on the difference is C19Heap's (`LiveEq`, `push_liveEq`, `get_liveEq`,
  `trash_liveEq`, `pickle_liveEq`).  Nothing here goes through the spec-level scheduler or needs a no-tie hypothesis.

Contents.
1. `ObsEqI`: observational equality of scheduler states **through the mediator's interface** `SchedI` with the full outcomes
   (handler, time, kind of `SchedulerError`); `Bisim`; `obsEqI_bisim` / `Bisim.obsEq`: `ObsEqI` is the largest bisimulation.
2. `leg_congr`, `leg_respects_obsEq` (**the heart**): one leg from two mediator states that differ only by observationally
   equal scheduler components raises the same exception or produces the same record and again such states.
3. `runLegsE` (= `runLegs` with the exception kept), `runD` (runs with dump/resume steps), `runLegsE_congr`, `runD_congr`.
4. heap instance: `heapBisim`, `Reach` (reachable states, earlier round trips included), `reach_good`, `pickle_obsEqI`,
   **`resume_same_loop`** (pickle any reachable state, continue with any oracle list), `resume_same_runLegs` (the same for the
   model's `runLegs`), **`resume_at_boundary`** (pickle after any `k` legs of a run), **`resume_repeated`** (any number of
   dumps at any leg boundaries), `StRel.obsEqI` (the final states are observationally equal for ever).
5. `resume_list`: the list-scheduler version (identity).
6. `Example`: a run of the small wiring of `JF.MediatorLoop.Example` with time ties pending at the dump.

Hypotheses of the heap theorems: `StrictWeak cfg` (the time order), `0 < W` (counter range of a C `unsigned int`),
`Med.Static M` (duplicate-free create lists and disjoint pools; holds for every configuration with `WiringSound`:
`JF.MediatorLoop.static_of_wiringSound`) — the hypotheses under which `JF.MediatorLoop` proves the loop invariant `MInv`,
which is what makes every reachable scheduler state refine C06's reference model (`Rel`), the premise of `pickle_liveEq`.
-/
namespace JF.C19Loop
open JF JF.Act JF.Heap JF.Sched JF.Med JF.MediatorLoop

variable {κ : Type}

/-! ### 1. what the mediator can observe of a scheduler through `SchedI` -/

/-- the three calls of `SingleProcessMediator.run` -/
inductive IOp (κ : Type) where
  | push (t : κ) (h : HandlerId)
  | get
  | trash (h : HandlerId)

/-- their full outcomes: nothing for `push_event`; handler **and time**, or which of the two `SchedulerError`s, for
`get_succeeding_event`; whether `trash_event` raised -/
inductive IOut (κ : Type) where
  | unit
  | got (r : GetRes κ)
  | trashed (ok : Bool)

/-- one call (a `trash_event` that raises leaves the scheduler as it was) -/
def istep (I : SchedI κ) (s : I.σ) : IOp κ → IOut κ × I.σ
  | .push t h => (.unit, I.push s t h)
  | .get => (.got (I.get s).2, (I.get s).1)
  | .trash h =>
    match I.trash s h with
    | some s' => (.trashed true, s')
    | none => (.trashed false, s)

/-- the outcomes of a sequence of calls -/
def iouts (I : SchedI κ) : I.σ → List (IOp κ) → List (IOut κ)
  | _, [] => []
  | s, op :: ops => (istep I s op).1 :: iouts I (istep I s op).2 ops

/-- **observational equality through the interface**: every sequence of calls has the same outcomes (handlers, times,
kinds of error) on both states — of possibly different instances -/
def ObsEqI (I J : SchedI κ) (a : I.σ) (b : J.σ) : Prop := ∀ ops, iouts I a ops = iouts J b ops

/-- relation between optional successor states: both `none`, or both `some` and related -/
def OptRel {α β : Type} (Q : α → β → Prop) : Option α → Option β → Prop
  | some a, some b => Q a b
  | none, none => True
  | _, _ => False

/-- a relation between scheduler states that every call preserves and that forces equal outcomes -/
structure Bisim (I J : SchedI κ) (Q : I.σ → J.σ → Prop) : Prop where
  push : ∀ {a : I.σ} {b : J.σ} (t : κ) (h : HandlerId), Q a b → Q (I.push a t h) (J.push b t h)
  get : ∀ {a : I.σ} {b : J.σ}, Q a b → (I.get a).2 = (J.get b).2 ∧ Q (I.get a).1 (J.get b).1
  trash : ∀ {a : I.σ} {b : J.σ} (h : HandlerId), Q a b → OptRel Q (I.trash a h) (J.trash b h)

section obs
variable {I J : SchedI κ}

theorem ObsEqI.step {a : I.σ} {b : J.σ} (h : ObsEqI I J a b) (op : IOp κ) :
    (istep I a op).1 = (istep J b op).1 ∧ ObsEqI I J (istep I a op).2 (istep J b op).2 := by
  constructor
  · have := h [op]; simpa [iouts] using this
  · intro ops
    have := h (op :: ops)
    simp only [iouts, List.cons.injEq] at this
    exact this.2

/-- observational equality is itself such a relation (the largest one: `Bisim.obsEq`) -/
theorem obsEqI_bisim : Bisim I J (ObsEqI I J) where
  push t h q := (q.step (.push t h)).2
  get {a b} q := by
    obtain ⟨h1, h2⟩ := q.step .get
    exact ⟨by simpa [istep] using h1, h2⟩
  trash {a b} h q := by
    obtain ⟨h1, h2⟩ := q.step (.trash h)
    cases ha : I.trash a h <;> cases hb : J.trash b h <;> simp only [istep, ha, hb] at h1 h2 <;> simp only [OptRel]
    · cases h1
    · cases h1
    · exact h2

theorem Bisim.obsEq {Q : I.σ → J.σ → Prop} (B : Bisim I J Q) {a : I.σ} {b : J.σ} (q : Q a b) : ObsEqI I J a b := by
  intro ops
  induction ops generalizing a b with
  | nil => rfl
  | cons op ops ih =>
    cases op with
    | push t h => simp only [iouts, istep]; rw [ih (B.push t h q)]
    | get =>
      obtain ⟨e, q'⟩ := B.get q
      simp only [iouts, istep]; rw [e, ih q']
    | trash h =>
      have := B.trash h q
      simp only [iouts, istep]
      cases ha : I.trash a h <;> cases hb : J.trash b h <;> rw [ha, hb] at this <;> simp only [OptRel] at this
      · simp only; rw [ih q]
      · simp only; rw [ih this]

end obs

/-! ### 2. the heart: one leg respects observational equality of the scheduler component -/

/-- both raise the same exception, or both succeed with related values -/
def ExRel {ε α β : Type} (P : α → β → Prop) : Except ε α → Except ε β → Prop
  | .ok a, .ok b => P a b
  | .error e, .error e' => e = e'
  | _, _ => False

/-- two mediator states that differ at most in the scheduler component, and there by `Q` -/
structure StRel {σ τ : Type} (Q : σ → τ → Prop) (s : MedState σ) (s' : MedState τ) : Prop where
  act : s.act = s'.act
  preceding : s.preceding = s'.preceding
  sched : Q s.sched s'.sched

section congr
variable {I J : SchedI κ} {Q : I.σ → J.σ → Prop}

theorem pushLoop_congr (B : Bisim I J Q) (M : MWire) (o : Oracle κ) :
    ∀ (created : List (HandlerId × IdTuple)) (a : I.σ) (b : J.σ), Q a b →
      ExRel Q (pushLoop M I o a created) (pushLoop M J o b created) := by
  intro created
  induction created with
  | nil => intro a b q; exact q
  | cons x rest ih =>
    intro a b q
    obtain ⟨h, ids⟩ := x
    unfold pushLoop
    by_cases hc : (M.needsInState h != ids.isSome) = true
    · rw [if_pos hc, if_pos hc]; exact rfl
    · rw [if_neg hc, if_neg hc]; exact ih _ _ (B.push _ _ q)

theorem trashAll_congr (B : Bisim I J Q) :
    ∀ (hs : List HandlerId) (a : I.σ) (b : J.σ), Q a b → ExRel Q (trashAll I a hs) (trashAll J b hs) := by
  intro hs
  induction hs with
  | nil => intro a b q; exact q
  | cons h hs ih =>
    intro a b q
    have := B.trash h q
    unfold trashAll
    cases ha : I.trash a h <;> cases hb : J.trash b h <;> rw [ha, hb] at this <;> simp only [OptRel] at this
    · exact rfl
    · exact ih _ _ this

/-- **`leg` is a function of the scheduler only through its observable interface**: from two mediator states with the same
activator bookkeeping and the same preceding handler whose scheduler states are related by a bisimulation (in particular:
observationally equal, `leg_respects_obsEq`), one leg on the same oracle value raises the same exception, or succeeds with
exactly the same record (handed-out handlers, pushes, **committed handler and time**, trash list, stop flag) and again
related states -/
theorem leg_congr (B : Bisim I J Q) (M : MWire) (o : Oracle κ) {st : MedState I.σ} {st' : MedState J.σ}
    (r : StRel Q st st') :
    ExRel (fun x y => x.2 = y.2 ∧ StRel Q x.1 y.1) (leg M I st o) (leg M J st' o) := by
  obtain ⟨a, s, p⟩ := st
  obtain ⟨a', s', p'⟩ := st'
  obtain ⟨e1, e2, q⟩ := r
  simp only at e1 e2 q
  subst e1 e2
  unfold leg
  simp only
  cases (getToRun M.w M.S a p o.yields).2 with
  | tagActivatorError => exact rfl
  | assertionError => exact rfl
  | keyError => exact rfl
  | ok created =>
    simp only
    have h1 := pushLoop_congr B M o created s s' q
    cases hp : pushLoop M I o s created <;> cases hp' : pushLoop M J o s' created <;> rw [hp, hp'] at h1 <;>
      simp only [ExRel] at h1
    · exact h1
    · next s1 s1' =>
      simp only
      obtain ⟨g1, g2⟩ := B.get h1
      rw [← g1]
      cases (I.get s1).2 with
      | empty => exact rfl
      | guard h t => exact rfl
      | ok h t =>
        simp only
        cases (getTrashable M.w (getToRun M.w M.S a p o.yields).1 h).2 with
        | keyError => exact rfl
        | assertionError => exact rfl
        | ok trashed =>
          simp only
          have h3 := trashAll_congr B trashed _ _ g2
          cases ht : trashAll I (I.get s1).1 trashed <;> cases ht' : trashAll J (J.get s1').1 trashed <;>
            rw [ht, ht'] at h3 <;> simp only [ExRel] at h3
          · exact h3
          · exact ⟨rfl, rfl, rfl, h3⟩

theorem leg_respects_obsEq (M : MWire) (o : Oracle κ) {st : MedState I.σ} {st' : MedState J.σ}
    (r : StRel (ObsEqI I J) st st') :
    ExRel (fun x y => x.2 = y.2 ∧ StRel (ObsEqI I J) x.1 y.1) (leg M I st o) (leg M J st' o) :=
  leg_congr obsEqI_bisim M o r

end congr

/-! ### 3. whole runs, with the exception that ended them, and runs with dumps in between -/

/-- `JF.Med.runLegs`, keeping the exception that left the loop (`runLegsE_runLegs`: forgetting it gives `runLegs`) -/
def runLegsE (M : MWire) (I : SchedI κ) :
    MedState I.σ → List (Oracle κ) → List (Committed κ) × Except Err (MedState I.σ)
  | st, [] => ([], .ok st)
  | st, o :: os =>
    match leg M I st o with
    | .error e => ([], .error e)
    | .ok (st', c) =>
      if c.stop then ([c], .ok st')
      else
        let r := runLegsE M I st' os
        (c :: r.1, r.2)

theorem runLegsE_runLegs (M : MWire) (I : SchedI κ) : ∀ (os : List (Oracle κ)) (st : MedState I.σ),
    runLegs M I st os = ((runLegsE M I st os).1, (runLegsE M I st os).2.toOption) := by
  intro os
  induction os with
  | nil => intro st; rfl
  | cons o os ih =>
    intro st
    unfold runLegs runLegsE
    cases leg M I st o with
    | error e => rfl
    | ok x =>
      obtain ⟨st', c⟩ := x
      simp only
      by_cases hc : c.stop = true
      · rw [if_pos hc, if_pos hc]; rfl
      · rw [if_neg hc, if_neg hc, ih st']

/-- one step of an interrupted run: a leg of the loop, or a dump followed by a resume (the mediator is pickled at the end of a
leg — `mediate_dumping_event_handler` is the last statement of the loop body — and the run is continued on the unpickled
copy: `resume.py` loads the mediator and calls `run`, which enters the loop at its top) -/
inductive Step (κ : Type) where
  | leg (o : Oracle κ)
  | dump

/-- the oracle values of an interrupted run (dumps consume none) -/
def oraclesOf : List (Step κ) → List (Oracle κ)
  | [] => []
  | .leg o :: ss => o :: oraclesOf ss
  | .dump :: ss => oraclesOf ss

/-- the mediator after a dump/resume, `pk` being what pickling does to the scheduler object.  Every other component —
activator bookkeeping (`act`), `_event_handler_with_shortest_event_time` (`preceding`) — is restored as it was: this is the
modelling assumption "`dill` is the identity on ordinary objects" (trusted base, exercised by the real dump/resume runs of
C19's check) -/
def dumpWith {σ : Type} (pk : σ → σ) (st : MedState σ) : MedState σ := { st with sched := pk st.sched }

/-- the loop with dump/resume round trips at the marked leg boundaries -/
def runD (M : MWire) (I : SchedI κ) (pk : I.σ → I.σ) :
    MedState I.σ → List (Step κ) → List (Committed κ) × Except Err (MedState I.σ)
  | st, [] => ([], .ok st)
  | st, .dump :: ss => runD M I pk (dumpWith pk st) ss
  | st, .leg o :: ss =>
    match leg M I st o with
    | .error e => ([], .error e)
    | .ok (st', c) =>
      if c.stop then ([c], .ok st')
      else
        let r := runD M I pk st' ss
        (c :: r.1, r.2)

/-- same commits (all fields: handler, time, pushes, trash list, stop flag), same exception, related final states -/
def RunRel {σ τ : Type} (Q : σ → τ → Prop) (r : List (Committed κ) × Except Err (MedState σ))
    (r' : List (Committed κ) × Except Err (MedState τ)) : Prop :=
  r.1 = r'.1 ∧ ExRel (StRel Q) r.2 r'.2

theorem runLegsE_cons (M : MWire) (I : SchedI κ) (st : MedState I.σ) (o : Oracle κ) (os : List (Oracle κ)) :
    runLegsE M I st (o :: os) =
      match leg M I st o with
      | .error e => ([], .error e)
      | .ok (st', c) => if c.stop then ([c], .ok st') else (c :: (runLegsE M I st' os).1, (runLegsE M I st' os).2) := by
  rw [runLegsE]

theorem runD_leg (M : MWire) (I : SchedI κ) (pk : I.σ → I.σ) (st : MedState I.σ) (o : Oracle κ) (ss : List (Step κ)) :
    runD M I pk st (.leg o :: ss) =
      match leg M I st o with
      | .error e => ([], .error e)
      | .ok (st', c) => if c.stop then ([c], .ok st') else (c :: (runD M I pk st' ss).1, (runD M I pk st' ss).2) := by
  rw [runD]

section runs
variable {I J : SchedI κ} {Q : I.σ → J.σ → Prop}

/-- **whole runs respect observational equality of the scheduler component** (two instances, any oracle list) -/
theorem runLegsE_congr (B : Bisim I J Q) (M : MWire) : ∀ (os : List (Oracle κ)) {st : MedState I.σ} {st' : MedState J.σ},
    StRel Q st st' → RunRel Q (runLegsE M I st os) (runLegsE M J st' os) := by
  intro os
  induction os with
  | nil => intro st st' r; exact ⟨rfl, r⟩
  | cons o os ih =>
    intro st st' r
    have h := leg_congr B M o r
    unfold runLegsE
    cases h1 : leg M I st o <;> cases h2 : leg M J st' o <;> rw [h1, h2] at h <;> simp only [ExRel] at h
    · exact ⟨rfl, h⟩
    · next x y =>
      obtain ⟨s1, c⟩ := x
      obtain ⟨s1', c'⟩ := y
      obtain ⟨hc, hr⟩ := h
      simp only at hc hr ⊢
      subst hc
      by_cases hs : c.stop = true
      · rw [if_pos hs, if_pos hs]; exact ⟨rfl, hr⟩
      · rw [if_neg hs, if_neg hs]
        obtain ⟨i1, i2⟩ := ih hr
        exact ⟨by rw [i1], i2⟩

end runs

section dumps
variable {I : SchedI κ} {Q : I.σ → I.σ → Prop}

/-- **dump/resume round trips are invisible**, generically: if on every state satisfying an invariant `G` of the loop
(preserved by legs and by dumps) the pickled scheduler is `Q`-related to the original, `Q` a transitive bisimulation,
then the run with round trips at any leg boundaries makes the commits of the uninterrupted run on the same oracle values,
raises the same exception, and ends in a related state.  (The uninterrupted run may itself start from a related state.) -/
theorem runD_congr (B : Bisim I I Q) (trans : ∀ {a b c : I.σ}, Q a b → Q b c → Q a c) (M : MWire) (pk : I.σ → I.σ)
    (G : MedState I.σ → Prop)
    (Gleg : ∀ {st st' : MedState I.σ} {o : Oracle κ} {c : Committed κ}, G st → leg M I st o = .ok (st', c) → G st')
    (Gpk : ∀ {st : MedState I.σ}, G st → G (dumpWith pk st) ∧ Q st.sched (pk st.sched)) :
    ∀ (ss : List (Step κ)) {st0 st : MedState I.σ}, StRel Q st0 st → G st →
      RunRel Q (runLegsE M I st0 (oraclesOf ss)) (runD M I pk st ss) := by
  intro ss
  induction ss with
  | nil => intro st0 st r _; exact ⟨rfl, r⟩
  | cons x ss ih =>
    intro st0 st r g
    cases x with
    | dump =>
      obtain ⟨g', q⟩ := Gpk g
      exact ih (st := dumpWith pk st) ⟨r.act, r.preceding, trans r.sched q⟩ g'
    | leg o =>
      have h := leg_congr B M o r
      unfold runD oraclesOf runLegsE
      cases h1 : leg M I st0 o <;> cases h2 : leg M I st o <;> rw [h1, h2] at h <;> simp only [ExRel] at h
      · exact ⟨rfl, h⟩
      · next x y =>
        obtain ⟨s1, c⟩ := x
        obtain ⟨s1', c'⟩ := y
        obtain ⟨hc, hr⟩ := h
        simp only at hc hr ⊢
        subst hc
        by_cases hs : c.stop = true
        · rw [if_pos hs, if_pos hs]; exact ⟨rfl, hr⟩
        · rw [if_neg hs, if_neg hs]
          obtain ⟨i1, i2⟩ := ih hr (Gleg g h2)
          exact ⟨by rw [i1], i2⟩

end dumps

/-! ### 4. the heap scheduler: the one component that pickling rebuilds -/

section heap
variable {cfg : Cfg κ} {W : Nat} {M : MWire}

/-- the mediator after a dump/resume with the heap scheduler: `HeapScheduler.__getstate__` reads the entries of the C heap
in array order, `__setstate__` re-inserts them into a fresh heap (`HSched.pickle`, C06's model); `_minimal_valid_counter`
and `_last_returned_event` are ordinary attributes -/
abbrev dumpH (cfg : Cfg κ) (st : MedState (heapI cfg W).σ) : MedState (heapI cfg W).σ := dumpWith (HSched.pickle cfg) st

/-- "same live part" (`JF.Sched.LiveEq`, the relation behind C19Heap's observational equality: same entries at the indices
`1 … length - 1`, same counters, same last returned time; allocated size and memory beyond `length` free) is a bisimulation
of the heap instance: `push_liveEq`, `get_liveEq`, `trash_liveEq` — ties included, no reference to the spec scheduler -/
theorem heapBisim (o : StrictWeak cfg) (W : Nat) : Bisim (heapI cfg W) (heapI cfg W) (LiveEq cfg) where
  push t h q := push_liveEq o q W t (h + 1)
  get q := by
    obtain ⟨E, e⟩ := get_liveEq o q
    exact ⟨by show dec _ = dec _; rw [e], E⟩
  trash h q := trash_liveEq q (h + 1)

/-- … hence implies observational equality through the interface, for all future calls -/
theorem liveEq_obsEqI (o : StrictWeak cfg) (W : Nat) {a b : HSched κ} (E : LiveEq cfg a b) :
    ObsEqI (heapI cfg W) (heapI cfg W) a b := (heapBisim o W).obsEq E

/-- the invariant of the composed loop (`JF.Med.MInv`, heap instance) for some ghost dictionary -/
def Good (M : MWire) (cfg : Cfg κ) (W : Nat) (st : MedState (heapI cfg W).σ) : Prop :=
  ∃ (p : Pend κ) (l : κ), MInv M (I := heapI cfg W) (HRelM cfg W) st p l

/-- **reachable states** of the loop with the heap scheduler, earlier dump/resume round trips included -/
inductive Reach (M : MWire) (cfg : Cfg κ) (W : Nat) : MedState (heapI cfg W).σ → Prop
  | init : Reach M cfg W (MedState.init (heapI cfg W) M.w)
  | leg {st st' : MedState (heapI cfg W).σ} {o : Oracle κ} {c : Committed κ} :
      Reach M cfg W st → leg M (heapI cfg W) st o = .ok (st', c) → Reach M cfg W st'
  | dump {st : MedState (heapI cfg W).σ} : Reach M cfg W st → Reach M cfg W (dumpH cfg st)

theorem good_leg (o : StrictWeak cfg) (hW : 0 < W) (hs : Static M) {st st' : MedState (heapI cfg W).σ} {or : Oracle κ}
    {c : Committed κ} (g : Good M cfg W st) (e : leg M (heapI cfg W) st or = .ok (st', c)) : Good M cfg W st' := by
  obtain ⟨p, l, inv⟩ := g
  exact ⟨_, _, (leg_inv (heapLaws o hW) hs inv e).1⟩

/-- a dump keeps the invariant (C06's `pickle_spec`) and the live part (`pickle_liveEq`) -/
theorem good_dump (o : StrictWeak cfg) {st : MedState (heapI cfg W).σ} (g : Good M cfg W st) :
    Good M cfg W (dumpH cfg st) ∧ LiveEq cfg st.sched (HSched.pickle cfg st.sched) := by
  obtain ⟨p, l, inv⟩ := g
  obtain ⟨P1, _, P3, _⟩ := pickle_spec o inv.rel.1
  exact ⟨⟨p, l, inv.pool, ⟨P1, by show (HSched.pickle cfg st.sched).last = l; rw [P3]; exact inv.rel.2⟩, inv.mirror⟩,
    pickle_liveEq o inv.rel.1⟩

theorem reach_good (o : StrictWeak cfg) (hW : 0 < W) (hs : Static M) {st : MedState (heapI cfg W).σ}
    (r : Reach M cfg W st) : Good M cfg W st := by
  induction r with
  | init => exact ⟨_, _, minv_init (heapLaws o hW) M⟩
  | leg _ e ih => exact good_leg o hW hs ih e
  | dump _ ih => exact (good_dump o ih).1

/-- the runs of `JF.MediatorLoop` from the initial state end in reachable states -/
theorem reach_of_run {st0 st : MedState (heapI cfg W).σ} {os : List (Oracle κ)} {cs : List (Committed κ)}
    (hrun : Run M (heapI cfg W) st0 os cs st) : Reach M cfg W st0 → Reach M cfg W st := by
  induction hrun with
  | nil _ => exact id
  | cons hleg _ ih => exact fun r0 => ih (r0.leg hleg)

variable (o : StrictWeak cfg) (hW : 0 < W) (hs : Static M)
include o hW hs

/-- the unpickled scheduler of a reachable mediator state is observationally equal to the original through the mediator's
interface: same handlers, same times, same errors for every future sequence of calls -/
theorem pickle_obsEqI {st : MedState (heapI cfg W).σ} (r : Reach M cfg W st) :
    ObsEqI (heapI cfg W) (heapI cfg W) st.sched (HSched.pickle cfg st.sched) :=
  liveEq_obsEqI o W (good_dump o (reach_good o hW hs r)).2

/-- … and in C19Heap's own formulation (`JF.C19.ObsEq` of `JF.C19.heapSched`): the premise of `JF.C19.resume_same` holds at
every reachable state of the composed loop (here the loop invariant plays the role of `C06.Protocol` in `JF.C19.pickle_obsEq`) -/
theorem pickle_obsEq_reach {st : MedState (heapI cfg W).σ} (r : Reach M cfg W st) :
    C19.ObsEq (C19.heapSched cfg W) (C19.heapSched cfg W) st.sched (HSched.pickle cfg st.sched) :=
  C19.liveEq_obsEq o W (good_dump o (reach_good o hW hs r)).2

/-- **repeated dumps** (the general statement): from ANY reachable state of the composed loop with the heap scheduler, the
run with dump/resume round trips at ANY leg boundaries (`ss`: legs and dumps in any order, any number of dumps, also several
in a row) makes **exactly the commits** of the uninterrupted run on the same oracle values (created handlers, pushes,
committed handler, committed time, trash list, stop flag of every leg — ties between candidate times included), leaves the
loop with **the same exception** if any, and ends in a state with the same activator bookkeeping, the same preceding
handler and a scheduler with the same live part (hence observationally equal: `StRel.obsEqI`), i.e. the two final states
are again related by pickling-equivalence -/
theorem resume_repeated {st : MedState (heapI cfg W).σ} (r : Reach M cfg W st) (ss : List (Step κ)) :
    RunRel (LiveEq cfg) (runLegsE M (heapI cfg W) st (oraclesOf ss)) (runD M (heapI cfg W) (HSched.pickle cfg) st ss) :=
  runD_congr (heapBisim o W) (fun h1 h2 => h1.trans h2) M _ (Good M cfg W) (fun g e => good_leg o hW hs g e)
    (fun g => good_dump o g) ss
    ⟨rfl, rfl, LiveEq.refl (reach_good o hW hs r).choose_spec.choose_spec.rel.1.inv⟩ (reach_good o hW hs r)

/-- **resume = uninterrupted, composed loop**: replace the scheduler of any reachable mediator state by its
pickled-and-restored copy and continue with any oracle list: same commits, same exception, pickling-equivalent final states -/
theorem resume_same_loop {st : MedState (heapI cfg W).σ} (r : Reach M cfg W st) (os : List (Oracle κ)) :
    RunRel (LiveEq cfg) (runLegsE M (heapI cfg W) st os) (runLegsE M (heapI cfg W) (dumpH cfg st) os) :=
  runLegsE_congr (heapBisim o W) M os ⟨rfl, rfl, (good_dump o (reach_good o hW hs r)).2⟩

/-- the same for the states reached by the runs of `JF.MediatorLoop` from the initial state -/
theorem resume_same_loop_run {st : MedState (heapI cfg W).σ} {os0 : List (Oracle κ)} {cs0 : List (Committed κ)}
    (hrun : Run M (heapI cfg W) (MedState.init (heapI cfg W) M.w) os0 cs0 st) (os : List (Oracle κ)) :
    RunRel (LiveEq cfg) (runLegsE M (heapI cfg W) st os) (runLegsE M (heapI cfg W) (dumpH cfg st) os) :=
  resume_same_loop o hW hs (reach_of_run hrun Reach.init) os

/-- the same in terms of the model's own `runLegs` (which forgets the exception) -/
theorem resume_same_runLegs {st : MedState (heapI cfg W).σ} (r : Reach M cfg W st) (os : List (Oracle κ)) :
    (runLegs M (heapI cfg W) st os).1 = (runLegs M (heapI cfg W) (dumpH cfg st) os).1 ∧
    OptRel (StRel (LiveEq cfg)) (runLegs M (heapI cfg W) st os).2 (runLegs M (heapI cfg W) (dumpH cfg st) os).2 := by
  obtain ⟨h1, h2⟩ := resume_same_loop o hW hs r os
  rw [runLegsE_runLegs, runLegsE_runLegs]
  refine ⟨h1, ?_⟩
  simp only
  cases e1 : (runLegsE M (heapI cfg W) st os).2 <;> cases e2 : (runLegsE M (heapI cfg W) (dumpH cfg st) os).2 <;>
    rw [e1, e2] at h2 <;> simp only [ExRel] at h2
  · trivial
  · exact h2

omit o hW hs in
/-- a run that was not ended by the end-of-run handler continues on further oracle values where it stands -/
theorem runLegsE_append (I : SchedI κ) : ∀ (os1 os2 : List (Oracle κ)) (st st1 : MedState I.σ) (cs1 : List (Committed κ)),
    runLegsE M I st os1 = (cs1, .ok st1) → (∀ c ∈ cs1, c.stop = false) →
    runLegsE M I st (os1 ++ os2) = (cs1 ++ (runLegsE M I st1 os2).1, (runLegsE M I st1 os2).2) := by
  intro os1
  induction os1 with
  | nil =>
    intro os2 st st1 cs1 e _
    simp only [runLegsE, Prod.mk.injEq, Except.ok.injEq] at e
    obtain ⟨rfl, rfl⟩ := e
    rfl
  | cons x os1 ih =>
    intro os2 st st1 cs1 e hn
    rw [runLegsE_cons] at e
    rw [List.cons_append, runLegsE_cons]
    cases hl : leg M I st x with
    | error err => rw [hl] at e; simp at e
    | ok y =>
      obtain ⟨s', c⟩ := y
      rw [hl] at e
      simp only at e ⊢
      by_cases hc : c.stop = true
      · rw [if_pos hc] at e
        simp only [Prod.mk.injEq] at e
        have := hn c (by rw [← e.1]; simp)
        rw [hc] at this; cases this
      · rw [if_neg hc] at e
        rw [if_neg hc]
        simp only [Prod.mk.injEq] at e
        obtain ⟨rfl, e2⟩ := e
        have := ih os2 s' st1 _ (Prod.ext rfl e2) (fun c' hc' => hn c' (List.mem_cons_of_mem _ hc'))
        rw [this]; rfl

/-- **a pickle at an arbitrary leg boundary**: run `os1` (any number `k` of legs; the run has not ended), dump and resume,
continue on `os2`: the commits of the two parts, put together, are exactly the commits of the uninterrupted run on
`os1 ++ os2`, with the same exception and pickling-equivalent final states -/
theorem resume_at_boundary {st st1 : MedState (heapI cfg W).σ} (r : Reach M cfg W st) (os1 os2 : List (Oracle κ))
    {cs1 : List (Committed κ)} (e : runLegsE M (heapI cfg W) st os1 = (cs1, .ok st1)) (hn : ∀ c ∈ cs1, c.stop = false) :
    RunRel (LiveEq cfg) (runLegsE M (heapI cfg W) st (os1 ++ os2))
      (cs1 ++ (runLegsE M (heapI cfg W) (dumpH cfg st1) os2).1, (runLegsE M (heapI cfg W) (dumpH cfg st1) os2).2) := by
  have r1 : Reach M cfg W st1 := by
    have key : ∀ (os : List (Oracle κ)) (st st1 : MedState (heapI cfg W).σ) (cs : List (Committed κ)),
        Reach M cfg W st → runLegsE M (heapI cfg W) st os = (cs, .ok st1) → Reach M cfg W st1 := by
      intro os
      induction os with
      | nil =>
        intro st st1 cs r e
        simp only [runLegsE, Prod.mk.injEq, Except.ok.injEq] at e
        exact e.2 ▸ r
      | cons x os ih =>
        intro st st1 cs r e
        unfold runLegsE at e
        cases hl : leg M (heapI cfg W) st x with
        | error err => rw [hl] at e; simp at e
        | ok y =>
          obtain ⟨s', c⟩ := y
          rw [hl] at e
          simp only at e
          by_cases hc : c.stop = true
          · rw [if_pos hc] at e
            simp only [Prod.mk.injEq, Except.ok.injEq] at e
            exact e.2 ▸ r.leg hl
          · rw [if_neg hc] at e
            simp only [Prod.mk.injEq] at e
            exact ih s' st1 _ (r.leg hl) (Prod.ext rfl e.2)
    exact key os1 st st1 cs1 r e
  rw [runLegsE_append (heapI cfg W) os1 os2 st st1 cs1 e hn]
  obtain ⟨h1, h2⟩ := resume_same_loop o hW hs r1 os2
  exact ⟨by show cs1 ++ _ = cs1 ++ _; rw [h1], h2⟩

omit hW hs in
/-- pickling-equivalent mediator states are observationally equal for ever (so the theorems above apply again to whatever
happens after the final states) -/
theorem StRel.obsEqI {a b : MedState (heapI cfg W).σ} (r : StRel (LiveEq cfg) a b) :
    StRel (ObsEqI (heapI cfg W) (heapI cfg W)) a b := ⟨r.act, r.preceding, liveEq_obsEqI o W r.sched⟩

end heap

/-! ### 5. the list scheduler: no custom pickling -/

/-- `ListScheduler` has no `__getstate__`/`__setstate__`: its `_times` list and `_last_returned_event` are pickled as
ordinary attributes; C06's model of its pickle round trip (`JF.C06.lStep … .pickle`) is the identity -/
def pickleL (cfg : Cfg κ) : (listI cfg).σ → (listI cfg).σ := fun s => C06.lStep cfg s .pickle

theorem pickleL_id (cfg : Cfg κ) (s : (listI cfg).σ) : pickleL cfg s = s := rfl

/-- the run with dumps IS the run without, for the list scheduler — for every state, reachable or not (trivial, but it is
the other scheduler a shipped configuration can name) -/
theorem resume_list (M : MWire) (cfg : Cfg κ) : ∀ (ss : List (Step κ)) (st : MedState (listI cfg).σ),
    runD M (listI cfg) (pickleL cfg) st ss = runLegsE M (listI cfg) st (oraclesOf ss) := by
  intro ss
  induction ss with
  | nil => intro st; rfl
  | cons x ss ih =>
    intro st
    cases x with
    | dump => exact ih st
    | leg o =>
      rw [runD_leg]
      show _ = runLegsE M (listI cfg) st (o :: oraclesOf ss)
      rw [runLegsE_cons]
      cases leg M (listI cfg) st o with
      | error e => rfl
      | ok y =>
        obtain ⟨s', c⟩ := y
        simp only
        rw [ih s']

/-! ### 6. non-vacuity: the small wiring of `JF.MediatorLoop.Example`, with time ties, dumped in the middle -/

namespace Example
open JF.MediatorLoop.Example

/-- the factor tagger 0 yields two factors, so both of its handlers (0 and 1) run at the same time -/
def ys2 : TaggerIdx → List IdTuple := fun T => if T = 0 then [some [[5], [6]], some [[5], [7]]] else [none]

/-- ten oracle values: start of run at 0; then handlers 1 and 0 get the SAME candidate time 10 and sampling (handler 2)
commits at 5 — at this leg boundary the two tied events are pending; the tie is served (handler 1 first) in the next leg;
new ties at 12 and at 25; an infinite candidate time (1000) for handler 0; end of run (handler 3) at 30 -/
def q0 : Oracle Nat := ⟨ys2, fun _ => 0⟩
def q1 : Oracle Nat := ⟨ys2, fun h => if h < 2 then 10 else if h = 2 then 5 else 30⟩
def q2 : Oracle Nat := ⟨ys2, fun _ => 20⟩
def q3 : Oracle Nat := ⟨ys2, fun _ => 12⟩
def q4 : Oracle Nat := ⟨ys2, fun h => if h = 0 then 1000 else 13⟩
def q5 : Oracle Nat := ⟨ys2, fun _ => 25⟩
def q6 : Oracle Nat := ⟨ys2, fun _ => 40⟩
def q7 : Oracle Nat := ⟨ys2, fun _ => 50⟩
def qs : List (Oracle Nat) := [q0, q1, q2, q3, q4, q5, q6, q7, q7, q7]

abbrev H : SchedI Nat := heapI natCfg 4294967296
abbrev st0 : MedState H.σ := MedState.init H M.w

/-- everything a leg records, field by field -/
abbrev Same (a b : List (Committed Nat)) : Prop :=
  a.map (·.created) = b.map (·.created) ∧ a.map (·.pushed) = b.map (·.pushed) ∧ a.map (·.handler) = b.map (·.handler) ∧
  a.map (·.time) = b.map (·.time) ∧ a.map (·.trashed) = b.map (·.trashed) ∧ a.map (·.stop) = b.map (·.stop)
def errOf {α : Type} : Except Err α → Option Err
  | .ok _ => none
  | .error e => some e

/-- the uninterrupted run -/
def plain := runLegsE M H st0 qs

theorem plain_eq :
    plain.1.map (·.handler) = [4, 2, 1, 0, 1, 2, 0, 3] ∧ plain.1.map (·.time) = [0, 5, 10, 12, 13, 20, 25, 30] ∧
    plain.1.map (·.pushed) = [[(4, 0)], [(1, 10), (0, 10), (2, 5), (3, 30)], [(2, 20)], [(0, 12), (1, 12)],
      [(1, 13), (0, 1000)], [(0, 25), (1, 25)], [(2, 40)], [(1, 50), (0, 50)]] ∧
    plain.1.map (·.trashed) = [[4], [2], [1, 0], [0, 1], [1, 0], [2], [0, 1], [1, 0, 2, 3]] ∧
    plain.1.map (·.stop) = [false, false, false, false, false, false, false, true] ∧ errOf plain.2 = none := by
  decide +kernel

/-- the same oracle values with dumps before the first leg, after legs 2 (the tied events of handlers 1 and 0 are pending),
3 (twice in a row), 5, 8 -/
def steps : List (Step Nat) :=
  [.dump, .leg q0, .leg q1, .dump, .leg q2, .dump, .dump, .leg q3, .leg q4, .dump, .leg q5, .leg q6, .leg q7, .dump,
   .leg q7, .leg q7]
def dumped := runD M H (HSched.pickle natCfg) st0 steps

/-- computed: exactly the same records -/
example : Same dumped.1 plain.1 ∧ errOf dumped.2 = errOf plain.2 := by decide +kernel

/-- … and by the theorem, whose hypotheses hold here -/
example : RunRel (LiveEq natCfg) plain dumped :=
  resume_repeated natOrd (by decide) static Reach.init steps

/-- the dump in the middle, spelled out: two legs, dump/resume, the other legs -/
def first := runLegsE M H st0 [q0, q1]
theorem first_ok : first.2.toOption.isSome = true := by decide +kernel
/-- the mediator state that is dumped -/
def stMid : MedState H.σ := first.2.toOption.get first_ok
theorem first_eq : first = (first.1, .ok stMid) := Prod.ext rfl (ok_of_toOption (Option.some_get first_ok).symm)
def second := runLegsE M H (dumpH natCfg stMid) [q2, q3, q4, q5, q6, q7, q7, q7]

/-- the dumped and the restored state really differ where `LiveEq` allows it: both heaps have length 5 (entries of the
handlers 2 — dead, trashed —, 1, 0 — both at time 10 — and 3; objects are numbered `h + 1`), the first slot beyond holds a
stale copy of the end-of-run entry in the original and fresh memory (the bogus handler 99 of `natCfg.garbage`) in the rebuilt
heap -/
example : stMid.sched.heap.length = 5 ∧ (dumpH natCfg stMid).sched.heap.length = 5 ∧
    (Heap.get natCfg stMid.sched.heap 2).key = 10 ∧ (Heap.get natCfg stMid.sched.heap 3).key = 10 ∧
    (Heap.get natCfg stMid.sched.heap 5).h = 4 ∧ (Heap.get natCfg (dumpH natCfg stMid).sched.heap 5).h = 99 := by
  decide +kernel

example : Same (first.1 ++ second.1) plain.1 ∧ errOf second.2 = errOf plain.2 := by decide +kernel

example : RunRel (LiveEq natCfg) plain (first.1 ++ second.1, second.2) :=
  resume_at_boundary natOrd (by decide) static Reach.init [q0, q1] [q2, q3, q4, q5, q6, q7, q7, q7] first_eq
    (by decide +kernel)

/-- a run that ends with an exception: after the sampling commit at 5 the new sampling candidate is at 3, the scheduler's
monotonicity assertion fires — in the dumped run exactly as in the uninterrupted one -/
def qBad : Oracle Nat := ⟨ys2, fun _ => 3⟩
example : errOf (runLegsE M H st0 [q0, q1, qBad, q3]).2 = some (.schedGuard 2) ∧
    errOf (runD M H (HSched.pickle natCfg) st0 [.leg q0, .leg q1, .dump, .leg qBad, .leg q3]).2 = some (.schedGuard 2) ∧
    Same (runD M H (HSched.pickle natCfg) st0 [.leg q0, .leg q1, .dump, .leg qBad, .leg q3]).1
      (runLegsE M H st0 [q0, q1, qBad, q3]).1 := by decide +kernel

/-- the list scheduler on the same steps -/
example : runD M (listI natCfg) (pickleL natCfg) (MedState.init (listI natCfg) M.w) steps =
    runLegsE M (listI natCfg) (MedState.init (listI natCfg) M.w) qs := resume_list M natCfg steps _

end Example

end JF.C19Loop
