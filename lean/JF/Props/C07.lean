import JF.Model.Kinematics
import JF.Lemmas.PyArith
import JF.Lemmas.Kinematics
import JF.Props.C14
/-!
# C07 — Particles move continuously at recorded velocity; events only hand velocity over

Exact reading (`α = ℚ`, `Ops.rat`) of the kinematic core `JF/Model/Kinematics.lean`.
The theorems cover
* the time slice `timeSlice` (`BasicEventHandler._time_slice_unit`), which every event handler uses for every
  unit it sends out (point masses and composite objects alike), and
* the point-mass chain machine `Kin.step` / `Kin.run` (one tree level): what each kind of committed event does
  to the global state.
The composite-object (two-level) half of the statement — all moving point masses of one composite object share
the velocity of the object — is the subject of C12 and is not restated here.
Identities are list indices; charges are not part of the kinematic state, no event of the machine can touch them.

Any dimension (the common length of the lists), any number of units, any box lengths `L_d > 0` (`PosBox L`).
Vocabulary (`JF/Lemmas/Kinematics.lean`): `Cong l a b` is `∃ k : ℤ, b = a + k * l`; `CongVec L P Q` the same
coordinate by coordinate (`congVec_iff`); `InBox L P` is `0 ≤ P_d < L_d` for all `d` (`inBox_iff`);
`advance P V dt` is `P + V * dt`; `val t` (C14) is the rational number a `Time` stands for.
-/
namespace JF.C07
open JF JF.Kin JF.C14

/-! ## 1. the time slice -/

/-- the new coordinate is `p + v * dt` up to an integer number of box lengths -/
theorem sliceCoord_congr (L p v dt : ℚ) (hL : 0 < L) :
    ∃ k : ℤ, sliceCoord Ops.rat L p v dt = p + v * dt + k * L :=
  sliceCoord_cong L p v dt hL

/-- the new coordinate lies in `[0, L)` -/
theorem sliceCoord_mem (L p v dt : ℚ) (hL : 0 < L) :
    0 ≤ sliceCoord Ops.rat L p v dt ∧ sliceCoord Ops.rat L p v dt < L :=
  sliceCoord_inBox L p v dt hL

example : (0:ℚ) < 4 := by norm_num

/-- all coordinates: as many as the box has, coordinate `d` is `P_d + V_d * dt` up to an integer number of `L_d`,
and lies in `[0, L_d)` -/
theorem sliceVec_spec (L P V : List ℚ) (dt : ℚ) (hL : PosBox L) (hP : P.length = L.length)
    (hV : V.length = L.length) :
    (sliceVec Ops.rat L P V dt).length = L.length ∧
    ∀ d (hd : d < L.length) (hd' : d < (sliceVec Ops.rat L P V dt).length),
      (∃ k : ℤ, (sliceVec Ops.rat L P V dt)[d] = P[d] + V[d] * dt + k * L[d]) ∧
      0 ≤ (sliceVec Ops.rat L P V dt)[d] ∧ (sliceVec Ops.rat L P V dt)[d] < L[d] := by
  have hlen := sliceVec_length L P V dt hP hV
  refine ⟨hlen, ?_⟩
  intro d hd hd'
  obtain ⟨-, -, hc⟩ := (congVec_iff _ _ _).mp (sliceVec_cong L P V dt hL hP hV)
  obtain ⟨-, hb⟩ := (inBox_iff _ _).mp (sliceVec_inBox L P V dt hL hP hV)
  refine ⟨?_, hb d hd hd'⟩
  have := hc d hd (by rw [advance_length P V dt (by omega)]; omega) hd'
  simpa [advance] using this

example : PosBox Ex.L0 ∧ [(1:ℚ), 1].length = Ex.L0.length := ⟨Ex.posBox, rfl⟩

/-- A moving unit after `_time_slice_unit`: the time stamp is the event time, the velocity is unchanged, the
position lies in the box and is the old position advanced by `velocity * (event time − old time stamp)`, modulo
the box. -/
theorem timeSlice_moving (L : List ℚ) (t : Time ℚ) (u : PUnit ℚ) (v : List ℚ) (s : Time ℚ) (hL : PosBox L)
    (hw : WFU L.length u) (hv : u.vel = some v) (hs : u.ts = some s) :
    (timeSlice Ops.rat L t u).ts = some t ∧ (timeSlice Ops.rat L t u).vel = some v ∧
    InBox L (timeSlice Ops.rat L t u).pos ∧
    CongVec L (advance u.pos v (val t - val s)) (timeSlice Ops.rat L t u).pos :=
  ⟨by rw [timeSlice_of_moving L t u hv hs], by rw [timeSlice_vel, hv],
    timeSlice_pos_inBox t hL hw hv hs, timeSlice_pos_cong t hL hw hv hs⟩

example : WFU Ex.L0.length ⟨[1, 1], some [1, 0], some Ex.t0⟩ := by simp [WFU, Ex.L0]

/-- the velocity is never changed by time-slicing (no hypothesis) -/
theorem timeSlice_velocity (L : List ℚ) (t : Time ℚ) (u : PUnit ℚ) : (timeSlice Ops.rat L t u).vel = u.vel :=
  timeSlice_vel L t u

/-- a unit at rest is not touched by time-slicing -/
theorem timeSlice_rest (L : List ℚ) (t : Time ℚ) (u : PUnit ℚ) (h : u.vel = none) :
    timeSlice Ops.rat L t u = u :=
  timeSlice_of_rest L t u h

/-- Slicing does not leave the trajectory: for every time `τ`, the free flight from the sliced position and the
new time stamp meets the free flight from the old position and the old time stamp, modulo the box.
(Hence slicing twice, at `t` and then at `τ`, is congruent to slicing once at `τ`: `slice_twice`.) -/
theorem slice_traj (L : List ℚ) (t : Time ℚ) (u : PUnit ℚ) (v : List ℚ) (s : Time ℚ) (hL : PosBox L)
    (hw : WFU L.length u) (hv : u.vel = some v) (hs : u.ts = some s) (τ : ℚ) :
    CongVec L (advance u.pos v (τ - val s)) (advance (timeSlice Ops.rat L t u).pos v (τ - val t)) := by
  have h := advance_cong v (τ - val t) (timeSlice_pos_cong t hL hw hv hs) (hw.2.2 v hv)
  rw [advance_advance _ _ _ _ (by rw [hw.1, hw.2.2 v hv])] at h
  rwa [show val t - val s + (τ - val t) = τ - val s by ring] at h

/-- slicing at `t` and then at `t'` gives a position congruent to slicing at `t'` directly -/
theorem slice_twice (L : List ℚ) (t t' : Time ℚ) (u : PUnit ℚ) (v : List ℚ) (s : Time ℚ) (hL : PosBox L)
    (hw : WFU L.length u) (hv : u.vel = some v) (hs : u.ts = some s) :
    CongVec L (timeSlice Ops.rat L t' u).pos (timeSlice Ops.rat L t' (timeSlice Ops.rat L t u)).pos := by
  obtain ⟨hts, hvel, -, -⟩ := timeSlice_moving L t u v s hL hw hv hs
  have h1 := timeSlice_pos_cong t' hL hw hv hs
  have h2 := timeSlice_pos_cong t' hL (timeSlice_wfu L t u hw) hvel hts
  exact h1.symm.trans ((slice_traj L t u v s hL hw hv hs (val t')).trans h2)

/-! ## 2. well-formedness is preserved -/

/-- every event keeps the global state well-formed (positions and velocities have the dimension of the box,
a unit has a velocity iff it has a time stamp) -/
theorem step_WF (L : List ℚ) (us : List (PUnit ℚ)) (e : Ev ℚ) (h : WF L us) (he : EvWF L e) :
    WF L (step Ops.rat L us e) :=
  step_wf L us e h he

example : WF Ex.L0 Ex.us0 ∧ EvWF Ex.L0 (.start Ex.t0 0 [1, 0]) := ⟨Ex.wf0, rfl⟩

theorem run_WF (L : List ℚ) : ∀ (es : List (Ev ℚ)) (us : List (PUnit ℚ)), WF L us → (∀ e ∈ es, EvWF L e) →
    WF L (run Ops.rat L us es)
  | [], _, h, _ => h
  | e :: es, us, h, he =>
      run_WF L es _ (step_WF L us e h (he e (by simp))) (fun e' he' => he e' (by simp [he']))

example : WF Ex.L0 Ex.us0 ∧ ∀ e ∈ Ex.evs, EvWF Ex.L0 e :=
  ⟨Ex.wf0, by intro e he; simp [Ex.evs] at he; rcases he with rfl | rfl | rfl | rfl | rfl <;> simp [EvWF, Ex.L0]⟩

/-! ## 3. the chain invariant -/

/-- identities are list indices: no event creates or deletes a unit (no hypothesis) -/
theorem step_card (L : List ℚ) (us : List (PUnit ℚ)) (e : Ev ℚ) : (step Ops.rat L us e).length = us.length :=
  step_length L us e

theorem run_card (L : List ℚ) : ∀ (es : List (Ev ℚ)) (us : List (PUnit ℚ)),
    (run Ops.rat L us es).length = us.length
  | [], _ => rfl
  | e :: es, us => (run_card L es _).trans (step_card L us e)

/-- The start-of-run event on a state at rest establishes the chain invariant: exactly one unit moves, with the
squared speed of the start velocity and the time stamp of the event; everything is in the box. -/
theorem start_chain (L : List ℚ) (us : List (PUnit ℚ)) (t : Time ℚ) (a : Nat) (v : List ℚ)
    (hwf : WF L us) (hbox : ∀ u ∈ us, InBox L u.pos) (hadm : Adm L us (.start t a v)) :
    Chain L (normSq v) t (step Ops.rat L us (.start t a v)) :=
  (chain_iff _ _ _ _).mpr ⟨a, ChainI.of_start hwf hbox hadm.2.2 t a v hadm.1 hadm.2.1⟩

example : WF Ex.L0 Ex.us0 ∧ (∀ u ∈ Ex.us0, InBox Ex.L0 u.pos) ∧ Adm Ex.L0 Ex.us0 (.start Ex.t0 0 [1, 0]) :=
  ⟨Ex.wf0, Ex.inBox0, by decide, rfl, Ex.rest0⟩

/-- Every admissible event keeps the chain invariant (`Chain`, five conjuncts: well-formed; every position in the
box; `(us.filter isMoving).length = 1`; every velocity has squared norm `c`; the moving unit's time stamp is the
time of the event). A second `start` is not admissible (it needs every unit at rest), so no case is excluded. -/
theorem step_chain {L : List ℚ} {c : ℚ} {t : Time ℚ} {us : List (PUnit ℚ)} (hL : PosBox L)
    (h : Chain L c t us) (e : Ev ℚ) (hadm : Adm L us e) : Chain L c e.time (step Ops.rat L us e) := by
  obtain ⟨a, ha⟩ := (chain_iff _ _ _ _).mp h
  rw [chain_iff]
  cases e with
  | start t' b v =>
      obtain ⟨ua, w, hua, -, -, hw, -⟩ := ha.get
      have := hadm.2.2 ua (List.mem_of_getElem? hua)
      rw [hw] at this; cases this
  | keep t' => exact ⟨a, ha.step_keep hL t'⟩
  | snap t' d x => exact ⟨a, ha.step_snap hL t' d x hadm⟩
  | lift t' b => exact ⟨b, ha.step_lift hL t' b hadm⟩
  | endOfChain t' b v =>
      obtain ⟨ua, w, hua, -, -, hw, hc, -⟩ := ha.get
      have := hadm.2.2 ua (List.mem_of_getElem? hua) w hw
      exact ⟨b, ha.step_endOfChain hL t' b v hadm.1 hadm.2.1 (this.trans hc)⟩

/-- the chain state after the start event of the example, used by the examples below -/
theorem Ex.chain1 : Chain Ex.L0 1 Ex.t0 (step Ops.rat Ex.L0 Ex.us0 (.start Ex.t0 0 [1, 0])) := by
  have := start_chain Ex.L0 Ex.us0 Ex.t0 0 [1, 0] Ex.wf0 Ex.inBox0 ⟨by decide, rfl, Ex.rest0⟩
  simpa [normSq] using this

example : ∃ c t us, Chain Ex.L0 c t us ∧ Adm Ex.L0 us (.lift Ex.t3 1) ∧ Adm Ex.L0 us (.endOfChain Ex.t4 2 [0, 1]) ∧
    Adm Ex.L0 us (.snap Ex.t2 0 0) :=
  ⟨1, _, _, Ex.chain1, by simp [Adm, step_length, Ex.us0],
    ⟨by simp [step_length, Ex.us0], rfl, fun u hu v0 hv0 => by rw [Ex.chain1.speed u hu v0 hv0]; norm_num [normSq]⟩,
    by intro h; norm_num [Ex.L0]⟩

/-- Chain invariant along every admissible run: after any admissible list of events the invariant holds with the
same squared speed and the time of the last event. -/
theorem run_chain {L : List ℚ} {c : ℚ} (hL : PosBox L) : ∀ (es : List (Ev ℚ)) (t : Time ℚ) (us : List (PUnit ℚ)),
    Chain L c t us → AdmRun L us es → Chain L c (lastTime t es) (run Ops.rat L us es)
  | [], _, _, h, _ => h
  | e :: es, _, _, h, hadm => run_chain hL es e.time _ (step_chain hL h e hadm.1) hadm.2

/-- From the start of the run on: a state at rest, in the box; the start event, then any admissible events.
Exactly one unit moves, its squared speed is that of the start velocity, its time stamp is the time of the last
event, every position is in the box, and the number of units is unchanged. -/
theorem run_from_rest {L : List ℚ} (hL : PosBox L) (us : List (PUnit ℚ)) (t : Time ℚ) (a : Nat) (v : List ℚ)
    (es : List (Ev ℚ)) (hwf : WF L us) (hbox : ∀ u ∈ us, InBox L u.pos)
    (hadm : AdmRun L us (.start t a v :: es)) :
    Chain L (normSq v) (lastTime t es) (run Ops.rat L us (.start t a v :: es)) ∧
    (run Ops.rat L us (.start t a v :: es)).length = us.length :=
  ⟨run_chain hL es t _ (start_chain L us t a v hwf hbox hadm.1) hadm.2, run_card L _ us⟩

/-- non-vacuity: the five-event run of the example (start, sample, cell boundary, pair event, end of chain) is
admissible -/
theorem Ex.admRun : AdmRun Ex.L0 Ex.us0 Ex.evs := by
  have hL := Ex.posBox
  have h1 := Ex.chain1
  have h2 := step_chain hL h1 (.keep Ex.t1) trivial
  have a3 : Adm Ex.L0 (step Ops.rat Ex.L0 (step Ops.rat Ex.L0 Ex.us0 (.start Ex.t0 0 [1, 0])) (.keep Ex.t1))
      (.snap Ex.t2 0 0) := by intro h; norm_num [Ex.L0]
  have h3 := step_chain hL h2 (.snap Ex.t2 0 0) a3
  have a4 : Adm Ex.L0 (step Ops.rat Ex.L0 (step Ops.rat Ex.L0 (step Ops.rat Ex.L0 Ex.us0 (.start Ex.t0 0 [1, 0]))
      (.keep Ex.t1)) (.snap Ex.t2 0 0)) (.lift Ex.t3 1) := by simp [Adm, step_length, Ex.us0]
  have h4 := step_chain hL h3 (.lift Ex.t3 1) a4
  exact ⟨⟨by decide, rfl, Ex.rest0⟩, trivial, a3, a4,
    ⟨by simp [step_length, Ex.us0], rfl, fun u hu v0 hv0 => by rw [h4.speed u hu v0 hv0]; norm_num [normSq]⟩, trivial⟩

example : PosBox Ex.L0 ∧ WF Ex.L0 Ex.us0 ∧ (∀ u ∈ Ex.us0, InBox Ex.L0 u.pos) ∧ AdmRun Ex.L0 Ex.us0 Ex.evs :=
  ⟨Ex.posBox, Ex.wf0, Ex.inBox0, Ex.admRun⟩

/-- A unit that is in the box stays in the box, event by event (no chain invariant needed; a cell-boundary event
must write a coordinate of the box). -/
theorem step_inBox (L : List ℚ) (us : List (PUnit ℚ)) (e : Ev ℚ) (hL : PosBox L) (hwf : WF L us)
    (hsnap : ∀ t d x, e = .snap t d x → ∀ h : d < L.length, 0 ≤ x ∧ x < L[d])
    (i : Nat) (u u' : PUnit ℚ) (hu : us[i]? = some u) (hu' : (step Ops.rat L us e)[i]? = some u')
    (hin : InBox L u.pos) : InBox L u'.pos := by
  have hp := step_pos L us e i
  rw [hu, hu'] at hp
  simp only [Option.map_some, Option.some.injEq] at hp
  rw [hp]
  have hw := hwf u (List.mem_of_getElem? hu)
  have hsl : ∀ t, InBox L (timeSlice Ops.rat L t u).pos := by
    intro t
    cases hv : u.vel with
    | none => rw [timeSlice_of_rest L t u hv]; exact hin
    | some v =>
        cases hs : u.ts with
        | none => have := hw.2.1; simp [hv, hs] at this
        | some s => exact timeSlice_pos_inBox t hL hw hv hs
  cases e with
  | start t a v => exact hin
  | keep t => exact hsl t
  | lift t b => exact hsl t
  | endOfChain t a v => exact hsl t
  | snap t d x =>
      simp only [posAfter]
      split
      · exact setCoord_inBox L _ d x (hsl t) (hsnap t d x rfl)
      · exact hin

example : PosBox Ex.L0 ∧ WF Ex.L0 Ex.us0 ∧ (∀ t d x, Ev.snap Ex.t2 0 (0:ℚ) = .snap t d x →
    ∀ h : d < Ex.L0.length, 0 ≤ x ∧ x < Ex.L0[d]) ∧ ∃ u, Ex.us0[1]? = some u ∧ InBox Ex.L0 u.pos :=
  ⟨Ex.posBox, Ex.wf0, by intro t d x h; cases h; intro _; norm_num [Ex.L0], _, rfl, Ex.inBox0 _ (by simp [Ex.us0])⟩

/-! ## 4. continuity: no event moves a unit discontinuously; velocities are only handed over -/

/-- No jump. For every event and every unit: a unit at rest has exactly the position it had; a moving unit has its
previous position advanced by its previous velocity times (event time − its time stamp), modulo the box.
`Smooth` asks of a start event that every unit is at rest, and of a cell-boundary event that the coordinate it
writes is congruent modulo `L_d` to the time-sliced coordinate it overwrites (exact reading of the cell-boundary
event); nothing of the other events. -/
theorem no_jump (L : List ℚ) (us : List (PUnit ℚ)) (e : Ev ℚ) (hL : PosBox L) (hwf : WF L us)
    (hsm : Smooth L us e) (i : Nat) (u u' : PUnit ℚ) (hu : us[i]? = some u)
    (hu' : (step Ops.rat L us e)[i]? = some u') :
    (u.vel = none → u'.pos = u.pos) ∧
    (∀ v s, u.vel = some v → u.ts = some s → CongVec L (advance u.pos v (val e.time - val s)) u'.pos) := by
  have hp := step_pos L us e i
  rw [hu, hu'] at hp
  simp only [Option.map_some, Option.some.injEq] at hp
  rw [hp]
  have hm := List.mem_of_getElem? hu
  exact ⟨posAfter_of_rest L e u, fun v s hv hs => posAfter_cong hL (hwf u hm) hm hsm hv hs⟩

/-- index reading of `no_jump` for a moving unit: coordinate `d` after the event is
`pos_d + vel_d * (event time − time stamp) + k * L_d` for an integer `k` -/
theorem no_jump_coord (L : List ℚ) (us : List (PUnit ℚ)) (e : Ev ℚ) (hL : PosBox L) (hwf : WF L us)
    (hsm : Smooth L us e) (i : Nat) (u u' : PUnit ℚ) (hu : us[i]? = some u)
    (hu' : (step Ops.rat L us e)[i]? = some u') (v : List ℚ) (s : Time ℚ) (hv : u.vel = some v)
    (hs : u.ts = some s) (d : Nat) (hd : d < L.length) :
    ∃ (h1 : d < u'.pos.length) (h2 : d < u.pos.length) (h3 : d < v.length) (k : ℤ),
      u'.pos[d] = u.pos[d] + v[d] * (val e.time - val s) + k * L[d] := by
  have hw := hwf u (List.mem_of_getElem? hu)
  have h := (no_jump L us e hL hwf hsm i u u' hu hu').2 v s hv hs
  obtain ⟨hl1, hl2, hc⟩ := (congVec_iff _ _ _).mp h
  have h2 : d < u.pos.length := by rw [hw.1]; exact hd
  have h3 : d < v.length := by rw [hw.2.2 v hv]; exact hd
  refine ⟨by omega, h2, h3, ?_⟩
  have := hc d hd (by omega) (by omega)
  simpa [advance] using this

/-- non-vacuity of `Smooth` for a cell-boundary event: in the example, unit 0 (at `x = 1` with velocity `1` since
time `0`) is sliced at time `3` to `x = 4 mod 4 = 0`, and the event writes `0` -/
example : Smooth Ex.L0 (step Ops.rat Ex.L0 Ex.us0 (.start Ex.t0 0 [1, 0])) (.snap Ex.t2 0 0) := by
  intro u hu hmv h h'
  have hus : step Ops.rat Ex.L0 Ex.us0 (.start Ex.t0 0 [1, 0]) =
      [⟨[1, 1], some [1, 0], some Ex.t0⟩, ⟨[3, 2], none, none⟩, ⟨[0, 5/2], none, none⟩] := rfl
  rw [hus] at hu
  simp only [List.mem_cons, List.not_mem_nil, or_false] at hu
  rcases hu with rfl | rfl | rfl
  · refine Cong.of_eq ?_
    simp only [timeSlice, sliceVec, List.getElem_cons_zero, Ex.L0]
    rw [sliceCoord_eq _ _ _ _ (by norm_num)]
    norm_num [Time.sub, Ex.t2, Ex.t0]
  · simp [isMoving] at hmv
  · simp [isMoving] at hmv

/-- sampling, end of run, dumping, rejected events, cell-boundary events: every velocity and every time stamp's
presence stay as they are; in particular every velocity is unchanged -/
theorem keep_velocities (L : List ℚ) (us : List (PUnit ℚ)) (t : Time ℚ) :
    (step Ops.rat L us (.keep t)).map (·.vel) = us.map (·.vel) := by
  simp [step, timeSlice_vel]

theorem snap_velocities (L : List ℚ) (us : List (PUnit ℚ)) (t : Time ℚ) (d : Nat) (x : ℚ) :
    (step Ops.rat L us (.snap t d x)).map (·.vel) = us.map (·.vel) := by
  simp only [step, List.map_map]
  apply List.map_congr_left
  intro u _
  simp only [Function.comp]
  split <;> simp [timeSlice_vel]

/-- Accepted pair event: the velocity is handed over, not created or destroyed — the list (a fortiori the
multiset) of the velocities present in the global state is the same before and after, namely the one velocity
of the chain; it now sits at unit `b`, with the time stamp of the event (`step_chain`). -/
theorem lift_velocities {L : List ℚ} {c : ℚ} {t : Time ℚ} {us : List (PUnit ℚ)} (hL : PosBox L)
    (h : Chain L c t us) (t' : Time ℚ) (b : Nat) (hb : b < us.length) :
    (step Ops.rat L us (.lift t' b)).filterMap (·.vel) = us.filterMap (·.vel) ∧
    ∃ ub v, (step Ops.rat L us (.lift t' b))[b]? = some ub ∧ ub.vel = some v ∧ us.filterMap (·.vel) = [v] := by
  obtain ⟨a, ha⟩ := (chain_iff _ _ _ _).mp h
  have hb' := ha.step_lift hL t' b hb
  obtain ⟨ua, v, hua, -, -, hv, -⟩ := ha.get
  obtain ⟨ub, w, hub, -, -, hw, -⟩ := hb'.get
  have hwv : w = v := by
    have := ha.lift_vel hL t' b hb
    rw [hub, hua] at this
    simp only [Option.bind_some, hw, hv, Option.some.injEq] at this
    exact this
  subst hwv
  exact ⟨by rw [hb'.vels_at hub hw, ha.vels_at hua hv], ub, w, hub, hw, ha.vels_at hua hv⟩

example : ∃ c t us, PosBox Ex.L0 ∧ Chain Ex.L0 c t us ∧ 1 < us.length :=
  ⟨1, _, _, Ex.posBox, Ex.chain1, by simp [step_length, Ex.us0]⟩

/-! ## 5. committed times never decrease -/

/-- a candidate computed from the moving unit's time stamp with a non-negative displacement is normalised and not
before the last committed event (chain invariant + C14 `add_ge`): the hypothesis of `Leg` on new candidates -/
theorem candidate_ge_last_commit {L : List ℚ} {c : ℚ} {t : Time ℚ} {us : List (PUnit ℚ)} (h : Chain L c t us)
    (ht : Normalised t) (u : PUnit ℚ) (hu : u ∈ us) (s : Time ℚ) (hs : u.ts = some s) (d : ℚ) (hd : 0 ≤ d) :
    Normalised (Time.add Ops.rat s d) ∧ Time.le t (Time.add Ops.rat s d) = true := by
  have hmv : isMoving u = true := by
    have := (h.wf u hu).2.1
    simp [isMoving, this, hs]
  have : s = t := by have := h.stamp u hu hmv; rw [hs] at this; exact Option.some.inj this
  subst this
  exact ⟨add_normalised s d ht, add_ge s d ht hd⟩

example : ∃ c t us u s, Chain Ex.L0 c t us ∧ Normalised t ∧ u ∈ us ∧ u.ts = some s := by
  refine ⟨1, Ex.t0, _, (⟨[1, 1], some [1, 0], some Ex.t0⟩ : PUnit ℚ), Ex.t0, Ex.chain1, ?_, ?_, rfl⟩
  · exact ⟨⟨0, by simp [Ex.t0]⟩, by simp [Ex.t0], by simp [Ex.t0]⟩
  · show _ ∈ ([⟨[1, 1], some [1, 0], some Ex.t0⟩, ⟨[3, 2], none, none⟩, ⟨[0, 5/2], none, none⟩] : List (PUnit ℚ))
    exact List.mem_cons_self

/-- Time order. For every run of the leg loop (`Legs`: each leg commits a minimal live candidate, removes any
sub-multiset of the live candidates containing it, and adds normalised candidates that are not before it) that
starts in a state where no live candidate lies before the current time: the committed times, preceded by the
initial time, are sorted with respect to `Time.le` (`Time.__le__`), i.e. they never decrease; and `Time.le` is the
order of the rational values (`C14.le_iff`), second statement. -/
theorem committed_times_sorted (now : Time ℚ) (pending : List (Time ℚ)) (ts : List (Time ℚ))
    (s' : Time ℚ × List (Time ℚ)) (hnow : Normalised now)
    (hpend : ∀ p ∈ pending, Normalised p ∧ Time.le now p = true) (h : Legs (now, pending) ts s') :
    List.Pairwise (fun a b => Time.le a b = true) (now :: ts) ∧
    List.Pairwise (fun a b => val a ≤ val b) (now :: ts) := by
  obtain ⟨h1, h2, -⟩ := h.sorted ⟨hnow, hpend⟩
  have hp : List.Pairwise (fun a b => Time.le a b = true) (now :: ts) :=
    List.Pairwise.cons (fun x hx => (h1 x hx).2) h2
  refine ⟨hp, ?_⟩
  have hn : ∀ x ∈ now :: ts, Normalised x := by
    intro x hx
    rcases List.mem_cons.mp hx with rfl | hx
    · exact hnow
    · exact (h1 x hx).1
  exact hp.imp_of_mem (fun {a b} ha hb hab => (le_iff a b (hn a ha) (hn b hb)).mp hab)

/-- non-vacuity: two legs. Live candidates `{1/2, 2, 1/2}` at time `0`; the first leg commits `1/2`, trashes it
together with the candidate `2` and pushes `3/4`; the second leg commits the other `1/2` (a tie) and pushes
nothing. -/
example : ∃ s', Legs (⟨0, 0⟩, [⟨0, 1/2⟩, ⟨2, 0⟩, ⟨0, 1/2⟩]) [⟨0, 1/2⟩, ⟨0, 1/2⟩] s' ∧ Normalised (⟨0, 0⟩ : Time ℚ) ∧
    ∀ p ∈ [(⟨0, 1/2⟩ : Time ℚ), ⟨2, 0⟩, ⟨0, 1/2⟩], Normalised p ∧ Time.le ⟨0, 0⟩ p = true := by
  have n0 : Normalised (⟨0, 0⟩ : Time ℚ) := ⟨⟨0, by simp⟩, by norm_num, by norm_num⟩
  have n1 : Normalised (⟨0, 1/2⟩ : Time ℚ) := ⟨⟨0, by simp⟩, by norm_num, by norm_num⟩
  have n2 : Normalised (⟨2, 0⟩ : Time ℚ) := ⟨⟨2, by simp⟩, by norm_num, by norm_num⟩
  have n3 : Normalised (⟨0, 3/4⟩ : Time ℚ) := ⟨⟨0, by simp⟩, by norm_num, by norm_num⟩
  have l1 : Leg (⟨0, 0⟩, [⟨0, 1/2⟩, ⟨2, 0⟩, ⟨0, 1/2⟩]) (⟨0, 1/2⟩, [⟨0, 1/2⟩] ++ [⟨0, 3/4⟩]) := by
    refine Leg.mk ⟨0, 0⟩ ⟨0, 1/2⟩ _ [⟨0, 1/2⟩, ⟨2, 0⟩] [⟨0, 1/2⟩] [⟨0, 3/4⟩] (by simp) ?_ (List.Perm.refl _) (by simp) ?_
    · intro p hp
      simp only [List.mem_cons, List.not_mem_nil, or_false] at hp
      rcases hp with rfl | rfl | rfl <;> decide +kernel
    · intro p hp
      simp only [List.mem_cons, List.not_mem_nil, or_false] at hp
      subst hp; exact ⟨n3, by decide +kernel⟩
  have l2 : Leg (⟨0, 1/2⟩, [⟨0, 1/2⟩] ++ [⟨0, 3/4⟩]) (⟨0, 1/2⟩, [⟨0, 3/4⟩] ++ []) := by
    refine Leg.mk ⟨0, 1/2⟩ ⟨0, 1/2⟩ _ [⟨0, 1/2⟩] [⟨0, 3/4⟩] [] (by simp) ?_ (List.Perm.refl _) (by simp) (by simp)
    intro p hp
    simp only [List.cons_append, List.nil_append, List.mem_cons, List.not_mem_nil, or_false] at hp
    rcases hp with rfl | rfl <;> decide +kernel
  refine ⟨_, Legs.cons l1 (Legs.cons l2 (Legs.nil _)), n0, ?_⟩
  intro p hp
  simp only [List.mem_cons, List.not_mem_nil, or_false] at hp
  rcases hp with rfl | rfl | rfl
  · exact ⟨n1, by decide +kernel⟩
  · exact ⟨n2, by decide +kernel⟩
  · exact ⟨n1, by decide +kernel⟩

end JF.C07
