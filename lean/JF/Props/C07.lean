import JF.Model.Kinematics
import JF.Lemmas.PyArith
/-!
# C07 — Particles move continuously at recorded velocity; events only hand velocity over
Exact reading (`Ops.rat`) of the kinematic core.
-/
namespace JF.C07
open JF JF.Kin

/-- a unit at rest is not touched by time-slicing -/
theorem timeSlice_rest (L : List ℚ) (t : Time ℚ) (u : PUnit ℚ) (h : u.vel = none) :
    timeSlice Ops.rat L t u = u := by
  unfold timeSlice; rw [h]

end JF.C07
