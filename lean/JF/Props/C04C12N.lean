import JF.Props.C04C12
/-!
# C04C12N — `passComposite_shape_partial` for composite objects with THREE leaf units (water, leaf weights 1/3)

Exact reading (`α = ℚ`).  **Scope (why the names end in `_partial`).**  Same method as `JF/Props/C04C12.lean` (two
dipoles), here for two composite objects of THREE leaf units each: branches `[active, target]` (`inSt3`) or
`[target, active]` (`inSt3R`), identifiers `[a]`, `[a,0]`, `[a,1]`, `[a,2]` and `[b]`, `[b,0]`, `[b,1]`, `[b,2]` with
arbitrary `a ≠ b`, root weight `1`, leaf weights `1/3`; positions, charges, the velocity `v`, the dimension, the box
length, all time stamps and the event time are arbitrary.  NOT proved: an arbitrary number `n` of leaf units per
object, identifiers of another shape, unequal leaf weights, branches that hold only part of a composite object.
-/
namespace JF.C04C12N
open JF JF.Thin JF.C04C12

/-- a three-leaf composite object as a branch: root `[i]` (weight 1), leaf units `[i,0]`, `[i,1]`, `[i,2]` (weights 1/3) -/
def tri (i : Nat) (rp p0 p1 p2 : List ℚ) (q0 q1 q2 : ℚ) (vel : Option (List ℚ)) (tr t0 t1 t2 : Option (Time ℚ)) :
    CNode ℚ :=
  ⟨⟨[i], rp, 0, vel, tr⟩, 1,
    [(⟨[i, 0], p0, q0, vel, t0⟩, 1/3), (⟨[i, 1], p1, q1, vel, t1⟩, 1/3), (⟨[i, 2], p2, q2, vel, t2⟩, 1/3)]⟩

/-- the in-state: object `a` moves as a whole with `v` (time stamps `sr`, `s0`, `s1`, `s2`), object `b` is at rest -/
def inSt3 (a b : Nat) (v ra a0 a1 a2 rb b0 b1 b2 : List ℚ) (qa0 qa1 qa2 qb0 qb1 qb2 : ℚ) (sr s0 s1 s2 : Time ℚ) :
    List (CNode ℚ) :=
  [tri a ra a0 a1 a2 qa0 qa1 qa2 (some v) (some sr) (some s0) (some s1) (some s2),
   tri b rb b0 b1 b2 qb0 qb1 qb2 none none none none none]

/-- the claimed out-state: object `a` at rest (no velocity, no time stamp) at the time-sliced positions, object `b`
moving as a whole with `v`, every time stamp the event time, positions untouched -/
def outSt3 (c : Consts ℚ) (et : Time ℚ) (a b : Nat) (v ra a0 a1 a2 rb b0 b1 b2 : List ℚ)
    (qa0 qa1 qa2 qb0 qb1 qb2 : ℚ) (sr s0 s1 s2 : Time ℚ) : List (CNode ℚ) :=
  [tri a (sl c et sr ra v) (sl c et s0 a0 v) (sl c et s1 a1 v) (sl c et s2 a2 v) qa0 qa1 qa2 none none none none none,
   tri b rb b0 b1 b2 qb0 qb1 qb2 (some v) (some et) (some et) (some et) (some et)]

theorem inSt3_wellformed (a b : Nat) (v ra a0 a1 a2 rb b0 b1 b2 : List ℚ) (qa0 qa1 qa2 qb0 qb1 qb2 : ℚ)
    (sr s0 s1 s2 : Time ℚ) :
    WeightsOK (inSt3 a b v ra a0 a1 a2 rb b0 b1 b2 qa0 qa1 qa2 qb0 qb1 qb2 sr s0 s1 s2)
      ∧ MovesWith v (tri a ra a0 a1 a2 qa0 qa1 qa2 (some v) (some sr) (some s0) (some s1) (some s2))
      ∧ AtRest (tri b rb b0 b1 b2 qb0 qb1 qb2 none none none none none) := by
  refine ⟨?_, ?_, ?_⟩
  · intro r hr
    simp only [inSt3, List.mem_cons, List.not_mem_nil, or_false] at hr
    rcases hr with rfl | rfl <;> (simp only [tri, List.map_cons, List.map_nil, List.sum_cons, List.sum_nil]; norm_num)
  · simp [MovesWith, tri]
  · simp [AtRest, tri]

theorem third3 (x : ℚ) : x * 3⁻¹ + x * 3⁻¹ + x * 3⁻¹ = x := by ring
theorem cancel3 (x : ℚ) : x + (-(x * 3⁻¹) + -(x * 3⁻¹) + -(x * 3⁻¹)) = 0 := by ring

/-- the computation: `_pass_composite_object_velocity` on the time-sliced branches of two three-leaf objects -/
theorem passComposite_tri (c : Consts ℚ) (ht : 0 < c.tiny) (hL : 0 < c.L) (et sr s0 s1 s2 : Time ℚ) (a b : Nat)
    (hab : a ≠ b) (v ra a0 a1 a2 rb b0 b1 b2 : List ℚ) (qa0 qa1 qa2 qb0 qb1 qb2 : ℚ) :
    passComposite Ops.rat c et
        (timeSliceState Ops.rat c et (inSt3 a b v ra a0 a1 a2 rb b0 b1 b2 qa0 qa1 qa2 qb0 qb1 qb2 sr s0 s1 s2))
      = .ok (outSt3 c et a b v ra a0 a1 a2 rb b0 b1 b2 qa0 qa1 qa2 qb0 qb1 qb2 sr s0 s1 s2) := by
  have hne : (a == b) = false := by simpa using hab
  have hne2 : (b == a) = false := by simpa using hab.symm
  have hroot := sl_sl c hL et sr ra v
  simp only [sl] at hroot
  rcases Nat.lt_or_gt_of_ne hab with h | h
  · have h' : ¬ b < a := Nat.not_lt.mpr (Nat.le_of_lt h)
    simp [passComposite, timeSliceState, timeSliceUnit, inSt3, outSt3, sl, tri, leafUnits, leafRefs, getLeaf,
      constructComposite, sortUnits, insSorted, idLt, h, h', hne, hne2, hab, hab.symm, Function.comp_def,
      List.zipWith_map_left, List.zipWith_map_right, List.zipWith_self, absLt, List.range, List.range.loop,
      List.zipIdx, passStep, setLeaf, Thin.register, commitUnit, third3, cancel3, ht, hroot]
  · simp [passComposite, timeSliceState, timeSliceUnit, inSt3, outSt3, sl, tri, leafUnits, leafRefs, getLeaf,
      constructComposite, sortUnits, insSorted, idLt, h, hne, hne2, hab, hab.symm, Function.comp_def,
      List.zipWith_map_left, List.zipWith_map_right, List.zipWith_self, absLt, List.range, List.range.loop,
      List.zipIdx, passStep, setLeaf, Thin.register, commitUnit, third3, cancel3, ht, hroot]

/-- **shape of the confirmed out-state, two three-leaf objects** (leaf weights 1/3; see the header for what is missing
to the general statement).  A confirmed `send_out_state` of the root-unit-active handlers (kind 7 / 8) on the in-state
`inSt3` returns exactly `outSt3`: every unit of the formerly active object at rest (velocity and time stamp `None`) at
its time-sliced position, every unit of the target object moving with `v` and stamped with the event time at its old
position; the weighted velocity sums over both objects (leaf level and root level) are conserved. -/
theorem passComposite_shape3_partial (c : Consts ℚ) (ht : 0 < c.tiny) (hL : 0 < c.L) (kind : Nat) (uc : Bool)
    (et sr s0 s1 s2 : Time ℚ) (a b : Nat) (hab : a ≠ b) (v ra a0 a1 a2 rb b0 b1 b2 : List ℚ)
    (qa0 qa1 qa2 qb0 qb1 qb2 : ℚ) (ist : List (CNode ℚ)) (bds qs : List ℚ) (dr : Draw ℚ) {st' w cs ins u}
    (h : sendRoot Ops.rat c kind uc et ist (inSt3 a b v ra a0 a1 a2 rb b0 b1 b2 qa0 qa1 qa2 qb0 qb1 qb2 sr s0 s1 s2)
          bds qs dr = .out st' true w cs ins u) :
    st' = [tri a (sl c et sr ra v) (sl c et s0 a0 v) (sl c et s1 a1 v) (sl c et s2 a2 v) qa0 qa1 qa2
             none none none none none,
           tri b rb b0 b1 b2 qb0 qb1 qb2 (some v) (some et) (some et) (some et) (some et)]
      ∧ AtRest (tri a (sl c et sr ra v) (sl c et s0 a0 v) (sl c et s1 a1 v) (sl c et s2 a2 v) qa0 qa1 qa2
             none none none none none)
      ∧ MovesWith v (tri b rb b0 b1 b2 qb0 qb1 qb2 (some v) (some et) (some et) (some et) (some et))
      ∧ velocities st' = [none, none, none, none, some v, some v, some v, some v]
      ∧ (∀ k, leafMomentum st' k
            = leafMomentum (inSt3 a b v ra a0 a1 a2 rb b0 b1 b2 qa0 qa1 qa2 qb0 qb1 qb2 sr s0 s1 s2) k)
      ∧ (∀ k, rootMomentum st' k
            = rootMomentum (inSt3 a b v ra a0 a1 a2 rb b0 b1 b2 qa0 qa1 qa2 qb0 qb1 qb2 sr s0 s1 s2) k) := by
  have h1 := sendRoot_confirmed c kind uc et ist _ bds qs dr h
  rw [passComposite_tri c ht hL et sr s0 s1 s2 a b hab] at h1
  have h2 : st' = outSt3 c et a b v ra a0 a1 a2 rb b0 b1 b2 qa0 qa1 qa2 qb0 qb1 qb2 sr s0 s1 s2 :=
    (Except.ok.inj h1).symm
  subst h2
  refine ⟨rfl, by simp [AtRest, tri], by simp [MovesWith, tri], by simp [velocities, outSt3, tri], ?_, ?_⟩
  · intro k; simp [leafMomentum, outSt3, inSt3, tri, vAt]
  · intro k; simp [rootMomentum, outSt3, inSt3, tri, vAt]

/-! ### the other branch order: `[target, active]` -/

def inSt3R (a b : Nat) (v ra a0 a1 a2 rb b0 b1 b2 : List ℚ) (qa0 qa1 qa2 qb0 qb1 qb2 : ℚ) (sr s0 s1 s2 : Time ℚ) :
    List (CNode ℚ) :=
  [tri b rb b0 b1 b2 qb0 qb1 qb2 none none none none none,
   tri a ra a0 a1 a2 qa0 qa1 qa2 (some v) (some sr) (some s0) (some s1) (some s2)]

def outSt3R (c : Consts ℚ) (et : Time ℚ) (a b : Nat) (v ra a0 a1 a2 rb b0 b1 b2 : List ℚ)
    (qa0 qa1 qa2 qb0 qb1 qb2 : ℚ) (sr s0 s1 s2 : Time ℚ) : List (CNode ℚ) :=
  [tri b rb b0 b1 b2 qb0 qb1 qb2 (some v) (some et) (some et) (some et) (some et),
   tri a (sl c et sr ra v) (sl c et s0 a0 v) (sl c et s1 a1 v) (sl c et s2 a2 v) qa0 qa1 qa2 none none none none none]

theorem passComposite_tri_rev (c : Consts ℚ) (ht : 0 < c.tiny) (hL : 0 < c.L) (et sr s0 s1 s2 : Time ℚ) (a b : Nat)
    (hab : a ≠ b) (v ra a0 a1 a2 rb b0 b1 b2 : List ℚ) (qa0 qa1 qa2 qb0 qb1 qb2 : ℚ) :
    passComposite Ops.rat c et
        (timeSliceState Ops.rat c et (inSt3R a b v ra a0 a1 a2 rb b0 b1 b2 qa0 qa1 qa2 qb0 qb1 qb2 sr s0 s1 s2))
      = .ok (outSt3R c et a b v ra a0 a1 a2 rb b0 b1 b2 qa0 qa1 qa2 qb0 qb1 qb2 sr s0 s1 s2) := by
  have hne : (a == b) = false := by simpa using hab
  have hne2 : (b == a) = false := by simpa using hab.symm
  have hroot := sl_sl c hL et sr ra v
  simp only [sl] at hroot
  rcases Nat.lt_or_gt_of_ne hab with h | h
  · simp [passComposite, timeSliceState, timeSliceUnit, inSt3R, outSt3R, sl, tri, leafUnits, leafRefs, getLeaf,
      constructComposite, sortUnits, insSorted, idLt, h, hne, hne2, hab.symm, Function.comp_def,
      List.zipWith_map_left, List.zipWith_map_right, List.zipWith_self, absLt, List.range, List.range.loop,
      List.zipIdx, passStep, setLeaf, Thin.register, commitUnit, third3, cancel3, ht, hroot]
  · have h' : ¬ a < b := Nat.not_lt.mpr (Nat.le_of_lt h)
    simp [passComposite, timeSliceState, timeSliceUnit, inSt3R, outSt3R, sl, tri, leafUnits, leafRefs, getLeaf,
      constructComposite, sortUnits, insSorted, idLt, h, h', hne, hne2, hab.symm, Function.comp_def,
      List.zipWith_map_left, List.zipWith_map_right, List.zipWith_self, absLt, List.range, List.range.loop,
      List.zipIdx, passStep, setLeaf, Thin.register, commitUnit, third3, cancel3, ht, hroot]

/-- `passComposite_shape3_partial` for the branch order `[target, active]` -/
theorem passComposite_shape3_rev_partial (c : Consts ℚ) (ht : 0 < c.tiny) (hL : 0 < c.L) (kind : Nat) (uc : Bool)
    (et sr s0 s1 s2 : Time ℚ) (a b : Nat) (hab : a ≠ b) (v ra a0 a1 a2 rb b0 b1 b2 : List ℚ)
    (qa0 qa1 qa2 qb0 qb1 qb2 : ℚ) (ist : List (CNode ℚ)) (bds qs : List ℚ) (dr : Draw ℚ) {st' w cs ins u}
    (h : sendRoot Ops.rat c kind uc et ist (inSt3R a b v ra a0 a1 a2 rb b0 b1 b2 qa0 qa1 qa2 qb0 qb1 qb2 sr s0 s1 s2)
          bds qs dr = .out st' true w cs ins u) :
    st' = [tri b rb b0 b1 b2 qb0 qb1 qb2 (some v) (some et) (some et) (some et) (some et),
           tri a (sl c et sr ra v) (sl c et s0 a0 v) (sl c et s1 a1 v) (sl c et s2 a2 v) qa0 qa1 qa2
             none none none none none]
      ∧ velocities st' = [some v, some v, some v, some v, none, none, none, none]
      ∧ (∀ k, leafMomentum st' k
            = leafMomentum (inSt3R a b v ra a0 a1 a2 rb b0 b1 b2 qa0 qa1 qa2 qb0 qb1 qb2 sr s0 s1 s2) k)
      ∧ (∀ k, rootMomentum st' k
            = rootMomentum (inSt3R a b v ra a0 a1 a2 rb b0 b1 b2 qa0 qa1 qa2 qb0 qb1 qb2 sr s0 s1 s2) k) := by
  have h1 := sendRoot_confirmed c kind uc et ist _ bds qs dr h
  rw [passComposite_tri_rev c ht hL et sr s0 s1 s2 a b hab] at h1
  have h2 : st' = outSt3R c et a b v ra a0 a1 a2 rb b0 b1 b2 qa0 qa1 qa2 qb0 qb1 qb2 sr s0 s1 s2 :=
    (Except.ok.inj h1).symm
  subst h2
  refine ⟨rfl, by simp [velocities, outSt3R, tri], ?_, ?_⟩
  · intro k; simp [leafMomentum, outSt3R, inSt3R, tri, vAt]
  · intro k; simp [rootMomentum, outSt3R, inSt3R, tri, vAt]

/-! ### the same event in C12's machine (three leaves per object) -/

/-- the confirmed out-state, read as two composite objects of `JF.Composite`, is `Composite.step (.pass et [0,1] 0 1)`
of the in-state (all vectors of the moving object of length `d`, box `List.replicate d c.L`) -/
theorem passComposite_eq_composite_pass3_partial (c : Consts ℚ) (ht : 0 < c.tiny) (hL : 0 < c.L) (kind : Nat)
    (uc : Bool) (et sr s0 s1 s2 : Time ℚ) (a b : Nat) (hab : a ≠ b) (d : Nat) (v ra a0 a1 a2 rb b0 b1 b2 : List ℚ)
    (hv : v.length = d) (hra : ra.length = d) (ha0 : a0.length = d) (ha1 : a1.length = d) (ha2 : a2.length = d)
    (qa0 qa1 qa2 qb0 qb1 qb2 : ℚ) (ist : List (CNode ℚ)) (bds qs : List ℚ) (dr : Draw ℚ) {st' w cs ins u}
    (h : sendRoot Ops.rat c kind uc et ist (inSt3 a b v ra a0 a1 a2 rb b0 b1 b2 qa0 qa1 qa2 qb0 qb1 qb2 sr s0 s1 s2)
          bds qs dr = .out st' true w cs ins u) :
    st'.map toObj = Composite.step Ops.rat JF.Composite.isZ (List.replicate d c.L)
      ((inSt3 a b v ra a0 a1 a2 rb b0 b1 b2 qa0 qa1 qa2 qb0 qb1 qb2 sr s0 s1 s2).map toObj) (.pass et [0, 1] 0 1) := by
  obtain ⟨h2, -⟩ := passComposite_shape3_partial c ht hL kind uc et sr s0 s1 s2 a b hab v ra a0 a1 a2 rb b0 b1 b2
    qa0 qa1 qa2 qb0 qb1 qb2 ist bds qs dr h
  subst h2
  have hroot := sl_sl c hL et sr ra v
  simp only [sl] at hroot
  simp [Composite.step, Composite.pass, Composite.sliceAt, Composite.sliceComp, Kin.timeSlice, Composite.leafOf,
    Composite.applyUpds, Composite.passLocalUpds, Composite.passTargetUpds, Composite.pendOf, Composite.pendFrom,
    Composite.register, Composite.commitRoot, Composite.setLeaves,
    Composite.vscale, Composite.vadd, Composite.vneg, Composite.weight, JF.Composite.isZ, List.range, List.range.loop,
    inSt3, tri, toObj, toP, sl, sliceVec_replicate, hv, hra, ha0, ha1, ha2, Function.comp_def,
    List.zipWith_map_left, List.zipWith_map_right, List.zipWith_self, third3, cancel3, hroot]

/-- `RootConsistent` after a confirmed root-mode event on two three-leaf objects: if the in-state (read as two composite
objects of `JF.Composite`) satisfies C12's invariant `Good`, every object of the confirmed out-state satisfies
`C12.RootConsistent` (via `passComposite_eq_composite_pass3_partial` and C12's `pass_good`) -/
theorem rootConsistent_after_confirmed3_partial (c : Consts ℚ) (ht : 0 < c.tiny) (hL : 0 < c.L) (kind : Nat)
    (uc : Bool) (et sr s0 s1 s2 : Time ℚ) (a b : Nat) (hab : a ≠ b) (d : Nat) (v ra a0 a1 a2 rb b0 b1 b2 : List ℚ)
    (hv : v.length = d) (hra : ra.length = d) (ha0 : a0.length = d) (ha1 : a1.length = d) (ha2 : a2.length = d)
    (qa0 qa1 qa2 qb0 qb1 qb2 : ℚ)
    (hG : Composite.AllGood d (List.replicate d c.L)
      ((inSt3 a b v ra a0 a1 a2 rb b0 b1 b2 qa0 qa1 qa2 qb0 qb1 qb2 sr s0 s1 s2).map toObj))
    (ist : List (CNode ℚ)) (bds qs : List ℚ) (dr : Draw ℚ) {st' w cs ins u}
    (h : sendRoot Ops.rat c kind uc et ist (inSt3 a b v ra a0 a1 a2 rb b0 b1 b2 qa0 qa1 qa2 qb0 qb1 qb2 sr s0 s1 s2)
          bds qs dr = .out st' true w cs ins u) :
    ∀ o ∈ st'.map toObj, C12.RootConsistent (List.replicate d c.L) o := by
  rw [passComposite_eq_composite_pass3_partial c ht hL kind uc et sr s0 s1 s2 a b hab d v ra a0 a1 a2 rb b0 b1 b2
    hv hra ha0 ha1 ha2 qa0 qa1 qa2 qb0 qb1 qb2 ist bds qs dr h]
  have hgood := Composite.pass_good (boxOK_replicate d c.L hL) hG et [0, 1] 0 1 (by simp) (by decide)
    (cL := toObj (tri a (sl c et sr ra v) (sl c et s0 a0 v) (sl c et s1 a1 v) (sl c et s2 a2 v) qa0 qa1 qa2
      (some v) (some et) (some et) (some et) (some et)))
    (cT := toObj (tri b rb b0 b1 b2 qb0 qb1 qb2 none none none none none)) (v := v)
    (by simp [Composite.sliceAt, Composite.sliceComp, Kin.timeSlice, inSt3, tri, toObj, toP, sl, sliceVec_replicate,
          hv, hra, ha0, ha1, ha2])
    (by simp [Composite.sliceAt, Composite.sliceComp, Kin.timeSlice, inSt3, tri, toObj, toP, sliceVec_replicate,
          hv, hra, ha0, ha1, ha2])
    (by simp [tri, toObj, toP]) (by simp [tri, toObj, toP])
  exact fun o ho => C12.good_rootConsistent (hgood o ho)

/-! ### non-vacuity: two three-leaf objects (object 0 moving with `[1,0,0]`, object 3 at rest), constants of `C04.exC` -/

/-- the hypothesis `h` of `passComposite_shape3_partial` is met (kind 8: no thinning, always confirmed) … -/
example : C04.confirmed? (sendRoot Ops.rat C04.exC 8 false ⟨5, 1/2⟩ []
    (inSt3 0 3 [1, 0, 0] [15/100, 2/10, 3/10] [1/10, 2/10, 3/10] [2/10, 2/10, 3/10] [15/100, 25/100, 3/10]
        [6/10, 7/10, 3/10] [6/10, 7/10, 3/10] [7/10, 7/10, 3/10] [65/100, 75/100, 3/10]
        1 (-1) 0 1 (-1) 0 ⟨5, 1/4⟩ ⟨5, 1/4⟩ ⟨5, 1/4⟩ ⟨5, 1/4⟩) [] [] (.value 0)) = some true := by decide +kernel

/-- … and of `passComposite_shape3_rev_partial` -/
example : C04.confirmed? (sendRoot Ops.rat C04.exC 8 false ⟨5, 1/2⟩ []
    (inSt3R 3 0 [1, 0, 0] [6/10, 7/10, 3/10] [6/10, 7/10, 3/10] [7/10, 7/10, 3/10] [65/100, 75/100, 3/10]
        [15/100, 2/10, 3/10] [1/10, 2/10, 3/10] [2/10, 2/10, 3/10] [15/100, 25/100, 3/10]
        1 (-1) 0 1 (-1) 0 ⟨5, 1/4⟩ ⟨5, 1/4⟩ ⟨5, 1/4⟩ ⟨5, 1/4⟩) [] [] (.value 0)) = some true := by decide +kernel

/-- the out-state evaluated by the kernel, independently of the proofs above: object 0 at rest at `x + 1/4`, object 3
moving with `[1,0,0]` stamped `5 + 1/2` -/
example : flat (outOf (sendRoot Ops.rat C04.exC 8 false ⟨5, 1/2⟩ []
    (inSt3 0 3 [1, 0, 0] [15/100, 2/10, 3/10] [1/10, 2/10, 3/10] [2/10, 2/10, 3/10] [15/100, 25/100, 3/10]
        [6/10, 7/10, 3/10] [6/10, 7/10, 3/10] [7/10, 7/10, 3/10] [65/100, 75/100, 3/10]
        1 (-1) 0 1 (-1) 0 ⟨5, 1/4⟩ ⟨5, 1/4⟩ ⟨5, 1/4⟩ ⟨5, 1/4⟩) [] [] (.value 0)))
    = flat [tri 0 [40/100, 2/10, 3/10] [35/100, 2/10, 3/10] [45/100, 2/10, 3/10] [40/100, 25/100, 3/10] 1 (-1) 0
              none none none none none,
            tri 3 [6/10, 7/10, 3/10] [6/10, 7/10, 3/10] [7/10, 7/10, 3/10] [65/100, 75/100, 3/10] 1 (-1) 0
              (some [1, 0, 0]) (some ⟨5, 1/2⟩) (some ⟨5, 1/2⟩) (some ⟨5, 1/2⟩) (some ⟨5, 1/2⟩)] := by decide +kernel

end JF.C04C12N
