import JF.Props.C07
import JF.Props.C11
/-!
# Links between the per-mechanism models

The history properties were modelled mechanism by mechanism (scheduler, activator, kinematics, occupancy); where one of them
needs a fact that another one provides, the fact is a hypothesis of its theorem. This file *composes* some of those pieces, so
that the hypothesis becomes a consequence.

`active_unit_stays_in_recorded_cell` (positive direction) and `active_unit_stays_in_recorded_cell_neg` (negative direction, for
representable coordinates, given the adjacency of the recorded extents) close (exact reading) the history premise of C11's
`reach_inv` — "the active unit leaves its recorded cell only by a cell-boundary event" — from:
* **C09** (pending = fresh yield): the cell-boundary candidate of the active unit is among the live candidates of the leg
  (hypothesis `hb`: its time is `time stamp + time to the boundary`, `JF.Occ.timeToBoundary`);
* **C06/C07** (`Kin.Leg`): the leg commits a *minimal* live candidate;
* **C14**: candidate times are normalised, `Time.le` is the rational order, `add` is exact;
* **C11** (`stays_in_cell_pos`): strictly before the crossing time the time-sliced coordinate is still in the recorded cell.
-/
namespace JF.Links
open JF JF.Kin JF.Occ JF.C14 JF.C11

/-- Whatever event a leg commits, the active unit — time-sliced to the committed time by `_time_slice_unit` — is still in its
recorded cell `i`, unless the committed time is the crossing time itself (then the committed event is the cell-boundary event, or
ties with it: the tie is excluded exactly as in C11). -/
theorem active_unit_stays_in_recorded_cell (g : Grid) (i : ℕ) (hi : i < g.n) (x v bMax : ℚ)
    (hx0 : g.cmin i ≤ x) (hx1 : x < g.cmin (i + 1)) (hv : 0 < v) (hpos : i + 1 = g.n → 0 < x)
    (ts : Time ℚ) (hts : Normalised ts)
    (s s' : Time ℚ × List (Time ℚ)) (hleg : Leg s s')
    (hnorm : ∀ p ∈ s.2, Normalised p)
    (hb : Time.add Ops.rat ts (timeToBoundary Ops.rat g.L x v (g.cmin ((i + 1) % g.n)) bMax).1 ∈ s.2)
    (hge : val ts ≤ val s'.1)
    (hne : val s'.1 ≠ val ts + (timeToBoundary Ops.rat g.L x v (g.cmin ((i + 1) % g.n)) bMax).1) :
    g.idx (pywrap Ops.rat (x + v * Time.sub s'.1 ts) g.L) = i := by
  cases hleg with
  | mk now m pending removed kept new hm hmin hperm hrem hnew =>
    set ttb := (timeToBoundary Ops.rat g.L x v (g.cmin ((i + 1) % g.n)) bMax).1 with httb
    have hle := hmin _ hb
    have hmn : Normalised m := hnorm m hm
    have hbn : Normalised (Time.add Ops.rat ts ttb) := add_normalised ts ttb hts
    rw [le_iff _ _ hmn hbn, add_val] at hle
    have hlt : val m < val ts + ttb := lt_of_le_of_ne hle hne
    rw [sub_exact]
    exact stays_in_cell_pos g i hi x v bMax hx0 hx1 hv hpos (val m - val ts) (by linarith) (by rw [← httb]; linarith)

/-- The same for motion in the **negative** direction: the cell-boundary handler aims at the lower neighbour's recorded
`cell_max`; with the adjacency of the recorded extents (`hgap`: no representable scalar between that `cell_max` and the lower
edge of cell `i`, C16 part D `cells_abut` / `last_cell_reaches_top`) every *representable* time-sliced coordinate at a committed
time before the crossing is still in the recorded cell (`JF.C11.stays_in_cell_neg`). -/
theorem active_unit_stays_in_recorded_cell_neg (g : Grid) (i : ℕ) (hi : i < g.n) (hn2 : 2 ≤ g.n) (x v bMin cmaxPrev : ℚ)
    (hx0 : g.cmin i ≤ x) (hx1 : x < g.cmin (i + 1)) (hv : v < 0)
    (hc0 : g.cmin ((i + g.n - 1) % g.n) ≤ cmaxPrev) (hc1 : cmaxPrev < g.cmin ((i + g.n - 1) % g.n + 1))
    (F : ℚ → Prop) (hgap : ∀ y, F y → cmaxPrev < y → g.cmin ((i + g.n - 1) % g.n + 1) ≤ y)
    (ts : Time ℚ) (hts : Normalised ts)
    (s s' : Time ℚ × List (Time ℚ)) (hleg : Leg s s')
    (hnorm : ∀ p ∈ s.2, Normalised p)
    (hb : Time.add Ops.rat ts (timeToBoundary Ops.rat g.L x v bMin cmaxPrev).1 ∈ s.2)
    (hge : val ts ≤ val s'.1)
    (hne : val s'.1 ≠ val ts + (timeToBoundary Ops.rat g.L x v bMin cmaxPrev).1)
    (hF : F (pywrap Ops.rat (x + v * Time.sub s'.1 ts) g.L)) :
    g.idx (pywrap Ops.rat (x + v * Time.sub s'.1 ts) g.L) = i := by
  cases hleg with
  | mk now m pending removed kept new hm hmin hperm hrem hnew =>
    set ttb := (timeToBoundary Ops.rat g.L x v bMin cmaxPrev).1 with httb
    have hle := hmin _ hb
    have hmn : Normalised m := hnorm m hm
    have hbn : Normalised (Time.add Ops.rat ts ttb) := add_normalised ts ttb hts
    rw [le_iff _ _ hmn hbn, add_val] at hle
    have hlt : val m < val ts + ttb := lt_of_le_of_ne hle hne
    rw [sub_exact] at hF ⊢
    exact stays_in_cell_neg g i hi hn2 x v bMin cmaxPrev hx0 hx1 hv hc0 hc1 F hgap (val m - val ts) (by linarith)
      (by rw [← httb]; linarith) hF

end JF.Links

namespace JF.Links
open JF JF.Kin JF.Occ JF.C14 JF.C11

/-- non-vacuity: the 3-cell grid of C11's examples, the active unit at `x = 5/6` in the last cell moving with `v = 2` (it will
cross the periodic boundary at `τ = 1/12`), time stamp `(3, 1/4)`; the live candidates are a sampling event at `(3, 7/24)` and the
cell-boundary candidate; the leg commits the sampling event: the unit, time-sliced to it, is still in cell 2. -/
example : exGrid.idx (pywrap Ops.rat (5 / 6 + 2 * Time.sub (⟨3, 7 / 24⟩ : Time ℚ) ⟨3, 1 / 4⟩) exGrid.L) = 2 := by
  have httb : (timeToBoundary Ops.rat exGrid.L (5 / 6) 2 (exGrid.cmin ((2 + 1) % exGrid.n)) 0).1 = 1 / 12 := by
    norm_num [timeToBoundary, Grid.L, Grid.cmin, exGrid]
  have nts : Normalised (⟨3, 1 / 4⟩ : Time ℚ) := ⟨⟨3, by norm_num⟩, by norm_num, by norm_num⟩
  have nsamp : Normalised (⟨3, 7 / 24⟩ : Time ℚ) := ⟨⟨3, by norm_num⟩, by norm_num, by norm_num⟩
  obtain ⟨tb, htb⟩ : ∃ tb, tb = Time.add Ops.rat (⟨3, 1 / 4⟩ : Time ℚ)
      (timeToBoundary Ops.rat exGrid.L (5 / 6) 2 (exGrid.cmin ((2 + 1) % exGrid.n)) 0).1 := ⟨_, rfl⟩
  have ntb : Normalised tb := by rw [htb]; exact add_normalised _ _ nts
  have vtb : val tb = 3 + 1 / 4 + 1 / 12 := by
    rw [htb, add_val, httb]; norm_num [val]
  have hleg : Leg ((⟨3, 1 / 4⟩ : Time ℚ), [⟨3, 7 / 24⟩, tb]) (⟨3, 7 / 24⟩, [tb] ++ []) := by
    refine Leg.mk _ _ _ [⟨3, 7 / 24⟩] [tb] [] (List.mem_cons_self ..) ?_ (List.Perm.refl _) (List.mem_cons_self ..) ?_
    · intro p hp
      rcases List.mem_cons.mp hp with rfl | hp
      · exact (le_iff _ _ nsamp nsamp).mpr le_rfl
      · rcases List.mem_cons.mp hp with rfl | hp
        · rw [le_iff _ _ nsamp ntb, vtb]; norm_num [val]
        · cases hp
    · intro c hc; cases hc
  have hn : ∀ p ∈ [(⟨3, 7 / 24⟩ : Time ℚ), tb], Normalised p := by
    intro p hp
    rcases List.mem_cons.mp hp with rfl | hp
    · exact nsamp
    · rcases List.mem_cons.mp hp with rfl | hp
      · exact ntb
      · cases hp
  have hmem : Time.add Ops.rat (⟨3, 1 / 4⟩ : Time ℚ)
      (timeToBoundary Ops.rat exGrid.L (5 / 6) 2 (exGrid.cmin ((2 + 1) % exGrid.n)) 0).1 ∈ [(⟨3, 7 / 24⟩ : Time ℚ), tb] := by
    rw [← htb]; exact List.mem_cons_of_mem _ (List.mem_cons_self ..)
  have key := active_unit_stays_in_recorded_cell exGrid 2 (by decide) (5 / 6) 2 0
    (by norm_num [Grid.cmin, exGrid]) (by norm_num [Grid.cmin, exGrid]) (by norm_num) (by intro; norm_num)
    ⟨3, 1 / 4⟩ nts ((⟨3, 1 / 4⟩ : Time ℚ), [⟨3, 7 / 24⟩, tb]) (⟨3, 7 / 24⟩, [tb] ++ []) hleg hn hmem
    (by norm_num [val]) (by rw [httb]; norm_num [val])
  exact key

end JF.Links
