import JF.Model.CellTaggers
import JF.Model.FactorMaps
import JF.Lemmas.FactorCells
import JF.Lemmas.FactorMaps
/-!
# C10 — Cell-based and file-based factor decompositions cover each partner exactly once

## Cell half
The model (`JF.Model.CellTaggers`) has the four cell taggers, the walker domain of the cell-veto
event handler with the target-cell computation of `send_event_time`, and the mediator's
`get_arguments_cell_veto_event_handler`, over an occupancy state given as data.
Main theorems: `cell_partition_veto`, `cell_partition_bounding` (+ corollaries `cell_targets_nodup`,
`cell_target_exactly_one_family`), resting on `veto_domain_translate` (the walker domain translated
to the active cell is exactly the set of non-nearby cells, each once) and `cells_split`
(nearby / non-nearby are complementary).
-/
namespace JF.C10
open JF.CellTaggers

/-! ## cell half -/

/-- the cells of the grid that are not nearby `c`, in grid order -/
def nonNearby (g : Grid) (c : Cell) : List Cell := (allCells g.n).filter fun x => !(isNearby g c x)

theorem nodup_nonNearby (g : Grid) (c : Cell) : (nonNearby g c).Nodup :=
  (nodup_allCells g.n).filter _

theorem vetoDomain_eq (g : Grid) : vetoDomain g = nonNearby g (zeroCell g.n) := by
  simp [vetoDomain, vetoDomainKeyed, nonNearby, List.map_map, Function.comp_def]

/-- The table of derivative bounds is keyed by `relative_cell(cell, zero_cell)` but looked up with
the walker item `cell`: the two coincide, so the look-up in `send_event_time` cannot miss. -/
theorem veto_key_is_item (g : Grid) (p : Cell × Cell) (hp : p ∈ vetoDomainKeyed g) : p.2 = p.1 := by
  simp only [vetoDomainKeyed, List.mem_map, List.mem_filter] at hp
  obtain ⟨c, ⟨hc, _⟩, rfl⟩ := hp
  exact relative_zero (mem_allCells.mp hc)

/-- **The veto domain is exactly the set of non-nearby cells.** Translating every cell the walker
can sample by the active cell gives every cell that is not nearby the active cell, each exactly
once (as lists: a permutation). -/
theorem veto_domain_translate (g : Grid) (ac : Cell) (hac : Valid g.n ac) :
    ((vetoDomain g).map (translate g.n ac)).Perm (nonNearby g ac) := by
  have hz : Valid g.n (zeroCell g.n) := valid_zeroCell (valid_pos hac)
  rw [vetoDomain_eq]
  have hnd : ((nonNearby g (zeroCell g.n)).map (translate g.n ac)).Nodup := by
    refine List.Nodup.map_on ?_ ((nodup_allCells g.n).filter _)
    intro x hx y hy h
    simp only [nonNearby, List.mem_filter] at hx hy
    exact translate_inj hac (mem_allCells.mp hx.1) (mem_allCells.mp hy.1) h
  rw [List.perm_ext_iff_of_nodup hnd (nodup_nonNearby g ac)]
  intro x
  simp only [nonNearby, List.mem_map, List.mem_filter, mem_allCells, Bool.not_eq_eq_eq_not,
    Bool.not_true]
  constructor
  · rintro ⟨r, ⟨hr, hnr⟩, rfl⟩
    refine ⟨translate_valid hac hr, ?_⟩
    rw [← Bool.not_eq_true] at hnr ⊢
    rw [isNearby_iff hac, nearRel_translate hac hr, ← isNearby_iff hz]
    exact hnr
  · rintro ⟨hx, hnx⟩
    have hr := relative_valid hx hac
    refine ⟨relative g.n x ac, ⟨hr, ?_⟩, translate_relative hac hx⟩
    rw [← Bool.not_eq_true] at hnx ⊢
    rw [isNearby_iff hz, ← nearRel_translate hac hr, translate_relative hac hx, ← isNearby_iff hac]
    exact hnx

/-- **Nearby and non-nearby cells are complementary**: together they are all cells, each once. -/
theorem cells_split (g : Grid) (ac : Cell) (hac : Valid g.n ac) :
    (nearby g ac ++ nonNearby g ac).Perm (allCells g.n) := by
  have h1 : ((allCells g.n).filter fun x => isNearby g ac x).Perm (nearby g ac) := by
    rw [List.perm_ext_iff_of_nodup ((nodup_allCells g.n).filter _) (nodup_nearby g ac)]
    intro x
    simp only [List.mem_filter, mem_allCells, isNearby, List.contains_iff_mem]
    exact ⟨fun h => h.2, fun h => ⟨nearby_valid hac h, h⟩⟩
  exact (h1.symm.append (List.Perm.refl _)).trans (List.filter_append_perm _ _)

theorem vetoArgs_filterMap (s : Occ) (c : Cell) : (vetoArgs s c).filterMap id = s.occ c := by
  unfold vetoArgs
  split
  · rename_i h
    have : s.occ c = [] := by simpa using h
    simp [this]
  · induction s.occ c with
    | nil => rfl
    | cons x xs ih => simp

/-- with at most one occupant per cell (the shipped leaf-unit cell-veto set-up) the mediator hands
exactly one argument to `send_out_state` -/
theorem vetoArgs_single (s : Occ) (c : Cell) (h : (s.occ c).length ≤ 1) : (vetoArgs s c).length = 1 := by
  unfold vetoArgs
  split
  · rfl
  · rename_i hne
    have : s.occ c ≠ [] := by simpa using hne
    have : 0 < (s.occ c).length := List.length_pos_iff.mpr this
    simp; omega

theorem targetsVeto_eq (g : Grid) (s : Occ) (ac : Cell) (a : Ident) (h : s.active = some (ac, a)) :
    targetsVeto g s = ((vetoDomain g).map (translate g.n ac)).flatMap s.occ := by
  simp only [targetsVeto, vetoTargets, h]
  induction vetoDomain g with
  | nil => rfl
  | cons r rs ih =>
    simp only [List.map_cons, List.flatMap_cons]
    rw [ih, vetoArgs_filterMap]

theorem flatMap_filter_nonempty {α β : Type} (f : α → List β) (p : α → Bool) (l : List α) :
    (l.filter fun c => !(f c).isEmpty && p c).flatMap f = (l.filter p).flatMap f := by
  induction l with
  | nil => rfl
  | cons x xs ih =>
    by_cases hp : p x = true <;> by_cases he : (f x).isEmpty = true
    · have : f x = [] := by simpa using he
      simp [hp, ih, this]
    · simp [hp, he, ih]
    · simp [hp, he, ih]
    · simp [hp, he, ih]

theorem targetsBounding_eq (g : Grid) (s : Occ) (ac : Cell) (a : Ident) (h : s.active = some (ac, a)) :
    targetsBounding g s = (nonNearby g ac).flatMap s.occ := by
  simp only [targetsBounding, cellBoundingTagger, h, nonNearby]
  rw [← flatMap_filter_nonempty s.occ (fun x => !(isNearby g ac x))]
  induction (allCells g.n).filter fun c => !(s.occ c).isEmpty && !(isNearby g ac c) with
  | nil => rfl
  | cons x xs ih => simp [List.flatMap_cons, ih]

theorem pairTargets_pairs {α : Type} (a : Ident) (f : α → List Ident) (l : List α) :
    pairTargets (l.flatMap fun x => (f x).map fun o => [a, o]) = l.flatMap f := by
  have inner : ∀ ys : List Ident, (ys.map fun o => [a, o]).flatMap List.tail = ys := by
    intro ys
    induction ys with
    | nil => rfl
    | cons y ys ih => simp [List.flatMap_cons, ih]
  induction l with
  | nil => rfl
  | cons x xs ih =>
    simp only [pairTargets] at ih ⊢
    simp [List.flatMap_cons, List.flatMap_append, inner, ih]

theorem targetsExcluded_eq (g : Grid) (s : Occ) (ac : Cell) (a : Ident) (h : s.active = some (ac, a)) :
    targetsExcluded g s = (nearby g ac).flatMap s.occ := by
  simp only [targetsExcluded, excludedCellsTagger, h]
  exact pairTargets_pairs a s.occ _

theorem targetsSurplus_eq (s : Occ) (ac : Cell) (a : Ident) (h : s.active = some (ac, a)) :
    targetsSurplus s = s.yieldSurplus := by
  simp only [targetsSurplus, surplusCellsTagger, h]
  induction s.yieldSurplus with
  | nil => rfl
  | cons x xs ih =>
    simp only [pairTargets] at ih ⊢
    simp [List.flatMap_cons, ih]

/-- The explicit invariant of the occupancy state the theorems need (that `SingleActiveCellOccupancy`
maintains it is property C11): the active unit is `a` in the valid cell `ac`, and the stored
identifiers (occupants of all cells, then surplus) are the relevant units other than `a`,
each exactly once. -/
structure OccInv (g : Grid) (s : Occ) (relevant : List Ident) (ac : Cell) (a : Ident) : Prop where
  active : s.active = some (ac, a)
  cell_valid : Valid g.n ac
  relevant_nodup : relevant.Nodup
  active_relevant : a ∈ relevant
  stored_eq : (stored g s).Perm (relevant.erase a)

/-- what the three event families treat never depends on the invariant: it is the stored units,
re-grouped -/
theorem cell_families_are_stored_veto (g : Grid) (s : Occ) (ac : Cell) (a : Ident)
    (h : s.active = some (ac, a)) (hac : Valid g.n ac) :
    (targetsVeto g s ++ targetsExcluded g s ++ targetsSurplus s).Perm (stored g s) := by
  rw [targetsVeto_eq g s ac a h, targetsExcluded_eq g s ac a h, targetsSurplus_eq s ac a h, stored]
  refine List.Perm.append ?_ (List.Perm.refl _)
  have h1 := (veto_domain_translate g ac hac).flatMap_right s.occ
  have h2 := (cells_split g ac hac).flatMap_right s.occ
  rw [List.flatMap_append] at h2
  exact ((h1.append (List.Perm.refl _)).trans List.perm_append_comm).trans h2

theorem cell_families_are_stored_bounding (g : Grid) (s : Occ) (ac : Cell) (a : Ident)
    (h : s.active = some (ac, a)) (hac : Valid g.n ac) :
    (targetsBounding g s ++ targetsExcluded g s ++ targetsSurplus s).Perm (stored g s) := by
  rw [targetsBounding_eq g s ac a h, targetsExcluded_eq g s ac a h, targetsSurplus_eq s ac a h, stored]
  refine List.Perm.append ?_ (List.Perm.refl _)
  have h2 := (cells_split g ac hac).flatMap_right s.occ
  rw [List.flatMap_append] at h2
  exact List.perm_append_comm.trans h2

/-- **C10, cell half (cell-veto variant).**  Occupants of non-nearby cells (reached through the
walker domain, the translation to the active cell and the mediator's look-up), occupants of nearby
cells (pair in-states of the excluded-cells tagger) and surplus units (pair in-states of the
surplus tagger) together are exactly the relevant units other than the active one — as a list
permutation, i.e. with multiplicities: nobody is missed, nobody is treated twice. -/
theorem cell_partition_veto (g : Grid) (s : Occ) (relevant : List Ident) (ac : Cell) (a : Ident)
    (inv : OccInv g s relevant ac a) :
    (targetsVeto g s ++ targetsExcluded g s ++ targetsSurplus s).Perm (relevant.erase a) :=
  (cell_families_are_stored_veto g s ac a inv.active inv.cell_valid).trans inv.stored_eq

/-- **C10, cell half (cell-bounding-potential variant).** -/
theorem cell_partition_bounding (g : Grid) (s : Occ) (relevant : List Ident) (ac : Cell) (a : Ident)
    (inv : OccInv g s relevant ac a) :
    (targetsBounding g s ++ targetsExcluded g s ++ targetsSurplus s).Perm (relevant.erase a) :=
  (cell_families_are_stored_bounding g s ac a inv.active inv.cell_valid).trans inv.stored_eq

/-- nobody is treated twice, and the active unit is not its own target -/
theorem cell_targets_nodup (g : Grid) (s : Occ) (relevant : List Ident) (ac : Cell) (a : Ident)
    (inv : OccInv g s relevant ac a) :
    (targetsVeto g s ++ targetsExcluded g s ++ targetsSurplus s).Nodup ∧
    (targetsBounding g s ++ targetsExcluded g s ++ targetsSurplus s).Nodup ∧
    a ∉ targetsVeto g s ++ targetsExcluded g s ++ targetsSurplus s ∧
    a ∉ targetsBounding g s ++ targetsExcluded g s ++ targetsSurplus s := by
  have hn : (relevant.erase a).Nodup := inv.relevant_nodup.erase a
  have ha : a ∉ relevant.erase a := fun h => (List.Nodup.mem_erase_iff inv.relevant_nodup).mp h |>.1 rfl
  have p1 := cell_partition_veto g s relevant ac a inv
  have p2 := cell_partition_bounding g s relevant ac a inv
  exact ⟨p1.nodup_iff.mpr hn, p2.nodup_iff.mpr hn, fun h => ha (p1.subset h), fun h => ha (p2.subset h)⟩

/-- every other relevant unit is the target of exactly one in-state / walker cell in total:
its multiplicities in the three families add up to one -/
theorem cell_target_exactly_one_family (g : Grid) (s : Occ) (relevant : List Ident) (ac : Cell) (a : Ident)
    (inv : OccInv g s relevant ac a) (u : Ident) (hu : u ∈ relevant) (hua : u ≠ a) :
    (targetsVeto g s).count u + (targetsExcluded g s).count u + (targetsSurplus s).count u = 1 ∧
    (targetsBounding g s).count u + (targetsExcluded g s).count u + (targetsSurplus s).count u = 1 := by
  have hn : (relevant.erase a).Nodup := inv.relevant_nodup.erase a
  have hm : u ∈ relevant.erase a := (List.mem_erase_of_ne hua).mpr hu
  have hc : (relevant.erase a).count u = 1 := List.count_eq_one_of_mem hn hm
  have p1 := (cell_partition_veto g s relevant ac a inv).count_eq u
  have p2 := (cell_partition_bounding g s relevant ac a inv).count_eq u
  simp only [List.count_append] at p1 p2
  omega

/-- a deactivated / irrelevant active unit: no cell-based in-state at all -/
theorem no_active_no_instates (g : Grid) (s : Occ) (h : s.active = none) :
    cellVetoTagger s = [] ∧ cellBoundingTagger g s = [] ∧ excludedCellsTagger g s = [] ∧
    surplusCellsTagger s = [] ∧ vetoTargets g s = [] := by
  simp [cellVetoTagger, cellBoundingTagger, excludedCellsTagger, surplusCellsTagger, vetoTargets, h]

/-- every in-state of the four taggers starts with the active unit -/
theorem instates_start_with_active (g : Grid) (s : Occ) (ac : Cell) (a : Ident) (h : s.active = some (ac, a)) :
    ∀ i ∈ cellVetoTagger s ++ cellBoundingTagger g s ++ excludedCellsTagger g s ++ surplusCellsTagger s,
      i.head? = some a := by
  intro i hi
  simp only [cellVetoTagger, cellBoundingTagger, excludedCellsTagger, surplusCellsTagger, h,
    List.mem_append, List.mem_map, List.mem_flatMap, List.mem_singleton] at hi
  rcases hi with ((rfl | ⟨c, _, rfl⟩) | ⟨c, _, o, _, rfl⟩) | ⟨x, _, rfl⟩ <;> rfl

/-! ## factor-file half -/
open JF.FactorMaps

/-- the other composite objects, in the order of `range(number_of_root_nodes)` -/
def others (s : Setting) (r : Nat) : List Nat := (List.range s.nRoots).filter fun o => o != r

/-- `ty` is an inter-object factor type of the file: one of its lines names a point mass of the
second composite object -/
def InterType (s : Setting) (lines : List Line) (ty : String) : Prop :=
  ∃ S ∈ linesOf lines ty, ∃ t ∈ S, s.nPer ≤ t

/-- `ty` is an intra-object factor type of the file: it occurs, and all its lines stay within the
first composite object -/
def IntraType (s : Setting) (lines : List Line) (ty : String) : Prop :=
  linesOf lines ty ≠ [] ∧ ∀ S ∈ linesOf lines ty, ∀ t ∈ S, t < s.nPer

theorem match_lookup_eq_getL {β : Type} (m : IndexMap) (i : Nat) (f : List Nat → β) :
    (match m.lookup i with | none => [] | some ls => ls.map f) = (getL m i).map f := by
  unfold getL
  cases m.lookup i <;> rfl

/-- the dictionary entry of a type that occurs in an accepted file -/
theorem lookup_of_lines {s : Setting} {lines : List Line} {fs : Factors} {ty : String}
    (h : instantiate s lines [] = .ok fs) (hne : linesOf lines ty ≠ []) :
    ∃ tm, fs.lookup ty = some tm ∧ GoodTy s (linesOf lines ty) tm := by
  have hg := good_of_instantiate h
  cases hl : fs.lookup ty with
  | none => exact absurd (hg.1 _ hl) hne
  | some tm => exact ⟨tm, rfl, hg.2 _ _ hl⟩

/-- **C10, factor half, inter-object factor types.**  For an accepted file, an inter-object type
`ty`, composite objects with more than one point mass and a valid active point mass `(r, i)`:
the in-states are the lines of the type that contain `i` (as an index of the first object;
`entries` = in file order, once per occurrence), instantiated once per other composite object `o`
— and nothing else. -/
theorem factor_spec_inter (s : Setting) (lines : List Line) (fs : Factors) (ty : String) (r i : Nat)
    (h : instantiate s lines [] = .ok fs) (hinter : InterType s lines ty) (hn : s.nPer ≠ 1)
    (hr : r < s.nRoots) (hi : i < s.nPer) :
    yieldFactor s fs ty [r, i] =
      .ok ((others s r).flatMap fun o => (entries i (linesOf lines ty)).map (inst s.nPer r o)) := by
  obtain ⟨S, hS, t, ht, htn⟩ := hinter
  obtain ⟨tm, hl, g⟩ := lookup_of_lines h (List.ne_nil_of_mem hS)
  obtain ⟨b, hb, hall⟩ := g.loc
  have hbf : b = false := by
    rw [← hall S hS]
    simp only [isLocalLine, List.all_eq_false]
    exact ⟨t, ht, by simpa using htn⟩
  subst hbf
  have hn1 : (s.nPer == 1) = false := by simpa using hn
  have hm := g.map i
  simp only [hi, if_true] at hm
  simp only [yieldFactor, hl, hb, hn1, Bool.false_eq_true, if_false, yieldNonLocal, hr, hi, and_self,
    if_true, others]
  congr 2
  funext o
  rw [← hm]
  unfold getL
  cases tm.map.lookup i <;> rfl

/-- **C10, factor half, intra-object factor types.**  The in-states for `(r, i)` are the lines of the
type containing `i`, instantiated once, within the active composite object.  If no line of the
type contains `i` the real code raises `KeyError` (a loud error outcome) instead of yielding
nothing. -/
theorem factor_spec_intra (s : Setting) (lines : List Line) (fs : Factors) (ty : String) (r i : Nat)
    (h : instantiate s lines [] = .ok fs) (hintra : IntraType s lines ty)
    (hr : r < s.nRoots) (hi : i < s.nPer) :
    yieldFactor s fs ty [r, i] =
      if entries i (linesOf lines ty) = [] then .error "KeyError"
      else .ok ((entries i (linesOf lines ty)).map (inst s.nPer r r)) := by
  obtain ⟨hne, hloc⟩ := hintra
  obtain ⟨tm, hl, g⟩ := lookup_of_lines h hne
  obtain ⟨b, hb, hall⟩ := g.loc
  obtain ⟨S, hS⟩ := List.exists_mem_of_ne_nil _ hne
  have hbt : b = true := by
    rw [← hall S hS]
    simp only [isLocalLine, List.all_eq_true]
    intro t ht; simpa using hloc S hS t ht
  subst hbt
  have hgl := g.map i
  simp only [hi, if_true] at hgl
  simp only [yieldFactor, hl, hb, yieldLocal, hr, if_true]
  cases hlk : tm.map.lookup i with
  | none =>
    have : entries i (linesOf lines ty) = [] := by
      rw [← hgl]; exact (lookup_none_iff g.noEmpty i).mp hlk
    simp [this]
  | some ls =>
    have hls : ls = entries i (linesOf lines ty) := by rw [← hgl, lookup_some_getL hlk]
    have hne' : entries i (linesOf lines ty) ≠ [] := hls ▸ g.noEmpty i ls hlk
    simp only [hne', if_false]
    subst hls
    congr 1
    apply List.map_congr_left
    intro S' hS'
    have hS'L : S' ∈ linesOf lines ty := by
      simp only [entries, List.mem_flatMap] at hS'
      obtain ⟨S'', h1, h2⟩ := hS'
      rw [List.eq_of_mem_replicate h2]; exact h1
    simp only [inst]
    apply List.map_congr_left
    intro t ht
    simp [hloc S' hS'L t ht]

/-- an intra-object type asked for an index beyond the composite object: `KeyError` -/
theorem factor_intra_index_out_of_range (s : Setting) (lines : List Line) (fs : Factors) (ty : String)
    (r i : Nat) (h : instantiate s lines [] = .ok fs) (hintra : IntraType s lines ty)
    (hr : r < s.nRoots) (hi : ¬ i < s.nPer) :
    yieldFactor s fs ty [r, i] = .error "KeyError" := by
  obtain ⟨hne, hloc⟩ := hintra
  obtain ⟨tm, hl, g⟩ := lookup_of_lines h hne
  obtain ⟨b, hb, hall⟩ := g.loc
  obtain ⟨S, hS⟩ := List.exists_mem_of_ne_nil _ hne
  have hbt : b = true := by
    rw [← hall S hS]
    simp only [isLocalLine, List.all_eq_true]
    intro t ht; simpa using hloc S hS t ht
  subst hbt
  have hgl := g.map i
  simp only [hi, if_false] at hgl
  have := (lookup_none_iff g.noEmpty i).mpr hgl
  simp [yieldFactor, hl, hb, yieldLocal, hr, this]

/-- **C10, factor half, no composite objects (`n = 1`).**  An inter-object type of the file (the
shipped `[0, 1], Coulomb`) yields the pair of the active point mass with every other point mass,
once each; the content of the lines is not consulted. -/
theorem factor_spec_no_composite (s : Setting) (lines : List Line) (fs : Factors) (ty : String) (r : Nat)
    (h : instantiate s lines [] = .ok fs) (hinter : InterType s lines ty) (hn : s.nPer = 1)
    (hr : r < s.nRoots) :
    yieldFactor s fs ty [r] = .ok ((others s r).map fun o => [[r], [o]]) := by
  obtain ⟨S, hS, t, ht, htn⟩ := hinter
  obtain ⟨tm, hl, g⟩ := lookup_of_lines h (List.ne_nil_of_mem hS)
  obtain ⟨b, hb, hall⟩ := g.loc
  have hbf : b = false := by
    rw [← hall S hS]
    simp only [isLocalLine, List.all_eq_false]
    exact ⟨t, ht, by simpa using htn⟩
  subst hbf
  have hn1 : (s.nPer == 1) = true := by simpa using hn
  simp only [yieldFactor, hl, hb, hn1, if_true, yieldNoComposite, hr, others]
  congr 2
  apply List.filter_congr
  intro o _
  by_cases hor : o = r
  · subst hor; simp
  · have h1 : ([o] != [r]) = true := by simpa using hor
    have h2 : (o != r) = true := by simpa using hor
    rw [h1, h2]

/-- a factor type that does not occur in the file falls back on the all-pairs map -/
theorem factor_default (s : Setting) (lines : List Line) (fs : Factors) (ty : String) (r i : Nat)
    (h : instantiate s lines [] = .ok fs) (habs : linesOf lines ty = []) (hn : s.nPer ≠ 1)
    (hr : r < s.nRoots) (hi : i < s.nPer) :
    yieldFactor s fs ty [r, i] =
      .ok ((others s r).flatMap fun o => (List.range s.nPer).map fun l => [[r, i], [o, l]]) := by
  have hg := good_of_instantiate h
  have hl : fs.lookup ty = none := by
    cases hl : fs.lookup ty with
    | none => rfl
    | some tm => exact absurd habs (hg.2 _ _ hl).nonempty
  have hn1 : (s.nPer == 1) = false := by simpa using hn
  simp [yieldFactor, hl, hn1, yieldAllComposite, hr, hi, others]

/-- index *sets*: if no line of the type repeats an index, "once per occurrence" is "the lines
that contain `i`" -/
theorem factor_spec_inter_sets (s : Setting) (lines : List Line) (fs : Factors) (ty : String) (r i : Nat)
    (h : instantiate s lines [] = .ok fs) (hinter : InterType s lines ty) (hn : s.nPer ≠ 1)
    (hr : r < s.nRoots) (hi : i < s.nPer) (hset : ∀ S ∈ linesOf lines ty, S.Nodup) :
    yieldFactor s fs ty [r, i] =
      .ok ((others s r).flatMap fun o =>
        ((linesOf lines ty).filter fun S => S.contains i).map (inst s.nPer r o)) := by
  rw [factor_spec_inter s lines fs ty r i h hinter hn hr hi, entries_of_nodup i _ hset]

theorem factor_spec_intra_sets (s : Setting) (lines : List Line) (fs : Factors) (ty : String) (r i : Nat)
    (h : instantiate s lines [] = .ok fs) (hintra : IntraType s lines ty)
    (hr : r < s.nRoots) (hi : i < s.nPer) (hset : ∀ S ∈ linesOf lines ty, S.Nodup)
    (hcov : ∃ S ∈ linesOf lines ty, i ∈ S) :
    yieldFactor s fs ty [r, i] =
      .ok (((linesOf lines ty).filter fun S => S.contains i).map (inst s.nPer r r)) := by
  rw [factor_spec_intra s lines fs ty r i h hintra hr hi, entries_of_nodup i _ hset]
  obtain ⟨S, hS, hiS⟩ := hcov
  have : (linesOf lines ty).filter (fun S => S.contains i) ≠ [] :=
    List.ne_nil_of_mem (List.mem_filter.mpr ⟨hS, by simpa using hiS⟩)
  rw [if_neg this]

/-! ### each in-state once -/

theorem instFun_injective (n r o : Nat) (hor : o ≠ r) :
    Function.Injective fun t : Nat => if t < n then [r, t] else [o, t - n] := by
  intro t t' h
  dsimp only at h
  split at h <;> split at h <;> simp only [List.cons.injEq, and_true] at h
  · exact h.2
  · exact absurd h.1.symm hor
  · exact absurd h.1 hor
  · omega

theorem inst_injective (n r o : Nat) (hor : o ≠ r) : Function.Injective (inst n r o) :=
  List.map_injective_iff.mpr (instFun_injective n r o hor)

/-- an instantiated line that reaches into the other composite object tells which one it is -/
theorem inst_other_eq {n r o o' : Nat} {S S' : List Nat} (hor : o ≠ r) (t : Nat) (ht : t ∈ S) (htn : n ≤ t)
    (h : inst n r o S = inst n r o' S') : o = o' := by
  have hm : [o, t - n] ∈ inst n r o S := by
    simp only [inst, List.mem_map]
    exact ⟨t, ht, by simp [Nat.not_lt.mpr htn]⟩
  rw [h] at hm
  simp only [inst, List.mem_map] at hm
  obtain ⟨t', _, ht'⟩ := hm
  split at ht' <;> simp only [List.cons.injEq, and_true] at ht'
  · exact absurd ht'.1.symm hor
  · exact ht'.1.symm

theorem inst_same_injOn (n r : Nat) : ∀ (S S' : List Nat), (∀ t ∈ S, t < n) → (∀ t ∈ S', t < n) →
    inst n r r S = inst n r r S' → S = S'
  | [], [], _, _, _ => rfl
  | [], _ :: _, _, _, h => by simp [inst] at h
  | _ :: _, [], _, _, h => by simp [inst] at h
  | t :: S, t' :: S', hS, hS', h => by
    simp only [inst, List.map_cons, List.cons.injEq] at h
    have h1 := hS t (by simp)
    have h2 := hS' t' (by simp)
    simp only [h1, h2, if_true, List.cons.injEq, and_true, true_and] at h
    rw [h.1, inst_same_injOn n r S S' (fun x hx => hS x (by simp [hx])) (fun x hx => hS' x (by simp [hx])) h.2]

/-- **each inter-object in-state once**: if the file does not repeat a line of the type and every
line is an index set, the in-states yielded for `(r, i)` are pairwise different -/
theorem factor_inter_nodup (s : Setting) (lines : List Line) (fs : Factors) (ty : String) (r i : Nat)
    (h : instantiate s lines [] = .ok fs) (hinter : InterType s lines ty) (hn : s.nPer ≠ 1)
    (hr : r < s.nRoots) (hi : i < s.nPer) (hset : ∀ S ∈ linesOf lines ty, S.Nodup)
    (hlines : (linesOf lines ty).Nodup) :
    ∃ l, yieldFactor s fs ty [r, i] = .ok l ∧ l.Nodup := by
  refine ⟨_, factor_spec_inter_sets s lines fs ty r i h hinter hn hr hi hset, ?_⟩
  -- every line of an inter-object type reaches into the other object
  have hreach : ∀ S ∈ linesOf lines ty, ∃ t ∈ S, s.nPer ≤ t := by
    obtain ⟨S0, hS0, t0, ht0, htn0⟩ := hinter
    obtain ⟨tm, _, g⟩ := lookup_of_lines h (List.ne_nil_of_mem hS0)
    obtain ⟨b, _, hall⟩ := g.loc
    have hbf : b = false := by
      rw [← hall S0 hS0]
      simp only [isLocalLine, List.all_eq_false]
      exact ⟨t0, ht0, by simpa using htn0⟩
    intro S hS
    have := hall S hS
    rw [hbf] at this
    simp only [isLocalLine, List.all_eq_false] at this
    obtain ⟨t, ht, htn⟩ := this
    exact ⟨t, ht, by simpa using htn⟩
  have hothers : (others s r).Nodup := List.nodup_range.filter _
  rw [List.nodup_flatMap]
  constructor
  · intro o ho
    have hor : o ≠ r := by
      simp only [others, List.mem_filter] at ho
      simpa using ho.2
    exact (hlines.filter _).map (inst_injective _ _ _ hor)
  · refine hothers.pairwise_of_forall_ne fun o ho o' _ hoo' => ?_
    have hor : o ≠ r := by
      simp only [others, List.mem_filter] at ho
      simpa using ho.2
    simp only [Function.onFun, List.Disjoint, List.mem_map, List.mem_filter]
    rintro x ⟨S, ⟨hS, _⟩, rfl⟩ ⟨S', _, h'⟩
    obtain ⟨t, ht, htn⟩ := hreach S hS
    exact hoo' (inst_other_eq hor t ht htn h'.symm)

/-- **each intra-object in-state once** -/
theorem factor_intra_nodup (s : Setting) (lines : List Line) (fs : Factors) (ty : String) (r i : Nat)
    (h : instantiate s lines [] = .ok fs) (hintra : IntraType s lines ty)
    (hr : r < s.nRoots) (hi : i < s.nPer) (hset : ∀ S ∈ linesOf lines ty, S.Nodup)
    (hlines : (linesOf lines ty).Nodup) (hcov : ∃ S ∈ linesOf lines ty, i ∈ S) :
    ∃ l, yieldFactor s fs ty [r, i] = .ok l ∧ l.Nodup := by
  refine ⟨_, factor_spec_intra_sets s lines fs ty r i h hintra hr hi hset hcov, ?_⟩
  refine List.Nodup.map_on ?_ (hlines.filter _)
  intro S hS S' hS' he
  exact inst_same_injOn _ _ S S' (hintra.2 S (List.mem_filter.mp hS).1) (hintra.2 S' (List.mem_filter.mp hS').1) he

/-! ### the tagger: union over the active leaves, de-duplicated -/

theorem yieldAll_ok {s : Setting} {fs : Factors} {ty : String} : ∀ {leaves : List Ident} {l : List InState},
    yieldAll s fs ty leaves = .ok l →
    ∀ f, f ∈ l ↔ ∃ leaf ∈ leaves, ∃ l', yieldFactor s fs ty leaf = .ok l' ∧ f ∈ l'
  | [], l, h, f => by
    simp only [yieldAll] at h
    injection h with h
    subst h; simp
  | a :: rest, l, h, f => by
    simp only [yieldAll] at h
    split at h
    · cases h
    · rename_i la hla
      split at h
      · cases h
      · rename_i lr hlr
        injection h with h
        subst h
        rw [List.mem_append, yieldAll_ok hlr f]
        constructor
        · rintro (hf | ⟨leaf, hleaf, l', hl', hf⟩)
          · exact ⟨a, by simp, la, hla, hf⟩
          · exact ⟨leaf, by simp [hleaf], l', hl', hf⟩
        · rintro ⟨leaf, hleaf, l', hl', hf⟩
          rcases List.mem_cons.mp hleaf with rfl | hleaf
          · rw [hla] at hl'; injection hl' with hl'; subst hl'; exact Or.inl hf
          · exact Or.inr ⟨leaf, hleaf, l', hl', hf⟩

theorem yieldAll_error {s : Setting} {fs : Factors} {ty : String} : ∀ {leaves : List Ident} {e : String},
    yieldAll s fs ty leaves = .error e → ∃ leaf ∈ leaves, yieldFactor s fs ty leaf = .error e
  | [], e, h => by simp [yieldAll] at h
  | a :: rest, e, h => by
    simp only [yieldAll] at h
    split at h
    · rename_i e' he'
      injection h with h
      subst h; exact ⟨a, by simp, he'⟩
    · split at h
      · rename_i e' he'
        injection h with h
        subst h
        obtain ⟨leaf, hleaf, hl⟩ := yieldAll_error he'
        exact ⟨leaf, by simp [hleaf], hl⟩
      · cases h

/-- **C10, factor half, active composite object.**  The tagger yields every in-state that some
active leaf yields, and each exactly once (the in-state of a factor with several active members
is not duplicated). -/
theorem tagger_spec (s : Setting) (fs : Factors) (ty : String) (leaves : List Ident) (l : List InState)
    (h : taggerYield s fs ty leaves = .ok l) :
    l.Nodup ∧ ∀ f, f ∈ l ↔ ∃ leaf ∈ leaves, ∃ l', yieldFactor s fs ty leaf = .ok l' ∧ f ∈ l' := by
  simp only [taggerYield] at h
  split at h
  · cases h
  · rename_i la hla
    injection h with h
    subst h
    exact ⟨nodup_dedupe _, fun f => by rw [mem_dedupe]; exact yieldAll_ok hla f⟩

/-- the tagger fails only if one of the leaves' maps fails, with that error -/
theorem tagger_error (s : Setting) (fs : Factors) (ty : String) (leaves : List Ident) (e : String)
    (h : taggerYield s fs ty leaves = .error e) :
    ∃ leaf ∈ leaves, yieldFactor s fs ty leaf = .error e := by
  simp only [taggerYield] at h
  split at h
  · rename_i e' he'
    injection h with h
    subst h; exact yieldAll_error he'
  · cases h

end JF.C10
