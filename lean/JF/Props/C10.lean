import JF.Model.CellTaggers
import JF.Model.FactorMaps
import Mathlib.Data.List.Perm.Basic
/-!
# C10 — Cell-based and file-based factor decompositions cover each partner exactly once
(theorems follow)
-/
namespace JF.C10
open JF.CellTaggers

/-- a deactivated / irrelevant active unit: no cell-based in-state at all -/
theorem no_active_no_instates (g : Grid) (s : Occ) (h : s.active = none) :
    cellVetoTagger s = [] ∧ cellBoundingTagger g s = [] ∧ excludedCellsTagger g s = [] ∧
    surplusCellsTagger s = [] ∧ vetoTargets g s = [] := by
  simp [cellVetoTagger, cellBoundingTagger, excludedCellsTagger, surplusCellsTagger, vetoTargets, h]

end JF.C10
