import JF.Model.CellTaggers
import JF.Model.FactorMaps
import JF.Lemmas.FactorCells
/-!
# C10 — Cell-based and file-based factor decompositions cover each partner exactly once

## Cell half
The model (`JF.Model.CellTaggers`) has the four cell taggers, the walker domain of the cell-veto
event handler with the target-cell computation of `send_event_time`, and the mediator's
`get_arguments_cell_veto_event_handler`, over an occupancy state given as data.
Main theorems: `cell_partition_veto`, `cell_partition_bounding` (+ corollaries `cell_targets_nodup`,
`cell_target_exactly_one_family`), resting on `veto_domain_translate` (the walker domain translated
to the active cell is exactly the set of non-nearby cells, each once) and `cells_split`
(nearby / non-nearby are complementary).
-/
namespace JF.C10
open JF.CellTaggers

/-! ## cell half -/

/-- the cells of the grid that are not nearby `c`, in grid order -/
def nonNearby (g : Grid) (c : Cell) : List Cell := (allCells g.n).filter fun x => !(isNearby g c x)

theorem vetoDomain_eq (g : Grid) : vetoDomain g = nonNearby g (zeroCell g.n) := by
  simp [vetoDomain, vetoDomainKeyed, nonNearby, List.map_map, Function.comp_def]

/-- The table of derivative bounds is keyed by `relative_cell(cell, zero_cell)` but looked up with
the walker item `cell`: the two coincide, so the look-up in `send_event_time` cannot miss. -/
theorem veto_key_is_item (g : Grid) (p : Cell × Cell) (hp : p ∈ vetoDomainKeyed g) : p.2 = p.1 := by
  simp only [vetoDomainKeyed, List.mem_map, List.mem_filter] at hp
  obtain ⟨c, ⟨hc, _⟩, rfl⟩ := hp
  exact relative_zero (mem_allCells.mp hc)

/-- **The veto domain is exactly the set of non-nearby cells.** Translating every cell the walker
can sample by the active cell gives every cell that is not nearby the active cell, each exactly
once (as lists: a permutation). -/
theorem veto_domain_translate (g : Grid) (ac : Cell) (hac : Valid g.n ac) :
    ((vetoDomain g).map (translate g.n ac)).Perm (nonNearby g ac) := by
  have hz : Valid g.n (zeroCell g.n) := valid_zeroCell (valid_pos hac)
  rw [vetoDomain_eq]
  have hnd : ((nonNearby g (zeroCell g.n)).map (translate g.n ac)).Nodup := by
    refine List.Nodup.map_on ?_ ((nodup_allCells g.n).filter _)
    intro x hx y hy h
    simp only [nonNearby, List.mem_filter] at hx hy
    exact translate_inj hac (mem_allCells.mp hx.1) (mem_allCells.mp hy.1) h
  rw [List.perm_ext_iff_of_nodup hnd ((nodup_allCells g.n).filter _)]
  intro x
  simp only [nonNearby, List.mem_map, List.mem_filter, mem_allCells, Bool.not_eq_eq_eq_not,
    Bool.not_true]
  constructor
  · rintro ⟨r, ⟨hr, hnr⟩, rfl⟩
    refine ⟨translate_valid hac hr, ?_⟩
    rw [← Bool.not_eq_true] at hnr ⊢
    rw [isNearby_iff hac, nearRel_translate hac hr, ← isNearby_iff hz]
    exact hnr
  · rintro ⟨hx, hnx⟩
    have hr := relative_valid hx hac
    refine ⟨relative g.n x ac, ⟨hr, ?_⟩, translate_relative hac hx⟩
    rw [← Bool.not_eq_true] at hnx ⊢
    rw [isNearby_iff hz, ← nearRel_translate hac hr, translate_relative hac hx, ← isNearby_iff hac]
    exact hnx

/-- **Nearby and non-nearby cells are complementary**: together they are all cells, each once. -/
theorem cells_split (g : Grid) (ac : Cell) (hac : Valid g.n ac) :
    (nearby g ac ++ nonNearby g ac).Perm (allCells g.n) := by
  have h1 : ((allCells g.n).filter fun x => isNearby g ac x).Perm (nearby g ac) := by
    rw [List.perm_ext_iff_of_nodup ((nodup_allCells g.n).filter _) (nodup_nearby g ac)]
    intro x
    simp only [List.mem_filter, mem_allCells, isNearby, List.contains_iff_mem]
    exact ⟨fun h => h.2, fun h => ⟨nearby_valid hac h, h⟩⟩
  exact (h1.symm.append (List.Perm.refl _)).trans (List.filter_append_perm _ _)

theorem vetoArgs_filterMap (s : Occ) (c : Cell) : (vetoArgs s c).filterMap id = s.occ c := by
  unfold vetoArgs
  split
  · rename_i h
    have : s.occ c = [] := by simpa using h
    simp [this]
  · induction s.occ c with
    | nil => rfl
    | cons x xs ih => simp [List.filterMap_cons]

/-- with at most one occupant per cell (the shipped leaf-unit cell-veto set-up) the mediator hands
exactly one argument to `send_out_state` -/
theorem vetoArgs_single (s : Occ) (c : Cell) (h : (s.occ c).length ≤ 1) : (vetoArgs s c).length = 1 := by
  unfold vetoArgs
  split
  · rfl
  · rename_i hne
    have : s.occ c ≠ [] := by simpa using hne
    have : 0 < (s.occ c).length := List.length_pos_iff.mpr this
    simp; omega

theorem targetsVeto_eq (g : Grid) (s : Occ) (ac : Cell) (a : Ident) (h : s.active = some (ac, a)) :
    targetsVeto g s = ((vetoDomain g).map (translate g.n ac)).flatMap s.occ := by
  simp only [targetsVeto, vetoTargets, h]
  induction vetoDomain g with
  | nil => rfl
  | cons r rs ih => simp [List.flatMap_cons, vetoArgs_filterMap, ih]

theorem flatMap_filter_nonempty {α β : Type} (f : α → List β) (p : α → Bool) (l : List α) :
    (l.filter fun c => !(f c).isEmpty && p c).flatMap f = (l.filter p).flatMap f := by
  induction l with
  | nil => rfl
  | cons x xs ih =>
    by_cases hp : p x = true <;> by_cases he : (f x).isEmpty = true
    · have : f x = [] := by simpa using he
      simp [List.filter_cons, hp, he, ih, this]
    · simp [List.filter_cons, hp, he, ih]
    · simp [List.filter_cons, hp, he, ih]
    · simp [List.filter_cons, hp, he, ih]

theorem targetsBounding_eq (g : Grid) (s : Occ) (ac : Cell) (a : Ident) (h : s.active = some (ac, a)) :
    targetsBounding g s = (nonNearby g ac).flatMap s.occ := by
  simp only [targetsBounding, cellBoundingTagger, h, nonNearby]
  rw [← flatMap_filter_nonempty s.occ (fun x => !(isNearby g ac x))]
  induction (allCells g.n).filter fun c => !(s.occ c).isEmpty && !(isNearby g ac c) with
  | nil => rfl
  | cons x xs ih => simp [List.flatMap_cons, ih]

theorem pairTargets_pairs {α : Type} (a : Ident) (f : α → List Ident) (l : List α) :
    pairTargets (l.flatMap fun x => (f x).map fun o => [a, o]) = l.flatMap f := by
  have inner : ∀ ys : List Ident, (ys.map fun o => [a, o]).flatMap List.tail = ys := by
    intro ys
    induction ys with
    | nil => rfl
    | cons y ys ih => simp [List.flatMap_cons, ih]
  induction l with
  | nil => rfl
  | cons x xs ih =>
    simp only [pairTargets] at ih ⊢
    simp [List.flatMap_cons, List.flatMap_append, inner, ih]

theorem targetsExcluded_eq (g : Grid) (s : Occ) (ac : Cell) (a : Ident) (h : s.active = some (ac, a)) :
    targetsExcluded g s = (nearby g ac).flatMap s.occ := by
  simp only [targetsExcluded, excludedCellsTagger, h]
  exact pairTargets_pairs a s.occ _

theorem targetsSurplus_eq (s : Occ) (ac : Cell) (a : Ident) (h : s.active = some (ac, a)) :
    targetsSurplus s = s.yieldSurplus := by
  simp only [targetsSurplus, surplusCellsTagger, h]
  have := pairTargets_pairs a (fun x : Ident => [x]) s.yieldSurplus
  simpa [List.flatMap_singleton'] using this

/-- The explicit invariant of the occupancy state the theorems need (that `SingleActiveCellOccupancy`
maintains it is property C11): the active unit is `a` in the valid cell `ac`, and the stored
identifiers (occupants of all cells, then surplus) are the relevant units other than `a`,
each exactly once. -/
structure OccInv (g : Grid) (s : Occ) (relevant : List Ident) (ac : Cell) (a : Ident) : Prop where
  active : s.active = some (ac, a)
  cell_valid : Valid g.n ac
  relevant_nodup : relevant.Nodup
  active_relevant : a ∈ relevant
  stored_eq : (stored g s).Perm (relevant.erase a)

/-- what the three event families treat never depends on the invariant: it is the stored units,
re-grouped -/
theorem cell_families_are_stored_veto (g : Grid) (s : Occ) (ac : Cell) (a : Ident)
    (h : s.active = some (ac, a)) (hac : Valid g.n ac) :
    (targetsVeto g s ++ targetsExcluded g s ++ targetsSurplus s).Perm (stored g s) := by
  rw [targetsVeto_eq g s ac a h, targetsExcluded_eq g s ac a h, targetsSurplus_eq s ac a h, stored]
  refine List.Perm.append ?_ (List.Perm.refl _)
  have h1 := (veto_domain_translate g ac hac).flatMap_right s.occ
  have h2 := (cells_split g ac hac).flatMap_right s.occ
  rw [List.flatMap_append] at h2
  exact ((h1.append (List.Perm.refl _)).trans List.perm_append_comm).trans h2

theorem cell_families_are_stored_bounding (g : Grid) (s : Occ) (ac : Cell) (a : Ident)
    (h : s.active = some (ac, a)) (hac : Valid g.n ac) :
    (targetsBounding g s ++ targetsExcluded g s ++ targetsSurplus s).Perm (stored g s) := by
  rw [targetsBounding_eq g s ac a h, targetsExcluded_eq g s ac a h, targetsSurplus_eq s ac a h, stored]
  refine List.Perm.append ?_ (List.Perm.refl _)
  have h2 := (cells_split g ac hac).flatMap_right s.occ
  rw [List.flatMap_append] at h2
  exact List.perm_append_comm.trans h2

/-- **C10, cell half (cell-veto variant).**  Occupants of non-nearby cells (reached through the
walker domain, the translation to the active cell and the mediator's look-up), occupants of nearby
cells (pair in-states of the excluded-cells tagger) and surplus units (pair in-states of the
surplus tagger) together are exactly the relevant units other than the active one — as a list
permutation, i.e. with multiplicities: nobody is missed, nobody is treated twice. -/
theorem cell_partition_veto (g : Grid) (s : Occ) (relevant : List Ident) (ac : Cell) (a : Ident)
    (inv : OccInv g s relevant ac a) :
    (targetsVeto g s ++ targetsExcluded g s ++ targetsSurplus s).Perm (relevant.erase a) :=
  (cell_families_are_stored_veto g s ac a inv.active inv.cell_valid).trans inv.stored_eq

/-- **C10, cell half (cell-bounding-potential variant).** -/
theorem cell_partition_bounding (g : Grid) (s : Occ) (relevant : List Ident) (ac : Cell) (a : Ident)
    (inv : OccInv g s relevant ac a) :
    (targetsBounding g s ++ targetsExcluded g s ++ targetsSurplus s).Perm (relevant.erase a) :=
  (cell_families_are_stored_bounding g s ac a inv.active inv.cell_valid).trans inv.stored_eq

/-- nobody is treated twice, and the active unit is not its own target -/
theorem cell_targets_nodup (g : Grid) (s : Occ) (relevant : List Ident) (ac : Cell) (a : Ident)
    (inv : OccInv g s relevant ac a) :
    (targetsVeto g s ++ targetsExcluded g s ++ targetsSurplus s).Nodup ∧
    (targetsBounding g s ++ targetsExcluded g s ++ targetsSurplus s).Nodup ∧
    a ∉ targetsVeto g s ++ targetsExcluded g s ++ targetsSurplus s ∧
    a ∉ targetsBounding g s ++ targetsExcluded g s ++ targetsSurplus s := by
  have hn : (relevant.erase a).Nodup := inv.relevant_nodup.erase a
  have ha : a ∉ relevant.erase a := fun h => (List.Nodup.mem_erase_iff inv.relevant_nodup).mp h |>.1 rfl
  have p1 := cell_partition_veto g s relevant ac a inv
  have p2 := cell_partition_bounding g s relevant ac a inv
  exact ⟨p1.nodup_iff.mpr hn, p2.nodup_iff.mpr hn, fun h => ha (p1.subset h), fun h => ha (p2.subset h)⟩

/-- every other relevant unit is the target of exactly one in-state / walker cell in total:
its multiplicities in the three families add up to one -/
theorem cell_target_exactly_one_family (g : Grid) (s : Occ) (relevant : List Ident) (ac : Cell) (a : Ident)
    (inv : OccInv g s relevant ac a) (u : Ident) (hu : u ∈ relevant) (hua : u ≠ a) :
    (targetsVeto g s).count u + (targetsExcluded g s).count u + (targetsSurplus s).count u = 1 ∧
    (targetsBounding g s).count u + (targetsExcluded g s).count u + (targetsSurplus s).count u = 1 := by
  have hn : (relevant.erase a).Nodup := inv.relevant_nodup.erase a
  have hm : u ∈ relevant.erase a := (List.mem_erase_of_ne hua).mpr hu
  have hc : (relevant.erase a).count u = 1 := List.count_eq_one_of_mem hn hm
  have p1 := (cell_partition_veto g s relevant ac a inv).count_eq u
  have p2 := (cell_partition_bounding g s relevant ac a inv).count_eq u
  simp only [List.count_append] at p1 p2
  omega

/-- a deactivated / irrelevant active unit: no cell-based in-state at all -/
theorem no_active_no_instates (g : Grid) (s : Occ) (h : s.active = none) :
    cellVetoTagger s = [] ∧ cellBoundingTagger g s = [] ∧ excludedCellsTagger g s = [] ∧
    surplusCellsTagger s = [] ∧ vetoTargets g s = [] := by
  simp [cellVetoTagger, cellBoundingTagger, excludedCellsTagger, surplusCellsTagger, vetoTargets, h]

/-- every in-state of the four taggers starts with the active unit -/
theorem instates_start_with_active (g : Grid) (s : Occ) (ac : Cell) (a : Ident) (h : s.active = some (ac, a)) :
    ∀ i ∈ cellVetoTagger s ++ cellBoundingTagger g s ++ excludedCellsTagger g s ++ surplusCellsTagger s,
      i.head? = some a := by
  intro i hi
  simp only [cellVetoTagger, cellBoundingTagger, excludedCellsTagger, surplusCellsTagger, h,
    List.mem_append, List.mem_map, List.mem_flatMap, List.mem_singleton] at hi
  rcases hi with ((rfl | ⟨c, _, rfl⟩) | ⟨c, _, o, _, rfl⟩) | ⟨x, _, rfl⟩ <;> rfl

end JF.C10
