import JF.Model.CellTaggers
import JF.Model.FactorMaps
import JF.Lemmas.FactorCells
import JF.Lemmas.FactorMaps
import JF.Lemmas.FactorSpec
/-!
# C10 — Cell-based and file-based factor decompositions cover each partner exactly once

Definitions used in the statements (`nonNearby`, `others`, `InterType`, `IntraType`, `WellFormed`,
`Tidy`) and the helper lemmas live in `JF/Lemmas/FactorSpec.lean`, `FactorCells.lean`,
`FactorMaps.lean`; the executable models in `JF/Model/CellTaggers.lean`, `JF/Model/FactorMaps.lean`.

## Cell half
Model: the four cell taggers, the walker domain of the cell-veto event handler with the target-cell
computation of `send_event_time`, and the mediator's `get_arguments_cell_veto_event_handler`, over
an occupancy state given as data satisfying the explicit invariant `OccInv`.
Main theorems: `cell_partition_veto`, `cell_partition_bounding` (permutation = equality as
multisets), corollaries `cell_targets_nodup`, `cell_target_exactly_one_family`; they rest on
`veto_domain_translate` (the walker domain translated to the active cell is exactly the set of
non-nearby cells, each once), `cells_split` (nearby / non-nearby are complementary) and
`veto_key_is_item`.  All for every dimension, every grid, every number of layers (also layers
that wrap around the torus), every occupancy state.

## Factor-file half
Model: the parsing loop, `append_to_map`, the `local` setter, the four yield functions, the
fall-back map and the tagger's `set`.
Main theorems: `instantiate_ok_iff` (accepted = well-formed), `factor_spec_inter`,
`factor_spec_intra`, `factor_spec_no_composite`, `factor_default` (what is yielded, as an equation
of lists), `factor_inter_nodup`, `factor_intra_nodup` (each once), `tagger_spec` (active composite
object: de-duplicated union), `factor_file_total` (the packaged statement), and
`shipped_wellformed_tidy` (all six shipped files satisfy its hypotheses).
Named error outcome: `intra_type_unmentioned_leaf_keyerror`.

`factor_symmetric` + `shipped_mirrored`: with mirrored lines (all shipped files) both members of an
inter-object factor see it.

Proved elsewhere: that `SingleActiveCellOccupancy` establishes `OccInv` — `JF.C10C11.reach_occInv` (`JF/Props/C10C11.lean`) derives it
from C11's invariant at every reachable state and restates the partition theorems with no occupancy hypothesis.
Not proved here (named gap): the float detour of the real
`translate` / `relative_cell` (checked by the correspondence run against the integer torus).
-/
namespace JF.C10
open JF.CellTaggers

/-! ## cell half -/

/-- The table of derivative bounds is keyed by `relative_cell(cell, zero_cell)` but looked up with
the walker item `cell`: the two coincide, so the look-up in `send_event_time` cannot miss. -/
theorem veto_key_is_item (g : Grid) (p : Cell × Cell) (hp : p ∈ vetoDomainKeyed g) : p.2 = p.1 := by
  simp only [vetoDomainKeyed, List.mem_map, List.mem_filter] at hp
  obtain ⟨c, ⟨hc, _⟩, rfl⟩ := hp
  exact relative_zero (mem_allCells.mp hc)

/-- **The veto domain is exactly the set of non-nearby cells.** Translating every cell the walker
can sample by the active cell gives every cell that is not nearby the active cell, each exactly
once (as lists: a permutation). -/
theorem veto_domain_translate (g : Grid) (ac : Cell) (hac : Valid g.n ac) :
    ((vetoDomain g).map (translate g.n ac)).Perm (nonNearby g ac) := by
  have hz : Valid g.n (zeroCell g.n) := valid_zeroCell (valid_pos hac)
  rw [vetoDomain_eq]
  have hnd : ((nonNearby g (zeroCell g.n)).map (translate g.n ac)).Nodup := by
    refine List.Nodup.map_on ?_ ((nodup_allCells g.n).filter _)
    intro x hx y hy h
    simp only [nonNearby, List.mem_filter] at hx hy
    exact translate_inj hac (mem_allCells.mp hx.1) (mem_allCells.mp hy.1) h
  rw [List.perm_ext_iff_of_nodup hnd (nodup_nonNearby g ac)]
  intro x
  simp only [nonNearby, List.mem_map, List.mem_filter, mem_allCells, Bool.not_eq_eq_eq_not,
    Bool.not_true]
  constructor
  · rintro ⟨r, ⟨hr, hnr⟩, rfl⟩
    refine ⟨translate_valid hac hr, ?_⟩
    rw [← Bool.not_eq_true] at hnr ⊢
    rw [isNearby_iff hac, nearRel_translate hac hr, ← isNearby_iff hz]
    exact hnr
  · rintro ⟨hx, hnx⟩
    have hr := relative_valid hx hac
    refine ⟨relative g.n x ac, ⟨hr, ?_⟩, translate_relative hac hx⟩
    rw [← Bool.not_eq_true] at hnx ⊢
    rw [isNearby_iff hz, ← nearRel_translate hac hr, translate_relative hac hx, ← isNearby_iff hac]
    exact hnx

/-- **Nearby and non-nearby cells are complementary**: together they are all cells, each once. -/
theorem cells_split (g : Grid) (ac : Cell) (hac : Valid g.n ac) :
    (nearby g ac ++ nonNearby g ac).Perm (allCells g.n) := by
  have h1 : ((allCells g.n).filter fun x => isNearby g ac x).Perm (nearby g ac) := by
    rw [List.perm_ext_iff_of_nodup ((nodup_allCells g.n).filter _) (nodup_nearby g ac)]
    intro x
    simp only [List.mem_filter, mem_allCells, isNearby, List.contains_iff_mem]
    exact ⟨fun h => h.2, fun h => ⟨nearby_valid hac h, h⟩⟩
  exact (h1.symm.append (List.Perm.refl _)).trans (List.filter_append_perm _ _)

/-- with at most one occupant per cell (the shipped leaf-unit cell-veto set-up) the mediator hands
exactly one argument to `send_out_state` -/
theorem vetoArgs_single (s : Occ) (c : Cell) (h : (s.occ c).length ≤ 1) : (vetoArgs s c).length = 1 := by
  unfold vetoArgs
  split
  · rfl
  · rename_i hne
    have : s.occ c ≠ [] := by simpa using hne
    have : 0 < (s.occ c).length := List.length_pos_iff.mpr this
    simp; omega

/-- The explicit invariant of the occupancy state the theorems need (that `SingleActiveCellOccupancy`
maintains it is property C11): the active unit is `a` in the valid cell `ac`, and the stored
identifiers (occupants of all cells, then surplus) are the relevant units other than `a`,
each exactly once. -/
structure OccInv (g : Grid) (s : Occ) (relevant : List Ident) (ac : Cell) (a : Ident) : Prop where
  active : s.active = some (ac, a)
  cell_valid : Valid g.n ac
  relevant_nodup : relevant.Nodup
  active_relevant : a ∈ relevant
  stored_eq : (stored g s).Perm (relevant.erase a)

/-- what the three event families treat never depends on the invariant: it is the stored units,
re-grouped -/
theorem cell_families_are_stored_veto (g : Grid) (s : Occ) (ac : Cell) (a : Ident)
    (h : s.active = some (ac, a)) (hac : Valid g.n ac) :
    (targetsVeto g s ++ targetsExcluded g s ++ targetsSurplus s).Perm (stored g s) := by
  rw [targetsVeto_eq g s ac a h, targetsExcluded_eq g s ac a h, targetsSurplus_eq s ac a h, stored]
  refine List.Perm.append ?_ (List.Perm.refl _)
  have h1 := (veto_domain_translate g ac hac).flatMap_right s.occ
  have h2 := (cells_split g ac hac).flatMap_right s.occ
  rw [List.flatMap_append] at h2
  exact ((h1.append (List.Perm.refl _)).trans List.perm_append_comm).trans h2

theorem cell_families_are_stored_bounding (g : Grid) (s : Occ) (ac : Cell) (a : Ident)
    (h : s.active = some (ac, a)) (hac : Valid g.n ac) :
    (targetsBounding g s ++ targetsExcluded g s ++ targetsSurplus s).Perm (stored g s) := by
  rw [targetsBounding_eq g s ac a h, targetsExcluded_eq g s ac a h, targetsSurplus_eq s ac a h, stored]
  refine List.Perm.append ?_ (List.Perm.refl _)
  have h2 := (cells_split g ac hac).flatMap_right s.occ
  rw [List.flatMap_append] at h2
  exact List.perm_append_comm.trans h2

/-- **C10, cell half (cell-veto variant).**  Occupants of non-nearby cells (reached through the
walker domain, the translation to the active cell and the mediator's look-up), occupants of nearby
cells (pair in-states of the excluded-cells tagger) and surplus units (pair in-states of the
surplus tagger) together are exactly the relevant units other than the active one — as a list
permutation, i.e. with multiplicities: nobody is missed, nobody is treated twice. -/
theorem cell_partition_veto (g : Grid) (s : Occ) (relevant : List Ident) (ac : Cell) (a : Ident)
    (inv : OccInv g s relevant ac a) :
    (targetsVeto g s ++ targetsExcluded g s ++ targetsSurplus s).Perm (relevant.erase a) :=
  (cell_families_are_stored_veto g s ac a inv.active inv.cell_valid).trans inv.stored_eq

/-- **C10, cell half (cell-bounding-potential variant).** -/
theorem cell_partition_bounding (g : Grid) (s : Occ) (relevant : List Ident) (ac : Cell) (a : Ident)
    (inv : OccInv g s relevant ac a) :
    (targetsBounding g s ++ targetsExcluded g s ++ targetsSurplus s).Perm (relevant.erase a) :=
  (cell_families_are_stored_bounding g s ac a inv.active inv.cell_valid).trans inv.stored_eq

/-- nobody is treated twice, and the active unit is not its own target -/
theorem cell_targets_nodup (g : Grid) (s : Occ) (relevant : List Ident) (ac : Cell) (a : Ident)
    (inv : OccInv g s relevant ac a) :
    (targetsVeto g s ++ targetsExcluded g s ++ targetsSurplus s).Nodup ∧
    (targetsBounding g s ++ targetsExcluded g s ++ targetsSurplus s).Nodup ∧
    a ∉ targetsVeto g s ++ targetsExcluded g s ++ targetsSurplus s ∧
    a ∉ targetsBounding g s ++ targetsExcluded g s ++ targetsSurplus s := by
  have hn : (relevant.erase a).Nodup := inv.relevant_nodup.erase a
  have ha : a ∉ relevant.erase a := fun h => (List.Nodup.mem_erase_iff inv.relevant_nodup).mp h |>.1 rfl
  have p1 := cell_partition_veto g s relevant ac a inv
  have p2 := cell_partition_bounding g s relevant ac a inv
  exact ⟨p1.nodup_iff.mpr hn, p2.nodup_iff.mpr hn, fun h => ha (p1.subset h), fun h => ha (p2.subset h)⟩

/-- every other relevant unit is the target of exactly one in-state / walker cell in total:
its multiplicities in the three families add up to one -/
theorem cell_target_exactly_one_family (g : Grid) (s : Occ) (relevant : List Ident) (ac : Cell) (a : Ident)
    (inv : OccInv g s relevant ac a) (u : Ident) (hu : u ∈ relevant) (hua : u ≠ a) :
    (targetsVeto g s).count u + (targetsExcluded g s).count u + (targetsSurplus s).count u = 1 ∧
    (targetsBounding g s).count u + (targetsExcluded g s).count u + (targetsSurplus s).count u = 1 := by
  have hn : (relevant.erase a).Nodup := inv.relevant_nodup.erase a
  have hm : u ∈ relevant.erase a := (List.mem_erase_of_ne hua).mpr hu
  have hc : (relevant.erase a).count u = 1 := List.count_eq_one_of_mem hn hm
  have p1 := (cell_partition_veto g s relevant ac a inv).count_eq u
  have p2 := (cell_partition_bounding g s relevant ac a inv).count_eq u
  simp only [List.count_append] at p1 p2
  omega

/-- a deactivated / irrelevant active unit: no cell-based in-state at all -/
theorem no_active_no_instates (g : Grid) (s : Occ) (h : s.active = none) :
    cellVetoTagger s = [] ∧ cellBoundingTagger g s = [] ∧ excludedCellsTagger g s = [] ∧
    surplusCellsTagger s = [] ∧ vetoTargets g s = [] := by
  simp [cellVetoTagger, cellBoundingTagger, excludedCellsTagger, surplusCellsTagger, vetoTargets, h]

/-- every in-state of the four taggers starts with the active unit -/
theorem instates_start_with_active (g : Grid) (s : Occ) (ac : Cell) (a : Ident) (h : s.active = some (ac, a)) :
    ∀ i ∈ cellVetoTagger s ++ cellBoundingTagger g s ++ excludedCellsTagger g s ++ surplusCellsTagger s,
      i.head? = some a := by
  intro i hi
  simp only [cellVetoTagger, cellBoundingTagger, excludedCellsTagger, surplusCellsTagger, h,
    List.mem_append, List.mem_map, List.mem_flatMap, List.mem_singleton] at hi
  rcases hi with ((rfl | ⟨c, _, rfl⟩) | ⟨c, _, o, _, rfl⟩) | ⟨x, _, rfl⟩ <;> rfl

/-! ## factor-file half -/
open JF.FactorMaps

/-- **C10, factor half, inter-object factor types.**  For an accepted file, an inter-object type
`ty`, composite objects with more than one point mass and a valid active point mass `(r, i)`:
the in-states are the lines of the type that contain `i` (as an index of the first object;
`entries` = in file order, once per occurrence), instantiated once per other composite object `o`
— and nothing else. -/
theorem factor_spec_inter (s : Setting) (lines : List Line) (fs : Factors) (ty : String) (r i : Nat)
    (h : instantiate s lines [] = .ok fs) (hinter : InterType s lines ty) (hn : s.nPer ≠ 1)
    (hr : r < s.nRoots) (hi : i < s.nPer) :
    yieldFactor s fs ty [r, i] =
      .ok ((others s r).flatMap fun o => (entries i (linesOf lines ty)).map (inst s.nPer r o)) := by
  obtain ⟨S, hS, t, ht, htn⟩ := hinter
  obtain ⟨tm, hl, g⟩ := lookup_of_lines h (List.ne_nil_of_mem hS)
  obtain ⟨b, hb, hall⟩ := g.loc
  have hbf : b = false := by
    rw [← hall S hS]
    simp only [isLocalLine, List.all_eq_false]
    exact ⟨t, ht, by simpa using htn⟩
  subst hbf
  have hn1 : (s.nPer == 1) = false := by simpa using hn
  have hm := g.map i
  simp only [hi, if_true] at hm
  simp only [yieldFactor, hl, hb, hn1, Bool.false_eq_true, if_false, yieldNonLocal, hr, hi, and_self,
    if_true, others]
  congr 2
  funext o
  rw [← hm]
  unfold getL
  cases tm.map.lookup i <;> rfl

/-- **C10, factor half, intra-object factor types.**  The in-states for `(r, i)` are the lines of the
type containing `i`, instantiated once, within the active composite object.  If no line of the
type contains `i` the real code raises `KeyError` (a loud error outcome) instead of yielding
nothing. -/
theorem factor_spec_intra (s : Setting) (lines : List Line) (fs : Factors) (ty : String) (r i : Nat)
    (h : instantiate s lines [] = .ok fs) (hintra : IntraType s lines ty)
    (hr : r < s.nRoots) (hi : i < s.nPer) :
    yieldFactor s fs ty [r, i] =
      if entries i (linesOf lines ty) = [] then .error "KeyError"
      else .ok ((entries i (linesOf lines ty)).map (inst s.nPer r r)) := by
  obtain ⟨hne, hloc⟩ := hintra
  obtain ⟨tm, hl, g⟩ := lookup_of_lines h hne
  obtain ⟨b, hb, hall⟩ := g.loc
  obtain ⟨S, hS⟩ := List.exists_mem_of_ne_nil _ hne
  have hbt : b = true := by
    rw [← hall S hS]
    simp only [isLocalLine, List.all_eq_true]
    intro t ht; simpa using hloc S hS t ht
  subst hbt
  have hgl := g.map i
  simp only [hi, if_true] at hgl
  simp only [yieldFactor, hl, hb, yieldLocal, hr, if_true]
  cases hlk : tm.map.lookup i with
  | none =>
    have : entries i (linesOf lines ty) = [] := by
      rw [← hgl]; exact (lookup_none_iff g.noEmpty i).mp hlk
    simp [this]
  | some ls =>
    have hls : ls = entries i (linesOf lines ty) := by rw [← hgl, lookup_some_getL hlk]
    have hne' : entries i (linesOf lines ty) ≠ [] := hls ▸ g.noEmpty i ls hlk
    simp only [hne', if_false]
    subst hls
    congr 1
    apply List.map_congr_left
    intro S' hS'
    have hS'L : S' ∈ linesOf lines ty := by
      simp only [entries, List.mem_flatMap] at hS'
      obtain ⟨S'', h1, h2⟩ := hS'
      rw [List.eq_of_mem_replicate h2]; exact h1
    simp only [inst]
    apply List.map_congr_left
    intro t ht
    simp [hloc S' hS'L t ht]

/-- an intra-object type asked for an index beyond the composite object: `KeyError` -/
theorem factor_intra_index_out_of_range (s : Setting) (lines : List Line) (fs : Factors) (ty : String)
    (r i : Nat) (h : instantiate s lines [] = .ok fs) (hintra : IntraType s lines ty)
    (hr : r < s.nRoots) (hi : ¬ i < s.nPer) :
    yieldFactor s fs ty [r, i] = .error "KeyError" := by
  obtain ⟨hne, hloc⟩ := hintra
  obtain ⟨tm, hl, g⟩ := lookup_of_lines h hne
  obtain ⟨b, hb, hall⟩ := g.loc
  obtain ⟨S, hS⟩ := List.exists_mem_of_ne_nil _ hne
  have hbt : b = true := by
    rw [← hall S hS]
    simp only [isLocalLine, List.all_eq_true]
    intro t ht; simpa using hloc S hS t ht
  subst hbt
  have hgl := g.map i
  simp only [hi, if_false] at hgl
  have := (lookup_none_iff g.noEmpty i).mpr hgl
  simp [yieldFactor, hl, hb, yieldLocal, hr, this]

/-- **C10, factor half, no composite objects (`n = 1`).**  An inter-object type of the file (the
shipped `[0, 1], Coulomb`) yields the pair of the active point mass with every other point mass,
once each; the content of the lines is not consulted. -/
theorem factor_spec_no_composite (s : Setting) (lines : List Line) (fs : Factors) (ty : String) (r : Nat)
    (h : instantiate s lines [] = .ok fs) (hinter : InterType s lines ty) (hn : s.nPer = 1)
    (hr : r < s.nRoots) :
    yieldFactor s fs ty [r] = .ok ((others s r).map fun o => [[r], [o]]) := by
  obtain ⟨S, hS, t, ht, htn⟩ := hinter
  obtain ⟨tm, hl, g⟩ := lookup_of_lines h (List.ne_nil_of_mem hS)
  obtain ⟨b, hb, hall⟩ := g.loc
  have hbf : b = false := by
    rw [← hall S hS]
    simp only [isLocalLine, List.all_eq_false]
    exact ⟨t, ht, by simpa using htn⟩
  subst hbf
  have hn1 : (s.nPer == 1) = true := by simpa using hn
  simp only [yieldFactor, hl, hb, hn1, if_true, yieldNoComposite, hr, others]
  congr 2
  apply List.filter_congr
  intro o _
  by_cases hor : o = r
  · subst hor; simp
  · have h1 : ([o] != [r]) = true := by simpa using hor
    have h2 : (o != r) = true := by simpa using hor
    rw [h1, h2]

/-- a factor type that does not occur in the file falls back on the all-pairs map -/
theorem factor_default (s : Setting) (lines : List Line) (fs : Factors) (ty : String) (r i : Nat)
    (h : instantiate s lines [] = .ok fs) (habs : linesOf lines ty = []) (hn : s.nPer ≠ 1)
    (hr : r < s.nRoots) (hi : i < s.nPer) :
    yieldFactor s fs ty [r, i] =
      .ok ((others s r).flatMap fun o => (List.range s.nPer).map fun l => [[r, i], [o, l]]) := by
  have hg := good_of_instantiate h
  have hl : fs.lookup ty = none := by
    cases hl : fs.lookup ty with
    | none => rfl
    | some tm => exact absurd habs (hg.2 _ _ hl).nonempty
  have hn1 : (s.nPer == 1) = false := by simpa using hn
  simp [yieldFactor, hl, hn1, yieldAllComposite, hr, hi, others]

/-- index *sets*: if no line of the type repeats an index, "once per occurrence" is "the lines
that contain `i`" -/
theorem factor_spec_inter_sets (s : Setting) (lines : List Line) (fs : Factors) (ty : String) (r i : Nat)
    (h : instantiate s lines [] = .ok fs) (hinter : InterType s lines ty) (hn : s.nPer ≠ 1)
    (hr : r < s.nRoots) (hi : i < s.nPer) (hset : ∀ S ∈ linesOf lines ty, S.Nodup) :
    yieldFactor s fs ty [r, i] =
      .ok ((others s r).flatMap fun o =>
        ((linesOf lines ty).filter fun S => S.contains i).map (inst s.nPer r o)) := by
  rw [factor_spec_inter s lines fs ty r i h hinter hn hr hi, entries_of_nodup i _ hset]

theorem factor_spec_intra_sets (s : Setting) (lines : List Line) (fs : Factors) (ty : String) (r i : Nat)
    (h : instantiate s lines [] = .ok fs) (hintra : IntraType s lines ty)
    (hr : r < s.nRoots) (hi : i < s.nPer) (hset : ∀ S ∈ linesOf lines ty, S.Nodup)
    (hcov : ∃ S ∈ linesOf lines ty, i ∈ S) :
    yieldFactor s fs ty [r, i] =
      .ok (((linesOf lines ty).filter fun S => S.contains i).map (inst s.nPer r r)) := by
  rw [factor_spec_intra s lines fs ty r i h hintra hr hi, entries_of_nodup i _ hset]
  obtain ⟨S, hS, hiS⟩ := hcov
  have : (linesOf lines ty).filter (fun S => S.contains i) ≠ [] :=
    List.ne_nil_of_mem (List.mem_filter.mpr ⟨hS, by simpa using hiS⟩)
  rw [if_neg this]

/-! ### each in-state once -/

/-- **each inter-object in-state once**: if the file does not repeat a line of the type and every
line is an index set, the in-states yielded for `(r, i)` are pairwise different -/
theorem factor_inter_nodup (s : Setting) (lines : List Line) (fs : Factors) (ty : String) (r i : Nat)
    (h : instantiate s lines [] = .ok fs) (hinter : InterType s lines ty) (hn : s.nPer ≠ 1)
    (hr : r < s.nRoots) (hi : i < s.nPer) (hset : ∀ S ∈ linesOf lines ty, S.Nodup)
    (hlines : (linesOf lines ty).Nodup) :
    ∃ l, yieldFactor s fs ty [r, i] = .ok l ∧ l.Nodup := by
  refine ⟨_, factor_spec_inter_sets s lines fs ty r i h hinter hn hr hi hset, ?_⟩
  -- every line of an inter-object type reaches into the other object
  have hreach : ∀ S ∈ linesOf lines ty, ∃ t ∈ S, s.nPer ≤ t := by
    obtain ⟨S0, hS0, t0, ht0, htn0⟩ := hinter
    obtain ⟨tm, _, g⟩ := lookup_of_lines h (List.ne_nil_of_mem hS0)
    obtain ⟨b, _, hall⟩ := g.loc
    have hbf : b = false := by
      rw [← hall S0 hS0]
      simp only [isLocalLine, List.all_eq_false]
      exact ⟨t0, ht0, by simpa using htn0⟩
    intro S hS
    have := hall S hS
    rw [hbf] at this
    simp only [isLocalLine, List.all_eq_false] at this
    obtain ⟨t, ht, htn⟩ := this
    exact ⟨t, ht, by simpa using htn⟩
  have hothers : (others s r).Nodup := List.nodup_range.filter _
  rw [List.nodup_flatMap]
  constructor
  · intro o ho
    have hor : o ≠ r := by
      simp only [others, List.mem_filter] at ho
      simpa using ho.2
    exact (hlines.filter _).map (inst_injective _ _ _ hor)
  · refine hothers.pairwise_of_forall_ne fun o ho o' _ hoo' => ?_
    have hor : o ≠ r := by
      simp only [others, List.mem_filter] at ho
      simpa using ho.2
    simp only [Function.onFun, List.Disjoint, List.mem_map, List.mem_filter]
    rintro x ⟨S, ⟨hS, _⟩, rfl⟩ ⟨S', _, h'⟩
    obtain ⟨t, ht, htn⟩ := hreach S hS
    exact hoo' (inst_other_eq hor t ht htn h'.symm)

/-- **each intra-object in-state once** -/
theorem factor_intra_nodup (s : Setting) (lines : List Line) (fs : Factors) (ty : String) (r i : Nat)
    (h : instantiate s lines [] = .ok fs) (hintra : IntraType s lines ty)
    (hr : r < s.nRoots) (hi : i < s.nPer) (hset : ∀ S ∈ linesOf lines ty, S.Nodup)
    (hlines : (linesOf lines ty).Nodup) (hcov : ∃ S ∈ linesOf lines ty, i ∈ S) :
    ∃ l, yieldFactor s fs ty [r, i] = .ok l ∧ l.Nodup := by
  refine ⟨_, factor_spec_intra_sets s lines fs ty r i h hintra hr hi hset hcov, ?_⟩
  refine List.Nodup.map_on ?_ (hlines.filter _)
  intro S hS S' hS' he
  exact inst_same_injOn _ _ S S' (hintra.2 S (List.mem_filter.mp hS).1) (hintra.2 S' (List.mem_filter.mp hS').1) he

/-! ### the tagger: union over the active leaves, de-duplicated -/

/-- **C10, factor half, active composite object.**  The tagger yields every in-state that some
active leaf yields, and each exactly once (the in-state of a factor with several active members
is not duplicated). -/
theorem tagger_spec (s : Setting) (fs : Factors) (ty : String) (leaves : List FactorMaps.Ident) (l : List InState)
    (h : taggerYield s fs ty leaves = .ok l) :
    l.Nodup ∧ ∀ f, f ∈ l ↔ ∃ leaf ∈ leaves, ∃ l', yieldFactor s fs ty leaf = .ok l' ∧ f ∈ l' := by
  simp only [taggerYield] at h
  split at h
  · cases h
  · rename_i la hla
    injection h with h
    subst h
    exact ⟨nodup_dedupe _, fun f => by rw [mem_dedupe]; exact yieldAll_ok hla f⟩

/-- the tagger fails only if one of the leaves' maps fails, with that error -/
theorem tagger_error (s : Setting) (fs : Factors) (ty : String) (leaves : List FactorMaps.Ident) (e : String)
    (h : taggerYield s fs ty leaves = .error e) :
    ∃ leaf ∈ leaves, yieldFactor s fs ty leaf = .error e := by
  simp only [taggerYield] at h
  split at h
  · rename_i e' he'
    injection h with h
    subst h; exact yieldAll_error he'
  · cases h

/-! ### accepted files = well-formed files -/

/-- **the parser accepts exactly the well-formed files** (error outcomes `FactorSetError` for an
index `≥ 2n` and `AttributeError` for a type of mixed locality are the only ways to fail) -/
theorem instantiate_ok_iff (s : Setting) (lines : List Line) :
    (∃ fs, instantiate s lines [] = .ok fs) ↔ WellFormed s.nPer lines := by
  constructor
  · rintro ⟨fs, h⟩
    refine ⟨instantiate_bound h, ?_⟩
    intro ln hln ln' hln' hty
    have hg := good_of_instantiate h
    have hS : ln.idx ∈ linesOf lines ln.ty := mem_linesOf.mpr ⟨ln, hln, rfl, rfl⟩
    have hS' : ln'.idx ∈ linesOf lines ln.ty := mem_linesOf.mpr ⟨ln', hln', hty.symm, rfl⟩
    obtain ⟨tm, _, g⟩ := lookup_of_lines h (List.ne_nil_of_mem hS)
    obtain ⟨b, _, hall⟩ := g.loc
    rw [hall _ hS, hall _ hS']
  · intro hw
    exact instantiate_ok_of (good_nil s) (by simpa using hw)

/-- in a well-formed file every occurring type is intra-object or inter-object -/
theorem intra_or_inter (s : Setting) (lines : List Line) (ty : String)
    (hty : linesOf lines ty ≠ []) : IntraType s lines ty ∨ InterType s lines ty := by
  by_cases h : ∀ S ∈ linesOf lines ty, ∀ t ∈ S, t < s.nPer
  · exact Or.inl ⟨hty, h⟩
  · right
    simp only [not_forall] at h
    obtain ⟨S, hS, t, ht, hlt⟩ := h
    exact ⟨S, hS, t, ht, by omega⟩

/-- **C10, factor half, packaged.**  For a well-formed tidy file, composite objects of more than
one point mass, a factor type of the file and a valid active point mass `(r, i)`: the parser
accepts the file, the map yields without error, no in-state twice, and an in-state is yielded iff
it is a line `S` of the type with `i ∈ S`, instantiated for `r` and one other composite object
`o ≠ r` (inter-object type) resp. within `r` (intra-object type). -/
theorem factor_file_total (s : Setting) (lines : List Line) (ty : String) (r i : Nat)
    (hw : WellFormed s.nPer lines) (ht : Tidy s.nPer lines) (hn : s.nPer ≠ 1)
    (hty : linesOf lines ty ≠ []) (hr : r < s.nRoots) (hi : i < s.nPer) :
    ∃ fs l, instantiate s lines [] = .ok fs ∧ yieldFactor s fs ty [r, i] = .ok l ∧ l.Nodup ∧
      ∀ f, f ∈ l ↔ ∃ S ∈ linesOf lines ty, i ∈ S ∧
        ((InterType s lines ty ∧ ∃ o, o < s.nRoots ∧ o ≠ r ∧ f = inst s.nPer r o S) ∨
         (IntraType s lines ty ∧ f = inst s.nPer r r S)) := by
  obtain ⟨fs, h⟩ := (instantiate_ok_iff s lines).mpr hw
  have hset : ∀ S ∈ linesOf lines ty, S.Nodup := by
    intro S hS
    obtain ⟨ln, hln, _, rfl⟩ := mem_linesOf.mp hS
    exact ht.1 ln hln
  obtain ⟨S0, hS0⟩ := List.exists_mem_of_ne_nil _ hty
  obtain ⟨ln0, hln0, hty0, rfl⟩ := mem_linesOf.mp hS0
  have hlines : (linesOf lines ty).Nodup := hty0 ▸ ht.2.1 ln0 hln0
  -- a type cannot be both
  have hexcl : IntraType s lines ty → InterType s lines ty → False := by
    rintro ⟨_, h1⟩ ⟨S, hS, t, ht', htn⟩
    have := h1 S hS t ht'; omega
  rcases intra_or_inter s lines ty hty with hintra | hinter
  · have hcov : ∃ S ∈ linesOf lines ty, i ∈ S := by
      have hloc : isLocalLine s.nPer ln0.idx = true := by
        simp only [isLocalLine, List.all_eq_true, decide_eq_true_eq]
        exact hintra.2 _ hS0
      exact hty0 ▸ ht.2.2 ln0 hln0 hloc i hi
    obtain ⟨l, hl, hnd⟩ := factor_intra_nodup s lines fs ty r i h hintra hr hi hset hlines hcov
    refine ⟨fs, l, h, hl, hnd, ?_⟩
    rw [factor_spec_intra_sets s lines fs ty r i h hintra hr hi hset hcov] at hl
    injection hl with hl
    subst hl
    intro f
    simp only [List.mem_map, List.mem_filter, List.contains_iff_mem]
    constructor
    · rintro ⟨S, ⟨hS, hiS⟩, rfl⟩
      exact ⟨S, hS, hiS, Or.inr ⟨hintra, rfl⟩⟩
    · rintro ⟨S, hS, hiS, (⟨hinter, _⟩ | ⟨_, rfl⟩)⟩
      · exact (hexcl hintra hinter).elim
      · exact ⟨S, ⟨hS, hiS⟩, rfl⟩
  · obtain ⟨l, hl, hnd⟩ := factor_inter_nodup s lines fs ty r i h hinter hn hr hi hset hlines
    refine ⟨fs, l, h, hl, hnd, ?_⟩
    rw [factor_spec_inter_sets s lines fs ty r i h hinter hn hr hi hset] at hl
    injection hl with hl
    subst hl
    intro f
    simp only [List.mem_flatMap, List.mem_map, List.mem_filter, List.contains_iff_mem, others,
      List.mem_range, bne_iff_ne, ne_eq]
    constructor
    · rintro ⟨o, ⟨ho, hor⟩, S, ⟨hS, hiS⟩, rfl⟩
      exact ⟨S, hS, hiS, Or.inl ⟨hinter, o, ho, hor, rfl⟩⟩
    · rintro ⟨S, hS, hiS, (⟨_, o, ho, hor, rfl⟩ | ⟨hintra, _⟩)⟩
      · exact ⟨o, ⟨ho, hor⟩, S, ⟨hS, hiS⟩, rfl⟩
      · exact (hexcl hintra hinter).elim

/-- **every shipped factor-set file is well formed and tidy** for the composite-object size it is
written for (so `factor_file_total` applies to all of them: in particular the `KeyError` outcome
cannot occur with a shipped file).  The table `shipped` is compared with the files of the tree
under test by the correspondence run. -/
theorem shipped_wellformed_tidy : ∀ f ∈ shipped, WellFormed f.2.1 f.2.2 ∧ Tidy f.2.1 f.2.2 := by
  decide

/-! ### the same factor seen from its other composite object -/

/-- **Symmetry of an inter-object factor.**  In a well-formed file whose type `ty` is mirrored, let
`f = inst r o S` be an in-state yielded for the active point mass `(r, i)` (`S` a line of the
type, `i ∈ S`) and let `(o, j)` be one of its members in the other composite object
(`j + n ∈ S`).  Then the type has a line `S'` containing `j` whose instantiation for the active
composite object `o` and the other one `r` is the same factor (the same identifiers, possibly in
another order) — so by `factor_spec_inter` it is yielded when `(o, j)` is the active point mass:
both members see the factor. -/
theorem factor_symmetric (n : Nat) (lines : List Line) (ty : String) (r o j : Nat) (S : List Nat)
    (hw : WellFormed n lines) (hm : Mirrored n lines ty) (hS : S ∈ linesOf lines ty)
    (hj : j + n ∈ S) :
    ∃ S' ∈ linesOf lines ty, j ∈ S' ∧ (inst n o r S').Perm (inst n r o S) := by
  obtain ⟨S', hS', hp⟩ := hm S hS
  have hb : ∀ t ∈ S, t < 2 * n := by
    obtain ⟨ln, hln, _, rfl⟩ := mem_linesOf.mp hS
    exact hw.1 ln hln
  refine ⟨S', hS', ?_, ?_⟩
  · refine hp.symm.subset ?_
    simp only [mirror, List.mem_map]
    exact ⟨j + n, hj, by simp⟩
  · rw [← inst_mirror n r o S hb]
    exact hp.map _

/-- every inter-object type of every shipped file is mirrored -/
theorem shipped_mirrored : ∀ f ∈ shipped, ∀ ln ∈ f.2.2, isLocalLine f.2.1 ln.idx = false →
    Mirrored f.2.1 f.2.2 ln.ty := by
  decide

/-! ## non-vacuity: concrete instances of the hypotheses, and the named error outcomes -/

section Examples

/-- a 3 x 4 periodic grid with one neighbour layer -/
def exGrid : Grid := ⟨[3, 4], 1⟩
/-- six relevant units; `[4]` is active in cell (1,1); cell (2,3) is full (cap 2) with one surplus unit -/
def exOcc : Occ :=
  { occ := fun c => if c = [0, 0] then [[0]] else if c = [2, 3] then [[1], [2]] else if c = [1, 3] then [[5]] else []
    surplus := [([2, 3], [[3]])]
    active := some ([1, 1], [4]) }

/-- the invariant is satisfiable by a non-trivial state (several units per cell, surplus, all three families non-empty) -/
example : OccInv exGrid exOcc [[0], [1], [2], [3], [4], [5]] [1, 1] [4] :=
  ⟨rfl, by decide, by decide, by decide, by decide⟩
example : targetsVeto exGrid exOcc = [[5], [1], [2]] ∧ targetsBounding exGrid exOcc = [[5], [1], [2]] ∧
    targetsExcluded exGrid exOcc = [[0]] ∧ targetsSurplus exOcc = [[3]] := by decide
/-- the neighbourhood wraps around the torus in the first direction (3 cells, one layer: everything is nearby) -/
example : vetoDomain exGrid = [[0, 2], [1, 2], [2, 2]] := by decide
/-- occupant cap 2: the mediator hands two targets to the cell-veto handler (the leaf-unit handler then raises a
`TypeError`: an error outcome outside the property), cf. `vetoArgs_single` -/
example : vetoArgs exOcc [2, 3] = [some [1], some [2]] := by decide

/-- `factor_set_dipoles_atomic.txt` -/
def exDipoles : List Line := [⟨[0, 1], "Harmonic"⟩, ⟨[0, 3], "Repulsive"⟩, ⟨[1, 2], "Repulsive"⟩, ⟨[0, 2], "Coulomb"⟩,
  ⟨[0, 3], "Coulomb"⟩, ⟨[1, 2], "Coulomb"⟩, ⟨[1, 3], "Coulomb"⟩]

example : WellFormed 2 exDipoles ∧ Tidy 2 exDipoles := by decide
example : InterType ⟨3, 2⟩ exDipoles "Coulomb" ∧ IntraType ⟨3, 2⟩ exDipoles "Harmonic" := by
  unfold InterType IntraType; decide
/-- the hypotheses of `factor_file_total` hold for a shipped file, three dipoles, active point mass (1, 0) -/
example : ∃ fs, instantiate ⟨3, 2⟩ exDipoles [] = .ok fs ∧
    yieldFactor ⟨3, 2⟩ fs "Coulomb" [1, 0] =
      .ok [[[1, 0], [0, 0]], [[1, 0], [0, 1]], [[1, 0], [2, 0]], [[1, 0], [2, 1]]] ∧
    yieldFactor ⟨3, 2⟩ fs "Harmonic" [1, 0] = .ok [[[1, 0], [1, 1]]] :=
  ⟨_, rfl, by decide, by decide⟩

/-- **named error outcome.**  A well-formed file whose intra-object type does not mention point mass 2 of a
three-atom composite object: the real code (and the model) raise `KeyError` when that point mass is active,
instead of yielding no in-state.  (`Tidy` excludes it; none of the shipped files is affected.) -/
theorem intra_type_unmentioned_leaf_keyerror :
    WellFormed 3 [⟨[0, 1], "Harmonic"⟩] ∧ ¬ Tidy 3 [⟨[0, 1], "Harmonic"⟩] ∧
    ∃ fs, instantiate ⟨2, 3⟩ [⟨[0, 1], "Harmonic"⟩] [] = .ok fs ∧
      yieldFactor ⟨2, 3⟩ fs "Harmonic" [0, 2] = .error "KeyError" :=
  ⟨by decide, by decide, _, rfl, by decide⟩

/-- files the parser rejects: an index of a third composite object, a type of mixed locality -/
example : instantiate ⟨2, 2⟩ [⟨[0, 4], "Coulomb"⟩] [] = .error "FactorSetError" ∧
    instantiate ⟨2, 2⟩ [⟨[0, 1], "Bond"⟩, ⟨[0, 2], "Bond"⟩] [] = .error "AttributeError" := by decide

/-- an active composite object (both leaves active): the merged Coulomb factor of `factor_set_dipoles_dipole.txt`
is yielded once per other dipole, not once per active leaf -/
example : ∃ fs, instantiate ⟨3, 2⟩ [⟨[0, 1, 2, 3], "Coulomb"⟩] [] = .ok fs ∧
    taggerYield ⟨3, 2⟩ fs "Coulomb" [[1, 0], [1, 1]] =
      .ok [[[1, 0], [1, 1], [0, 0], [0, 1]], [[1, 0], [1, 1], [2, 0], [2, 1]]] :=
  ⟨_, rfl, by decide⟩

/-- non-vacuity: `[0, 3]` and `[1, 2]` of the Repulsive type are each other's mirror image;
a file without the second line is not mirrored -/
example : Mirrored 2 exDipoles "Repulsive" ∧ ¬ Mirrored 2 [⟨[0, 3], "Repulsive"⟩] "Repulsive" := by decide

end Examples

end JF.C10
