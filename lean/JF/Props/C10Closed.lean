import JF.Props.SystemInv
import JF.Props.C10C11
import JF.Lemmas.C10Closed
/-!
# C10 closed on the joint invariant: the cell families partition the partners at EVERY leg of EVERY run

`JF/Props/C10.lean` + `JF/Props/C10C11.lean` prove "cell-veto / cell-bounding targets (non-nearby cells), excluded-cell targets (nearby
cells) and surplus targets together are the relevant units other than the active one, each exactly once" for an occupancy state in
isolation, under C11's `HistoryPremise` and `InGrid`.  `JF/Props/SystemInv.lean` proves C11's invariant at every leg of every run of
the composed mediator loop on the concrete coulomb_atoms world, the history premise derived.  This module composes the two.

**Setting**: a run `JF.Sys.Reach env geo c S needs os cs s` (legs `os`/`cs`, state `s` after the last leg; `⟨s.usPrev, s.occ⟩` is the
concrete state the last leg's taggers yielded on and its candidates were computed from), under SystemInv's `Hyp env c S` and
`hasOccOf c = true`.

**What is left as hypothesis** (everything else of C10C11 — `HistoryPremise`, `InGrid`, the list of relevant units, the active unit —
is derived):
* `TieFreeAll c cs` (SystemInv's strong no-tie hypothesis: no event other than the cell-boundary event itself is committed at exactly
  the time of a pending cell-boundary candidate) — it is what `c11_occinv_closed`, the corollary that gives C11's FULL `OccInv`, needs;
* `CellOfInGrid env`: `env.cellOf p < numCells env.grid` for every position in the box.  `CW.Env` carries the box lengths `L`, the cell
  system `grid` and `cellOf` as three unrelated fields; `GridBox env` (`JF/Lemmas/C10Closed.lean`) is the relation the real
  `CuboidCells` establishes between them (`position_to_cell` = flat index of the per-direction `_cell_identifier`s), and
  `GridBox.inGrid` proves `CellOfInGrid` from it with `JF.Sys.idx_spec`.  So **`InGrid` follows from `InBox`** (C07's part of the joint
  invariant, `box_closed`): `inGrid_closed`.
* for the statements about PENDING events: the decidable side condition `cellWired c S cls T` on the wiring (tagger `T` has class
  `cls`, its events are compared by identifier tuples, and it is activated in every reachable activation state) — `decide`d for the
  shipped wirings.

**Theorems.**
1. (item 1) `c10_occInv_closed` (C10's `OccInv` at every leg), `cell_partition_veto_closed`, `cell_partition_bounding_closed`,
   `cell_targets_nodup_closed`, `cell_target_exactly_one_family_closed`, `cell_partition_total_closed` — C10C11's five statements for
   `tocc env s.occ`, the relevant units `relUnits env s.usPrev.length` and the recorded active unit, which IS the moving point mass
   (`active_is_mover`).
2. (item 2) `yields_partition_closed` / `yields_partition_every_leg`: the in-states the cell taggers of the concrete world yield at
   a leg (`CW.yieldCls`, = the oracle's `o.yields T` of that leg) have as targets exactly the partners, each once;
   `pending_eq_yield`, `pending_partition_closed`, `pending_veto_partition_closed`, `pending_exactly_one_closed`,
   `pending_partition_every_leg`: the same for the in-states of the events PENDING in the middle of the leg (with
   `c09_fresh_closed`), and these handlers are exactly the ones with a pending candidate in the scheduler's ghost dictionary.
   `c10_closed_of_gridBox` packages items 1 and 2 for an environment with a `GridBox` and the geometry `axisGeoPos` built from it
   (no abstract geometry hypothesis; the active cell is the cell with `position_to_cell`'s identifiers, `active_cell_of_gridBox`).
3. (item 3) instances for `coulomb_atoms/cell_bounded.ini` and `cell_veto.ini` (`cellWired_cell_bounded`, `cellWired_cell_veto`,
   `cell_partition_total_cell_bounded/_cell_veto`, `yields_partition_cell_bounded/_cell_veto`,
   `pending_partition_cell_bounded/_cell_veto`), and SystemInv's concrete 6-leg run as non-vacuity witness (`Example`; it also
   shows that `CellOfInGrid` cannot be dropped).

Not covered: legs whose candidates are `inf` are "pending" in the ghost dictionary although `heap.c` never stores them (a partner
covered by such an event has no finite event — C10 does not ask for one); the negative direction of motion and the exact-reading
restriction are SystemInv's; the pool size of the shipped wirings (`number_event_handlers = 1` for the cell-bounding tagger) bounds
the runs that exist (`Reach` has no leg on which the activator runs out of handlers), it is not a hypothesis here.
-/
namespace JF.C10Closed
open JF JF.Act JF.Heap JF.Sched JF.Med JF.CW JF.C14 JF.MediatorLoop JF.Kin JF.Sys JF.SystemInv JF.CellTaggers JF.C10C11

section
variable {env : Env ℚ} {geo : Geo env} {c : Wiring} {S : TaggerIdx} {needs : HandlerId → Bool}

/-! ## C07's box clause and C09's consistency, at every leg -/

theorem box_us_closed (H : Hyp env c S) {os : List (Oracle XTime)} {cs : List (Committed XTime)} {s : Sys}
    (hr : Reach env geo c S needs os cs s) (nt : TieFree c cs) : ∀ u ∈ s.us, InBox env.L u.pos := by
  rcases joint_inv H hr nt with ⟨_, hi⟩ | ⟨cs0, cl, E, tl, a, pos, v, ts, _, big⟩
  · exact hi.box
  · intro u hu
    obtain ⟨i, hi, rfl⟩ := List.getElem_of_mem hu
    exact (big.kin.2 i _ (List.getElem?_eq_getElem hi)).2.1

/-- **every point mass is in the box** in the state the last leg worked on and in the state after its commit (C07, from the joint
invariant) -/
theorem box_closed (H : Hyp env c S) {os : List (Oracle XTime)} {cs : List (Committed XTime)} {s : Sys}
    (hr : Reach env geo c S needs os cs s) (nt : TieFree c cs) :
    (∀ u ∈ s.usPrev, InBox env.L u.pos) ∧ (∀ u ∈ s.us, InBox env.L u.pos) := by
  refine ⟨?_, box_us_closed H hr nt⟩
  cases hr with
  | init s h => rw [h.prev]; exact h.box
  | step prev hgo hstep => rw [hstep.prev]; exact box_us_closed H prev (tieFree_snoc nt).1

/-- the occupancy's active unit is the moving point mass (if relevant), at every leg -/
theorem consistent_closed (H : Hyp env c S) {os : List (Oracle XTime)} {cs : List (Committed XTime)} {s : Sys}
    (hr : Reach env geo c S needs os cs s) (nt : TieFree c cs) : Consistent env (hasOccOf c) ⟨s.usPrev, s.occ⟩ := by
  rcases joint_inv H hr nt with ⟨_, hi⟩ | ⟨cs0, cl, E, tl, a, pos, v, ts, _, big⟩
  · intro _
    show s.occ.activeId = expectedActive env (movers s.usPrev) ∧ s.occ.activeCell.isSome = s.occ.activeId.isSome
    rw [hi.occId, hi.occCell, hi.prev, movers_rest hi.rest]
    exact ⟨rfl, rfl⟩
  · exact big.phase.1

/-- **the recorded active unit IS the moving point mass, and it is relevant** -/
theorem active_is_mover (H : Hyp env c S) {os : List (Oracle XTime)} {cs : List (Committed XTime)} {s : Sys}
    (hr : Reach env geo c S needs os cs s) (nt : TieFree c cs) (hO : hasOccOf c = true) {a : Nat}
    (ha : s.occ.activeId = some a) : movers s.usPrev = [a] ∧ env.relevant a = true ∧ a < s.usPrev.length := by
  have h1 := (consistent_closed H hr nt hO).1
  rw [ha] at h1
  have hm : movers s.usPrev = [a] ∧ env.relevant a = true := by
    revert h1
    show some a = expectedActive env (movers s.usPrev) → _
    generalize movers s.usPrev = l
    intro h1
    match l, h1 with
    | [], h1 => simp [expectedActive] at h1
    | [b], h1 =>
      simp only [expectedActive] at h1
      split at h1
      · next hb => cases h1; exact ⟨rfl, hb⟩
      · cases h1
    | _ :: _ :: _, h1 => simp [expectedActive] at h1
  refine ⟨hm.1, hm.2, ?_⟩
  have : a ∈ movers s.usPrev := by rw [hm.1]; simp
  unfold movers at this
  exact List.mem_range.mp (List.mem_filter.mp this).1

/-- the first leg does not update the internal state: the occupancy still records no active unit -/
theorem first_leg_no_active {s0 s' : Sys} (h : Init env c s0) {o : Oracle XTime} {cm : Committed XTime}
    (hstep : SysStep env geo c S needs s0 o cm s') : s'.occ.activeId = none := by
  have hocc := hstep.occ1
  unfold occNext at hocc
  have hst : s0.med.act.started = false := by rw [h.med]; rfl
  rw [hst] at hocc
  simp only [Bool.false_eq_true, if_false, Option.some.injEq] at hocc
  rw [← hocc, h.occId]

/-- a recorded active unit exists only from the second leg on (the first leg does not update the internal state) -/
theorem two_le_of_active {os : List (Oracle XTime)} {cs : List (Committed XTime)} {s : Sys}
    (hr : Reach env geo c S needs os cs s) {a : Nat} (ha : s.occ.activeId = some a) : 2 ≤ cs.length := by
  cases hr with
  | init s h => rw [h.occId] at ha; cases ha
  | step prev hgo hstep =>
    cases prev with
    | init _ h => rw [first_leg_no_active h hstep] at ha; cases ha
    | step _ _ _ => simp

/-! ## item 1 — `InGrid` and C10's occupancy invariant at every leg -/

/-- **`InGrid` is a consequence**: the cell of every relevant point mass (in the state the leg works on) is a cell of the grid — from
`InBox` (C07, joint invariant) and `CellOfInGrid` (`GridBox.inGrid`: `idx_spec`) -/
theorem inGrid_closed (H : Hyp env c S) (hG : CellOfInGrid env) {os : List (Oracle XTime)} {cs : List (Committed XTime)}
    {s : Sys} (hr : Reach env geo c S needs os cs s) (nt : TieFree c cs) :
    InGrid env.grid (relUnits env s.usPrev.length) (cellW env s.usPrev) := by
  intro u hu
  have hr' := (mem_relUnits env s.usPrev u).mp hu
  have hul : u < s.usPrev.length := by
    unfold relW at hr'
    simp only [Bool.and_eq_true, decide_eq_true_eq] at hr'
    exact hr'.1
  unfold cellW
  rw [if_pos hr', List.getElem?_eq_getElem hul]
  exact hG _ ((box_closed H hr nt).1 _ (List.getElem_mem hul))

theorem isRelevantList_relUnits (env : Env ℚ) (us : List (PUnit ℚ)) :
    IsRelevantList (relW env us) (relUnits env us.length) :=
  ⟨relUnits_nodup env _, mem_relUnits env us⟩

/-- **C10's occupancy hypothesis `JF.C10.OccInv` holds at every leg of every run** for the occupancy as the cell taggers read it
(`CW.tocc`), the relevant point masses, and the recorded active unit in the cell of its position -/
theorem c10_occInv_closed (H : Hyp env c S) (hG : CellOfInGrid env) {os : List (Oracle XTime)} {cs : List (Committed XTime)}
    {s : Sys} (hr : Reach env geo c S needs os cs s) (nta : TieFreeAll c cs) (hO : hasOccOf c = true) {a : Nat}
    (ha : s.occ.activeId = some a) :
    C10.OccInv env.grid (tocc env s.occ) (idents (relUnits env s.usPrev.length))
      (cellAt env.grid (cellW env s.usPrev a)) (wrap a) :=
  occInv_of_c11 (c11_occinv_closed H hr nta hO) env.grid _ (relUnits_nodup env _) (mem_relUnits env s.usPrev)
    (inGrid_closed H hG hr (tieFree_of_all nta)) ha

/-- **C10, cell half (cell-veto variant), at every leg of every run**: cell-veto targets, excluded-cell targets and surplus targets
together are the relevant point masses other than the active one, each exactly once — no occupancy / history hypothesis -/
theorem cell_partition_veto_closed (H : Hyp env c S) (hG : CellOfInGrid env) {os : List (Oracle XTime)}
    {cs : List (Committed XTime)} {s : Sys} (hr : Reach env geo c S needs os cs s) (nta : TieFreeAll c cs)
    (hO : hasOccOf c = true) {a : Nat} (ha : s.occ.activeId = some a) :
    (targetsVeto env.grid (tocc env s.occ) ++ targetsExcluded env.grid (tocc env s.occ) ++ targetsSurplus (tocc env s.occ)).Perm
      ((idents (relUnits env s.usPrev.length)).erase (wrap a)) :=
  C10.cell_partition_veto _ _ _ _ _ (c10_occInv_closed H hG hr nta hO ha)

/-- **C10, cell half (cell-bounding-potential variant), at every leg of every run** -/
theorem cell_partition_bounding_closed (H : Hyp env c S) (hG : CellOfInGrid env) {os : List (Oracle XTime)}
    {cs : List (Committed XTime)} {s : Sys} (hr : Reach env geo c S needs os cs s) (nta : TieFreeAll c cs)
    (hO : hasOccOf c = true) {a : Nat} (ha : s.occ.activeId = some a) :
    (targetsBounding env.grid (tocc env s.occ) ++ targetsExcluded env.grid (tocc env s.occ) ++
      targetsSurplus (tocc env s.occ)).Perm ((idents (relUnits env s.usPrev.length)).erase (wrap a)) :=
  C10.cell_partition_bounding _ _ _ _ _ (c10_occInv_closed H hG hr nta hO ha)

/-- nobody is treated twice, and the active unit is not its own target — at every leg of every run -/
theorem cell_targets_nodup_closed (H : Hyp env c S) (hG : CellOfInGrid env) {os : List (Oracle XTime)}
    {cs : List (Committed XTime)} {s : Sys} (hr : Reach env geo c S needs os cs s) (nta : TieFreeAll c cs)
    (hO : hasOccOf c = true) {a : Nat} (ha : s.occ.activeId = some a) :
    let t := tocc env s.occ
    (targetsVeto env.grid t ++ targetsExcluded env.grid t ++ targetsSurplus t).Nodup ∧
    (targetsBounding env.grid t ++ targetsExcluded env.grid t ++ targetsSurplus t).Nodup ∧
    wrap a ∉ targetsVeto env.grid t ++ targetsExcluded env.grid t ++ targetsSurplus t ∧
    wrap a ∉ targetsBounding env.grid t ++ targetsExcluded env.grid t ++ targetsSurplus t :=
  C10.cell_targets_nodup _ _ _ _ _ (c10_occInv_closed H hG hr nta hO ha)

/-- every other relevant point mass: its multiplicities in the three families add up to one — at every leg of every run -/
theorem cell_target_exactly_one_family_closed (H : Hyp env c S) (hG : CellOfInGrid env) {os : List (Oracle XTime)}
    {cs : List (Committed XTime)} {s : Sys} (hr : Reach env geo c S needs os cs s) (nta : TieFreeAll c cs)
    (hO : hasOccOf c = true) {a : Nat} (ha : s.occ.activeId = some a)
    (u : Nat) (hul : u < s.usPrev.length) (hu : env.relevant u = true) (hua : u ≠ a) :
    let t := tocc env s.occ
    (targetsVeto env.grid t).count (wrap u) + (targetsExcluded env.grid t).count (wrap u) + (targetsSurplus t).count (wrap u) = 1 ∧
    (targetsBounding env.grid t).count (wrap u) + (targetsExcluded env.grid t).count (wrap u) +
      (targetsSurplus t).count (wrap u) = 1 :=
  C10.cell_target_exactly_one_family _ _ _ _ _ (c10_occInv_closed H hG hr nta hO ha) (wrap u)
    (List.mem_map_of_mem ((mem_relUnits env s.usPrev u).mpr (by simp [relW, hul, hu])))
    (fun e => hua (wrap_injective e))

/-- **both cases in one statement, at every leg of every run**: either the occupancy records no active unit and no cell-based
in-state exists, or the recorded unit `a` is THE moving point mass, it is relevant, the recorded cell is the cell of its position, and
both variants partition the other relevant point masses -/
theorem cell_partition_total_closed (H : Hyp env c S) (hG : CellOfInGrid env) {os : List (Oracle XTime)}
    {cs : List (Committed XTime)} {s : Sys} (hr : Reach env geo c S needs os cs s) (nta : TieFreeAll c cs)
    (hO : hasOccOf c = true) :
    let t := tocc env s.occ
    match s.occ.activeId with
    | none => cellVetoTagger t = [] ∧ cellBoundingTagger env.grid t = [] ∧ excludedCellsTagger env.grid t = [] ∧
        surplusCellsTagger t = [] ∧ vetoTargets env.grid t = []
    | some a =>
        movers s.usPrev = [a] ∧ env.relevant a = true ∧
        t.active = some (cellAt env.grid (cellW env s.usPrev a), wrap a) ∧
        (targetsVeto env.grid t ++ targetsExcluded env.grid t ++ targetsSurplus t).Perm
          (idents ((relUnits env s.usPrev.length).erase a)) ∧
        (targetsBounding env.grid t ++ targetsExcluded env.grid t ++ targetsSurplus t).Perm
          (idents ((relUnits env s.usPrev.length).erase a)) := by
  intro t
  cases ha : s.occ.activeId with
  | none => exact C10C11.no_active_no_instates env.grid ha
  | some a =>
    have inv := c10_occInv_closed H hG hr nta hO ha
    obtain ⟨hm, hrel, _⟩ := active_is_mover H hr (tieFree_of_all nta) hO ha
    refine ⟨hm, hrel, inv.active, ?_, ?_⟩
    · rw [idents, map_erase_wrap]; exact cell_partition_veto_closed H hG hr nta hO ha
    · rw [idents, map_erase_wrap]; exact cell_partition_bounding_closed H hG hr nta hO ha

/-! ## item 2 — the in-states the cell taggers of the concrete world yield ARE those families -/

theorem targetsOf_yield_bounding (env : Env ℚ) (g : CState ℚ) :
    targetsOf (yieldCls env .cellBounding g) = targetsBounding env.grid (tocc env g.occ) := by
  show targetsOf (wrapIds _) = _
  rw [targetsOf_wrapIds]; rfl

theorem targetsOf_yield_excluded (env : Env ℚ) (g : CState ℚ) :
    targetsOf (yieldCls env .excludedCells g) = targetsExcluded env.grid (tocc env g.occ) := by
  show targetsOf (wrapIds _) = _
  rw [targetsOf_wrapIds]; rfl

theorem targetsOf_yield_surplus (env : Env ℚ) (g : CState ℚ) :
    targetsOf (yieldCls env .surplusCells g) = targetsSurplus (tocc env g.occ) := by
  show targetsOf (wrapIds _) = _
  rw [targetsOf_wrapIds]; rfl

/-- the cell-veto tagger's one in-state: the active unit alone (its partners are the occupants of the cells of the walker domain,
`targetsVeto`) -/
theorem yield_veto_of_active (env : Env ℚ) (g : CState ℚ) {ac : Cell} {a : Nat}
    (h : (tocc env g.occ).active = some (ac, wrap a)) : yieldCls env .cellVeto g = [some [wrap a]] := by
  show wrapIds (cellVetoTagger (tocc env g.occ)) = _
  simp [cellVetoTagger, h, wrapIds]

/-- the partners: the relevant point masses other than the active one, as identifiers -/
def partners (env : Env ℚ) (s : Sys) (a : Nat) : List Ident := idents ((relUnits env s.usPrev.length).erase a)

/-- **C10's first sentence for the composed system (state of the last leg).**  On the concrete state `⟨s.usPrev, s.occ⟩` the last
leg's taggers yielded on: the targets of the in-states yielded by a cell-bounding tagger, an excluded-cells tagger and a surplus
tagger are together the relevant point masses other than the active one, each exactly once; a cell-veto tagger yields the one in-state
`((a,),)`, and the targets of its walker domain together with the other two families are again the partners, each once. -/
theorem yields_partition_closed (H : Hyp env c S) (hG : CellOfInGrid env) {os : List (Oracle XTime)}
    {cs : List (Committed XTime)} {s : Sys} (hr : Reach env geo c S needs os cs s) (nta : TieFreeAll c cs)
    (hO : hasOccOf c = true) {a : Nat} (ha : s.occ.activeId = some a) :
    let g : CState ℚ := ⟨s.usPrev, s.occ⟩
    (targetsOf (yieldCls env .cellBounding g) ++ targetsOf (yieldCls env .excludedCells g) ++
      targetsOf (yieldCls env .surplusCells g)).Perm (partners env s a) ∧
    yieldCls env .cellVeto g = [some [wrap a]] ∧
    (targetsVeto env.grid (tocc env s.occ) ++ targetsOf (yieldCls env .excludedCells g) ++
      targetsOf (yieldCls env .surplusCells g)).Perm (partners env s a) := by
  intro g
  have tot := cell_partition_total_closed H hG hr nta hO
  simp only [ha] at tot
  obtain ⟨_, _, hact, hv, hb⟩ := tot
  rw [targetsOf_yield_bounding, targetsOf_yield_excluded, targetsOf_yield_surplus]
  exact ⟨hb, yield_veto_of_active env g hact, hv⟩

/-! ### every leg of a run, with the oracle of that leg -/

/-- every leg of a run, with its oracle, is a step from a reachable state -/
theorem reach_leg_os {os : List (Oracle XTime)} {cs : List (Committed XTime)} {s : Sys}
    (hr : Reach env geo c S needs os cs s) {k : Nat} {cm : Committed XTime} (hk : cs[k]? = some cm) :
    ∃ s0 s1 o, os[k]? = some o ∧ Reach env geo c S needs (os.take k) (cs.take k) s0 ∧
      (∀ cl, (cs.take k).getLast? = some cl → cl.stop = false) ∧ SysStep env geo c S needs s0 o cm s1 := by
  induction hr with
  | init s h => simp at hk
  | @step os cs s s' o cm' prev hgo hstep ih =>
    have hlen : os.length = cs.length := by
      clear ih hk hgo hstep
      induction prev with
      | init => rfl
      | step _ _ _ ih => simp [ih]
    by_cases hlt : k < cs.length
    · rw [List.getElem?_append_left hlt] at hk
      obtain ⟨s0, s1, o0, h0, h1, h2, h3⟩ := ih hk
      refine ⟨s0, s1, o0, ?_, ?_, ?_, h3⟩
      · rw [List.getElem?_append_left (by omega)]; exact h0
      · rw [List.take_append_of_le_length (Nat.le_of_lt hlt), List.take_append_of_le_length (by omega)]; exact h1
      · rw [List.take_append_of_le_length (Nat.le_of_lt hlt)]; exact h2
    · have hke : k = cs.length := by
        have := (List.getElem?_eq_some_iff.mp hk).1
        simp at this; omega
      subst hke
      simp only [List.getElem?_concat_length, Option.some.injEq] at hk
      subst hk
      refine ⟨s, s', o, ?_, ?_, ?_, hstep⟩
      · rw [← hlen]; simp
      · rw [List.take_left' rfl, ← hlen, List.take_left' rfl]; exact prev
      · rw [List.take_left' rfl]; exact hgo

theorem tieFreeAll_take {cs : List (Committed XTime)} (h : TieFreeAll c cs) (k : Nat) : TieFreeAll c (cs.take k) := by
  intro j x hj
  rw [List.getElem?_take] at hj
  split at hj
  · next hjk =>
    have := h j x hj
    rwa [List.take_take, Nat.min_eq_left (Nat.le_of_lt hjk)]
  · cases hj

/-- the run up to and including leg `k` -/
theorem reach_prefix {os : List (Oracle XTime)} {cs : List (Committed XTime)} {s : Sys}
    (hr : Reach env geo c S needs os cs s) {k : Nat} {cm : Committed XTime} (hk : cs[k]? = some cm) :
    ∃ s0 s1 o, os[k]? = some o ∧ SysStep env geo c S needs s0 o cm s1 ∧
      Reach env geo c S needs (os.take k) (cs.take k) s0 ∧
      Reach env geo c S needs (os.take k ++ [o]) (cs.take (k + 1)) s1 := by
  obtain ⟨s0, s1, o, ho, hr0, hgo, hst⟩ := reach_leg_os hr hk
  refine ⟨s0, s1, o, ho, hst, hr0, ?_⟩
  have : cs.take (k + 1) = cs.take k ++ [cm] := by rw [List.take_add_one, hk]; rfl
  rw [this]
  exact Reach.step hr0 hgo hst

/-- **C10's first sentence at every leg of every run, about what the taggers returned in that leg.**  For leg `k` of a run with
oracle `o` (`o.yields T` = what `tagger.yield_identifiers_send_event_time` of tagger `T` returns in that leg) there is the state
`s1` after the leg such that the yields are the computed ones on `⟨s1.usPrev, s1.occ⟩`, and: if the occupancy records no active unit
every cell tagger yields nothing; otherwise, for the recorded (= moving, relevant) unit `a`, any cell-bounding tagger `Tb`,
excluded-cells tagger `Te`, surplus tagger `Ts` and cell-veto tagger `Tv` of the wiring: the targets of `o.yields Tb`, `o.yields Te`,
`o.yields Ts` are together the partners, each once; `o.yields Tv` is the single in-state `((a,),)` and the occupants of its walker
domain (`targetsVeto`) with the targets of `o.yields Te`, `o.yields Ts` are the partners, each once. -/
theorem yields_partition_every_leg (H : Hyp env c S) (hG : CellOfInGrid env) {os : List (Oracle XTime)}
    {cs : List (Committed XTime)} {s : Sys} (hr : Reach env geo c S needs os cs s) (nta : TieFreeAll c cs)
    (hO : hasOccOf c = true) {k : Nat} {cm : Committed XTime} (hk : cs[k]? = some cm) :
    ∃ (o : Oracle XTime) (s1 : Sys), os[k]? = some o ∧
      (∀ T, o.yields T = yieldCls env (c.tagger T).cls ⟨s1.usPrev, s1.occ⟩) ∧
      match s1.occ.activeId with
      | none => ∀ T, cellReading (c.tagger T).cls = true ∨ (c.tagger T).cls = .cellVeto → o.yields T = []
      | some a =>
        movers s1.usPrev = [a] ∧ env.relevant a = true ∧
        (∀ Tb Te Ts, (c.tagger Tb).cls = .cellBounding → (c.tagger Te).cls = .excludedCells →
          (c.tagger Ts).cls = .surplusCells →
          (targetsOf (o.yields Tb) ++ targetsOf (o.yields Te) ++ targetsOf (o.yields Ts)).Perm (partners env s1 a)) ∧
        (∀ Tv Te Ts, (c.tagger Tv).cls = .cellVeto → (c.tagger Te).cls = .excludedCells →
          (c.tagger Ts).cls = .surplusCells →
          o.yields Tv = [some [wrap a]] ∧
          (targetsVeto env.grid (tocc env s1.occ) ++ targetsOf (o.yields Te) ++ targetsOf (o.yields Ts)).Perm
            (partners env s1 a)) := by
  obtain ⟨s0, s1, o, ho, hst, _, hr1⟩ := reach_prefix hr hk
  have nta1 : TieFreeAll c (cs.take (k + 1)) := tieFreeAll_take nta _
  have hy : ∀ T, o.yields T = yieldCls env (c.tagger T).cls ⟨s1.usPrev, s1.occ⟩ := by
    intro T; rw [hst.yields, hst.prev]
  refine ⟨o, s1, ho, hy, ?_⟩
  cases ha : s1.occ.activeId with
  | none =>
    intro T hT
    have hn := C10C11.no_active_no_instates (s := s1.occ) env.grid ha
    rw [hy T]
    obtain ⟨h1, h2, h3, h4, _⟩ := hn
    rcases hT with hT | hT
    · cases hc : (c.tagger T).cls <;> rw [hc] at hT <;> simp [cellReading] at hT
      · show wrapIds (cellBoundingTagger env.grid (tocc env s1.occ)) = []
        rw [tocc_eq, h2]; rfl
      · show wrapIds (excludedCellsTagger env.grid (tocc env s1.occ)) = []
        rw [tocc_eq, h3]; rfl
      · show wrapIds (surplusCellsTagger (tocc env s1.occ)) = []
        rw [tocc_eq, h4]; rfl
    · rw [hT]
      show wrapIds (cellVetoTagger (tocc env s1.occ)) = []
      rw [tocc_eq, h1]; rfl
  | some a =>
    obtain ⟨hm, hrel, _⟩ := active_is_mover H hr1 (tieFree_of_all nta1) hO ha
    obtain ⟨p1, p2, p3⟩ := yields_partition_closed H hG hr1 nta1 hO ha
    refine ⟨hm, hrel, ?_, ?_⟩
    · intro Tb Te Ts hb he hs
      rw [hy Tb, hy Te, hy Ts, hb, he, hs]; exact p1
    · intro Tv Te Ts hv he hs
      rw [hy Tv, hy Te, hy Ts, hv, he, hs]; exact ⟨p2, p3⟩

/-! ### the events PENDING in the scheduler (with `c09_fresh_closed`) -/

/-- decidable side condition on the wiring for the statements about pending events: tagger `T` exists, has class `cls`, its pending
events are compared by their identifier tuples in C09 (handler kind interaction / cell veto / cell boundary), and it is activated
in every reachable activation state (as `cbWired` demands of the cell-boundary tagger) -/
def cellWired (c : Wiring) (S : TaggerIdx) (cls : TaggerClass) (T : TaggerIdx) : Bool :=
  decide (T < c.n) && decide ((c.tagger T).cls = cls) && idsView (c.tagger T) && (reach c S).all (fun σ => aGet σ T)

theorem cellWired_spec {c : Wiring} {S : TaggerIdx} {cls : TaggerClass} {T : TaggerIdx} (h : cellWired c S cls T = true) :
    T < c.n ∧ (c.tagger T).cls = cls ∧ idsView (c.tagger T) = true ∧ ∀ σ ∈ reach c S, aGet σ T = true := by
  unfold cellWired at h
  simp only [Bool.and_eq_true, decide_eq_true_eq, List.all_eq_true] at h
  exact ⟨h.1.1.1, h.1.1.2, h.1.2, h.2⟩

/-- the in-state identifiers of the pending events of tagger `T` in the middle of the last leg (`s.mid`: the activator's running
lists after `get_event_handlers_to_run`; `s.ids`: the identifiers each handler was handed out with) -/
def pendingIds (s : Sys) (T : TaggerIdx) : List IdTuple := (getT s.mid T).running.map s.ids

/-- **pending = yielded, for a cell tagger, at every leg but the first** (C09's `Fresh` read for an always-activated tagger
whose events are compared by identifier tuples): the in-states of the pending events of `T` are, as a multiset, what the tagger
yields from scratch on the concrete state of that leg -/
theorem pending_eq_yield (H : Hyp env c S) {os : List (Oracle XTime)} {cs : List (Committed XTime)} {s : Sys}
    (hr : Reach env geo c S needs os cs s) (nt : TieFree c cs) (h2 : 2 ≤ cs.length) {cls : TaggerClass} {T : TaggerIdx}
    (hT : cellWired c S cls T = true) : (pendingIds s T).Perm (yieldCls env cls ⟨s.usPrev, s.occ⟩) := by
  obtain ⟨hTn, hcls, hview, hact⟩ := cellWired_spec hT
  obtain ⟨hc, hfresh, hrun⟩ := c09_fresh_closed H hr nt h2
  have hk : (c.tagger T).kind ≠ .startOfRun := by
    intro hk; unfold idsView at hview; rw [hk] at hview; cases hview
  have fr := hfresh T ⟨hTn, hk⟩
  have inv := Act.run_inv c (world env c) (Tr env c) S H.sound H.hS (Footprints.footprintsSound_concrete env c H.sup)
    (liveIs env c) hrun
  have ha : (getT s.mid T).activated = true := by
    have := hact _ inv.reach
    rwa [aGet_absOf] at this
  unfold Fresh at fr
  have hv : (world env c).view T = id := by
    funext x
    show viewOf (c.tagger T) x = x
    unfold viewOf; rw [hview]; rfl
  have hy : (world env c).yieldOf T ⟨⟨s.usPrev, s.occ⟩, hc⟩ = yieldCls env cls ⟨s.usPrev, s.occ⟩ := by
    show yieldCls env (c.tagger T).cls _ = _
    rw [hcls]
  simp only [hv, yieldEff, ha, if_true, hy, List.map_id, id_eq] at fr
  exact fr

/-- **every partner has exactly one pending pair coverage (cell-bounding variant), at every leg of every run.**  In the middle of
the last leg the targets of the in-states of the PENDING events of a cell-bounding tagger, an excluded-cells tagger and a surplus
tagger are together the relevant point masses other than the active one, each exactly once. -/
theorem pending_partition_closed (H : Hyp env c S) (hG : CellOfInGrid env) {os : List (Oracle XTime)}
    {cs : List (Committed XTime)} {s : Sys} (hr : Reach env geo c S needs os cs s) (nta : TieFreeAll c cs)
    (hO : hasOccOf c = true) {a : Nat} (ha : s.occ.activeId = some a) {Tb Te Ts : TaggerIdx}
    (hb : cellWired c S .cellBounding Tb = true) (he : cellWired c S .excludedCells Te = true)
    (hs : cellWired c S .surplusCells Ts = true) :
    (targetsOf (pendingIds s Tb) ++ targetsOf (pendingIds s Te) ++ targetsOf (pendingIds s Ts)).Perm (partners env s a) := by
  have nt := tieFree_of_all nta
  have h2 := two_le_of_active hr ha
  have p := (yields_partition_closed H hG hr nta hO ha).1
  exact (((targetsOf_perm (pending_eq_yield H hr nt h2 hb)).append (targetsOf_perm (pending_eq_yield H hr nt h2 he))).append
    (targetsOf_perm (pending_eq_yield H hr nt h2 hs))).trans p

/-- **… (cell-veto variant).**  Exactly one cell-veto event is pending, its in-state is the active unit alone; the occupants of the
cells its walker can sample (translated to the active cell), the targets of the pending excluded-cells events and the targets of the
pending surplus events are together the partners, each exactly once. -/
theorem pending_veto_partition_closed (H : Hyp env c S) (hG : CellOfInGrid env) {os : List (Oracle XTime)}
    {cs : List (Committed XTime)} {s : Sys} (hr : Reach env geo c S needs os cs s) (nta : TieFreeAll c cs)
    (hO : hasOccOf c = true) {a : Nat} (ha : s.occ.activeId = some a) {Tv Te Ts : TaggerIdx}
    (hv : cellWired c S .cellVeto Tv = true) (he : cellWired c S .excludedCells Te = true)
    (hs : cellWired c S .surplusCells Ts = true) :
    pendingIds s Tv = [some [wrap a]] ∧
    (targetsVeto env.grid (tocc env s.occ) ++ targetsOf (pendingIds s Te) ++ targetsOf (pendingIds s Ts)).Perm
      (partners env s a) := by
  have nt := tieFree_of_all nta
  have h2 := two_le_of_active hr ha
  obtain ⟨_, p2, p3⟩ := yields_partition_closed H hG hr nta hO ha
  constructor
  · have := pending_eq_yield H hr nt h2 hv
    rw [p2] at this
    exact List.perm_singleton.mp this
  · exact (((List.Perm.refl _).append (targetsOf_perm (pending_eq_yield H hr nt h2 he))).append
      (targetsOf_perm (pending_eq_yield H hr nt h2 hs))).trans p3

/-- the count form: every other relevant point mass is the target of exactly one pending event of the three taggers in total, the
active unit of none -/
theorem pending_exactly_one_closed (H : Hyp env c S) (hG : CellOfInGrid env) {os : List (Oracle XTime)}
    {cs : List (Committed XTime)} {s : Sys} (hr : Reach env geo c S needs os cs s) (nta : TieFreeAll c cs)
    (hO : hasOccOf c = true) {a : Nat} (ha : s.occ.activeId = some a) {Tb Te Ts : TaggerIdx}
    (hb : cellWired c S .cellBounding Tb = true) (he : cellWired c S .excludedCells Te = true)
    (hs : cellWired c S .surplusCells Ts = true) :
    (∀ u, u < s.usPrev.length → env.relevant u = true → u ≠ a →
      (targetsOf (pendingIds s Tb)).count (wrap u) + (targetsOf (pendingIds s Te)).count (wrap u) +
        (targetsOf (pendingIds s Ts)).count (wrap u) = 1) ∧
    (targetsOf (pendingIds s Tb)).count (wrap a) + (targetsOf (pendingIds s Te)).count (wrap a) +
        (targetsOf (pendingIds s Ts)).count (wrap a) = 0 := by
  have p := pending_partition_closed H hG hr nta hO ha hb he hs
  have hnd : ((relUnits env s.usPrev.length).erase a).Nodup := (relUnits_nodup env _).erase a
  constructor
  · intro u hul hu hua
    have hm : u ∈ (relUnits env s.usPrev.length).erase a :=
      (List.mem_erase_of_ne hua).mpr ((mem_relUnits env s.usPrev u).mpr (by simp [relW, hul, hu]))
    have hc : (partners env s a).count (wrap u) = 1 :=
      List.count_eq_one_of_mem (hnd.map wrap_injective) (List.mem_map_of_mem hm)
    have := p.count_eq (wrap u)
    simp only [List.count_append] at this
    omega
  · have hc : (partners env s a).count (wrap a) = 0 := by
      rw [List.count_eq_zero]
      intro hmem
      obtain ⟨x, hx, hxa⟩ := List.mem_map.mp hmem
      rw [wrap_injective hxa] at hx
      exact ((List.Nodup.mem_erase_iff (relUnits_nodup env _)).mp hx).1 rfl
    have := p.count_eq (wrap a)
    simp only [List.count_append] at this
    omega

/-- **at every leg `k ≥ 1` of every run**: there is the state `s1` after the leg such that (1) a handler has a pending candidate in
the scheduler's ghost dictionary in the middle of the leg (`pendPushed`: after the pushes of the leg, before its trash; a candidate
`inf` counts as pending although `heap.c` never stores it) iff it is a running handler of some tagger in `s1.mid`; (2) if the
occupancy records an active unit `a`, the pending events of any cell-bounding / excluded-cells / surplus taggers cover the partners
exactly once, and with a cell-veto tagger instead of the cell-bounding one: one pending cell-veto event `((a,),)` whose walker domain,
with the other two families, covers the partners exactly once. -/
theorem pending_partition_every_leg (H : Hyp env c S) (hG : CellOfInGrid env) {os : List (Oracle XTime)}
    {cs : List (Committed XTime)} {s : Sys} (hr : Reach env geo c S needs os cs s) (nta : TieFreeAll c cs)
    (hO : hasOccOf c = true) {k : Nat} {cm : Committed XTime} (hk : cs[k + 1]? = some cm) :
    ∃ s1 : Sys,
      (∀ x, (pendPushed (pendOf (fun _ => none) (cs.take (k + 1))) cm x).isSome ↔ ∃ T, x ∈ (getT s1.mid T).running) ∧
      ∀ a, s1.occ.activeId = some a →
        (∀ Tb Te Ts, cellWired c S .cellBounding Tb = true → cellWired c S .excludedCells Te = true →
          cellWired c S .surplusCells Ts = true →
          (targetsOf (pendingIds s1 Tb) ++ targetsOf (pendingIds s1 Te) ++ targetsOf (pendingIds s1 Ts)).Perm
            (partners env s1 a)) ∧
        (∀ Tv Te Ts, cellWired c S .cellVeto Tv = true → cellWired c S .excludedCells Te = true →
          cellWired c S .surplusCells Ts = true →
          pendingIds s1 Tv = [some [wrap a]] ∧
          (targetsVeto env.grid (tocc env s1.occ) ++ targetsOf (pendingIds s1 Te) ++ targetsOf (pendingIds s1 Ts)).Perm
            (partners env s1 a)) := by
  obtain ⟨s0, s1, o, _, hst, hr0, hr1⟩ := reach_prefix hr hk
  have nta1 : TieFreeAll c (cs.take (k + 1 + 1)) := tieFreeAll_take nta _
  refine ⟨s1, ?_, fun a ha => ⟨fun Tb Te Ts hb he hs => pending_partition_closed H hG hr1 nta1 hO ha hb he hs,
    fun Tv Te Ts hv he hs => pending_veto_partition_closed H hG hr1 nta1 hO ha hv he hs⟩⟩
  have hklt : k + 1 < cs.length := (List.getElem?_eq_some_iff.mp hk).1
  rcases joint_inv H hr0 (tieFree_take (tieFree_of_all nta) _) with ⟨he, _⟩ | ⟨cs0, cl, E, tl, a, pos, v, ts, he, big⟩
  · have h0 : (cs.take (k + 1)).length = 0 := by rw [he]; rfl
    rw [List.length_take, Nat.min_eq_left (Nat.le_of_lt hklt)] at h0; omega
  · have := (mid_mirror (hyp_static H) big.med hst.leg).2.1
    rw [hst.mid']; exact this

/-! ### with the geometry spelled out: `GridBox` -/

/-- the recorded active cell, as the taggers see it, is the cell whose identifier is `position_to_cell`'s per-direction
identifiers of the active unit's position -/
theorem active_cell_of_gridBox (B : GridBox env) (H : Hyp env c S) {os : List (Oracle XTime)} {cs : List (Committed XTime)}
    {s : Sys} (hr : Reach env geo c S needs os cs s) (nt : TieFree c cs) (hO : hasOccOf c = true) {a : Nat}
    (ha : s.occ.activeId = some a) :
    cellAt env.grid (cellW env s.usPrev a) = cellIds B.grids (((s.usPrev[a]?).map (·.pos)).getD []) := by
  obtain ⟨_, hrel, hal⟩ := active_is_mover H hr nt hO ha
  have hr' : relW env s.usPrev a = true := by simp [relW, hal, hrel]
  unfold cellW
  rw [if_pos hr', List.getElem?_eq_getElem hal]
  exact B.cellAt_cellOf ((box_closed H hr nt).1 _ (List.getElem_mem hal))

/-- **the whole statement with no abstract geometry hypothesis**: environment with a `GridBox` of at least two cells per direction,
the positive-direction geometry `axisGeoPos` built from it.  At every leg of every run with a recorded active unit `a`: `a` is the
moving point mass and relevant; the active cell the taggers see is the cell of its position; cell-veto (resp. cell-bounding) targets,
excluded-cell targets and surplus targets partition the other relevant point masses; and so do the targets of the PENDING events of
any three always-activated taggers of these classes.  Remaining hypotheses: `Hyp` (decidable per wiring), `TieFreeAll`. -/
theorem c10_closed_of_gridBox (B : GridBox env) (hn2 : ∀ g ∈ B.grids, 2 ≤ g.n) (H : Hyp env c S)
    {os : List (Oracle XTime)} {cs : List (Committed XTime)} {s : Sys}
    (hr : Reach env (axisGeoPos (B.toAxisBox hn2)) c S needs os cs s) (nta : TieFreeAll c cs) (hO : hasOccOf c = true)
    {a : Nat} (ha : s.occ.activeId = some a) :
    let t := tocc env s.occ
    movers s.usPrev = [a] ∧ env.relevant a = true ∧
    t.active = some (cellIds B.grids (((s.usPrev[a]?).map (·.pos)).getD []), wrap a) ∧
    (targetsVeto env.grid t ++ targetsExcluded env.grid t ++ targetsSurplus t).Perm (partners env s a) ∧
    (targetsBounding env.grid t ++ targetsExcluded env.grid t ++ targetsSurplus t).Perm (partners env s a) ∧
    (∀ Tb Te Ts, cellWired c S .cellBounding Tb = true → cellWired c S .excludedCells Te = true →
      cellWired c S .surplusCells Ts = true →
      (targetsOf (pendingIds s Tb) ++ targetsOf (pendingIds s Te) ++ targetsOf (pendingIds s Ts)).Perm (partners env s a)) ∧
    (∀ Tv Te Ts, cellWired c S .cellVeto Tv = true → cellWired c S .excludedCells Te = true →
      cellWired c S .surplusCells Ts = true →
      pendingIds s Tv = [some [wrap a]] ∧
      (targetsVeto env.grid t ++ targetsOf (pendingIds s Te) ++ targetsOf (pendingIds s Ts)).Perm (partners env s a)) := by
  intro t
  have hG := B.inGrid
  have tot := cell_partition_total_closed H hG hr nta hO
  simp only [ha] at tot
  obtain ⟨hm, hrel, hact, hv, hb⟩ := tot
  refine ⟨hm, hrel, ?_, hv, hb, fun Tb Te Ts h1 h2 h3 => pending_partition_closed H hG hr nta hO ha h1 h2 h3,
    fun Tv Te Ts h1 h2 h3 => pending_veto_partition_closed H hG hr nta hO ha h1 h2 h3⟩
  rw [← active_cell_of_gridBox B H hr (tieFree_of_all nta) hO ha]; exact hact

end

/-! ## item 3 — the shipped coulomb_atoms wirings that have cells (side conditions by `decide`) -/

open JF.Act.Gen JF.Footprints

/-- `coulomb_atoms/cell_bounded.ini`: tagger 0 `coulomb_cell_bounding`, 1 `coulomb_nearby` (excluded cells), 3 `coulomb_surplus` -/
theorem cellWired_cell_bounded :
    cellWired cfg_coulomb_atoms_cell_bounded 7 .cellBounding 0 = true ∧
    cellWired cfg_coulomb_atoms_cell_bounded 7 .excludedCells 1 = true ∧
    cellWired cfg_coulomb_atoms_cell_bounded 7 .surplusCells 3 = true := by decide +kernel

/-- `coulomb_atoms/cell_veto.ini`: tagger 0 `coulomb_cell_veto`, 1 `coulomb_nearby` (excluded cells), 3 `coulomb_surplus` -/
theorem cellWired_cell_veto :
    cellWired cfg_coulomb_atoms_cell_veto 7 .cellVeto 0 = true ∧
    cellWired cfg_coulomb_atoms_cell_veto 7 .excludedCells 1 = true ∧
    cellWired cfg_coulomb_atoms_cell_veto 7 .surplusCells 3 = true := by decide +kernel

/-- the side condition is not trivially true: a tagger of another class, a count-only handler kind, or a tagger that some
reachable activation state deactivates fails it -/
example : cellWired cfg_coulomb_atoms_cell_bounded 7 .cellBounding 1 = false ∧
    cellWired cfg_coulomb_atoms_cell_bounded 7 .noInState 4 = false := by decide +kernel

/-- the two power-bounded wirings have no cells: nothing to state -/
example : hasOccOf cfg_coulomb_atoms_power_bounded = false ∧ hasOccOf cfg_coulomb_atoms_power_bounded_dump = false := by decide

section
variable {env : Env ℚ} {geo : Geo env} {needs : HandlerId → Bool}

/-- **C10 (cell half) for every leg of every run of `coulomb_atoms/cell_bounded.ini`** in the composed system (any geometry
instance, any number of point masses, any cell grid with `CellOfInGrid`): state form -/
theorem cell_partition_total_cell_bounded (ho : env.o = Ops.rat) (hG : CellOfInGrid env)
    {os : List (Oracle XTime)} {cs : List (Committed XTime)} {s : Sys}
    (hr : Reach env geo cfg_coulomb_atoms_cell_bounded 7 needs os cs s)
    (nta : TieFreeAll cfg_coulomb_atoms_cell_bounded cs) :
    let t := tocc env s.occ
    match s.occ.activeId with
    | none => cellVetoTagger t = [] ∧ cellBoundingTagger env.grid t = [] ∧ excludedCellsTagger env.grid t = [] ∧
        surplusCellsTagger t = [] ∧ vetoTargets env.grid t = []
    | some a =>
        movers s.usPrev = [a] ∧ env.relevant a = true ∧
        t.active = some (cellAt env.grid (cellW env s.usPrev a), wrap a) ∧
        (targetsVeto env.grid t ++ targetsExcluded env.grid t ++ targetsSurplus t).Perm
          (idents ((relUnits env s.usPrev.length).erase a)) ∧
        (targetsBounding env.grid t ++ targetsExcluded env.grid t ++ targetsSurplus t).Perm
          (idents ((relUnits env s.usPrev.length).erase a)) :=
  cell_partition_total_closed (hyp_cell_bounded env ho) hG hr nta rfl

theorem cell_partition_total_cell_veto (ho : env.o = Ops.rat) (hG : CellOfInGrid env)
    {os : List (Oracle XTime)} {cs : List (Committed XTime)} {s : Sys}
    (hr : Reach env geo cfg_coulomb_atoms_cell_veto 7 needs os cs s)
    (nta : TieFreeAll cfg_coulomb_atoms_cell_veto cs) :
    let t := tocc env s.occ
    match s.occ.activeId with
    | none => cellVetoTagger t = [] ∧ cellBoundingTagger env.grid t = [] ∧ excludedCellsTagger env.grid t = [] ∧
        surplusCellsTagger t = [] ∧ vetoTargets env.grid t = []
    | some a =>
        movers s.usPrev = [a] ∧ env.relevant a = true ∧
        t.active = some (cellAt env.grid (cellW env s.usPrev a), wrap a) ∧
        (targetsVeto env.grid t ++ targetsExcluded env.grid t ++ targetsSurplus t).Perm
          (idents ((relUnits env s.usPrev.length).erase a)) ∧
        (targetsBounding env.grid t ++ targetsExcluded env.grid t ++ targetsSurplus t).Perm
          (idents ((relUnits env s.usPrev.length).erase a)) :=
  cell_partition_total_closed (hyp_cell_veto env ho) hG hr nta rfl

/-- **`cell_bounded.ini`, every leg, what the three taggers returned**: while a unit `a` is recorded as active, the targets of
the in-states yielded by `coulomb_cell_bounding` (0), `coulomb_nearby` (1) and `coulomb_surplus` (3) are the partners, each once -/
theorem yields_partition_cell_bounded (ho : env.o = Ops.rat) (hG : CellOfInGrid env)
    {os : List (Oracle XTime)} {cs : List (Committed XTime)} {s : Sys}
    (hr : Reach env geo cfg_coulomb_atoms_cell_bounded 7 needs os cs s)
    (nta : TieFreeAll cfg_coulomb_atoms_cell_bounded cs) {k : Nat} {cm : Committed XTime} (hk : cs[k]? = some cm) :
    ∃ (o : Oracle XTime) (s1 : Sys), os[k]? = some o ∧
      (∀ T, o.yields T = yieldCls env (cfg_coulomb_atoms_cell_bounded.tagger T).cls ⟨s1.usPrev, s1.occ⟩) ∧
      ∀ a, s1.occ.activeId = some a →
        (targetsOf (o.yields 0) ++ targetsOf (o.yields 1) ++ targetsOf (o.yields 3)).Perm (partners env s1 a) := by
  obtain ⟨o, s1, ho', hy, h⟩ := yields_partition_every_leg (hyp_cell_bounded env ho) hG hr nta rfl hk
  refine ⟨o, s1, ho', hy, fun a ha => ?_⟩
  simp only [ha] at h
  exact h.2.2.1 0 1 3 rfl rfl rfl

/-- **`cell_veto.ini`, every leg**: `coulomb_cell_veto` (0) yields the one in-state `((a,),)`; the occupants of its walker domain
and the targets of the in-states yielded by `coulomb_nearby` (1) and `coulomb_surplus` (3) are the partners, each once -/
theorem yields_partition_cell_veto (ho : env.o = Ops.rat) (hG : CellOfInGrid env)
    {os : List (Oracle XTime)} {cs : List (Committed XTime)} {s : Sys}
    (hr : Reach env geo cfg_coulomb_atoms_cell_veto 7 needs os cs s)
    (nta : TieFreeAll cfg_coulomb_atoms_cell_veto cs) {k : Nat} {cm : Committed XTime} (hk : cs[k]? = some cm) :
    ∃ (o : Oracle XTime) (s1 : Sys), os[k]? = some o ∧
      (∀ T, o.yields T = yieldCls env (cfg_coulomb_atoms_cell_veto.tagger T).cls ⟨s1.usPrev, s1.occ⟩) ∧
      ∀ a, s1.occ.activeId = some a →
        o.yields 0 = [some [wrap a]] ∧
        (targetsVeto env.grid (tocc env s1.occ) ++ targetsOf (o.yields 1) ++ targetsOf (o.yields 3)).Perm
          (partners env s1 a) := by
  obtain ⟨o, s1, ho', hy, h⟩ := yields_partition_every_leg (hyp_cell_veto env ho) hG hr nta rfl hk
  refine ⟨o, s1, ho', hy, fun a ha => ?_⟩
  simp only [ha] at h
  exact h.2.2.2 0 1 3 rfl rfl rfl

/-- **`cell_bounded.ini`: every partner has exactly one pending pair event** (targets of the pending `coulomb_cell_bounding`,
`coulomb_nearby`, `coulomb_surplus` events = the partners, each once), in the middle of every leg with a recorded active unit -/
theorem pending_partition_cell_bounded (ho : env.o = Ops.rat) (hG : CellOfInGrid env)
    {os : List (Oracle XTime)} {cs : List (Committed XTime)} {s : Sys}
    (hr : Reach env geo cfg_coulomb_atoms_cell_bounded 7 needs os cs s)
    (nta : TieFreeAll cfg_coulomb_atoms_cell_bounded cs) {a : Nat} (ha : s.occ.activeId = some a) :
    (targetsOf (pendingIds s 0) ++ targetsOf (pendingIds s 1) ++ targetsOf (pendingIds s 3)).Perm (partners env s a) :=
  pending_partition_closed (hyp_cell_bounded env ho) hG hr nta rfl ha cellWired_cell_bounded.1 cellWired_cell_bounded.2.1
    cellWired_cell_bounded.2.2

/-- **`cell_veto.ini`: one pending cell-veto event `((a,),)`; every partner is covered exactly once** by its walker domain, the
pending `coulomb_nearby` events and the pending `coulomb_surplus` events -/
theorem pending_partition_cell_veto (ho : env.o = Ops.rat) (hG : CellOfInGrid env)
    {os : List (Oracle XTime)} {cs : List (Committed XTime)} {s : Sys}
    (hr : Reach env geo cfg_coulomb_atoms_cell_veto 7 needs os cs s)
    (nta : TieFreeAll cfg_coulomb_atoms_cell_veto cs) {a : Nat} (ha : s.occ.activeId = some a) :
    pendingIds s 0 = [some [wrap a]] ∧
    (targetsVeto env.grid (tocc env s.occ) ++ targetsOf (pendingIds s 1) ++ targetsOf (pendingIds s 3)).Perm
      (partners env s a) :=
  pending_veto_partition_closed (hyp_cell_veto env ho) hG hr nta rfl ha cellWired_cell_veto.1 cellWired_cell_veto.2.1
    cellWired_cell_veto.2.2

end

/-! ## non-vacuity: SystemInv's concrete 6-leg run of `coulomb_atoms/cell_bounded.ini`

`JF.SystemInv.Example`: box of length 1, seven cells, one layer of nearby cells, occupant cap 1, units 0, 1, 2 at 1/14, 3/14, 9/14
(cells 0, 1, 4), all relevant.  Legs: start of run — sampling — cell boundary (unit 0 enters cell 1) — `coulomb_nearby` (0, 1) accepted
(lifting 0 → 1) — sampling — `coulomb_surplus` (1, 0) accepted.  In the middle of leg 4 (`s4`) unit 0 is active in cell 1: unit 1 is an
occupant of the same (nearby) cell, unit 2 of the non-nearby cell 4.  In the middle of legs 5 and 6 (`s5`, `s6`) unit 1 is active in
cell 1: unit 0 is a surplus unit of cell 1, unit 2 an occupant of cell 4.  All three families occur along the run. -/

namespace Example
open JF.SystemInv.Example

/-- the geometry fields of SystemInv's example environment fit together: `GridBox` -/
def gbox : GridBox env where
  grids := [g7]
  hL := rfl
  hn := rfl
  hcellOf := by
    intro p hp
    have hl : p.length = 1 := ((inBox_iff _ _).mp hp).1
    obtain ⟨x, rfl⟩ := List.length_eq_one_iff.mp hl
    show (g7.idx x).toNat = flatIdx [7] [(g7.idx x).toNat]
    simp [flatIdx]

/-- **`InGrid` holds for the example, derived — not assumed** -/
theorem inGrid : CellOfInGrid env := gbox.inGrid

/-- … and the geometry of the run IS the positive-direction geometry of this `GridBox` -/
theorem hn2 : ∀ g ∈ gbox.grids, 2 ≤ g.n := by intro g hg; simp [gbox] at hg; subst hg; decide
example : gbox.toAxisBox hn2 = box := rfl
example : axisGeoPos (gbox.toAxisBox hn2) = geo := rfl

/-- every hypothesis of the theorems of this module holds for the run: `Hyp`, `CellOfInGrid`, `Reach`, `TieFreeAll`, an occupancy,
a recorded active unit, the side condition on the three cell taggers -/
example : Hyp env cfg 7 ∧ CellOfInGrid env ∧ Reach env geo cfg 7 needs os6 cs6 s6 ∧ TieFreeAll cfg cs6 ∧ hasOccOf cfg = true ∧
    s6.occ.activeId = some 1 ∧ s4.occ.activeId = some 0 ∧
    cellWired cfg 7 .cellBounding 0 = true ∧ cellWired cfg 7 .excludedCells 1 = true ∧ cellWired cfg 7 .surplusCells 3 = true :=
  ⟨hyp, inGrid, reach6, tieFreeAll6, rfl, by decide +kernel, by decide +kernel, cellWired_cell_bounded.1,
    cellWired_cell_bounded.2.1, cellWired_cell_bounded.2.2⟩

theorem tieFreeAll4 : TieFreeAll cfg cs4 := tieFreeAll_take tieFreeAll6 4

/-- item 1 on the run: C10's occupancy invariant and the partition in the middle of leg 6 and of leg 4 -/
example : C10.OccInv env.grid (tocc env s6.occ) (idents (relUnits env s6.usPrev.length))
    (cellAt env.grid (cellW env s6.usPrev 1)) (wrap 1) :=
  c10_occInv_closed hyp inGrid reach6 tieFreeAll6 rfl (by decide +kernel)
example : (targetsBounding env.grid (tocc env s4.occ) ++ targetsExcluded env.grid (tocc env s4.occ) ++
    targetsSurplus (tocc env s4.occ)).Perm ((idents (relUnits env s4.usPrev.length)).erase (wrap 0)) :=
  cell_partition_bounding_closed hyp inGrid reach4 tieFreeAll4 rfl (by decide +kernel)
/-- what the statements speak about, evaluated: leg 4 — bounding target 2, excluded (nearby) target 1; leg 6 — bounding target 2,
surplus target 0; the partners are the two other units -/
example : targetsBounding env.grid (tocc env s4.occ) = [[2]] ∧ targetsExcluded env.grid (tocc env s4.occ) = [[1]] ∧
    targetsSurplus (tocc env s4.occ) = [] ∧ partners env s4 0 = [[1], [2]] ∧
    targetsBounding env.grid (tocc env s6.occ) = [[2]] ∧ targetsExcluded env.grid (tocc env s6.occ) = [] ∧
    targetsSurplus (tocc env s6.occ) = [[0]] ∧ partners env s6 1 = [[0], [2]] ∧
    targetsVeto env.grid (tocc env s6.occ) = [[2]] := by decide +kernel

/-- item 2 on the run, leg 6 (index 5): what the three taggers returned covers the partners of unit 1 exactly once -/
example : ∃ (o : Oracle XTime) (s1 : Sys), os6[5]? = some o ∧
    (∀ T, o.yields T = yieldCls env (cfg.tagger T).cls ⟨s1.usPrev, s1.occ⟩) ∧
    ∀ a, s1.occ.activeId = some a →
      (targetsOf (o.yields 0) ++ targetsOf (o.yields 1) ++ targetsOf (o.yields 3)).Perm (partners env s1 a) :=
  yields_partition_cell_bounded rfl inGrid reach6 tieFreeAll6 (k := 5) (cm := c6) (by simp [cs6])

/-- the pending events in the middle of leg 6 and of leg 4: every partner is covered by exactly one of them -/
example : (targetsOf (pendingIds s6 0) ++ targetsOf (pendingIds s6 1) ++ targetsOf (pendingIds s6 3)).Perm (partners env s6 1) :=
  pending_partition_cell_bounded rfl inGrid reach6 tieFreeAll6 (by decide +kernel)
example : (targetsOf (pendingIds s4 0) ++ targetsOf (pendingIds s4 1) ++ targetsOf (pendingIds s4 3)).Perm (partners env s4 0) :=
  pending_partition_cell_bounded rfl inGrid reach4 tieFreeAll4 (by decide +kernel)
example : pendingIds s6 0 = [some [[1], [2]]] ∧ pendingIds s6 1 = [] ∧ pendingIds s6 3 = [some [[1], [0]]] ∧
    pendingIds s4 0 = [some [[0], [2]]] ∧ pendingIds s4 1 = [some [[0], [1]]] ∧ pendingIds s4 3 = [] := by decide +kernel
example : (∀ u, u < s6.usPrev.length → env.relevant u = true → u ≠ 1 →
      (targetsOf (pendingIds s6 0)).count (wrap u) + (targetsOf (pendingIds s6 1)).count (wrap u) +
        (targetsOf (pendingIds s6 3)).count (wrap u) = 1) ∧
    (targetsOf (pendingIds s6 0)).count (wrap 1) + (targetsOf (pendingIds s6 1)).count (wrap 1) +
        (targetsOf (pendingIds s6 3)).count (wrap 1) = 0 :=
  pending_exactly_one_closed hyp inGrid reach6 tieFreeAll6 rfl (by decide +kernel) cellWired_cell_bounded.1
    cellWired_cell_bounded.2.1 cellWired_cell_bounded.2.2

/-- the headline statement applies to the run (no abstract geometry: `GridBox`, `axisGeoPos`) -/
example : movers s6.usPrev = [1] ∧ (tocc env s6.occ).active = some ([1], [1]) := by
  have h := c10_closed_of_gridBox gbox hn2 hyp (needs := needs) reach6 tieFreeAll6 rfl (a := 1) (by decide +kernel)
  refine ⟨h.1, ?_⟩
  rw [h.2.2.1]
  decide +kernel

/-- **`CellOfInGrid` is needed** (as `InGrid` in C10C11): with the same run data but a cell system of TWO cells in `env.grid`
(`cellOf` still the seven-cell index), unit 2 sits in "cell 4" of a two-cell grid — the taggers never see it, the partition fails -/
example : ¬ CellOfInGrid { env with grid := ⟨[2], 0⟩ } := by
  intro h
  have := h [9/14] (by norm_num [InBox, env, C11.Grid.L, g7])
  revert this
  show ¬ ((g7.idx (9/14)).toNat < numCells ⟨[2], 0⟩)
  have : g7.idx (9/14) = 4 := by
    refine C11.Grid.idx_eq g7 (i := 4) (by decide) ?_ ?_ <;> norm_num [C11.Grid.cmin, g7]
  rw [this]; decide

end Example

end JF.C10Closed
