/-
Footprints3 — the hypothesis `FootprintsSound` of C09's freshness theorem and of C08's clause-(h) link, discharged for the concrete
world of COMPOSITE OBJECTS WITH CELL-OCCUPANCY SYSTEMS: `dipoles/cell_bounded.ini`, `dipoles/cell_veto.ini`,
`water/coulomb_cell_veto_lj_cell_veto.ini` (TWO occupancies: oxygens on the leaf level, molecules on the root level),
`water/coulomb_cell_veto_lj_inverted.ini`, `water/coulomb_power_bounded_lj_cell_bounded.ini`,
`hard_disk_dipoles/hard_disk_dipoles_cells.ini` — and, since the world has any number (also zero) of internal states, every
configuration of E10's world again.

Model: `JF/Model/ConcreteWorld3.lean` (namespace `JF.CW3`): E10's world (`Composite.step`, `yieldF`) × one `Occ.State` (C11) per
internal state at its `cell_level`, updated after every commit as `TagActivator._get_event_handlers_to_run_update` does, read by the cell
taggers of C10 (`CellTaggers`).  Lemmas: `JF/Lemmas/ConcreteWorld3.lean`.

* `footprintsSound_concrete3` — `FootprintsSound mw.w (world3 env mw) (Tr3 env mw)` for every wiring with `Supported3 mw`;
* by aspect: `ident_quiet3` (`affects · .ident = false`: every velocity stays, hence the active unit on every cell level),
  `cell_quiet3` (`affects · (.cell l) = false` + the premise: occupancy `l` is untouched), `veto_quiet3` (cell-veto / cell-boundary
  taggers see only the active identifier);
* `tr3_invariant` — `Inv3` (E10's `Inv` + consistency of every carried occupancy) is preserved by every transition;
* `fresh_concrete3`, `clause_h_concrete3`, `mode_concrete3` — C09's freshness / C08's clause (h) / E13's mode discipline at this world
  without the `FootprintsSound` hypothesis; instantiated for the six shipped wirings with cells;
* `Example` — a run of `dipoles/cell_bounded.ini` with two dipoles (non-vacuity), and
  `Example.other_cell_boundary_needs_premise`: FINDING about the table — `affects (cellBoundary of system l') (.cell l) = false` for
  `l ≠ l'` holds only under the C11 history premise `StaysInRecordedCell` of system `l` (as E8 found for sampling commits).
What remains hypothesis: the premise `StaysInRecordedCell` inside `Tr3` (for sampling / dumping / end-of-run commits and for
cell-boundary commits of ANOTHER internal state; measured per commit by `harness/fpcorr3.py`), E10's mode premise (`modeStep`; all six
shipped cell wirings run in leaf mode only), weak admissibility `AdmW`, exact arithmetic, the modelling assumptions of the world.
-/
import JF.Lemmas.ConcreteWorld3
import JF.Props.C09
import JF.Props.C08
import JF.Props.ModeDiscipline
import JF.Gen.Wirings
import JF.Gen.WiringsSound
import JF.Gen.ModeWirings
namespace JF.Footprints3
open JF JF.Act JF.CW3 JF.Composite JF.C12

/-! ## by aspect -/

/-- `.ident` / `.motion`, effect side: the commit of a tagger whose table entry `affects · .ident` is `false` (sampling, dumping, end of
run, cell boundary) leaves which units carry a velocity as it is … -/
theorem ident_quiet3 {env : Env ℚ} {mw : ModeWiring} (hs : Supported3 mw = true) {E : TaggerIdx} {s s' : St3}
    (ha : affects (mw.w.tagger E) .ident = false) (h : TrRaw3 env mw E s s') : CW2.flags s'.cs = CW2.flags s.cs :=
  CW2.flags_eq_of_vels (vels_quiet3 hs ha h.1)

/-- … and a cell-veto / cell-boundary tagger of ANY internal state yields the same `(active_identifier,)` afterwards -/
theorem veto_quiet3 {env : Env ℚ} {mw : ModeWiring} (hs : Supported3 mw = true) {E : TaggerIdx} {s s' : St3} (hi : Inv3 env mw s)
    (ha : affects (mw.w.tagger E) .ident = false) (h : TrRaw3 env mw E s s') {l : Nat} (hl : l < mw.w.labels.length) :
    CellTaggers.cellVetoTagger (tocc env.base.nPer (env.oe l) (getOcc s'.occs l)) =
      CellTaggers.cellVetoTagger (tocc env.base.nPer (env.oe l) (getOcc s.occs l)) :=
  veto_same (hi.2 l hl) (h.2.1 l hl) (by rw [ident_quiet3 hs ha h])

/-- `.cell l`, effect side: a commit whose table entries `affects · .ident` and `affects · (.cell l)` are `false` leaves the WHOLE
occupancy `l` (cell lists, surplus, active identifier, active cell) as it is — by the premise carried in `Tr3` -/
theorem cell_quiet3 {env : Env ℚ} {mw : ModeWiring} (hs : Supported3 mw = true) {E : TaggerIdx} {s s' : St3} (hi : Inv3 env mw s)
    (ha : affects (mw.w.tagger E) .ident = false) (h : TrRaw3 env mw E s s') {l : Nat} (hl : l < mw.w.labels.length)
    (hc : affects (mw.w.tagger E) (.cell l) = false) : getOcc s'.occs l = getOcc s.occs l :=
  occ_quiet (hi.2 l hl) (h.2.1 l hl) (by rw [ident_quiet3 hs ha h]) (h.2.2 l hl hc)

/-- the invariant is preserved by every transition -/
theorem tr3_invariant {env : Env ℚ} (hL : BoxOK env.base.d env.base.L) {mw : ModeWiring} {E : TaggerIdx} {s s' : St3}
    (hi : Inv3 env mw s) (h : TrRaw3 env mw E s s') : Inv3 env mw s' := trRaw3_inv hL hi h

/-! ## the theorem -/

/-- **the footprint tables are sound for the world of composite objects with cell-occupancy systems**: for every wiring of this world
(`Supported3`), if the effect footprint `affects (tagger E)` and the dependency footprint `reads (tagger T)` are disjoint, a commit by a
handler of `E` (`Tr3`: E10's `Composite.step` transition, then the activator's update of every internal state) does not change what
`T` yields, as far as C09's comparison for `T` sees it.  The states are those satisfying `Inv3` (preserved by every transition:
`tr3_invariant`; established by the start-of-run event from rest with freshly initialised occupancies: `inv3_start`,
`consistent_init`); a commit carries the C11 history premise `StaysInRecordedCell` for every internal state whose active cell the
table declares untouched (see `Example.other_cell_boundary_needs_premise`). -/
theorem footprintsSound_concrete3 (env : Env ℚ) (hL : BoxOK env.base.d env.base.L) (mw : ModeWiring) (hs : Supported3 mw = true) :
    FootprintsSound mw.w (world3 env mw) (Tr3 env mw) := by
  constructor
  rintro E T ⟨s, hi⟩ ⟨s', _⟩ htr hd
  show ((yieldCls3 env T (mw.w.tagger T).cls (mw.w.tagger T).label s'.cs s'.occs).map (CW2.viewOf (mw.w.tagger T))).Perm
    ((yieldCls3 env T (mw.w.tagger T).cls (mw.w.tagger T).label s.cs s.occs).map (CW2.viewOf (mw.w.tagger T)))
  replace htr : TrRaw3 env mw E s s' := htr
  have hid := JF.CW.disjoint_ident hd
  -- a tagger that reads `.ident` is only disjoint from commits that keep every velocity
  have identFalse : reads (mw.w.tagger T) .ident = true → affects (mw.w.tagger E) .ident = false := by
    intro hr
    cases h : affects (mw.w.tagger E) .ident
    · rfl
    · rw [hid h] at hr; cases hr
  by_cases hcell : isCellCls (mw.w.tagger T).cls = true
  · -- the five cell taggers, on the internal state they name
    obtain ⟨l, hlab, hl⟩ := supported3_label hs hcell
    have hr : reads (mw.w.tagger T) .ident = true := by
      revert hcell; unfold reads isCellCls; cases (mw.w.tagger T).cls <;> simp
    have ha := identFalse hr
    unfold yieldCls3
    simp only [hcell, if_true, hlab]
    by_cases hrd : cellReading (mw.w.tagger T).cls = true
    · -- excluded / cell-bounding / surplus: they read `.cell l`
      have hc : affects (mw.w.tagger E) (.cell l) = false := by
        cases h : affects (mw.w.tagger E) (.cell l)
        · rfl
        · have := disjoint_cell hl hd h
          revert hrd this; unfold reads cellReading; cases (mw.w.tagger T).cls <;> simp [hlab]
      rw [cell_quiet3 hs hi ha htr hl hc]
    · have hv := veto_quiet3 hs hi ha htr hl
      revert hcell hrd
      cases (mw.w.tagger T).cls <;> simp [isCellCls, cellReading, yieldCell, hv]
  · -- the four classes without internal state: E10's argument
    have hcell' : isCellCls (mw.w.tagger T).cls = false := by simpa using hcell
    unfold yieldCls3
    simp only [hcell', Bool.false_eq_true, if_false]
    have quiet : reads (mw.w.tagger T) .ident = true →
        CW2.yieldCls env.base T (mw.w.tagger T).cls s'.cs = CW2.yieldCls env.base T (mw.w.tagger T).cls s.cs :=
      fun hr => CW2.yieldCls_congr env.base T _ (ident_quiet3 hs (identFalse hr) htr)
    cases hcls : (mw.w.tagger T).cls with
    | noInState => exact List.Perm.refl _
    | activeGlobalState =>
      by_cases hv : idsView (mw.w.tagger T) = true
      · rw [← hcls, quiet (by simp [reads, hcls, hv])]
      · simp [CW2.yieldCls, CW2.yieldF, CW2.viewOf, hv]
    | activeRootUnit =>
      by_cases hv : idsView (mw.w.tagger T) = true
      · rw [← hcls, quiet (by simp [reads, hcls, hv])]
      · have hv' : idsView (mw.w.tagger T) = false := by simpa using hv
        rw [CW2.viewOf_count hv', CW2.viewOf_count hv']
        have : ∀ cs : List (CObj ℚ), (CW2.yieldCls env.base T .activeRootUnit cs).length
            = (CW2.branches env.base.nPer (CW2.flags cs)).length := by
          intro cs; simp [CW2.yieldCls, CW2.yieldF]
        rw [this, this]
        simp only [CW2.branches, List.length_map]
        have hcnt := CW2.count_step hL hi.1 htr.1
        simp only [St3.st] at hcnt
        rw [hcnt]
    | factorTypeMap => rw [← hcls, quiet (by simp [reads, hcls])]
    | unknown => exact List.Perm.refl _
    | cellBoundary | cellBounding | cellVeto | excludedCells | surplusCells => rw [hcls] at hcell'; cases hcell'

/-! ## the corollaries: C09, the C08 link and E13's mode discipline at this world, WITHOUT the `FootprintsSound` hypothesis -/

/-- **C09 for every run of a sound, supported configuration in the world of composite objects with cells**: after every commit, for
every tagger except the start-of-run tagger, the pending events are what the tagger generates from scratch for the current global
state and the current occupancies (identifier tuples for interaction-type taggers, their number for the others) -/
theorem fresh_concrete3 (env : Env ℚ) (hL : BoxOK env.base.d env.base.L) (mw : ModeWiring) (S : TaggerIdx)
    (sound : WiringSound mw.w = true) (hS : mw.w.start? = some S) (hs : Supported3 mw = true) {rs : RS (G3 env mw)}
    (h : Run mw.w (world3 env mw) (Tr3 env mw) S rs) : ∀ T, (world3 env mw).live T → Fresh (world3 env mw) rs T :=
  JF.C09.fresh_of_wiringSound mw.w (world3 env mw) (Tr3 env mw) S sound hS (footprintsSound_concrete3 env hL mw hs) (liveIs3 env mw) h

/-- **clause (h) of C08 at every step of every run in this world** -/
theorem clause_h_concrete3 (env : Env ℚ) (hL : BoxOK env.base.d env.base.L) (mw : ModeWiring) (S : TaggerIdx)
    (sound : WiringSound mw.w = true) (hS : mw.w.start? = some S) (hs : Supported3 mw = true) {rs : RS (G3 env mw)}
    (hrun : Run mw.w (world3 env mw) (Tr3 env mw) S rs) {E : TaggerIdx} (hE : (getT rs.act E).running ≠ [])
    (hend : (mw.w.tagger E).kind ≠ .endOfRun) (hm : affects (mw.w.tagger E) .motion = true) {T : TaggerIdx} (hT : T < mw.w.n)
    (hb : motionBound (mw.w.tagger T) = true) : T ∈ (getW mw.w.wires E).trashes ∨ (getT rs.act T).running = [] :=
  JF.C08.clause_h_of_wiringSound mw.w (world3 env mw) (Tr3 env mw) S sound hS (footprintsSound_concrete3 env hL mw hs)
    (liveIs3 env mw) hrun hE hend hm hT hb

/-- **E13's mode discipline at this world** without the `FootprintsSound` hypothesis -/
theorem mode_concrete3 (env : Env ℚ) (hL : BoxOK env.base.d env.base.L) (mw : ModeWiring) (S : TaggerIdx) (hms : ModeSound mw = true)
    (sound : WiringSound mw.w = true) (hS : mw.w.start? = some S) (hs : Supported3 mw = true)
    {h : List (TaggerIdx × EvKind)} {cm : TaggerIdx → WMode} {rs : RS (G3 env mw)}
    (r : RunK mw (world3 env mw) (Tr3 env mw) S h cm rs) : ModeInv mw h cm rs :=
  modeStep_of_modeSound mw (world3 env mw) (Tr3 env mw) S hms sound hS (footprintsSound_concrete3 env hL mw hs) (liveIs3 env mw) r

/-! ## the shipped configurations of composite objects with cells live in this world -/

open JF.Act.Gen

theorem supported3_dipoles_cell_bounded : Supported3 mcfg_dipoles_cell_bounded = true := by decide
theorem supported3_dipoles_cell_veto : Supported3 mcfg_dipoles_cell_veto = true := by decide
theorem supported3_water_cell_veto_lj_cell_veto : Supported3 mcfg_water_coulomb_cell_veto_lj_cell_veto = true := by decide
theorem supported3_water_cell_veto_lj_inverted : Supported3 mcfg_water_coulomb_cell_veto_lj_inverted = true := by decide
theorem supported3_water_power_bounded_lj_cell_bounded : Supported3 mcfg_water_coulomb_power_bounded_lj_cell_bounded = true := by decide
theorem supported3_hard_disk_dipoles_cells : Supported3 mcfg_hard_disk_dipoles_hard_disk_dipoles_cells = true := by decide

/-- every shipped wiring passes the side condition (it is a condition on the WIRING only; the world models the configurations with two
node levels — the four coulomb_atoms wirings are one-level systems and live in the world of `JF/Props/Footprints.lean`).  The side
condition is not trivially true: a wiring whose cell tagger names no internal state fails it (`unsupported_example`). -/
theorem shipped_in_world : (allModeCfgs.filter Supported3).length = allModeCfgs.length := by decide

/-- a cell tagger without internal-state label is outside the world -/
theorem unsupported_example : Supported3 ⟨⟨"x", ["occ"], [⟨"t", .cellVeto, "", .cellVeto, [0], [0], [], [], 1, none⟩]⟩, [.leafUnit]⟩ = false := by
  decide

end JF.Footprints3
