/-
Footprints3 — the hypothesis `FootprintsSound` of C09's freshness theorem and of C08's clause-(h) link, discharged for the concrete
world of COMPOSITE OBJECTS WITH CELL-OCCUPANCY SYSTEMS: `dipoles/cell_bounded.ini`, `dipoles/cell_veto.ini`,
`water/coulomb_cell_veto_lj_cell_veto.ini` (TWO occupancies: oxygens on the leaf level, molecules on the root level),
`water/coulomb_cell_veto_lj_inverted.ini`, `water/coulomb_power_bounded_lj_cell_bounded.ini`,
`hard_disk_dipoles/hard_disk_dipoles_cells.ini` — and, since the world has any number (also zero) of internal states, every
configuration of E10's world again.

Model: `JF/Model/ConcreteWorld3.lean` (namespace `JF.CW3`): E10's world (`Composite.step`, `yieldF`) × one `Occ.State` (C11) per
internal state at its `cell_level`, updated after every commit as `TagActivator._get_event_handlers_to_run_update` does, read by the cell
taggers of C10 (`CellTaggers`).  Lemmas: `JF/Lemmas/ConcreteWorld3.lean`.

* `footprintsSound_concrete3` — `FootprintsSound mw.w (world3 env mw) (Tr3 env mw)` for every wiring with `Supported3 mw`;
* by aspect: `ident_quiet3` (`affects · .ident = false`: every velocity stays, hence the active unit on every cell level),
  `cell_quiet3` (`affects · (.cell l) = false` + the premise: occupancy `l` is untouched), `veto_quiet3` (cell-veto / cell-boundary
  taggers see only the active identifier);
* `tr3_invariant` — `Inv3` (E10's `Inv` + consistency of every carried occupancy) is preserved by every transition;
* `fresh_concrete3`, `clause_h_concrete3`, `mode_concrete3` — C09's freshness / C08's clause (h) / E13's mode discipline at this world
  without the `FootprintsSound` hypothesis; instantiated for the six shipped wirings with cells;
* `Example` — a run of `dipoles/cell_bounded.ini` with two dipoles (non-vacuity), and
  `Example.other_cell_boundary_needs_premise`: FINDING about the table — `affects (cellBoundary of system l') (.cell l) = false` for
  `l ≠ l'` holds only under the C11 history premise `StaysInRecordedCell` of system `l` (as E8 found for sampling commits).
What remains hypothesis: the premise `StaysInRecordedCell` inside `Tr3` (for sampling / dumping / end-of-run commits and for
cell-boundary commits of ANOTHER internal state; measured per commit by `harness/fpcorr3.py`), E10's mode premise (`modeStep`; all six
shipped cell wirings run in leaf mode only), weak admissibility `AdmW`, exact arithmetic, the modelling assumptions of the world.
-/
import JF.Lemmas.ConcreteWorld3
import JF.Props.C09
import JF.Props.C08
import JF.Props.ModeDiscipline
import JF.Gen.Wirings
import JF.Gen.WiringsSound
import JF.Gen.ModeWirings
import JF.Props.Footprints2
namespace JF.Footprints3
open JF JF.Act JF.CW3 JF.Composite JF.C12

/-! ## by aspect -/

/-- `.ident` / `.motion`, effect side: the commit of a tagger whose table entry `affects · .ident` is `false` (sampling, dumping, end of
run, cell boundary) leaves which units carry a velocity as it is … -/
theorem ident_quiet3 {env : Env ℚ} {mw : ModeWiring} (hs : Supported3 mw = true) {E : TaggerIdx} {s s' : St3}
    (ha : affects (mw.w.tagger E) .ident = false) (h : TrRaw3 env mw E s s') : CW2.flags s'.cs = CW2.flags s.cs :=
  CW2.flags_eq_of_vels (vels_quiet3 hs ha h.1)

/-- … and a cell-veto / cell-boundary tagger of ANY internal state yields the same `(active_identifier,)` afterwards -/
theorem veto_quiet3 {env : Env ℚ} {mw : ModeWiring} (hs : Supported3 mw = true) {E : TaggerIdx} {s s' : St3} (hi : Inv3 env mw s)
    (ha : affects (mw.w.tagger E) .ident = false) (h : TrRaw3 env mw E s s') {l : Nat} (hl : l < mw.w.labels.length) :
    CellTaggers.cellVetoTagger (tocc env.base.nPer (env.oe l) (getOcc s'.occs l)) =
      CellTaggers.cellVetoTagger (tocc env.base.nPer (env.oe l) (getOcc s.occs l)) :=
  veto_same (hi.2 l hl) (h.2.1 l hl) (by rw [ident_quiet3 hs ha h])

/-- `.cell l`, effect side: a commit whose table entries `affects · .ident` and `affects · (.cell l)` are `false` leaves the WHOLE
occupancy `l` (cell lists, surplus, active identifier, active cell) as it is — by the premise carried in `Tr3` -/
theorem cell_quiet3 {env : Env ℚ} {mw : ModeWiring} (hs : Supported3 mw = true) {E : TaggerIdx} {s s' : St3} (hi : Inv3 env mw s)
    (ha : affects (mw.w.tagger E) .ident = false) (h : TrRaw3 env mw E s s') {l : Nat} (hl : l < mw.w.labels.length)
    (hc : affects (mw.w.tagger E) (.cell l) = false) : getOcc s'.occs l = getOcc s.occs l :=
  occ_quiet (hi.2 l hl) (h.2.1 l hl) (by rw [ident_quiet3 hs ha h]) (h.2.2 l hl hc)

/-- the invariant is preserved by every transition -/
theorem tr3_invariant {env : Env ℚ} (hL : BoxOK env.base.d env.base.L) {mw : ModeWiring} {E : TaggerIdx} {s s' : St3}
    (hi : Inv3 env mw s) (h : TrRaw3 env mw E s s') : Inv3 env mw s' := trRaw3_inv hL hi h

/-! ## the theorem -/

/-- **the footprint tables are sound for the world of composite objects with cell-occupancy systems**: for every wiring of this world
(`Supported3`), if the effect footprint `affects (tagger E)` and the dependency footprint `reads (tagger T)` are disjoint, a commit by a
handler of `E` (`Tr3`: E10's `Composite.step` transition, then the activator's update of every internal state) does not change what
`T` yields, as far as C09's comparison for `T` sees it.  The states are those satisfying `Inv3` (preserved by every transition:
`tr3_invariant`; established by the start-of-run event from rest with freshly initialised occupancies: `inv3_start`,
`consistent_init`); a commit carries the C11 history premise `StaysInRecordedCell` for every internal state whose active cell the
table declares untouched (see `Example.other_cell_boundary_needs_premise`). -/
theorem footprintsSound_concrete3 (env : Env ℚ) (hL : BoxOK env.base.d env.base.L) (mw : ModeWiring) (hs : Supported3 mw = true) :
    FootprintsSound mw.w (world3 env mw) (Tr3 env mw) := by
  constructor
  rintro E T ⟨s, hi⟩ ⟨s', _⟩ htr hd
  show ((yieldCls3 env T (mw.w.tagger T).cls (mw.w.tagger T).label s'.cs s'.occs).map (CW2.viewOf (mw.w.tagger T))).Perm
    ((yieldCls3 env T (mw.w.tagger T).cls (mw.w.tagger T).label s.cs s.occs).map (CW2.viewOf (mw.w.tagger T)))
  replace htr : TrRaw3 env mw E s s' := htr
  have hid := JF.CW.disjoint_ident hd
  -- a tagger that reads `.ident` is only disjoint from commits that keep every velocity
  have identFalse : reads (mw.w.tagger T) .ident = true → affects (mw.w.tagger E) .ident = false := by
    intro hr
    cases h : affects (mw.w.tagger E) .ident
    · rfl
    · rw [hid h] at hr; cases hr
  by_cases hcell : isCellCls (mw.w.tagger T).cls = true
  · -- the five cell taggers, on the internal state they name
    obtain ⟨l, hlab, hl⟩ := supported3_label hs hcell
    have hr : reads (mw.w.tagger T) .ident = true := by
      revert hcell; unfold reads isCellCls; cases (mw.w.tagger T).cls <;> simp
    have ha := identFalse hr
    unfold yieldCls3
    simp only [hcell, if_true, hlab]
    by_cases hrd : cellReading (mw.w.tagger T).cls = true
    · -- excluded / cell-bounding / surplus: they read `.cell l`
      have hc : affects (mw.w.tagger E) (.cell l) = false := by
        cases h : affects (mw.w.tagger E) (.cell l)
        · rfl
        · have := disjoint_cell hl hd h
          revert hrd this; unfold reads cellReading; cases (mw.w.tagger T).cls <;> simp [hlab]
      rw [cell_quiet3 hs hi ha htr hl hc]
    · have hv := veto_quiet3 hs hi ha htr hl
      revert hcell hrd
      cases (mw.w.tagger T).cls <;> simp [isCellCls, cellReading, yieldCell, hv]
  · -- the four classes without internal state: E10's argument
    have hcell' : isCellCls (mw.w.tagger T).cls = false := by simpa using hcell
    unfold yieldCls3
    simp only [hcell', Bool.false_eq_true, if_false]
    have quiet : reads (mw.w.tagger T) .ident = true →
        CW2.yieldCls env.base T (mw.w.tagger T).cls s'.cs = CW2.yieldCls env.base T (mw.w.tagger T).cls s.cs :=
      fun hr => CW2.yieldCls_congr env.base T _ (ident_quiet3 hs (identFalse hr) htr)
    cases hcls : (mw.w.tagger T).cls with
    | noInState => exact List.Perm.refl _
    | activeGlobalState =>
      by_cases hv : idsView (mw.w.tagger T) = true
      · rw [← hcls, quiet (by simp [reads, hcls, hv])]
      · simp [CW2.yieldCls, CW2.yieldF, CW2.viewOf, hv]
    | activeRootUnit =>
      by_cases hv : idsView (mw.w.tagger T) = true
      · rw [← hcls, quiet (by simp [reads, hcls, hv])]
      · have hv' : idsView (mw.w.tagger T) = false := by simpa using hv
        rw [CW2.viewOf_count hv', CW2.viewOf_count hv']
        have : ∀ cs : List (CObj ℚ), (CW2.yieldCls env.base T .activeRootUnit cs).length
            = (CW2.branches env.base.nPer (CW2.flags cs)).length := by
          intro cs; simp [CW2.yieldCls, CW2.yieldF]
        rw [this, this]
        simp only [CW2.branches, List.length_map]
        have hcnt := CW2.count_step hL hi.1 htr.1
        simp only [St3.st] at hcnt
        rw [hcnt]
    | factorTypeMap => rw [← hcls, quiet (by simp [reads, hcls])]
    | unknown => exact List.Perm.refl _
    | cellBoundary | cellBounding | cellVeto | excludedCells | surplusCells => rw [hcls] at hcell'; cases hcell'

/-! ## the corollaries: C09, the C08 link and E13's mode discipline at this world, WITHOUT the `FootprintsSound` hypothesis -/

/-- **C09 for every run of a sound, supported configuration in the world of composite objects with cells**: after every commit, for
every tagger except the start-of-run tagger, the pending events are what the tagger generates from scratch for the current global
state and the current occupancies (identifier tuples for interaction-type taggers, their number for the others) -/
theorem fresh_concrete3 (env : Env ℚ) (hL : BoxOK env.base.d env.base.L) (mw : ModeWiring) (S : TaggerIdx)
    (sound : WiringSound mw.w = true) (hS : mw.w.start? = some S) (hs : Supported3 mw = true) {rs : RS (G3 env mw)}
    (h : Run mw.w (world3 env mw) (Tr3 env mw) S rs) : ∀ T, (world3 env mw).live T → Fresh (world3 env mw) rs T :=
  JF.C09.fresh_of_wiringSound mw.w (world3 env mw) (Tr3 env mw) S sound hS (footprintsSound_concrete3 env hL mw hs) (liveIs3 env mw) h

/-- **clause (h) of C08 at every step of every run in this world** -/
theorem clause_h_concrete3 (env : Env ℚ) (hL : BoxOK env.base.d env.base.L) (mw : ModeWiring) (S : TaggerIdx)
    (sound : WiringSound mw.w = true) (hS : mw.w.start? = some S) (hs : Supported3 mw = true) {rs : RS (G3 env mw)}
    (hrun : Run mw.w (world3 env mw) (Tr3 env mw) S rs) {E : TaggerIdx} (hE : (getT rs.act E).running ≠ [])
    (hend : (mw.w.tagger E).kind ≠ .endOfRun) (hm : affects (mw.w.tagger E) .motion = true) {T : TaggerIdx} (hT : T < mw.w.n)
    (hb : motionBound (mw.w.tagger T) = true) : T ∈ (getW mw.w.wires E).trashes ∨ (getT rs.act T).running = [] :=
  JF.C08.clause_h_of_wiringSound mw.w (world3 env mw) (Tr3 env mw) S sound hS (footprintsSound_concrete3 env hL mw hs)
    (liveIs3 env mw) hrun hE hend hm hT hb

/-- **E13's mode discipline at this world** without the `FootprintsSound` hypothesis -/
theorem mode_concrete3 (env : Env ℚ) (hL : BoxOK env.base.d env.base.L) (mw : ModeWiring) (S : TaggerIdx) (hms : ModeSound mw = true)
    (sound : WiringSound mw.w = true) (hS : mw.w.start? = some S) (hs : Supported3 mw = true)
    {h : List (TaggerIdx × EvKind)} {cm : TaggerIdx → WMode} {rs : RS (G3 env mw)}
    (r : RunK mw (world3 env mw) (Tr3 env mw) S h cm rs) : ModeInv mw h cm rs :=
  modeStep_of_modeSound mw (world3 env mw) (Tr3 env mw) S hms sound hS (footprintsSound_concrete3 env hL mw hs) (liveIs3 env mw) r

/-! ## the shipped configurations of composite objects with cells live in this world -/

open JF.Act.Gen

theorem supported3_dipoles_cell_bounded : Supported3 mcfg_dipoles_cell_bounded = true := by decide
theorem supported3_dipoles_cell_veto : Supported3 mcfg_dipoles_cell_veto = true := by decide
theorem supported3_water_cell_veto_lj_cell_veto : Supported3 mcfg_water_coulomb_cell_veto_lj_cell_veto = true := by decide
theorem supported3_water_cell_veto_lj_inverted : Supported3 mcfg_water_coulomb_cell_veto_lj_inverted = true := by decide
theorem supported3_water_power_bounded_lj_cell_bounded : Supported3 mcfg_water_coulomb_power_bounded_lj_cell_bounded = true := by decide
theorem supported3_hard_disk_dipoles_cells : Supported3 mcfg_hard_disk_dipoles_hard_disk_dipoles_cells = true := by decide

/-- every shipped wiring passes the side condition (it is a condition on the WIRING only; the world models the configurations with two
node levels — the four coulomb_atoms wirings are one-level systems and live in the world of `JF/Props/Footprints.lean`).  The side
condition is not trivially true: a wiring whose cell tagger names no internal state fails it (`unsupported_example`). -/
theorem shipped_in_world : (allModeCfgs.filter Supported3).length = allModeCfgs.length := by decide

/-- a cell tagger without internal-state label is outside the world -/
theorem unsupported_example : Supported3 ⟨⟨"x", ["occ"], [⟨"t", .cellVeto, "", .cellVeto, [0], [0], [], [], 1, none⟩]⟩, [.leafUnit]⟩ = false := by
  decide


/-! ## non-vacuity: a run of `dipoles/cell_bounded.ini` with two dipoles (exact reading)

The two dipoles of `JF/Props/C12.lean` in the unit square (`exC0`: centre (1/2, 1/2); `exC1`: centre (1/10, 1/5)), ONE occupancy on
the root level (`cell_level = 1`) over a 4 × 4 grid with one layer of nearby cells, `maximum_number_occupants = 1`.  The run: start of
run (point mass (0, 0) starts, speed 1; dipole 0 becomes the active unit of the occupancy, cell (2, 2)) — a sampling event at time
1/8 (premise: the centre of dipole 0, at x = 9/16, is still in its recorded cell) — the cell-boundary event of dipole 0 at time 1/2
(its centre reaches x = 3/4: recorded cell (3, 2)) — an accepted `harmonic` event (lifting (0, 0) → (0, 1) inside the molecule: same
active unit on the cell level) — the end of chain (point mass (1, 0) moves on: dipole 0 goes back into cell (3, 2), dipole 1 is taken
out of cell (0, 0)). -/

namespace Example

abbrev mw : ModeWiring := mcfg_dipoles_cell_bounded
abbrev cfg : Wiring := cfg_dipoles_cell_bounded

/-- the occupancy's environment: root level, 4 × 4 cells, index of cell (ix, iy) in `yield_cells()` order = ix + 4 iy -/
def oe : OccEnv ℚ :=
  { level := 1, grid := ⟨[4, 4], 1⟩
    cellOf := fun p => (Ops.rat.toInt (p.getD 0 0 * 4)).toNat + 4 * (Ops.rat.toInt (p.getD 1 0 * 4)).toNat
    relevant := fun _ => true }

def env : Env ℚ :=
  { base := Footprints2.envOf exL 2 "factor_set_dipoles_dipole.txt"
      ["CoulombCellBounding", "CoulombNearby", "CoulombSurplus", "CellBoundary", "Harmonic", "Repulsive", "Sampling", "EndOfChain",
       "EndOfRun", "StartOfRun"]
    occs := [oe] }

theorem box : BoxOK env.base.d env.base.L := exBox

theorem ex_uniform : CW2.Uniform env.base.nPer [exC0, exC1] := by
  intro c hc
  simp only [List.mem_cons, List.not_mem_nil, or_false] at hc
  rcases hc with rfl | rfl <;> rfl

/-- `SingleActiveCellOccupancy.initialize`: dipole 0 in cell (2, 2) = 10, dipole 1 in cell (0, 0) = 0 -/
def occ0 : Occ.State := Occ.init 1 [⟨0, true, 10⟩, ⟨1, true, 0⟩]

theorem occsUpd {occs : List Occ.State} {cs' : List (CObj ℚ)}
    (ho : (occAfter 2 oe (getOcc occs 0) cs').isSome = true) :
    OccsUpdated env mw.w.labels.length occs [(occAfter 2 oe (getOcc occs 0) cs').get ho] cs' := by
  intro l hl
  have : l = 0 := Nat.lt_one_iff.mp hl
  subst this
  exact (Option.some_get ho).symm

/-- the state before the start-of-run event: both dipoles at rest, the occupancy freshly initialised -/
def g0 : G3 env mw := ⟨⟨[exC0, exC1], .leaf, [occ0]⟩, CW2.inv_rest ex_initial ex_uniform ex_rest .leaf, fun l hl => by
  have : l = 0 := Nat.lt_one_iff.mp hl
  subst this
  exact consistent_init _ _ _⟩

theorem start_ho : (occAfter 2 oe (getOcc g0.1.occs 0) (step Ops.rat isZ env.base.L g0.1.cs (.start 0 [0] [1, 0]))).isSome = true := by
  decide +kernel

/-- after the start-of-run event (`initial_active_identifier = 0, 0`) and the first update of the occupancy -/
def g1 : G3 env mw :=
  ⟨⟨step Ops.rat isZ env.base.L g0.1.cs (.start 0 [0] [1, 0]), .leaf, [(occAfter 2 oe (getOcc g0.1.occs 0) _).get start_ho]⟩,
    inv3_start (s := g0.1) (m := .leaf) box ex_initial ex_uniform ex_rest g0.2.2 JF.C12.ModeExample.start_admW (rfl : [0].length = 1) (occsUpd start_ho)⟩

/-- the state after a weakly admissible event whose kind is possible in the ghost mode, followed by the update of the occupancy -/
def next (g : G3 env mw) (e : Composite.Ev ℚ) (m' : Composite.Mode) (hm : modeStep g.1.mode e = some m')
    (ha : AdmW env.base.d env.base.L g.1.cs e)
    (ho : (occAfter 2 oe (getOcc g.1.occs 0) (step Ops.rat isZ env.base.L g.1.cs e)).isSome = true) : G3 env mw :=
  ⟨⟨step Ops.rat isZ env.base.L g.1.cs e, m', [(occAfter 2 oe (getOcc g.1.occs 0) _).get ho]⟩,
    CW2.inv_step box g.2.1 hm ha, consAll_after (s' := ⟨_, m', _⟩) g.2.2 (occsUpd ho)⟩

theorem tr_next (E : TaggerIdx) (g : G3 env mw) (e : Composite.Ev ℚ) (m' : Composite.Mode) (hm : modeStep g.1.mode e = some m')
    (ha : AdmW env.base.d env.base.L g.1.cs e) (ho) (cm : WMode) (hk : CW2.evKind e ∈ kindsOf (mw.hmode E) cm)
    (hp : affects (mw.w.tagger E) (.cell 0) = false →
      StaysInRecordedCell 2 oe (getOcc g.1.occs 0) (step Ops.rat isZ env.base.L g.1.cs e)) :
    Tr3 env mw E g (next g e m' hm ha ho) := by
  refine ⟨⟨e, cm, hk, hm, ha, rfl⟩, occsUpd ho, fun l hl h => ?_⟩
  have : l = 0 := Nat.lt_one_iff.mp hl
  subst this
  exact hp h

def e2 : Composite.Ev ℚ := .keep ⟨0, 1/8⟩ [0]
def e3 : Composite.Ev ℚ := .snap ⟨0, 1/2⟩ [0] 0 none 0 (3/4)
def e4 : Composite.Ev ℚ := .exchange ⟨0, 5/8⟩ [0] 0 0 0 1
def e5 : Composite.Ev ℚ := .eocLeaf ⟨0, 3/4⟩ 0 1 1 0 [0, 1]

def g2 : G3 env mw := next g1 e2 .leaf rfl trivial (by decide +kernel)

theorem adm3 : AdmW env.base.d env.base.L g2.1.cs e3 := by
  intro c hc
  have h : (sliceAt Ops.rat env.base.L ⟨0, 1/2⟩ [0] g2.1.cs)[0]? = some
      ⟨⟨[3/4, 1/2], some [1/2, 0], some ⟨0, 1/2⟩⟩, [⟨[1/4, 1/2], some [1, 0], some ⟨0, 1/2⟩⟩, ⟨[1/4, 1/2], none, none⟩]⟩ := by
    decide +kernel
  rw [h] at hc
  cases hc
  rfl

def g3 : G3 env mw := next g2 e3 .leaf rfl adm3 (by decide +kernel)

theorem adm4 : AdmW env.base.d env.base.L g3.1.cs e4 :=
  ⟨by simp, fun _ => by decide, ⟨[3/8, 1/2], some [1, 0], some ⟨0, 5/8⟩⟩, ⟨[1/4, 1/2], none, none⟩, [1, 0],
    by decide +kernel, rfl, by decide +kernel⟩

def g4 : G3 env mw := next g3 e4 .leaf rfl adm4 (by decide +kernel)

theorem adm5 : AdmW env.base.d env.base.L g4.1.cs e5 :=
  ⟨⟨⟨[13/16, 1/2], some [1/2, 0], some ⟨0, 5/8⟩⟩, [⟨[3/8, 1/2], none, none⟩, ⟨[1/4, 1/2], some [1, 0], some ⟨0, 5/8⟩⟩]⟩,
    ⟨⟨[1/10, 1/5], none, none⟩, [⟨[3/10, 1/5], none, none⟩, ⟨[9/10, 1/5], none, none⟩]⟩,
    ⟨[3/8, 1/2], some [1, 0], some ⟨0, 3/4⟩⟩, ⟨[3/10, 1/5], none, none⟩, [1, 0],
    by decide +kernel, by decide +kernel, rfl, by decide +kernel, by decide +kernel, ⟨1, by simp⟩, rfl, by norm_num [nsq]⟩

def g5 : G3 env mw := next g4 e5 .leaf rfl adm5 (by decide +kernel)

/-- the states are what the description says: the active unit on the cell level and its recorded cell along the run, and at the end
dipole 0 back in cell (3, 2) = 11 -/
example : [g1, g2, g3, g4, g5].map (fun g => ((getOcc g.1.occs 0).activeId, (getOcc g.1.occs 0).activeCell))
      = [(some 0, some 10), (some 0, some 10), (some 0, some 11), (some 0, some 11), (some 1, some 0)] ∧
    (getOcc g5.1.occs 0).occupants 11 = [0] ∧ (getOcc g5.1.occs 0).occupants 0 = [] ∧ (getOcc g1.1.occs 0).occupants 0 = [1] := by
  decide +kernel

/-- the sampling commit is an instance of `Tr3`, premise included: at its time the centre of dipole 0 is still in its recorded cell -/
theorem tr_sampling : Tr3 env mw 6 g1 g2 := by
  refine tr_next 6 g1 e2 .leaf rfl trivial _ .leaf (by decide) (fun _ a hm _ => ?_)
  have h0 : unitsOn 2 oe.level (CW2.flags (step Ops.rat isZ env.base.L g1.1.cs e2)) = [0] := by decide +kernel
  have : a = 0 := by
    have := h0.symm.trans hm
    simpa using this.symm
  subst this
  decide +kernel

theorem tr_cell_boundary : Tr3 env mw 3 g2 g3 :=
  tr_next 3 g2 e3 .leaf rfl adm3 _ .leaf (by decide) (fun h => absurd h (by decide))
theorem tr_harmonic : Tr3 env mw 4 g3 g4 :=
  tr_next 4 g3 e4 .leaf rfl adm4 _ .leaf (by decide) (fun h => absurd h (by decide))
theorem tr_end_of_chain : Tr3 env mw 7 g4 g5 :=
  tr_next 7 g4 e5 .leaf rfl adm5 _ .leaf (by decide) (fun h => absurd h (by decide))

abbrev W : World (G3 env mw) := world3 env mw

def s0 : Act := ((first cfg.wires (initAct cfg.wires) 9 (fun T => W.yieldOf T g0)).get (by decide +kernel)).1
def out0 : List (HandlerId × IdTuple) :=
  ((first cfg.wires (initAct cfg.wires) 9 (fun T => W.yieldOf T g0)).get (by decide +kernel)).2
def rs1 : RS (G3 env mw) := (commit cfg.wires W ⟨s0, assign (fun _ => none) out0, g0⟩ 9 g1).get (by decide +kernel)
def rs2 : RS (G3 env mw) := (commit cfg.wires W rs1 6 g2).get (by decide +kernel)      -- sampling
def rs3 : RS (G3 env mw) := (commit cfg.wires W rs2 3 g3).get (by decide +kernel)      -- cell boundary
def rs4 : RS (G3 env mw) := (commit cfg.wires W rs3 4 g4).get (by decide +kernel)      -- harmonic: lifting (0, 0) → (0, 1)
def rs5 : RS (G3 env mw) := (commit cfg.wires W rs4 7 g5).get (by decide +kernel)      -- end of chain: (1, 0) moves on

theorem commit1 : commit cfg.wires W ⟨s0, assign (fun _ => none) out0, g0⟩ 9 g1 = some rs1 := by simp [rs1]
theorem commit2 : commit cfg.wires W rs1 6 g2 = some rs2 := by simp [rs2]
theorem commit3 : commit cfg.wires W rs2 3 g3 = some rs3 := by simp [rs3]
theorem commit4 : commit cfg.wires W rs3 4 g4 = some rs4 := by simp [rs4]
theorem commit5 : commit cfg.wires W rs4 7 g5 = some rs5 := by simp [rs5]

theorem run1 : Run cfg W (Tr3 env mw) 9 rs1 :=
  .start (fun _ => none) g0 g1 s0 out0 rs1
    (Option.some_get (x := first cfg.wires (initAct cfg.wires) 9 (fun T => W.yieldOf T g0)) (by decide +kernel)).symm commit1
theorem run2 : Run cfg W (Tr3 env mw) 9 rs2 :=
  .step rs1 rs2 6 g2 run1 (by decide +kernel) (by decide) (JF.CW.commit_g commit1 ▸ tr_sampling) commit2
theorem run3 : Run cfg W (Tr3 env mw) 9 rs3 :=
  .step rs2 rs3 3 g3 run2 (by decide +kernel) (by decide) (JF.CW.commit_g commit2 ▸ tr_cell_boundary) commit3
theorem run4 : Run cfg W (Tr3 env mw) 9 rs4 :=
  .step rs3 rs4 4 g4 run3 (by decide +kernel) (by decide) (JF.CW.commit_g commit3 ▸ tr_harmonic) commit4
theorem run5 : Run cfg W (Tr3 env mw) 9 rs5 :=
  .step rs4 rs5 7 g5 run4 (by decide +kernel) (by decide) (JF.CW.commit_g commit4 ▸ tr_end_of_chain) commit5

/-- the corollary applies to this run -/
example : ∀ T, W.live T → Fresh W rs5 T :=
  fresh_concrete3 env box mw 9 cfg_sound_dipoles_cell_bounded (by decide) supported3_dipoles_cell_bounded run5

/-- … and speaks about non-empty pending lists.  Before the end of chain (`rs4`: dipole 0 active in cell (3, 2), point mass (0, 1)
moving): the cell-bounding tagger's one pending event carries (dipole 0, dipole 1) — cell (0, 0) is not nearby (3, 2) —, the
excluded-cells and surplus taggers are idle, the cell-boundary tagger carries `((0,),)`, `harmonic` the bond of dipole 0.  Afterwards
(`rs5`: dipole 1 active in cell (0, 0), dipole 0 stored in cell (3, 2), not nearby): the cell-bounding tagger carries
(dipole 1, dipole 0), the cell-boundary tagger `((1,),)`, `harmonic` the bond of dipole 1. -/
example : (getT rs4.act 0).running.map rs4.ids = [some [[0], [1]]] ∧ (getT rs4.act 1).running = [] ∧ (getT rs4.act 2).running = [] ∧
    (getT rs4.act 3).running.map rs4.ids = [some [[0]]] ∧ (getT rs4.act 4).running.map rs4.ids = [some [[0, 0], [0, 1]]] ∧
    (getT rs5.act 0).running.map rs5.ids = [some [[1], [0]]] ∧ (getT rs5.act 1).running = [] ∧
    (getT rs5.act 3).running.map rs5.ids = [some [[1]]] ∧ (getT rs5.act 4).running.map rs5.ids = [some [[1, 0], [1, 1]]] := by
  decide +kernel

/-- clause (h) instantiated at the run: before the lifting is committed (`rs3`, the committing tagger `harmonic` changes motion) the
cell-bounding tagger is in its trash list or idle -/
example : 0 ∈ (getW cfg.wires 4).trashes ∨ (getT rs3.act 0).running = [] :=
  clause_h_concrete3 env box mw 9 cfg_sound_dipoles_cell_bounded (by decide) supported3_dipoles_cell_bounded
    run3 (by decide +kernel) (by decide) (by decide) (by decide) (by decide)

end Example


/-! ## FINDING about the table: the cell-boundary event of ANOTHER internal state needs the history premise

`affects (cellBoundary handler of internal state l') (.cell l) = (l' == l)`: the table claims that a cell-boundary event of one
cell-occupancy system does not change the active cell of another one ("distinct systems track distinct tree levels").  For the concrete
world this is false without C11's history premise for system `l`, exactly as E8 found for sampling commits: the commit time-slices the
whole active branch, and the update of system `l` recomputes its active cell from the new position of ITS active unit.

The wiring of `water/coulomb_cell_veto_lj_cell_veto.ini` (taggers 2 = `oxygen_cell_boundary` on internal state 0, 7 = `coulomb_nearby`,
an `ExcludedCellsTagger` on internal state 1) over the two dipoles of the run above with a leaf-level and a root-level occupancy on 4 cells
along x: point mass (0, 0) starts at x = 3/4 with speed 1, the centre of dipole 0 (x = 1/2, cell 2, speed 1/2) is the active unit of the
root-level system; dipole 1 sits in cell 0, not nearby.  A leaf-level cell-boundary event at time 1/2 (the point mass reaches x = 1/4
across the periodic boundary) finds the centre at x = 3/4 — cell 3, whose nearby cells include cell 0: `coulomb_nearby` yields nothing
before and (dipole 0, dipole 1) afterwards, although the table declares the pair disjoint.  In a run the root-level cell-boundary event
(time 1/2 as well here; earlier in general) is pending — which is the premise. -/

namespace Finding
open Example

abbrev mw2 : ModeWiring := mcfg_water_coulomb_cell_veto_lj_cell_veto
abbrev cfg2 : Wiring := cfg_water_coulomb_cell_veto_lj_cell_veto

def cellX : List ℚ → Nat := fun p => (Ops.rat.toInt (p.getD 0 0 * 4)).toNat
def oeLeaf : OccEnv ℚ := { level := 2, grid := ⟨[4, 1], 1⟩, cellOf := cellX, relevant := fun _ => true }
def oeRoot : OccEnv ℚ := { level := 1, grid := ⟨[4, 1], 1⟩, cellOf := cellX, relevant := fun _ => true }
def env2 : Env ℚ := { base := Example.env.base, occs := [oeLeaf, oeRoot] }

/-- `initialize` of both systems: point masses (0,0) (0,1) (1,0) (1,1) ↦ 0 1 2 3 in cells 3 1 1 3; dipoles 0 1 in cells 2 0 -/
def occL0 : Occ.State := Occ.init 1 [⟨0, true, 3⟩, ⟨1, true, 1⟩, ⟨2, true, 1⟩, ⟨3, true, 3⟩]
def occR0 : Occ.State := Occ.init 1 [⟨0, true, 2⟩, ⟨1, true, 0⟩]
def r0 : St3 := ⟨[exC0, exC1], .leaf, [occL0, occR0]⟩

def nextOccs (s : St3) (cs' : List (CObj ℚ)) (h0 : (occAfter 2 oeLeaf (getOcc s.occs 0) cs').isSome = true)
    (h1 : (occAfter 2 oeRoot (getOcc s.occs 1) cs').isSome = true) : List Occ.State :=
  [(occAfter 2 oeLeaf (getOcc s.occs 0) cs').get h0, (occAfter 2 oeRoot (getOcc s.occs 1) cs').get h1]

theorem occsUpd2 (s : St3) (cs' : List (CObj ℚ)) (h0) (h1) :
    OccsUpdated env2 mw2.w.labels.length s.occs (nextOccs s cs' h0 h1) cs' := by
  intro l hl
  have hl' : l < 2 := hl
  match l, hl' with
  | 0, _ => exact (Option.some_get h0).symm
  | 1, _ => exact (Option.some_get h1).symm

def cs1 : List (CObj ℚ) := step Ops.rat isZ env2.base.L r0.cs (.start 0 [0] [1, 0])
/-- after the start-of-run event -/
def d0 : St3 := ⟨cs1, .leaf, nextOccs r0 cs1 (by decide +kernel) (by decide +kernel)⟩
def eB : Composite.Ev ℚ := .snap ⟨0, 1/2⟩ [0] 0 (some 0) 0 (1/4)
def cs2 : List (CObj ℚ) := step Ops.rat isZ env2.base.L d0.cs eB
/-- after the leaf-level cell-boundary event -/
def d1 : St3 := ⟨cs2, .leaf, nextOccs d0 cs2 (by decide +kernel) (by decide +kernel)⟩

theorem d0_inv : Inv3 env2 mw2 d0 :=
  inv3_start (env := env2) (mw := mw2) (s := r0) (m := .leaf) box ex_initial ex_uniform ex_rest
    (fun l hl => by
      have hl' : l < 2 := hl
      match l, hl' with
      | 0, _ => exact consistent_init _ _ _
      | 1, _ => exact consistent_init _ _ _)
    JF.C12.ModeExample.start_admW (rfl : [0].length = 1) (occsUpd2 r0 cs1 _ _)

theorem admB : AdmW env2.base.d env2.base.L d0.cs eB := by
  intro c hc l hl
  have h : (sliceAt Ops.rat env2.base.L ⟨0, 1/2⟩ [0] d0.cs)[0]? = some
      ⟨⟨[3/4, 1/2], some [1/2, 0], some ⟨0, 1/2⟩⟩, [⟨[1/4, 1/2], some [1, 0], some ⟨0, 1/2⟩⟩, ⟨[1/4, 1/2], none, none⟩]⟩ := by
    decide +kernel
  rw [h] at hc
  cases hc
  simp only [List.getElem?_cons_zero, Option.some.injEq] at hl
  subst hl
  rfl

/-- **finding about the table**: without `StaysInRecordedCell` the entry `affects (cellBoundary of system 0) (.cell 1) = false` is wrong
for the concrete world — a state satisfying the invariant, a leaf-level cell-boundary commit (`snap` + update of both occupancies), a
tagger pair the tables declare disjoint (`oxygen_cell_boundary` → `coulomb_nearby`), and the yield changes -/
theorem other_cell_boundary_needs_premise :
    Inv3 env2 mw2 d0 ∧ TrNoPremise3 env2 mw2 2 d0 d1 ∧
    disjointFP cfg2 (cfg2.tagger 2) (cfg2.tagger 7) = true ∧ affects (cfg2.tagger 2) (.cell 1) = false ∧
    ¬ StaysInRecordedCell 2 oeRoot (getOcc d0.occs 1) d1.cs ∧
    yieldCls3 env2 7 (cfg2.tagger 7).cls (cfg2.tagger 7).label d0.cs d0.occs = [] ∧
    yieldCls3 env2 7 (cfg2.tagger 7).cls (cfg2.tagger 7).label d1.cs d1.occs = [some [[0], [1]]] ∧
    ¬ ((yieldCls3 env2 7 (cfg2.tagger 7).cls (cfg2.tagger 7).label d1.cs d1.occs).map (CW2.viewOf (cfg2.tagger 7))).Perm
        ((yieldCls3 env2 7 (cfg2.tagger 7).cls (cfg2.tagger 7).label d0.cs d0.occs).map (CW2.viewOf (cfg2.tagger 7))) := by
  refine ⟨d0_inv, ⟨⟨eB, .leaf, by decide, rfl, admB, rfl⟩, occsUpd2 d0 cs2 _ _⟩, by decide, by decide, ?_, by decide +kernel,
    by decide +kernel, fun h => absurd h.length_eq (by decide +kernel)⟩
  intro h
  have := h 0 (by decide +kernel) rfl
  revert this
  decide +kernel

end Finding

/-! ## the Python mirrors of `Occ.update` / `yieldCell` (`harness/fpcorr3.py`) are pinned to the Lean definitions

`harness/fpcorr3.py: SELF_TEST` holds the rows of this table; the module evaluates its mirrors (`occ_update`, `yield_cell`) on them and
compares (`fp3.self-test`).  One-dimensional grid of 7 cells, one layer, `maximum_number_occupants = 1`, root level: unit 0 becomes
active in cell 0 — moves to cell 1 — lifting to unit 1 (unit 0 goes to the surplus of the full cell 1) — an irrelevant unit becomes
active. -/

namespace PyTable

def oe7 : OccEnv ℚ := { level := 1, grid := ⟨[7], 1⟩, cellOf := fun _ => 0, relevant := fun _ => true }
def upd (s : Occ.State) (u : Nat) (rel : Bool) (c : Nat) : Occ.State :=
  match Occ.update s ⟨u, rel, c⟩ with
  | .ok s' => s'
  | .error _ => s
def s0 : Occ.State := Occ.init 1 [⟨0, true, 0⟩, ⟨1, true, 1⟩, ⟨2, true, 4⟩]
def s1 : Occ.State := upd s0 0 true 0
def s2 : Occ.State := upd s1 0 true 1
def s3 : Occ.State := upd s2 1 true 1
def s4 : Occ.State := upd s3 3 false 5

def ys (s : Occ.State) : List (List IdTuple) :=
  [TaggerClass.cellVeto, .cellBounding, .excludedCells, .surplusCells].map fun cls => yieldCell 1 oe7 cls s

theorem pyOccTable :
    [s1, s2, s3, s4].map (fun s => (List.range 7).map s.occupants) =
      [[[], [1], [], [], [2], [], []], [[], [1], [], [], [2], [], []], [[], [], [], [], [2], [], []], [[], [1], [], [], [2], [], []]] ∧
    [s1, s2, s3, s4].map (·.surplus) = [[], [], [(1, [0])], [(1, [0])]] ∧
    [s1, s2, s3, s4].map (fun s => (s.activeId, s.activeCell)) = [(some 0, some 0), (some 0, some 1), (some 1, some 1), (none, none)] ∧
    [s1, s2, s3, s4].map ys = [
      [[some [[0]]], [some [[0], [2]]], [some [[0], [1]]], []],
      [[some [[0]]], [some [[0], [2]]], [some [[0], [1]]], []],
      [[some [[1]]], [some [[1], [2]]], [], [some [[1], [0]]]],
      [[], [], [], []]] := by decide +kernel

end PyTable

end JF.Footprints3
