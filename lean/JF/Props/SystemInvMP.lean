import JF.Props.SystemInv
import JF.Props.C20Loop
/-!
# The joint invariant of the composed coulomb_atoms system, transported to MULTI-PROCESS runs

`JF/Props/SystemInv.lean` proves the joint invariant and its closed corollaries for the runs `JF.Sys.Reach` of the composed
single-process system (mediator loop `JF.Med.leg` on the spec-level scheduler × concrete world of E8).  `JF/Props/C20Loop.lean`
proves that the multi-process mediator over the environment `medEnv L hs W` built from the components of `JF.Med.leg` and an
abstract world `W : JF.C20Loop.World G O κ` commits, for every adversary and every core count, exactly the `(handler, time)`
sequence of `JF.Med.runLegs` on the oracle values read off the multi-process run (`oracles W 0 g l`).  This module composes them.

**What `mp_refines_medloop` / `mp_eq_run` conclude** (and what they do not): equality of the lists of `(handler, time)` of the
commits (`keyMed`/`keyMP`), for the SAME scheduler instance on both sides, leg by leg, for as many legs as the single-process loop
makes on those oracle values.  They say nothing about the global states being states of `JF.Sys`: the world of C20 is abstract
(`yields`, `cand`, `out`, `commit` are arbitrary functions of an abstract global state `G`).

**The bridge to `Sys.Reach`** (`mp_run_is_reach`).  A `View G` reads the point masses and the cell occupancy off the abstract
global state.  `Moves` says that the world of the multi-process run moves by the step relation of `JF.Sys.SysStep` — field for field
its world part (`WStep`): the occupancy recorded in the state after the commit is the update of the previous one on the state
before the commit (`occ1`), the yields are the computed `CW.yieldCls` (`yields`), the candidates of the handlers handed out obey
`CandsOK` (`cands`), the point masses move by `Commits` of the committed handler's kind at the committed time (`ev`).  Under `Moves`
the run IS a `Sys.Reach` run: there is a state `s` of `JF.Sys` reached with exactly the commits `cs` of `runLegs` on the oracle
values of the multi-process run, whose world components are the views of the global states of the multi-process run (`gAt`), and
`cs` is `(handler, time)` for `(handler, time)` the multi-process commit list.  Hence every closed corollary holds for the
multi-process run (`joint_inv_mp`, `c09_fresh_closed_mp`, `c08_closed_mp`, `c11_occinv_closed_mp`, `commit_times_sorted_closed_mp`,
`no_sample_skipped_mp`, …) with the hypotheses of the original (`Hyp`, `TieFree` / `TieFreeAll`, `dumpQuiet`) and `Moves`.

**Adapter and what it assumes.**
1. C20's `World` has no activator-internal mutable state: `yields` is a function of the global state alone.  The cell occupancy
   (which the real activator updates inside `get_event_handlers_to_run`, in the main process, identically for both mediators) is
   therefore counted to the global state: `View.occ g` is the occupancy as of the last update, and the update of a leg is visible
   in the state after that leg's commit.  For the concrete world `cwWorld` below this is how `commit` is defined.
2. `Moves` is a hypothesis on the world ALONG THE RUN (as `SysStep`'s fields are part of the definition of `Sys.Reach`), not for
   all states.  For the concrete world `cwWorld env c cand out` (global state = point masses × occupancy × "has the activator
   started"; out-state = the kinematic event, or nothing; `commit` = `Kin.step` and the occupancy update; yields COMPUTED) it is
   reduced to `MovesCW`: the occupancy update does not raise, the candidate functions obey `CandsOK`, and the out-state a handler
   computed — from the in-state of the leg it was handed out in, as in both mediators — is an admissible event of the kind allowed
   for its tagger at the committed time (`moves_of_cw`).  That the out-state computed from the STORED in-state is admissible in
   the CURRENT state is C08's currency (`c08_closed`); here it is part of `MovesCW.ev`, as it is part of `SysStep.ev`.
3. The multi-process run is taken over the SPEC-level scheduler instance (as `Sys.Reach`).  `mp_refines_medloop` holds for the
   list and heap instances as well; composing with E1's refinement (heap/list loop = spec loop up to the first tie) is not done here.

Non-vacuity (`Example`): the 6-leg, 3-unit run of `coulomb_atoms/cell_bounded.ini` of `JF.SystemInv.Example` under the
multi-process machine with 3 cores (out-of-order arrivals, pre-computations) and with 2 cores, over the world `replayWorld os6`
that replays the recorded oracle values (global state = number of commits; the view reads the recorded states): `mpRun3`,
`mpRun2 : MPRun …`, and the corollaries applied to them.  For the concrete world `cwWorld` the first leg (start of run) of the same
configuration: `mpRunC` via `mpRun_cw` / `MovesCW`.  A multi-leg example over `cwWorld` is not given (the recorded states carry a
function-valued occupancy, so their equality with the computed global states is not decidable by evaluation).

The core count is unconstrained (`MPRun.mp` asks for SOME configuration, adversary and `hist` with `mpRun … = .ok l`; C20's theorem
holds for every core count, `cores ≥ 2` is not needed).
-/
namespace JF.SystemInvMP
open JF JF.Act JF.Heap JF.Sched JF.Med JF.CW JF.C14 JF.MediatorLoop JF.Kin JF.Sys JF.SystemInv JF.C20Loop

/-! ## small facts about one leg -/

theorem getTrashable_started (w : Wires) (a : ActSt) (h : HandlerId) : (getTrashable w a h).1.started = a.started := by
  unfold getTrashable
  split <;> rfl

/-- after a successful leg `get_event_handlers_to_run` has been rebound -/
theorem leg_started {κ : Type} {M : MWire} {I : SchedI κ} {st st' : MedState I.σ} {o : Oracle κ} {cm : Committed κ}
    (e : leg M I st o = .ok (st', cm)) : st'.act.started = true := by
  unfold leg at e
  simp only at e
  split at e
  · cases e
  · cases e
  · cases e
  · next created hcr =>
    split at e
    · cases e
    · split at e
      · cases e
      · cases e
      · split at e
        · cases e
        · cases e
        · split at e
          · cases e
          · simp only [Except.ok.injEq, Prod.mk.injEq] at e
            obtain ⟨rfl, _⟩ := e
            show (getTrashable M.w _ _).1.started = true
            rw [getTrashable_started]
            exact getToRun_ok_started (Prod.ext rfl hcr)

theorem runLegs_nil' {κ : Type} (M : MWire) (I : SchedI κ) (st : MedState I.σ) : runLegs M I st [] = ([], some st) := by
  rw [runLegs]

theorem runLegs_cons' {κ : Type} (M : MWire) (I : SchedI κ) (st : MedState I.σ) (o : Oracle κ) (os : List (Oracle κ)) :
    runLegs M I st (o :: os) =
      match leg M I st o with
      | .error _ => ([], none)
      | .ok (st', c) => if c.stop then ([c], some st') else (c :: (runLegs M I st' os).1, (runLegs M I st' os).2) := by
  rw [runLegs]
  rfl

section bridge
variable {G O : Type}

/-- how the abstract global state of C20's world is read: the point masses, and the cell occupancy as of the activator's last
`update` (adapter assumption 1 of the module docstring) -/
structure View (G : Type) where
  us : G → List (PUnit ℚ)
  occ : G → Occ.State

/-- the global state at the start of leg `k` of a multi-process run that starts in `g` and makes the commits `l` -/
def gAt (g : G) : List (MP.Commit G XTime O) → Nat → G
  | _, 0 => g
  | [], _ + 1 => g
  | a :: l, k + 1 => gAt a.post l k

@[simp] theorem gAt_zero (g : G) (l : List (MP.Commit G XTime O)) : gAt g l 0 = g := by cases l <;> rfl
@[simp] theorem gAt_cons_succ (g : G) (a : MP.Commit G XTime O) (l : List (MP.Commit G XTime O)) (k : Nat) :
    gAt g (a :: l) (k + 1) = gAt a.post l k := rfl

variable (env : Env ℚ) (geo : Geo env) (c : Wiring) (S : TaggerIdx) (needs : HandlerId → Bool)

/-- **the world part of `JF.Sys.SysStep`**, for leg `n` of a run over the world `W`: from global state `g` to `g'`, `cm` being the
record of the leg (only `created`, `handler`, `time` are read), `started` = the activator has been started (false exactly in the
first leg), `last` = time of the previous commit -/
structure WStep (W : World G O XTime) (v : View G) (started : Bool) (last : XTime) (n : Nat) (g g' : G)
    (cm : Committed XTime) : Prop where
  occ1 : (if started = true then occAfter env (hasOccOf c) (v.occ g) (v.us g) else some (v.occ g)) = some (v.occ g')
  yields : W.yields g = fun T => yieldCls env (c.tagger T).cls ⟨v.us g, v.occ g'⟩
  cands : CandsOK env geo c (v.us g) last ⟨W.yields g, fun h => W.cand h n g⟩ cm.created
  ev : ∃ t, cm.time = .fin t ∧ Commits env geo (kindOfH c cm.handler) t (v.us g) (v.us g')

/-- **the world moves by the step relation of `JF.Sys`** along the commits `l` of the multi-process run, for the legs `cs` the
single-process loop makes on its oracle values -/
def Moves (W : World G O XTime) (v : View G) :
    Bool → XTime → Nat → G → List (MP.Commit G XTime O) → List (Committed XTime) → Prop
  | _, _, _, _, _, [] => True
  | _, _, _, _, [], _ :: _ => False
  | st, last, n, g, a :: l, cm :: cs => WStep env geo c W v st last n g a.post cm ∧ Moves W v true cm.time (n + 1) a.post l cs

variable {env geo c S needs}

/-- the scheduler's `_last_returned_event` along a run of the composed system -/
theorem reach_last (H : Hyp env c S) {os : List (Oracle XTime)} {cs : List (Committed XTime)} {s : Sys}
    (hr : Sys.Reach env geo c S needs os cs s) : s.med.sched.last = lastOf xcfg.bot cs :=
  (MediatorLoop.run_inv (specLaws xcfg_strictWeak) (hyp_static H) (reach_medRun hr)
    (minv_init (specLaws xcfg_strictWeak) (mwire c S needs))).1.rel.last

/-- **the induction**: a run of the composed system is extended by the legs `runLegs` makes on the oracle values of the
multi-process run, as long as the world moves by `WStep` -/
theorem extend (H : Hyp env c S) (W : World G O XTime) (v : View G) :
    ∀ (l : List (MP.Commit G XTime O)) (n : Nat) (g : G) (started : Bool) (os0 : List (Oracle XTime))
      (cs0 : List (Committed XTime)) (s : Sys) (cs : List (Committed XTime)) (fin : Option (MedState (specI xcfg).σ)),
      Sys.Reach env geo c S needs os0 cs0 s → s.us = v.us g → s.occ = v.occ g → s.med.act.started = started →
      (∀ cl, cs0.getLast? = some cl → cl.stop = false) →
      runLegs (mwire c S needs) (specI xcfg) s.med (oracles W n g l) = (cs, fin) →
      Moves env geo c W v started (lastOf xcfg.bot cs0) n g l cs →
      ∃ s', Sys.Reach env geo c S needs (os0 ++ (oracles W n g l).take cs.length) (cs0 ++ cs) s' ∧
        s'.us = v.us (gAt g l cs.length) ∧ s'.occ = v.occ (gAt g l cs.length) ∧
        s'.usPrev = (if cs = [] then s.usPrev else v.us (gAt g l (cs.length - 1))) ∧
        (∀ st', fin = some st' → s'.med = st') := by
  intro l
  induction l with
  | nil =>
    intro n g started os0 cs0 s cs fin hr hus hocc _ _ e _
    simp only [oracles] at e
    have e := (runLegs_nil' (mwire c S needs) (specI xcfg) s.med).symm.trans e
    simp only [Prod.mk.injEq] at e
    obtain ⟨rfl, rfl⟩ := e
    exact ⟨s, by simpa using hr, hus, hocc, rfl, fun st' h => (Option.some.inj h)⟩
  | cons a l ih =>
    intro n g started os0 cs0 s cs fin hr hus hocc hst hgo e hm
    simp only [oracles] at e ⊢
    have e := (runLegs_cons' (mwire c S needs) (specI xcfg) s.med _ _).symm.trans e
    split at e
    · simp only [Prod.mk.injEq] at e
      obtain ⟨rfl, rfl⟩ := e
      exact ⟨s, by simpa using hr, hus, hocc, rfl, fun st' h => by cases h⟩
    · next st1 cm hleg =>
      -- the leg of the composed system
      have step : ∀ cs', cs = cm :: cs' →
          Sys.SysStep env geo c S needs s ⟨W.yields g, fun h => W.cand h n g⟩ cm
            ⟨st1, v.us a.post, v.occ a.post, assign s.ids cm.created, s.us,
              midAct (mwire c S needs) s.med ⟨W.yields g, fun h => W.cand h n g⟩⟩ ∧
          Moves env geo c W v true cm.time (n + 1) a.post l cs' := by
        intro cs' hcs
        subst hcs
        obtain ⟨ws, hm'⟩ := hm
        refine ⟨⟨?_, ?_, hleg, ?_, ?_, rfl, rfl, rfl⟩, hm'⟩
        · unfold occNext
          rw [hst, hus, hocc]
          exact ws.occ1
        · rw [hus]; exact ws.yields
        · rw [hus, reach_last H hr]; exact ws.cands
        · rw [hus]; exact ws.ev
      split at e
      · next hstop =>
        simp only [Prod.mk.injEq] at e
        obtain ⟨rfl, rfl⟩ := e
        obtain ⟨hstep, _⟩ := step [] rfl
        exact ⟨_, by simpa using Sys.Reach.step hr hgo hstep, by simp, by simp, by simpa using hus,
          fun st' h => (Option.some.inj h)⟩
      · next hstop =>
        generalize hrr : runLegs (mwire c S needs) (specI xcfg) st1 (oracles W (n + 1) a.post l) = rr at e
        obtain ⟨r1, r2⟩ := rr
        simp only [Prod.mk.injEq] at e
        obtain ⟨rfl, rfl⟩ := e
        obtain ⟨hstep, hm'⟩ := step _ rfl
        have hr1 := Sys.Reach.step hr hgo hstep
        obtain ⟨s', hr', h1, h2, h3, h4⟩ := ih (n + 1) a.post true (os0 ++ [⟨W.yields g, fun h => W.cand h n g⟩])
          (cs0 ++ [cm]) _ r1 r2 hr1 rfl rfl (leg_started hleg)
          (by intro cl hcl; simp at hcl; subst hcl; simpa using hstop)
          hrr (by rw [lastOf_snoc]; exact hm')
        refine ⟨s', ?_, h1, h2, ?_, h4⟩
        · simpa [List.append_assoc] using hr'
        · rw [h3]
          cases r1 with
          | nil => simpa using hus
          | cons x xs => simp

/-- **a multi-process run of the composed system** (any core count, any `send_out_state` arities, any adversary): the
multi-process mediator over the environment built from the components of `JF.Med.leg` (spec-level scheduler) and the world `W`
returns the commits `l`; the run starts in an initial state of `JF.Sys` seen through the view `v`; `cs` are the legs the
single-process loop `JF.Med.runLegs` makes on the oracle values of that run (by `mp_refines_medloop`: the same handlers and times);
and the world moves by the step relation of `JF.Sys` (`Moves`). -/
structure MPRun (H : Hyp env c S) (needs : HandlerId → Bool) (geo : Geo env) (W : World G O XTime) (v : View G) (g : G)
    (l : List (MP.Commit G XTime O)) (cs : List (Committed XTime)) : Prop where
  mp : ∃ mcfg advs hist, mpRun (specLaws xcfg_strictWeak) (hyp_static (needs := needs) H) W mcfg advs g hist = .ok l
  init : ∃ s0, Init env c s0 ∧ s0.us = v.us g ∧ s0.occ = v.occ g
  legs : ∃ fin, runLegs (mwire c S needs) (specI xcfg) (MedState.init (specI xcfg) (mwire c S needs).w) (oracles W 0 g l) =
    (cs, fin)
  moves : Moves env geo c W v false xcfg.bot 0 g l cs

variable {H : Hyp env c S} {W : World G O XTime} {v : View G} {g : G} {l : List (MP.Commit G XTime O)}
  {cs : List (Committed XTime)}

/-- the state of `JF.Sys` that mirrors the multi-process run after the legs `cs`: its point masses and occupancy are the views of
the global state of the multi-process run after `cs.length` commits, its ghost `usPrev` the view of the state before the last -/
structure Tracks (v : View G) (g : G) (l : List (MP.Commit G XTime O)) (cs : List (Committed XTime)) (s : Sys) : Prop where
  us : s.us = v.us (gAt g l cs.length)
  occ : s.occ = v.occ (gAt g l cs.length)
  usPrev : cs ≠ [] → s.usPrev = v.us (gAt g l (cs.length - 1))

/-- **`mp_run_is_reach` — the multi-process run IS a run of `JF.Sys.Reach`**: with exactly the commits `cs`, on the oracle values of
the multi-process run, ending in a state that mirrors the global state of the multi-process run; and `cs` is, handler by handler
and time by time, the commit list `l` of the multi-process mediator, for all legs unless the loop ended earlier with an exception
or the end-of-run commit (`mp_refines_medloop`) -/
theorem mp_run_is_reach (R : MPRun H needs geo W v g l cs) :
    ∃ s, Sys.Reach env geo c S needs ((oracles W 0 g l).take cs.length) cs s ∧ Tracks v g l cs s ∧
      cs.map keyMed = (l.take cs.length).map keyMP ∧
      (cs.length = l.length ∨ (∃ fin, runLegs (mwire c S needs) (specI xcfg) (MedState.init (specI xcfg) (mwire c S needs).w)
          (oracles W 0 g l) = (cs, fin) ∧ fin = none) ∨ ∃ cl, cs.getLast? = some cl ∧ cl.stop = true) := by
  obtain ⟨mcfg, advs, hist, hmp⟩ := R.mp
  obtain ⟨s0, h0, hus, hocc⟩ := R.init
  obtain ⟨fin, e⟩ := R.legs
  have e0 : runLegs (mwire c S needs) (specI xcfg) s0.med (oracles W 0 g l) = (cs, fin) := by rw [h0.med]; exact e
  obtain ⟨s, hr, h1, h2, h3, _⟩ := extend H W v l 0 g false [] [] s0 cs fin (.init s0 h0) hus hocc
    (by rw [h0.med]; rfl) (by intro cl hcl; simp at hcl) e0 R.moves
  have hr' : Sys.Reach env geo c S needs ((oracles W 0 g l).take cs.length) cs s := by simpa using hr
  have hl := mpRun_ok _ _ W mcfg advs g hist hmp
  have hlen : l.length = advs.length := by rw [hl]; exact runSP_length _ _ _ _ _ _ _
  refine ⟨s, hr', ⟨h1, h2, fun hne => by rw [h3, if_neg hne]⟩, ?_, ?_⟩
  · exact mp_eq_run _ _ W mcfg advs g hist hmp (reach_medRun hr') rfl
  · have := runLegs_length _ _ _ _ e
    rw [oracles_length] at this
    rcases this with h | h | h
    · exact Or.inl h
    · exact Or.inr (Or.inl ⟨fin, e, h⟩)
    · exact Or.inr (Or.inr h)

/-! ## the closed corollaries of `JF/Props/SystemInv.lean`, for the multi-process run -/

/-- **the joint invariant holds for the multi-process run** -/
theorem joint_inv_mp (R : MPRun H needs geo W v g l cs) (nt : TieFree c cs) :
    ∃ s, Tracks v g l cs s ∧ JInv env geo c S needs cs s := by
  obtain ⟨s, hr, tr, _⟩ := mp_run_is_reach R
  exact ⟨s, tr, joint_inv H hr nt⟩

/-- **`c09_fresh_closed` for the multi-process run**: in the middle of the last leg (`2 ≤` legs), on the concrete state the
multi-process run was in — point masses of the global state before the last commit, occupancy as updated in that leg —, every
live tagger is `Fresh` and the activator state is a state of `JF.Act.Run` for E8's transition relation -/
theorem c09_fresh_closed_mp (R : MPRun H needs geo W v g l cs) (nt : TieFree c cs) (h2 : 2 ≤ cs.length) :
    ∃ s : Sys, s.usPrev = v.us (gAt g l (cs.length - 1)) ∧ s.occ = v.occ (gAt g l cs.length) ∧
      ∃ hc : Consistent env (hasOccOf c) ⟨s.usPrev, s.occ⟩,
        (∀ T, (world env c).live T → Fresh (world env c) ⟨s.mid, s.ids, ⟨⟨s.usPrev, s.occ⟩, hc⟩⟩ T) ∧
        Act.Run c (world env c) (Tr env c) S ⟨s.mid, s.ids, ⟨⟨s.usPrev, s.occ⟩, hc⟩⟩ := by
  obtain ⟨s, hr, tr, _⟩ := mp_run_is_reach R
  have hne : cs ≠ [] := by intro h; rw [h] at h2; simp at h2
  exact ⟨s, tr.usPrev hne, tr.occ, c09_fresh_closed H hr nt h2⟩

/-- **`c08_closed` for the multi-process run**: the in-state of the interaction / cell-veto event the multi-process mediator
committed last is current — every unit of it moves in the global state the commit was made on as it did in the state its
candidate was computed from -/
theorem c08_closed_mp (R : MPRun H needs geo W v g l cs) (nt : TieFree c cs) {cl : Committed XTime}
    (hl : cs.getLast? = some cl) :
    ∃ s : Sys, s.usPrev = v.us (gAt g l (cs.length - 1)) ∧ s.occ = v.occ (gAt g l cs.length) ∧
      ∃ (hc : Consistent env (hasOccOf c) ⟨s.usPrev, s.occ⟩) (born : HandlerId → CW.G env c),
        C08.Reach8 c.wires (world env c) (motionOf env c) S ⟨⟨s.mid, s.ids, ⟨⟨s.usPrev, s.occ⟩, hc⟩⟩, born⟩ ∧
        C08.Current (motionOf env c) ⟨⟨s.mid, s.ids, ⟨⟨s.usPrev, s.occ⟩, hc⟩⟩, born⟩ ∧
        ∀ E, owner c.wires cl.handler = some E → motionBound (c.tagger E) = true →
          ∀ u ∈ (motionOf env c).units (s.ids cl.handler), SameMotion env.L (born cl.handler).1.us s.usPrev u := by
  obtain ⟨s, hr, tr, _⟩ := mp_run_is_reach R
  have hne : cs ≠ [] := by intro h; rw [h] at hl; simp at hl
  exact ⟨s, tr.usPrev hne, tr.occ, c08_closed H hr nt hl⟩

/-- **`c11_occinv_closed` for the multi-process run**, stated on the global states of the multi-process run itself: the occupancy
carried by the global state after `cs.length` commits satisfies C11's full invariant `OccInv` for the point masses of the global
state before the last commit (the state the occupancy was updated on) -/
theorem c11_occinv_closed_mp (R : MPRun H needs geo W v g l cs) (nta : TieFreeAll c cs) (hO : hasOccOf c = true)
    (hne : cs ≠ []) :
    C11.OccInv (relW env (v.us (gAt g l (cs.length - 1)))) (cellW env (v.us (gAt g l (cs.length - 1))))
      (v.occ (gAt g l cs.length)) := by
  obtain ⟨s, hr, tr, _⟩ := mp_run_is_reach R
  have := c11_occinv_closed H hr nta hO
  rw [tr.usPrev hne, tr.occ] at this
  exact this

/-- **`staysInRecordedCell_closed` for the multi-process run**: after a sampling / dumping commit of the multi-process mediator the
active unit of the new global state is still in the cell the carried occupancy records for it -/
theorem staysInRecordedCell_closed_mp (R : MPRun H needs geo W v g l cs) (nt : TieFree c cs) (hO : hasOccOf c = true)
    {cl : Committed XTime} (hl : cs.getLast? = some cl)
    (hq : kindOfH c cl.handler = .sampling ∨ kindOfH c cl.handler = .dumping) :
    StaysInRecordedCell env (v.occ (gAt g l cs.length)) (v.us (gAt g l cs.length)) := by
  obtain ⟨s, hr, tr, _⟩ := mp_run_is_reach R
  have := staysInRecordedCell_closed H hr nt hO hl hq
  rw [tr.us, tr.occ] at this
  exact this

/-- **`commit_times_sorted_closed` for the multi-process run**: the times of the commits of the MULTI-PROCESS mediator never
decrease (on the legs the single-process loop makes on its oracle values: all of them, unless it ends earlier) -/
theorem commit_times_sorted_closed_mp (R : MPRun H needs geo W v g l cs) (hdq : dumpQuiet c = true) (nt : TieFree c cs)
    {i j : Nat} (hij : i < j) (hj : j < cs.length) {a b : MP.Commit G XTime O} (ha : l[i]? = some a) (hb : l[j]? = some b) :
    xcfg.lt b.time a.time = false := by
  obtain ⟨s, hr, _, hkey, _⟩ := mp_run_is_reach R
  obtain ⟨ci, hci, _, hti⟩ := key_at hkey (by omega : i < cs.length) ha
  obtain ⟨cj, hcj, _, htj⟩ := key_at hkey hj hb
  have hp := commit_times_sorted_closed H hdq hr nt
  rw [List.pairwise_iff_getElem] at hp
  have hi' : i < cs.length := by omega
  have := hp i j hi' hj hij
  rw [List.getElem?_eq_getElem hi'] at hci
  rw [List.getElem?_eq_getElem hj] at hcj
  rw [Option.some.inj hci, Option.some.inj hcj, hti, htj] at this
  exact this

/-- **`no_sample_skipped` for the multi-process run**: while a sampling candidate `ts` is pending in leg `k`, the event the
multi-process mediator commits in that leg is not later than `ts`, and when the sampling handler itself is committed, it is
committed at exactly `ts` -/
theorem no_sample_skipped_mp (R : MPRun H needs geo W v g l cs) {k : Nat} {cm : Committed XTime} (hk : cs[k]? = some cm)
    {a : MP.Commit G XTime O} (ha : l[k]? = some a) {hs : HandlerId} {ts : XTime} (hkind : kindOfH c hs = .sampling)
    (hp : pendPushed (pendOf (fun _ => none) (cs.take k)) cm hs = some ts) (hfin : xcfg.finite ts = true) :
    xcfg.lt ts a.time = false ∧ (a.handler = hs → a.time = ts) := by
  obtain ⟨s, hr, _, hkey, _⟩ := mp_run_is_reach R
  have hklt : k < cs.length := (List.getElem?_eq_some_iff.mp hk).1
  obtain ⟨c', hc', hh, ht⟩ := key_at hkey hklt ha
  rw [hk] at hc'
  have : cm = c' := Option.some.inj hc'
  subst this
  have := no_sample_skipped H hr hk hkind hp hfin
  rw [hh, ht] at this
  exact this

/-- **`c08_stale_trashed_closed` for the multi-process run**: a handler of an interaction / cell-veto tagger whose event was
pending at a motion-changing commit (leg `k`) is committed by the MULTI-PROCESS mediator in a later leg `j` only after it was
handed out again in between -/
theorem c08_stale_trashed_closed_mp (R : MPRun H needs geo W v g l cs) (nt : TieFree c cs) {k j : Nat}
    {ck : Committed XTime} (hk : cs[k]? = some ck) {E : TaggerIdx} (hE : owner c.wires ck.handler = some E)
    (hm : affects (c.tagger E) .motion = true) {h : HandlerId} {T : TaggerIdx} (hT : owner c.wires h = some T)
    (hb : motionBound (c.tagger T) = true)
    (hp : (pendPushed (pendOf (fun _ => none) (cs.take k)) ck h).isSome) (hkj : k < j) (hj : j < cs.length)
    {a : MP.Commit G XTime O} (ha : l[j]? = some a) (hc : a.handler = h) :
    h ∈ ck.trashed ∧ ∃ (i : Nat) (ci : Committed XTime), k < i ∧ i ≤ j ∧ cs[i]? = some ci ∧ h ∈ ci.created.map Prod.fst := by
  obtain ⟨s, hr, _, hkey, _⟩ := mp_run_is_reach R
  obtain ⟨cj, hcj, hh, _⟩ := key_at hkey hj ha
  obtain ⟨h1, h2⟩ := c08_stale_trashed_closed H hr nt (j := j) (cj := cj) hk hE hm hT hb hp
  exact ⟨h1, h2 hkj hcj (by rw [hh, hc])⟩

/-! ## the adapter discharged: the commits of a multi-process run form a chain, and the concrete world -/

/-- every commit of the list is `commit` applied to the state before it and its out-state -/
def PostChain (W : World G O XTime) : G → List (MP.Commit G XTime O) → Prop
  | _, [] => True
  | g, a :: l => a.post = W.commit g a.out ∧ PostChain W a.post l

theorem runSP_postChain {cfg' : Cfg XTime} {I : SchedI XTime} {vis : XTime → Bool} {R' : I.σ → Pend XTime → XTime → Prop}
    {M : MWire} (L : Laws cfg' I vis R') (hs : Static M) (W : World G O XTime) :
    ∀ (k n : Nat) (g : G) (e : EGood M R') (last : Nat → Nat) (hist : Nat → G),
      PostChain W g (MP.runSP (medEnv L hs W) k n g e last hist) := by
  intro k
  induction k with
  | zero => intro n g e last hist; trivial
  | succ k ih =>
    intro n g e last hist
    simp only [MP.runSP]
    exact ⟨rfl, ih _ _ _ _ _⟩

end bridge

/-! ### the concrete world -/

/-- the concrete global state of the multi-process run: point masses, the cell occupancy as of the last update, and whether the
activator has been started (the first call of `get_event_handlers_to_run` does not update internal states) -/
structure GW where
  us : List (PUnit ℚ)
  occ : Occ.State
  started : Bool

/-- the occupancy update of the next `get_event_handlers_to_run` (`none`: it raises) -/
def occUpd (env : Env ℚ) (hasOcc : Bool) (g : GW) : Option Occ.State :=
  if g.started = true then occAfter env hasOcc g.occ g.us else some g.occ

/-- **the concrete coulomb_atoms world as a world of C20**: the yields are COMPUTED from the point masses and the updated
occupancy (`CW.yieldCls`), the out-state of a handler is the kinematic event it asks for (`none`: a dumping event that leaves the
state as it is), `commit` applies `Kin.step` and stores the updated occupancy; the candidate times `cand` and the out-states `out`
are arbitrary functions of handler, leg number and global state (as in `JF.MP.Env`) -/
def cwWorld (env : Env ℚ) (c : Wiring) (cand : HandlerId → Nat → GW → XTime)
    (out : HandlerId → Nat → GW → Option (Kin.Ev ℚ)) : World GW (Option (Kin.Ev ℚ)) XTime where
  yields g T := yieldCls env (c.tagger T).cls ⟨g.us, (occUpd env (hasOccOf c) g).getD g.occ⟩
  cand := cand
  out := out
  commit g o :=
    ⟨match o with
      | some ev => Kin.step env.o env.L g.us ev
      | none => g.us,
     (occUpd env (hasOccOf c) g).getD g.occ, true⟩

def gwView : View GW := ⟨GW.us, GW.occ⟩

section cw
variable (env : Env ℚ) (geo : Geo env) (c : Wiring) (cand : HandlerId → Nat → GW → XTime)
  (out : HandlerId → Nat → GW → Option (Kin.Ev ℚ))

/-- `Moves` for the concrete world, reduced to what is not computed: the occupancy update does not raise, the candidate times obey
`CandsOK`, and the committed out-state is an admissible event of a kind allowed for the committing tagger at the committed time -/
def MovesCW : XTime → Nat → GW → List (MP.Commit GW XTime (Option (Kin.Ev ℚ))) → List (Committed XTime) → Prop
  | _, _, _, _, [] => True
  | _, _, _, [], _ :: _ => False
  | last, n, g, a :: l, cm :: cs =>
    ((occUpd env (hasOccOf c) g).isSome = true ∧
      CandsOK env geo c g.us last ⟨(cwWorld env c cand out).yields g, fun h => cand h n g⟩ cm.created ∧
      ∃ t, cm.time = .fin t ∧
        match a.out with
        | some ev => allowedEv (kindOfH c cm.handler) ev = true ∧ ev.time = t ∧ EvAdm env geo g.us ev
        | none => kindOfH c cm.handler = .dumping) ∧
    MovesCW cm.time (n + 1) a.post l cs

variable {env geo c cand out}

/-- **the hypothesis `Moves` holds for the concrete world under `MovesCW`** (on any chain of commits: `runSP_postChain`) -/
theorem moves_of_cw : ∀ (l : List (MP.Commit GW XTime (Option (Kin.Ev ℚ)))) (cs : List (Committed XTime)) (last : XTime)
    (n : Nat) (g : GW), PostChain (cwWorld env c cand out) g l → MovesCW env geo c cand out last n g l cs →
    Moves env geo c (cwWorld env c cand out) gwView g.started last n g l cs := by
  intro l
  induction l with
  | nil => intro cs last n g _ h; cases cs with
    | nil => trivial
    | cons _ _ => exact h
  | cons a l ih =>
    intro cs last n g hp h
    cases cs with
    | nil => trivial
    | cons cm cs =>
      obtain ⟨hpost, hp'⟩ := hp
      obtain ⟨⟨hsome, hcands, t, ht, hev⟩, hrest⟩ := h
      have hocc : a.post.occ = (occUpd env (hasOccOf c) g).getD g.occ := by rw [hpost]; rfl
      have hus : a.post.us = (match a.out with
          | some ev => Kin.step env.o env.L g.us ev
          | none => g.us) := by rw [hpost]; rfl
      have hst : a.post.started = true := by rw [hpost]; rfl
      have hupd : occUpd env (hasOccOf c) g = some a.post.occ := by
        rw [hocc]
        cases hx : occUpd env (hasOccOf c) g with
        | none => rw [hx] at hsome; cases hsome
        | some x => rfl
      refine ⟨⟨hupd, ?_, hcands, t, ht, ?_⟩, ?_⟩
      · show (fun T => yieldCls env (c.tagger T).cls ⟨g.us, (occUpd env (hasOccOf c) g).getD g.occ⟩) = _
        rw [← hocc]; rfl
      · show Commits env geo (kindOfH c cm.handler) t g.us a.post.us
        rw [hus]
        cases ho : a.out with
        | none => rw [ho] at hev; exact Or.inr ⟨hev, rfl⟩
        | some ev => rw [ho] at hev; exact Or.inl ⟨ev, hev.1, hev.2.1, hev.2.2, rfl⟩
      · have := ih cs cm.time (n + 1) a.post hp' hrest
        rw [hst] at this
        exact this

end cw


/-- **a multi-process run over the concrete world is an `MPRun`** under `MovesCW` (nothing else is assumed about the world) -/
theorem mpRun_cw {env : Env ℚ} {geo : Geo env} {c : Wiring} {S : TaggerIdx} {needs : HandlerId → Bool} (H : Hyp env c S)
    {cand : HandlerId → Nat → GW → XTime} {out : HandlerId → Nat → GW → Option (Kin.Ev ℚ)} {mcfg : MP.Cfg}
    {advs : List (List (List Nat))} {g : GW} {hist : Nat → GW} {l : List (MP.Commit GW XTime (Option (Kin.Ev ℚ)))}
    (hmp : mpRun (specLaws xcfg_strictWeak) (hyp_static (needs := needs) H) (cwWorld env c cand out) mcfg advs g hist = .ok l)
    {s0 : Sys} (h0 : Init env c s0) (hus : s0.us = g.us) (hocc : s0.occ = g.occ) (hst : g.started = false)
    {cs : List (Committed XTime)} {fin : Option (MedState (specI xcfg).σ)}
    (e : runLegs (mwire c S needs) (specI xcfg) (MedState.init (specI xcfg) (mwire c S needs).w)
      (oracles (cwWorld env c cand out) 0 g l) = (cs, fin))
    (hm : MovesCW env geo c cand out xcfg.bot 0 g l cs) :
    MPRun H needs geo (cwWorld env c cand out) gwView g l cs := by
  refine ⟨⟨mcfg, advs, hist, hmp⟩, ⟨s0, h0, hus, hocc⟩, ⟨fin, e⟩, ?_⟩
  have hl := mpRun_ok _ _ _ mcfg advs g hist hmp
  have hp : PostChain (cwWorld env c cand out) g l := by rw [hl]; exact runSP_postChain _ _ _ _ _ _ _ _ _
  have := moves_of_cw l cs xcfg.bot 0 g hp hm
  rw [hst] at this
  exact this

/-! ## non-vacuity: the 6-leg run of `coulomb_atoms/cell_bounded.ini` of `JF.SystemInv.Example` under the multi-process machine

The world replays the oracle values of that run (global state = number of commits made; the view reads the point masses and the
occupancy of the recorded states `s0 … s6`).  The multi-process mediator runs on it with 3 cores (out-of-order arrivals and
pre-computations) and with 2 cores; `MPRun` holds, hence every theorem above applies. -/

section replay

/-- a world that replays recorded oracle values; the global state is the number of commits made -/
def replayWorld (os : List (Oracle XTime)) : World Nat Unit XTime where
  yields k := ((os[k]?).map (·.yields)).getD (fun _ => [])
  cand h n _ := ((os[n]?).map (·.cand h)).getD .inf
  out _ _ _ := ()
  commit k _ := k + 1

def replayView (ss : List Sys) (dflt : Sys) : View Nat :=
  ⟨fun k => ((ss[k]?).getD dflt).us, fun k => ((ss[k]?).getD dflt).occ⟩

variable {env : Env ℚ} {geo : Geo env} {c : Wiring}

theorem moves_replay (os : List (Oracle XTime)) (v : View Nat) :
    ∀ (l : List (MP.Commit Nat XTime Unit)) (cs : List (Committed XTime)) (n k : Nat) (st : Bool) (last : XTime),
      PostChain (replayWorld os) k l → cs.length ≤ l.length →
      (∀ i cm, cs[i]? = some cm →
        WStep env geo c (replayWorld os) v (if i = 0 then st else true) (lastOf last (cs.take i)) (n + i) (k + i) (k + i + 1) cm) →
      Moves env geo c (replayWorld os) v st last n k l cs := by
  intro l
  induction l with
  | nil =>
    intro cs n k st last _ hlen _
    cases cs with
    | nil => trivial
    | cons _ _ => simp at hlen
  | cons a l ih =>
    intro cs n k st last hp hlen h
    cases cs with
    | nil => trivial
    | cons cm cs =>
      obtain ⟨hpost, hp'⟩ := hp
      have hpost' : a.post = k + 1 := hpost
      refine ⟨?_, ?_⟩
      · have := h 0 cm rfl
        rw [hpost']
        simpa [lastOf] using this
      · rw [hpost'] at hp' ⊢
        refine ih cs (n + 1) (k + 1) true cm.time hp' (by simpa using hlen) (fun i cm' hi => ?_)
        have := h (i + 1) cm' (by simpa using hi)
        have e1 : n + (i + 1) = n + 1 + i := by omega
        have e2 : k + (i + 1) = k + 1 + i := by omega
        rw [e1, e2] at this
        simpa [lastOf] using this

theorem oracles_replay (os : List (Oracle XTime)) : ∀ (l : List (MP.Commit Nat XTime Unit)) (k : Nat),
    PostChain (replayWorld os) k l → k + l.length ≤ os.length →
    oracles (replayWorld os) k k l = (os.drop k).take l.length := by
  intro l
  induction l with
  | nil => intro k _ _; simp [oracles]
  | cons a l ih =>
    intro k hp hlen
    obtain ⟨hpost, hp'⟩ := hp
    have hpost' : a.post = k + 1 := hpost
    have hk : k < os.length := by simp at hlen; omega
    rw [hpost'] at hp'
    simp only [oracles, List.length_cons]
    rw [hpost', ih (k + 1) hp' (by simp at hlen; omega), List.drop_eq_getElem_cons hk, List.take_succ_cons]
    congr 1
    show (⟨((os[k]?).map (·.yields)).getD (fun _ => []), fun h => ((os[k]?).map (·.cand h)).getD .inf⟩ : Oracle XTime) = _
    rw [List.getElem?_eq_getElem hk]
    rfl

/-- a leg of the composed system is a `WStep` of the world that replays its oracle value -/
theorem wstep_of_step {S : TaggerIdx} {needs : HandlerId → Bool} {os : List (Oracle XTime)} {v : View Nat} {s s' : Sys}
    {o : Oracle XTime} {cm : Committed XTime} (hstep : Sys.SysStep env geo c S needs s o cm s') {k : Nat}
    (ho : os[k]? = some o) (h1 : v.us k = s.us) (h2 : v.occ k = s.occ) (h3 : v.us (k + 1) = s'.us)
    (h4 : v.occ (k + 1) = s'.occ) :
    WStep env geo c (replayWorld os) v s.med.act.started s.med.sched.last k k (k + 1) cm := by
  have hy : (replayWorld os).yields k = o.yields := by
    show ((os[k]?).map (·.yields)).getD (fun _ => []) = _
    rw [ho]; rfl
  have hc : (fun h => (replayWorld os).cand h k k) = o.cand := by
    funext h
    show ((os[k]?).map (·.cand h)).getD .inf = _
    rw [ho]; rfl
  refine ⟨?_, ?_, ?_, ?_⟩
  · rw [h1, h2, h4]
    have := hstep.occ1
    unfold occNext at this
    exact this
  · rw [hy, h1, h4]; exact hstep.yields
  · rw [hy, hc, h1]; exact hstep.cands
  · rw [h1, h3]; exact hstep.ev

end replay

/-- a run without an early end-of-run commit is what `runLegs` computes -/
theorem runLegs_of_run {κ : Type} {M : MWire} {I : SchedI κ} {st st' : MedState I.σ} {os : List (Oracle κ)}
    {cs : List (Committed κ)} (hrun : Run M I st os cs st') (hns : ∀ c ∈ cs, c.stop = false) :
    runLegs M I st os = (cs, some st') := by
  induction hrun with
  | nil st => exact runLegs_nil' M I st
  | @cons st st1 st' o os c cs hleg _ ih =>
    rw [runLegs_cons', hleg]
    simp only
    rw [if_neg (by rw [hns c (by simp)]; simp), ih (fun x hx => hns x (by simp [hx]))]

namespace Example
open JF.SystemInv.Example

def W : World Nat Unit XTime := replayWorld os6
def v : View Nat := replayView [s0, s1, s2, s3, s4, s5, s6] s0

theorem L : Laws xcfg (specI xcfg) xcfg.finite (SRel xcfg) := specLaws xcfg_strictWeak
theorem static : Static (mwire cfg 7 needs) := hyp_static hyp

def cfg3 : MP.Cfg := ⟨3, fun _ => false⟩
def cfg2 : MP.Cfg := ⟨2, fun _ => false⟩

/-- handed out per leg: [7]; [5, 1, 0, 2, 4, 6]; [4]; [1, 0, 2]; [0, 2, 3]; [4] -/
def adv3 : List (List (List Nat)) := [[[7]], [[6, 4], [2, 0], [1, 5]], [[4]], [[2], [0, 1]], [[3, 2, 0]], [[4]]]
def adv2 : List (List (List Nat)) := [[[7]], [[6], [4, 2, 0, 1, 5]], [[4]], [[2, 0, 1]], [[3], [2], [0]], [[4]]]

def sp : List (MP.Commit Nat XTime Unit) := spRun L static W 6 0 (fun _ => 0)

theorem mp_ok3 : mpRun L static W cfg3 adv3 0 (fun _ => 0) = .ok sp := by
  rcases mp_refines_spRun L static W cfg3 adv3 0 (fun _ => 0) with h | ⟨m, h | h⟩
  · exact h
  · have : (mpRun L static W cfg3 adv3 0 (fun _ => 0)).toOption.isSome = true := by decide +kernel
    rw [h] at this; cases this
  · have : (mpRun L static W cfg3 adv3 0 (fun _ => 0)).toOption.isSome = true := by decide +kernel
    rw [h] at this; cases this

theorem mp_ok2 : mpRun L static W cfg2 adv2 0 (fun _ => 0) = .ok sp := by
  rcases mp_refines_spRun L static W cfg2 adv2 0 (fun _ => 0) with h | ⟨m, h | h⟩
  · exact h
  · have : (mpRun L static W cfg2 adv2 0 (fun _ => 0)).toOption.isSome = true := by decide +kernel
    rw [h] at this; cases this
  · have : (mpRun L static W cfg2 adv2 0 (fun _ => 0)).toOption.isSome = true := by decide +kernel
    rw [h] at this; cases this

theorem sp_chain : PostChain W 0 sp := runSP_postChain _ _ _ _ _ _ _ _ _
theorem sp_length : sp.length = 6 := runSP_length _ _ _ _ _ _ _

/-- the oracle values of the multi-process run are the recorded ones -/
theorem sp_oracles : oracles W 0 0 sp = os6 := by
  have := oracles_replay os6 sp 0 sp_chain (by rw [sp_length]; decide)
  rw [sp_length] at this
  exact this

/-- the single-process loop on them makes the six legs of `JF.SystemInv.Example` -/
theorem legs6 : runLegs (mwire cfg 7 needs) (specI xcfg) (MedState.init (specI xcfg) (mwire cfg 7 needs).w) (oracles W 0 0 sp) =
    (cs6, some s6.med) := by
  rw [sp_oracles]
  refine runLegs_of_run (reach_medRun reach6) ?_
  have : cs6.all (fun c => !c.stop) = true := by decide +kernel
  intro c hc
  simpa using List.all_eq_true.mp this c hc

theorem moves6 : Moves env geo cfg W v false xcfg.bot 0 0 sp cs6 := by
  refine moves_replay os6 v sp cs6 0 0 false xcfg.bot sp_chain (by rw [sp_length]; decide) ?_
  intro i cm hi
  have hi6 : i < 6 := (List.getElem?_eq_some_iff.mp hi).1
  interval_cases i
  all_goals
    simp only [cs6, List.nil_append, List.cons_append, List.getElem?_cons_zero, List.getElem?_cons_succ,
      Option.some.injEq] at hi
    subst hi
  · have := wstep_of_step (os := os6) (v := v) step1 (k := 0) rfl rfl rfl rfl rfl
    rw [show s0.med.act.started = false from rfl, reach_last (geo := geo) (needs := needs) hyp (Sys.Reach.init s0 init0)] at this
    exact this
  · have := wstep_of_step (os := os6) (v := v) step2 (k := 1) rfl rfl rfl rfl rfl
    rw [leg_started step1.leg, reach_last hyp reach1] at this
    exact this
  · have := wstep_of_step (os := os6) (v := v) step3 (k := 2) rfl rfl rfl rfl rfl
    rw [leg_started step2.leg, reach_last hyp reach2] at this
    exact this
  · have := wstep_of_step (os := os6) (v := v) step4 (k := 3) rfl rfl rfl rfl rfl
    rw [leg_started step3.leg, reach_last hyp reach3] at this
    exact this
  · have := wstep_of_step (os := os6) (v := v) step5 (k := 4) rfl rfl rfl rfl rfl
    rw [leg_started step4.leg, reach_last hyp reach4] at this
    exact this
  · have := wstep_of_step (os := os6) (v := v) step6 (k := 5) rfl rfl rfl rfl rfl
    rw [leg_started step5.leg, reach_last hyp reach5] at this
    exact this

/-- **the multi-process runs (3 cores and 2 cores) of the 6-leg run are `MPRun`s** -/
theorem mpRun3 : MPRun hyp needs geo W v 0 sp cs6 :=
  ⟨⟨cfg3, adv3, fun _ => 0, mp_ok3⟩, ⟨s0, init0, rfl, rfl⟩, ⟨_, legs6⟩, moves6⟩
theorem mpRun2 : MPRun hyp needs geo W v 0 sp cs6 :=
  ⟨⟨cfg2, adv2, fun _ => 0, mp_ok2⟩, ⟨s0, init0, rfl, rfl⟩, ⟨_, legs6⟩, moves6⟩

/-- what the multi-process mediator commits: the handlers and times of the single-process run -/
example : sp.map keyMP = cs6.map keyMed := by
  obtain ⟨_, _, _, hkey, _⟩ := mp_run_is_reach mpRun3
  rw [show cs6.length = 6 from rfl, ← sp_length, List.take_length] at hkey
  exact hkey.symm

/-! ### the theorems apply -/

example : ∃ s, Tracks v 0 sp cs6 s ∧ JInv env geo cfg 7 needs cs6 s := joint_inv_mp mpRun3 tieFree6

example : C11.OccInv (relW env (v.us (gAt 0 sp 5))) (cellW env (v.us (gAt 0 sp 5))) (v.occ (gAt 0 sp 6)) :=
  c11_occinv_closed_mp mpRun3 tieFreeAll6 rfl (by decide)

example : ∃ s : Sys, s.usPrev = v.us (gAt 0 sp 5) ∧ s.occ = v.occ (gAt 0 sp 6) ∧
    ∃ hc : Consistent env (hasOccOf cfg) ⟨s.usPrev, s.occ⟩,
      (∀ T, (world env cfg).live T → Fresh (world env cfg) ⟨s.mid, s.ids, ⟨⟨s.usPrev, s.occ⟩, hc⟩⟩ T) ∧
      Act.Run cfg (world env cfg) (Tr env cfg) 7 ⟨s.mid, s.ids, ⟨⟨s.usPrev, s.occ⟩, hc⟩⟩ :=
  c09_fresh_closed_mp mpRun2 tieFree6 (by decide)

theorem sp1 : (sp[1]?).isSome = true := by rw [List.getElem?_eq_getElem (by rw [sp_length]; decide)]; rfl
theorem sp2 : (sp[2]?).isSome = true := by rw [List.getElem?_eq_getElem (by rw [sp_length]; decide)]; rfl

/-- the commit times of the multi-process run: leg 2 (cell boundary, 1/14) is not before leg 1 (sampling, 1/28) -/
example : xcfg.lt ((sp[2]?).get sp2).time ((sp[1]?).get sp1).time = false :=
  commit_times_sorted_closed_mp mpRun3 dumpQuiet_shipped.1 tieFree6 (i := 1) (j := 2) (by decide) (by decide)
    (Option.some_get sp1).symm (Option.some_get sp2).symm

/-- `no_sample_skipped_mp`: in leg 2 of the multi-process run the sampling candidate 3/28 is pending; the committed time is not later -/
example : xcfg.lt (.fin ⟨0, 3/28⟩) ((sp[2]?).get sp2).time = false :=
  (no_sample_skipped_mp mpRun3 (k := 2) (cm := c3) (by simp [cs6]) (Option.some_get sp2).symm (hs := 4)
    (ts := .fin ⟨0, 3/28⟩) (by decide) (by decide +kernel) rfl).1

/-! ### the concrete world `cwWorld`: the first leg (start of run) of the same configuration under the multi-process machine -/

def g0 : GW := ⟨us0, occ0, false⟩
def candCW : HandlerId → Nat → GW → XTime := fun h _ _ => cand1 h
def outCW : HandlerId → Nat → GW → Option (Kin.Ev ℚ) := fun _ _ _ => some (.start ⟨0, 0⟩ 0 [1])
def WC : World GW (Option (Kin.Ev ℚ)) XTime := cwWorld env cfg candCW outCW
def spC : List (MP.Commit GW XTime (Option (Kin.Ev ℚ))) := spRun L static WC 1 g0 (fun _ => g0)

theorem mp_okC : mpRun L static WC cfg3 [[[7]]] g0 (fun _ => g0) = .ok spC := by
  rcases mp_refines_spRun L static WC cfg3 [[[7]]] g0 (fun _ => g0) with h | ⟨m, h | h⟩
  · exact h
  · have : (mpRun L static WC cfg3 [[[7]]] g0 (fun _ => g0)).toOption.isSome = true := by decide +kernel
    rw [h] at this; cases this
  · have : (mpRun L static WC cfg3 [[[7]]] g0 (fun _ => g0)).toOption.isSome = true := by decide +kernel
    rw [h] at this; cases this

theorem legsC : runLegs (mwire cfg 7 needs) (specI xcfg) (MedState.init (specI xcfg) (mwire cfg 7 needs).w)
    (oracles WC 0 g0 spC) = ([c1], some s1.med) := by
  have h1 : oracles WC 0 g0 spC = [mkO s0.us occ0 cand1] := by
    simp only [spC, spRun, MP.runSP, oracles]
    rfl
  have hl : leg (mwire cfg 7 needs) (specI xcfg) (MedState.init (specI xcfg) (mwire cfg 7 needs).w)
      (mkO s0.us occ0 cand1) = .ok (s1.med, c1) := step1.leg
  rw [h1, runLegs_cons', hl]
  simp only
  rw [if_neg (by decide +kernel)]
  have hn := runLegs_nil' (mwire cfg 7 needs) (specI xcfg) s1.med
  rw [hn]
  rfl

/-- **`MovesCW` holds**, hence the run is an `MPRun` over the concrete world (`mpRun_cw`) -/
theorem mpRunC : MPRun hyp needs geo WC gwView g0 spC [c1] := by
  refine mpRun_cw hyp mp_okC (s0 := s0) init0 rfl rfl rfl legsC ?_
  simp only [spC, spRun, MP.runSP]
  refine ⟨⟨rfl, ?_, ⟨0, 0⟩, by decide +kernel, ?_⟩, trivial⟩
  · exact step1.cands
  · show allowedEv (kindOfH cfg c1.handler) (.start ⟨0, 0⟩ 0 [1]) = true ∧ _
    exact ⟨by decide +kernel, rfl, by decide, velOK1, init0.rest⟩

example : ∃ s, Tracks gwView g0 spC [c1] s ∧ JInv env geo cfg 7 needs [c1] s :=
  joint_inv_mp mpRunC (tieFree_take (k := 1) tieFree6)

end Example

end JF.SystemInvMP
