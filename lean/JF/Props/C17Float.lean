import JF.Props.C14Float
import JF.Model.Sampling
import Mathlib.Tactic.Linarith
import Mathlib.Tactic.Ring
import Mathlib.Tactic.Positivity
/-!
# C17, rounding-abstract reading — "float rounding that does not grow with k beyond one rounding per step"

The sampling clock of `fixed_interval_sampling_event_handler.py` (`self._event_time += self._sampling_interval`,
model `JF.Sampling.clock`) read over `R fm` for an ARBITRARY `fm : FloatModel` (`JF/Num/Rounded.lean`; binary64
round-to-nearest-even is a proved instance, `eps = 2^-53`): every tick is one `Time.__add__`, whose only rounding is
that of `remainder + interval` (`C14F.add_one_rounding`), so after `k` ticks

  `|t_k − k·δ| ≤ k · eps · (1 + δ)`,

each step contributing ONE relative rounding error of a number below `1 + δ`, whatever the size of the quotient
(the run time) already is. The clock stays representable and normalised (`Rep`) all the way.

Range of the statement: `δ ∈ F`, `0 ≤ δ ≤ 2^40`, and `k · (2^40 + 1) ≤ 2^52` ticks (the quotient stays below `2^52`,
the range in which `Time.__add__`'s integer additions are exact) — for `δ ≤ 1` that is more than `4·10^3` ticks at the
crudest bound; `clock_error_of_q` below replaces the crude tick bound by the actual hypothesis `q_j ≤ 2^52`.
`first_event_time_zero = False` (the clock starts at `Time(0.0, 0.0)`). NOT covered here (the statement is `_partial` in
that sense): `first_event_time_zero = True`, where the clock starts at `Time.from_float(-δ)`, a `divmod` of a negative
number whose remainder `fl(fmod(−δ, 1) + 1)` is itself rounded; that start is covered by the exact reading (`C17.clock_val`),
by the bit-exact correspondence of the clock and by the Fraction oracle on the implementation (`harness/props/c17.py`).
-/
namespace JF.C17F
open JF JF.R JF.C14F JF.Sampling

variable {fm : FloatModel}

/-- the invariant carried through the ticks -/
structure ClockInv (fm : FloatModel) (delta : R fm) (k : ℕ) (t : Time (R fm)) : Prop where
  rep : Rep fm t
  q_nonneg : 0 ≤ toQ t.q
  q_le : toQ t.q ≤ (k : ℚ) * (2 ^ 40 + 1)
  err : |val t - (k : ℚ) * toQ delta| ≤ (k : ℚ) * (fm.eps * (1 + toQ delta))

theorem clock_zero (delta : R fm) : clock (Ops.rounded fm) delta false 0 = ⟨ofQ 0, ofQ 0⟩ := by
  simp only [clock, clockInit, Bool.not_false, if_true]
  rfl

theorem inv_zero (delta : R fm) : ClockInv fm delta 0 (clock (Ops.rounded fm) delta false 0) := by
  rw [clock_zero]
  refine ⟨⟨⟨0, by simp⟩, ?_, ?_, by simp, by simp⟩, by simp, by simp, by simp [val]⟩
  · simpa using fm.zero_mem
  · simpa using fm.zero_mem

/-- one tick: the invariant is preserved, given that the quotient is still below `2^52` -/
theorem inv_step (delta : R fm) (hdF : toQ delta ∈ fm.F) (hd0 : 0 ≤ toQ delta) (hd1 : toQ delta ≤ 2 ^ 40)
    (k : ℕ) (t : Time (R fm)) (h : ClockInv fm delta k t) (hq : toQ t.q ≤ 2 ^ 52) :
    ClockInv fm delta (k + 1) (Time.add (Ops.rounded fm) t delta) := by
  have hqa : |toQ t.q| ≤ 2 ^ 52 := by rw [abs_of_nonneg h.q_nonneg]; exact hq
  have hb := add_q_bound h.rep hqa hd0 hd1
  have he := add_error h.rep hqa hdF hd0 hd1
  refine ⟨add_normalised h.rep hqa hd0 hd1, le_trans h.q_nonneg hb.1, ?_, ?_⟩
  · have := h.q_le
    push_cast
    linarith [hb.2]
  · have hr : fm.eps * (toQ t.r + toQ delta) ≤ fm.eps * (1 + toQ delta) :=
      mul_le_mul_of_nonneg_left (by linarith [h.rep.r_lt]) fm.eps_nonneg
    have e : val (Time.add (Ops.rounded fm) t delta) - ((k + 1 : ℕ) : ℚ) * toQ delta
        = (val (Time.add (Ops.rounded fm) t delta) - (val t + toQ delta)) + (val t - (k : ℚ) * toQ delta) := by
      push_cast; ring
    rw [e]
    calc |(val (Time.add (Ops.rounded fm) t delta) - (val t + toQ delta)) + (val t - (k : ℚ) * toQ delta)|
        ≤ |val (Time.add (Ops.rounded fm) t delta) - (val t + toQ delta)| + |val t - (k : ℚ) * toQ delta| :=
          abs_add_le _ _
      _ ≤ fm.eps * (1 + toQ delta) + (k : ℚ) * (fm.eps * (1 + toQ delta)) := add_le_add (le_trans he hr) h.err
      _ = ((k + 1 : ℕ) : ℚ) * (fm.eps * (1 + toQ delta)) := by push_cast; ring

/-- **the clock after `k` ticks** (crude tick bound): representable, normalised, and within `k` single roundings of
`k·δ` -/
theorem clock_inv (delta : R fm) (hdF : toQ delta ∈ fm.F) (hd0 : 0 ≤ toQ delta) (hd1 : toQ delta ≤ 2 ^ 40) :
    ∀ k : ℕ, (k : ℚ) * (2 ^ 40 + 1) ≤ 2 ^ 52 → ClockInv fm delta k (clock (Ops.rounded fm) delta false k)
  | 0, _ => inv_zero delta
  | k + 1, hk => by
    have hk' : (k : ℚ) * (2 ^ 40 + 1) ≤ 2 ^ 52 := by
      have : ((k + 1 : ℕ) : ℚ) * (2 ^ 40 + 1) = (k : ℚ) * (2 ^ 40 + 1) + (2 ^ 40 + 1) := by push_cast; ring
      rw [this] at hk
      have : (0:ℚ) ≤ 2 ^ 40 + 1 := by positivity
      linarith
    have ih := clock_inv delta hdF hd0 hd1 k hk'
    exact inv_step delta hdF hd0 hd1 k _ ih (le_trans ih.q_le hk')

/-- **C17, float clause**: the `k`-th sample time deviates from `k·δ` by at most `k` roundings, each of relative size
`eps` on a number below `1 + δ` — the deviation per step does not depend on `k` or on the run time. -/
theorem clock_error (delta : R fm) (hdF : toQ delta ∈ fm.F) (hd0 : 0 ≤ toQ delta) (hd1 : toQ delta ≤ 2 ^ 40)
    (k : ℕ) (hk : (k : ℚ) * (2 ^ 40 + 1) ≤ 2 ^ 52) :
    |val (clock (Ops.rounded fm) delta false k) - (k : ℚ) * toQ delta| ≤ (k : ℚ) * (fm.eps * (1 + toQ delta)) :=
  (clock_inv delta hdF hd0 hd1 k hk).err

theorem clock_rep (delta : R fm) (hdF : toQ delta ∈ fm.F) (hd0 : 0 ≤ toQ delta) (hd1 : toQ delta ≤ 2 ^ 40)
    (k : ℕ) (hk : (k : ℚ) * (2 ^ 40 + 1) ≤ 2 ^ 52) : Rep fm (clock (Ops.rounded fm) delta false k) :=
  (clock_inv delta hdF hd0 hd1 k hk).rep

/-- the same with the real range: as long as every earlier quotient is at most `2^52` (run times up to `4.5·10^15`),
for any number of ticks -/
theorem clock_error_of_q (delta : R fm) (hdF : toQ delta ∈ fm.F) (hd0 : 0 ≤ toQ delta) (hd1 : toQ delta ≤ 2 ^ 40) :
    ∀ k : ℕ, (∀ j < k, toQ (clock (Ops.rounded fm) delta false j).q ≤ 2 ^ 52) →
      ClockInv fm delta k (clock (Ops.rounded fm) delta false k)
  | 0, _ => inv_zero delta
  | k + 1, hq => by
    have ih := clock_error_of_q delta hdF hd0 hd1 k (fun j hj => hq j (Nat.lt_succ_of_lt hj))
    exact inv_step delta hdF hd0 hd1 k _ ih (hq k (Nat.lt_succ_self k))

/-- the relative form: for `k ≥ 1` ticks the deviation is at most `eps · (1 + 1/δ)` times the nominal time — it does
not accumulate beyond one rounding per step -/
theorem clock_relative_error (delta : R fm) (hdF : toQ delta ∈ fm.F) (hd0 : 0 < toQ delta) (hd1 : toQ delta ≤ 2 ^ 40)
    (k : ℕ) (hk : (k : ℚ) * (2 ^ 40 + 1) ≤ 2 ^ 52) :
    |val (clock (Ops.rounded fm) delta false k) - (k : ℚ) * toQ delta|
      ≤ fm.eps * (1 + 1 / toQ delta) * ((k : ℚ) * toQ delta) := by
  have h := clock_error delta hdF hd0.le hd1 k hk
  have e : fm.eps * (1 + 1 / toQ delta) * ((k : ℚ) * toQ delta) = (k : ℚ) * (fm.eps * (1 + toQ delta)) := by
    field_simp
    ring
  rw [e]; exact h

/-- binary64: `|t_k − k·δ| ≤ k · 2^-53 · (1 + δ)` — the bound the run-level oracle of `harness/runs.py` measures -/
theorem clock_error_binary64 (delta : R FloatModel.binary64) (hdF : toQ delta ∈ FloatModel.binary64.F)
    (hd0 : 0 ≤ toQ delta) (hd1 : toQ delta ≤ 2 ^ 40) (k : ℕ) (hk : (k : ℚ) * (2 ^ 40 + 1) ≤ 2 ^ 52) :
    |val (clock (Ops.rounded FloatModel.binary64) delta false k) - (k : ℚ) * toQ delta|
      ≤ (k : ℚ) * (1 / 2 ^ 53 * (1 + toQ delta)) := by
  have := clock_error (fm := FloatModel.binary64) delta hdF hd0 hd1 k hk
  rw [binary64_eps] at this
  exact this

/-! ### the hypotheses are satisfiable (and the bound is not vacuous: the additions really round in binary64) -/

example : toQ dLarge ∈ fx.F ∧ (0:ℚ) ≤ toQ dLarge ∧ toQ dLarge ≤ 2 ^ 40 ∧ ((4000 : ℕ) : ℚ) * (2 ^ 40 + 1) ≤ 2 ^ 52 :=
  ⟨dLarge_mem, by simp [dLarge], by simp [dLarge], by norm_num⟩

example : |val (clock (Ops.rounded fx) dLarge false 4000) - ((4000 : ℕ) : ℚ) * toQ dLarge|
    ≤ ((4000 : ℕ) : ℚ) * (fx.eps * (1 + toQ dLarge)) :=
  clock_error dLarge dLarge_mem (by simp [dLarge]) (by simp [dLarge]) 4000 (by norm_num)

example : |val (clock (Ops.rounded b64) dTiny64 false 7) - ((7 : ℕ) : ℚ) * toQ dTiny64|
    ≤ ((7 : ℕ) : ℚ) * (1 / 2 ^ 53 * (1 + toQ dTiny64)) :=
  clock_error_binary64 dTiny64 dTiny64_mem (by simp [dTiny64]) (by simp [dTiny64]; norm_num) 7 (by norm_num)

end JF.C17F
