import JF.Model.PiecewiseBounding
import JF.Lemmas.PiecewiseSteps
import JF.Props.C04
import Mathlib.Tactic.Linarith
import Mathlib.Tactic.Ring
import Mathlib.Tactic.FieldSimp
import Mathlib.Tactic.NormNum
import Mathlib.Algebra.Order.Field.Basic
/-!
# C04 for the piecewise-constant bounding family

Theorems about the model `JF.Model.PiecewiseBounding` of

* `EventHandlerWithPiecewiseConstantBoundingPotential._displacement_from_piecewise_constant_bounding_potential`,
* `TwoLeafUnitEventHandlerWithPiecewiseConstantBoundingPotential`,
* `FixedSeparationsEventHandlerWithPiecewiseConstantBoundingPotential`

(tied to /repo by the correspondence run of `harness/c04_piecewise.py`: sequences of candidates on one real handler
object, bit for bit).  A handler object is the state machine `step` / `after` over its calls.

* Part A — **cache discipline**: after every successful `send_event_time`, for every history of the object, the cache
  `_bounding_event_rate` is `some b` exactly when the candidate is a genuine proposal (`0 < b ∧ E / b < max_displacement`,
  `b = max(q_now, q_ahead) + offset`) and `none` exactly when it is a relocation by `max_displacement`; the value does not
  depend on the past of the object.  For every history a cached rate is positive (the `assert … >= 0.0` of the
  fixed-separations class never fires).
* Part B — **decision kernel** (every scalar type, then exact reading): confirmed ⇔ cache = some b ∧ 0 < q ∧ draw < q;
  relocation and rejection return the stored state unchanged (every velocity, time stamp, position); a relocation is
  never confirmed whatever was cached before; accepting draws `[0, max(0,q)/b)`; acceptance probability as Lebesgue measure.
* Part C — thinning identity.
* Part D — **soundness of the local bound, conditional**: under the named hypothesis `LocalBound` the proposal rate
  dominates the true rate on the whole stretch `[0, max_displacement]`, the proposal lies before `x` exactly when the budget is
  below `b·x`, the proposed point is confirmed with probability `max(0,q(x))/b`, so proposals × acceptance = `max(0, q(x))`
  pointwise; a relocation happens exactly when no proposal falls on the stretch (or the true rate vanishes on it) and
  restarts the construction at `max_displacement`.  The integral form (survival of the composed process to distance `x` is
  `exp(-β ∫₀ˣ max(0,q))`) is NOT proved: see `stretch_sound_partial`.
-/
namespace JF.C04P
open JF JF.Thin JF.Pcb JF.C04 MeasureTheory

/-! ## Part A — the three branches and the cache, exact reading -/

theorem pymax_eq (a b : ℚ) : pymax a b = max a b := by
  unfold pymax
  split
  · next h => exact (max_eq_right h.le).symm
  · next h => exact (max_eq_left (not_lt.mp h)).symm

theorem boundRate_eq (q1 q2 off : ℚ) : boundRate q1 q2 off = max q1 q2 + off := by
  simp [boundRate, pymax_eq]

/-- a candidate is a *genuine proposal* when the locally constant rate is positive and the proposed distance lies
before `max_displacement` -/
def Proposal (q1 q2 off dmax E : ℚ) : Prop := 0 < max q1 q2 + off ∧ E / (max q1 q2 + off) < dmax

instance (q1 q2 off dmax E : ℚ) : Decidable (Proposal q1 q2 off dmax E) := by unfold Proposal; infer_instance

/-- the routine in closed form -/
theorem displacement_eq (q1 q2 off dmax E : ℚ) :
    displacement Ops.rat q1 q2 off dmax E =
      (if 0 < max q1 q2 + off ∧ E / (max q1 q2 + off) < dmax then (E / (max q1 q2 + off), some (max q1 q2 + off))
       else (dmax, none)) := by
  unfold displacement
  simp only [boundRate_eq, rat0]
  by_cases h1 : max q1 q2 + off ≤ 0
  · simp [h1, not_lt.mpr h1]
  · by_cases h2 : E / (max q1 q2 + off) < dmax
    · simp [h1, h2, not_le.mp h1]
    · simp [h1, h2]

/-- **cache = some b ⇔ genuine proposal with rate b** -/
theorem cache_some_iff (q1 q2 off dmax E b : ℚ) :
    (displacement Ops.rat q1 q2 off dmax E).2 = some b ↔ b = max q1 q2 + off ∧ 0 < b ∧ E / b < dmax := by
  rw [displacement_eq]
  split
  · next h =>
    constructor
    · intro hb
      have : max q1 q2 + off = b := by simpa using hb
      subst this; exact ⟨rfl, h.1, h.2⟩
    · rintro ⟨rfl, _, _⟩; rfl
  · next h =>
    constructor
    · intro hb; cases hb
    · rintro ⟨rfl, h1, h2⟩; exact absurd ⟨h1, h2⟩ h

/-- **cache = none ⇔ relocation** (and then the displacement is `max_displacement`) -/
theorem cache_none_iff (q1 q2 off dmax E : ℚ) :
    (displacement Ops.rat q1 q2 off dmax E).2 = none ↔ ¬ Proposal q1 q2 off dmax E := by
  rw [displacement_eq]; unfold Proposal
  split
  · next h => simp [h]
  · next h => simp [h]

theorem displacement_fst (q1 q2 off dmax E : ℚ) :
    (displacement Ops.rat q1 q2 off dmax E).1 =
      (if Proposal q1 q2 off dmax E then E / (max q1 q2 + off) else dmax) := by
  rw [displacement_eq]; unfold Proposal
  by_cases h : 0 < max q1 q2 + off ∧ E / (max q1 q2 + off) < dmax <;> simp [h]

/-- **Cache discipline, for every history of one handler object** (exact reading).  Whatever calls `hs` the object has seen
since any state `h0` (in particular since its construction), if the next `send_event_time` succeeds then, with `q1`, `q2`
the two derivatives it picked: the cache holds `b` iff `b = max(q1,q2) + offset`, `0 < b` and `E/b < max_displacement`; the
cache is empty iff the candidate is a relocation; the returned (= stored) time is the active unit's time stamp plus `E/b`
respectively plus `max_displacement`. -/
theorem cache_discipline (p : Params ℚ) (h0 : HState ℚ) (hs : List (Step ℚ)) (s : List (CNode ℚ)) (E : ℚ)
    (d1 d2 : Deriv ℚ) {h' : HState ℚ} {t : Time ℚ} {calls : List (PCall ℚ)}
    (hstep : step Ops.rat p (after Ops.rat p h0 hs) (.evt s E d1 d2) = (h', .time t calls)) :
    ∃ q1 q2 au ts, d1.pick h'.ai = .ok q1 ∧ d2.pick h'.ai = .ok q2 ∧
      activeIndex s = some h'.ai ∧ (leafUnits s)[h'.ai]? = some au ∧ au.ts = some ts ∧
      (∀ b, h'.cache = some b ↔ b = max q1 q2 + p.offset ∧ 0 < b ∧ E / b < p.dmax) ∧
      (h'.cache = none ↔ ¬ Proposal q1 q2 p.offset p.dmax E) ∧
      t = Time.add Ops.rat ts (if Proposal q1 q2 p.offset p.dmax E then E / (max q1 q2 + p.offset) else p.dmax) ∧
      h'.et = some t ∧ h'.st = some (sliceState Ops.rat p t s) := by
  obtain ⟨q1, q2, au, ts, _, _, hai, hau, hts, hp1, hp2, hc, ht, het, hst, _⟩ := evt_spec _ _ _ _ _ _ _ hstep
  refine ⟨q1, q2, au, ts, hp1, hp2, hai, hau, hts, fun b => ?_, ?_, ?_, het, hst⟩
  · rw [hc]; exact cache_some_iff _ _ _ _ _ _
  · rw [hc]; exact cache_none_iff _ _ _ _ _
  · rw [ht, displacement_fst]

/-- **the cache is a function of the last `send_event_time` alone**: two objects with arbitrary different pasts that are
asked for the same candidate end with the same cache, time and stored state -/
theorem cache_history_free (p : Params ℚ) (h0 h0' : HState ℚ) (hs hs' : List (Step ℚ)) (s : List (CNode ℚ)) (E : ℚ)
    (d1 d2 : Deriv ℚ) :
    step Ops.rat p (after Ops.rat p h0 hs) (.evt s E d1 d2) = step Ops.rat p (after Ops.rat p h0' hs') (.evt s E d1 d2) ∨
    (∃ e, (step Ops.rat p (after Ops.rat p h0 hs) (.evt s E d1 d2)).2 = .err e ∧
          (step Ops.rat p (after Ops.rat p h0' hs') (.evt s E d1 d2)).2 = .err e) := by
  simp only [step]
  cases sendEventTime Ops.rat p s E d1 d2 with
  | error e => exact Or.inr ⟨e, rfl, rfl⟩
  | ok r => exact Or.inl rfl

/-- for every history since the construction of the object a cached rate is positive
(so `uniform(0, b)` is a draw from a proper interval and `assert bounding_event_rate >= 0.0` cannot fire) -/
theorem cached_rate_positive (p : Params ℚ) (hs : List (Step ℚ)) (b : ℚ)
    (hb : (after Ops.rat p HState.init hs).cache = some b) : 0 < b := by
  have := cacheInv_after Ops.rat p HState.init hs (cacheInv_init Ops.rat) b hb
  simpa using this

/-! ## Part B — the decision kernel -/

/-- **relocation ⇒ nothing happens, whatever was cached before** (every scalar type): if `send_event_time` produced a
relocation (`cache = none` after it — by Part A: iff the candidate is not a genuine proposal), the following
`send_out_state` asks neither the potential nor the random number generator, confirms nothing and returns the stored,
time-sliced in-state.  This is the statement a stale cache violates. -/
theorem relocation_never_confirmed {α : Type} [Add α] [Sub α] [Mul α] [Div α] [Neg α] [LT α] [DecidableLT α] [LE α]
    [DecidableLE α] [BEq α] (o : Ops α) (p : Params α) (h : HState α) (s : List (CNode α)) (E : α) (d1 d2 : Deriv α)
    {h1 : HState α} {t : Time α} {calls : List (PCall α)}
    (hevt : step o p h (.evt s E d1 d2) = (h1, .time t calls)) (hnone : h1.cache = none)
    (d : Deriv α) (dr : Draw α) (nid : List Nat) {h2 : HState α} {r : Out α}
    (hout : step o p h1 (.out d dr nid) = (h2, .out r)) :
    r = Out.idle (sliceState o p t s) [] ∧ h2 = h1 := by
  obtain ⟨_, _, _, _, _, _, _, _, _, _, _, _, _, _, hst, _⟩ := evt_spec _ _ _ _ _ _ _ hevt
  obtain ⟨h2eq, st, et, hst', _, hspec⟩ := out_spec _ _ _ _ _ _ hout
  rw [hst] at hst'
  cases hst'
  have hr := hspec.1 hnone
  refine ⟨hr, ?_⟩
  rw [h2eq, hr]
  cases h1
  simp only [Out.idle] at *
  simp_all

/-- in the exact reading, in terms of the inputs: not a genuine proposal ⇒ never confirmed, state unchanged -/
theorem relocation_never_confirmed_exact (p : Params ℚ) (h0 : HState ℚ) (hs : List (Step ℚ)) (s : List (CNode ℚ)) (E : ℚ)
    (d1 d2 : Deriv ℚ) {h1 : HState ℚ} {t : Time ℚ} {calls : List (PCall ℚ)}
    (hevt : step Ops.rat p (after Ops.rat p h0 hs) (.evt s E d1 d2) = (h1, .time t calls))
    (q1 q2 : ℚ) (hp1 : d1.pick h1.ai = .ok q1) (hp2 : d2.pick h1.ai = .ok q2) (hrel : ¬ Proposal q1 q2 p.offset p.dmax E)
    (d : Deriv ℚ) (dr : Draw ℚ) (nid : List Nat) {h2 : HState ℚ} {r : Out ℚ}
    (hout : step Ops.rat p h1 (.out d dr nid) = (h2, .out r)) :
    r.confirmed = false ∧ r.st = sliceState Ops.rat p t s ∧ r.uni = none ∧ r.calls = [] := by
  obtain ⟨q1', q2', _, _, hp1', hp2', _, _, _, _, hnone, _⟩ := cache_discipline p h0 hs s E d1 d2 hevt
  rw [hp1] at hp1'; rw [hp2] at hp2'
  cases hp1'; cases hp2'
  obtain ⟨hr, _⟩ := relocation_never_confirmed _ _ _ _ _ _ _ hevt (hnone.mpr hrel) d dr nid hout
  rw [hr]; exact ⟨rfl, rfl, rfl, rfl⟩

/-- **confirmed ⇔ cache = some b ∧ 0 < q ∧ draw < q** (every scalar type); unconfirmed ⇒ the stored state is returned
unchanged and the lifting scheme is not filled -/
theorem confirmed_iff {α : Type} [Add α] [Sub α] [Mul α] [Div α] [Neg α] [LT α] [DecidableLT α] [LE α]
    [DecidableLE α] [BEq α] (o : Ops α) (p : Params α) (h : HState α) (d : Deriv α) (dr : Draw α) (nid : List Nat)
    {h' : HState α} {r : Out α} (hs : step o p h (.out d dr nid) = (h', .out r)) :
    (r.confirmed = true ↔ ∃ b q, h.cache = some b ∧ trueDeriv p h.ai d = some q ∧ o.ofInt 0 < q ∧ dr.get o b < q) ∧
    (r.confirmed = false → h.st = some r.st ∧ r.inserts = []) ∧
    h'.cache = h.cache ∧ h'.et = h.et ∧ h'.ai = h.ai := by
  obtain ⟨h2eq, st, et, hst, _, hspec⟩ := out_spec _ _ _ _ _ _ hs
  refine ⟨?_, ?_, by rw [h2eq], by rw [h2eq], by rw [h2eq]⟩
  · cases hc : h.cache with
    | none =>
      rw [hspec.1 hc]
      simp [Out.idle]
    | some b =>
      obtain ⟨q, hq, hcf, _⟩ := hspec.2 b hc
      rw [hcf]
      simp only [confirmLeaf, Bool.and_eq_true, decide_eq_true_eq]
      constructor
      · intro hh; exact ⟨b, q, rfl, hq, hh.1, hh.2⟩
      · rintro ⟨b', q', hb', hq', h1, h2⟩
        cases hb'; rw [hq] at hq'; cases hq'
        exact ⟨h1, h2⟩
  · intro hcf
    cases hc : h.cache with
    | none =>
      rw [hspec.1 hc]
      simp [Out.idle, hst]
    | some b =>
      obtain ⟨q, _, _, hun, _⟩ := hspec.2 b hc
      obtain ⟨h1, h2⟩ := hun hcf
      rw [h1, hst]; exact ⟨rfl, h2⟩

/-- every velocity of the stored state, in state order -/
def velocities {α : Type} (st : List (CNode α)) : List (Option (List α)) :=
  st.flatMap fun c => c.unit.vel :: c.children.map (·.1.vel)

/-- **relocation and rejection leave every velocity unchanged** (every scalar type) -/
theorem unconfirmed_velocities {α : Type} [Add α] [Sub α] [Mul α] [Div α] [Neg α] [LT α] [DecidableLT α] [LE α]
    [DecidableLE α] [BEq α] (o : Ops α) (p : Params α) (h : HState α) (d : Deriv α) (dr : Draw α) (nid : List Nat)
    {h' : HState α} {r : Out α} (hs : step o p h (.out d dr nid) = (h', .out r)) (hcf : r.confirmed = false) :
    h.st.map velocities = some (velocities r.st) ∧ h' = h := by
  obtain ⟨_, hun, _⟩ := confirmed_iff o p h d dr nid hs
  obtain ⟨hst, _⟩ := hun hcf
  obtain ⟨h2eq, _⟩ := out_spec _ _ _ _ _ _ hs
  refine ⟨by rw [hst]; rfl, ?_⟩
  rw [h2eq, ← hst]

/-- **Exact reading: the accepting draws.**  A proposal with cached rate `b` (positive by Part A) whose true derivative at
the proposed point is `q ≤ b`, decided with `random() = u ≥ 0`: confirmed iff `u < max(0,q)/b ∈ [0,1]`; no warning. -/
theorem pcb_thinning_exact (p : Params ℚ) (h : HState ℚ) (d : Deriv ℚ) (u : ℚ) (nid : List Nat) {h' : HState ℚ} {r : Out ℚ}
    (hs : step Ops.rat p h (.out d (.unit u) nid) = (h', .out r)) (b q : ℚ) (hc : h.cache = some b) (hb : 0 < b)
    (hq : trueDeriv p h.ai d = some q) (hle : q ≤ b) (hu : 0 ≤ u) :
    (r.confirmed = true ↔ u < max 0 q / b) ∧ 0 ≤ max 0 q / b ∧ max 0 q / b ≤ 1 ∧ r.warned = false ∧
      (r.confirmed = false → h.st = some r.st) := by
  obtain ⟨_, st, et, hst, _, hspec⟩ := out_spec _ _ _ _ _ _ hs
  obtain ⟨q', hq', hcf, hun, hw, _⟩ := hspec.2 b hc
  rw [hq] at hq'; cases hq'
  refine ⟨?_, div_nonneg (le_max_left _ _) hb.le, ?_, ?_, fun hf => by rw [(hun hf).1, hst]⟩
  · rw [hcf]; exact accept_unit_iff b q u hb hu
  · rw [div_le_one hb]; exact max_le hb.le hle
  · rw [hw]; exact warns_false_of_le _ _ hle

/-- the accepting values of `random()` form the interval `[0, max(0,q)/b)` of length `max(0,q)/b` (`JF.C04.accept_set`,
which is about exactly the comparison `out_spec` shows the two classes make) -/
theorem pcb_accept_set (b q : ℚ) (hb : 0 < b) (hq : q ≤ b) :
    {u : ℚ | 0 ≤ u ∧ u < 1 ∧ confirmLeaf Ops.rat q ((Draw.unit u).get Ops.rat b) = true} = Set.Ico 0 (max 0 q / b) :=
  (accept_set b q hb hq).1

/-- **acceptance probability as Lebesgue measure** (real reading of the comparison; `out_spec` holds for every scalar
type, so also for `ℝ`): for `random()` uniform on `[0,1)` the confirming values have measure `max(0,q)/b` -/
theorem pcb_accept_probability (o : Ops ℝ) (ho : o.ofInt 0 = 0) (b q : ℝ) (hb : 0 < b) (hq : q ≤ b) :
    volume {u : ℝ | u ∈ Set.Ico (0:ℝ) 1 ∧ confirmLeaf o q ((Draw.unit u).get o b) = true}
      = ENNReal.ofReal (max 0 q / b) :=
  accept_probability o ho b q hb hq

/-! ## Part C — the thinning identity -/

/-- proposals at rate `β·b`, each confirmed with probability `max(0,q)/b`: events at rate `β·max(0,q)`, whatever `b` -/
theorem pcb_thinned_rate (β b q : ℚ) (hb : 0 < b) : (β * b) * (max 0 q / b) = β * max 0 q := by
  field_simp

/-! ## Part D — soundness of the local bound (conditional) -/

/-- **The hypothesis the configured `offset` has to guarantee**: along the stretch of length `dmax` ahead of the active
unit (`q x` = true derivative with the active unit displaced by `x`), the derivative never exceeds the larger of its two
end-point values by more than `offset`. -/
structure LocalBound (q : ℚ → ℚ) (offset dmax : ℚ) : Prop where
  le : ∀ x, 0 ≤ x → x ≤ dmax → q x ≤ max (q 0) (q dmax) + offset

/-- under `LocalBound` the locally constant rate dominates the true event rate on the whole closed stretch; where it is
not positive the true rate vanishes on the whole stretch -/
theorem stretch_dominates (q : ℚ → ℚ) (off dmax : ℚ) (hL : LocalBound q off dmax) :
    (0 < max (q 0) (q dmax) + off → ∀ x, 0 ≤ x → x ≤ dmax → max 0 (q x) ≤ max (q 0) (q dmax) + off) ∧
    (max (q 0) (q dmax) + off ≤ 0 → ∀ x, 0 ≤ x → x ≤ dmax → max 0 (q x) = 0) := by
  refine ⟨fun hb x h0 h1 => max_le hb.le (hL.le x h0 h1), fun hb x h0 h1 => ?_⟩
  exact max_eq_left (le_trans (hL.le x h0 h1) hb)

/-- **One stretch of the piecewise-constant construction is sound, pointwise** (`_partial`: see below).
`q x` is the true derivative `x` ahead, `E ≥ 0` the exponential budget, `(x₀, c) = displacement (q 0) (q dmax) offset dmax E`
what the handler computes.  Under `LocalBound`:

* `c = some b` (genuine proposal): `b = max(q 0, q dmax) + offset > 0`, the proposed point `x₀ = E/b` lies in `[0, dmax)`,
  `b` dominates `max(0, q y)` on all of `[0, dmax]`, for every `y ≤ dmax` the proposal lies before `y` iff `E < b·y` (the
  proposal process has constant rate `b`: with `P(E > e) = exp(-βe)` that is `P(no proposal before y) = exp(-β b y)`), the
  proposal is confirmed iff `u < max(0, q x₀)/b ∈ [0,1]`, and rate × acceptance = `β·max(0, q x₀)`;
* `c = none` (relocation): `x₀ = dmax`, and either the true rate vanishes on the whole stretch (`b ≤ 0`) or `b > 0`
  dominates and no proposal falls on the stretch (`b·dmax ≤ E`, which has probability `exp(-β b dmax)`): the process is
  restarted at `dmax` with the budget's memorylessness.

**What is missing** (hence `_partial`): the integral statement that the composed process (proposals, rejections and
relocations, each restarting the construction) has survival `exp(-β ∫₀ˣ max(0, q))` to distance `x`.  That needs the
exponential law of `E` and an integral/renewal argument in measure theory and is not formalised; the pointwise identities
above are its integrand. -/
theorem stretch_sound_partial (q : ℚ → ℚ) (off dmax β E : ℚ) (hE : 0 ≤ E)
    (hL : LocalBound q off dmax) :
    (∀ b, (displacement Ops.rat (q 0) (q dmax) off dmax E).2 = some b →
        b = max (q 0) (q dmax) + off ∧ 0 < b ∧
        (displacement Ops.rat (q 0) (q dmax) off dmax E).1 = E / b ∧ 0 ≤ E / b ∧ E / b < dmax ∧
        (∀ y, 0 ≤ y → y ≤ dmax → max 0 (q y) ≤ b) ∧
        (∀ y, E / b < y ↔ E < b * y) ∧
        0 ≤ max 0 (q (E / b)) / b ∧ max 0 (q (E / b)) / b ≤ 1 ∧
        (∀ u, 0 ≤ u → (confirmLeaf Ops.rat (q (E / b)) ((Draw.unit u).get Ops.rat b) = true ↔ u < max 0 (q (E / b)) / b)) ∧
        (β * b) * (max 0 (q (E / b)) / b) = β * max 0 (q (E / b))) ∧
    ((displacement Ops.rat (q 0) (q dmax) off dmax E).2 = none →
        (displacement Ops.rat (q 0) (q dmax) off dmax E).1 = dmax ∧
        ((max (q 0) (q dmax) + off ≤ 0 ∧ ∀ y, 0 ≤ y → y ≤ dmax → max 0 (q y) = 0) ∨
         (0 < max (q 0) (q dmax) + off ∧ (max (q 0) (q dmax) + off) * dmax ≤ E ∧
            ∀ y, 0 ≤ y → y ≤ dmax → max 0 (q y) ≤ max (q 0) (q dmax) + off))) := by
  have hdom := stretch_dominates q off dmax hL
  constructor
  · intro b hb
    obtain ⟨rfl, hb0, hlt⟩ := (cache_some_iff _ _ _ _ _ _).mp hb
    have hx0 : 0 ≤ E / (max (q 0) (q dmax) + off) := div_nonneg hE hb0.le
    have hfst : (displacement Ops.rat (q 0) (q dmax) off dmax E).1 = E / (max (q 0) (q dmax) + off) := by
      rw [displacement_fst, if_pos ⟨hb0, hlt⟩]
    have hqle : q (E / (max (q 0) (q dmax) + off)) ≤ max (q 0) (q dmax) + off := hL.le _ hx0 hlt.le
    refine ⟨rfl, hb0, hfst, hx0, hlt, hdom.1 hb0, fun y => ?_, div_nonneg (le_max_left _ _) hb0.le, ?_, fun u hu => ?_,
      pcb_thinned_rate _ _ _ hb0⟩
    · rw [div_lt_iff₀ hb0, mul_comm]
    · rw [div_le_one hb0]; exact max_le hb0.le hqle
    · exact accept_unit_iff _ _ u hb0 hu
  · intro hn
    have hrel := (cache_none_iff _ _ _ _ _).mp hn
    refine ⟨by rw [displacement_fst, if_neg hrel], ?_⟩
    unfold Proposal at hrel
    rcases le_or_gt (max (q 0) (q dmax) + off) 0 with hb | hb
    · exact Or.inl ⟨hb, hdom.2 hb⟩
    · refine Or.inr ⟨hb, ?_, hdom.1 hb⟩
      have : ¬ E / (max (q 0) (q dmax) + off) < dmax := fun h => hrel ⟨hb, h⟩
      have := not_lt.mp this
      rwa [le_div_iff₀ hb, mul_comm] at this

/-! ## Non-vacuity -/

/-- an increasing and a decreasing derivative satisfy `LocalBound` without offset -/
example : LocalBound (fun x => x) 0 1 := ⟨fun x _ h1 => by simpa using h1⟩
example : LocalBound (fun x => 1 - 2 * x) 0 1 := ⟨fun x h0 _ => by
  have : (1:ℚ) - 2 * x ≤ 1 - 2 * 0 := by linarith
  exact le_trans this (by simp)⟩

/-- a derivative with an interior maximum (`x(1-x)` on `[0,1]`, both end values `0`) needs the offset: `1/4` suffices … -/
theorem exLocalBound : LocalBound (fun x => x * (1 - x)) (1/4) 1 := ⟨fun x _ _ => by
  have h : x * (1 - x) ≤ 1/4 := by nlinarith [sq_nonneg (x - 1/2)]
  simpa using h⟩

/-- … and offset `0` does not: `LocalBound` is a genuine hypothesis (at `x = 1/2` the derivative is `1/4 > 0 = bound`) -/
theorem exLocalBound_fails : ¬ LocalBound (fun x => x * (1 - x)) 0 1 := fun h => by
  have := h.le (1/2) (by norm_num) (by norm_num)
  norm_num at this

/-- the three branches on concrete numbers: a proposal, a relocation because the budget is too large, a relocation because
the rate is not positive, and the closed end `E/b = max_displacement` (relocation: the test is strict) -/
example : displacement Ops.rat 1 2 (1/2) 1 1 = (2/5, some (5/2)) := by
  rw [displacement_eq]; norm_num
example : displacement Ops.rat 1 2 (1/2) 1 3 = (1, none) := by
  rw [displacement_eq]; norm_num
example : displacement Ops.rat (-1) (-2) (1/2) 1 3 = (1, none) := by
  rw [displacement_eq]; norm_num
example : displacement Ops.rat 1 2 (1/2) 1 (5/2) = (1, none) := by
  rw [displacement_eq]; norm_num
example : displacement Ops.rat 0 0 0 1 0 = (1, none) := by
  rw [displacement_eq]; norm_num

example := stretch_sound_partial (fun x => x * (1 - x)) (1/4) 1 1 (1/8) (by norm_num) exLocalBound
example : (displacement Ops.rat ((fun x : ℚ => x * (1 - x)) 0) ((fun x : ℚ => x * (1 - x)) 1) (1/4) 1 (1/8)).2 = some (1/4) := by
  rw [displacement_eq]; norm_num
example := pcb_accept_set (5/2) 1 (by norm_num) (by norm_num)
example := pcb_accept_probability Ops.real0 (by simp [Ops.real0]) (5/2) 1 (by norm_num) (by norm_num)

/-! ### the state machine on a concrete handler object (the hypotheses of Parts A and B are satisfiable) -/

def isTime {α : Type} : Reply α → Bool
  | .time _ _ => true
  | _ => false

def confirmedOf {α : Type} : Reply α → Option Bool
  | .out r => some r.confirmed
  | _ => none

theorem exists_time_of_isTime {α : Type} {x : HState α × Reply α} (h : isTime x.2 = true) :
    ∃ h' t calls, x = (h', .time t calls) := by
  obtain ⟨h', r⟩ := x
  cases r with
  | time t calls => exact ⟨h', t, calls, rfl⟩
  | err _ => cases h
  | out _ => cases h

theorem exists_out_of_confirmedOf {α : Type} {x : HState α × Reply α} {cf : Bool} (h : confirmedOf x.2 = some cf) :
    ∃ h' r, x = (h', .out r) ∧ r.confirmed = cf := by
  obtain ⟨h', r⟩ := x
  cases r with
  | out r => exact ⟨h', r, rfl, by simpa [confirmedOf] using h⟩
  | err _ => cases h
  | time _ _ => cases h

/-- a two-leaf handler with charges: offset 1/2, max_displacement 1/5, box 1 -/
def exP : Params ℚ := ⟨.twoLeaf, 1, 3, 1/10^13, 1/2, 1/5, true, 2, []⟩
/-- a fixed-separations handler (bending: separations 1,0,1,2) -/
def exF : Params ℚ := ⟨.fixedSep, 1, 3, 1/10^13, 1/2, 1/5, false, 0, [1, 0, 1, 2]⟩
def exD : CNode ℚ := ⟨⟨[2], [3/10, 7/10, 1/10], 1, none, none⟩, 1, []⟩

/-- a proposal: `b = max(1,2) + 1/2 = 5/2`, `E/b = 1/10 < 1/5` -/
def exProp : Step ℚ := .evt [exA, exB] (1/4) (.scalar 1) (.scalar 2)
/-- a relocation: `E/b = 2/5 ≥ 1/5` -/
def exReloc : Step ℚ := .evt [exA, exB] 1 (.scalar 1) (.scalar 2)

example : isTime (step Ops.rat exP HState.init exProp).2 = true := by decide +kernel
example : (after Ops.rat exP HState.init [exProp]).cache = some (5/2) := by decide +kernel
example : (after Ops.rat exP HState.init [exProp, exReloc]).cache = none := by decide +kernel
example : (after Ops.rat exP HState.init [exReloc, exProp]).cache = some (5/2) := by decide +kernel
/-- the hypothesis of `cache_discipline` / `evt_spec` on a concrete history -/
example : ∃ h' t calls, step Ops.rat exP (after Ops.rat exP HState.init [exProp, exReloc]) exProp = (h', .time t calls) :=
  exists_time_of_isTime (by decide +kernel)
/-- proposal, true derivative `1 ≤ 5/2`: `u = 1/4 < 2/5` confirms, `u = 3/4` does not -/
example : confirmedOf (step Ops.rat exP (after Ops.rat exP HState.init [exProp]) (.out (.scalar 1) (.unit (1/4)) [])).2 = some true := by
  decide +kernel
example : confirmedOf (step Ops.rat exP (after Ops.rat exP HState.init [exProp]) (.out (.scalar 1) (.unit (3/4)) [])).2 = some false := by
  decide +kernel
/-- proposal → relocation → `send_out_state` with a large true derivative and the draw `0`: not confirmed
(the sequence on which a stale cache confirms) -/
example : confirmedOf (step Ops.rat exP (after Ops.rat exP HState.init [exProp, exReloc]) (.out (.scalar 2) (.unit 0) [])).2 = some false := by
  decide +kernel
/-- the fixed-separations class: proposal with the derivative sequence of three units, confirmed, lifted to unit `[2]` -/
example : confirmedOf (step Ops.rat exF
    (after Ops.rat exF HState.init [.evt [exA, exB, exD] (1/4) (.tuple [1, -3, 2]) (.tuple [2, 1, -3])])
    (.out (.tuple [1, -3/2, 1/2]) (.unit (1/4)) [2])).2 = some true := by decide +kernel
example : confirmedOf (step Ops.rat exF
    (after Ops.rat exF HState.init [.evt [exA, exB, exD] (1/4) (.tuple [1, -3, 2]) (.tuple [2, 1, -3])])
    (.out (.tuple [1, -3/2, 1/2]) (.unit (3/4)) [2])).2 = some false := by decide +kernel

/-! ### binary64 reading of the three branches (kernel-evaluated): the strict test at `max_displacement` and the closed
test at zero -/
example : (displacement Ops.float 0.1 0.2 0.1 0.2 0.03).2.isSome = true := by decide +kernel
example : (displacement Ops.float 0.125 0.25 0.25 0.25 0.125).2.isSome = false := by decide +kernel   -- E/b == max_displacement exactly
example : (displacement Ops.float 0.125 0.25 0.25 0.25 0.12499999999999999).2.isSome = true := by decide +kernel   -- one ulp below
example : (displacement Ops.float (-0.1) (-0.2) 0.1 0.5 0.15).2.isSome = false := by decide +kernel  -- b == 0.0

end JF.C04P
