import JF.Model.Periodic
import JF.Lemmas.Periodic
import JF.Lemmas.PeriodicRnd
import Mathlib.Algebra.Order.Floor.Ring
import Mathlib.Algebra.Order.AbsoluteValue.Basic
import Mathlib.Data.Rat.Floor
import Mathlib.Tactic.Linarith
import Mathlib.Tactic.Ring
import Mathlib.Tactic.FieldSimp
/-!
# C15 — Periodic wrapping and minimum-image separations are exact modular arithmetic

Exact reading (`Ops.rat`, scalars in `ℚ`) of the model `JF.Model.Periodic` of
`HypercubicPeriodicBoundaries` / `HypercuboidPeriodicBoundaries`:

* §1 scalar mechanisms `x % L` and `(s + L/2) % L - L/2`: range, congruence, uniqueness, idempotence, minimality;
* §2 set-up (`HypercubicSetting`, `HypercuboidSetting`): exactly which arguments are accepted and what state results;
* §3 the methods of the cubic class, entry and vector forms;
* §4 the methods of the cuboid class (per-direction lengths, Python indexing, `IndexError` outcomes);
* §5 cubic = cuboid when all lengths are equal — for EVERY scalar type and `Ops` record, so also for binary64;
* §6 binary64 (kernel-evaluated on native `Float`): on the witnesses of the former finding the float modulo still rounds
  to `L`, and the repaired `correct_position_entry` returns `0.0` (inside `[0, L)`) and is idempotent; nan passes through;
  the separation bound `|r| ≤ L/2` is closed (`+L/2` is reachable);
* §7 rounding-abstract reading (`RQ R`: `+`/`-` round with an arbitrary monotone idempotent rounding, `fmod` exact):
  for ALL inputs the HALF-OPEN range `0 ≤ y < L` and idempotence of the position correction, the position is the exact
  result rounded once (or `0` when that rounding is `L`), non-negative inputs are wrapped exactly, `[0, L)` is fixed
  point-wise; `|r| ≤ L/2` for the separation.  A toy rounding shows that the modulo alone does reach `L` under these
  hypotheses, i.e. that the `!= L` branch is needed.

Historical note.  Up to /repo commit "fix: correct_position_entry returned the system length itself for tiny negative
entries" the position correction was the bare `x % L` (`JF.pymod`).  This file then proved, kernel-evaluated in binary64,
that `correct_position_entry(-1e-17) = 1.0 = L` and that a second application gave `0.0` (theorems
`float_correctPosition_returns_L`, `_not_lt_L`, `_not_idempotent`, cubic/cuboid variants; known finding
`correct_position:tiny-negative-returns-L`), only the closed bounds `0 ≤ y ≤ L` in the rounding-abstract reading, and the
half-open range and idempotence for a proposed repair `wrapFix` (`r if r < L else 0.0`).  The code was repaired in the `!=`
form (`r if r != L else 0.0`); the model `wrap` is now `JF.pywrap`, the former counterexamples are replaced by the positive
facts of §6 on the same witnesses, and the `wrapFix` results are the main theorems of §7.
-/
namespace JF.C15
open JF JF.Periodic

/-! ## 1. the scalar mechanisms -/

/-- `y` is congruent to `x` modulo `L` -/
def Congr (L x y : ℚ) : Prop := ∃ k : ℤ, x - y = k * L

/-- two numbers of the same half-open window of length `L` that are congruent modulo `L` are equal -/
theorem window_unique {L c a b : ℚ} (hL : 0 < L) (ha : c ≤ a ∧ a < c + L) (hb : c ≤ b ∧ b < c + L)
    (h : Congr L a b) : a = b := by
  obtain ⟨n, hn⟩ := h
  have h1 : (n : ℚ) < 1 := by
    by_contra hc; rw [not_lt] at hc
    have : L ≤ n * L := by nlinarith
    linarith [ha.1, ha.2, hb.1, hb.2]
  have h2 : (-1 : ℚ) < n := by
    by_contra hc; rw [not_lt] at hc
    have : (n : ℚ) * L ≤ -L := by nlinarith
    linarith [ha.1, ha.2, hb.1, hb.2]
  have h1' : n < 1 := by exact_mod_cast h1
  have h2' : -1 < n := by exact_mod_cast h2
  have : n = 0 := by omega
  subst this; simp at hn; linarith

/-- the corrected position in the exact reading: the `!= L` branch of `correct_position_entry` is dead there -/
theorem wrap_eq {x L : ℚ} (hL : 0 < L) : wrap Ops.rat x L = x - L * ⌊x / L⌋ := pywrap_rat_pos x L hL

/-- the corrected position lies in `[0, L)` -/
theorem wrap_range {x L : ℚ} (hL : 0 < L) : 0 ≤ wrap Ops.rat x L ∧ wrap Ops.rat x L < L := by
  rw [wrap_eq hL]
  have hx : x = L * (x / L) := by field_simp
  have h1 : L * (⌊x / L⌋ : ℚ) ≤ L * (x / L) := by gcongr; exact Int.floor_le _
  have h2 : L * (x / L) < L * ((⌊x / L⌋ : ℚ) + 1) := by gcongr; exact Int.lt_floor_add_one _
  rw [← hx] at h1 h2
  constructor <;> linarith

/-- … and is congruent to the input modulo `L` -/
theorem wrap_congr {x L : ℚ} (hL : 0 < L) : Congr L x (wrap Ops.rat x L) :=
  ⟨⌊x / L⌋, by rw [wrap_eq hL]; ring⟩

/-- … and is the ONLY number with these two properties -/
theorem wrap_unique {x y L : ℚ} (hL : 0 < L) (h0 : 0 ≤ y) (h1 : y < L) (hc : Congr L x y) :
    y = wrap Ops.rat x L := by
  obtain ⟨k, hk⟩ := hc
  obtain ⟨k', hk'⟩ := wrap_congr (x := x) hL
  have hr := wrap_range (x := x) hL
  refine window_unique (c := 0) hL ⟨h0, by linarith⟩ ⟨hr.1, by linarith [hr.2]⟩ ⟨k' - k, ?_⟩
  push_cast; linarith

/-- a position already in `[0, L)` is left alone -/
theorem wrap_fixed {x L : ℚ} (hL : 0 < L) (h0 : 0 ≤ x) (h1 : x < L) : wrap Ops.rat x L = x :=
  (wrap_unique hL h0 h1 ⟨0, by simp⟩).symm

/-- correction is idempotent -/
theorem wrap_idem {x L : ℚ} (hL : 0 < L) : wrap Ops.rat (wrap Ops.rat x L) L = wrap Ops.rat x L :=
  wrap_fixed hL (wrap_range hL).1 (wrap_range hL).2

/-- positions that differ by a whole number of box lengths (however many) have the same image -/
theorem wrap_add_int_mul {x L : ℚ} (hL : 0 < L) (n : ℤ) : wrap Ops.rat (x + n * L) L = wrap Ops.rat x L := by
  have hr := wrap_range (x := x + n * L) hL
  obtain ⟨k, hk⟩ := wrap_congr (x := x + n * L) hL
  exact (wrap_unique hL hr.1 hr.2 ⟨k - n, by push_cast; linarith⟩)

/-- the boundary inputs of the quantifier: exactly `0` stays, exactly `L` goes to `0` -/
theorem wrap_zero {L : ℚ} (hL : 0 < L) : wrap Ops.rat 0 L = 0 := wrap_fixed hL le_rfl hL
theorem wrap_self {L : ℚ} (hL : 0 < L) : wrap Ops.rat L L = 0 := by
  have := wrap_add_int_mul (x := 0) hL 1
  simpa [wrap_zero hL] using this

/-- congruent inputs have the same image (the image is a function of the class modulo `L`) -/
theorem wrap_congr_eq {x x' L : ℚ} (hL : 0 < L) (h : Congr L x x') : wrap Ops.rat x L = wrap Ops.rat x' L := by
  obtain ⟨n, hn⟩ := h
  have : x = x' + n * L := by linarith
  rw [this, wrap_add_int_mul hL]

theorem wrapSep_eq {s L : ℚ} (hL : 0 < L) : wrapSep Ops.rat s L (L / 2) = s - L * ⌊(s + L / 2) / L⌋ := by
  unfold wrapSep; rw [pymod_rat hL]; ring

/-- the corrected separation lies in `[-L/2, L/2)` -/
theorem wrapSep_range {s L : ℚ} (hL : 0 < L) :
    -(L / 2) ≤ wrapSep Ops.rat s L (L / 2) ∧ wrapSep Ops.rat s L (L / 2) < L / 2 := by
  have h0 := pymod_rat_nonneg (s + L / 2) L hL
  have h1 := pymod_rat_lt (s + L / 2) L hL
  unfold wrapSep
  constructor <;> linarith [h0, h1]

/-- … so its magnitude is at most half the box length -/
theorem wrapSep_abs_le {s L : ℚ} (hL : 0 < L) : |wrapSep Ops.rat s L (L / 2)| ≤ L / 2 := by
  have := wrapSep_range (s := s) hL
  rw [abs_le]; constructor <;> linarith [this.1, this.2]

/-- … and it is congruent to the input modulo `L` -/
theorem wrapSep_congr {s L : ℚ} (hL : 0 < L) : Congr L s (wrapSep Ops.rat s L (L / 2)) :=
  ⟨⌊(s + L / 2) / L⌋, by rw [wrapSep_eq hL]; ring⟩

/-- … and it is the only such number -/
theorem wrapSep_unique {s r L : ℚ} (hL : 0 < L) (h0 : -(L / 2) ≤ r) (h1 : r < L / 2) (hc : Congr L s r) :
    r = wrapSep Ops.rat s L (L / 2) := by
  obtain ⟨k, hk⟩ := hc
  obtain ⟨k', hk'⟩ := wrapSep_congr (s := s) hL
  have hr := wrapSep_range (s := s) hL
  refine window_unique (c := -(L / 2)) hL ⟨h0, by linarith⟩ ⟨hr.1, by linarith [hr.2]⟩ ⟨k' - k, ?_⟩
  push_cast; linarith

/-- minimum image: no periodic image of the separation is shorter -/
theorem wrapSep_minimal {s L : ℚ} (hL : 0 < L) (k : ℤ) : |wrapSep Ops.rat s L (L / 2)| ≤ |s + k * L| := by
  obtain ⟨n, hn⟩ := wrapSep_congr (s := s) hL
  have hr := wrapSep_range (s := s) hL
  have ha := wrapSep_abs_le (s := s) hL
  set r := wrapSep Ops.rat s L (L / 2) with hrdef
  have e : s + k * L = r + ((n + k : ℤ) : ℚ) * L := by push_cast; linarith
  rw [e]
  rcases lt_trichotomy (n + k) 0 with hm | hm | hm
  · have : ((n + k : ℤ) : ℚ) ≤ -1 := by exact_mod_cast (by omega : n + k ≤ -1)
    have : ((n + k : ℤ) : ℚ) * L ≤ -L := by nlinarith
    have : r + ((n + k : ℤ) : ℚ) * L ≤ -(L / 2) := by linarith [hr.2]
    linarith [neg_le_abs (r + ((n + k : ℤ) : ℚ) * L)]
  · rw [hm]; simp
  · have : (1 : ℚ) ≤ ((n + k : ℤ) : ℚ) := by exact_mod_cast (by omega : 1 ≤ n + k)
    have : L ≤ ((n + k : ℤ) : ℚ) * L := by nlinarith
    have : L / 2 ≤ r + ((n + k : ℤ) : ℚ) * L := by linarith [hr.1]
    linarith [le_abs_self (r + ((n + k : ℤ) : ℚ) * L)]

/-- a separation already in `[-L/2, L/2)` is left alone -/
theorem wrapSep_fixed {s L : ℚ} (hL : 0 < L) (h0 : -(L / 2) ≤ s) (h1 : s < L / 2) :
    wrapSep Ops.rat s L (L / 2) = s :=
  (wrapSep_unique hL h0 h1 ⟨0, by simp⟩).symm

theorem wrapSep_idem {s L : ℚ} (hL : 0 < L) :
    wrapSep Ops.rat (wrapSep Ops.rat s L (L / 2)) L (L / 2) = wrapSep Ops.rat s L (L / 2) :=
  wrapSep_fixed hL (wrapSep_range hL).1 (wrapSep_range hL).2

/-- separations of congruent positions are the same: the result depends on the two positions only through their
periodic images -/
theorem wrapSep_add_int_mul {s L : ℚ} (hL : 0 < L) (n : ℤ) :
    wrapSep Ops.rat (s + n * L) L (L / 2) = wrapSep Ops.rat s L (L / 2) := by
  have hr := wrapSep_range (s := s + n * L) hL
  obtain ⟨k, hk⟩ := wrapSep_congr (s := s + n * L) hL
  exact wrapSep_unique hL hr.1 hr.2 ⟨k - n, by push_cast; linarith⟩

/-- non-vacuity of the scalar statements: a negative position many boxes away and a separation just above `L/2` -/
example : wrap Ops.rat (-7 - 1 / 3) (5 / 2) = 1 / 6 := by
  rw [wrap_eq (by norm_num)]
  have : ⌊((-7 - 1 / 3 : ℚ)) / (5 / 2)⌋ = -3 := by rw [Int.floor_eq_iff]; norm_num
  rw [this]; norm_num
example : wrapSep Ops.rat (13 / 10) (5 / 2) ((5 / 2) / 2) = -(6 / 5) := by
  rw [wrapSep_eq (by norm_num)]
  have : ⌊((13 / 10 : ℚ) + (5 / 2) / 2) / (5 / 2)⌋ = 1 := by rw [Int.floor_eq_iff]; norm_num
  rw [this]; norm_num

/-! ## 2. the set-up -/

/-- `HypercubicSetting(dimension = d, system_length = L)` succeeds exactly for `d > 0`, `L > 0`, and then the state is
`(d, L, L/2)` -/
theorem cubic_init_iff {d : ℤ} {L : ℚ} {c : Cubic ℚ} :
    Cubic.init Ops.rat d L = .ok c ↔ 0 < d ∧ 0 < L ∧ c = ⟨d.toNat, L, L / 2⟩ := by
  unfold Cubic.init
  simp only [rat_ofInt, Int.cast_zero, Int.cast_ofNat]
  by_cases hd : d ≤ 0
  · simp only [hd, if_true]
    constructor
    · intro h; cases h
    · rintro ⟨h, -⟩; omega
  · by_cases hL : L ≤ 0
    · simp only [hd, hL, if_true, if_false]
      constructor
      · intro h; cases h
      · rintro ⟨-, h, -⟩; linarith
    · simp only [hd, hL, if_false, Except.ok.injEq]
      constructor
      · intro h; exact ⟨by omega, not_le.mp hL, h.symm⟩
      · rintro ⟨-, -, h⟩; exact h.symm

/-- `HypercuboidSetting(system_lengths = Ls, dimension = d)` succeeds exactly for `d > 0`, `len(Ls) = d`, all lengths
positive, and then the state is `(d, Ls, [l/2 for l in Ls])` -/
theorem cuboid_init_iff {d : ℤ} {Ls : List ℚ} {c : Cuboid ℚ} :
    Cuboid.init Ops.rat d Ls = .ok c ↔
      0 < d ∧ (Ls.length : ℤ) = d ∧ (∀ l ∈ Ls, 0 < l) ∧ c = ⟨d.toNat, Ls, Ls.map (· / 2)⟩ := by
  unfold Cuboid.init
  simp only [rat_ofInt, Int.cast_zero, Int.cast_ofNat]
  by_cases hd : d ≤ 0
  · simp only [hd, if_true]
    constructor
    · intro h; cases h
    · rintro ⟨h, -⟩; omega
  · rw [if_neg hd]
    by_cases hn : (Ls.length : ℤ) ≠ d
    · rw [if_pos hn]
      constructor
      · intro h; cases h
      · rintro ⟨-, h, -⟩; exact absurd h hn
    · rw [if_neg hn]
      by_cases ha : (Ls.any fun l => decide (l ≤ 0)) = true
      · rw [if_pos ha]
        constructor
        · intro h; cases h
        · rintro ⟨-, -, h, -⟩
          rw [List.any_eq_true] at ha
          obtain ⟨l, hl, hl'⟩ := ha
          have := h l hl
          simp at hl'; linarith
      · rw [if_neg ha, Except.ok.injEq]
        constructor
        · intro h
          refine ⟨by omega, not_not.mp hn, ?_, h.symm⟩
          intro l hl
          by_contra hc
          apply ha
          rw [List.any_eq_true]
          exact ⟨l, hl, by simpa using not_lt.mp hc⟩
        · rintro ⟨-, -, -, h⟩; exact h.symm

/-- non-vacuity: a 3-dimensional cubic box and a cuboid box with three different lengths are accepted -/
example : Cubic.init Ops.rat 3 (5 / 2) = .ok ⟨3, 5 / 2, (5 / 2) / 2⟩ :=
  cubic_init_iff.mpr ⟨by norm_num, by norm_num, rfl⟩
example : Cuboid.init Ops.rat 3 [1, 5 / 2, 7] = .ok ⟨3, [1, 5 / 2, 7], [1, 5 / 2, 7].map (· / 2)⟩ :=
  cuboid_init_iff.mpr ⟨by norm_num, by simp, by simp, rfl⟩

/-! ## 3. `HypercubicPeriodicBoundaries` -/

/-- specification of a corrected position entry: THE representative in `[0, L)` -/
def IsPos (L x y : ℚ) : Prop := 0 ≤ y ∧ y < L ∧ Congr L x y
/-- specification of a corrected separation entry: THE representative in `[-L/2, L/2)` -/
def IsSep (L s r : ℚ) : Prop := -(L / 2) ≤ r ∧ r < L / 2 ∧ Congr L s r

theorem IsPos.unique {L x y y' : ℚ} (hL : 0 < L) (h : IsPos L x y) (h' : IsPos L x y') : y = y' := by
  rw [wrap_unique hL h.1 h.2.1 h.2.2, wrap_unique hL h'.1 h'.2.1 h'.2.2]
theorem IsSep.unique {L s r r' : ℚ} (hL : 0 < L) (h : IsSep L s r) (h' : IsSep L s r') : r = r' := by
  rw [wrapSep_unique hL h.1 h.2.1 h.2.2, wrapSep_unique hL h'.1 h'.2.1 h'.2.2]
theorem IsSep.abs_le {L s r : ℚ} (h : IsSep L s r) : |r| ≤ L / 2 := by
  rw [_root_.abs_le]; exact ⟨h.1, h.2.1.le⟩
theorem isPos_wrap {L : ℚ} (hL : 0 < L) (x : ℚ) : IsPos L x (wrap Ops.rat x L) :=
  ⟨(wrap_range hL).1, (wrap_range hL).2, wrap_congr hL⟩
theorem isSep_wrapSep {L : ℚ} (hL : 0 < L) (s : ℚ) : IsSep L s (wrapSep Ops.rat s L (L / 2)) :=
  ⟨(wrapSep_range hL).1, (wrapSep_range hL).2, wrapSep_congr hL⟩

section cubic
variable {d : ℤ} {L : ℚ} {c : Cubic ℚ}

/-- `correct_position_entry` (the index is irrelevant) -/
theorem cubic_correctPositionEntry (hc : Cubic.init Ops.rat d L = .ok c) (x : ℚ) (i : ℤ) :
    IsPos L x (c.correctPositionEntry Ops.rat x i) := by
  obtain ⟨-, hL, rfl⟩ := cubic_init_iff.mp hc
  exact isPos_wrap hL x

theorem cubic_correctPositionEntry_idem (hc : Cubic.init Ops.rat d L = .ok c) (x : ℚ) (i i' : ℤ) :
    c.correctPositionEntry Ops.rat (c.correctPositionEntry Ops.rat x i) i' = c.correctPositionEntry Ops.rat x i := by
  obtain ⟨-, hL, rfl⟩ := cubic_init_iff.mp hc
  exact wrap_idem hL

/-- `correct_position`: same number of entries, every entry is the representative of the input entry in `[0, L)` -/
theorem cubic_correctPosition (hc : Cubic.init Ops.rat d L = .ok c) (p : List ℚ) :
    (c.correctPosition Ops.rat p).length = p.length ∧
      ∀ j (hp : j < p.length) (hr : j < (c.correctPosition Ops.rat p).length),
        IsPos L p[j] (c.correctPosition Ops.rat p)[j] := by
  refine ⟨by simp [Cubic.correctPosition], ?_⟩
  intro j hp hr
  simp only [Cubic.correctPosition, List.getElem_mapIdx]
  exact cubic_correctPositionEntry hc _ _

theorem cubic_correctPosition_idem (hc : Cubic.init Ops.rat d L = .ok c) (p : List ℚ) :
    c.correctPosition Ops.rat (c.correctPosition Ops.rat p) = c.correctPosition Ops.rat p := by
  apply List.ext_getElem
  · simp [Cubic.correctPosition]
  · intro j h1 h2
    simp only [Cubic.correctPosition, List.getElem_mapIdx]
    exact cubic_correctPositionEntry_idem hc _ _ _

/-- `correct_separation_entry` -/
theorem cubic_correctSeparationEntry (hc : Cubic.init Ops.rat d L = .ok c) (s : ℚ) (i : ℤ) :
    IsSep L s (c.correctSeparationEntry Ops.rat s i) := by
  obtain ⟨-, hL, rfl⟩ := cubic_init_iff.mp hc
  exact isSep_wrapSep hL s

/-- … is the shortest of all periodic images of the separation -/
theorem cubic_correctSeparationEntry_minimal (hc : Cubic.init Ops.rat d L = .ok c) (s : ℚ) (i k : ℤ) :
    |c.correctSeparationEntry Ops.rat s i| ≤ |s + k * L| := by
  obtain ⟨-, hL, rfl⟩ := cubic_init_iff.mp hc
  exact wrapSep_minimal hL k

/-- `correct_separation` -/
theorem cubic_correctSeparation (hc : Cubic.init Ops.rat d L = .ok c) (s : List ℚ) :
    (c.correctSeparation Ops.rat s).length = s.length ∧
      ∀ j (hp : j < s.length) (hr : j < (c.correctSeparation Ops.rat s).length),
        IsSep L s[j] (c.correctSeparation Ops.rat s)[j] := by
  refine ⟨by simp [Cubic.correctSeparation], ?_⟩
  intro j hp hr
  simp only [Cubic.correctSeparation, List.getElem_mapIdx]
  exact cubic_correctSeparationEntry hc _ _

/-- `separation_vector(reference, target)` for positions with (at least) `dimension` entries: a vector with `dimension`
entries; entry `j` is congruent to `target[j] - reference[j]` modulo `L` and lies in `[-L/2, L/2)` -/
theorem cubic_separationVector (hc : Cubic.init Ops.rat d L = .ok c) (ref tgt : List ℚ)
    (hr : d.toNat ≤ ref.length) (ht : d.toNat ≤ tgt.length) :
    ∃ r, c.separationVector Ops.rat ref tgt = some r ∧ r.length = d.toNat ∧
      ∀ j (hj : j < d.toNat) (hjr : j < r.length), IsSep L (tgt[j] - ref[j]) r[j] := by
  have hdim : c.dim = d.toNat := by obtain ⟨-, -, rfl⟩ := cubic_init_iff.mp hc; rfl
  obtain ⟨s, hs⟩ := rawSeparation_isSome (dim := c.dim) (ref := ref) (tgt := tgt) (by omega) (by omega)
  obtain ⟨hsl, hse⟩ := (rawSeparation_spec _ _ _ _).mp hs
  have hcs := cubic_correctSeparation hc s
  refine ⟨c.correctSeparation Ops.rat s, by simp [Cubic.separationVector, hs], by omega, ?_⟩
  intro j hj hjr
  obtain ⟨_, _, e⟩ := hse j (by omega) (by omega)
  have := hcs.2 j (by omega) hjr
  rwa [e] at this

/-- `separation_vector` on a position with fewer than `dimension` entries is the `IndexError` outcome -/
theorem cubic_separationVector_none (hc : Cubic.init Ops.rat d L = .ok c) (ref tgt : List ℚ)
    (h : ref.length < d.toNat ∨ tgt.length < d.toNat) : c.separationVector Ops.rat ref tgt = none := by
  have hdim : c.dim = d.toNat := by obtain ⟨-, -, rfl⟩ := cubic_init_iff.mp hc; rfl
  simp [Cubic.separationVector, rawSeparation_none (dim := c.dim) (ref := ref) (tgt := tgt) (by omega)]

/-- `next_image` moves to a congruent position: the corrected position does not change -/
theorem cubic_nextImage (hc : Cubic.init Ops.rat d L = .ok c) (x : ℚ) (i i' : ℤ) :
    c.correctPositionEntry Ops.rat (c.nextImage x i) i' = c.correctPositionEntry Ops.rat x i' := by
  obtain ⟨-, hL, rfl⟩ := cubic_init_iff.mp hc
  have := wrap_add_int_mul (x := x) hL 1
  simpa [Cubic.correctPositionEntry, Cubic.nextImage] using this

end cubic

/-! ## 4. `HypercuboidPeriodicBoundaries` -/

section cuboid
variable {d : ℤ} {Ls : List ℚ} {c : Cuboid ℚ}

/-- `correct_position_entry(x, j)` for a direction `0 ≤ j < dimension`: the representative of `x` in `[0, L_j)` -/
theorem cuboid_correctPositionEntry (hc : Cuboid.init Ops.rat d Ls = .ok c) (x : ℚ) (j : ℕ) (hj : j < Ls.length) :
    c.correctPositionEntry Ops.rat x j = some (wrap Ops.rat x Ls[j]) ∧ IsPos Ls[j] x (wrap Ops.rat x Ls[j]) := by
  obtain ⟨-, -, hpos, rfl⟩ := cuboid_init_iff.mp hc
  refine ⟨by simp [Cuboid.correctPositionEntry, pyGet_natCast, hj], isPos_wrap (hpos _ (List.getElem_mem hj)) x⟩

/-- whatever (legal, possibly negative) Python index is passed, the result is the representative with respect to one of
the box lengths -/
theorem cuboid_correctPositionEntry_some (hc : Cuboid.init Ops.rat d Ls = .ok c) (x y : ℚ) (i : ℤ)
    (h : c.correctPositionEntry Ops.rat x i = some y) : ∃ L ∈ Ls, IsPos L x y := by
  obtain ⟨-, -, hpos, rfl⟩ := cuboid_init_iff.mp hc
  simp only [Cuboid.correctPositionEntry] at h
  cases hg : pyGet Ls i with
  | none => simp [hg] at h
  | some L =>
    simp [hg] at h
    subst h
    exact ⟨L, pyGet_mem hg, isPos_wrap (hpos _ (pyGet_mem hg)) x⟩

/-- an index outside `-dimension ≤ i < dimension` is the `IndexError` outcome -/
theorem cuboid_correctPositionEntry_indexError (hc : Cuboid.init Ops.rat d Ls = .ok c) (x : ℚ) (i : ℤ)
    (h : d ≤ i ∨ i < -d) : c.correctPositionEntry Ops.rat x i = none := by
  obtain ⟨-, hlen, -, rfl⟩ := cuboid_init_iff.mp hc
  simp [Cuboid.correctPositionEntry, pyGet_none (l := Ls) (i := i) (by omega)]

/-- `correct_position` for a position with at most `dimension` entries: entry `j` becomes its representative in
`[0, L_j)`; and the function is idempotent -/
theorem cuboid_correctPosition (hc : Cuboid.init Ops.rat d Ls = .ok c) (p : List ℚ) (hp : p.length ≤ Ls.length) :
    ∃ r, c.correctPosition Ops.rat p = some r ∧ r.length = p.length ∧
      (∀ j (hjp : j < p.length) (hjr : j < r.length) (hjL : j < Ls.length), IsPos Ls[j] p[j] r[j]) ∧
      c.correctPosition Ops.rat r = some r := by
  obtain ⟨-, -, hpos, rfl⟩ := cuboid_init_iff.mp hc
  refine ⟨_, cuboid_correctPosition_eq _ _ p hp, by simp [hp], ?_, ?_⟩
  · intro j hjp hjr hjL
    simp only [List.getElem_zipWith]
    exact isPos_wrap (hpos _ (List.getElem_mem hjL)) _
  · rw [cuboid_correctPosition_eq _ _ _ (by simp [hp])]
    congr 1
    apply List.ext_getElem
    · simp [hp]
    · intro j h1 h2
      simp only [List.getElem_zipWith]
      have hjL : j < Ls.length := by simp at h2; omega
      exact wrap_idem (hpos _ (List.getElem_mem hjL))

/-- a position with more than `dimension` entries is the `IndexError` outcome -/
theorem cuboid_correctPosition_indexError (hc : Cuboid.init Ops.rat d Ls = .ok c) (p : List ℚ)
    (hp : Ls.length < p.length) : c.correctPosition Ops.rat p = none := by
  obtain ⟨-, -, -, rfl⟩ := cuboid_init_iff.mp hc
  exact cuboid_correctPosition_none _ _ p hp

/-- `correct_separation_entry(s, j)`: the representative of `s` in `[-L_j/2, L_j/2)`, the shortest periodic image -/
theorem cuboid_correctSeparationEntry (hc : Cuboid.init Ops.rat d Ls = .ok c) (s : ℚ) (j : ℕ) (hj : j < Ls.length) :
    ∃ r, c.correctSeparationEntry Ops.rat s j = some r ∧ IsSep Ls[j] s r ∧ ∀ k : ℤ, |r| ≤ |s + k * Ls[j]| := by
  obtain ⟨-, -, hpos, rfl⟩ := cuboid_init_iff.mp hc
  have hL := hpos _ (List.getElem_mem hj)
  refine ⟨wrapSep Ops.rat s Ls[j] (Ls[j] / 2), ?_, isSep_wrapSep hL s, fun k => wrapSep_minimal hL k⟩
  simp [Cuboid.correctSeparationEntry, pyGet_natCast, hj]

theorem cuboid_correctSeparationEntry_indexError (hc : Cuboid.init Ops.rat d Ls = .ok c) (s : ℚ) (i : ℤ)
    (h : d ≤ i ∨ i < -d) : c.correctSeparationEntry Ops.rat s i = none := by
  obtain ⟨-, hlen, -, rfl⟩ := cuboid_init_iff.mp hc
  have : pyGet (Ls.map (· / 2)) i = none := pyGet_none (by simp; omega)
  simp [Cuboid.correctSeparationEntry, this]

/-- `correct_separation` for a vector with at most `dimension` entries -/
theorem cuboid_correctSeparation (hc : Cuboid.init Ops.rat d Ls = .ok c) (s : List ℚ) (hs : s.length ≤ Ls.length) :
    ∃ r, c.correctSeparation Ops.rat s = some r ∧ r.length = s.length ∧
      ∀ j (hjs : j < s.length) (hjr : j < r.length) (hjL : j < Ls.length), IsSep Ls[j] s[j] r[j] := by
  obtain ⟨-, -, hpos, rfl⟩ := cuboid_init_iff.mp hc
  refine ⟨_, cuboid_correctSeparation_eq _ _ s hs (by simpa using hs), by simp [hs], ?_⟩
  intro j hjs hjr hjL
  simp only [List.getElem_zipWith, List.getElem_zip, List.getElem_map]
  exact isSep_wrapSep (hpos _ (List.getElem_mem hjL)) _

theorem cuboid_correctSeparation_indexError (hc : Cuboid.init Ops.rat d Ls = .ok c) (s : List ℚ)
    (hs : Ls.length < s.length) : c.correctSeparation Ops.rat s = none := by
  obtain ⟨-, -, -, rfl⟩ := cuboid_init_iff.mp hc
  exact cuboid_correctSeparation_none _ _ s (Or.inl hs)

/-- `separation_vector(reference, target)` for positions with (at least) `dimension` entries: `dimension` entries; entry
`j` is congruent to `target[j] - reference[j]` modulo `L_j`, lies in `[-L_j/2, L_j/2)` (so `|r_j| ≤ L_j/2`) -/
theorem cuboid_separationVector (hc : Cuboid.init Ops.rat d Ls = .ok c) (ref tgt : List ℚ)
    (hr : Ls.length ≤ ref.length) (ht : Ls.length ≤ tgt.length) :
    ∃ r, c.separationVector Ops.rat ref tgt = some r ∧ r.length = Ls.length ∧
      ∀ j (hj : j < Ls.length) (hjr : j < r.length), IsSep Ls[j] (tgt[j] - ref[j]) r[j] := by
  obtain ⟨hd, hlen, -, hceq⟩ := cuboid_init_iff.mp hc
  have hdim : c.dim = Ls.length := by rw [hceq]; simp only; omega
  obtain ⟨s, hs⟩ := rawSeparation_isSome (dim := c.dim) (ref := ref) (tgt := tgt) (by omega) (by omega)
  obtain ⟨hsl, hse⟩ := (rawSeparation_spec _ _ _ _).mp hs
  obtain ⟨r, hr1, hr2, hr3⟩ := cuboid_correctSeparation hc s (by omega)
  refine ⟨r, by simp [Cuboid.separationVector, hs, hr1], by omega, ?_⟩
  intro j hj hjr
  obtain ⟨_, _, e⟩ := hse j (by omega) (by omega)
  have := hr3 j (by omega) hjr hj
  rwa [e] at this

theorem cuboid_separationVector_indexError (hc : Cuboid.init Ops.rat d Ls = .ok c) (ref tgt : List ℚ)
    (h : ref.length < Ls.length ∨ tgt.length < Ls.length) : c.separationVector Ops.rat ref tgt = none := by
  obtain ⟨hd, hlen, -, hceq⟩ := cuboid_init_iff.mp hc
  have hdim : c.dim = Ls.length := by rw [hceq]; simp only; omega
  simp [Cuboid.separationVector, rawSeparation_none (dim := c.dim) (ref := ref) (tgt := tgt) (by omega)]

/-- `next_image(x, j)` moves to a congruent position with respect to `L_j` -/
theorem cuboid_nextImage (hc : Cuboid.init Ops.rat d Ls = .ok c) (x : ℚ) (j : ℕ) (hj : j < Ls.length) :
    c.nextImage x j = some (x + Ls[j]) ∧ wrap Ops.rat (x + Ls[j]) Ls[j] = wrap Ops.rat x Ls[j] := by
  obtain ⟨-, -, hpos, rfl⟩ := cuboid_init_iff.mp hc
  refine ⟨by simp [Cuboid.nextImage, pyGet_natCast, hj], ?_⟩
  simpa using wrap_add_int_mul (x := x) (hpos _ (List.getElem_mem hj)) 1

end cuboid

/-! ## 5. cubic = cuboid when all lengths are equal

For EVERY scalar type `α` and every `Ops α` (so in particular for binary64, bit for bit): the cuboid class, run on the
state that `HypercubicSetting` writes into the cuboid module — which is also exactly the state
`HypercuboidSetting([L, …, L])` produces — returns what the cubic class returns. -/

section agreement
variable {α : Type}

section
variable [Div α] [LE α] [DecidableLE α]

/-- what `Cubic.init` guarantees about its result -/
theorem cubic_init_ok {o : Ops α} {d : ℤ} {L : α} {c : Cubic α} (h : Cubic.init o d L = .ok c) :
    0 < d ∧ ¬ (L ≤ o.ofInt 0) ∧ c = ⟨d.toNat, L, L / o.ofInt 2⟩ := by
  unfold Cubic.init at h
  by_cases hd : d ≤ 0
  · rw [if_pos hd] at h; cases h
  · rw [if_neg hd] at h
    by_cases hL : L ≤ o.ofInt 0
    · rw [if_pos hL] at h; cases h
    · rw [if_neg hL, Except.ok.injEq] at h
      exact ⟨by omega, hL, h.symm⟩

/-- `HypercuboidSetting([L]*d, dimension=d)` yields the very state that `HypercubicSetting(d, L)` writes into the
cuboid module (`_set_similar_settings`) -/
theorem cuboid_init_replicate {o : Ops α} {d : ℤ} {L : α} {c : Cubic α} (h : Cubic.init o d L = .ok c) :
    Cuboid.init o d (List.replicate d.toNat L) = .ok (c.similar o) := by
  obtain ⟨hd, hL, rfl⟩ := cubic_init_ok h
  unfold Cuboid.init
  rw [if_neg (by omega), if_neg (by simp; omega), if_neg (by simp [hL])]
  simp [Cubic.similar]

/-- headline form: a cuboid box set up with `d` equal lengths `L` IS the state written by the cubic set-up, so by the
`agree_*` theorems below every method of the two classes returns the same value (for every scalar type) -/
theorem cuboid_of_equal_lengths {o : Ops α} {d : ℤ} {L : α} {c : Cubic α} {c' : Cuboid α}
    (h : Cubic.init o d L = .ok c) (h' : Cuboid.init o d (List.replicate d.toNat L) = .ok c') :
    c' = c.similar o := by
  rw [cuboid_init_replicate h, Except.ok.injEq] at h'
  exact h'.symm

/-- the hypothesis `c.half = c.L / 2` of the statements below is what the set-up establishes -/
theorem cubic_init_half {o : Ops α} {d : ℤ} {L : α} {c : Cubic α} (h : Cubic.init o d L = .ok c) :
    c.half = c.L / o.ofInt 2 ∧ c.dim = d.toNat ∧ c.L = L := by
  obtain ⟨-, -, rfl⟩ := cubic_init_ok h
  exact ⟨rfl, rfl, rfl⟩

end

section
variable [Add α] [Div α]

theorem agree_nextImage (o : Ops α) (c : Cubic α) (x : α) (i : ℤ) (h1 : -(c.dim : ℤ) ≤ i) (h2 : i < c.dim) :
    (c.similar o).nextImage x i = some (c.nextImage x i) := by
  simp [Cuboid.nextImage, Cubic.similar, pyGet_replicate h1 h2, Cubic.nextImage]

end

section
variable [Add α] [Div α] [LT α] [DecidableLT α] [BEq α]

/-- entry form, every legal Python index `-d ≤ i < d` -/
theorem agree_correctPositionEntry (o : Ops α) (c : Cubic α) (x : α) (i : ℤ) (h1 : -(c.dim : ℤ) ≤ i) (h2 : i < c.dim) :
    (c.similar o).correctPositionEntry o x i = some (c.correctPositionEntry o x i) := by
  simp [Cuboid.correctPositionEntry, Cubic.similar, pyGet_replicate h1 h2, Cubic.correctPositionEntry]

/-- vector form of `correct_position` (at most `dimension` entries) -/
theorem agree_correctPosition (o : Ops α) (c : Cubic α) (p : List α) (hp : p.length ≤ c.dim) :
    (c.similar o).correctPosition o p = some (c.correctPosition o p) := by
  rw [cuboid_correctPosition_eq _ _ _ (by simpa [Cubic.similar] using hp)]
  congr 1
  apply List.ext_getElem
  · simp [Cubic.similar, Cubic.correctPosition, hp]
  · intro j h1 h2
    simp [Cubic.similar, Cubic.correctPosition, Cubic.correctPositionEntry]

end

section
variable [Add α] [Sub α] [Div α] [LT α] [DecidableLT α] [BEq α]

theorem agree_correctSeparationEntry (o : Ops α) (c : Cubic α) (hh : c.half = c.L / o.ofInt 2) (s : α) (i : ℤ)
    (h1 : -(c.dim : ℤ) ≤ i) (h2 : i < c.dim) :
    (c.similar o).correctSeparationEntry o s i = some (c.correctSeparationEntry o s i) := by
  simp [Cuboid.correctSeparationEntry, Cubic.similar, pyGet_replicate h1 h2, Cubic.correctSeparationEntry, hh]

theorem agree_correctSeparation (o : Ops α) (c : Cubic α) (hh : c.half = c.L / o.ofInt 2) (s : List α)
    (hs : s.length ≤ c.dim) :
    (c.similar o).correctSeparation o s = some (c.correctSeparation o s) := by
  rw [cuboid_correctSeparation_eq _ _ _ (by simpa [Cubic.similar] using hs) (by simpa [Cubic.similar] using hs)]
  congr 1
  apply List.ext_getElem
  · simp [Cubic.similar, Cubic.correctSeparation, hs]
  · intro j h1 h2
    simp [Cubic.similar, Cubic.correctSeparation, Cubic.correctSeparationEntry, hh]

/-- `separation_vector`: the same result for ALL arguments, including the `IndexError` outcome -/
theorem agree_separationVector (o : Ops α) (c : Cubic α) (hh : c.half = c.L / o.ofInt 2) (ref tgt : List α) :
    (c.similar o).separationVector o ref tgt = c.separationVector o ref tgt := by
  unfold Cuboid.separationVector Cubic.separationVector
  have hdim : (c.similar o).dim = c.dim := rfl
  rw [hdim]
  cases hs : rawSeparation c.dim ref tgt with
  | none => rfl
  | some s =>
    have hl := ((rawSeparation_spec _ _ _ _).mp hs).1
    simp [agree_correctSeparation o c hh s (by omega)]

end

end agreement

/-- non-vacuity, in binary64: the set-up succeeds and the agreement theorem applies to the real driver record -/
example : (match Cubic.init Ops.floatK 3 2.5 with
    | .ok c => c.half == 1.25 && c.dim == 3
    | .error _ => false) = true := by decide +kernel

/-! ## 6. binary64: what survives rounding

`Ops.floatK` is `Ops.float` with a kernel-reducible re-encoding in `fmod` (see `JF/Model/Periodic.lean`; the driver
evaluates every request of every run with both records and they must agree).  The statements below are evaluated by the
Lean kernel on native `Float` (`Float.Model`, IEEE-754 binary64).

The witnesses are those of the former finding `correct_position:tiny-negative-returns-L`: on them the float modulo still
rounds to `L` (`float_modulo_rounds_to_L`: the `!= L` branch of the repaired function is live in binary64), and the
repaired `correct_position_entry` returns `0.0`, inside `[0, L)`, and is idempotent. -/

/-- `-1e-17`, the witness of the former finding -/
def xTiny : Float := Float.ofBits 13575836048340472983

/-- the float modulo itself: `-1e-17 % 1.0` is exactly `1.0 = L` (so the extra branch of the repair is reachable) -/
theorem float_modulo_rounds_to_L : (pymod Ops.floatK xTiny 1.0).toBits = (1.0 : Float).toBits := by decide +kernel

/-- `correct_position_entry(-1e-17)` with `L = 1.0` is `0.0` -/
theorem float_correctPosition_returns_zero :
    (wrap Ops.floatK xTiny 1.0).toBits = (0.0 : Float).toBits := by decide +kernel

/-- … so the result lies in the half-open range `0 ≤ y < L` -/
theorem float_correctPosition_in_range :
    (0.0 : Float) ≤ wrap Ops.floatK xTiny 1.0 ∧ wrap Ops.floatK xTiny 1.0 < 1.0 := by decide +kernel

/-- … and a second correction returns the same bits -/
theorem float_correctPosition_idempotent :
    (wrap Ops.floatK (wrap Ops.floatK xTiny 1.0) 1.0).toBits = (wrap Ops.floatK xTiny 1.0).toBits := by decide +kernel

/-- the same through the class model, cubic and cuboid, after the real set-up -/
theorem float_cubic_correctPositionEntry_returns_zero :
    (match Cubic.init Ops.floatK 3 1.0 with
     | .ok c => (c.correctPositionEntry Ops.floatK xTiny 0).toBits == (0.0 : Float).toBits
     | .error _ => false) = true := by decide +kernel

theorem float_cuboid_correctPosition_returns_zero :
    (match Cuboid.init Ops.floatK 3 [1.0, 2.0, 3.0] with
     | .ok c => ((c.correctPosition Ops.floatK [xTiny, xTiny, xTiny]).map (·.map Float.toBits))
                  == some [(0.0 : Float).toBits, (0.0 : Float).toBits, (0.0 : Float).toBits]
     | .error _ => false) = true := by decide +kernel

/-- … and the cuboid vector form is idempotent on that input -/
theorem float_cuboid_correctPosition_idempotent :
    (match Cuboid.init Ops.floatK 3 [1.0, 2.0, 3.0] with
     | .ok c => ((c.correctPosition Ops.floatK [xTiny, xTiny, xTiny]).bind (c.correctPosition Ops.floatK)).map
                    (·.map Float.toBits)
                  == (c.correctPosition Ops.floatK [xTiny, xTiny, xTiny]).map (·.map Float.toBits)
     | .error _ => false) = true := by decide +kernel

/-- the tie: for `L = 1` the inputs whose modulo comes back as `L` are exactly `-2^-54 ≤ x < 0`
(`1 - 2^-54` is half-way between `1 - 2^-53` and `1` and rounds to even); at the tie the corrected position is `0.0`,
one ulp further it is the largest double below `1` -/
theorem float_correctPosition_tie :
    (wrap Ops.floatK (Float.ofBits 0xBC90000000000000) 1.0).toBits = (0.0 : Float).toBits ∧
    (wrap Ops.floatK (Float.ofBits 0xBC90000000000001) 1.0).toBits = 0x3FEFFFFFFFFFFFFF := by decide +kernel

/-- nan passes through (`!=`), as in the code: the bits of `nan % 1.0` are returned unchanged -/
theorem float_correctPosition_nan :
    (wrap Ops.floatK (Float.ofBits 0x7ff8000000000000) 1.0).toBits =
      (pymod Ops.floatK (Float.ofBits 0x7ff8000000000000) 1.0).toBits ∧
    (wrap Ops.floatK (Float.ofBits 0x7ff8000000000000) 1.0).isNaN = true := by decide +kernel

/-- the separation bound is closed in binary64: `(s + L/2) % L` may come back as `L`, and then the result is `+L/2`
(here `L = 3`, `s` one ulp below `-1.5`): magnitude `≤ L/2` holds, the strict `< L/2` of the exact reading does not -/
theorem float_correctSeparation_plus_half :
    (wrapSep Ops.floatK (Float.ofBits 0xBFF8000000000001) 3.0 1.5).toBits = (1.5 : Float).toBits := by decide +kernel

/-- separations of exactly `±L/2` both map to `-L/2` (the window is `[-L/2, L/2)`) -/
theorem float_correctSeparation_half :
    (wrapSep Ops.floatK 0.5 1.0 0.5).toBits = (-0.5 : Float).toBits ∧
    (wrapSep Ops.floatK (-0.5) 1.0 0.5).toBits = (-0.5 : Float).toBits := by decide +kernel

/-! ## 7. rounding-abstract reading

`RQ R`: rationals whose `+`/`-` round with an arbitrary monotone idempotent `R.rnd` (`JF/Lemmas/PeriodicRnd.lean`),
`fmod` exact as in C.  Standing hypotheses: `0`, `L` (and `±L/2`) representable, and the exact `fmod` result
representable (true for binary floating point: `fmod` never rounds).  The SAME model definitions `wrap` / `wrapSep`.

The modulo `x % L` alone only keeps the CLOSED bounds `0 ≤ m ≤ L` (`rq_pymod_bounds`; `m = L` is reachable, see the toy
rounding below); the position correction `wrap` (`m if m != L else 0.0`) keeps the HALF-OPEN range and is idempotent for
ALL inputs (`rq_wrap_range`, `rq_wrap_idem`). -/

section rounding
variable (R : Rnd)

/-- `x % L` keeps the closed bounds under every monotone rounding: `0 ≤ m ≤ L` -/
theorem rq_pymod_bounds (x L : RQ R) (hL : 0 < L.val) (h0 : R.Rep 0) (hLr : R.Rep L.val)
    (hm : R.Rep (Ops.rat.fmod x.val L.val)) :
    0 ≤ (pymod (opsRq R) x L).val ∧ (pymod (opsRq R) x L).val ≤ L.val := by
  rw [rq_pymod R x L h0 hm]
  have h1 := pymod_rat_nonneg x.val L.val hL
  have h2 := pymod_rat_lt x.val L.val hL
  constructor
  · have h := R.mono h1; rwa [h0] at h
  · have h := R.mono h2.le; rwa [hLr] at h

/-- `x % L` is `L` only for a negative `x` (so the extra branch of the correction is taken only for negative inputs) -/
theorem rq_pymod_eq_L_imp_neg (x L : RQ R) (hL : 0 < L.val) (h0 : R.Rep 0)
    (hm : R.Rep (Ops.rat.fmod x.val L.val)) (h : (pymod (opsRq R) x L).val = L.val) : x.val < 0 := by
  by_contra hx
  have hx0 : 0 ≤ x.val := not_lt.mp hx
  rw [rq_pymod R x L h0 hm, pymod_rat hL] at h
  rw [fmod_rat_nonneg (div_nonneg hx0 hL.le)] at hm
  rw [hm] at h
  have := pymod_rat_lt x.val L.val hL
  rw [pymod_rat hL] at this
  linarith

/-- the two branches of the corrected position -/
theorem rq_wrap_of_ne (x L : RQ R) (h : (pymod (opsRq R) x L).val ≠ L.val) :
    wrap (opsRq R) x L = pymod (opsRq R) x L := by
  unfold wrap
  exact pywrap_eq_pymod_of_ne _ _ _ (by rw [RQ.bne_iff]; simpa using h)

theorem rq_wrap_of_eq (x L : RQ R) (h : (pymod (opsRq R) x L).val = L.val) : (wrap (opsRq R) x L).val = 0 := by
  unfold wrap
  rw [pywrap_eq_zero_of_eq _ _ _ (by rw [RQ.bne_iff]; simpa using h)]
  simp [opsRq]

/-- the corrected position is the exact one, rounded once — or `0` when that rounding is `L` -/
theorem rq_wrap_cases (x L : RQ R) (hL : 0 < L.val) (h0 : R.Rep 0) (hm : R.Rep (Ops.rat.fmod x.val L.val)) :
    (wrap (opsRq R) x L).val = R.rnd (wrap Ops.rat x.val L.val) ∨
    (R.rnd (wrap Ops.rat x.val L.val) = L.val ∧ (wrap (opsRq R) x L).val = 0) := by
  have he : wrap Ops.rat x.val L.val = pymod Ops.rat x.val L.val := pywrap_rat_eq_pymod _ _ hL
  rw [he, ← rq_pymod R x L h0 hm]
  by_cases h : (pymod (opsRq R) x L).val = L.val
  · right; exact ⟨h, rq_wrap_of_eq R x L h⟩
  · left; rw [rq_wrap_of_ne R x L h]

/-- … hence congruent to the input up to ONE rounding (`0 ≡ L`) -/
theorem rq_wrap_congr_one_rounding (x L : RQ R) (hL : 0 < L.val) (h0 : R.Rep 0)
    (hm : R.Rep (Ops.rat.fmod x.val L.val)) :
    ∃ k : ℤ, (wrap (opsRq R) x L).val = R.rnd (x.val - k * L.val) ∨
      (R.rnd (x.val - k * L.val) = L.val ∧ (wrap (opsRq R) x L).val = 0) := by
  refine ⟨⌊x.val / L.val⌋, ?_⟩
  have := rq_wrap_cases R x L hL h0 hm
  rw [wrap_eq hL] at this
  rwa [mul_comm]

/-- the HALF-OPEN range survives every monotone rounding, for ALL inputs: `0 ≤ y < L` -/
theorem rq_wrap_range (x L : RQ R) (hL : 0 < L.val) (h0 : R.Rep 0) (hLr : R.Rep L.val)
    (hm : R.Rep (Ops.rat.fmod x.val L.val)) :
    0 ≤ (wrap (opsRq R) x L).val ∧ (wrap (opsRq R) x L).val < L.val := by
  have hb := rq_pymod_bounds R x L hL h0 hLr hm
  by_cases h : (pymod (opsRq R) x L).val = L.val
  · rw [rq_wrap_of_eq R x L h]; exact ⟨le_rfl, hL⟩
  · rw [rq_wrap_of_ne R x L h]; exact ⟨hb.1, lt_of_le_of_ne hb.2 h⟩

/-- … the result is representable … -/
theorem rq_wrap_rep (x L : RQ R) (h0 : R.Rep 0) (hm : R.Rep (Ops.rat.fmod x.val L.val)) :
    R.Rep (wrap (opsRq R) x L).val := by
  by_cases h : (pymod (opsRq R) x L).val = L.val
  · rw [rq_wrap_of_eq R x L h]; exact h0
  · rw [rq_wrap_of_ne R x L h, rq_pymod R x L h0 hm]; exact R.rep_rnd _

/-- a non-negative input is wrapped without any rounding: exactly congruent and inside `[0, L)` -/
theorem rq_wrap_exact_of_nonneg (x L : RQ R) (hL : 0 < L.val) (hx : 0 ≤ x.val) (h0 : R.Rep 0)
    (hm : R.Rep (Ops.rat.fmod x.val L.val)) :
    (wrap (opsRq R) x L).val = wrap Ops.rat x.val L.val := by
  have hne : (pymod (opsRq R) x L).val ≠ L.val := fun h =>
    absurd (rq_pymod_eq_L_imp_neg R x L hL h0 hm h) (not_lt.mpr hx)
  rw [rq_wrap_of_ne R x L hne, rq_pymod R x L h0 hm, wrap_eq hL, pymod_rat hL]
  rw [fmod_rat_nonneg (div_nonneg hx hL.le)] at hm
  exact hm

/-- every representable number of `[0, L)` is a fixed point -/
theorem rq_wrap_fixed (y L : RQ R) (hy0 : 0 ≤ y.val) (hy1 : y.val < L.val) (h0 : R.Rep 0) (hy : R.Rep y.val) :
    (wrap (opsRq R) y L).val = y.val := by
  have hL : 0 < L.val := lt_of_le_of_lt hy0 hy1
  have hm : R.Rep (Ops.rat.fmod y.val L.val) := by rw [fmod_rat_fixed hy0 hy1]; exact hy
  rw [rq_wrap_exact_of_nonneg R y L hL hy0 h0 hm, wrap_fixed hL hy0 hy1]

/-- `L` itself is mapped to `0` -/
theorem rq_wrap_L (L : RQ R) (hL : 0 < L.val) (h0 : R.Rep 0) : (wrap (opsRq R) L L).val = 0 := by
  have hf : Ops.rat.fmod L.val L.val = 0 := by
    rw [fmod_rat_nonneg (by rw [div_self hL.ne']; norm_num), div_self hL.ne']; simp
  rw [rq_wrap_exact_of_nonneg R L L hL hL.le h0 (by rw [hf]; exact h0), wrap_eq hL, div_self hL.ne']; simp

/-- the correction is idempotent, for ALL inputs -/
theorem rq_wrap_idem (x L : RQ R) (hL : 0 < L.val) (h0 : R.Rep 0) (hLr : R.Rep L.val)
    (hm : R.Rep (Ops.rat.fmod x.val L.val)) :
    (wrap (opsRq R) (wrap (opsRq R) x L) L).val = (wrap (opsRq R) x L).val := by
  have hr := rq_wrap_range R x L hL h0 hLr hm
  exact rq_wrap_fixed R (wrap (opsRq R) x L) L hr.1 hr.2 h0 (rq_wrap_rep R x L h0 hm)

/-- the separation bound is closed, so it survives every monotone rounding: `|r| ≤ L/2` -/
theorem rq_wrapSep_abs_le (s L h : RQ R) (hh : 0 < h.val) (hLh : L.val = 2 * h.val) (h0 : R.Rep 0)
    (hLr : R.Rep L.val) (hhr : R.Rep h.val) (hhn : R.Rep (-h.val))
    (hm : R.Rep (Ops.rat.fmod (s + h).val L.val)) :
    |(wrapSep (opsRq R) s L h).val| ≤ h.val := by
  have hL : 0 < L.val := by linarith
  have hb := rq_pymod_bounds R (s + h) L hL h0 hLr hm
  unfold wrapSep
  rw [RQ.sub_val, _root_.abs_le]
  constructor
  · have := R.mono (show -h.val ≤ (pymod (opsRq R) (s + h) L).val - h.val by linarith [hb.1])
    rwa [hhn] at this
  · have := R.mono (show (pymod (opsRq R) (s + h) L).val - h.val ≤ h.val by linarith [hb.2])
    rwa [hhr] at this

end rounding

/-- a toy rounding meeting the hypotheses of this section: identity below zero, round up to the next integer from
zero on (monotone, idempotent; representable: all negative numbers and the natural numbers) -/
def toyRnd : Rnd where
  rnd a := if a < 0 then a else (⌈a⌉ : ℚ)
  mono := by
    intro a b hab
    by_cases ha : a < 0
    · by_cases hb : b < 0
      · simp [ha, hb, hab]
      · simp only [ha, hb, if_true, if_false]
        have : (0 : ℚ) ≤ ⌈b⌉ := by exact_mod_cast Int.ceil_nonneg (not_lt.mp hb)
        linarith
    · have hb : ¬ b < 0 := by intro h; exact ha (lt_of_le_of_lt hab h)
      simp only [ha, hb, if_false]
      exact_mod_cast Int.ceil_mono hab
  idem := by
    intro a
    by_cases ha : a < 0
    · simp [ha]
    · have : ¬ ((⌈a⌉ : ℚ) < 0) := by
        have : (0 : ℚ) ≤ ⌈a⌉ := by exact_mod_cast Int.ceil_nonneg (not_lt.mp ha)
        exact not_lt.mpr this
      simp [ha, this]

/-- non-vacuity of the position theorems AND liveness of the `!= L` branch: with `toyRnd`, `x = -1/100`, `L = 1` all
hypotheses of `rq_wrap_range` / `rq_wrap_idem` hold, the modulo `x % L` is exactly `L` (sharpness of the closed bound of
`rq_pymod_bounds` — the abstract counterpart of `float_modulo_rounds_to_L`), and the corrected position is `0` -/
example : toyRnd.Rep 0 ∧ toyRnd.Rep 1 ∧ toyRnd.Rep (Ops.rat.fmod (-1 / 100) 1) ∧
    (pymod (opsRq toyRnd) ⟨-1 / 100⟩ ⟨1⟩).val = 1 ∧ (wrap (opsRq toyRnd) ⟨-1 / 100⟩ ⟨1⟩).val = 0 := by
  have hf : Ops.rat.fmod (-1 / 100) 1 = -1 / 100 := by
    rw [fmod_rat_neg (by norm_num)]
    have : ⌈(-1 / 100 : ℚ) / 1⌉ = 0 := by rw [Int.ceil_eq_iff]; norm_num
    rw [this]; norm_num
  have h0 : toyRnd.Rep 0 := by simp [Rnd.Rep, toyRnd]
  have hm : toyRnd.Rep (Ops.rat.fmod (-1 / 100) 1) := by rw [hf]; norm_num [Rnd.Rep, toyRnd]
  have hp : (pymod (opsRq toyRnd) ⟨-1 / 100⟩ ⟨1⟩).val = 1 := by
    rw [rq_pymod toyRnd ⟨-1 / 100⟩ ⟨1⟩ h0 hm, pymod_rat (by norm_num)]
    have : ⌊(-1 / 100 : ℚ) / 1⌋ = -1 := by rw [Int.floor_eq_iff]; norm_num
    rw [this]
    have : ⌈(99 / 100 : ℚ)⌉ = 1 := by rw [Int.ceil_eq_iff]; norm_num
    norm_num [toyRnd, this]
  exact ⟨h0, by norm_num [Rnd.Rep, toyRnd], hm, hp, rq_wrap_of_eq toyRnd ⟨-1 / 100⟩ ⟨1⟩ hp⟩

/-- non-vacuity of `rq_wrapSep_abs_le`: `L = 2`, `h = 1`, `s = -3/2` (all representable for `toyRnd`) -/
example : toyRnd.Rep 0 ∧ toyRnd.Rep 2 ∧ toyRnd.Rep 1 ∧ toyRnd.Rep (-1) ∧
    toyRnd.Rep (Ops.rat.fmod ((⟨-3 / 2⟩ : RQ toyRnd) + ⟨1⟩).val 2) := by
  have e : ((⟨-3 / 2⟩ : RQ toyRnd) + ⟨1⟩).val = -1 / 2 := by
    norm_num [RQ.add_val, toyRnd]
  have hf : Ops.rat.fmod (-1 / 2) 2 = -1 / 2 := by
    rw [fmod_rat_neg (by norm_num)]
    have : ⌈(-1 / 2 : ℚ) / 2⌉ = 0 := by rw [Int.ceil_eq_iff]; norm_num
    rw [this]; norm_num
  refine ⟨by simp [Rnd.Rep, toyRnd], by norm_num [Rnd.Rep, toyRnd], by norm_num [Rnd.Rep, toyRnd],
    by norm_num [Rnd.Rep, toyRnd], ?_⟩
  rw [e, hf]; norm_num [Rnd.Rep, toyRnd]

end JF.C15
