import JF.Props.C12Chain
import JF.Lemmas.ActivatorWiring
import JF.Model.ModeWiring
import JF.Gen.Wirings
import JF.Gen.WiringsSound
import JF.Gen.ModeWirings
/-!
# E13 — the mode discipline of `C12Chain` derived from the wiring (activator tag state)

`JF/Props/C12Chain.lean` needs, for every event of a history, `modeStep m e = some m'`: the sequence of event KINDS follows the
ghost leaf/root mode.  Here that hypothesis is derived for the runs of the activator model (`JF.Act.Run`,
`JF/Lemmas/ActivatorWiring.lean`) of every wiring that passes the decidable check `ModeSound` (`JF/Model/ModeWiring.lean`):

* `kindsOf : HMode → WMode → List EvKind` is the map "event-handler class ↦ composite event kinds it can commit"; the handler class
  of every tagger (`HMode`) is read by the translator from the class hierarchy under `jellyfysh/event_handler/` and from the options
  `aim_mode` / `initial_active_identifier` (`JF/Gen/ModeWirings.lean`).
* `RunK mw W Tr S h cm rs` is `Run` with its history `h` (committing tagger, kind of the committed event) under the ONE remaining
  hypothesis about the handlers: **a handler commits an event of a kind of its class** (`hkind`).  For the end of chain — one
  class for both modes, which draws a point mass or a composite object when its candidate time is requested — the kind depends on
  the mode of the activation state at the request; `cm T` is that (ghost) mode for the pending handlers of tagger `T`.
* `modeStep_of_modeSound`: along every such run of a wiring with `ModeSound mw = true` and `WiringSound mw.w = true`, the kinds
  follow the mode protocol, and the mode reached is the mode `mw.mode` READ OFF THE ACTIVATION FLAGS; no pending end-of-chain
  candidate was computed in another mode (`cm T = mode`).
* `modeStep_chain` / `run_rootConsistent_chain_of_modeSound` / `run_chain_clause_of_modeSound`: the composed corollaries — `C12Chain`'s
  conclusions for every event list that is weakly admissible event by event (`AdmWFree`: NO mode hypothesis) and whose kinds are the
  kinds committed along a run of a mode-sound wiring.
* `modeSound_<name>`: `ModeSound` by `decide +kernel` for every shipped wiring with composite objects (dipoles/*, water/*,
  hard_disk_dipoles/*), `dipoles/dipole_motion.ini` being the one that switches; `all_composite_modeSound` covers whatever the
  translator classifies as composite.

* `drawsRoot_iff_root`: under the one-chain invariant in mode `m` (objects with at least two point masses) the test the end-of-chain
  handler itself makes on the global state at the request (`len(children) == number_of_nodes_per_root_node`) decides `m`; with the
  composed corollary this is why `hkind` may speak about the mode of the ACTIVATION state at the request.
* `py_mode_tables_agree`: the Python mirror of `modeOf` that `harness/modecorr.py` applies to recorded activation flags computes
  Lean's `modeOf` on every reachable activation state of every shipped composite configuration.

What remains a hypothesis (measured on every recorded run by `harness/modecorr.py`): `hkind` (the table `kindsOf` per handler
class), and the hypotheses `run_inv` already has (`FootprintsSound` for composite-object worlds, `LiveIs`).
-/

namespace JF.Act

/-! ## kinds along a history -/

theorem kRun_append (m : WMode) (ks : List EvKind) (k : EvKind) :
    kRun m (ks ++ [k]) = (kRun m ks).bind (fun m1 => kStep m1 k) := by
  induction ks generalizing m with
  | nil =>
    simp only [List.nil_append, kRun, Option.bind_some]
    cases kStep m k <;> rfl
  | cons a ks ih =>
    simp only [List.cons_append, kRun]
    cases kStep m a with
    | none => rfl
    | some m1 => exact ih m1

/-- only the kinds of a mode-polymorphic handler class depend on the mode at request time -/
theorem kindsOf_cm {h : HMode} {cm m : WMode} (hp : isPoly h = true → cm = m) : kindsOf h cm = kindsOf h m := by
  cases h with
  | endOfChain => rw [hp rfl]
  | switcher b => cases b <;> cases cm <;> cases m <;> rfl
  | _ => cases cm <;> cases m <;> rfl

/-! ## what `ModeSound` says -/

structure ModeFacts (mw : ModeWiring) (S : TaggerIdx) (m₀ : WMode) : Prop where
  startMode : mw.startMode = m₀
  agree : ∀ T, T < mw.w.n → kindAgrees (mw.w.tagger T).kind (mw.hmode T) = true
  start : modeOf mw m₀ (startState mw.w S) = m₀
  commit : ∀ σ ∈ reach mw.w S, ∀ E, E < mw.w.n → canCommit mw.w σ E = true → commitOK mw m₀ σ E = true

theorem modeFacts_of_modeSound {mw : ModeWiring} {S : TaggerIdx} (h : ModeSound mw = true) (hS : mw.w.start? = some S) :
    ∃ m₀, ModeFacts mw S m₀ := by
  unfold ModeSound at h
  rw [hS] at h
  simp only [] at h
  cases hm : startModeOf (mw.hmode S) with
  | none => rw [hm] at h; simp at h
  | some m₀ =>
    rw [hm] at h
    simp only [Bool.and_eq_true, beq_iff_eq] at h
    obtain ⟨⟨⟨_, hagree⟩, hstart⟩, hviol⟩ := h
    refine ⟨m₀, ?_, ?_, hstart, ?_⟩
    · unfold ModeWiring.startMode; rw [hS]; simp only []; rw [hm]; rfl
    · intro T hT
      exact List.all_eq_true.mp hagree T (List.mem_range.mpr hT)
    · intro σ hσ E hE hcan
      rw [List.isEmpty_iff] at hviol
      cases hc : commitOK mw m₀ σ E with
      | true => rfl
      | false =>
        exfalso
        have : (σ, E) ∈ modeViolations mw m₀ (reach mw.w S) := by
          unfold modeViolations
          refine List.mem_flatMap.mpr ⟨σ, hσ, List.mem_map.mpr ⟨E, ?_, rfl⟩⟩
          exact List.mem_filter.mpr ⟨List.mem_filter.mpr ⟨List.mem_range.mpr hE, hcan⟩, by simp [hc]⟩
        rw [hviol] at this
        simp at this

/-- the two halves of `commitOK` -/
theorem commitOK_spec {mw : ModeWiring} {m₀ : WMode} {σ : AState} {E : TaggerIdx} (h : commitOK mw m₀ σ E = true) :
    (∀ k ∈ kindsOf (mw.hmode E) (modeOf mw m₀ σ), kStep (modeOf mw m₀ σ) k = some (modeOf mw m₀ (aStep mw.w σ E))) ∧
    (modeOf mw m₀ (aStep mw.w σ E) = modeOf mw m₀ σ ∨
      ∀ T, T < mw.w.n → isPoly (mw.hmode T) = true → aGet σ T = true → T ∈ (mw.w.tagger E).trashes) := by
  unfold commitOK at h
  simp only [Bool.and_eq_true, Bool.or_eq_true, beq_iff_eq] at h
  obtain ⟨h1, h2⟩ := h
  refine ⟨fun k hk => by simpa using List.all_eq_true.mp h1 k hk, ?_⟩
  rcases h2 with h2 | h2
  · exact Or.inl h2
  · right
    intro T hT hp ha
    have := List.all_eq_true.mp h2 T (List.mem_range.mpr hT)
    simp only [hp, ha, Bool.and_self, Bool.not_true, Bool.false_or] at this
    exact List.contains_iff_mem.mp this

/-- a mode-polymorphic tagger is not the start-of-run tagger -/
theorem poly_not_start {k : HandlerKind} {h : HMode} (ha : kindAgrees k h = true) (hp : isPoly h = true) : k ≠ .startOfRun := by
  intro hk
  subst hk
  cases h <;> simp [kindAgrees, isPoly] at ha hp

/-! ## the pending handlers of a tagger after a commit -/

/-- a tagger that is not in the create list of the committing tagger keeps its pending handlers if it is not trashed, and has
none if it is -/
theorem running_after_commit {G : Type} {w : Wires} {W : World G} {rs rs' : RS G} {E T : TaggerIdx} {g' : G}
    (hnc : T ∉ (getW w E).creates) (e : commit w W rs E g' = some rs') :
    (T ∈ (getW w E).trashes → (getT rs'.act T).running = []) ∧
    (T ∉ (getW w E).trashes → (getT rs'.act T).running = (getT rs.act T).running) := by
  unfold commit at e
  cases hu : update w (trash w rs.act E).1 E (fun T => W.yieldOf T g') with
  | none => rw [hu] at e; simp at e
  | some r =>
    rw [hu] at e; simp only [Option.some.injEq] at e; subst e
    unfold update at hu
    simp only []
    rw [createLoop_frame hu hnc, applyActivation_running]
    constructor
    · intro ht
      by_cases hl : T < rs.act.length
      · rw [trash, trashLoop_mem _ _ ht hl]; rfl
      · rw [getT_of_le _ _ (by rw [trash, trashLoop_length]; exact Nat.le_of_not_lt hl)]; rfl
    · intro ht
      rw [trash, trashLoop_frame _ _ ht]

/-! ## runs with their history -/

/-- `Run` (`JF/Lemmas/ActivatorWiring.lean`) with the history of the run after the start — the committing taggers and the kinds of
the composite events they committed — and the ghost `cm`: for every tagger, the mode of the activation state in which the candidate
times of its pending handlers were requested (the state after the commit that created them).

`hkind` is the link handler class ↦ event kind (`kindsOf`): the committed event is of a kind the handler class of the committing
tagger can commit; for an end of chain: the leaf variant if its candidate was requested in a leaf-mode activation state, the root
variant if in a root-mode one. -/
inductive RunK {G : Type} (mw : ModeWiring) (W : World G) (Tr : TaggerIdx → G → G → Prop) (S : TaggerIdx) :
    List (TaggerIdx × EvKind) → (TaggerIdx → WMode) → RS G → Prop where
  | start (ids0 : HandlerId → IdTuple) (g0 g1 : G) (s0 : Act) (out : List (HandlerId × IdTuple)) (rs1 : RS G)
      (hfirst : first mw.w.wires (initAct mw.w.wires) S (fun T => W.yieldOf T g0) = some (s0, out))
      (hcommit : commit mw.w.wires W ⟨s0, assign ids0 out, g0⟩ S g1 = some rs1) :
      RunK mw W Tr S [] (fun _ => mw.mode (absOf rs1.act)) rs1
  | step (h : List (TaggerIdx × EvKind)) (cm : TaggerIdx → WMode) (rs rs' : RS G) (E : TaggerIdx) (g' : G) (k : EvKind)
      (prev : RunK mw W Tr S h cm rs)
      (hpending : (getT rs.act E).running ≠ []) (hend : (mw.w.tagger E).kind ≠ .endOfRun)
      (htr : Tr E rs.g g') (hcommit : commit mw.w.wires W rs E g' = some rs')
      (hkind : k ∈ kindsOf (mw.hmode E) (cm E)) :
      RunK mw W Tr S (h ++ [(E, k)])
        (fun T => if T ∈ (mw.w.tagger E).creates then mw.mode (absOf rs'.act) else cm T) rs'

theorem RunK.toRun {G : Type} {mw : ModeWiring} {W : World G} {Tr : TaggerIdx → G → G → Prop} {S : TaggerIdx}
    {h : List (TaggerIdx × EvKind)} {cm : TaggerIdx → WMode} {rs : RS G} (r : RunK mw W Tr S h cm rs) :
    Run mw.w W Tr S rs := by
  induction r with
  | start ids0 g0 g1 s0 out rs1 hfirst hcommit => exact .start ids0 g0 g1 s0 out rs1 hfirst hcommit
  | step h cm rs rs' E g' k _ hpending hend htr hcommit _ ih => exact .step rs rs' E g' ih hpending hend htr hcommit

/-- the kinds of a history -/
def kindsOfHist (h : List (TaggerIdx × EvKind)) : List EvKind := h.map (·.2)

/-- what the mode discipline says about a reached state -/
structure ModeInv {G : Type} (mw : ModeWiring) (h : List (TaggerIdx × EvKind)) (cm : TaggerIdx → WMode) (rs : RS G) : Prop where
  /-- the kinds of the history follow the mode protocol from the start mode, and end in the mode of the activation flags -/
  chain : kRun mw.startMode (kindsOfHist h) = some (mw.mode (absOf rs.act))
  /-- every pending candidate of a mode-polymorphic tagger (end of chain) was requested in the present mode -/
  poly : ∀ T, isPoly (mw.hmode T) = true → (getT rs.act T).running ≠ [] → cm T = mw.mode (absOf rs.act)

/-- **The mode discipline from the wiring.**  For every wiring with `ModeSound mw = true` and `WiringSound mw.w = true`, along every run
of the activator model: the kinds of the committed events follow the mode protocol (`kRun` = `modeStep` on kinds) from the mode
the start-of-run handler creates, the mode reached is the one read off the activation flags (`mw.mode`), and no pending
end-of-chain candidate stems from another mode. -/
theorem modeStep_of_modeSound {G : Type} (mw : ModeWiring) (W : World G) (Tr : TaggerIdx → G → G → Prop) (S : TaggerIdx)
    (hms : ModeSound mw = true) (sound : WiringSound mw.w = true) (hS : mw.w.start? = some S)
    (fps : FootprintsSound mw.w W Tr) (hlive : LiveIs mw.w W)
    {h : List (TaggerIdx × EvKind)} {cm : TaggerIdx → WMode} {rs : RS G} (r : RunK mw W Tr S h cm rs) :
    ModeInv mw h cm rs := by
  obtain ⟨m₀, hsm, hagree, hstart, hcommitOK⟩ := modeFacts_of_modeSound hms hS
  have hmode : ∀ σ, mw.mode σ = modeOf mw m₀ σ := fun σ => by unfold ModeWiring.mode; rw [hsm]
  obtain ⟨hSn, hSk, hSu⟩ := start_spec hS
  induction r with
  | start ids0 g0 g1 s0 out rs1 hfirst hcommit =>
    have habs0 : absOf s0 = aStep mw.w (List.replicate mw.w.n true) S := by
      unfold first at hfirst
      rw [absOf_eq_of (createLoop_length hfirst) (createLoop_activated hfirst), absOf_applyActivation, absOf_initAct,
        mw.w.wires_length]
    have hreach1 : absOf rs1.act = startState mw.w S := by
      rw [absOf_commit mw.w hcommit]; show aStep mw.w (absOf s0) S = _; rw [habs0]; rfl
    refine ⟨?_, fun _ _ _ => rfl⟩
    show kRun mw.startMode [] = _
    rw [kRun, hmode, hreach1, hstart, hsm]
  | step h cm rs rs' E g' k prev hpending hend htr hcommit hkind ih =>
    have ri := run_inv mw.w W Tr S sound hS fps hlive prev.toRun
    -- the committing tagger can commit in the (reachable) activation state
    have hEn : E < mw.w.n := by
      rcases Nat.lt_or_ge E mw.w.n with h | h
      · exact h
      · exfalso; apply hpending
        rw [getT_of_le _ _ (by rw [ri.pool.1, mw.w.wires_length]; exact h)]; rfl
    have hEk : (mw.w.tagger E).kind ≠ .startOfRun := by
      intro hk
      have := hSu E hEn hk
      subst this
      exact hpending ri.startIdle
    have activated_of_pending : ∀ T, T < mw.w.n → (mw.w.tagger T).kind ≠ .startOfRun → (getT rs.act T).running ≠ [] →
        aGet (absOf rs.act) T = true := by
      intro T hT hk hp
      rw [aGet_absOf]
      cases ha : (getT rs.act T).activated
      · exact absurd (fresh_nil_of_deactivated (ri.fresh T ((hlive T).mpr ⟨hT, hk⟩)) ha) hp
      · rfl
    have hcan : canCommit mw.w (absOf rs.act) E = true := by
      unfold canCommit
      simp only [activated_of_pending E hEn hEk hpending, Bool.true_and, Bool.and_eq_true, bne_iff_ne, ne_eq]
      exact ⟨hEk, hend⟩
    obtain ⟨hk1, hk2⟩ := commitOK_spec (hcommitOK _ ri.reach E hEn hcan)
    have habs : absOf rs'.act = aStep mw.w (absOf rs.act) E := absOf_commit mw.w hcommit
    have hcmE : kindsOf (mw.hmode E) (cm E) = kindsOf (mw.hmode E) (modeOf mw m₀ (absOf rs.act)) :=
      kindsOf_cm (fun hp => by rw [ih.poly E hp hpending, hmode])
    refine ⟨?_, ?_⟩
    · -- the chain
      unfold kindsOfHist
      rw [List.map_append, List.map_cons, List.map_nil]
      have := ih.chain
      unfold kindsOfHist at this
      rw [kRun_append, this, Option.bind_some, hmode, hmode, habs]
      exact hk1 k (hcmE ▸ hkind)
    · -- pending polymorphic candidates
      intro T hp hrun
      by_cases hc : T ∈ (mw.w.tagger E).creates
      · simp only [hc, if_true]
      · simp only [hc, if_false]
        have hc' : T ∉ (getW mw.w.wires E).creates := by rw [(getW_wires mw.w E).1]; exact hc
        obtain ⟨f1, f2⟩ := running_after_commit hc' hcommit
        have hnt : T ∉ (getW mw.w.wires E).trashes := fun ht => hrun (f1 ht)
        have hrun0 : (getT rs.act T).running ≠ [] := by rw [← f2 hnt]; exact hrun
        have hTn : T < mw.w.n := by
          rcases Nat.lt_or_ge T mw.w.n with h | h
          · exact h
          · exfalso; apply hrun0
            rw [getT_of_le _ _ (by rw [ri.pool.1, mw.w.wires_length]; exact h)]; rfl
        rw [ih.poly T hp hrun0, hmode, hmode, habs]
        rcases hk2 with hk2 | hk2
        · exact hk2.symm
        · exfalso
          apply hnt
          rw [(getW_wires mw.w E).2.1]
          exact hk2 T hTn hp (activated_of_pending T hTn (poly_not_start (hagree T hTn) hp) hrun0)

/-- the chain in the form of `AdmWRun`: a mode for every prefix -/
theorem kRun_take (m : WMode) (ks : List EvKind) (m' : WMode) (h : kRun m ks = some m') (n : Nat) :
    ∃ m1, kRun m (ks.take n) = some m1 := by
  induction ks generalizing m n with
  | nil => exact ⟨m, by simp [kRun]⟩
  | cons a ks ih =>
    cases n with
    | zero => exact ⟨m, by simp [kRun]⟩
    | succ n =>
      simp only [kRun] at h
      cases hk : kStep m a with
      | none => rw [hk] at h; simp at h
      | some m1 =>
        rw [hk] at h
        obtain ⟨m2, h2⟩ := ih m1 h n
        exact ⟨m2, by simp [List.take_succ_cons, kRun, hk, h2]⟩

end JF.Act

/-! ## composition with `C12Chain` -/

namespace JF.C12
open JF JF.Composite JF.Act

/-- the kind of a composite event -/
def kindOf : Composite.Ev ℚ → EvKind
  | .keep _ _ => .keep
  | .snap _ _ _ _ _ _ => .snap
  | .exchange _ _ _ _ _ _ => .exchange
  | .pass _ _ _ _ => .pass
  | .eocLeaf _ _ _ _ _ _ => .eocLeaf
  | .eocRoot _ _ _ _ => .eocRoot
  | .toLeaf _ _ _ => .toLeaf
  | .toRoot _ _ => .toRoot
  | .start _ _ _ => .start

def toW : Mode → WMode
  | .leaf => .leaf
  | .root => .root

def ofW : WMode → Mode
  | .leaf => .leaf
  | .root => .root

@[simp] theorem toW_ofW (m : WMode) : toW (ofW m) = m := by cases m <;> rfl
@[simp] theorem ofW_toW (m : Mode) : ofW (toW m) = m := by cases m <;> rfl

/-- `kStep` is `modeStep` on kinds -/
theorem modeStep_eq_kStep (m : Mode) (e : Composite.Ev ℚ) : modeStep m e = (kStep (toW m) (kindOf e)).map ofW := by
  cases m <;> cases e <;> rfl

/-- weak admissibility of a history, event by event — NO condition on the sequence of kinds (compare `AdmWRun`) -/
def AdmWFree (d : Nat) (L : List ℚ) : List (CObj ℚ) → List (Composite.Ev ℚ) → Prop
  | _, [] => True
  | cs, e :: es => AdmW d L cs e ∧ AdmWFree d L (step Ops.rat isZ L cs e) es

/-- a history whose kinds follow `kRun` satisfies the mode hypothesis of `C12Chain` -/
theorem admWRun_of_kRun {d : Nat} {L : List ℚ} : ∀ (es : List (Composite.Ev ℚ)) (m : WMode) (cs : List (CObj ℚ)) (m' : WMode),
    AdmWFree d L cs es → kRun m (es.map kindOf) = some m' → AdmWRun d L (ofW m) cs es
  | [], _, _, _, _, _ => trivial
  | e :: es, m, cs, m', ⟨ha, hes⟩, hk => by
    simp only [List.map_cons, kRun] at hk
    cases hs : kStep m (kindOf e) with
    | none => rw [hs] at hk; simp at hk
    | some m1 =>
      rw [hs] at hk
      exact ⟨ofW m1, by rw [modeStep_eq_kStep, toW_ofW, hs]; rfl, ha, admWRun_of_kRun es m1 _ m' hes hk⟩

/-- `run_oneChainM` with the mode that is reached: along a history whose events are weakly admissible one by one and whose kinds
follow `kRun` from `m` to `m'`, the one-chain invariant holds in mode `m'` at the end -/
theorem run_oneChainM_kRun {d : Nat} {L : List ℚ} (hL : BoxOK d L) {sq : ℚ} : ∀ (es : List (Composite.Ev ℚ)) (m : WMode)
    (cs : List (CObj ℚ)) (m' : WMode), AllGood d L cs → OneChainM cs sq (ofW m) → AdmWFree d L cs es →
    kRun m (es.map kindOf) = some m' →
    AdmRun d L cs es ∧ AllGood d L (run Ops.rat isZ L cs es) ∧ OneChainM (run Ops.rat isZ L cs es) sq (ofW m')
  | [], m, _, m', h, hc, _, hk => by
    simp only [List.map_nil, kRun, Option.some.injEq] at hk
    subst hk
    exact ⟨trivial, h, hc⟩
  | e :: es, m, cs, m', h, hc, ⟨ha, hes⟩, hk => by
    simp only [List.map_cons, kRun] at hk
    cases hs : kStep m (kindOf e) with
    | none => rw [hs] at hk; simp at hk
    | some m1 =>
      rw [hs] at hk
      have hm : modeStep (ofW m) e = some (ofW m1) := by rw [modeStep_eq_kStep, toW_ofW, hs]; rfl
      obtain ⟨hadm, hc'⟩ := step_chain_aux hL h hc e hm ha
      obtain ⟨r1, r2, r3⟩ := run_oneChainM_kRun hL es m1 _ m' (step_good hL h e hadm) hc' hes hk
      exact ⟨⟨hadm, r1⟩, r2, r3⟩

section composed
variable {G : Type} (mw : ModeWiring) (W : World G) (Tr : TaggerIdx → G → G → Prop) (S : TaggerIdx)
  (hms : ModeSound mw = true) (sound : WiringSound mw.w = true) (hS : mw.w.start? = some S)
  (fps : FootprintsSound mw.w W Tr) (hlive : LiveIs mw.w W)
  {h : List (TaggerIdx × EvKind)} {cm : TaggerIdx → WMode} {rs : RS G} (r : RunK mw W Tr S h cm rs)
include hms sound hS fps hlive r

/-- **Exactly the hypothesis `C12Chain` needs.**  For a run of a mode-sound wiring and ANY list of composite events whose kinds are
the kinds committed along the run: weak admissibility event by event (`AdmWFree`, no mode hypothesis) implies `AdmWRun` — i.e.
`modeStep m e = some m'` holds along the whole history, starting in the mode the start-of-run handler creates. -/
theorem modeStep_chain (es : List (Composite.Ev ℚ)) (hk : es.map kindOf = kindsOfHist h) {d : Nat} {L : List ℚ}
    {cs : List (CObj ℚ)} (ha : AdmWFree d L cs es) : AdmWRun d L (ofW mw.startMode) cs es := by
  have := (modeStep_of_modeSound mw W Tr S hms sound hS fps hlive r).chain
  rw [← hk] at this
  exact admWRun_of_kRun es _ cs _ ha this

/-- **The composed corollary: `run_rootConsistent_chain` for runs of a mode-sound wiring, without the mode hypothesis**, and with the
mode identified: from an initial state at rest that satisfies `AllGood`, for the start-of-run event (whose `P` is what the configured
`initial_active_identifier` says: `StartMode … (ofW mw.startMode)`) followed by any events that are weakly admissible one by one and
whose kinds are the kinds committed along a run of the wiring: the history is admissible in the sense of `JF/Props/C12.lean`; the
reached state satisfies `AllGood`, every object is `RootConsistent`, and the one-chain invariant holds IN THE MODE READ OFF THE
ACTIVATION FLAGS of the reached activator state. -/
theorem run_rootConsistent_chain_of_modeSound {d : Nat} {L : List ℚ} (hL : BoxOK d L) (cs : List (CObj ℚ))
    (hg : AllGood d L cs) (hR : AllRest cs) (i : Nat) (P : List Nat) (v : List ℚ) (es : List (Composite.Ev ℚ))
    (hk : es.map kindOf = kindsOfHist h) (hs : AdmW d L cs (.start i P v)) (hsm : StartMode cs i P (ofW mw.startMode))
    (ha : AdmWFree d L (step Ops.rat isZ L cs (.start i P v)) es) :
    AdmRun d L cs (.start i P v :: es) ∧
    AllGood d L (run Ops.rat isZ L cs (.start i P v :: es)) ∧
    OneChainM (run Ops.rat isZ L cs (.start i P v :: es)) (nsq v) (ofW (mw.mode (absOf rs.act))) ∧
    OneChain (run Ops.rat isZ L cs (.start i P v :: es)) (nsq v) ∧
    ∀ c ∈ run Ops.rat isZ L cs (.start i P v :: es), RootConsistent L c := by
  have hch := (modeStep_of_modeSound mw W Tr S hms sound hS fps hlive r).chain
  rw [← hk] at hch
  have hadm := admW_adm_start hR hs
  have hg1 := step_good hL hg _ hadm
  obtain ⟨r1, r2, r3⟩ := run_oneChainM_kRun hL es mw.startMode _ _ hg1 (start_oneChainM hR hs hsm) ha hch
  exact ⟨⟨hadm, r1⟩, r2, r3, (oneChain_iff _ _).mpr ⟨_, r3⟩, fun c hc => good_rootConsistent (r2 c hc)⟩

/-- the same after every event of the history: `C12Chain.reached_rootConsistent_chain` without the mode hypothesis -/
theorem reached_rootConsistent_chain_of_modeSound {d : Nat} {L : List ℚ} (hL : BoxOK d L) (cs : List (CObj ℚ))
    (hg : AllGood d L cs) (hR : AllRest cs) (i : Nat) (P : List Nat) (v : List ℚ) (es : List (Composite.Ev ℚ))
    (hk : es.map kindOf = kindsOfHist h) (hs : AdmW d L cs (.start i P v)) (hsm : StartMode cs i P (ofW mw.startMode))
    (ha : AdmWFree d L (step Ops.rat isZ L cs (.start i P v)) es) (n : Nat) :
    AllGood d L (run Ops.rat isZ L cs (.start i P v :: es.take n)) ∧
    OneChain (run Ops.rat isZ L cs (.start i P v :: es.take n)) (nsq v) ∧
    ∀ c ∈ run Ops.rat isZ L cs (.start i P v :: es.take n), RootConsistent L c :=
  reached_rootConsistent_chain hL cs hg hR i P v es
    ⟨hs, _, hsm, modeStep_chain mw W Tr S hms sound hS fps hlive r es hk ha⟩ n

/-- **C07's chain clause for composite objects along runs of a mode-sound wiring** (`chain_clause` instantiated): after the
history there are an object `i'` and a velocity `w` of the initial speed such that every moving point mass belongs to object `i'`
and has velocity `w`, and the moving point masses are a single one or all of object `i'`. -/
theorem run_chain_clause_of_modeSound {d : Nat} {L : List ℚ} (hL : BoxOK d L) (cs : List (CObj ℚ))
    (hg : AllGood d L cs) (hR : AllRest cs) (i : Nat) (P : List Nat) (v : List ℚ) (es : List (Composite.Ev ℚ))
    (hk : es.map kindOf = kindsOfHist h) (hs : AdmW d L cs (.start i P v)) (hsm : StartMode cs i P (ofW mw.startMode))
    (ha : AdmWFree d L (step Ops.rat isZ L cs (.start i P v)) es) :
    ∃ (i' : Nat) (c : CObj ℚ) (w : List ℚ), (run Ops.rat isZ L cs (.start i P v :: es))[i']? = some c ∧ nsq w = nsq v ∧
      (∀ (k : Nat) (ck : CObj ℚ) (l : PUnit ℚ), (run Ops.rat isZ L cs (.start i P v :: es))[k]? = some ck → l ∈ ck.leaves →
        l.vel ≠ none → k = i' ∧ l.vel = some w) ∧
      ((∃ (j : Nat) (a : PUnit ℚ), c.leaves[j]? = some a ∧ a.vel = some w ∧
          ∀ (k : Nat) (l : PUnit ℚ), c.leaves[k]? = some l → l.vel ≠ none → k = j) ∨
       (c.leaves ≠ [] ∧ ∀ l ∈ c.leaves, l.vel = some w)) :=
  chain_clause (run_rootConsistent_chain_of_modeSound mw W Tr S hms sound hS fps hlive r hL cs hg hR i P v es hk hs hsm ha).2.2.2.1

end composed

/-! ### the end-of-chain handler's own test and the ghost mode

`hkind` for the end of chain says: the leaf variant if the candidate was requested in a leaf-mode ACTIVATION state.  The handler
itself decides on the GLOBAL state it is handed at the request (`_get_new_active_identifiers`: `len(children) ==
number_of_nodes_per_root_node`, i.e. the branch of the independent active unit holds every point mass of its composite object).
By the composed corollary the global state at the request satisfies `OneChainM … (ofW (mw.mode σ))`; for objects with at least two
point masses the handler's test then decides exactly that mode. -/

/-- the test of `_get_new_active_identifiers` on the model state: some object has a moving leaf, and all of its leaves move -/
def DrawsRoot (cs : List (CObj ℚ)) : Prop :=
  ∃ (i : Nat) (c : CObj ℚ), cs[i]? = some c ∧ (∃ l ∈ c.leaves, l.vel ≠ none) ∧ ∀ l ∈ c.leaves, l.vel ≠ none

theorem drawsRoot_iff_root {cs : List (CObj ℚ)} {sq : ℚ} {m : Mode} (h : OneChainM cs sq m)
    (h2 : ∀ c ∈ cs, 2 ≤ c.leaves.length) : DrawsRoot cs ↔ m = .root := by
  cases m with
  | root =>
    obtain ⟨i, v, _, ⟨c, hc, hne, hall⟩, _⟩ := h
    refine ⟨fun _ => rfl, fun _ => ⟨i, c, hc, ?_, fun l hl => by rw [hall l hl]; simp⟩⟩
    obtain ⟨l, hl⟩ := List.exists_mem_of_ne_nil _ hne
    exact ⟨l, hl, by rw [hall l hl]; simp⟩
  | leaf =>
    obtain ⟨i, j, v, _, ⟨c, hc, ⟨_, _, _⟩, hoth⟩, hrest⟩ := h
    refine ⟨?_, fun hm => by cases hm⟩
    rintro ⟨i', c', hc', ⟨l, hl, hlv⟩, hall⟩
    exfalso
    have hi : i' = i := by
      by_contra hne
      exact hlv (hrest i' c' hc' hne l hl)
    subst hi
    rw [hc] at hc'
    simp only [Option.some.injEq] at hc'
    subst hc'
    have hlen := h2 c (List.mem_of_getElem? hc)
    -- a leaf other than `j`
    have hk : ∃ k, k < c.leaves.length ∧ k ≠ j := by
      by_cases hj : j = 0
      · exact ⟨1, by omega, by omega⟩
      · exact ⟨0, by omega, fun h0 => hj h0.symm⟩
    obtain ⟨k, hk, hkj⟩ := hk
    exact hall c.leaves[k] (List.getElem_mem hk) (hoth k c.leaves[k] (List.getElem?_eq_getElem hk) hkj)

end JF.C12

/-! ## generated obligations: the shipped wirings with composite objects

`mcfg_<name>` (`JF/Gen/ModeWirings.lean`) is regenerated from the `.ini` files and the event-handler classes of the tree under
verification; a switcher section that forgets an entry of its `deactivate` (or `trash`) list, a swapped `aim_mode`, an
`initial_active_identifier` naming a composite object breaks the `decide`. -/

namespace JF.Act.Gen

/-- `dipoles/dipole_motion.ini` — the shipped configuration that switches between the modes -/
theorem modeSound_dipoles_dipole_motion : ModeSound mcfg_dipoles_dipole_motion = true := by decide +kernel
theorem modeSound_dipoles_atom_factors : ModeSound mcfg_dipoles_atom_factors = true := by decide +kernel
theorem modeSound_dipoles_cell_bounded : ModeSound mcfg_dipoles_cell_bounded = true := by decide +kernel
theorem modeSound_dipoles_cell_veto : ModeSound mcfg_dipoles_cell_veto = true := by decide +kernel
theorem modeSound_dipoles_dipole_factors_inside_first : ModeSound mcfg_dipoles_dipole_factors_inside_first = true := by
  decide +kernel
theorem modeSound_dipoles_dipole_factors_outside_first : ModeSound mcfg_dipoles_dipole_factors_outside_first = true := by
  decide +kernel
theorem modeSound_dipoles_dipole_factors_ratio : ModeSound mcfg_dipoles_dipole_factors_ratio = true := by decide +kernel
theorem modeSound_water_coulomb_cell_veto_lj_cell_veto : ModeSound mcfg_water_coulomb_cell_veto_lj_cell_veto = true := by
  decide +kernel
theorem modeSound_water_coulomb_cell_veto_lj_inverted : ModeSound mcfg_water_coulomb_cell_veto_lj_inverted = true := by
  decide +kernel
theorem modeSound_water_coulomb_power_bounded_lj_cell_bounded :
    ModeSound mcfg_water_coulomb_power_bounded_lj_cell_bounded = true := by decide +kernel
theorem modeSound_water_coulomb_power_bounded_lj_inverted : ModeSound mcfg_water_coulomb_power_bounded_lj_inverted = true := by
  decide +kernel
theorem modeSound_water_single_molecule : ModeSound mcfg_water_single_molecule = true := by decide +kernel
theorem modeSound_hard_disk_dipoles_hard_disk_dipoles : ModeSound mcfg_hard_disk_dipoles_hard_disk_dipoles = true := by
  decide +kernel
theorem modeSound_hard_disk_dipoles_hard_disk_dipoles_cells : ModeSound mcfg_hard_disk_dipoles_hard_disk_dipoles_cells = true := by
  decide +kernel
theorem modeSound_hard_disk_dipoles_single_hard_disk_dipole : ModeSound mcfg_hard_disk_dipoles_single_hard_disk_dipole = true := by
  decide +kernel

/-- whatever the translator classifies as a configuration with composite objects (`translate.py: is_composite`: the run starts
with a point mass of a composite object, or the wiring has a root-mode handler or a switcher) -/
theorem all_composite_modeSound : compositeCfgs.all ModeSound = true := by decide +kernel

/-- the harness's Python mirror of the mode assignment (`harness/modecorr.py: mode_of`, used on the recorded activation flags of real
runs) computes Lean's `modeOf` on every reachable activation state of every shipped composite configuration -/
theorem py_mode_tables_agree : compositeCfgs.map modeTable = pyModeTables := by decide +kernel

/-- the list is not empty and contains the switching configuration -/
theorem composite_has_dipole_motion : (compositeCfgs.map (·.w.name)).contains "dipoles_dipole_motion" = true := by decide +kernel

/-- the mode assignment of `dipole_motion`: two reachable activation states, the state after the start in leaf mode, the other in
root mode; `leaf_to_root` (6) leads from the first to the second, `root_to_leaf` (7) back -/
theorem dipole_motion_modes :
    (reach cfg_dipoles_dipole_motion 10).map mcfg_dipoles_dipole_motion.mode = [.leaf, .root] ∧
    (reach cfg_dipoles_dipole_motion 10).map (fun σ => (List.range 11).filter (canCommit cfg_dipoles_dipole_motion σ)) =
      [[0, 1, 2, 5, 6, 8], [3, 4, 5, 7, 8]] ∧
    (reach cfg_dipoles_dipole_motion 10).map (fun σ => (reach cfg_dipoles_dipole_motion 10).idxOf (aStep cfg_dipoles_dipole_motion σ 6)) = [1, 1] ∧
    (reach cfg_dipoles_dipole_motion 10).map (fun σ => (reach cfg_dipoles_dipole_motion 10).idxOf (aStep cfg_dipoles_dipole_motion σ 7)) = [0, 0] := by
  decide +kernel

/-! ### negative examples: wirings derived from `dipole_motion` -/

/-- replace tagger `i` of a wiring -/
def withTagger (mw : ModeWiring) (i : Nat) (f : TaggerW → TaggerW) : ModeWiring :=
  { mw with w := { mw.w with taggers := mw.w.taggers.set i (f (mw.w.tagger i)) } }

/-- as shipped: `[LeafToRoot] deactivate = coulomb_leaf, harmonic_leaf, repulsive_leaf, leaf_to_root` -/
example : (cfg_dipoles_dipole_motion.tagger 6).deactivates = [1, 0, 2, 6] := by decide +kernel

/-- **the leaf→root switcher does not deactivate the leaf-mode interaction tagger `repulsive_leaf`** (2): in the root-mode activation
state a two-leaf-unit handler can commit an `exchange` -/
example : ModeSound (withTagger mcfg_dipoles_dipole_motion 6 fun t => { t with deactivates := [1, 0, 6] }) = false := by
  decide +kernel
example : modeReport (withTagger mcfg_dipoles_dipole_motion 6 fun t => { t with deactivates := [1, 0, 6] })
    = "fail mixed:repulsive_leaf+coulomb_root,repulsive_root,root_to_leaf commit:leaf:leaf_to_root" := by decide +kernel

/-- the root→leaf switcher does not deactivate `coulomb_root` (3) -/
example : ModeSound (withTagger mcfg_dipoles_dipole_motion 7 fun t => { t with deactivates := [4, 7] }) = false := by
  decide +kernel

/-- the leaf→root switcher does not deactivate itself: a second `toRoot` in root mode -/
example : ModeSound (withTagger mcfg_dipoles_dipole_motion 6 fun t => { t with deactivates := [1, 0, 2] }) = false := by
  decide +kernel

/-- **the leaf→root switcher neither trashes nor re-creates `end_of_chain`** (8): the candidate that drew a point mass in leaf mode
survives into root mode.  `WiringSound` does not see this (the end-of-chain tagger is compared by the number of pending events
only), `ModeSound` does. -/
example :
    let mw := withTagger mcfg_dipoles_dipole_motion 6 fun t => { t with creates := [3, 4, 7], trashes := [1, 0, 2, 6] }
    WiringSound mw.w = true ∧ ModeSound mw = false := by decide +kernel

/-- the two `aim_mode`s swapped -/
example : ModeSound { mcfg_dipoles_dipole_motion with
    hm := [.leafUnit, .leafUnit, .leafUnit, .rootUnit, .rootUnit, .neutral, .switcher true, .switcher false, .endOfChain, .neutral,
      .start true] } = false := by decide +kernel

/-- `initial_active_identifier = 0` (a composite object) while the start-of-run section activates the leaf-mode taggers -/
example : ModeSound { mcfg_dipoles_dipole_motion with
    hm := [.leafUnit, .leafUnit, .leafUnit, .rootUnit, .rootUnit, .neutral, .switcher false, .switcher true, .endOfChain, .neutral,
      .start false] } = false := by decide +kernel

/-- a handler class the translator cannot classify -/
example : ModeSound { mcfg_dipoles_dipole_motion with
    hm := [.leafUnit, .unknown, .leafUnit, .rootUnit, .rootUnit, .neutral, .switcher false, .switcher true, .endOfChain, .neutral,
      .start true] } = false := by decide +kernel

end JF.Act.Gen

/-! ## non-vacuity: a run of `dipoles/dipole_motion.ini` that switches twice

Abstract world: one global state, every tagger generates one in-state (`[none]`) whenever it is asked (so the footprint tables
are trivially sound), any transition.  The run: start of run — `leaf_to_root` (6) commits `toRoot` — `coulomb_root` (3) commits a
`pass` — `end_of_chain` (8), whose candidate was requested in the root-mode state, commits `eocRoot` — `root_to_leaf` (7) commits
`toLeaf` — `harmonic_leaf` (0) commits an `exchange` — `end_of_chain`, re-created in the leaf-mode state, commits `eocLeaf`. -/

namespace JF.Act.ModeExample
open JF.Act.Gen

abbrev mw : ModeWiring := mcfg_dipoles_dipole_motion
abbrev cfg : Wiring := cfg_dipoles_dipole_motion

def W : World Unit :=
  { yieldOf := fun _ _ => [none]
    view := fun _ x => x
    live := fun T => T < cfg.n ∧ (cfg.tagger T).kind ≠ .startOfRun }

def Tr : TaggerIdx → Unit → Unit → Prop := fun _ _ _ => True

theorem liveIs : LiveIs cfg W := fun _ => Iff.rfl
theorem fps : FootprintsSound cfg W Tr := ⟨fun _ _ _ _ _ _ => List.Perm.refl _⟩

def s0 : Act := ((first cfg.wires (initAct cfg.wires) 10 (fun T => W.yieldOf T ())).get (by decide +kernel)).1
def out0 : List (HandlerId × IdTuple) :=
  ((first cfg.wires (initAct cfg.wires) 10 (fun T => W.yieldOf T ())).get (by decide +kernel)).2
def rs1 : RS Unit := (commit cfg.wires W ⟨s0, assign (fun _ => none) out0, ()⟩ 10 ()).get (by decide +kernel)
def rs2 : RS Unit := (commit cfg.wires W rs1 6 ()).get (by decide +kernel)      -- leaf_to_root
def rs3 : RS Unit := (commit cfg.wires W rs2 3 ()).get (by decide +kernel)      -- coulomb_root
def rs4 : RS Unit := (commit cfg.wires W rs3 8 ()).get (by decide +kernel)      -- end_of_chain (root mode)
def rs5 : RS Unit := (commit cfg.wires W rs4 7 ()).get (by decide +kernel)      -- root_to_leaf
def rs6 : RS Unit := (commit cfg.wires W rs5 0 ()).get (by decide +kernel)      -- harmonic_leaf
def rs7 : RS Unit := (commit cfg.wires W rs6 8 ()).get (by decide +kernel)      -- end_of_chain (leaf mode)

def hist : List (TaggerIdx × EvKind) := [(6, .toRoot), (3, .pass), (8, .eocRoot), (7, .toLeaf), (0, .exchange), (8, .eocLeaf)]

theorem first0 : first cfg.wires (initAct cfg.wires) 10 (fun T => W.yieldOf T ()) = some (s0, out0) := by simp [s0, out0]
theorem commit1 : commit cfg.wires W ⟨s0, assign (fun _ => none) out0, ()⟩ 10 () = some rs1 := by simp [rs1]

/-- the run exists: every committing tagger has a pending handler, every committed kind is a kind of its handler class (for
the two end-of-chain commits: the variant of the mode in which the candidate was requested) -/
theorem exRun : ∃ cm, RunK mw W Tr 10 hist cm rs7 := by
  have r1 : RunK mw W Tr 10 [] _ rs1 :=
    .start (fun _ => none) () () s0 out0 rs1 first0 commit1
  have r2 := RunK.step _ _ rs1 rs2 6 () .toRoot r1 (by decide +kernel) (by decide +kernel) trivial (Option.some_get _).symm (by decide +kernel)
  have r3 := RunK.step _ _ rs2 rs3 3 () .pass r2 (by decide +kernel) (by decide +kernel) trivial (Option.some_get _).symm (by decide +kernel)
  have r4 := RunK.step _ _ rs3 rs4 8 () .eocRoot r3 (by decide +kernel) (by decide +kernel) trivial (Option.some_get _).symm (by decide +kernel)
  have r5 := RunK.step _ _ rs4 rs5 7 () .toLeaf r4 (by decide +kernel) (by decide +kernel) trivial (Option.some_get _).symm (by decide +kernel)
  have r6 := RunK.step _ _ rs5 rs6 0 () .exchange r5 (by decide +kernel) (by decide +kernel) trivial (Option.some_get _).symm (by decide +kernel)
  have r7 := RunK.step _ _ rs6 rs7 8 () .eocLeaf r6 (by decide +kernel) (by decide +kernel) trivial (Option.some_get _).symm (by decide +kernel)
  exact ⟨_, r7⟩

/-- the theorem applies to it: the kinds follow the mode protocol, and the mode read off the flags is `leaf` at the end -/
example : kRun .leaf (kindsOfHist hist) = some .leaf ∧ mw.mode (absOf rs7.act) = .leaf ∧ mw.mode (absOf rs4.act) = .root := by
  obtain ⟨cm, r⟩ := exRun
  have inv := modeStep_of_modeSound mw W Tr 10 modeSound_dipoles_dipole_motion cfg_sound_dipoles_dipole_motion
    (by decide +kernel) fps liveIs r
  have e : mw.mode (absOf rs7.act) = .leaf := by decide +kernel
  refine ⟨?_, e, by decide +kernel⟩
  have := inv.chain
  rw [e] at this
  exact this

/-- the hypothesis `hkind` is not vacuous the other way: the root variant is NOT a kind the end-of-chain handler can commit when its
candidate was requested in a leaf-mode state, and `kRun` rejects it -/
example : EvKind.eocRoot ∉ kindsOf (mw.hmode 8) .leaf ∧ kRun .leaf [.eocRoot] = none ∧ kRun .leaf [.toRoot, .exchange] = none := by
  decide

end JF.Act.ModeExample

/-! ## non-vacuity of the composed corollary: composite events along that run

Two dipoles (`exC0`, `exC1` of `JF/Props/C12.lean`), box `[1, 1]`.  After the start (leaf 0 of object 0, velocity `[1, 0]`): the
switcher makes object 0 move as a whole — object 0 passes its velocity to object 1 — an end of chain in root mode stops object 1
and starts object 0 with velocity `[0, 1]` — the switcher leaves leaf 1 of object 0 moving — it hands over to leaf 0 — an end of
chain in leaf mode stops it and starts leaf 0 of object 1.  The kinds are those of `ModeExample.hist`. -/

namespace JF.C12.ModeExample
open JF JF.Composite JF.Act JF.Act.Gen JF.Act.ModeExample

abbrev es : List (Composite.Ev ℚ) :=
  [.toRoot ⟨0, 1/4⟩ 0, .pass ⟨0, 1/2⟩ [0, 1] 0 1, .eocRoot ⟨0, 3/4⟩ 1 0 [0, 1], .toLeaf ⟨1, 0⟩ 0 1,
   .exchange ⟨1, 1/4⟩ [0] 0 1 0 0, .eocLeaf ⟨1, 1/2⟩ 0 0 1 0 [1, 0]]

theorem es_kinds : es.map kindOf = kindsOfHist hist := by decide

theorem start_admW : AdmW 2 exL [exC0, exC1] (.start 0 [0] [1, 0]) :=
  ⟨exC0, rfl, by decide, by decide, by simp, ⟨0, by simp⟩, rfl⟩

/-- every event is weakly admissible in the state it meets; nothing is said about the order of the kinds -/
theorem es_admWFree : AdmWFree 2 exL (step Ops.rat isZ exL [exC0, exC1] (.start 0 [0] [1, 0])) es := by
  refine ⟨?_, ?_, ?_, ?_, ?_, ?_, trivial⟩
  · exact ⟨⟨⟨[5/8, 1/2], some [1/2, 0], some ⟨0, 1/4⟩⟩, [⟨[0, 1/2], some [1, 0], some ⟨0, 1/4⟩⟩, ⟨[1/4, 1/2], none, none⟩]⟩,
      ⟨[0, 1/2], some [1, 0], some ⟨0, 1/4⟩⟩, by decide +kernel, by simp, by simp⟩
  · exact ⟨by simp, by decide,
      ⟨⟨[7/8, 1/2], some [1, 0], some ⟨0, 1/2⟩⟩, [⟨[1/4, 1/2], some [1, 0], some ⟨0, 1/2⟩⟩, ⟨[1/2, 1/2], some [1, 0], some ⟨0, 1/2⟩⟩]⟩,
      ⟨⟨[1/10, 1/5], none, none⟩, [⟨[3/10, 1/5], none, none⟩, ⟨[9/10, 1/5], none, none⟩]⟩,
      ⟨[1/4, 1/2], some [1, 0], some ⟨0, 1/2⟩⟩, by decide +kernel, by decide +kernel, by simp, by simp⟩
  · exact ⟨⟨⟨[7/20, 1/5], some [1, 0], some ⟨0, 3/4⟩⟩, [⟨[11/20, 1/5], some [1, 0], some ⟨0, 3/4⟩⟩, ⟨[3/20, 1/5], some [1, 0], some ⟨0, 3/4⟩⟩]⟩,
      ⟨⟨[7/8, 1/2], none, none⟩, [⟨[1/4, 1/2], none, none⟩, ⟨[1/2, 1/2], none, none⟩]⟩,
      ⟨[11/20, 1/5], some [1, 0], some ⟨0, 3/4⟩⟩, [1, 0], by decide +kernel, by decide +kernel, by simp, rfl, ⟨1, by simp⟩, rfl,
      by norm_num [nsq]⟩
  · exact ⟨⟨⟨[7/8, 3/4], some [0, 1], some ⟨1, 0⟩⟩, [⟨[1/4, 3/4], some [0, 1], some ⟨1, 0⟩⟩, ⟨[1/2, 3/4], some [0, 1], some ⟨1, 0⟩⟩]⟩,
      ⟨[1/4, 3/4], some [0, 1], some ⟨1, 0⟩⟩, by decide +kernel, by simp, by simp, by simp⟩
  · exact ⟨by simp, fun _ => by decide, ⟨[1/2, 0], some [0, 1], some ⟨1, 1/4⟩⟩, ⟨[1/4, 3/4], none, none⟩, [0, 1],
      by decide +kernel, rfl, by decide +kernel⟩
  · exact ⟨⟨⟨[7/8, 7/8], some [0, 1/2], some ⟨1, 1/4⟩⟩, [⟨[1/4, 3/4], some [0, 1], some ⟨1, 1/4⟩⟩, ⟨[1/2, 0], none, none⟩]⟩,
      ⟨⟨[7/20, 1/5], none, none⟩, [⟨[11/20, 1/5], none, none⟩, ⟨[3/20, 1/5], none, none⟩]⟩,
      ⟨[1/4, 0], some [0, 1], some ⟨1, 1/2⟩⟩, ⟨[11/20, 1/5], none, none⟩, [0, 1],
      by decide +kernel, by decide +kernel, rfl, by decide +kernel, by decide +kernel, ⟨0, by simp⟩, rfl, by norm_num [nsq]⟩

/-- **the composed corollary applies**: no mode hypothesis and no at-rest / which-leaves-move hypothesis was supplied; the history is
admissible in the strong sense, every object stays consistent, and one chain moves — in leaf mode, as the activation flags of the
reached activator state `rs7` say -/
theorem ex_composed : AdmRun 2 exL [exC0, exC1] (.start 0 [0] [1, 0] :: es) ∧
    AllGood 2 exL (run Ops.rat isZ exL [exC0, exC1] (.start 0 [0] [1, 0] :: es)) ∧
    OneChainM (run Ops.rat isZ exL [exC0, exC1] (.start 0 [0] [1, 0] :: es)) 1 .leaf ∧
    OneChain (run Ops.rat isZ exL [exC0, exC1] (.start 0 [0] [1, 0] :: es)) 1 ∧
    ∀ c ∈ run Ops.rat isZ exL [exC0, exC1] (.start 0 [0] [1, 0] :: es), RootConsistent exL c := by
  obtain ⟨cm, r⟩ := exRun
  have hsm : mw.startMode = .leaf := by decide +kernel
  have hend : mw.mode (absOf rs7.act) = .leaf := by decide +kernel
  have := run_rootConsistent_chain_of_modeSound mw W Tr 10 modeSound_dipoles_dipole_motion cfg_sound_dipoles_dipole_motion
    (by decide +kernel) fps liveIs r exBox _ ex_initial ex_rest 0 [0] [1, 0] es es_kinds start_admW
    (by rw [hsm]; exact (rfl : [0].length = 1)) es_admWFree
  have e : nsq [1, 0] = 1 := by norm_num [nsq]
  rw [e, hend] at this
  exact this

/-- `drawsRoot_iff_root` applies to the reached state (two point masses per object): an end-of-chain candidate requested now draws a
point mass, as `kindsOf .endOfChain .leaf = [.eocLeaf]` says for the leaf-mode activation state `rs7` -/
example : ¬ DrawsRoot (run Ops.rat isZ exL [exC0, exC1] (.start 0 [0] [1, 0] :: es)) := by
  have h2 : ∀ c ∈ run Ops.rat isZ exL [exC0, exC1] (.start 0 [0] [1, 0] :: es), 2 ≤ c.leaves.length := by
    have e : (run Ops.rat isZ exL [exC0, exC1] (.start 0 [0] [1, 0] :: es)).map (·.leaves.length) = [2, 2] := by decide +kernel
    intro c hc
    have : c.leaves.length ∈ (run Ops.rat isZ exL [exC0, exC1] (.start 0 [0] [1, 0] :: es)).map (·.leaves.length) :=
      List.mem_map.mpr ⟨c, hc, rfl⟩
    rw [e] at this
    simp at this
    omega
  intro hd
  exact absurd ((drawsRoot_iff_root ex_composed.2.2.1 h2).mp hd) (by decide)

/-- the hypothesis on the kinds cannot be dropped: the same events in another order (`pass` first, in leaf mode) are not the kinds of
any run of the wiring — `kRun` fails at once — and indeed `C12Chain`'s mode hypothesis fails for them -/
example : kRun mw.startMode (([.pass ⟨0, 1/2⟩ [0, 1] 0 1, .toRoot ⟨0, 1/4⟩ 0] : List (Composite.Ev ℚ)).map kindOf) = none := by
  decide +kernel

end JF.C12.ModeExample
