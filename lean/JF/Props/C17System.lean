import JF.Lemmas.C17SystemLive
import JF.Props.SystemInv
import JF.Props.SystemInv2
/-!
# C17 at the system level (E19): the sampling and end-of-run candidates of the composed mediator loop ARE the clock model

`JF/Props/C17.lean` proves what the clock of `FixedIntervalSamplingEventHandler` / `FinalTimeEndOfRunEventHandler` computes
(`clock_val`: tick `k` is `nominal delta zf k`; `samples_spec`: the count loop).  `JF/Props/SystemInv.lean` (E9) and
`JF/Props/SystemInv2.lean` (E16) prove the joint invariant of the composed mediator loop, in which candidate times are oracle
values.  This file ties the two: for EVERY run of `JF.Sys.Reach` (point masses + cell occupancy) and of `JF.Sys2.Reach2`
(composite objects), under

* `H : Hyp …` / `Hyp2 …` — of which only `Med.Static` (duplicate-free create lists and pools, from `WiringSound`) is used;
* `hw : clockWired c S Ts Te hs he = true` — a DECIDABLE condition on the wiring (`by decide` for all 19 shipped wirings,
  `clockWired_shipped`): the sampling tagger `Ts` and the end-of-run tagger `Te` each own exactly one handler (`hs`, `he`), are
  `NoInStateTagger`s, are created by the start-of-run event, re-created by their own commit, never deactivated, and trashed only by
  their own commit or by the end-of-run commit;
* `hc : ClockCands delta tEnd zf hs he os cs` (`JF/Lemmas/C17SystemMed.lean`) — what the two handlers COMPUTE: the candidate time
  returned by the sampling handler at its `j`-th request is `Sampling.clock Ops.rat delta zf j`, the end-of-run handler returns
  `Sampling.endTime Ops.rat tEnd`.  Nothing else about candidate times, no no-tie hypothesis, no hypothesis on the global state.

the theorems say (sampling commits are the legs with `cm.handler = hs`; `commits hs pre` counts them in a prefix):

* (a) `sample_time` / `sample_times_list`: the `j`-th committed sampling event has time exactly `nominal delta zf j` — the list of
  the sampling commit times IS `[tick 1, …, tick n]`: none skipped, none duplicated, in order.  `nothing_after_due_sample`: in every
  leg after the first the tick `1 + (number of samples so far)` is pending and nothing later is committed.
* (b) `samples_before_end`: every sampling commit is at a leg before the end-of-run commit and at a nominal time `≤ tEnd`;
  `end_of_run_commit`: the end-of-run event is committed at exactly `endTime tEnd` and is the last commit;
  `nothing_beyond_end`: no leg (after the first) of any run commits at a time beyond `tEnd`.
* (c) `sample_count_at_end`: when the end-of-run event has been committed, the number of committed sampling events is
  `samplesBeforeEnd` (C17's count loop = the number of nominal times `< tEnd` by `samples_spec`), **or one more, and then the last
  sample is at a nominal time `= tEnd`** (the tie: two minimal events, the scheduler returned the sampling event first).
  Both outcomes of a tie occur in the model: `Example.tie_sample_first`, `Example.tie_end_first`.
* (d) `sample_times_strictMono`: with `0 < delta` the commit times of the sampling events are strictly increasing.
  (Liveness — that a pending sample IS eventually committed — needs physics and is not claimed.)

The proofs live at the level of the mediator component (`MRun`), so one proof serves both systems; the commit-time order used in
(b) is the scheduler's own guard (`LegOK.guard`: a leg that would go back in time raises and is not a leg of a run) — under
E9's hypotheses that guard provably never fires (`JF.SystemInv.guard_never_fires_closed`).

Non-vacuity (`Example`): a 4-leg run of `coulomb_atoms/cell_bounded.ini` in the composed system — start of run, samples at `1/35`
and `2/35`, end of run at `1/15` — every leg computed by `decide +kernel`; all hypotheses hold, the theorems apply.
-/
namespace JF.C17System
open JF JF.Act JF.Heap JF.Sched JF.Med JF.C14 JF.MediatorLoop JF.Sys JF.Sampling JF.C17

/-! ## the decidable condition on the wiring -/

/-- tagger `T` owns exactly handler `h`, is a `NoInStateTagger` (yields one `None` per request), is created by the start-of-run
tagger `S`, re-created by its own commit (or is the end-of-run tagger), trashed only by itself or by an end-of-run tagger, and
never deactivated -/
def alwaysOnB (c : Wiring) (S T : TaggerIdx) (h : HandlerId) : Bool :=
  decide (T < c.n) && ((getW c.wires T).pool == [h]) && ((c.tagger T).cls == .noInState) &&
  (c.tagger S).creates.contains T &&
  ((c.tagger T).creates.contains T || (c.tagger T).kind == .endOfRun) &&
  (List.range c.n).all (fun E => !(c.tagger E).trashes.contains T || E == T || (c.tagger E).kind == .endOfRun) &&
  (List.range c.n).all (fun E => !(c.tagger E).deactivates.contains T)

/-- **the side condition of this file**: `Ts` is the sampling tagger with handler `hs`, `Te` the end-of-run tagger with handler
`he`, both always on; the start-of-run handler is not an end-of-run handler -/
def clockWired (c : Wiring) (S Ts Te : TaggerIdx) (hs he : HandlerId) : Bool :=
  alwaysOnB c S Ts hs && alwaysOnB c S Te he && ((c.tagger Ts).kind == .sampling) && ((c.tagger Te).kind == .endOfRun) &&
  ((c.tagger S).kind != .endOfRun)

theorem tagger_out {c : Wiring} {E : TaggerIdx} (hE : c.n ≤ E) :
    (c.tagger E).trashes = [] ∧ (c.tagger E).deactivates = [] := by
  unfold Wiring.tagger
  rw [List.getElem?_eq_none hE]
  exact ⟨rfl, rfl⟩

theorem endOfRun_mwire {c : Wiring} {S : TaggerIdx} {needs : HandlerId → Bool} {x : HandlerId} {E : TaggerIdx}
    (ho : owner c.wires x = some E) : (mwire c S needs).endOfRun x = ((c.tagger E).kind == .endOfRun) := by
  show (match owner c.wires x with
    | some E => (c.tagger E).kind == HandlerKind.endOfRun
    | none => false) = _
  rw [ho]

theorem alwaysOn_of_B {c : Wiring} {S T : TaggerIdx} {h : HandlerId} {needs : HandlerId → Bool}
    (hb : alwaysOnB c S T h = true) : AlwaysOn (mwire c S needs) T h ∧ (c.tagger T).cls = .noInState := by
  unfold alwaysOnB at hb
  simp only [Bool.and_eq_true] at hb
  obtain ⟨⟨⟨⟨⟨⟨h1, h2⟩, h3⟩, h4⟩, h5⟩, h6⟩, h7⟩ := hb
  have hT : T < c.n := of_decide_eq_true h1
  refine ⟨⟨⟨?_, ?_, ?_⟩, ?_, ?_, ?_⟩, eq_of_beq h3⟩
  · show T < c.wires.length
    rw [c.wires_length]; exact hT
  · exact eq_of_beq h2
  · intro E hE
    have hE' : T ∈ (c.tagger E).trashes := by rw [← (getW_wires c E).2.1]; exact hE
    have hEn : E < c.n := by
      by_contra hc
      rw [(tagger_out (Nat.le_of_not_lt hc)).1] at hE'; simp at hE'
    have := List.all_eq_true.mp h6 E (List.mem_range.mpr hEn)
    simp only [Bool.or_eq_true, Bool.not_eq_true', beq_iff_eq] at this
    rcases this with (hc | he) | hk
    · rw [List.contains_iff_mem.mpr hE'] at hc; cases hc
    · exact Or.inl he
    · right
      intro x hx
      rw [endOfRun_mwire hx, hk]; rfl
  · show T ∈ (getW c.wires S).creates
    rw [(getW_wires c S).1]; exact List.contains_iff_mem.mp h4
  · simp only [Bool.or_eq_true, beq_iff_eq] at h5
    rcases h5 with h5 | h5
    · left
      show T ∈ (getW c.wires T).creates
      rw [(getW_wires c T).1]; exact List.contains_iff_mem.mp h5
    · right
      intro x hx
      rw [endOfRun_mwire hx, h5]; rfl
  · intro E hE
    have hE' : T ∈ (c.tagger E).deactivates := by rw [← (getW_wires c E).2.2.2]; exact hE
    have hEn : E < c.n := by
      by_contra hc
      rw [(tagger_out (Nat.le_of_not_lt hc)).2] at hE'; simp at hE'
    have := List.all_eq_true.mp h7 E (List.mem_range.mpr hEn)
    rw [List.contains_iff_mem.mpr hE'] at this
    cases this

/-- what `clockWired` gives, for the mediator's view of the wiring -/
structure Setup (M : MWire) (Ts Te : TaggerIdx) (hs he : HandlerId) : Prop where
  samp : AlwaysOn M Ts hs
  eor : AlwaysOn M Te he
  isEnd : M.endOfRun he = true
  ne : he ≠ hs
  start : ∀ x, owner M.w x = some M.S → M.endOfRun x = false

theorem setup_of_clockWired {c : Wiring} {S Ts Te : TaggerIdx} {hs he : HandlerId} {needs : HandlerId → Bool}
    (hst : Med.Static (mwire c S needs)) (hw : clockWired c S Ts Te hs he = true) :
    Setup (mwire c S needs) Ts Te hs he ∧ (c.tagger Ts).cls = .noInState ∧ (c.tagger Te).cls = .noInState := by
  unfold clockWired at hw
  simp only [Bool.and_eq_true, beq_iff_eq, bne_iff_ne] at hw
  obtain ⟨⟨⟨⟨w1, w2⟩, w3⟩, w4⟩, w5⟩ := hw
  obtain ⟨a1, c1⟩ := alwaysOn_of_B (needs := needs) w1
  obtain ⟨a2, c2⟩ := alwaysOn_of_B (needs := needs) w2
  have e1 : (mwire c S needs).endOfRun he = true := by
    rw [endOfRun_mwire (a2.toOwnTrash.owner hst), w4]; rfl
  have e2 : (mwire c S needs).endOfRun hs = false := by
    rw [endOfRun_mwire (a1.toOwnTrash.owner hst), w3]; rfl
  refine ⟨⟨a1, a2, e1, ?_, ?_⟩, c1, c2⟩
  · intro hc; rw [hc, e2] at e1; cases e1
  · intro x hx
    rw [endOfRun_mwire hx]
    exact beq_eq_false_iff_ne.mpr w5

/-- the hypotheses of the theorems, for the mediator component of a run -/
structure ClockRun (M : MWire) (Ts Te : TaggerIdx) (hs he : HandlerId) (os : List (Oracle XTime))
    (cs : List (Committed XTime)) : Prop where
  static : Med.Static M
  setup : Setup M Ts Te hs he
  run : ∃ st, MRun M os cs st
  yS : ∀ o ∈ os, o.yields Ts ≠ []
  yE : ∀ o ∈ os, o.yields Te ≠ []

/-! ## the runs of the two composed systems -/

section sys
variable {env : CW.Env ℚ} {geo : Geo env} {c : Wiring} {S : TaggerIdx} {needs : HandlerId → Bool}

theorem reach_mrun {os : List (Oracle XTime)} {cs : List (Committed XTime)} {s : Sys}
    (hr : Reach env geo c S needs os cs s) : MRun (mwire c S needs) os cs s.med := by
  induction hr with
  | init s h => rw [h.med]; exact MRun.init
  | step _ hgo hstep ih => exact MRun.step ih hgo hstep.leg

theorem reach_yields {os : List (Oracle XTime)} {cs : List (Committed XTime)} {s : Sys}
    (hr : Reach env geo c S needs os cs s) :
    ∀ o ∈ os, ∃ g : CW.CState ℚ, o.yields = fun T => CW.yieldCls env (c.tagger T).cls g := by
  induction hr with
  | init => intro o ho; simp at ho
  | @step os cs s s' o cm prev hgo hstep ih =>
    intro o' ho'
    rcases List.mem_append.mp ho' with h | h
    · exact ih o' h
    · simp only [List.mem_singleton] at h
      subst h
      exact ⟨_, hstep.yields⟩

/-- **every run of E9's composed system is a clock run** -/
theorem clockRun_of_reach (H : Hyp env c S) {Ts Te : TaggerIdx} {hs he : HandlerId}
    (hw : clockWired c S Ts Te hs he = true) {os : List (Oracle XTime)} {cs : List (Committed XTime)} {s : Sys}
    (hr : Reach env geo c S needs os cs s) : ClockRun (mwire c S needs) Ts Te hs he os cs := by
  obtain ⟨su, c1, c2⟩ := setup_of_clockWired (hyp_static (needs := needs) H) hw
  refine ⟨hyp_static H, su, ⟨_, reach_mrun hr⟩, ?_, ?_⟩
  · intro o ho
    obtain ⟨g, hg⟩ := reach_yields hr o ho
    rw [hg]
    show CW.yieldCls env (c.tagger Ts).cls g ≠ []
    rw [c1]; simp [CW.yieldCls]
  · intro o ho
    obtain ⟨g, hg⟩ := reach_yields hr o ho
    rw [hg]
    show CW.yieldCls env (c.tagger Te).cls g ≠ []
    rw [c2]; simp [CW.yieldCls]

end sys

section sys2
open JF.Sys2
variable {env : CW2.Env ℚ} {mw : ModeWiring} {S : TaggerIdx} {needs : HandlerId → Bool}

theorem reach2_mrun {os : List (Oracle XTime)} {cs : List (Committed XTime)} {s : Sys2}
    (hr : Reach2 env mw S needs os cs s) : MRun (mwire mw.w S needs) os cs s.med := by
  induction hr with
  | init s h => rw [h.med]; exact MRun.init
  | step _ hgo hstep ih => exact MRun.step ih hgo hstep.leg

theorem reach2_yields {os : List (Oracle XTime)} {cs : List (Committed XTime)} {s : Sys2}
    (hr : Reach2 env mw S needs os cs s) :
    ∀ o ∈ os, ∃ g : List (JF.CObj ℚ), o.yields = fun T => CW2.yieldCls env T (mw.w.tagger T).cls g := by
  induction hr with
  | init => intro o ho; simp at ho
  | @step os cs s s' o cm prev hgo hstep ih =>
    intro o' ho'
    rcases List.mem_append.mp ho' with h | h
    · exact ih o' h
    · simp only [List.mem_singleton] at h
      subst h
      exact ⟨_, hstep.yields⟩

/-- **every run of E16's composed system (composite objects) is a clock run** -/
theorem clockRun_of_reach2 (H : Hyp2 env mw S) {Ts Te : TaggerIdx} {hs he : HandlerId}
    (hw : clockWired mw.w S Ts Te hs he = true) {os : List (Oracle XTime)} {cs : List (Committed XTime)} {s : Sys2}
    (hr : Reach2 env mw S needs os cs s) : ClockRun (mwire mw.w S needs) Ts Te hs he os cs := by
  obtain ⟨su, c1, c2⟩ := setup_of_clockWired (hyp2_static (needs := needs) H) hw
  refine ⟨hyp2_static H, su, ⟨_, reach2_mrun hr⟩, ?_, ?_⟩
  · intro o ho
    obtain ⟨g, hg⟩ := reach2_yields hr o ho
    rw [hg]
    show CW2.yieldCls env Ts (mw.w.tagger Ts).cls g ≠ []
    rw [c1]; simp [CW2.yieldCls, CW2.yieldF]
  · intro o ho
    obtain ⟨g, hg⟩ := reach2_yields hr o ho
    rw [hg]
    show CW2.yieldCls env Te (mw.w.tagger Te).cls g ≠ []
    rw [c2]; simp [CW2.yieldCls, CW2.yieldF]

end sys2

/-! ## the theorems, for every clock run -/

section thms
variable {M : MWire} {Ts Te : TaggerIdx} {hs he : HandlerId} {os : List (Oracle XTime)} {cs : List (Committed XTime)}
  {delta tEnd : ℚ} {zf : Bool}

/-- **(a)** the sampling event committed in leg `k` is the `j`-th one, `j = 1 + number of sampling commits before leg k`, and its
time is exactly `nominal delta zf j` (as a normalised `Time`: the clock tick `j`) -/
theorem ClockRun.sample_time (R : ClockRun M Ts Te hs he os cs) (hc : SamplingCands delta zf hs os cs)
    {k : Nat} {cm : Committed XTime} (hk : cs[k]? = some cm) (hh : cm.handler = hs) :
    cm.time = .fin (clock Ops.rat delta zf (commits hs (cs.take k) + 1)) ∧
    ∃ t, cm.time = .fin t ∧ Normalised t ∧ val t = nominal delta zf (commits hs (cs.take k) + 1) := by
  obtain ⟨st, hr⟩ := R.run
  exact ⟨sampling_commit_time R.static R.setup.samp.toOwnTrash hr hc hk hh,
    sampling_commit_time_val R.static R.setup.samp.toOwnTrash hr hc hk hh⟩

/-- **(a), list form: no sample skipped, none duplicated, in order** -/
theorem ClockRun.sample_times_list (R : ClockRun M Ts Te hs he os cs) (hc : SamplingCands delta zf hs os cs) :
    (cs.filter (fun c => c.handler == hs)).map (·.time) =
      (List.range (commits hs cs)).map (fun j => XTime.fin (clock Ops.rat delta zf (j + 1))) := by
  obtain ⟨st, hr⟩ := R.run
  exact sampling_times R.static R.setup.samp.toOwnTrash hr hc

/-- **(a′) nothing is committed after the next due sample**: in the middle of every leg `k ≥ 1` the sampling candidate
`tick (1 + number of samples so far)` is pending, and the leg commits nothing later -/
theorem ClockRun.nothing_after_due_sample (R : ClockRun M Ts Te hs he os cs) (hc : SamplingCands delta zf hs os cs)
    {k : Nat} {cm : Committed XTime} (hk : cs[k]? = some cm) (h1 : 1 ≤ k) :
    pendPushed (pendOf (fun _ => none) (cs.take k)) cm hs =
        some (.fin (clock Ops.rat delta zf (commits hs (cs.take k) + 1))) ∧
      xcfg.lt (.fin (clock Ops.rat delta zf (commits hs (cs.take k) + 1))) cm.time = false := by
  obtain ⟨st, hr⟩ := R.run
  exact commit_le_due_sample R.static R.setup.samp hr hc R.yS hk h1

/-- **(b1)** the end-of-run event is committed at exactly `endTime tEnd`, it is the last commit of the run, and every commit of
the run is not later -/
theorem ClockRun.end_of_run_commit (R : ClockRun M Ts Te hs he os cs) (hc : EndCands tEnd he os cs)
    {K : Nat} {cE : Committed XTime} (hK : cs[K]? = some cE) (hh : cE.handler = he) :
    cE.time = .fin (endTime Ops.rat tEnd) ∧ K + 1 = cs.length ∧
    ∀ k cm, cs[k]? = some cm → k ≤ K ∧ xcfg.lt (.fin (endTime Ops.rat tEnd)) cm.time = false := by
  obtain ⟨st, hr⟩ := R.run
  obtain ⟨h1, h2⟩ := end_commit R.static R.setup.isEnd hr hc hK hh
  exact ⟨h1, h2, fun k cm hk => commit_le_end R.static R.setup.isEnd hr hc hK hh hk⟩

/-- **(b2)** every sampling commit is at a leg before the end-of-run commit, at a nominal time `≤ tEnd` (before it, or tied) -/
theorem ClockRun.samples_before_end (R : ClockRun M Ts Te hs he os cs) (hc : ClockCands delta tEnd zf hs he os cs)
    {K : Nat} {cE : Committed XTime} (hK : cs[K]? = some cE) (hh : cE.handler = he)
    {k : Nat} {cm : Committed XTime} (hk : cs[k]? = some cm) (hhs : cm.handler = hs) :
    k < K ∧ nominal delta zf (commits hs (cs.take k) + 1) ≤ tEnd := by
  obtain ⟨st, hr⟩ := R.run
  obtain ⟨h1, h2⟩ := sampling_le_end R.static R.setup.samp.toOwnTrash R.setup.isEnd hr hc hK hh hk hhs
  refine ⟨?_, h2⟩
  rcases Nat.lt_or_ge k K with h | h
  · exact h
  · have : k = K := by omega
    subst this
    rw [hK] at hk; cases hk
    exact absurd (hh.symm.trans hhs) R.setup.ne

/-- **(b3)** no leg (after the first) of any run — finished or not — commits at a time beyond `tEnd` -/
theorem ClockRun.nothing_beyond_end (R : ClockRun M Ts Te hs he os cs) (hc : EndCands tEnd he os cs)
    {k : Nat} {cm : Committed XTime} (hk : cs[k]? = some cm) (h1 : 1 ≤ k) :
    xcfg.lt (.fin (endTime Ops.rat tEnd)) cm.time = false ∧
    ∀ t, cm.time = .fin t → Normalised t → val t ≤ tEnd := by
  obtain ⟨st, hr⟩ := R.run
  have h := commit_le_end_pending R.static R.setup.eor hr hc R.yE hk h1
  refine ⟨h, fun t ht htn => ?_⟩
  rw [ht] at h
  have := (xlt_false_iff (endTime_val tEnd).2 htn).mp h
  rwa [(endTime_val tEnd).1] at this

/-- **(c), nominal times**: in a finished run with `n` committed samples, ticks `1 … n` are `≤ tEnd` and tick `n + 1` is `≥ tEnd` -/
theorem ClockRun.samples_at_end (R : ClockRun M Ts Te hs he os cs) (hc : ClockCands delta tEnd zf hs he os cs)
    {K : Nat} {cE : Committed XTime} (hK : cs[K]? = some cE) (hh : cE.handler = he) :
    (∀ j, j < commits hs cs → nominal delta zf (j + 1) ≤ tEnd) ∧ tEnd ≤ nominal delta zf (commits hs cs + 1) := by
  obtain ⟨st, hr⟩ := R.run
  exact JF.C17System.samples_at_end R.static R.setup.samp R.setup.isEnd R.setup.ne R.setup.start hr hc R.yS hK hh

/-- **(c)** when the end-of-run event has been committed, the number of committed sampling events is the count of C17's loop
`samplesBeforeEnd` (= the number of nominal sampling times `< tEnd`, `JF.C17.samples_spec`), or — THE TIE — one more, the last
sample then being at a nominal time `= tEnd` -/
theorem ClockRun.sample_count_at_end (R : ClockRun M Ts Te hs he os cs) (hd : 0 < delta)
    (hc : ClockCands delta tEnd zf hs he os cs) {K : Nat} {cE : Committed XTime} (hK : cs[K]? = some cE)
    (hh : cE.handler = he) {fuel : Nat} (hf : samplesBeforeEnd Ops.rat delta tEnd zf fuel 0 < fuel) :
    commits hs cs = samplesBeforeEnd Ops.rat delta tEnd zf fuel 0 ∨
    (commits hs cs = samplesBeforeEnd Ops.rat delta tEnd zf fuel 0 + 1 ∧ nominal delta zf (commits hs cs) = tEnd) := by
  obtain ⟨st, hr⟩ := R.run
  exact sample_count R.static R.setup.samp R.setup.isEnd R.setup.ne R.setup.start hd hr hc R.yS hK hh hf

/-- **(d)** with a positive interval the commit times of the sampling events are strictly increasing -/
theorem ClockRun.sample_times_strictMono (R : ClockRun M Ts Te hs he os cs) (hd : 0 < delta)
    (hc : SamplingCands delta zf hs os cs) {i j : Nat} {ci cj : Committed XTime} (hi : cs[i]? = some ci)
    (hj : cs[j]? = some cj) (hhi : ci.handler = hs) (hhj : cj.handler = hs) (hij : i < j) :
    ∃ ti tj, ci.time = .fin ti ∧ cj.time = .fin tj ∧ val ti < val tj ∧ xcfg.lt ci.time cj.time = true := by
  obtain ⟨st, hr⟩ := R.run
  exact sampling_strictMono R.static R.setup.samp.toOwnTrash hd hr hc hi hj hhi hhj hij

end thms

/-! ## the statements for every run of `JF.Sys.Reach` (E9) -/

section reach
variable {env : CW.Env ℚ} {geo : Geo env} {c : Wiring} {S : TaggerIdx} {needs : HandlerId → Bool}
  {Ts Te : TaggerIdx} {hs he : HandlerId} {os : List (Oracle XTime)} {cs : List (Committed XTime)} {s : Sys}
  {delta tEnd : ℚ} {zf : Bool}

/-- **(a) for `Sys.Reach`: the `j`-th committed sampling event has time exactly `nominal delta zf j`** -/
theorem sample_time (H : Hyp env c S) (hw : clockWired c S Ts Te hs he = true) (hr : Reach env geo c S needs os cs s)
    (hc : SamplingCands delta zf hs os cs) {k : Nat} {cm : Committed XTime} (hk : cs[k]? = some cm)
    (hh : cm.handler = hs) :
    ∃ t, cm.time = .fin t ∧ Normalised t ∧ val t = nominal delta zf (commits hs (cs.take k) + 1) :=
  ((clockRun_of_reach H hw hr).sample_time hc hk hh).2

/-- **(a), list form, for `Sys.Reach`: the sampling commit times are `tick 1, …, tick n` — none skipped, none duplicated, in order** -/
theorem sample_times_list (H : Hyp env c S) (hw : clockWired c S Ts Te hs he = true)
    (hr : Reach env geo c S needs os cs s) (hc : SamplingCands delta zf hs os cs) :
    (cs.filter (fun c => c.handler == hs)).map (·.time) =
      (List.range (commits hs cs)).map (fun j => XTime.fin (clock Ops.rat delta zf (j + 1))) :=
  (clockRun_of_reach H hw hr).sample_times_list hc

/-- **(a′) for `Sys.Reach`** (`no_sample_skipped` with the candidate's value) -/
theorem nothing_after_due_sample (H : Hyp env c S) (hw : clockWired c S Ts Te hs he = true)
    (hr : Reach env geo c S needs os cs s) (hc : SamplingCands delta zf hs os cs) {k : Nat} {cm : Committed XTime}
    (hk : cs[k]? = some cm) (h1 : 1 ≤ k) :
    pendPushed (pendOf (fun _ => none) (cs.take k)) cm hs =
        some (.fin (clock Ops.rat delta zf (commits hs (cs.take k) + 1))) ∧
      xcfg.lt (.fin (clock Ops.rat delta zf (commits hs (cs.take k) + 1))) cm.time = false :=
  (clockRun_of_reach H hw hr).nothing_after_due_sample hc hk h1

/-- **(b1) for `Sys.Reach`** -/
theorem end_of_run_commit (H : Hyp env c S) (hw : clockWired c S Ts Te hs he = true)
    (hr : Reach env geo c S needs os cs s) (hc : EndCands tEnd he os cs) {K : Nat} {cE : Committed XTime}
    (hK : cs[K]? = some cE) (hh : cE.handler = he) :
    cE.time = .fin (endTime Ops.rat tEnd) ∧ K + 1 = cs.length ∧
    ∀ k cm, cs[k]? = some cm → k ≤ K ∧ xcfg.lt (.fin (endTime Ops.rat tEnd)) cm.time = false :=
  (clockRun_of_reach H hw hr).end_of_run_commit hc hK hh

/-- **(b2) for `Sys.Reach`: every sampling commit is before the end-of-run commit, at a nominal time `≤ tEnd`** -/
theorem samples_before_end (H : Hyp env c S) (hw : clockWired c S Ts Te hs he = true)
    (hr : Reach env geo c S needs os cs s) (hc : ClockCands delta tEnd zf hs he os cs) {K : Nat} {cE : Committed XTime}
    (hK : cs[K]? = some cE) (hh : cE.handler = he) {k : Nat} {cm : Committed XTime} (hk : cs[k]? = some cm)
    (hhs : cm.handler = hs) : k < K ∧ nominal delta zf (commits hs (cs.take k) + 1) ≤ tEnd :=
  (clockRun_of_reach H hw hr).samples_before_end hc hK hh hk hhs

/-- **(b3) for `Sys.Reach`: no leg after the first commits at a time beyond `tEnd`** -/
theorem nothing_beyond_end (H : Hyp env c S) (hw : clockWired c S Ts Te hs he = true)
    (hr : Reach env geo c S needs os cs s) (hc : EndCands tEnd he os cs) {k : Nat} {cm : Committed XTime}
    (hk : cs[k]? = some cm) (h1 : 1 ≤ k) :
    xcfg.lt (.fin (endTime Ops.rat tEnd)) cm.time = false ∧ ∀ t, cm.time = .fin t → Normalised t → val t ≤ tEnd :=
  (clockRun_of_reach H hw hr).nothing_beyond_end hc hk h1

/-- **(c) for `Sys.Reach`: the number of samples of a finished run is `samplesBeforeEnd`, or one more at a tie `= tEnd`** -/
theorem sample_count_at_end (H : Hyp env c S) (hw : clockWired c S Ts Te hs he = true)
    (hr : Reach env geo c S needs os cs s) (hd : 0 < delta) (hc : ClockCands delta tEnd zf hs he os cs) {K : Nat}
    {cE : Committed XTime} (hK : cs[K]? = some cE) (hh : cE.handler = he) {fuel : Nat}
    (hf : samplesBeforeEnd Ops.rat delta tEnd zf fuel 0 < fuel) :
    commits hs cs = samplesBeforeEnd Ops.rat delta tEnd zf fuel 0 ∨
    (commits hs cs = samplesBeforeEnd Ops.rat delta tEnd zf fuel 0 + 1 ∧ nominal delta zf (commits hs cs) = tEnd) :=
  (clockRun_of_reach H hw hr).sample_count_at_end hd hc hK hh hf

/-- **(d) for `Sys.Reach`: sampling commit times strictly increase** -/
theorem sample_times_strictMono (H : Hyp env c S) (hw : clockWired c S Ts Te hs he = true)
    (hr : Reach env geo c S needs os cs s) (hd : 0 < delta) (hc : SamplingCands delta zf hs os cs) {i j : Nat}
    {ci cj : Committed XTime} (hi : cs[i]? = some ci) (hj : cs[j]? = some cj) (hhi : ci.handler = hs)
    (hhj : cj.handler = hs) (hij : i < j) :
    ∃ ti tj, ci.time = .fin ti ∧ cj.time = .fin tj ∧ val ti < val tj ∧ xcfg.lt ci.time cj.time = true :=
  (clockRun_of_reach H hw hr).sample_times_strictMono hd hc hi hj hhi hhj hij

end reach

/-! ## the statements for every run of `JF.Sys2.Reach2` (E16, composite objects) -/

section reach2
open JF.Sys2
variable {env : CW2.Env ℚ} {mw : ModeWiring} {S : TaggerIdx} {needs : HandlerId → Bool}
  {Ts Te : TaggerIdx} {hs he : HandlerId} {os : List (Oracle XTime)} {cs : List (Committed XTime)} {s : Sys2}
  {delta tEnd : ℚ} {zf : Bool}

theorem sample_time2 (H : Hyp2 env mw S) (hw : clockWired mw.w S Ts Te hs he = true)
    (hr : Reach2 env mw S needs os cs s) (hc : SamplingCands delta zf hs os cs) {k : Nat} {cm : Committed XTime}
    (hk : cs[k]? = some cm) (hh : cm.handler = hs) :
    ∃ t, cm.time = .fin t ∧ Normalised t ∧ val t = nominal delta zf (commits hs (cs.take k) + 1) :=
  ((clockRun_of_reach2 H hw hr).sample_time hc hk hh).2

theorem sample_times_list2 (H : Hyp2 env mw S) (hw : clockWired mw.w S Ts Te hs he = true)
    (hr : Reach2 env mw S needs os cs s) (hc : SamplingCands delta zf hs os cs) :
    (cs.filter (fun c => c.handler == hs)).map (·.time) =
      (List.range (commits hs cs)).map (fun j => XTime.fin (clock Ops.rat delta zf (j + 1))) :=
  (clockRun_of_reach2 H hw hr).sample_times_list hc

theorem nothing_after_due_sample2 (H : Hyp2 env mw S) (hw : clockWired mw.w S Ts Te hs he = true)
    (hr : Reach2 env mw S needs os cs s) (hc : SamplingCands delta zf hs os cs) {k : Nat} {cm : Committed XTime}
    (hk : cs[k]? = some cm) (h1 : 1 ≤ k) :
    pendPushed (pendOf (fun _ => none) (cs.take k)) cm hs =
        some (.fin (clock Ops.rat delta zf (commits hs (cs.take k) + 1))) ∧
      xcfg.lt (.fin (clock Ops.rat delta zf (commits hs (cs.take k) + 1))) cm.time = false :=
  (clockRun_of_reach2 H hw hr).nothing_after_due_sample hc hk h1

theorem end_of_run_commit2 (H : Hyp2 env mw S) (hw : clockWired mw.w S Ts Te hs he = true)
    (hr : Reach2 env mw S needs os cs s) (hc : EndCands tEnd he os cs) {K : Nat} {cE : Committed XTime}
    (hK : cs[K]? = some cE) (hh : cE.handler = he) :
    cE.time = .fin (endTime Ops.rat tEnd) ∧ K + 1 = cs.length ∧
    ∀ k cm, cs[k]? = some cm → k ≤ K ∧ xcfg.lt (.fin (endTime Ops.rat tEnd)) cm.time = false :=
  (clockRun_of_reach2 H hw hr).end_of_run_commit hc hK hh

theorem samples_before_end2 (H : Hyp2 env mw S) (hw : clockWired mw.w S Ts Te hs he = true)
    (hr : Reach2 env mw S needs os cs s) (hc : ClockCands delta tEnd zf hs he os cs) {K : Nat} {cE : Committed XTime}
    (hK : cs[K]? = some cE) (hh : cE.handler = he) {k : Nat} {cm : Committed XTime} (hk : cs[k]? = some cm)
    (hhs : cm.handler = hs) : k < K ∧ nominal delta zf (commits hs (cs.take k) + 1) ≤ tEnd :=
  (clockRun_of_reach2 H hw hr).samples_before_end hc hK hh hk hhs

theorem nothing_beyond_end2 (H : Hyp2 env mw S) (hw : clockWired mw.w S Ts Te hs he = true)
    (hr : Reach2 env mw S needs os cs s) (hc : EndCands tEnd he os cs) {k : Nat} {cm : Committed XTime}
    (hk : cs[k]? = some cm) (h1 : 1 ≤ k) :
    xcfg.lt (.fin (endTime Ops.rat tEnd)) cm.time = false ∧ ∀ t, cm.time = .fin t → Normalised t → val t ≤ tEnd :=
  (clockRun_of_reach2 H hw hr).nothing_beyond_end hc hk h1

theorem sample_count_at_end2 (H : Hyp2 env mw S) (hw : clockWired mw.w S Ts Te hs he = true)
    (hr : Reach2 env mw S needs os cs s) (hd : 0 < delta) (hc : ClockCands delta tEnd zf hs he os cs) {K : Nat}
    {cE : Committed XTime} (hK : cs[K]? = some cE) (hh : cE.handler = he) {fuel : Nat}
    (hf : samplesBeforeEnd Ops.rat delta tEnd zf fuel 0 < fuel) :
    commits hs cs = samplesBeforeEnd Ops.rat delta tEnd zf fuel 0 ∨
    (commits hs cs = samplesBeforeEnd Ops.rat delta tEnd zf fuel 0 + 1 ∧ nominal delta zf (commits hs cs) = tEnd) :=
  (clockRun_of_reach2 H hw hr).sample_count_at_end hd hc hK hh hf

theorem sample_times_strictMono2 (H : Hyp2 env mw S) (hw : clockWired mw.w S Ts Te hs he = true)
    (hr : Reach2 env mw S needs os cs s) (hd : 0 < delta) (hc : SamplingCands delta zf hs os cs) {i j : Nat}
    {ci cj : Committed XTime} (hi : cs[i]? = some ci) (hj : cs[j]? = some cj) (hhi : ci.handler = hs)
    (hhj : cj.handler = hs) (hij : i < j) :
    ∃ ti tj, ci.time = .fin ti ∧ cj.time = .fin tj ∧ val ti < val tj ∧ xcfg.lt ci.time cj.time = true :=
  (clockRun_of_reach2 H hw hr).sample_times_strictMono hd hc hi hj hhi hhj hij

end reach2

/-! ## sampling commits by handler kind

The theorems above identify the sampling commits by the handler (`cm.handler = hs`); `JF.SystemInv.no_sample_skipped` and the
harness identify them by the handler KIND.  With one sampling tagger (decidable; true for all shipped wirings) the two agree. -/

/-- `T` is the only tagger of kind `k` -/
def uniqueKind (c : Wiring) (T : TaggerIdx) (k : HandlerKind) : Bool :=
  (List.range c.n).all fun E => E == T || (c.tagger E).kind != k

theorem kind_iff_handler {c : Wiring} {S T : TaggerIdx} {h : HandlerId} {k : HandlerKind} {needs : HandlerId → Bool}
    (hst : Med.Static (mwire c S needs)) (hb : alwaysOnB c S T h = true) (hk : (c.tagger T).kind = k)
    (hu : uniqueKind c T k = true) (hne : k ≠ .unknown) (x : HandlerId) : kindOfH c x = k ↔ x = h := by
  obtain ⟨A, _⟩ := alwaysOn_of_B (needs := needs) hb
  have hown : owner c.wires h = some T := A.toOwnTrash.owner hst
  constructor
  · intro hx
    unfold kindOfH at hx
    cases ho : owner c.wires x with
    | none => rw [ho] at hx; exact absurd hx.symm hne
    | some E =>
      rw [ho] at hx
      have hEn : E < c.n := by rw [← c.wires_length]; exact owner_lt ho
      have := List.all_eq_true.mp hu E (List.mem_range.mpr hEn)
      simp only [Bool.or_eq_true, beq_iff_eq, bne_iff_ne] at this
      rcases this with rfl | hc
      · have hm := owner_mem ho
        have hp : (getW c.wires E).pool = [h] := A.pool
        rw [hp] at hm
        simpa using hm
      · exact absurd hx hc
  · rintro rfl
    rw [kindOfH_of_owner hown, hk]

/-- under `clockWired` and uniqueness of the sampling tagger, "a sampling event" is "an event of handler `hs`" -/
theorem sampling_iff_handler {c : Wiring} {S Ts Te : TaggerIdx} {hs he : HandlerId} {needs : HandlerId → Bool}
    (hst : Med.Static (mwire c S needs)) (hw : clockWired c S Ts Te hs he = true)
    (hu : uniqueKind c Ts .sampling = true) (x : HandlerId) : kindOfH c x = .sampling ↔ x = hs := by
  unfold clockWired at hw
  simp only [Bool.and_eq_true, beq_iff_eq, bne_iff_ne] at hw
  exact kind_iff_handler hst hw.1.1.1.1 hw.1.1.2 hu (by decide) x

/-- … and "an end-of-run event" is "an event of handler `he`" -/
theorem endOfRun_iff_handler {c : Wiring} {S Ts Te : TaggerIdx} {hs he : HandlerId} {needs : HandlerId → Bool}
    (hst : Med.Static (mwire c S needs)) (hw : clockWired c S Ts Te hs he = true)
    (hu : uniqueKind c Te .endOfRun = true) (x : HandlerId) : kindOfH c x = .endOfRun ↔ x = he := by
  unfold clockWired at hw
  simp only [Bool.and_eq_true, beq_iff_eq, bne_iff_ne] at hw
  exact kind_iff_handler hst hw.1.1.1.2 hw.1.2 hu (by decide) x

/-! ## the shipped wirings satisfy `clockWired` -/

open JF.Act.Gen

/-- per shipped `.ini`: wiring, start-of-run tagger, sampling tagger, end-of-run tagger, sampling handler, end-of-run handler -/
def shippedClock : List (Wiring × TaggerIdx × TaggerIdx × TaggerIdx × HandlerId × HandlerId) :=
  [(cfg_coulomb_atoms_cell_bounded, 7, 4, 6, 4, 6), (cfg_coulomb_atoms_cell_veto, 7, 4, 6, 4, 6),
   (cfg_coulomb_atoms_power_bounded, 3, 1, 4, 1, 4), (cfg_coulomb_atoms_power_bounded_dump, 4, 1, 3, 1, 3),
   (cfg_dipoles_atom_factors, 6, 3, 5, 4, 6), (cfg_dipoles_cell_bounded, 9, 6, 8, 6, 8),
   (cfg_dipoles_cell_veto, 9, 6, 8, 6, 8), (cfg_dipoles_dipole_factors_inside_first, 6, 3, 5, 3, 5),
   (cfg_dipoles_dipole_factors_outside_first, 6, 3, 5, 3, 5), (cfg_dipoles_dipole_factors_ratio, 6, 3, 5, 3, 5),
   (cfg_dipoles_dipole_motion, 10, 5, 9, 6, 10), (cfg_water_coulomb_cell_veto_lj_cell_veto, 13, 10, 12, 11, 13),
   (cfg_water_coulomb_cell_veto_lj_inverted, 10, 7, 9, 8, 10),
   (cfg_water_coulomb_power_bounded_lj_cell_bounded, 10, 7, 9, 8, 10),
   (cfg_water_coulomb_power_bounded_lj_inverted, 7, 4, 6, 7, 9), (cfg_water_single_molecule, 5, 2, 4, 3, 5),
   (cfg_hard_disk_dipoles_hard_disk_dipoles, 5, 2, 4, 161, 163),
   (cfg_hard_disk_dipoles_hard_disk_dipoles_cells, 6, 3, 5, 17, 19),
   (cfg_hard_disk_dipoles_single_hard_disk_dipole, 4, 1, 3, 1, 3)]

/-- **all 19 shipped wirings** are listed, with their own start-of-run tagger, satisfy `clockWired`, and have exactly one sampling
and one end-of-run tagger -/
theorem clockWired_shipped :
    shippedClock.map (·.1) = allCfgs ∧
    shippedClock.all (fun p => p.1.start? == some p.2.1 && clockWired p.1 p.2.1 p.2.2.1 p.2.2.2.1 p.2.2.2.2.1 p.2.2.2.2.2 &&
      uniqueKind p.1 p.2.2.1 .sampling && uniqueKind p.1 p.2.2.2.1 .endOfRun) = true := by
  constructor
  · rfl
  · decide +kernel

theorem clockWired_cell_bounded : clockWired cfg_coulomb_atoms_cell_bounded 7 4 6 4 6 = true := by decide +kernel
theorem clockWired_cell_veto : clockWired cfg_coulomb_atoms_cell_veto 7 4 6 4 6 = true := by decide +kernel
theorem clockWired_power_bounded : clockWired cfg_coulomb_atoms_power_bounded 3 1 4 1 4 = true := by decide +kernel
theorem clockWired_power_bounded_dump : clockWired cfg_coulomb_atoms_power_bounded_dump 4 1 3 1 3 = true := by
  decide +kernel
theorem clockWired_dipole_motion : clockWired cfg_dipoles_dipole_motion 10 5 9 6 10 = true := by decide +kernel

/-- the condition is not trivially true: if another event trashes the sampling tagger (here: the end-of-chain event of
`cell_bounded.ini` made to trash tagger 4), it fails — and with it "the pending candidate is tick `1 + samples so far`" would fail:
the re-created handler's next request returns a LATER tick, the trashed one is skipped -/
example : clockWired { cfg_coulomb_atoms_cell_bounded with taggers := cfg_coulomb_atoms_cell_bounded.taggers.map fun t =>
    if t.kind == .endOfChain then { t with trashes := 4 :: t.trashes, creates := 4 :: t.creates } else t } 7 4 6 4 6 = false := by
  decide +kernel

/-! ## non-vacuity: a finished run of `coulomb_atoms/cell_bounded.ini` with two samples

The configuration of `JF.SystemInv.Example` (one-dimensional box, seven cells, three point masses at 1/14, 3/14, 9/14), sampling
interval `1/35`, first sample after one interval, end of run at `1/15`.  Four legs of the composed system, every one computed by
`JF.Med.leg` (`decide +kernel`): start of run at 0 — sample at `tick 1 = 1/35` — sample at `tick 2 = 2/35` — end of run at
`1/15` (the sampling candidate `tick 3 = 3/35` and the cell-boundary candidate `1/14` are pending and later).  The candidates of
the two clock handlers ARE `Sampling.clock` / `Sampling.endTime` (`clockCands4`). -/

namespace Example
open JF.SystemInv JF.SystemInv.Example JF.C11 JF.CW JF.Kin

def δ : ℚ := 1 / 35
def tE : ℚ := 1 / 15
/-- the `j`-th value of the sampling handler's clock -/
def tick (j : Nat) : Time ℚ := clock Ops.rat δ false j

/-! leg 2: everything is created; the sampling handler (4) returns `tick 1`, the end-of-run handler (6) `endTime tE`; the sample commits -/

def candA : HandlerId → XTime := fun h =>
  if h = 2 then .fin (Time.add Ops.rat ⟨0, 0⟩ (axisTtb [g7] [1/14] [1]))
  else if h = 4 then .fin (tick 1) else if h = 1 then .fin ⟨0, 1/2⟩ else if h = 5 then .fin ⟨10, 0⟩
  else if h = 6 then .fin (endTime Ops.rat tE) else .inf
theorem hA : (leg M (specI xcfg) s1.med (mkO s1.us occ1 candA)).toOption.isSome = true := by decide +kernel
def usA : List (PUnit ℚ) := Kin.step env.o env.L s1.us (.keep (tick 1))
def sA : Sys := nextS s1 _ hA usA occ1
def cA : Committed XTime := (legR s1 _ hA).2

theorem stepA : SysStep env geo cfg 7 needs s1 (mkO s1.us occ1 candA) cA sA := by
  refine step_of s1 occ1 candA hA usA (hoccS s1 (by decide +kernel) _) ?_ ⟨tick 1, by decide +kernel, ?_⟩
  · have hcr : (legR s1 _ hA).2.created =
        [(5, some [[0]]), (1, some [[0], [1]]), (0, some [[0], [2]]), (2, some [[0]]), (4, none), (6, none)] := by
      decide +kernel
    rw [hcr]
    intro q hq
    simp only [List.mem_cons, List.not_mem_nil, or_false] at hq
    rcases hq with rfl | rfl | rfl | rfl | rfl | rfl
    · exact ⟨fun h => absurd h (by decide), fun _ => ⟨normT 10 0 (by norm_num) (by norm_num), by decide +kernel⟩⟩
    · exact ⟨fun h => absurd h (by decide), fun _ => ⟨normT 0 (1/2) (by norm_num) (by norm_num), by decide +kernel⟩⟩
    · exact ⟨fun h => absurd h (by decide), fun _ => ⟨trivial, by decide +kernel⟩⟩
    · refine ⟨fun _ => ⟨0, s1.us[0]'(by decide +kernel), [1], ⟨0, 0⟩, rfl, List.getElem?_eq_getElem _, by decide +kernel,
        by decide +kernel, by decide +kernel⟩, fun h => absurd (by decide) h⟩
    · exact ⟨fun h => absurd h (by decide), fun _ => ⟨(clock_val δ false 1).2, by decide +kernel⟩⟩
    · exact ⟨fun h => absurd h (by decide), fun _ => ⟨(endTime_val tE).2, by decide +kernel⟩⟩
  · have hk : kindOfH cfg (legR s1 _ hA).2.handler = .sampling := by decide +kernel
    rw [hk]
    exact Or.inl ⟨.keep (tick 1), rfl, rfl, trivial, rfl⟩

/-! leg 3: the sampling handler is handed out again and returns `tick 2`; it commits -/

def occA : Occ.State := (occAfter env (hasOccOf cfg) sA.occ sA.us).get (by decide +kernel)
def candB : HandlerId → XTime := fun h => if h = 4 then .fin (tick 2) else .inf
theorem hB : (leg M (specI xcfg) sA.med (mkO sA.us occA candB)).toOption.isSome = true := by decide +kernel
def usB : List (PUnit ℚ) := Kin.step env.o env.L sA.us (.keep (tick 2))
def sB : Sys := nextS sA _ hB usB occA
def cB : Committed XTime := (legR sA _ hB).2

theorem stepB : SysStep env geo cfg 7 needs sA (mkO sA.us occA candB) cB sB := by
  refine step_of sA occA candB hB usB (hoccS sA (by decide +kernel) _) ?_ ⟨tick 2, by decide +kernel, ?_⟩
  · have hcr : (legR sA _ hB).2.created = [(4, none)] := by decide +kernel
    rw [hcr]
    intro q hq
    simp only [List.mem_singleton] at hq
    subst hq
    exact ⟨fun h => absurd h (by decide), fun _ => ⟨(clock_val δ false 2).2, by decide +kernel⟩⟩
  · have hk : kindOfH cfg (legR sA _ hB).2.handler = .sampling := by decide +kernel
    rw [hk]
    exact Or.inl ⟨.keep (tick 2), rfl, rfl, trivial, rfl⟩

/-! leg 4: the sampling handler returns `tick 3 = 3/35`; the end-of-run event (`1/15`) commits and stops the loop -/

def occB : Occ.State := (occAfter env (hasOccOf cfg) sB.occ sB.us).get (by decide +kernel)
def candC : HandlerId → XTime := fun h => if h = 4 then .fin (tick 3) else .inf
theorem hC : (leg M (specI xcfg) sB.med (mkO sB.us occB candC)).toOption.isSome = true := by decide +kernel
def usC : List (PUnit ℚ) := Kin.step env.o env.L sB.us (.keep (endTime Ops.rat tE))
def sC : Sys := nextS sB _ hC usC occB
def cC : Committed XTime := (legR sB _ hC).2

theorem stepC : SysStep env geo cfg 7 needs sB (mkO sB.us occB candC) cC sC := by
  refine step_of sB occB candC hC usC (hoccS sB (by decide +kernel) _) ?_ ⟨endTime Ops.rat tE, by decide +kernel, ?_⟩
  · have hcr : (legR sB _ hC).2.created = [(4, none)] := by decide +kernel
    rw [hcr]
    intro q hq
    simp only [List.mem_singleton] at hq
    subst hq
    exact ⟨fun h => absurd h (by decide), fun _ => ⟨(clock_val δ false 3).2, by decide +kernel⟩⟩
  · have hk : kindOfH cfg (legR sB _ hC).2.handler = .endOfRun := by decide +kernel
    rw [hk]
    exact Or.inl ⟨.keep (endTime Ops.rat tE), rfl, rfl, trivial, rfl⟩

/-! the run -/

def osE : List (Oracle XTime) :=
  [] ++ [mkO s0.us occ0 cand1] ++ [mkO s1.us occ1 candA] ++ [mkO sA.us occA candB] ++ [mkO sB.us occB candC]
def csE : List (Committed XTime) := [] ++ [c1] ++ [cA] ++ [cB] ++ [cC]

theorem reachA : Reach env geo cfg 7 needs ([] ++ [mkO s0.us occ0 cand1] ++ [mkO s1.us occ1 candA]) ([] ++ [c1] ++ [cA]) sA :=
  .step reach1 (by intro cl h; simp at h; subst h; decide +kernel) stepA
theorem reachB : Reach env geo cfg 7 needs
    ([] ++ [mkO s0.us occ0 cand1] ++ [mkO s1.us occ1 candA] ++ [mkO sA.us occA candB]) ([] ++ [c1] ++ [cA] ++ [cB]) sB :=
  .step reachA (by intro cl h; simp at h; subst h; decide +kernel) stepB
theorem reachE : Reach env geo cfg 7 needs osE csE sC :=
  .step reachB (by intro cl h; simp at h; subst h; decide +kernel) stepC

/-- the committed handlers, times and `EndOfRun` flags: start of run at 0, samples at 1/35 and 2/35, end of run at 1/15 -/
example : csE.map (·.handler) = [7, 4, 4, 6] ∧
    csE.map (·.time) = [.fin ⟨0, 0⟩, .fin ⟨0, 1/35⟩, .fin ⟨0, 2/35⟩, .fin ⟨0, 1/15⟩] ∧
    csE.map (·.stop) = [false, false, false, true] := by
  decide +kernel

/-- **`ClockCands` holds for this run**: the sampling handler was asked in legs 2, 3, 4 and returned ticks 1, 2, 3; the end-of-run
handler was asked in leg 2 and returned `endTime tE` -/
theorem clockCandsE : ClockCands δ tE false 4 6 osE csE := by
  constructor
  · intro k o cm ho hc hin
    have hk4 : k < 4 := (List.getElem?_eq_some_iff.mp hc).1
    interval_cases k
    all_goals
      simp only [osE, csE, List.nil_append, List.cons_append, List.getElem?_cons_zero, List.getElem?_cons_succ,
        Option.some.injEq] at ho hc
      subst ho hc
    · exact absurd hin (by decide +kernel)
    · decide +kernel
    · decide +kernel
    · decide +kernel
  · intro k o cm ho hc hin
    have hk4 : k < 4 := (List.getElem?_eq_some_iff.mp hc).1
    interval_cases k
    all_goals
      simp only [osE, csE, List.nil_append, List.cons_append, List.getElem?_cons_zero, List.getElem?_cons_succ,
        Option.some.injEq] at ho hc
      subst ho hc
    · exact absurd hin (by decide +kernel)
    · decide +kernel
    · exact absurd hin (by decide +kernel)
    · exact absurd hin (by decide +kernel)

/-! ### the theorems apply -/

/-- the run is a clock run -/
theorem clockRunE : ClockRun M 4 6 4 6 osE csE := clockRun_of_reach hyp clockWired_cell_bounded reachE

/-- (a): the list of sampling commit times is `[tick 1, tick 2]` -/
example : (csE.filter (fun c => c.handler == 4)).map (·.time) =
    (List.range (commits 4 csE)).map (fun j => XTime.fin (clock Ops.rat δ false (j + 1))) :=
  sample_times_list hyp clockWired_cell_bounded reachE clockCandsE.sampling
example : commits 4 csE = 2 := by decide +kernel

/-- (a): the sample of leg 3 is the second one, at `nominal δ false 2 = 2/35` -/
example : ∃ t, cB.time = .fin t ∧ Normalised t ∧ val t = nominal δ false (commits 4 (csE.take 2) + 1) :=
  sample_time hyp clockWired_cell_bounded reachE clockCandsE.sampling (k := 2) (cm := cB) (by simp [csE]) (by decide +kernel)
example : nominal δ false (commits 4 (csE.take 2) + 1) = 2 / 35 := by
  have : commits 4 (csE.take 2) = 1 := by decide +kernel
  rw [this]; norm_num [nominal, δ]

/-- (b): the end-of-run commit (leg 4) is at `endTime tE`, is the last one, and the samples come before it -/
example : cC.time = .fin (endTime Ops.rat tE) ∧ 3 + 1 = csE.length :=
  let h := end_of_run_commit hyp clockWired_cell_bounded reachE clockCandsE.endOfRun (K := 3) (cE := cC) (by simp [csE])
    (by decide +kernel)
  ⟨h.1, h.2.1⟩

/-- (c): two samples = the count of C17's loop (two nominal times, 1/35 and 2/35, before 1/15; no tie) -/
example : commits 4 csE = samplesBeforeEnd Ops.rat δ tE false 10 0 ∨
    (commits 4 csE = samplesBeforeEnd Ops.rat δ tE false 10 0 + 1 ∧ nominal δ false (commits 4 csE) = tE) :=
  sample_count_at_end hyp clockWired_cell_bounded reachE (by norm_num [δ]) clockCandsE (K := 3) (cE := cC) (by simp [csE])
    (by decide +kernel) (fuel := 10) (by decide +kernel)
example : samplesBeforeEnd Ops.rat δ tE false 10 0 = 2 := by decide +kernel

/-- (d): the two samples are strictly ordered -/
example : ∃ ti tj, cA.time = .fin ti ∧ cB.time = .fin tj ∧ val ti < val tj ∧ xcfg.lt cA.time cB.time = true :=
  sample_times_strictMono hyp clockWired_cell_bounded reachE (by norm_num [δ]) clockCandsE.sampling (i := 1) (j := 2)
    (by simp [csE]) (by simp [csE]) (by decide +kernel) (by decide +kernel) (by omega)

/-! ### the tie `nominal = tEnd`: both outcomes occur in the model

Runs of the mediator loop (`MRun`) of the same configuration in which a sampling candidate and the end-of-run candidate have the
same time.  The spec-level scheduler returns the leftmost minimal live event, i.e. the one pushed first; `heap.c` and
`ListScheduler` may break the tie differently, which is why (c) allows both. -/

/-- the oracle of leg 2 with the end of the run at `tEnd` -/
def candT (tEnd : ℚ) : HandlerId → XTime := fun h =>
  if h = 2 then .fin (Time.add Ops.rat ⟨0, 0⟩ (axisTtb [g7] [1/14] [1]))
  else if h = 4 then .fin (tick 1) else if h = 1 then .fin ⟨0, 1/2⟩ else if h = 5 then .fin ⟨10, 0⟩
  else if h = 6 then .fin (endTime Ops.rat tEnd) else .inf

theorem leg1 : leg M (specI xcfg) (MedState.init (specI xcfg) M.w) (mkO s0.us occ0 cand1) = .ok (s1.med, c1) :=
  ok_of_toOption (Option.some_get h1).symm

/-- `tEnd = tick 1 = 1/35`: the sampling event was pushed first (leg 2: `… sampling, end_of_run`), it is returned: ONE sample, while
no nominal time is `< tEnd` -/
theorem hP : (leg M (specI xcfg) s1.med (mkO s1.us occ1 (candT δ))).toOption.isSome = true := by decide +kernel
def sP : Sys := nextS s1 _ hP s1.us occ1
def cP : Committed XTime := (legR s1 _ hP).2
theorem hQ : (leg M (specI xcfg) sP.med (mkO s1.us occ1 candB)).toOption.isSome = true := by decide +kernel
def sQ : Sys := nextS sP _ hQ s1.us occ1
def cQ : Committed XTime := (legR sP _ hQ).2
def osP : List (Oracle XTime) := [] ++ [mkO s0.us occ0 cand1] ++ [mkO s1.us occ1 (candT δ)] ++ [mkO s1.us occ1 candB]
def csP : List (Committed XTime) := [] ++ [c1] ++ [cP] ++ [cQ]

theorem mrunP : MRun M osP csP sQ.med :=
  .step (.step (.step .init (by intro cl h; simp at h) leg1) (by intro cl h; simp at h; subst h; decide +kernel)
    (ok_of_toOption (Option.some_get hP).symm)) (by intro cl h; simp at h; subst h; decide +kernel)
    (ok_of_toOption (Option.some_get hQ).symm)

theorem clockCandsP : ClockCands δ δ false 4 6 osP csP := by
  constructor
  · intro k o cm ho hc hin
    have hk3 : k < 3 := (List.getElem?_eq_some_iff.mp hc).1
    interval_cases k
    all_goals
      simp only [osP, csP, List.nil_append, List.cons_append, List.getElem?_cons_zero, List.getElem?_cons_succ,
        Option.some.injEq] at ho hc
      subst ho hc
    · exact absurd hin (by decide +kernel)
    · decide +kernel
    · decide +kernel
  · intro k o cm ho hc hin
    have hk3 : k < 3 := (List.getElem?_eq_some_iff.mp hc).1
    interval_cases k
    all_goals
      simp only [osP, csP, List.nil_append, List.cons_append, List.getElem?_cons_zero, List.getElem?_cons_succ,
        Option.some.injEq] at ho hc
      subst ho hc
    · exact absurd hin (by decide +kernel)
    · decide +kernel
    · exact absurd hin (by decide +kernel)

/-- **the tie case of (c) is real**: a run satisfying all hypotheses whose sample count is `samplesBeforeEnd + 1`, the extra sample
at `nominal = tEnd` -/
theorem tie_sample_first :
    csP.map (·.handler) = [7, 4, 6] ∧ csP.map (·.time) = [.fin ⟨0, 0⟩, .fin ⟨0, 1/35⟩, .fin ⟨0, 1/35⟩] ∧
    commits 4 csP = samplesBeforeEnd Ops.rat δ δ false 10 0 + 1 ∧ samplesBeforeEnd Ops.rat δ δ false 10 0 = 0 ∧
    nominal δ false (commits 4 csP) = δ := by
  refine ⟨by decide +kernel, by decide +kernel, by decide +kernel, by decide +kernel, ?_⟩
  have : commits 4 csP = 1 := by decide +kernel
  rw [this]; norm_num [nominal]

/-- `tEnd = tick 2 = 2/35`: after the first sample the sampling handler is pushed again, BEHIND the end-of-run event; at the tie
the end-of-run event is returned: one sample = `samplesBeforeEnd`, the sample due at `tEnd` itself is not taken -/
theorem hU : (leg M (specI xcfg) s1.med (mkO s1.us occ1 (candT (2 / 35)))).toOption.isSome = true := by decide +kernel
def sU : Sys := nextS s1 _ hU s1.us occ1
def cU : Committed XTime := (legR s1 _ hU).2
theorem hV : (leg M (specI xcfg) sU.med (mkO s1.us occ1 candB)).toOption.isSome = true := by decide +kernel
def sV : Sys := nextS sU _ hV s1.us occ1
def cV : Committed XTime := (legR sU _ hV).2
def osU : List (Oracle XTime) :=
  [] ++ [mkO s0.us occ0 cand1] ++ [mkO s1.us occ1 (candT (2 / 35))] ++ [mkO s1.us occ1 candB]
def csU : List (Committed XTime) := [] ++ [c1] ++ [cU] ++ [cV]

theorem mrunU : MRun M osU csU sV.med :=
  .step (.step (.step .init (by intro cl h; simp at h) leg1) (by intro cl h; simp at h; subst h; decide +kernel)
    (ok_of_toOption (Option.some_get hU).symm)) (by intro cl h; simp at h; subst h; decide +kernel)
    (ok_of_toOption (Option.some_get hV).symm)

theorem tie_end_first :
    csU.map (·.handler) = [7, 4, 6] ∧ csU.map (·.time) = [.fin ⟨0, 0⟩, .fin ⟨0, 1/35⟩, .fin ⟨0, 2/35⟩] ∧
    commits 4 csU = samplesBeforeEnd Ops.rat δ (2 / 35) false 10 0 ∧
    pendPushed (pendOf (fun _ => none) (csU.take 2)) cV 4 = some (.fin (endTime Ops.rat (2 / 35))) := by
  refine ⟨by decide +kernel, by decide +kernel, by decide +kernel, by decide +kernel⟩

/-- the mediator-level theorems apply to such runs as well: (c) for the run with the sample at the tie -/
example : commits 4 csP = samplesBeforeEnd Ops.rat δ δ false 10 0 ∨
    (commits 4 csP = samplesBeforeEnd Ops.rat δ δ false 10 0 + 1 ∧ nominal δ false (commits 4 csP) = δ) :=
  let R : ClockRun M 4 6 4 6 osP csP :=
    ⟨hyp_static hyp, (setup_of_clockWired (hyp_static hyp) clockWired_cell_bounded).1, ⟨_, mrunP⟩,
      by intro o ho; simp only [osP, List.nil_append, List.cons_append, List.mem_cons, List.not_mem_nil, or_false] at ho
         rcases ho with rfl | rfl | rfl <;> decide +kernel,
      by intro o ho; simp only [osP, List.nil_append, List.cons_append, List.mem_cons, List.not_mem_nil, or_false] at ho
         rcases ho with rfl | rfl | rfl <;> decide +kernel⟩
  R.sample_count_at_end (by norm_num [δ]) clockCandsP (K := 2) (cE := cQ) (by simp [csP]) (by decide +kernel)
    (fuel := 10) (by decide +kernel)

end Example

end JF.C17System
