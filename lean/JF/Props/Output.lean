import JF.Model.Output
import JF.Lemmas.OutputPairs
import JF.Lemmas.OutputGeom
import Mathlib.Analysis.SpecialFunctions.Sqrt
import Mathlib.Tactic.Linarith
import Mathlib.Tactic.Ring
/-!
# What the observable output handlers write (C01 "observables written by a run", C17 "what is written")

Theorems about the model `JF/Model/Output.lean` of `SeparationOutputHandler`, `BondLengthAndAngleOutputHandler`,
`OxygenOxygenSeparationOutputHandler` (and the writer state of all four handlers).

* §1 (every scalar type, hence also binary64): what is written is `x ** 0.5` / `math.acos` applied to the squared / cosine
  variant, line by line, same files, same exception (`separations_factor`, `oxygenOxygen_factor`, `angle_eq`, `cosArg_eq`);
  a `write` appends to the files and never touches what earlier calls wrote (`write_files`, `appendLines_getElem?`).
* §2 the pair loop: every unordered pair of leaves of two DIFFERENT root nodes appears exactly once, no intra-object pair
  appears, for any number of roots and leaves (`pairs_tagged`, `pairs_exactly_once`); file index `|i − j| < nodes per root`.
* §3 exact reading over `ℚ` (squared separations; `Real.sqrt` for the bound on the written value): closed form of everything
  written (`separationsSq_eq`, `bondSq_eq`, `oxygenOxygenSq_eq`), invariance under moving every leaf to a congruent position
  (translation of the whole configuration modulo the box, shift of single particles by lattice vectors), symmetry in the two
  arguments, `|component| ≤ L/2`, written value `≤ √d · L/2`; bonds: the same invariances, swapping the hydrogens swaps the
  lengths and keeps the angle, Cauchy–Schwarz and `cos ∈ [-1, 1]` for non-degenerate bonds.

Not proved here: theorems about `polarization` (modelled and tied bit for bit, no theorem).
-/
namespace JF.Output
open JF JF.Periodic JF.C15
set_option linter.unusedSectionVars false

/-! ## 1. structure, for every scalar -/

section generic
variable {α : Type} [Add α] [Sub α] [Mul α] [Div α] [Neg α] [LT α] [DecidableLT α] [LE α] [DecidableLE α] [BEq α]

/-- apply `f` to the values of a printed line -/
def mapLine (f : α → α) (l : Line α) : Line α := (l.1, l.2.map f)

/-- **the separation handler writes `(squared separation) ** 0.5`, line for line, into the same files, and raises the same
exception** — in every reading of the scalar (binary64 included) -/
theorem separations_factor (oo : OOps α) (st : Setting α) (state : List (Root α)) :
    separations oo st state =
      ((separationsSq oo.ops st state).1.map (mapLine oo.powHalf), (separationsSq oo.ops st state).2) := by
  unfold separations separationsSq separationsWith
  apply collect_map
  intro p _
  unfold sepEntryWith
  cases st.box.sepVec oo.ops p.1.pos p.2.pos with
  | none => rfl
  | some v => by_cases h : identDistance st.levels p.1.ident p.2.ident < st.perRoot <;> simp [h, mapLine]

theorem oxygenOxygen_factor (oo : OOps α) (st : Setting α) (state : List (Root α)) :
    oxygenOxygen oo st state =
      ((oxygenOxygenSq oo.ops st state).1.map (mapLine oo.powHalf), (oxygenOxygenSq oo.ops st state).2) := by
  unfold oxygenOxygen oxygenOxygenSq oxygenOxygenWith
  by_cases h : (state.all fun r => r.children.length == 3) = true
  · simp only [h, Bool.not_true, Bool.false_eq_true, if_false]
    apply collect_map
    intro p _
    unfold ooEntryWith
    cases st.box.sepVec oo.ops p.1.pos p.2.pos with
    | none => rfl
    | some v => simp [mapLine]
  · simp [h]

/-- `angle_between_two_vectors` is `math.acos` of the cosine argument -/
theorem angle_eq (oo : OOps α) (v w : List α) : angle oo v w = (cosArg oo v w).bind oo.acos := rfl

/-- the cosine argument, when no exception is raised, is `dot / norm(v) / norm(w)` with `norm = (Σ c²) ** 0.5` -/
theorem cosArg_eq (oo : OOps α) (v w : List α) (c : α) (h : cosArg oo v w = .ok c) :
    ∃ d, dot oo.ops v w = .ok d ∧ c = d / oo.powHalf (normSq oo.ops v) / oo.powHalf (normSq oo.ops w) := by
  unfold cosArg at h
  cases hd : dot oo.ops v w with
  | error e => rw [hd] at h; cases h
  | ok d =>
    rw [hd] at h
    refine ⟨d, rfl, ?_⟩
    simp only [pyDiv, norm, bind, Except.bind] at h
    by_cases h1 : (oo.powHalf (normSq oo.ops v) == oo.ops.ofInt 0) = true
    · simp [h1] at h
    · by_cases h2 : (oo.powHalf (normSq oo.ops w) == oo.ops.ofInt 0) = true
      · simp [h1, h2] at h
      · simp only [h1, h2, if_false, Bool.false_eq_true] at h
        cases h; rfl

/-- a `write` increments the counter, appends the printed lines and changes nothing else -/
theorem write_files (oo : OOps α) (st : Setting α) (h : Handler α) (state : List (Root α)) :
    (h.write oo st state).1.files = appendLines h.files (observe oo st h.kind state).1 ∧
      (h.write oo st state).1.counter = h.counter + 1 ∧ (h.write oo st state).1.kind = h.kind ∧
      (h.write oo st state).2.1 = (observe oo st h.kind state).2 := ⟨rfl, rfl, rfl, rfl⟩

/-- file `k` after printing the lines `ls` is file `k` before, followed by exactly the lines addressed to file `k`, in order:
what earlier calls wrote is never changed, and a line addressed to a file that does not exist is the only way to lose one
(excluded in the model by the `IndexError` outcome of the loop body) -/
theorem appendLines_getElem? (files : List (List (FLine α))) (ls : List (Line α)) (k : Nat) :
    (appendLines files ls)[k]? =
      files[k]?.map fun f => f ++ ((ls.filter fun l => l.1 == k).map fun l => FLine.vals l.2) := by
  unfold appendLines
  induction ls generalizing files with
  | nil => cases h : files[k]? <;> simp [h]
  | cons l ls ih =>
    rw [List.foldl_cons, ih]
    by_cases hk : l.1 = k
    · subst hk
      simp only [List.getElem?_modify, if_true, beq_self_eq_true, List.filter_cons_of_pos, List.map_cons]
      cases files[l.1]? <;> simp
    · have : (l.1 == k) = false := by simpa using hk
      simp only [List.getElem?_modify, hk, if_false, List.filter_cons, this, Bool.false_eq_true]
      cases files[k]? <;> simp

end generic

/-! ## 2. the pair loop -/

/-- the pairs of the separation handler, each leaf tagged with its address (root index, leaf index): the untagged projection
is the loop of the handler, the address projection is the pair list of the bare addresses — position `n` of what is written
belongs to address pair `n` -/
theorem pairs_tagged {α : Type} (state : List (Root α)) :
    crossPairs (state.map Root.leaves) =
        (crossPairs (tagged (state.map Root.leaves))).map (Prod.map Prod.snd Prod.snd) ∧
      (crossPairs (tagged (state.map Root.leaves))).map (Prod.map Prod.fst Prod.fst) =
        crossPairs (addrs (state.map fun r => r.leaves.length)) := by
  constructor
  · rw [← crossPairs_map, tagged_snd]
  · rw [← crossPairs_map, tagged_fst, List.map_map]; rfl

/-- **every unordered pair of leaves of two different composite objects appears exactly once (in one of its two orders) and
no pair of leaves of the same object appears**, for any number of root nodes with any numbers of leaves -/
theorem pairs_exactly_once {α : Type} (state : List (Root α)) (i a j b : Nat)
    (hi : ∃ r, state[i]? = some r ∧ a < r.leaves.length) (hj : ∃ r, state[j]? = some r ∧ b < r.leaves.length) :
    let P := crossPairs (addrs (state.map fun r => r.leaves.length))
    P.count ((i, a), (j, b)) + P.count ((j, b), (i, a)) = if i = j then 0 else 1 := by
  intro P
  have mem : ∀ i a, (∃ r, state[i]? = some r ∧ a < r.leaves.length) →
      (i, a) ∈ (addrs (state.map fun r => r.leaves.length)).flatten := by
    rintro i a ⟨r, hr, ha⟩
    exact mem_addrs_flatten.mpr ⟨r.leaves.length, by simp [hr], ha⟩
  exact crossPairs_addrs_count _ (i, a) (j, b) (mem i a hi) (mem j b hj)

/-- non-vacuity: three root nodes with 2, 1 and 3 leaves: 2·1 + 2·3 + 1·3 = 11 lines, pair ((0,1),(2,0)) once,
its mirror image never, an intra-object pair never -/
example : (crossPairs (addrs [2, 1, 3])).length = 11 ∧ (crossPairs (addrs [2, 1, 3])).count ((0, 1), (2, 0)) = 1 ∧
    (crossPairs (addrs [2, 1, 3])).count ((2, 0), (0, 1)) = 0 ∧ (crossPairs (addrs [2, 1, 3])).count ((2, 0), (2, 1)) = 0 := by
  decide

/-- the file index is `|i − j|` of the leaf identifiers and addresses an existing file when the identifiers are child
indices `0 ≤ · < nodes per root` -/
theorem identDistance_lt (levels n : Nat) (a b : Int) (hl : 1 < levels) (ha : 0 ≤ a ∧ a < n) (hb : 0 ≤ b ∧ b < n) :
    (identDistance levels a b : Int) = |a - b| ∧ identDistance levels a b < n := by
  unfold identDistance
  rw [if_pos hl]
  constructor
  · exact Int.natCast_natAbs _
  · omega

/-- with one node level everything goes to file 0 -/
theorem identDistance_one_level (levels : Nat) (a b : Int) (hl : levels ≤ 1) : identDistance levels a b = 0 := by
  unfold identDistance
  rw [if_neg (by omega)]

/-! ## 3. exact reading -/

/-- the leaf `f`-image of a root node (its own unit and its children), so that `(r.mapLeaf f).leaves = r.leaves.map f` -/
def Root.mapLeaf {α : Type} (f : Leaf α → Leaf α) (r : Root α) : Root α :=
  ⟨(f r.self).ident, (f r.self).pos, (f r.self).charge, r.children.map f⟩

theorem Root.leaves_mapLeaf {α : Type} (f : Leaf α → Leaf α) (r : Root α) : (r.mapLeaf f).leaves = r.leaves.map f := by
  unfold Root.leaves Root.mapLeaf
  cases hc : r.children with
  | nil => simp [Root.self]
  | cons c cs => simp

/-- `f` moves the leaf `l` to a position that is component-wise congruent, modulo the box lengths, to its position translated
by the vector `t` (the SAME `t` for every leaf: a translation of the whole configuration; `t = 0`: a lattice shift), and
keeps its identifier -/
def CongrMove (Ls t : List ℚ) (f : Leaf ℚ → Leaf ℚ) (l : Leaf ℚ) : Prop :=
  (f l).ident = l.ident ∧ ∃ (h : (f l).pos.length = l.pos.length),
    ∀ j (hj : j < Ls.length) (hl : j < l.pos.length) (ht : j < t.length),
      Congr Ls[j] (l.pos[j] + t[j]) ((f l).pos[j]'(by omega))

section exact
variable {st : Setting ℚ} {Ls : List ℚ}

/-- **closed form of what the separation handler writes** (squared, exact reading): for a well-formed box, positions with
`dimension` entries and identifier distances that address existing files, one line per pair of the pair loop, in that order:
the file index `|i − j|` and the exact squared nearest-image separation; no exception -/
theorem separationsSq_eq (hb : BoxOK st.box Ls) (state : List (Root ℚ))
    (hs : ∀ r ∈ state, ∀ l ∈ r.leaves, l.pos.length = Ls.length)
    (hk : ∀ p ∈ crossPairs (state.map Root.leaves), identDistance st.levels p.1.ident p.2.ident < st.perRoot) :
    separationsSq Ops.rat st state =
      ((crossPairs (state.map Root.leaves)).map fun p =>
        (identDistance st.levels p.1.ident p.2.ident, [sepSq Ls p.1.pos p.2.pos]), none) := by
  unfold separationsSq separationsWith
  have hpos : ∀ p ∈ crossPairs (state.map Root.leaves), p.1.pos.length = Ls.length ∧ p.2.pos.length = Ls.length := by
    intro p hp
    obtain ⟨⟨g, hg, h1⟩, ⟨g', hg', h2⟩⟩ := fst_mem_of_mem_crossPairs hp
    simp only [List.mem_map] at hg hg'
    obtain ⟨r, hr, rfl⟩ := hg
    obtain ⟨r', hr', rfl⟩ := hg'
    exact ⟨hs r hr _ h1, hs r' hr' _ h2⟩
  have entry : ∀ p ∈ crossPairs (state.map Root.leaves), sepEntryWith Ops.rat id st p =
      ([(identDistance st.levels p.1.ident p.2.ident, [sepSq Ls p.1.pos p.2.pos])], none) := by
    intro p hp
    unfold sepEntryWith
    simp only [sepVec_eq hb (hpos p hp).1 (hpos p hp).2, if_pos (hk p hp), normSq_rat, id, sepSq]
  rw [collect_ok _ _ (fun p hp => by rw [entry p hp])]
  congr 1
  rw [List.flatMap_congr (fun p hp => by rw [entry p hp])]
  induction crossPairs (state.map Root.leaves) with
  | nil => rfl
  | cons p ps ih => simp [ih]

/-- the hypothesis on the file indices holds when the leaf identifiers are the child indices `0 ≤ · < nodes per root`
(two levels), or with one node level and at least one file -/
theorem fileIndex_ok (state : List (Root ℚ))
    (h : (st.levels ≤ 1 ∧ 0 < st.perRoot) ∨
      (1 < st.levels ∧ ∀ r ∈ state, ∀ l ∈ r.leaves, 0 ≤ l.ident ∧ l.ident < st.perRoot)) :
    ∀ p ∈ crossPairs (state.map Root.leaves), identDistance st.levels p.1.ident p.2.ident < st.perRoot := by
  intro p hp
  rcases h with ⟨h1, h2⟩ | ⟨h1, h2⟩
  · rw [identDistance_one_level _ _ _ h1]; exact h2
  · obtain ⟨⟨g, hg, m1⟩, ⟨g', hg', m2⟩⟩ := fst_mem_of_mem_crossPairs hp
    simp only [List.mem_map] at hg hg'
    obtain ⟨r, hr, rfl⟩ := hg
    obtain ⟨r', hr', rfl⟩ := hg'
    exact (identDistance_lt _ _ _ _ h1 (h2 r hr _ m1) (h2 r' hr' _ m2)).2

/-- the separation vector depends on the two positions only through their difference modulo the box lengths -/
theorem sepSpec_congr_diff (hpos : ∀ L ∈ Ls, 0 < L) {a b a' b' : List ℚ}
    (ha : a.length = Ls.length) (hb : b.length = Ls.length) (ha' : a'.length = Ls.length) (hb' : b'.length = Ls.length)
    (hc : ∀ j (h : j < Ls.length), Congr Ls[j] ((b[j]'(by omega)) - (a[j]'(by omega))) ((b'[j]'(by omega)) - (a'[j]'(by omega)))) :
    sepSpec Ls a b = sepSpec Ls a' b' := by
  have l1 := sepSpec_length ha hb
  have l2 := sepSpec_length ha' hb'
  apply List.ext_getElem (by omega)
  intro j h1 h2
  rw [sepSpec_getElem j h1 (by omega) (by omega) (by omega), sepSpec_getElem j h2 (by omega) (by omega) (by omega)]
  exact wrapSep_congr_eq (hpos _ (List.getElem_mem (by omega))) (hc j (by omega))

/-- two leaves moved by `CongrMove`s with the same translation keep their separation vector -/
theorem sepSpec_move (hpos : ∀ L ∈ Ls, 0 < L) {t : List ℚ} (ht : t.length = Ls.length) {f : Leaf ℚ → Leaf ℚ} {x y : Leaf ℚ}
    (hx : x.pos.length = Ls.length) (hy : y.pos.length = Ls.length) (mx : CongrMove Ls t f x) (my : CongrMove Ls t f y) :
    sepSpec Ls (f x).pos (f y).pos = sepSpec Ls x.pos y.pos := by
  obtain ⟨-, len1, c1⟩ := mx
  obtain ⟨-, len2, c2⟩ := my
  refine (sepSpec_congr_diff hpos hx hy (by omega) (by omega) ?_).symm
  intro j h
  obtain ⟨k, hk⟩ := c1 j h (by omega) (by omega)
  obtain ⟨m, hm⟩ := c2 j h (by omega) (by omega)
  exact ⟨m - k, by push_cast; linarith⟩

/-- **invariance of everything the separation handler writes**: moving every leaf to a position congruent modulo the box
(translating the whole configuration by any vector and wrapping it back into the box; shifting any single particle by a
lattice vector; any mixture) changes no file index and no written squared separation -/
theorem separationsSq_invariant (hb : BoxOK st.box Ls) (state : List (Root ℚ)) (f : Leaf ℚ → Leaf ℚ)
    (t : List ℚ) (ht : t.length = Ls.length)
    (hs : ∀ r ∈ state, ∀ l ∈ r.leaves, l.pos.length = Ls.length)
    (hk : ∀ p ∈ crossPairs (state.map Root.leaves), identDistance st.levels p.1.ident p.2.ident < st.perRoot)
    (hf : ∀ r ∈ state, ∀ l ∈ r.leaves, CongrMove Ls t f l) :
    separationsSq Ops.rat st (state.map (Root.mapLeaf f)) = separationsSq Ops.rat st state := by
  have hleaves : (state.map (Root.mapLeaf f)).map Root.leaves = (state.map Root.leaves).map (List.map f) := by
    simp [List.map_map, Function.comp_def, Root.leaves_mapLeaf]
  have hmem : ∀ p ∈ crossPairs (state.map Root.leaves),
      (∃ r ∈ state, p.1 ∈ r.leaves) ∧ (∃ r ∈ state, p.2 ∈ r.leaves) := by
    intro p hp
    obtain ⟨⟨g, hg, h1⟩, ⟨g', hg', h2⟩⟩ := fst_mem_of_mem_crossPairs hp
    simp only [List.mem_map] at hg hg'
    obtain ⟨r, hr, rfl⟩ := hg
    obtain ⟨r', hr', rfl⟩ := hg'
    exact ⟨⟨r, hr, h1⟩, ⟨r', hr', h2⟩⟩
  have hs' : ∀ r ∈ state.map (Root.mapLeaf f), ∀ l ∈ r.leaves, l.pos.length = Ls.length := by
    intro r hr l hl
    simp only [List.mem_map] at hr
    obtain ⟨r0, hr0, rfl⟩ := hr
    rw [Root.leaves_mapLeaf] at hl
    simp only [List.mem_map] at hl
    obtain ⟨l0, hl0, rfl⟩ := hl
    obtain ⟨-, hlen, -⟩ := hf r0 hr0 l0 hl0
    rw [hlen]; exact hs r0 hr0 l0 hl0
  have hk' : ∀ p ∈ crossPairs ((state.map (Root.mapLeaf f)).map Root.leaves),
      identDistance st.levels p.1.ident p.2.ident < st.perRoot := by
    intro p hp
    rw [hleaves, crossPairs_map] at hp
    simp only [List.mem_map] at hp
    obtain ⟨q, hq, rfl⟩ := hp
    obtain ⟨⟨r, hr, h1⟩, ⟨r', hr', h2⟩⟩ := hmem q hq
    simp only [Prod.map_fst, Prod.map_snd, (hf r hr _ h1).1, (hf r' hr' _ h2).1]
    exact hk q hq
  rw [separationsSq_eq hb _ hs' hk', separationsSq_eq hb _ hs hk, hleaves, crossPairs_map, List.map_map]
  congr 1
  apply List.map_congr_left
  intro q hq
  obtain ⟨⟨r, hr, h1⟩, ⟨r', hr', h2⟩⟩ := hmem q hq
  simp only [Function.comp, Prod.map_fst, Prod.map_snd, (hf r hr _ h1).1, (hf r' hr' _ h2).1, sepSq,
    sepSpec_move hb.pos ht (hs r hr _ h1) (hs r' hr' _ h2) (hf r hr _ h1) (hf r' hr' _ h2)]

/-- translating a position by the vector `t` and wrapping every coordinate back into the box (`correct_position`) is such a
move: **translation of the whole configuration by any vector (mod the box)** -/
theorem congrMove_translate (hpos : ∀ L ∈ Ls, 0 < L) (t : List ℚ) (ht : t.length = Ls.length) (l : Leaf ℚ)
    (hl : l.pos.length = Ls.length) :
    CongrMove Ls t (fun l => { l with pos := List.zipWith (fun L x => wrap Ops.rat x L) Ls (List.zipWith (· + ·) l.pos t) }) l := by
  refine ⟨rfl, by simp [hl, ht], ?_⟩
  intro j hj hlj htj
  simp only [List.getElem_zipWith]
  exact wrap_congr (hpos _ (List.getElem_mem hj))

/-- **shifting a particle by a lattice vector** `(n₁ L₁, …, n_d L_d)` is such a move with translation zero; a map that shifts
some leaves by (different) lattice vectors and leaves the others alone satisfies `CongrMove Ls 0 f` at every leaf -/
theorem congrMove_latticeShift (f : Leaf ℚ → Leaf ℚ) (l : Leaf ℚ) (ns : List ℤ) (hn : ns.length = Ls.length)
    (hl : l.pos.length = Ls.length) (hi : (f l).ident = l.ident)
    (hp : (f l).pos = List.zipWith (· + ·) l.pos (List.zipWith (fun (n : ℤ) L => (n : ℚ) * L) ns Ls)) :
    CongrMove Ls (List.replicate Ls.length 0) f l := by
  refine ⟨hi, by simp [hp, hl, hn], ?_⟩
  intro j hj hlj htj
  simp only [hp, List.getElem_zipWith, List.getElem_replicate]
  exact ⟨-ns[j], by push_cast; ring⟩

theorem congrMove_id (t0 : List ℚ) (h0 : ∀ x ∈ t0, x = 0) (l : Leaf ℚ) : CongrMove Ls t0 id l := by
  refine ⟨rfl, rfl, ?_⟩
  intro j hj hlj htj
  exact ⟨0, by simp [h0 _ (List.getElem_mem htj)]⟩

/-! ### symmetry and bounds -/

/-- **symmetry**: the written squared separation does not depend on the order of the two arguments of `separation_vector` -/
theorem sepSq_comm (hb : BoxOK st.box Ls) (a b : List ℚ) (ha : a.length = Ls.length) (hb' : b.length = Ls.length) :
    sepSq Ls a b = sepSq Ls b a := sepSq_symm hb.pos ha hb'

/-- **each component of the separation has magnitude at most half the box length** -/
theorem sepSpec_component_le (hb : BoxOK st.box Ls) (a b : List ℚ) (ha : a.length = Ls.length) (hb' : b.length = Ls.length)
    (j : Nat) (h : j < (sepSpec Ls a b).length) (hj : j < Ls.length) : |(sepSpec Ls a b)[j]| ≤ Ls[j] / 2 :=
  sepSpec_abs_le hb.pos ha hb' j h hj

/-- … hence the squared written value is at most `Σ_j (L_j/2)²` -/
theorem sepSq_bound (hb : BoxOK st.box Ls) (a b : List ℚ) : sepSq Ls a b ≤ (Ls.map fun L => (L / 2) * (L / 2)).sum :=
  sepSq_le hb.pos

/-- cubic box of side `L` in `d` dimensions: the exact written value `√(sepSq)` is at most `√d · L/2` -/
theorem written_le_sqrt_d_half_L {c : Cubic ℚ} {d : ℤ} {L : ℚ} (hc : Cubic.init Ops.rat d L = .ok c) (a b : List ℚ) :
    Real.sqrt ((sepSq (List.replicate d.toNat L) a b : ℚ) : ℝ) ≤ Real.sqrt (d.toNat : ℝ) * ((L : ℝ) / 2) := by
  have hL : 0 < L := (cubic_init_iff.mp hc).2.1
  have h := sepSq_le (a := a) (b := b) (Ls := List.replicate d.toNat L) (fun l hl => by rw [List.eq_of_mem_replicate hl]; exact hL)
  have e : ((List.replicate d.toNat L).map fun L => (L / 2) * (L / 2)).sum = (d.toNat : ℚ) * ((L / 2) * (L / 2)) := by
    simp [List.map_replicate, List.sum_replicate]
  rw [e] at h
  have hR : ((sepSq (List.replicate d.toNat L) a b : ℚ) : ℝ) ≤ (d.toNat : ℝ) * (((L : ℝ) / 2) * ((L : ℝ) / 2)) := by
    exact_mod_cast h
  have hL' : (0 : ℝ) < (L : ℝ) := by exact_mod_cast hL
  have hLR : (0 : ℝ) ≤ (L : ℝ) / 2 := by linarith
  calc Real.sqrt _ ≤ Real.sqrt ((d.toNat : ℝ) * (((L : ℝ) / 2) * ((L : ℝ) / 2))) := Real.sqrt_le_sqrt hR
    _ = Real.sqrt (d.toNat : ℝ) * ((L : ℝ) / 2) := by
        rw [Real.sqrt_mul (by positivity), Real.sqrt_mul_self hLR]

/-! ### `BondLengthAndAngleOutputHandler`, `OxygenOxygenSeparationOutputHandler` -/

/-- the three lines of one water molecule in the exact reading: the two squared O–H lengths (file 0) and the dot product of the
two bond vectors (file 1; the cosine is `dot / √len₁² / √len₂²`) -/
def bondLines (Ls : List ℚ) (r : Root ℚ) : List (Line ℚ) :=
  match r.children with
  | [h1, ox, h2] => [(0, [sepSq Ls ox.pos h1.pos]), (0, [sepSq Ls ox.pos h2.pos]),
                     (1, [dotQ (sepSpec Ls ox.pos h1.pos) (sepSpec Ls ox.pos h2.pos)])]
  | _ => []

/-- **closed form of what the bond handler writes** (exact reading): molecule after molecule, never an exception, when every
root node has three children with `dimension` coordinates -/
theorem bondSq_eq (hb : BoxOK st.box Ls) (state : List (Root ℚ))
    (hw : ∀ r ∈ state, r.children.length = 3 ∧ ∀ c ∈ r.children, c.pos.length = Ls.length) :
    bondSq Ops.rat st state = (state.flatMap (bondLines Ls), none) := by
  unfold bondSq
  have entry : ∀ r ∈ state, bondEntryWith Ops.rat id (dot Ops.rat) st r = (bondLines Ls r, none) := by
    intro r hr
    obtain ⟨h3, hp⟩ := hw r hr
    unfold bondEntryWith bondLines
    rcases hc : r.children with _ | ⟨h1, _ | ⟨ox, _ | ⟨h2, _ | ⟨x, xs⟩⟩⟩⟩ <;> rw [hc] at h3 hp <;> simp at h3
    have p1 := hp h1 (by simp)
    have p2 := hp ox (by simp)
    have p3 := hp h2 (by simp)
    simp only [sepVec_eq hb p2 p1, sepVec_eq hb p2 p3, normSq_rat, id,
      dot_rat _ _ ((sepSpec_length p2 p1).trans (sepSpec_length p2 p3).symm), sepSq, dotQ]
    rfl
  rw [collect_ok _ _ (fun r hr => by rw [entry r hr])]
  congr 1
  exact List.flatMap_congr (fun r hr => by rw [entry r hr])

/-- exchange the two hydrogens of a molecule -/
def Root.swapH {α : Type} (r : Root α) : Root α :=
  { r with children := match r.children with
                       | [h1, ox, h2] => [h2, ox, h1]
                       | c => c }

/-- **swapping the two hydrogens swaps the two lengths and leaves the angle (its cosine: the dot product) unchanged** -/
theorem bondLines_swapH (r : Root ℚ) (l1 l2 a : Line ℚ) (h : bondLines Ls r = [l1, l2, a]) :
    bondLines Ls r.swapH = [l2, l1, a] := by
  unfold bondLines Root.swapH at *
  rcases hc : r.children with _ | ⟨h1, _ | ⟨ox, _ | ⟨h2, _ | ⟨x, xs⟩⟩⟩⟩ <;> rw [hc] at h <;> simp at h
  obtain ⟨rfl, rfl, rfl⟩ := h
  simp [dotQ_comm]

/-- **the bond lengths and the angle are invariant under the same moves** (translation of the whole configuration modulo the
box, lattice shifts of single atoms) -/
theorem bondLines_invariant (hb : BoxOK st.box Ls) (r : Root ℚ) (f : Leaf ℚ → Leaf ℚ) (t : List ℚ) (ht : t.length = Ls.length)
    (hp : ∀ c ∈ r.children, c.pos.length = Ls.length) (hf : ∀ c ∈ r.children, CongrMove Ls t f c) :
    bondLines Ls (r.mapLeaf f) = bondLines Ls r := by
  unfold bondLines Root.mapLeaf
  rcases hc : r.children with _ | ⟨h1, _ | ⟨ox, _ | ⟨h2, _ | ⟨x, xs⟩⟩⟩⟩ <;> simp
  rw [hc] at hp hf
  have m1 := sepSpec_move hb.pos ht (hp ox (by simp)) (hp h1 (by simp)) (hf ox (by simp)) (hf h1 (by simp))
  have m2 := sepSpec_move hb.pos ht (hp ox (by simp)) (hp h2 (by simp)) (hf ox (by simp)) (hf h2 (by simp))
  simp [sepSq, m1, m2]

/-- **Cauchy–Schwarz**: `dot² ≤ len₁² · len₂²` for the two bond vectors, and so **the cosine `dot / r₁ / r₂` of the angle lies in
`[-1, 1]` for non-degenerate bonds** (`r₁, r₂ > 0` the bond lengths; in the exact reading `math.acos` never raises) -/
theorem bond_cos_in_range (o h1 h2 : List ℚ) :
    let d := dotQ (sepSpec Ls o h1) (sepSpec Ls o h2)
    d * d ≤ sepSq Ls o h1 * sepSq Ls o h2 ∧
      (0 < sepSq Ls o h1 → 0 < sepSq Ls o h2 →
        -1 ≤ (d : ℝ) / Real.sqrt (sepSq Ls o h1 : ℚ) / Real.sqrt (sepSq Ls o h2 : ℚ) ∧
          (d : ℝ) / Real.sqrt (sepSq Ls o h1 : ℚ) / Real.sqrt (sepSq Ls o h2 : ℚ) ≤ 1) := by
  intro d
  have hcs : d * d ≤ sepSq Ls o h1 * sepSq Ls o h2 := dotQ_sq_le _ _
  refine ⟨hcs, fun p1 p2 => ?_⟩
  have q1 : (0 : ℝ) < ((sepSq Ls o h1 : ℚ) : ℝ) := by exact_mod_cast p1
  have q2 : (0 : ℝ) < ((sepSq Ls o h2 : ℚ) : ℝ) := by exact_mod_cast p2
  have hR : (d : ℝ) * (d : ℝ) ≤ ((sepSq Ls o h1 : ℚ) : ℝ) * ((sepSq Ls o h2 : ℚ) : ℝ) := by exact_mod_cast hcs
  exact cos_in_range hR (Real.sqrt_pos.mpr q1) (Real.sqrt_pos.mpr q2) (Real.mul_self_sqrt q1.le) (Real.mul_self_sqrt q2.le)

/-- **closed form of what the oxygen–oxygen handler writes** (squared, exact): the pairs `i < j` of the second children -/
theorem oxygenOxygenSq_eq (hb : BoxOK st.box Ls) (state : List (Root ℚ))
    (hw : ∀ r ∈ state, r.children.length = 3 ∧ ∀ c ∈ r.children, c.pos.length = Ls.length) :
    oxygenOxygenSq Ops.rat st state =
      ((crossPairs ((state.filterMap fun r => r.children[1]?).map fun x => [x])).map fun p =>
        (0, [sepSq Ls p.1.pos p.2.pos]), none) := by
  unfold oxygenOxygenSq oxygenOxygenWith
  have hall : (state.all fun r => r.children.length == 3) = true := by
    rw [List.all_eq_true]; intro r hr; simpa using (hw r hr).1
  simp only [hall, Bool.not_true, Bool.false_eq_true, if_false]
  set P := crossPairs ((state.filterMap fun r => r.children[1]?).map fun x => [x]) with hP
  have hpos : ∀ p ∈ P, p.1.pos.length = Ls.length ∧ p.2.pos.length = Ls.length := by
    intro p hp
    obtain ⟨⟨g, hg, h1⟩, ⟨g', hg', h2⟩⟩ := fst_mem_of_mem_crossPairs hp
    simp only [List.mem_map, List.mem_filterMap] at hg hg'
    obtain ⟨x, ⟨r, hr, hx⟩, rfl⟩ := hg
    obtain ⟨x', ⟨r', hr', hx'⟩, rfl⟩ := hg'
    simp only [List.mem_singleton] at h1 h2
    subst h1 h2
    exact ⟨(hw r hr).2 _ (List.mem_of_getElem? hx), (hw r' hr').2 _ (List.mem_of_getElem? hx')⟩
  have entry : ∀ p ∈ P, ooEntryWith Ops.rat id st p = ([(0, [sepSq Ls p.1.pos p.2.pos])], none) := by
    intro p hp
    unfold ooEntryWith
    simp only [sepVec_eq hb (hpos p hp).1 (hpos p hp).2, normSq_rat, id, sepSq]
  rw [collect_ok _ _ (fun p hp => by rw [entry p hp])]
  congr 1
  rw [List.flatMap_congr (fun p hp => by rw [entry p hp])]
  clear hP hpos entry
  induction P with
  | nil => rfl
  | cons p ps ih => simp [ih]

/-- the oxygen pairs are exactly the pairs `i < j` of the list of oxygens -/
theorem mem_oxygen_pairs {β : Type} (l : List β) (a b : β) :
    (a, b) ∈ crossPairs (l.map fun x => [x]) ↔ ∃ i j : Nat, i < j ∧ l[i]? = some a ∧ l[j]? = some b := by
  rw [mem_crossPairs]
  constructor
  · rintro ⟨i, j, hij, g, h, hg, hh, ha, hb⟩
    simp only [List.getElem?_map, Option.map_eq_some_iff] at hg hh
    obtain ⟨x, hx, rfl⟩ := hg
    obtain ⟨y, hy, rfl⟩ := hh
    simp only [List.mem_singleton] at ha hb
    subst ha hb
    exact ⟨i, j, hij, hx, hy⟩
  · rintro ⟨i, j, hij, hx, hy⟩
    exact ⟨i, j, hij, [a], [b], by simp [hx], by simp [hy], by simp, by simp⟩

/-! ### non-vacuity -/

/-- a cubic box of side 5/2 in three dimensions and a cuboid box are well-formed boxes -/
example : BoxOK (.cubic ⟨3, 5 / 2, (5 / 2) / 2⟩) (List.replicate (3 : ℤ).toNat (5 / 2)) :=
  BoxOK.cubic 3 (5 / 2) _ (cubic_init_iff.mpr ⟨by norm_num, by norm_num, rfl⟩)
example : BoxOK (.cuboid ⟨3, [1, 5 / 2, 7], [1, 5 / 2, 7].map (· / 2)⟩) [1, 5 / 2, 7] :=
  BoxOK.cuboid 3 [1, 5 / 2, 7] _ (cuboid_init_iff.mpr ⟨by norm_num, by simp, by simp, rfl⟩)

/-- two dipoles in a 2-d box of side 1: the hypotheses of `separationsSq_eq` hold (positions with two coordinates, identifiers
0 and 1 with two nodes per root), the handler writes four lines into files 0, 1, 1, 0, and a half-box separation
(0.1 → 0.6) is written as `(1/2)²` -/
example :
    let st : Setting ℚ := ⟨.cubic ⟨2, 1, 1 / 2⟩, 2, 2⟩
    let state : List (Root ℚ) := [⟨0, [1/5, 1/5], none, [⟨0, [1/10, 1/5], none⟩, ⟨1, [3/10, 1/5], none⟩]⟩,
                                  ⟨1, [7/10, 4/5], none, [⟨0, [3/5, 1/5], none⟩, ⟨1, [4/5, 9/10], none⟩]⟩]
    (∀ r ∈ state, ∀ l ∈ r.leaves, l.pos.length = 2) ∧
      (∀ p ∈ crossPairs (state.map Root.leaves), identDistance st.levels p.1.ident p.2.ident < st.perRoot) ∧
      (crossPairs (state.map Root.leaves)).map (fun p => identDistance st.levels p.1.ident p.2.ident) = [0, 1, 1, 0] := by
  intro st state
  refine ⟨by decide, by decide, by decide⟩

end exact

end JF.Output
