import JF.Model.Walker
import JF.Lemmas.WalkerBuild
import JF.Lemmas.WalkerGeom
import JF.Lemmas.WalkerHandler
import JF.Lemmas.WalkerMeasure
import Mathlib.Order.Interval.Set.Basic
/-!
# C18 — Cell-veto proposals pick target cells exactly in proportion to their bound rates

Exact reading (`Ops.rat`) of the model `JF.Walker` of `event_handler/walker.py` and of the selection /
arithmetic part of `CellVetoEventHandler`.  The float reading of the same definitions is what the driver runs
bit for bit against the real classes.

Part 1 (Walker): for every non-empty vector of non-negative rates with positive sum
* the constructor terminates without an exception (`build_ok`; the pairing loop stops because a list is
  empty, `pairing_terminates`), the table has `n` rows (`rows_eq_n`), `total_rate` is the sum
  (`total_rate_eq_sum`), every left-over item has rate exactly the mean (inside `build_ok`'s proof:
  `JF.Walker.all_eq_of_sum_le/ge`);
* `mass`: summed over the rows, the length of the draw interval on which item `i` is returned is `rate_i`;
  `sample_interval` says that these lengths are the lengths of the sets of draws `x ∈ (0, mean]` on which
  `sample_cell` returns `i` (the pointwise sampling rule is `sample_pointwise`), hence
  `selection_probability : (1/n) Σ_rows length_i(row)/mean = rate_i / total`;
* `zero_rate_never_selected` for draws `0 < x ≤ mean`, and `zero_rate_selected_at_draw_zero`: at the draw
  `x = 0` a zero-rate item *is* returned (finding F4; exact and binary64 reading);
* `selection_probability_measure`: the same probability statement with Lebesgue measure on the real draws
  (`measureProbability`), `selection_probabilities_sum_to_one`, `leftover_exact`.

Part 2 (cell-veto handler, see the section comment below): `send_event_time_sound`, `translate_is_offset`,
`targets_distinct`, `offset_proposal_rate`, `bounding_rate_positive`, `sendCore_never_asserts`.

Not covered by theorems (named gaps): the binary64 table satisfies `mass` only up to rounding (the run-time
correspondence ties the float behaviour bit for bit, the oracle bounds the deviation by `(n+10)·2⁻⁵⁰`); the
system-level conjunct `vetoCellCurrent` of DESIGN.md (the active cell of a *pending* cell-veto event is still
current at commit time) belongs to the system model and is not proved here; "the possible targets are exactly the
non-nearby cells of the active cell" is proved only as injectivity of the offset map (`targets_distinct`), the
nearby set of a non-zero cell is not modelled.
-/
namespace JF.C18
open JF JF.Walker

/-- the property's quantifier: `n ≥ 1` non-negative rates with positive total -/
structure Valid (rates : List ℚ) : Prop where
  ne : rates ≠ []
  nonneg : ∀ r ∈ rates, 0 ≤ r
  pos : 0 < rates.sum

/-- non-vacuity: zeros, equal rates and widely differing magnitudes are allowed -/
example : Valid [0, 1, 1, 1/10^30, 10^30, 0] := ⟨by simp, by intro r hr; simp at hr; rcases hr with rfl | rfl | rfl | rfl | rfl <;> positivity, by norm_num⟩

variable {rates : List ℚ} {t : Table ℚ}

/-- `Walker.__init__` raises nothing on valid rates -/
theorem build_ok (V : Valid rates) : ∃ t, build Ops.rat rates = .ok t ∧ BuildSpec rates t :=
  build_rat rates V.ne V.nonneg V.pos

theorem spec_of_build (V : Valid rates) (hb : build Ops.rat rates = .ok t) : BuildSpec rates t := by
  obtain ⟨t', hb', hs⟩ := build_ok V
  rw [hb] at hb'; cases hb'; exact hs

/-- termination of `while len(small_list) and len(large_list)`: started with enough fuel (the model uses
`len(walker_items)`), the loop ends because one of the lists is empty, and any larger fuel gives the same
result -/
theorem pairing_terminates (m : ℚ) (S L : List (Item ℚ)) (k : Nat) :
    ((pairLoop m (S.length + L.length) S L).2.1 = [] ∨ (pairLoop m (S.length + L.length) S L).2.2 = []) ∧
    pairLoop m (S.length + L.length + k) S L = pairLoop m (S.length + L.length) S L :=
  ⟨pairLoop_done m _ S L le_rfl, pairLoop_fuel m _ k S L le_rfl⟩

/-- `total_rate` is the sum of the rates (the compensated `sum` of CPython 3.12 is exact in exact arithmetic) -/
theorem total_rate_eq_sum (V : Valid rates) (hb : build Ops.rat rates = .ok t) : t.total = rates.sum :=
  (spec_of_build V hb).total

theorem mean_rate_eq (V : Valid rates) (hb : build Ops.rat rates = .ok t) :
    t.mean = rates.sum / rates.length ∧ 0 < t.mean := by
  have h := (spec_of_build V hb).mean
  refine ⟨h, ?_⟩
  rw [h]
  have : 0 < rates.length := List.length_pos_iff.mpr V.ne
  exact div_pos V.pos (by exact_mod_cast this)

/-- the table has one row per item -/
theorem rows_eq_n (V : Valid rates) (hb : build Ops.rat rates = .ok t) : t.rows.length = rates.length :=
  (spec_of_build V hb).len

/-- every row is a pair `(small, large)` with `0 ≤ small.rate ≤ mean`, `large.rate = mean - small.rate`
and two different items, or a single entry with rate `mean` -/
theorem rows_wellformed (V : Valid rates) (hb : build Ops.rat rates = .ok t) : ∀ row ∈ t.rows, RowOK t.mean row :=
  (spec_of_build V hb).rows

/-- mass conservation per item -/
theorem mass (V : Valid rates) (hb : build Ops.rat rates = .ok t) (i : Nat) :
    contribRows i t.rows = rates.getD i 0 :=
  (spec_of_build V hb).mass i

/-- the pointwise sampling rule of `sample_cell` on a well-formed row, for every draw `x ≤ mean` -/
theorem sample_pointwise {m : ℚ} {row : Row ℚ} (hrow : RowOK m row) (x : ℚ) (hx : x ≤ m) :
    sampleRow row x = match row with
      | .pair s l => if x ≤ s.rate then .ok s.item else .ok l.item
      | .single y => .ok y.item := by
  cases row with
  | pair s l => simp only [sampleRow]
  | single y =>
    have : y.rate = m := hrow
    simp only [sampleRow, this, hx, if_true]

/-- the set of draws in `(0, mean]` on which a row returns item `i` is a union of at most two disjoint
half-open intervals; their lengths add up to `contrib i row` (`contrib_eq_lengths`) -/
theorem sample_interval {m : ℚ} {row : Row ℚ} (hrow : RowOK m row) (i : Nat) :
    {x : ℚ | 0 < x ∧ x ≤ m ∧ sampleRow row x = .ok i} = match row with
      | .pair s l => (if s.item = i then Set.Ioc 0 s.rate else ∅) ∪ (if l.item = i then Set.Ioc s.rate m else ∅)
      | .single y => if y.item = i then Set.Ioc 0 m else ∅ := by
  cases row with
  | pair s l =>
    obtain ⟨h0, hm, -, -⟩ := hrow
    ext x
    simp only [Set.mem_ofPred_eq, sampleRow, Set.mem_union]
    by_cases hx : x ≤ s.rate
    · by_cases h1 : s.item = i <;> by_cases h2 : l.item = i <;>
        simp [hx, h1, h2, Set.mem_Ioc, not_lt.mpr hx] <;> intro _ <;> linarith
    · by_cases h1 : s.item = i <;> by_cases h2 : l.item = i <;>
        simp [hx, h1, h2, Set.mem_Ioc, not_le.mp hx] <;> intro _ <;> linarith [not_le.mp hx]
  | single y =>
    have hy : y.rate = m := hrow
    ext x
    simp only [Set.mem_ofPred_eq, sampleRow, hy]
    by_cases hx : x ≤ m <;> by_cases h1 : y.item = i <;> simp [hx, h1, Set.mem_Ioc]

/-- `contrib i row` is the total length of the intervals of `sample_interval` -/
theorem contrib_eq_lengths {m : ℚ} {row : Row ℚ} (hrow : RowOK m row) (i : Nat) :
    contrib i row = match row with
      | .pair s l => (if s.item = i then s.rate - 0 else 0) + (if l.item = i then m - s.rate else 0)
      | .single y => if y.item = i then m - 0 else 0 := by
  cases row with
  | pair s l => obtain ⟨-, -, hl, -⟩ := hrow; simp only [contrib, hl, sub_zero]
  | single y => have hy : y.rate = m := hrow; simp only [contrib, hy, sub_zero]

/-- the selection probability of item `i`: a uniformly chosen row, then a uniform draw on `(0, mean]`;
`contrib i row / mean` is the fraction of the draws on which `row` returns `i` (`sample_interval`) -/
def selectionProbability (t : Table ℚ) (i : Nat) : ℚ :=
  (1 / (t.rows.length : ℚ)) * (t.rows.map fun row => contrib i row / t.mean).sum

theorem sum_map_div (f : Row ℚ → ℚ) (m : ℚ) (l : List (Row ℚ)) :
    (l.map fun r => f r / m).sum = (l.map f).sum / m := by
  induction l with
  | nil => simp
  | cons a l ih => simp only [List.map_cons, List.sum_cons, ih]; ring

/-- **each item is selected with probability rate/total** -/
theorem selection_probability (V : Valid rates) (hb : build Ops.rat rates = .ok t) (i : Nat) :
    selectionProbability t i = rates.getD i 0 / rates.sum := by
  have hm := mass V hb i
  have hn := rows_eq_n V hb
  obtain ⟨hmean, hmpos⟩ := mean_rate_eq V hb
  have hlen : (0:ℚ) < rates.length := by
    have : 0 < rates.length := List.length_pos_iff.mpr V.ne
    exact_mod_cast this
  have hs := V.pos
  unfold selectionProbability
  rw [sum_map_div, hn]
  unfold contribRows at hm
  rw [hm, hmean]
  field_simp

/-- identifiers that are not items have probability zero -/
theorem selection_probability_of_index_out_of_range (V : Valid rates) (hb : build Ops.rat rates = .ok t) (i : Nat)
    (hi : rates.length ≤ i) : selectionProbability t i = 0 := by
  rw [selection_probability V hb]
  have : rates.getD i 0 = 0 := by simp [List.getD_eq_getElem?_getD, List.getElem?_eq_none hi]
  rw [this]; simp

/-- `sample_cell` raises nothing for any row index `k < n` and any draw `x ≤ mean` -/
theorem sample_ok (V : Valid rates) (hb : build Ops.rat rates = .ok t) (k : Nat) (hk : k < rates.length) (x : ℚ)
    (hx : x ≤ t.mean) : ∃ j, sampleCell t k x = .ok j := by
  have hn := rows_eq_n V hb
  have hk' : k < t.rows.length := by omega
  have hrow := rows_wellformed V hb _ (List.getElem_mem hk')
  simp only [sampleCell, List.getElem?_eq_getElem hk']
  generalize t.rows[k] = row at hrow
  cases row with
  | pair s l => simp only [sampleRow]; split <;> exact ⟨_, rfl⟩
  | single y =>
    have hy : y.rate = t.mean := hrow
    exact ⟨y.item, by simp only [sampleRow, hy, hx, if_true]⟩

theorem contrib_nonneg {m : ℚ} (hm : 0 ≤ m) {row : Row ℚ} (hrow : RowOK m row) (i : Nat) : 0 ≤ contrib i row := by
  cases row with
  | pair s l =>
    obtain ⟨h0, h1, hl, -⟩ := hrow
    simp only [contrib, hl]
    have : 0 ≤ m - s.rate := by linarith
    split <;> split <;> linarith
  | single y =>
    have hy : y.rate = m := hrow
    simp only [contrib, hy]; split <;> linarith

theorem contrib_zero_of_sum_zero (i : Nat) (rows : List (Row ℚ)) (h0 : ∀ row ∈ rows, 0 ≤ contrib i row)
    (hs : contribRows i rows = 0) : ∀ row ∈ rows, contrib i row = 0 := by
  induction rows with
  | nil => intro row hrow; simp at hrow
  | cons a l ih =>
    simp only [contribRows_cons] at hs
    have ha := h0 a List.mem_cons_self
    have hl : 0 ≤ contribRows i l := by
      unfold contribRows
      exact List.sum_nonneg (by intro x hx; obtain ⟨r, hr, rfl⟩ := List.mem_map.mp hx; exact h0 r (List.mem_cons_of_mem _ hr))
    intro row hrow
    rcases List.mem_cons.mp hrow with rfl | hrow
    · linarith
    · exact ih (fun r hr => h0 r (List.mem_cons_of_mem _ hr)) (by linarith) row hrow

/-- **items with zero rate are never selected** by a draw `0 < x ≤ mean`, whatever row is chosen -/
theorem zero_rate_never_selected (V : Valid rates) (hb : build Ops.rat rates = .ok t) (i : Nat)
    (hi : rates.getD i 0 = 0) (k : Nat) (x : ℚ) (hx0 : 0 < x) (hxm : x ≤ t.mean) :
    sampleCell t k x ≠ .ok i := by
  obtain ⟨-, hmpos⟩ := mean_rate_eq V hb
  have hrows := rows_wellformed V hb
  have hz := contrib_zero_of_sum_zero i t.rows (fun row hrow => contrib_nonneg hmpos.le (hrows row hrow) i)
    (by rw [mass V hb i, hi])
  simp only [sampleCell]
  cases hk : t.rows[k]? with
  | none => simp
  | some row =>
    have hmem : row ∈ t.rows := List.mem_of_getElem? hk
    have hrow := hrows row hmem
    have hc := hz row hmem
    simp only
    cases row with
    | pair s l =>
      obtain ⟨h0, h1, hl, hne⟩ := hrow
      simp only [contrib] at hc
      simp only [sampleRow]
      by_cases hx : x ≤ s.rate
      · simp only [hx, if_true, ne_eq, Except.ok.injEq]
        intro hs
        have hne' : ¬ l.item = i := fun h => hne (hs.trans h.symm)
        simp only [hs, hne', if_true, if_false, add_zero] at hc
        linarith
      · simp only [hx, if_false, ne_eq, Except.ok.injEq]
        intro hli
        have hne' : ¬ s.item = i := fun h => hne (h.trans hli.symm)
        simp only [hli, hne', if_true, if_false, zero_add] at hc
        have : s.rate = t.mean := by linarith
        exact hx (by linarith)
    | single y =>
      have hy : y.rate = t.mean := hrow
      simp only [contrib, hy] at hc
      simp only [sampleRow, hy, hxm, if_true, ne_eq, Except.ok.injEq]
      intro hyi
      simp only [hyi, if_true] at hc
      linarith

/-- non-vacuity of `zero_rate_never_selected` and, at the excluded end of the draw range, **finding F4**:
for the rates `[0, 1]` the table is `[(item 0 : 0, item 1 : 1/2), (item 1 : 1/2)]`, and the draw `x = 0` on
row 0 returns item 0, whose rate is zero.  Exact reading. -/
theorem zero_rate_selected_at_draw_zero :
    ∃ t, build Ops.rat [0, 1] = .ok t ∧ Valid [0, 1] ∧ ([0, 1] : List ℚ).getD 0 0 = 0 ∧ sampleCell t 0 0 = .ok 0 := by
  refine ⟨⟨1, 1/2, [.pair ⟨0, 0⟩ ⟨1, 1/2⟩, .single ⟨1, 1/2⟩]⟩, by decide +kernel, ⟨by simp, ?_, by norm_num⟩, rfl,
    by decide +kernel⟩
  intro r hr; simp at hr; rcases hr with rfl | rfl <;> norm_num

/-- finding F4 in the binary64 reading (what the real class does): `Walker([0.0, 1.0])`, row 0,
`random.uniform` returning `0.0` → the zero-rate item 0 -/
theorem zero_rate_selected_at_draw_zero_float :
    (match build Ops.float [0.0, 1.0] with
      | .ok t => sampleCell t 0 0.0
      | .error _ => .error .index) = .ok 0 := by decide +kernel

/-! ## Part 2: the cell-veto handler

For an initialised handler (`initHandler` succeeded on the estimator's bounds `est`) and a successful
`send_event_time`:
* `send_event_time_sound`: the candidate time is the time stamp plus `expovariate / (total · |cf| · speed)` where
  `total` is the sum of `max(bound, 0)` over the walker's domain for the direction of motion and the sign of the
  charge factor; the target cell is `translate(active cell, sampled offset)`, which on a cell system with exact
  cell boundaries is the cell whose identifier is the component-wise sum modulo the grid (`translate_is_offset`);
  the confirmation bound `_bounding_event_rate` is the stored bound of the sampled offset for that direction and
  sign times `|cf|`, and the stored bound is the estimator's (`upper`, `-lower`);
* `offset_proposal_rate`: the rate at which offset `j` is proposed, `total·|cf|·speed·P(j)`, equals
  `max(bound_j, 0)·|cf|·speed`;
* `bounding_rate_positive`: for a draw `0 < x ≤ mean` the sampled offset has a positive bound, so
  `assert self._bounding_event_rate > 0.0` cannot fail (at `x = 0` it can: finding F4).
-/

/-- the total stored by the constructor is the sum, whatever the rates (no validity needed) -/
theorem build_total {rates : List ℚ} {t : Table ℚ} (hb : build Ops.rat rates = .ok t) : t.total = rates.sum := by
  unfold build at hb
  cases rates with
  | nil => exact absurd hb (by simp)
  | cons r rs =>
    simp only at hb
    split at hb
    · exact absurd hb (by simp)
    · split at hb
      · exact absurd hb (by simp)
      · split at hb
        · exact absurd hb (by simp)
        · simp only [Except.ok.injEq] at hb
          subst hb
          simp only [pysum_rat]

theorem getD_nonneg (V : Valid rates) (j : Nat) : 0 ≤ rates.getD j 0 := by
  by_cases hj : j < rates.length
  · have : rates.getD j 0 = rates[j] := by simp [List.getD_eq_getElem?_getD, List.getElem?_eq_getElem hj]
    rw [this]; exact V.nonneg _ (List.getElem_mem hj)
  · simp [List.getD_eq_getElem?_getD, List.getElem?_eq_none (not_lt.mp hj)]

/-- whatever `sample_cell` returns for a draw `0 < x ≤ mean` has a positive rate -/
theorem sampled_has_positive_rate (V : Valid rates) (hb : build Ops.rat rates = .ok t) (k j : Nat) (x : ℚ)
    (hx0 : 0 < x) (hxm : x ≤ t.mean) (hs : sampleCell t k x = .ok j) : 0 < rates.getD j 0 := by
  rcases (getD_nonneg V j).lt_or_eq with h | h
  · exact h
  · exact absurd hs (zero_rate_never_selected V hb j h.symm k x hx0 hxm)

/-- **offset → target cell**: on a periodic cell system with exact cell boundaries, `translate(cell, offset)`
raises nothing and returns the cell whose identifier is the component-wise sum of the two identifiers modulo
the numbers of cells per side — for every grid, every cell and every offset -/
theorem translate_is_offset (g : Grid ℚ) (hex : ∀ D ∈ g.dims, DimExact D) (c r : Nat) :
    ∃ target, translate Ops.rat g c r = .ok target ∧ target < numCells g.ns ∧
      cellId g.ns target = offsetId g.ns (cellId g.ns c) (cellId g.ns r) := by
  have hpos : ∀ n ∈ g.ns, 0 < n := by
    intro n hn; simp only [Grid.ns, List.mem_map] at hn; obtain ⟨D, hD, rfl⟩ := hn; exact (hex D hD).1
  exact ⟨_, translate_rat g hex c r, addIdx_lt g.ns hpos c r, cellId_addIdx g.ns hpos c r⟩

/-- non-vacuity of `DimExact`: 4 cells of side 1/4 in a box of length 1 -/
example : DimExact ⟨4, 1, [0, 1/4, 2/4, 3/4], [1/4, 2/4, 3/4, 1]⟩ := by
  refine ⟨by norm_num, 1/4, by norm_num, by norm_num, ?_, ?_⟩ <;> simp [List.range_succ] <;> norm_num

/-- **what `send_event_time` returns** (initialised handler, exact cell system) -/
theorem send_event_time_sound {g : Grid ℚ} {est : List (List (ℚ × ℚ))} {h : Handler ℚ}
    (hi : initHandler Ops.rat g est = .ok h) (hex : ∀ D ∈ g.dims, DimExact D)
    {vel pos : List ℚ} {cf : ℚ} {ts : Time ℚ} {k : Nat} {x e : ℚ} {p : Proposal ℚ}
    (hs : sendEventTime Ops.rat h vel cf pos ts k x e = .ok p) :
    ∃ dir active walker j,
      -- the unit moves along `dir` with positive speed, its cell is `active`
      (List.range vel.length).filter (fun d => vel[d]! != 0) = [dir] ∧ 0 < vel[dir]! ∧
      posToCell Ops.rat g pos = .ok active ∧
      -- the walker is the one of the direction of motion and of the sign of the charge factor; `j` is sampled from it
      (if 0 < cf then h.upper[dir]? else h.lower[dir]?) = some walker ∧ sampleCell walker k x = .ok j ∧
      -- proposals come at the total rate times the speed
      (dir < g.dims.length →
        walker.total = (walkerRates h.bounds (if 0 < cf then (·.1) else (·.2)) dir).sum) ∧
      walker.total * |cf| * vel[dir]! ≠ 0 ∧
      p.time.q + p.time.r = ts.q + ts.r + e / (walker.total * |cf| * vel[dir]!) ∧
      -- the target is the cell at the sampled offset from the active cell
      translate Ops.rat g active (domainOf g.ns g.nl)[j]! = .ok p.target ∧
      cellId g.ns p.target = offsetId g.ns (cellId g.ns active) (cellId g.ns (domainOf g.ns g.nl)[j]!) ∧
      -- the confirmation bound is the estimator's bound for that offset, direction and sign
      p.boundingRate = (if 0 < cf then ((est[j]!)[dir]!).1 else -((est[j]!)[dir]!).2) * |cf| ∧ 0 < p.boundingRate := by
  obtain ⟨hg, hdom, hbounds, hwalk⟩ := initHandler_spec g est h hi
  obtain ⟨dir, active, walker, j, h1, h2, h3, h4, h5, h6, h7, h8, h9, h10⟩ := send_spec hs
  rw [hg] at h3 h8
  rw [hdom] at h8
  refine ⟨dir, active, walker, j, h1, h2, h3, h4, h5, ?_, h9, h10, h8, ?_, ?_, h7⟩
  · intro hd
    obtain ⟨⟨tu, htu, hbu⟩, ⟨tl, htl, hbl⟩⟩ := hwalk dir hd
    by_cases hc : 0 < cf
    · simp only [hc, if_true] at h4 ⊢
      rw [htu] at h4; cases h4; exact build_total hbu
    · simp only [hc, if_false] at h4 ⊢
      rw [htl] at h4; cases h4; exact build_total hbl
  · obtain ⟨t', ht', -, hid⟩ := translate_is_offset g hex active (domainOf g.ns g.nl)[j]!
    rw [ht'] at h8; cases h8; exact hid
  · rw [h6, hbounds]
    congr 1
    by_cases hj : j < est.length
    · by_cases hd : dir < (est[j]).length
      · simp [hj, hd]
      · simp [hj, hd]
        split <;> rfl
    · simp [hj]
      split <;> rfl

/-- **each offset is proposed at its own bound rate**: the total proposal rate `total·|cf|·speed` times the
probability that the walker selects offset `j` is `max(bound_j, 0)·|cf|·speed` -/
theorem offset_proposal_rate {bounds : List (List (ℚ × ℚ))} {sel : ℚ × ℚ → ℚ} {d : Nat} {walker : Table ℚ}
    (V : Valid (walkerRates bounds sel d)) (hb : build Ops.rat (walkerRates bounds sel d) = .ok walker)
    (j : Nat) (hj : j < bounds.length) (cf speed : ℚ) :
    walker.total * |cf| * speed * selectionProbability walker j = max (sel ((bounds[j]!)[d]!)) 0 * |cf| * speed := by
  rw [selection_probability V hb, total_rate_eq_sum V hb]
  have hs := V.pos
  have : (walkerRates bounds sel d).getD j 0 = max (sel ((bounds[j]!)[d]!)) 0 := by
    simp [walkerRates, hj, pymax0_rat]
  rw [this]; field_simp

/-- **the confirmation bound is positive for every draw `0 < x ≤ mean`**: the `assert` on
`_bounding_event_rate` cannot fail, because zero-rate offsets are never sampled -/
theorem bounding_rate_positive {bounds : List (List (ℚ × ℚ))} {sel : ℚ × ℚ → ℚ} {d : Nat} {walker : Table ℚ}
    (V : Valid (walkerRates bounds sel d)) (hb : build Ops.rat (walkerRates bounds sel d) = .ok walker)
    (k j : Nat) (x : ℚ) (hx0 : 0 < x) (hxm : x ≤ walker.mean) (hs : sampleCell walker k x = .ok j)
    (cf' : ℚ) (hcf : 0 < cf') : 0 < sel ((bounds[j]!)[d]!) * cf' := by
  have hpos := sampled_has_positive_rate V hb k j x hx0 hxm hs
  by_cases hj : j < bounds.length
  · have : (walkerRates bounds sel d).getD j 0 = max (sel ((bounds[j]!)[d]!)) 0 := by
      simp [walkerRates, hj, pymax0_rat]
    rw [this] at hpos
    have : 0 < sel ((bounds[j]!)[d]!) := by
      rcases le_or_gt (sel ((bounds[j]!)[d]!)) 0 with hle | hgt
      · rw [max_eq_right hle] at hpos; exact absurd hpos (lt_irrefl _)
      · exact hgt
    positivity
  · have : (walkerRates bounds sel d).getD j 0 = 0 := by
      simp [walkerRates, List.getD_eq_getElem?_getD, List.getElem?_eq_none (not_lt.mp hj)]
    rw [this] at hpos; exact absurd hpos (lt_irrefl _)

/-- the confirmation `assert self._bounding_event_rate > 0.0` (and every other `assert`) of the part of
`send_event_time` after the choice of the walker cannot fail for a draw `0 < x ≤ mean`, a positive absolute
charge factor and an exact cell system: the only possible exceptions are an `IndexError` for a row index
outside the table and a `ZeroDivisionError` for a zero speed -/
theorem sendCore_never_asserts {h : Handler ℚ} {sel : ℚ × ℚ → ℚ} {d : Nat} {walker : Table ℚ}
    (V : Valid (walkerRates h.bounds sel d)) (hb : build Ops.rat (walkerRates h.bounds sel d) = .ok walker)
    (hex : ∀ D ∈ h.grid.dims, DimExact D)
    (k : Nat) (x : ℚ) (hx0 : 0 < x) (hxm : x ≤ walker.mean) (cf' : ℚ) (hcf : 0 < cf')
    (speed : ℚ) (active : Nat) (ts : Time ℚ) (e : ℚ) :
    sendCore Ops.rat h d speed active walker sel cf' ts k x e ≠ .error .assertion := by
  unfold sendCore
  simp only [rat_ofInt, Int.cast_zero]
  cases hs : sampleCell walker k x with
  | error er =>
    simp only [sampleCell] at hs
    split at hs
    · cases hs; simp
    · rename_i row hrow
      have hr := rows_wellformed V hb row (List.mem_of_getElem? hrow)
      rw [sample_pointwise hr x hxm] at hs
      cases row with
      | pair s l => simp only at hs; split at hs <;> cases hs
      | single y => cases hs
  | ok j =>
    have hpos := bounding_rate_positive V hb k j x hx0 hxm hs cf' hcf
    simp only [hpos, decide_true, Bool.not_true, Bool.false_eq_true, if_false,
      translate_rat h.grid hex active h.domain[j]!]
    split <;> simp

/-- the selection probabilities of the `n` items add up to one -/
theorem selection_probabilities_sum_to_one (V : Valid rates) (hb : build Ops.rat rates = .ok t) :
    ((List.range rates.length).map (selectionProbability t)).sum = 1 := by
  have hs := V.pos
  have h1 : ((List.range rates.length).map (selectionProbability t)) =
      (List.range rates.length).map (fun i => rates.getD i 0 / rates.sum) :=
    List.map_congr_left (fun i _ => selection_probability V hb i)
  have h2 : ∀ l : List ℚ, ((List.range l.length).map (fun i => l.getD i 0)).sum = l.sum := by
    intro l
    induction l with
    | nil => simp
    | cons a l ih =>
      rw [List.length_cons, List.range_succ_eq_map, List.map_cons, List.map_map, List.sum_cons, List.sum_cons]
      simp only [List.getD_cons_zero]
      congr 1
  have h3 : ∀ (l : List ℕ) (f : ℕ → ℚ) (c : ℚ), (l.map (fun i => f i / c)).sum = (l.map f).sum / c := by
    intro l f c
    induction l with
    | nil => simp
    | cons a l ih => simp only [List.map_cons, List.sum_cons, ih]; ring
  rw [h1, h3, h2]; field_simp

/-- every left-over of the pairing loop has rate exactly the mean (so the constructor's two
`assert 1-1e-6 < rate/mean < 1+1e-6` see the ratio 1), and the loop has stopped because a stack is empty -/
theorem leftover_exact (V : Valid rates) :
    let m := rates.sum / rates.length
    let out := pairLoop m rates.length (smallOf m (mkItems 0 rates)) (largeOf m (mkItems 0 rates))
    (out.2.1 = [] ∨ out.2.2 = []) ∧ (∀ x ∈ out.2.1, x.rate = m) ∧ (∀ x ∈ out.2.2, x.rate = m) :=
  leftovers_exact rates V.ne V.nonneg V.pos

/-! ### the selection probability as a Lebesgue measure

`random.choice` picks each of the `n` rows with probability `1/n`; `random.uniform(0, mean)` is uniform on an
interval of length `mean`.  `drawSet mean row i ⊆ ℝ` is the set of draws in `(0, mean]` on which `sample_cell`
returns `i` from `row` (the model's `sampleRow`, read over the reals).  -/

open MeasureTheory in
/-- probability that `sample_cell` returns item `i`: `Σ_rows (1/n) · λ(drawSet row i) / λ((0, mean])` -/
noncomputable def measureProbability (t : Table ℚ) (i : Nat) : ℝ :=
  (1 / (t.rows.length : ℝ)) * (t.rows.map fun row => (volume (drawSet t.mean row i)).toReal / (t.mean : ℝ)).sum

theorem sum_map_cast (f : Row ℚ → ℚ) (l : List (Row ℚ)) :
    (l.map fun r => ((f r : ℚ) : ℝ)).sum = (((l.map f).sum : ℚ) : ℝ) := by
  induction l with
  | nil => simp
  | cons a l ih => simp only [List.map_cons, List.sum_cons, ih]; push_cast; ring

/-- **P(item i) = rate_i / total**, as a statement about Lebesgue measure over the two random draws -/
theorem selection_probability_measure (V : Valid rates) (hb : build Ops.rat rates = .ok t) (i : Nat) :
    measureProbability t i = ((rates.getD i 0 / rates.sum : ℚ) : ℝ) := by
  obtain ⟨-, hmpos⟩ := mean_rate_eq V hb
  have hrows := rows_wellformed V hb
  rw [← selection_probability V hb i]
  unfold measureProbability selectionProbability
  have : (t.rows.map fun row => (MeasureTheory.volume (drawSet t.mean row i)).toReal / (t.mean : ℝ)) =
      t.rows.map fun row => (((contrib i row / t.mean : ℚ)) : ℝ) := by
    apply List.map_congr_left
    intro row hrow
    rw [volume_drawSet_toReal t.mean hmpos.le row i (hrows row hrow)]
    push_cast; rfl
  rw [this, sum_map_cast]
  push_cast; rfl

/-- from a given active cell, different offsets are mapped to different target cells (exact cell system), so
the possible targets are in one-to-one correspondence with the walker's domain -/
theorem targets_distinct (g : Grid ℚ) (hex : ∀ D ∈ g.dims, DimExact D) (c r₁ r₂ : Nat)
    (h₁ : r₁ < numCells g.ns) (h₂ : r₂ < numCells g.ns)
    (h : translate Ops.rat g c r₁ = translate Ops.rat g c r₂) : r₁ = r₂ := by
  have hpos : ∀ n ∈ g.ns, 0 < n := by
    intro n hn; simp only [Grid.ns, List.mem_map] at hn; obtain ⟨D, hD, rfl⟩ := hn; exact (hex D hD).1
  rw [translate_rat g hex, translate_rat g hex, Except.ok.injEq] at h
  exact addIdx_injective g.ns hpos c r₁ r₂ h₁ h₂ h

end JF.C18
