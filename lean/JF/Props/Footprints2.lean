/-
Footprints2 — the hypothesis `FootprintsSound` of C09's freshness theorem and of C08's clause-(h) link, discharged for a concrete world
of COMPOSITE OBJECTS (two-level trees, no cell system): the dipole configurations `dipoles/{atom_factors, dipole_factors_inside_first,
dipole_factors_outside_first, dipole_factors_ratio, dipole_motion}.ini` and `water/single_molecule.ini`.
(Composite objects WITH a cell-occupancy system — `dipoles/cell_*.ini`, the other water files — are out of scope.)

Model: `JF/Model/ConcreteWorld2.lean` (namespace `JF.CW2`): the two-level machine `Composite.step` (C12) + the lifting state's
`yield_independent_lifted_identifiers` + the yields of the tagger classes (`NoInState`, `ActiveGlobalState`, `ActiveRootUnit`,
`FactorTypeMap` over C10's `FactorMaps`) + handler class ↦ event kinds (`kindsOf`, E13).  Lemmas: `JF/Lemmas/ConcreteWorld2*.lean`.

* `footprintsSound_concrete2` — `FootprintsSound mw.w (world2 env mw) (Tr2 env mw)` for every wiring with `Supported2 mw`;
* by aspect: `ident_quiet2` / `motion_quiet2` (`affects · .ident/.motion = false`: a `keep` / `snap` commit leaves every velocity as it
  is), `yield_reads_flags2` (`reads · .motion/.time = false`: the yields see only WHICH units carry a velocity), `active_leaf2` /
  `active_root2` (who is active is well defined under the invariant), `count_commit2` (one active branch before and after any commit);
* `tr2_invariant` — the invariant the states carry (`Inv`: C12's `AllGood`, `Uniform`, at rest or `OneChainM` in the ghost mode) is
  preserved by every transition: it is DERIVED along runs (from `C12Chain`), not assumed;
* `fresh_concrete2`, `clause_h_concrete2` — C09's freshness / C08's clause (h) at this world without the `FootprintsSound` hypothesis;
  `mode_concrete2` — E13's mode discipline at this world without it; `fresh_dipole_motion` … for the shipped wirings;
* `Example.run7` … — a run of `dipole_motion.ini` with two dipoles: start, switch to root mode, lifting between the molecules, end of
  chain, switch back, lifting within a molecule, end of chain to the other molecule (non-vacuity);
* FINDING about the tables — `Example.start_changes_root_unit_count`: `reads (ActiveRootUnit, count view) .ident = false` ("always
  exactly one tuple per independent active chain") is false across the START-OF-RUN event (no chain before it); the start is therefore
  not a transition of `Tr2` (it never is a step of `JF.Act.Run`: `run_inv` proves the start tagger idle), `start_untouched2` is the
  corrected statement for it;
* `Example.commit_needs_mode_premise`: without the mode premise (`modeStep`, E13) the same entry is false for interaction commits.
What remains hypothesis: the mode premise inside `Tr2` (derived from the activation flags for runs of a mode-sound wiring by
`JF/Props/ModeDiscipline.lean`; measured per commit by `harness/fpcorr2.py`), weak admissibility `AdmW`, exact arithmetic (α = ℚ, as in
C12), and the modelling assumptions of the world (two levels, no internal state).
-/
import JF.Lemmas.ConcreteWorld2Inv
import JF.Props.C09
import JF.Props.C08
import JF.Props.ModeDiscipline
import JF.Gen.Wirings
import JF.Gen.WiringsSound
import JF.Gen.ModeWirings
namespace JF.Footprints2
open JF JF.Act JF.CW2 JF.Composite JF.C12

/-! ## by aspect -/

/-- `.ident` / `.motion`, effect side: the commit of a tagger whose table entry `affects · .ident` is `false` (sampling, dumping, end of
run, cell boundary) is a `keep` / `snap` and leaves the velocity of every root and every leaf unit as it is -/
theorem motion_quiet2 {env : Env ℚ} {mw : ModeWiring} (hs : Supported2 mw = true) {E : TaggerIdx} {s s' : St}
    (ha : affects (mw.w.tagger E) .ident = false) (h : TrRaw2 env mw E s s') : vels s'.cs = vels s.cs := by
  obtain ⟨e, cm, hk, _, _, hcs⟩ := h
  rw [hcs]
  exact vels_quiet Ops.rat isZ env.L s.cs e (quiet_of_ident_false hs ha hk)

theorem ident_quiet2 {env : Env ℚ} {mw : ModeWiring} (hs : Supported2 mw = true) {E : TaggerIdx} {s s' : St}
    (ha : affects (mw.w.tagger E) .ident = false) (h : TrRaw2 env mw E s s') : flags s'.cs = flags s.cs :=
  flags_eq_of_vels (motion_quiet2 hs ha h)

/-- the two columns of `affects` coincide, so `motion_quiet2` also covers `affects · .motion = false` -/
theorem affects_motion_eq_ident (t : TaggerW) : affects t .motion = affects t .ident := rfl

/-- `.motion` / `.time`, dependency side: velocity VALUES, positions and time stamps are not read by any tagger of this world -/
theorem yield_reads_flags2 (env : Env ℚ) (T : TaggerIdx) (cls : TaggerClass) {cs cs' : List (CObj ℚ)} (h : flags cs' = flags cs) :
    yieldCls env T cls cs' = yieldCls env T cls cs := yieldCls_congr env T cls h

/-- `.ident`: in leaf mode the one independent active identifier is the moving point mass … -/
theorem active_leaf2 {env : Env ℚ} {s : St} (hi : Inv env s) {i j : Nat} {v : List ℚ}
    (hM : MovingAt s.cs i (fun c => OneL j v c.leaves)) :
    independent env.nPer (flags s.cs) = [if env.nPer = 1 then [i] else [i, j]] := independent_leaf hi.1 hi.2.1 hM

/-- … in root mode the composite object -/
theorem active_root2 {env : Env ℚ} {s : St} (hi : Inv env s) {i : Nat} {v : List ℚ}
    (hM : MovingAt s.cs i (fun c => AllL v c.leaves)) : independent env.nPer (flags s.cs) = [[i]] := independent_root hi.1 hi.2.1 hM

/-- the invariant is preserved by every transition (so nothing is lost by restricting the world to `G env`) -/
theorem tr2_invariant {env : Env ℚ} (hL : BoxOK env.d env.L) {mw : ModeWiring} {E : TaggerIdx} {s s' : St} (hi : Inv env s)
    (h : TrRaw2 env mw E s s') : Inv env s' := trRaw2_inv hL hi h

/-- the number of active branches is the same before and after every commit -/
theorem count_commit2 {env : Env ℚ} (hL : BoxOK env.d env.L) {mw : ModeWiring} {E : TaggerIdx} {s s' : St} (hi : Inv env s)
    (h : TrRaw2 env mw E s s') :
    (branches env.nPer (flags s'.cs)).length = (branches env.nPer (flags s.cs)).length := by
  simp only [branches, List.length_map]
  exact count_step hL hi h

/-! ## the theorem -/

/-- **the footprint tables are sound for the world of composite objects without cells**: for every wiring of this world
(`Supported2`), if the effect footprint `affects (tagger E)` and the dependency footprint `reads (tagger T)` are disjoint, a commit by a
handler of `E` (`Tr2`: the `Composite.step` of a weakly admissible event of a kind of `E`'s handler class, possible in the ghost mode)
does not change what `T` yields, as far as C09's comparison for `T` sees it.  The states are those satisfying `Inv` (preserved by
every transition: `tr2_invariant`; established by the start-of-run event from rest: `inv_start`). -/
theorem footprintsSound_concrete2 (env : Env ℚ) (hL : BoxOK env.d env.L) (mw : ModeWiring) (hs : Supported2 mw = true) :
    FootprintsSound mw.w (world2 env mw) (Tr2 env mw) := by
  constructor
  rintro E T ⟨s, hi⟩ ⟨s', _⟩ htr hd
  show ((yieldCls env T (mw.w.tagger T).cls s'.cs).map (viewOf (mw.w.tagger T))).Perm
    ((yieldCls env T (mw.w.tagger T).cls s.cs).map (viewOf (mw.w.tagger T)))
  replace htr : TrRaw2 env mw E s s' := htr
  have hid := JF.CW.disjoint_ident hd
  -- a tagger that reads `.ident` is only disjoint from commits that keep every velocity
  have quiet : reads (mw.w.tagger T) .ident = true → yieldCls env T (mw.w.tagger T).cls s'.cs = yieldCls env T (mw.w.tagger T).cls s.cs := by
    intro hr
    have ha : affects (mw.w.tagger E) .ident = false := by
      cases h : affects (mw.w.tagger E) .ident
      · rfl
      · rw [hid h] at hr; cases hr
    exact yieldCls_congr env T _ (ident_quiet2 hs ha htr)
  cases hcls : (mw.w.tagger T).cls with
  | noInState => exact List.Perm.refl _
  | activeGlobalState =>
    by_cases hv : idsView (mw.w.tagger T) = true
    · rw [← hcls, quiet (by simp [reads, hcls, hv])]
    · simp [yieldCls, yieldF, viewOf, hv]
  | activeRootUnit =>
    by_cases hv : idsView (mw.w.tagger T) = true
    · rw [← hcls, quiet (by simp [reads, hcls, hv])]
    · -- compared by the number of pending events: one per active branch, and there is one active branch before and after
      have hv' : idsView (mw.w.tagger T) = false := by simpa using hv
      rw [viewOf_count hv', viewOf_count hv']
      have : ∀ cs : List (CObj ℚ), (yieldCls env T .activeRootUnit cs).length = (branches env.nPer (flags cs)).length := by
        intro cs; simp [yieldCls, yieldF]
      rw [this, this, count_commit2 hL hi htr]
  | factorTypeMap => rw [← hcls, quiet (by simp [reads, hcls])]
  | cellBoundary | cellBounding | cellVeto | excludedCells | surplusCells | unknown => exact List.Perm.refl _

/-- the corrected statement for the START-OF-RUN event (which is not a transition of `Tr2`, see `Example.start_changes_root_unit_count`):
it leaves the compared yield of every tagger with disjoint footprints unchanged EXCEPT a mode-switch tagger
(`ActiveRootUnitInStateTagger` compared by its number of pending events) -/
theorem start_untouched2 (env : Env ℚ) (mw : ModeWiring) (hs : Supported2 mw = true) {E T : TaggerIdx} {s s' : St}
    (h : TrStart2 env mw E s s') (hd : disjointFP mw.w (mw.w.tagger E) (mw.w.tagger T) = true)
    (hT : (mw.w.tagger T).cls = .activeRootUnit → idsView (mw.w.tagger T) = true) :
    ((yieldCls env T (mw.w.tagger T).cls s'.cs).map (viewOf (mw.w.tagger T))).Perm
      ((yieldCls env T (mw.w.tagger T).cls s.cs).map (viewOf (mw.w.tagger T))) := by
  obtain ⟨i, P, v, cm, hk, _⟩ := h
  have ha : affects (mw.w.tagger E) .ident = true := by
    cases h : affects (mw.w.tagger E) .ident
    · have := quiet_of_ident_false hs h hk
      simp [quietKind] at this
    · rfl
  have hr := JF.CW.disjoint_ident hd ha
  cases hcls : (mw.w.tagger T).cls with
  | noInState => exact List.Perm.refl _
  | activeGlobalState =>
    have hv : idsView (mw.w.tagger T) = false := by simpa [reads, hcls] using hr
    simp [yieldCls, yieldF, viewOf, hv]
  | activeRootUnit =>
    have hv : idsView (mw.w.tagger T) = false := by simpa [reads, hcls] using hr
    rw [hT hcls] at hv; cases hv
  | factorTypeMap => simp [reads, hcls] at hr
  | cellBoundary | cellBounding | cellVeto | excludedCells | surplusCells | unknown => exact List.Perm.refl _

/-! ## the corollaries: C09, the C08 link and E13's mode discipline at this world, WITHOUT the `FootprintsSound` hypothesis -/

/-- **C09 for every run of a sound, supported configuration in the world of composite objects**: after every commit, for every tagger
except the start-of-run tagger, the pending events are what the tagger generates from scratch for the current global state
(identifier tuples for interaction-type taggers, their number for the others) -/
theorem fresh_concrete2 (env : Env ℚ) (hL : BoxOK env.d env.L) (mw : ModeWiring) (S : TaggerIdx) (sound : WiringSound mw.w = true)
    (hS : mw.w.start? = some S) (hs : Supported2 mw = true) {rs : RS (G env)}
    (h : Run mw.w (world2 env mw) (Tr2 env mw) S rs) : ∀ T, (world2 env mw).live T → Fresh (world2 env mw) rs T :=
  JF.C09.fresh_of_wiringSound mw.w (world2 env mw) (Tr2 env mw) S sound hS (footprintsSound_concrete2 env hL mw hs) (liveIs2 env mw) h

/-- **clause (h) of C08 at every step of every run in this world**: when a motion-changing event is about to be committed, every
interaction tagger is in its trash list or has nothing pending -/
theorem clause_h_concrete2 (env : Env ℚ) (hL : BoxOK env.d env.L) (mw : ModeWiring) (S : TaggerIdx) (sound : WiringSound mw.w = true)
    (hS : mw.w.start? = some S) (hs : Supported2 mw = true) {rs : RS (G env)}
    (hrun : Run mw.w (world2 env mw) (Tr2 env mw) S rs) {E : TaggerIdx} (hE : (getT rs.act E).running ≠ [])
    (hend : (mw.w.tagger E).kind ≠ .endOfRun) (hm : affects (mw.w.tagger E) .motion = true) {T : TaggerIdx} (hT : T < mw.w.n)
    (hb : motionBound (mw.w.tagger T) = true) : T ∈ (getW mw.w.wires E).trashes ∨ (getT rs.act T).running = [] :=
  JF.C08.clause_h_of_wiringSound mw.w (world2 env mw) (Tr2 env mw) S sound hS (footprintsSound_concrete2 env hL mw hs)
    (liveIs2 env mw) hrun hE hend hm hT hb

/-- **E13's mode discipline at this world**: along every run (with its history of committed kinds, `RunK`) of a mode-sound, sound,
supported wiring the kinds follow the leaf/root protocol and the mode is the one read off the activation flags — without the
`FootprintsSound` hypothesis `modeStep_of_modeSound` carries -/
theorem mode_concrete2 (env : Env ℚ) (hL : BoxOK env.d env.L) (mw : ModeWiring) (S : TaggerIdx) (hms : ModeSound mw = true)
    (sound : WiringSound mw.w = true) (hS : mw.w.start? = some S) (hs : Supported2 mw = true)
    {h : List (TaggerIdx × EvKind)} {cm : TaggerIdx → WMode} {rs : RS (G env)}
    (r : RunK mw (world2 env mw) (Tr2 env mw) S h cm rs) : ModeInv mw h cm rs :=
  modeStep_of_modeSound mw (world2 env mw) (Tr2 env mw) S hms sound hS (footprintsSound_concrete2 env hL mw hs) (liveIs2 env mw) r

/-! ## the shipped configurations of composite objects without cells live in this world -/

open JF.Act.Gen

theorem supported2_atom_factors : Supported2 mcfg_dipoles_atom_factors = true := by decide
theorem supported2_dipole_factors_inside_first : Supported2 mcfg_dipoles_dipole_factors_inside_first = true := by decide
theorem supported2_dipole_factors_outside_first : Supported2 mcfg_dipoles_dipole_factors_outside_first = true := by decide
theorem supported2_dipole_factors_ratio : Supported2 mcfg_dipoles_dipole_factors_ratio = true := by decide
theorem supported2_dipole_motion : Supported2 mcfg_dipoles_dipole_motion = true := by decide
theorem supported2_water_single_molecule : Supported2 mcfg_water_single_molecule = true := by decide

/-- the side condition is not trivially true: composite objects WITH a cell system, and point masses with cells, are outside this world -/
example : Supported2 mcfg_dipoles_cell_bounded = false ∧ Supported2 mcfg_dipoles_cell_veto = false ∧
    Supported2 mcfg_water_coulomb_cell_veto_lj_inverted = false ∧ Supported2 mcfg_coulomb_atoms_cell_bounded = false := by decide

/-- every shipped wiring that passes the side condition.  Besides the six above: two more configurations of composite objects
without cells (`water/coulomb_power_bounded_lj_inverted.ini`, `hard_disk_dipoles/{hard_disk_dipoles, single_hard_disk_dipole}.ini`, judged
by `harness/fpcorr2.py` like the others) — and the two cell-free coulomb_atoms wirings: `Supported2` is a condition on the WIRING only;
those are one-level systems (point masses), this world is not a model of them (they live in the world of `JF/Props/Footprints.lean`;
`harness/fpcorr2.py` judges only traces with `setting.number_of_node_levels == 2`). -/
theorem shipped_in_world : (allModeCfgs.filter Supported2).map (·.w.name) =
    ["coulomb_atoms_power_bounded", "coulomb_atoms_power_bounded_dump", "dipoles_atom_factors",
     "dipoles_dipole_factors_inside_first", "dipoles_dipole_factors_outside_first", "dipoles_dipole_factors_ratio",
     "dipoles_dipole_motion", "water_coulomb_power_bounded_lj_inverted", "water_single_molecule",
     "hard_disk_dipoles_hard_disk_dipoles", "hard_disk_dipoles_single_hard_disk_dipole"] := by decide

/-- the transition relation speaks about the kinds of the same event type as E13 (`C12.kindOf`) -/
theorem evKind_eq_kindOf (e : Composite.Ev ℚ) : evKind e = kindOf e := by cases e <;> rfl

/-- `FactorTypeMaps` of a shipped factor file (table `FactorMaps.shipped`, compared with the files of the tree on every run of C10) -/
def factorsOf (file : String) : FactorMaps.Factors :=
  match FactorMaps.shipped.lookup file with
  | some (nPer, lines) =>
    match FactorMaps.instantiate ⟨0, nPer⟩ lines [] with
    | .ok fs => fs
    | .error _ => []
  | none => []

/-- the environment of a shipped configuration: system lengths, dimension, its factor file and, per tagger,
`to_camel_case(factor_type_maps_label or tag)` -/
def envOf (L : List ℚ) (nPer : Nat) (file : String) (ftypes : List String) : Env ℚ :=
  { L := L, d := L.length, nPer := nPer, fs := factorsOf file, ftype := fun T => (ftypes[T]?).getD "" }

/-- `dipoles/dipole_motion.ini`: `[FactorTypeMaps] filename = …/factor_set_dipoles_dipole.txt`, labels `harmonic`, `coulomb`, `repulsive` -/
def envDipoleMotion (L : List ℚ) : Env ℚ :=
  envOf L 2 "factor_set_dipoles_dipole.txt"
    ["Harmonic", "Coulomb", "Repulsive", "Coulomb", "Repulsive", "Sampling", "LeafToRoot", "RootToLeaf", "EndOfChain", "EndOfRun", "StartOfRun"]
/-- `dipoles/dipole_factors_{inside_first, outside_first, ratio}.ini` -/
def envDipoleFactors (L : List ℚ) : Env ℚ :=
  envOf L 2 "factor_set_dipoles_dipole.txt" ["Coulomb", "Harmonic", "Repulsive", "Sampling", "EndOfChain", "EndOfRun", "StartOfRun"]
/-- `dipoles/atom_factors.ini` -/
def envAtomFactors (L : List ℚ) : Env ℚ :=
  envOf L 2 "factor_set_dipoles_atomic.txt" ["Coulomb", "Harmonic", "Repulsive", "Sampling", "EndOfChain", "EndOfRun", "StartOfRun"]
/-- `water/single_molecule.ini` -/
def envWaterSingle (L : List ℚ) : Env ℚ :=
  envOf L 3 "factor_set_water.txt" ["Harmonic", "Bending", "Sampling", "EndOfChain", "EndOfRun", "StartOfRun"]

/-- the factor files named above are in the table and are accepted by `_instantiate_factor_type_maps` -/
example : (factorsOf "factor_set_dipoles_dipole.txt").map (·.1) = ["Harmonic", "Repulsive", "Coulomb"] ∧
    (factorsOf "factor_set_dipoles_atomic.txt").map (·.1) = ["Harmonic", "Repulsive", "Coulomb"] ∧
    (factorsOf "factor_set_water.txt").map (·.1) = ["Harmonic", "LennardJones", "Bending", "Coulomb"] := by decide

section
variable {L : List ℚ} {d : Nat}

/-- C09 for `dipoles/dipole_motion.ini` (the configuration that switches between leaf and root mode): any number of dipoles, any box -/
theorem fresh_dipole_motion (hL : BoxOK L.length L) {rs : RS (G (envDipoleMotion L))}
    (h : Run cfg_dipoles_dipole_motion (world2 (envDipoleMotion L) mcfg_dipoles_dipole_motion) (Tr2 _ mcfg_dipoles_dipole_motion) 10 rs) :
    ∀ T, (world2 (envDipoleMotion L) mcfg_dipoles_dipole_motion).live T → Fresh (world2 _ mcfg_dipoles_dipole_motion) rs T :=
  fresh_concrete2 _ hL mcfg_dipoles_dipole_motion 10 cfg_sound_dipoles_dipole_motion (by decide) supported2_dipole_motion h

theorem fresh_atom_factors (hL : BoxOK L.length L) {rs : RS (G (envAtomFactors L))}
    (h : Run cfg_dipoles_atom_factors (world2 (envAtomFactors L) mcfg_dipoles_atom_factors) (Tr2 _ mcfg_dipoles_atom_factors) 6 rs) :
    ∀ T, (world2 (envAtomFactors L) mcfg_dipoles_atom_factors).live T → Fresh (world2 _ mcfg_dipoles_atom_factors) rs T :=
  fresh_concrete2 _ hL mcfg_dipoles_atom_factors 6 cfg_sound_dipoles_atom_factors (by decide) supported2_atom_factors h

theorem fresh_dipole_factors_inside_first (hL : BoxOK L.length L) {rs : RS (G (envDipoleFactors L))}
    (h : Run cfg_dipoles_dipole_factors_inside_first (world2 (envDipoleFactors L) mcfg_dipoles_dipole_factors_inside_first)
      (Tr2 _ mcfg_dipoles_dipole_factors_inside_first) 6 rs) :
    ∀ T, (world2 (envDipoleFactors L) mcfg_dipoles_dipole_factors_inside_first).live T →
      Fresh (world2 _ mcfg_dipoles_dipole_factors_inside_first) rs T :=
  fresh_concrete2 _ hL mcfg_dipoles_dipole_factors_inside_first 6 cfg_sound_dipoles_dipole_factors_inside_first (by decide)
    supported2_dipole_factors_inside_first h

theorem fresh_dipole_factors_outside_first (hL : BoxOK L.length L) {rs : RS (G (envDipoleFactors L))}
    (h : Run cfg_dipoles_dipole_factors_outside_first (world2 (envDipoleFactors L) mcfg_dipoles_dipole_factors_outside_first)
      (Tr2 _ mcfg_dipoles_dipole_factors_outside_first) 6 rs) :
    ∀ T, (world2 (envDipoleFactors L) mcfg_dipoles_dipole_factors_outside_first).live T →
      Fresh (world2 _ mcfg_dipoles_dipole_factors_outside_first) rs T :=
  fresh_concrete2 _ hL mcfg_dipoles_dipole_factors_outside_first 6 cfg_sound_dipoles_dipole_factors_outside_first (by decide)
    supported2_dipole_factors_outside_first h

theorem fresh_dipole_factors_ratio (hL : BoxOK L.length L) {rs : RS (G (envDipoleFactors L))}
    (h : Run cfg_dipoles_dipole_factors_ratio (world2 (envDipoleFactors L) mcfg_dipoles_dipole_factors_ratio)
      (Tr2 _ mcfg_dipoles_dipole_factors_ratio) 6 rs) :
    ∀ T, (world2 (envDipoleFactors L) mcfg_dipoles_dipole_factors_ratio).live T →
      Fresh (world2 _ mcfg_dipoles_dipole_factors_ratio) rs T :=
  fresh_concrete2 _ hL mcfg_dipoles_dipole_factors_ratio 6 cfg_sound_dipoles_dipole_factors_ratio (by decide)
    supported2_dipole_factors_ratio h

theorem fresh_water_single_molecule (hL : BoxOK L.length L) {rs : RS (G (envWaterSingle L))}
    (h : Run cfg_water_single_molecule (world2 (envWaterSingle L) mcfg_water_single_molecule) (Tr2 _ mcfg_water_single_molecule) 5 rs) :
    ∀ T, (world2 (envWaterSingle L) mcfg_water_single_molecule).live T → Fresh (world2 _ mcfg_water_single_molecule) rs T :=
  fresh_concrete2 _ hL mcfg_water_single_molecule 5 cfg_sound_water_single_molecule (by decide) supported2_water_single_molecule h

end

/-! ## non-vacuity: a run of `dipoles/dipole_motion.ini` with two dipoles (exact reading)

Two dipoles in the unit square (`exC0`, `exC1` of `JF/Props/C12.lean`: the output of `DipoleRandomNodeCreator`, the second one across
the periodic boundary), the factor file `factor_set_dipoles_dipole.txt`.  The run — the events of `JF.C12.ModeExample.es`, their
weak admissibility is `es_admWFree` —: start of run (point mass (0, 0) starts, speed 1) — `leaf_to_root` commits the SWITCH to root
mode (dipole 0 moves as a whole) — `coulomb_root` commits a LIFTING BETWEEN THE MOLECULES (dipole 0 → dipole 1) — `end_of_chain`
(root mode) stops dipole 1 and starts dipole 0 in a new direction — `root_to_leaf` commits the switch back (point mass (0, 1) keeps
moving) — `harmonic_leaf` commits a lifting within the molecule ((0, 1) → (0, 0)) — `end_of_chain` (leaf mode) stops it and starts
point mass (1, 0). -/

namespace Example
open JF.C12.ModeExample

abbrev mw : ModeWiring := mcfg_dipoles_dipole_motion
abbrev cfg : Wiring := cfg_dipoles_dipole_motion

def env : Env ℚ := envDipoleMotion exL

theorem box : BoxOK env.d env.L := exBox

theorem ex_uniform : Uniform env.nPer [exC0, exC1] := by
  intro c hc
  simp only [List.mem_cons, List.not_mem_nil, or_false] at hc
  rcases hc with rfl | rfl <;> rfl

/-- the state before the start-of-run event: both dipoles at rest -/
def g0 : G env := ⟨⟨[exC0, exC1], .leaf⟩, inv_rest ex_initial ex_uniform ex_rest .leaf⟩
/-- after the start-of-run event (`initial_active_identifier = 0, 0`): leaf mode -/
def g1 : G env := ⟨⟨step Ops.rat isZ env.L [exC0, exC1] (.start 0 [0] [1, 0]), .leaf⟩,
  inv_start box ex_initial ex_uniform ex_rest start_admW (rfl : [0].length = 1)⟩

/-- the state after a weakly admissible event whose kind is possible in the ghost mode; its invariant comes from `inv_step` -/
def next (g : G env) (e : Composite.Ev ℚ) (m' : Composite.Mode) (hm : modeStep g.1.mode e = some m')
    (ha : AdmW env.d env.L g.1.cs e) : G env := ⟨⟨step Ops.rat isZ env.L g.1.cs e, m'⟩, inv_step box g.2 hm ha⟩

theorem tr_next (E : TaggerIdx) (g : G env) (e : Composite.Ev ℚ) (m' : Composite.Mode) (hm : modeStep g.1.mode e = some m')
    (ha : AdmW env.d env.L g.1.cs e) (cm : WMode) (hk : evKind e ∈ kindsOf (mw.hmode E) cm) :
    Tr2 env mw E g (next g e m' hm ha) := ⟨e, cm, hk, hm, ha, rfl⟩

def g2 : G env := next g1 (.toRoot ⟨0, 1/4⟩ 0) .root rfl es_admWFree.1
def g3 : G env := next g2 (.pass ⟨0, 1/2⟩ [0, 1] 0 1) .root rfl es_admWFree.2.1
def g4 : G env := next g3 (.eocRoot ⟨0, 3/4⟩ 1 0 [0, 1]) .root rfl es_admWFree.2.2.1
def g5 : G env := next g4 (.toLeaf ⟨1, 0⟩ 0 1) .leaf rfl es_admWFree.2.2.2.1
def g6 : G env := next g5 (.exchange ⟨1, 1/4⟩ [0] 0 1 0 0) .leaf rfl es_admWFree.2.2.2.2.1
def g7 : G env := next g6 (.eocLeaf ⟨1, 1/2⟩ 0 0 1 0 [1, 0]) .leaf rfl es_admWFree.2.2.2.2.2.1

/-- who is active along the run (`yield_independent_lifted_identifiers`): the point mass (0, 0) — dipole 0 — dipole 1 — dipole 0 —
the point mass (0, 1) — (0, 0) — (1, 0) -/
example : [g1, g2, g3, g4, g5, g6, g7].map (fun g => independent env.nPer (flags g.1.cs))
    = [[[0, 0]], [[0]], [[1]], [[0]], [[0, 1]], [[0, 0]], [[1, 0]]] := by decide +kernel

abbrev W : World (G env) := world2 env mw

def s0 : Act := ((first cfg.wires (initAct cfg.wires) 10 (fun T => W.yieldOf T g0)).get (by decide +kernel)).1
def out0 : List (HandlerId × IdTuple) :=
  ((first cfg.wires (initAct cfg.wires) 10 (fun T => W.yieldOf T g0)).get (by decide +kernel)).2
def rs1 : RS (G env) := (commit cfg.wires W ⟨s0, assign (fun _ => none) out0, g0⟩ 10 g1).get (by decide +kernel)
def rs2 : RS (G env) := (commit cfg.wires W rs1 6 g2).get (by decide +kernel)      -- leaf_to_root: switch
def rs3 : RS (G env) := (commit cfg.wires W rs2 3 g3).get (by decide +kernel)      -- coulomb_root: lifting dipole 0 → dipole 1
def rs4 : RS (G env) := (commit cfg.wires W rs3 8 g4).get (by decide +kernel)      -- end_of_chain (root mode)
def rs5 : RS (G env) := (commit cfg.wires W rs4 7 g5).get (by decide +kernel)      -- root_to_leaf: switch back
def rs6 : RS (G env) := (commit cfg.wires W rs5 0 g6).get (by decide +kernel)      -- harmonic_leaf: lifting (0, 1) → (0, 0)
def rs7 : RS (G env) := (commit cfg.wires W rs6 8 g7).get (by decide +kernel)      -- end_of_chain (leaf mode)

theorem commit1 : commit cfg.wires W ⟨s0, assign (fun _ => none) out0, g0⟩ 10 g1 = some rs1 := by simp [rs1]
theorem commit2 : commit cfg.wires W rs1 6 g2 = some rs2 := by simp [rs2]
theorem commit3 : commit cfg.wires W rs2 3 g3 = some rs3 := by simp [rs3]
theorem commit4 : commit cfg.wires W rs3 8 g4 = some rs4 := by simp [rs4]
theorem commit5 : commit cfg.wires W rs4 7 g5 = some rs5 := by simp [rs5]
theorem commit6 : commit cfg.wires W rs5 0 g6 = some rs6 := by simp [rs6]
theorem commit7 : commit cfg.wires W rs6 8 g7 = some rs7 := by simp [rs7]

theorem run1 : Run cfg W (Tr2 env mw) 10 rs1 :=
  .start (fun _ => none) g0 g1 s0 out0 rs1
    (Option.some_get (x := first cfg.wires (initAct cfg.wires) 10 (fun T => W.yieldOf T g0)) (by decide +kernel)).symm commit1

theorem run2 : Run cfg W (Tr2 env mw) 10 rs2 :=
  .step rs1 rs2 6 g2 run1 (by decide +kernel) (by decide)
    (JF.CW.commit_g commit1 ▸ tr_next 6 g1 _ _ rfl es_admWFree.1 .leaf (by decide)) commit2
theorem run3 : Run cfg W (Tr2 env mw) 10 rs3 :=
  .step rs2 rs3 3 g3 run2 (by decide +kernel) (by decide)
    (JF.CW.commit_g commit2 ▸ tr_next 3 g2 _ _ rfl es_admWFree.2.1 .root (by decide)) commit3
theorem run4 : Run cfg W (Tr2 env mw) 10 rs4 :=
  .step rs3 rs4 8 g4 run3 (by decide +kernel) (by decide)
    (JF.CW.commit_g commit3 ▸ tr_next 8 g3 _ _ rfl es_admWFree.2.2.1 .root (by decide)) commit4
theorem run5 : Run cfg W (Tr2 env mw) 10 rs5 :=
  .step rs4 rs5 7 g5 run4 (by decide +kernel) (by decide)
    (JF.CW.commit_g commit4 ▸ tr_next 7 g4 _ _ rfl es_admWFree.2.2.2.1 .root (by decide)) commit5
theorem run6 : Run cfg W (Tr2 env mw) 10 rs6 :=
  .step rs5 rs6 0 g6 run5 (by decide +kernel) (by decide)
    (JF.CW.commit_g commit5 ▸ tr_next 0 g5 _ _ rfl es_admWFree.2.2.2.2.1 .leaf (by decide)) commit6
theorem run7 : Run cfg W (Tr2 env mw) 10 rs7 :=
  .step rs6 rs7 8 g7 run6 (by decide +kernel) (by decide)
    (JF.CW.commit_g commit6 ▸ tr_next 8 g6 _ _ rfl es_admWFree.2.2.2.2.2.1 .leaf (by decide)) commit7

/-- the corollary applies to this run -/
example : ∀ T, W.live T → Fresh W rs7 T := fresh_dipole_motion exBox run7

/-- … and speaks about non-empty pending lists.  After the lifting between the molecules (`rs3`, root mode, dipole 1 active): the
root-mode Coulomb tagger's one pending event carries the factor of both dipoles, the root-mode repulsive tagger's two the pairs
((1,0),(0,1)) and ((1,1),(0,0)), the leaf-mode taggers are idle; at the end (`rs7`, leaf mode, point mass (1, 0) active) the
leaf-mode taggers carry the factors of (1, 0) and the root-mode taggers are idle -/
example : (getT rs3.act 3).running.map rs3.ids = [some [[1, 0], [1, 1], [0, 0], [0, 1]]] ∧
    (getT rs3.act 4).running.map rs3.ids = [some [[1, 0], [0, 1]], some [[1, 1], [0, 0]]] ∧
    (getT rs3.act 0).running = [] ∧ (getT rs3.act 7).running.length = 1 ∧
    (getT rs7.act 0).running.map rs7.ids = [some [[1, 0], [1, 1]]] ∧
    (getT rs7.act 1).running.map rs7.ids = [some [[1, 0], [1, 1], [0, 0], [0, 1]]] ∧
    (getT rs7.act 2).running.map rs7.ids = [some [[1, 0], [0, 1]]] ∧ (getT rs7.act 3).running = [] ∧
    (getT rs7.act 6).running.length = 1 := by decide +kernel

/-- clause (h) instantiated at the run: before the lifting between the molecules is committed (`rs2`, the committing tagger
`coulomb_root` changes motion) the root-mode repulsive tagger is in its trash list or idle -/
example : 4 ∈ (getW cfg.wires 3).trashes ∨ (getT rs2.act 4).running = [] :=
  clause_h_concrete2 env box mw 10 cfg_sound_dipoles_dipole_motion (by decide) supported2_dipole_motion
    run2 (by decide +kernel) (by decide) (by decide) (by decide) (by decide)

/-- the ghost mode carried by the states of the run is the mode E13 reads off the activation flags of the activator state -/
example : [rs1, rs2, rs3, rs4, rs5, rs6, rs7].map (fun rs => (toW rs.g.1.mode, mw.mode (absOf rs.act)))
    = [(.leaf, .leaf), (.root, .root), (.root, .root), (.root, .root), (.leaf, .leaf), (.leaf, .leaf), (.leaf, .leaf)] := by
  decide +kernel

/-- the run with its history of kinds (`RunK` of `JF/Props/ModeDiscipline.lean`) -/
theorem exRunK : ∃ cm, RunK mw W (Tr2 env mw) 10 JF.Act.ModeExample.hist cm rs7 := by
  have r1 : RunK mw W (Tr2 env mw) 10 [] _ rs1 :=
    .start (fun _ => none) g0 g1 s0 out0 rs1
      (Option.some_get (x := first cfg.wires (initAct cfg.wires) 10 (fun T => W.yieldOf T g0)) (by decide +kernel)).symm commit1
  have r2 := RunK.step _ _ rs1 rs2 6 g2 .toRoot r1 (by decide +kernel) (by decide)
    (JF.CW.commit_g commit1 ▸ tr_next 6 g1 _ _ rfl es_admWFree.1 .leaf (by decide)) commit2 (by decide +kernel)
  have r3 := RunK.step _ _ rs2 rs3 3 g3 .pass r2 (by decide +kernel) (by decide)
    (JF.CW.commit_g commit2 ▸ tr_next 3 g2 _ _ rfl es_admWFree.2.1 .root (by decide)) commit3 (by decide +kernel)
  have r4 := RunK.step _ _ rs3 rs4 8 g4 .eocRoot r3 (by decide +kernel) (by decide)
    (JF.CW.commit_g commit3 ▸ tr_next 8 g3 _ _ rfl es_admWFree.2.2.1 .root (by decide)) commit4 (by decide +kernel)
  have r5 := RunK.step _ _ rs4 rs5 7 g5 .toLeaf r4 (by decide +kernel) (by decide)
    (JF.CW.commit_g commit4 ▸ tr_next 7 g4 _ _ rfl es_admWFree.2.2.2.1 .root (by decide)) commit5 (by decide +kernel)
  have r6 := RunK.step _ _ rs5 rs6 0 g6 .exchange r5 (by decide +kernel) (by decide)
    (JF.CW.commit_g commit5 ▸ tr_next 0 g5 _ _ rfl es_admWFree.2.2.2.2.1 .leaf (by decide)) commit6 (by decide +kernel)
  have r7 := RunK.step _ _ rs6 rs7 8 g7 .eocLeaf r6 (by decide +kernel) (by decide)
    (JF.CW.commit_g commit6 ▸ tr_next 8 g6 _ _ rfl es_admWFree.2.2.2.2.2.1 .leaf (by decide)) commit7 (by decide +kernel)
  exact ⟨_, r7⟩

/-- `mode_concrete2` applies: the kinds committed along the run follow the mode protocol and end in the mode of the flags -/
example : kRun mw.startMode (kindsOfHist JF.Act.ModeExample.hist) = some (mw.mode (absOf rs7.act)) := by
  obtain ⟨cm, r⟩ := exRunK
  exact (mode_concrete2 env box mw 10 modeSound_dipoles_dipole_motion cfg_sound_dipoles_dipole_motion (by decide)
    supported2_dipole_motion r).chain

/-! ### FINDING: the start-of-run event changes the count of a mode-switch tagger

`reads (ActiveRootUnitInStateTagger with a count view) .ident = false` — "always exactly one tuple per independent active chain" — and
`affects startOfRun .ident = true` make the start-of-run tagger and a switcher tagger DISJOINT, i.e. the table claims that the
start-of-run commit does not change the number of in-states the switcher tagger yields.  It does: before the start there is no active
branch (the tagger yields nothing), afterwards there is one.  Consequence for the theorem: the start-of-run event cannot be a
transition of the relation `FootprintsSound` quantifies over; `Tr2` does not contain it (no ghost mode allows a `start`), which loses
no run because the start-of-run commit is the unconstrained first step of `JF.Act.Run` and `run_inv` proves that the start tagger
never commits again.  `pairViolations` never consults the pair either (`canCommit` excludes the start tagger). -/
theorem start_changes_root_unit_count :
    TrStart2 env mw 10 g0.1 g1.1 ∧ disjointFP cfg (cfg.tagger 10) (cfg.tagger 6) = true ∧
    yieldCls env 6 (cfg.tagger 6).cls g0.1.cs = [] ∧ yieldCls env 6 (cfg.tagger 6).cls g1.1.cs = [some [[0]]] ∧
    ¬ ((yieldCls env 6 (cfg.tagger 6).cls g1.1.cs).map (viewOf (cfg.tagger 6))).Perm
        ((yieldCls env 6 (cfg.tagger 6).cls g0.1.cs).map (viewOf (cfg.tagger 6))) :=
  ⟨⟨0, [0], [1, 0], .leaf, by decide, ex_rest, (rfl : [0].length = 1), start_admW, rfl⟩, by decide, by decide +kernel,
    by decide +kernel, fun h => absurd h.length_eq (by decide +kernel)⟩

/-- the corrected statement applies to the start of this run: every OTHER tagger with disjoint footprints is untouched by it -/
example : ((yieldCls env 8 (cfg.tagger 8).cls g1.1.cs).map (viewOf (cfg.tagger 8))).Perm
    ((yieldCls env 8 (cfg.tagger 8).cls g0.1.cs).map (viewOf (cfg.tagger 8))) :=
  start_untouched2 env mw supported2_dipole_motion start_changes_root_unit_count.1 (by decide) (by decide)

/-! ### the mode premise of `Tr2` is needed

Root mode: both point masses of dipole 0 move (`start 0 [0, 1]`).  The leaf-mode handler class of `harmonic_leaf`
(`TwoLeafUnitEventHandler`: `exchange`) is weakly admissible there — leaf (0, 0) moves, leaf (1, 0) exists — and its commit leaves
point mass (0, 1) AND point mass (1, 0) moving: two active branches, the switcher tagger `root_to_leaf` yields two in-states instead
of one, although the tables declare the pair disjoint.  In a run this does not happen because `harmonic_leaf` is deactivated in
root mode (`ModeSound`, E13) — which is the premise `modeStep`. -/

def d0 : List (CObj ℚ) := step Ops.rat isZ env.L [exC0, exC1] (.start 0 [0, 1] [1, 0])
def d1 : List (CObj ℚ) := step Ops.rat isZ env.L d0 (.exchange ⟨0, 1/4⟩ [0] 0 0 1 0)

theorem d0_inv : Inv env ⟨d0, .root⟩ := by
  refine inv_start box ex_initial ex_uniform ex_rest (i := 0) (P := [0, 1]) (v := [1, 0])
    ⟨exC0, rfl, by decide, by decide, by simp, ⟨0, by simp⟩, rfl⟩ ⟨exC0, rfl, ?_⟩
  intro k hk
  have : k < 2 := hk
  match k, this with
  | 0, _ => simp
  | 1, _ => simp

theorem commit_needs_mode_premise :
    Inv env ⟨d0, .root⟩ ∧ TrNoMode2 env mw 0 d0 d1 ∧ modeStep .root (.exchange ⟨0, 1/4⟩ [0] 0 0 1 0 : Composite.Ev ℚ) = none ∧
    disjointFP cfg (cfg.tagger 0) (cfg.tagger 7) = true ∧
    yieldCls env 7 (cfg.tagger 7).cls d0 = [some [[0]]] ∧ yieldCls env 7 (cfg.tagger 7).cls d1 = [some [[0]], some [[1]]] ∧
    ¬ ((yieldCls env 7 (cfg.tagger 7).cls d1).map (viewOf (cfg.tagger 7))).Perm
        ((yieldCls env 7 (cfg.tagger 7).cls d0).map (viewOf (cfg.tagger 7))) := by
  refine ⟨d0_inv, ⟨_, .leaf, by decide, by decide, ?_, rfl⟩, rfl, by decide, by decide +kernel, by decide +kernel,
    fun h => absurd h.length_eq (by decide +kernel)⟩
  exact ⟨by simp, fun h => absurd h (by decide), ⟨[0, 1/2], some [1, 0], some ⟨0, 1/4⟩⟩, ⟨[3/10, 1/5], none, none⟩, [1, 0],
    by decide +kernel, rfl, by decide +kernel⟩

/-! ### the Python mirror of the yields (`harness/fpcorr2.py`) is pinned to the Lean definitions

`harness/fpcorr2.py: SELF_TEST` holds the six distinct rows of this table (and the rows of `py_yield_table_water`); the module evaluates
its mirror (`independent`, `branches`, `yield_of`, `instantiate`, `yield_factor`) on these flags and compares with the yields listed here,
which are the values of `yieldCls` / `yieldF` by `decide` (`fp2.self-test`). -/

def pyYieldTable : List (Flags × List (List IdTuple)) := [
  ([(false, [false, false]), (false, [false, false])], [[], [], [], [], [], [none], [], [], [some []], [none], [none]]),
  ([(true, [true, false]), (false, [false, false])],
    [[some [[0, 0], [0, 1]]], [some [[0, 0], [0, 1], [1, 0], [1, 1]]], [some [[0, 0], [1, 1]]],
      [some [[0, 0], [0, 1], [1, 0], [1, 1]]], [some [[0, 0], [1, 1]]], [none], [some [[0]]], [some [[0]]],
      [some [[0, 0]]], [none], [none]]),
  ([(true, [true, true]), (false, [false, false])],
    [[some [[0, 0], [0, 1]]], [some [[0, 0], [0, 1], [1, 0], [1, 1]]], [some [[0, 0], [1, 1]], some [[0, 1], [1, 0]]],
      [some [[0, 0], [0, 1], [1, 0], [1, 1]]], [some [[0, 0], [1, 1]], some [[0, 1], [1, 0]]], [none], [some [[0]]],
      [some [[0]]], [some [[0]]], [none], [none]]),
  ([(false, [false, false]), (true, [true, true])],
    [[some [[1, 0], [1, 1]]], [some [[1, 0], [1, 1], [0, 0], [0, 1]]], [some [[1, 0], [0, 1]], some [[1, 1], [0, 0]]],
      [some [[1, 0], [1, 1], [0, 0], [0, 1]]], [some [[1, 0], [0, 1]], some [[1, 1], [0, 0]]], [none], [some [[1]]],
      [some [[1]]], [some [[1]]], [none], [none]]),
  ([(true, [true, true]), (false, [false, false])],
    [[some [[0, 0], [0, 1]]], [some [[0, 0], [0, 1], [1, 0], [1, 1]]], [some [[0, 0], [1, 1]], some [[0, 1], [1, 0]]],
      [some [[0, 0], [0, 1], [1, 0], [1, 1]]], [some [[0, 0], [1, 1]], some [[0, 1], [1, 0]]], [none], [some [[0]]],
      [some [[0]]], [some [[0]]], [none], [none]]),
  ([(true, [false, true]), (false, [false, false])],
    [[some [[0, 0], [0, 1]]], [some [[0, 0], [0, 1], [1, 0], [1, 1]]], [some [[0, 1], [1, 0]]],
      [some [[0, 0], [0, 1], [1, 0], [1, 1]]], [some [[0, 1], [1, 0]]], [none], [some [[0]]], [some [[0]]],
      [some [[0, 1]]], [none], [none]]),
  ([(true, [true, false]), (false, [false, false])],
    [[some [[0, 0], [0, 1]]], [some [[0, 0], [0, 1], [1, 0], [1, 1]]], [some [[0, 0], [1, 1]]],
      [some [[0, 0], [0, 1], [1, 0], [1, 1]]], [some [[0, 0], [1, 1]]], [none], [some [[0]]], [some [[0]]],
      [some [[0, 0]]], [none], [none]]),
  ([(false, [false, false]), (true, [true, false])],
    [[some [[1, 0], [1, 1]]], [some [[1, 0], [1, 1], [0, 0], [0, 1]]], [some [[1, 0], [0, 1]]],
      [some [[1, 0], [1, 1], [0, 0], [0, 1]]], [some [[1, 0], [0, 1]]], [none], [some [[1]]], [some [[1]]],
      [some [[1, 0]]], [none], [none]])]

theorem py_yield_table_agrees :
    [g0, g1, g2, g3, g4, g5, g6, g7].map (fun g => flags g.1.cs) = pyYieldTable.map (·.1) ∧
    [g0, g1, g2, g3, g4, g5, g6, g7].map (fun g => (List.range 11).map fun T => yieldCls env T (cfg.tagger T).cls g.1.cs)
      = pyYieldTable.map (·.2) := by decide +kernel

/-- water (three point masses per molecule, `factor_set_water.txt`), two molecules, the oxygen (0, 1) active: the two harmonic bonds of
the molecule and its bending triple; the whole molecule 1 active (root mode): bonds and triple of molecule 1 once each -/
theorem py_yield_table_water :
    (List.range 2).map (fun T => yieldF ℚ (envWaterSingle [1, 1, 1]) T .factorTypeMap [(true, [false, true, false]), (false, [false, false, false])])
      = [[some [[0, 0], [0, 1]], some [[0, 1], [0, 2]]], [some [[0, 0], [0, 1], [0, 2]]]] ∧
    (List.range 2).map (fun T => yieldF ℚ (envWaterSingle [1, 1, 1]) T .factorTypeMap [(false, [false, false, false]), (true, [true, true, true])])
      = [[some [[1, 0], [1, 1]], some [[1, 1], [1, 2]]], [some [[1, 0], [1, 1], [1, 2]]]] ∧
    yieldF ℚ (envWaterSingle [1, 1, 1]) 3 .activeGlobalState [(false, [false, false, false]), (true, [true, true, true])] = [some [[1]]] ∧
    yieldF ℚ (envWaterSingle [1, 1, 1]) 3 .activeGlobalState [(true, [false, true, false]), (false, [false, false, false])] = [some [[0, 1]]] := by
  decide +kernel

end Example

end JF.Footprints2
