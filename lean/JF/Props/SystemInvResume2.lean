import JF.Lemmas.SystemInvMP2Sys2
import JF.Lemmas.SystemInvMP2Sys3
import JF.Lemmas.SystemInvResume2Generic
import JF.Lemmas.C09PoolsClosed2Run
/-!
# E50 — the joint invariant of the composed system of COMPOSITE OBJECTS WITHOUT CELLS along DUMPED-AND-RESUMED runs

E48 (`JF/Props/SystemInvResume.lean`) for `JF.Sys2.Reach2` (`JF/Props/SystemInv2.lean`), as an instance of the generic transport
`JF/Lemmas/SystemInvResume2Generic.lean` (E48's proofs with the world abstracted: `CSys.ReachD`, `reachD_minv`, `reachD_reach`,
`resumed_is_uninterrupted`, `resumed_mediator_runD`, `reach_reachD`) for the system `T2` of `JF/Lemmas/SystemInvMP2Sys2.lean`.

**What is modelled** (C19's model of dump/resume, as in E48).  `ReachD2 W ss cs mH x`: the composed system with the HEAP scheduler
`heapI xcfg W` — one leg = `leg (mwire mw.w S needs) (heapI xcfg W) m o = .ok (m', cm)` and `RStep2 (eraseS m) m.sched.last x o cm x'`,
i.e. field for field `JF.Sys2.SysStep2` with the heap scheduler (`x : X2` = composite objects `cs` and the ghost fields `ids`, `csPrev`,
`mid`, `cmode`) — dumped and resumed any number of times at any leg boundaries: a dump replaces the mediator state `m` by
`dumpH xcfg m` (scheduler pickled and rebuilt: `HSched.pickle`), everything else — activator bookkeeping, preceding handler, and the
world and ghost fields `x` — is restored as it was (trusted base "`dill` is the identity on ordinary objects").

**Results.**
* `reachD2_reach2` (heap → spec, under E1's `NoTies xcfg xcfg.finite (fun _ => none) cs`): the spec-level twin `Reach2` on the oracle
  values `oraclesOf ss` with the same commits, the same world and ghost fields, the same activator state and preceding handler; hence
  `joint_inv2_resumed`, `c09_fresh_closed2_resumed`, `c09_fresh_every_leg2_resumed`, `mode_premise_closed2_resumed`,
  `c12_rootConsistent_closed2_resumed`, `c07_one_chain_closed2_resumed`, `c08_closed2_resumed`, `c08_stale_trashed_closed2_resumed`,
  `candOK_closed2_resumed`, `commit_times_sorted_closed2_resumed`, `no_sample_skipped2_resumed`.
* `resumed_is_uninterrupted2` (NO tie hypothesis): leg for leg an uninterrupted heap-level run (same legs, same commits, same `x`,
  mediator states `LiveEq`); `resumed_commits_uninterrupted2`: its commits are those of `C19Loop.runLegsE` on `oraclesOf ss`.
* `reach2_reachD2` (non-vacuity, spec → heap) and `Example`: the seven-leg run of `dipole_motion.ini` of
  `JF/Lemmas/C09PoolsClosed2Run.lean`, dumped before the first leg, after legs 1, 3 (twice), 4 and 7.

The no-tie hypothesis `NoTies` is needed only to go from the heap instance to the spec instance in which `joint_inv2` is stated; this
world has no `TieFree` hypothesis of its own.  Not covered: as in E48 (list scheduler, ties, `dill` on everything but the C heap, runs
that leave the loop with an exception).

Composite objects WITH cell systems (`JF.Sys3L`, `JF/Props/SystemInv3Loop.lean`): namespace `JF.SystemInvResume2.Cells` at the end of
this file — the same transport for the instance `T3` of `JF/Lemmas/SystemInvMP2Sys3.lean`: `ReachD3`, `reachD3_reach3`,
`resumed_is_uninterrupted3`, `resumed_commits_uninterrupted3`, `joint_inv3_resumed`, `c09_fresh_closed3_resumed`,
`c12_rootConsistent_closed3_resumed`, `staysInRecordedCell_closed3_resumed`, `c11_consistent_closed3_resumed`,
`commit_times_sorted_closed3_resumed`, `no_sample_skipped3_resumed`, `reach3_reachD3`, with `Hyp3L`, `TieFree3` and E1's `NoTies`;
non-vacuity on the four-leg run of `dipoles/cell_bounded.ini` of `JF.SystemInv3Loop.Example`.  NOT transported:
`c11_occinv_closed3` (`JF/Props/SystemInv3Occ.lean`; it needs the initial state of the run, which `ReachD` does not expose).
-/
namespace JF.SystemInvResume2
open JF JF.Act JF.Heap JF.Sched JF.Med JF.CW2 JF.C14 JF.MediatorLoop JF.Sys JF.Sys2 JF.Composite JF.C12 JF.SystemInv2 JF.SysGen
  JF.SystemInvMP2
open JF.C19Loop (Step oraclesOf dumpH StRel runLegsE)
open JF.SystemInvResume (notDump)

section
variable {env : Env ℚ} {mw : ModeWiring} {S : TaggerIdx} {needs : HandlerId → Bool} {W : Nat}

/-- **the dumped-and-resumed runs of the composed system of composite objects without cells** (heap scheduler) -/
abbrev ReachD2 (env : Env ℚ) (mw : ModeWiring) (S : TaggerIdx) (needs : HandlerId → Bool) (W : Nat) (ss : List (Step XTime))
    (cs : List (Committed XTime)) (mH : MedState (HSched XTime)) (x : X2) : Prop :=
  (T2 env mw S needs).ReachD W ss cs mH x

variable {ss : List (Step XTime)} {cs : List (Committed XTime)} {mH : MedState (HSched XTime)} {x : X2}

/-- **the main bridge, heap → spec**: a dumped-and-resumed run without time ties among the finite pending candidate times has a
spec-level twin `Reach2` with the same commits, world, ghost fields, activator state and preceding handler -/
theorem reachD2_reach2 (H : Hyp2 env mw S) (hW : 0 < W) (hr : ReachD2 env mw S needs W ss cs mH x)
    (ntH : NoTies xcfg xcfg.finite (fun _ => none) cs) :
    ∃ m : SM, Reach2 env mw S needs (oraclesOf ss) cs (x.toSys m) ∧ m.act = mH.act ∧ m.preceding = mH.preceding := by
  obtain ⟨m, hreach, ha, hp⟩ := reachD_reach (T := T2 env mw S needs) (hyp2_static H) hW hr ntH
  exact ⟨m, reach2_to hreach, ha, hp⟩

/-- **resume = uninterrupted, leg for leg** (no tie hypothesis) -/
theorem resumed_is_uninterrupted2 (H : Hyp2 env mw S) (hW : 0 < W) (hr : ReachD2 env mw S needs W ss cs mH x) :
    ∃ m' : MedState (HSched XTime), ReachD2 env mw S needs W (ss.filter notDump) cs m' x ∧ StRel (LiveEq xcfg) m' mH :=
  resumed_is_uninterrupted (T := T2 env mw S needs) (hyp2_static H) hW hr

/-- the commits of a dumped-and-resumed run are exactly the commits of the uninterrupted mediator loop with the heap scheduler on
the oracle values of its legs (no tie hypothesis) -/
theorem resumed_commits_uninterrupted2 (H : Hyp2 env mw S) (hW : 0 < W) (hr : ReachD2 env mw S needs W ss cs mH x) :
    (runLegsE (mwire mw.w S needs) (heapI xcfg W) (MedState.init (heapI xcfg W) (mwire mw.w S needs).w) (oraclesOf ss)).1 = cs :=
  resumed_commits_uninterrupted (T := T2 env mw S needs) (hyp2_static H) hW hr

/-! ## the joint invariant and its corollaries along dumped-and-resumed runs -/

/-- **the joint invariant holds after every leg of every dumped-and-resumed run** (for the spec-level twin of the mediator) -/
theorem joint_inv2_resumed (H : Hyp2 env mw S) (hW : 0 < W) (hr : ReachD2 env mw S needs W ss cs mH x)
    (ntH : NoTies xcfg xcfg.finite (fun _ => none) cs) :
    ∃ m : SM, m.act = mH.act ∧ m.preceding = mH.preceding ∧ JInv2 env mw S needs cs (x.toSys m) := by
  obtain ⟨m, hreach, ha, hp⟩ := reachD2_reach2 H hW hr ntH
  exact ⟨m, ha, hp, joint_inv2 H hreach⟩

/-- `JF.SystemInv2.c09_fresh_closed2` along dumped-and-resumed runs -/
theorem c09_fresh_closed2_resumed (H : Hyp2 env mw S) (hW : 0 < W) (hr : ReachD2 env mw S needs W ss cs mH x)
    (ntH : NoTies xcfg xcfg.finite (fun _ => none) cs) (h2 : 2 ≤ cs.length) :
    ∃ hi : Inv env ⟨x.csPrev, ofW (mw.mode (absOf x.mid))⟩,
      (∀ T, (world2 env mw).live T → Fresh (world2 env mw) ⟨x.mid, x.ids, ⟨_, hi⟩⟩ T) ∧
      Act.Run mw.w (world2 env mw) (Tr2 env mw) S ⟨x.mid, x.ids, ⟨_, hi⟩⟩ := by
  obtain ⟨m, hreach, _, _⟩ := reachD2_reach2 H hW hr ntH
  exact c09_fresh_closed2 H hreach h2

/-- `JF.SystemInv2.c09_fresh_every_leg2` along dumped-and-resumed runs -/
theorem c09_fresh_every_leg2_resumed (H : Hyp2 env mw S) (hW : 0 < W) (hr : ReachD2 env mw S needs W ss cs mH x)
    (ntH : NoTies xcfg xcfg.finite (fun _ => none) cs) {k : Nat} {cm : Committed XTime} (hk : cs[k + 1]? = some cm) :
    ∃ (s1 : Sys2) (hi : Inv env ⟨s1.csPrev, ofW (mw.mode (absOf s1.mid))⟩),
      (∀ T, (world2 env mw).live T → Fresh (world2 env mw) ⟨s1.mid, s1.ids, ⟨_, hi⟩⟩ T) ∧
      (∀ y, (pendPushed (pendOf (fun _ => none) (cs.take (k + 1))) cm y).isSome ↔ ∃ T, y ∈ (getT s1.mid T).running) := by
  obtain ⟨m, hreach, _, _⟩ := reachD2_reach2 H hW hr ntH
  exact c09_fresh_every_leg2 H hreach hk

/-- `JF.SystemInv2.mode_premise_closed2` along dumped-and-resumed runs -/
theorem mode_premise_closed2_resumed (H : Hyp2 env mw S) (hW : 0 < W) (hr : ReachD2 env mw S needs W ss cs mH x)
    (ntH : NoTies xcfg xcfg.finite (fun _ => none) cs) (h2 : 2 ≤ cs.length) {cl : Committed XTime}
    (hl : cs.getLast? = some cl) (hgo : cl.stop = false) :
    ∃ E, owner mw.w.wires cl.handler = some E ∧
      TrRaw2 env mw E ⟨x.csPrev, ofW (mw.mode (absOf x.mid))⟩ ⟨x.cs, ofW (mw.mode (aStep mw.w (absOf x.mid) E))⟩ := by
  obtain ⟨m, hreach, _, _⟩ := reachD2_reach2 H hW hr ntH
  exact mode_premise_closed2 H hreach h2 hl hgo

/-- `JF.SystemInv2.c12_rootConsistent_closed2` along dumped-and-resumed runs -/
theorem c12_rootConsistent_closed2_resumed (H : Hyp2 env mw S) (hW : 0 < W) (hr : ReachD2 env mw S needs W ss cs mH x)
    (ntH : NoTies xcfg xcfg.finite (fun _ => none) cs) :
    AllGood env.d env.L x.cs ∧ Uniform env.nPer x.cs ∧ ∀ c ∈ x.cs, RootConsistent env.L c := by
  obtain ⟨m, hreach, _, _⟩ := reachD2_reach2 H hW hr ntH
  exact c12_rootConsistent_closed2 H hreach

/-- `JF.SystemInv2.c07_one_chain_closed2` along dumped-and-resumed runs -/
theorem c07_one_chain_closed2_resumed (H : Hyp2 env mw S) (hW : 0 < W) (hr : ReachD2 env mw S needs W ss cs mH x)
    (ntH : NoTies xcfg xcfg.finite (fun _ => none) cs) {cl : Committed XTime} (hl : cs.getLast? = some cl) :
    ∃ E sq m, owner mw.w.wires cl.handler = some E ∧ OneChainM x.cs sq m ∧ OneChain x.cs sq ∧
      (cl.stop = false → m = ofW (mw.mode (aStep mw.w (absOf x.mid) E))) := by
  obtain ⟨m, hreach, _, _⟩ := reachD2_reach2 H hW hr ntH
  exact c07_one_chain_closed2 H hreach hl

/-- `JF.SystemInv2.c08_closed2` along dumped-and-resumed runs -/
theorem c08_closed2_resumed (H : Hyp2 env mw S) (hW : 0 < W) (hr : ReachD2 env mw S needs W ss cs mH x)
    (ntH : NoTies xcfg xcfg.finite (fun _ => none) cs) {cl : Committed XTime} (hl : cs.getLast? = some cl) :
    ∃ (hi : Inv env ⟨x.csPrev, ofW (mw.mode (absOf x.mid))⟩) (born : HandlerId → CW2.G env),
      C08.Reach8 mw.w.wires (world2 env mw) (motion2 env mw) S ⟨⟨x.mid, x.ids, ⟨_, hi⟩⟩, born⟩ ∧
      C08.Current (motion2 env mw) ⟨⟨x.mid, x.ids, ⟨_, hi⟩⟩, born⟩ ∧
      ∀ E, owner mw.w.wires cl.handler = some E → motionBound (mw.w.tagger E) = true →
        ∀ u ∈ (motion2 env mw).units (x.ids cl.handler),
          SameMotion2 env.d env.L (born cl.handler).1.cs x.csPrev u := by
  obtain ⟨m, hreach, _, _⟩ := reachD2_reach2 H hW hr ntH
  exact c08_closed2 H hreach hl

/-- `JF.SystemInv2.c08_stale_trashed_closed2` along dumped-and-resumed runs -/
theorem c08_stale_trashed_closed2_resumed (H : Hyp2 env mw S) (hW : 0 < W) (hr : ReachD2 env mw S needs W ss cs mH x)
    (ntH : NoTies xcfg xcfg.finite (fun _ => none) cs) {k j : Nat} {ck cj : Committed XTime}
    (hk : cs[k]? = some ck) {E : TaggerIdx} (hE : owner mw.w.wires ck.handler = some E)
    (hm : affects (mw.w.tagger E) .motion = true) {h : HandlerId} {T : TaggerIdx} (hT : owner mw.w.wires h = some T)
    (hb : motionBound (mw.w.tagger T) = true)
    (hp : (pendPushed (pendOf (fun _ => none) (cs.take k)) ck h).isSome) :
    h ∈ ck.trashed ∧
    (k < j → cs[j]? = some cj → cj.handler = h →
      ∃ (i : Nat) (ci : Committed XTime), k < i ∧ i ≤ j ∧ cs[i]? = some ci ∧ h ∈ ci.created.map Prod.fst) := by
  obtain ⟨m, hreach, _, _⟩ := reachD2_reach2 H hW hr ntH
  exact c08_stale_trashed_closed2 H hreach hk hE hm hT hb hp

/-- `JF.SystemInv2.candOK_closed2` along dumped-and-resumed runs -/
theorem candOK_closed2_resumed (H : Hyp2 env mw S) (hW : 0 < W) (hr : ReachD2 env mw S needs W ss cs mH x)
    (ntH : NoTies xcfg xcfg.finite (fun _ => none) cs) : MediatorLoop.Legs (CandOK xcfg) (fun _ => none) xcfg.bot cs := by
  obtain ⟨m, hreach, _, _⟩ := reachD2_reach2 H hW hr ntH
  exact candOK_closed2 H hreach

/-- `JF.SystemInv2.commit_times_sorted_closed2` along dumped-and-resumed runs -/
theorem commit_times_sorted_closed2_resumed (H : Hyp2 env mw S) (hW : 0 < W) (hr : ReachD2 env mw S needs W ss cs mH x)
    (ntH : NoTies xcfg xcfg.finite (fun _ => none) cs) : cs.Pairwise (fun a b => xcfg.lt b.time a.time = false) := by
  obtain ⟨m, hreach, _, _⟩ := reachD2_reach2 H hW hr ntH
  exact commit_times_sorted_closed2 H hreach

/-- `JF.SystemInv2.no_sample_skipped2` along dumped-and-resumed runs -/
theorem no_sample_skipped2_resumed (H : Hyp2 env mw S) (hW : 0 < W) (hr : ReachD2 env mw S needs W ss cs mH x)
    (ntH : NoTies xcfg xcfg.finite (fun _ => none) cs) {k : Nat} {cm : Committed XTime} (hk : cs[k]? = some cm)
    {hs : HandlerId} {ts : XTime} (hkind : kindOfH mw.w hs = .sampling)
    (hp : pendPushed (pendOf (fun _ => none) (cs.take k)) cm hs = some ts) (hfin : xcfg.finite ts = true) :
    xcfg.lt ts cm.time = false ∧ (cm.handler = hs → cm.time = ts) := by
  obtain ⟨m, hreach, _, _⟩ := reachD2_reach2 H hW hr ntH
  exact no_sample_skipped2 H hreach hk hkind hp hfin

/-! ## non-vacuity: every spec-level run without ties, with dumps inserted anywhere, is a dumped-and-resumed run -/

/-- **spec → heap.**  Any run `Reach2` without time ties, with dump/resume round trips inserted at ANY leg boundaries (`ss` arbitrary
with `oraclesOf ss = os`), is a dumped-and-resumed run `ReachD2` with the same commits and the same world and ghost fields -/
theorem reach2_reachD2 (H : Hyp2 env mw S) (hW : 0 < W) (ss : List (Step XTime)) {s : Sys2}
    (hr : Reach2 env mw S needs (oraclesOf ss) cs s) (ntH : NoTies xcfg xcfg.finite (fun _ => none) cs) :
    ∃ mH : MedState (HSched XTime), ReachD2 env mw S needs W ss cs mH (xOf s) ∧ mH.act = s.med.act ∧
      mH.preceding = s.med.preceding :=
  reach_reachD (T := T2 env mw S needs) (hyp2_static H) hW ss (reach2_of hr) ntH

end

/-! ## non-vacuity on the concrete seven-leg run of `dipole_motion.ini` -/

namespace Example
open JF.C09Pools.Closed2.Example

/-- counter range of a C `unsigned int` -/
abbrev W32 : Nat := 4294967296

/-- E1's no-tie hypothesis holds for the seven commits (0, 1/4, 1/2, 3/4, 1, 5/4, 3/2): at no `get_succeeding_event` do two finite
pending candidate times coincide -/
theorem noTies7 : NoTies xcfg xcfg.finite (fun _ => none) cs7c :=
  noTies_of_check _ _ [] (fun h t e => by cases e) (by decide +kernel)

/-- the seven legs with dumps before the first leg, after legs 1, 3 (twice in a row), 4 and 7 -/
def steps7 : List (Step XTime) :=
  [.dump, .leg (mkO s0.cs cand1), .dump, .leg (mkO s1.cs cand2), .leg (mkO s2.cs cand3), .dump, .dump,
   .leg (mkO s3.cs cand4), .dump, .leg (mkO s4.cs cand5), .leg (mkO s5.cs cand6), .leg (mkO s6.cs cand7), .dump]

/-- **the dumped-and-resumed seven-leg run exists**: heap scheduler, six dump/resume round trips, the commits `cs7c`, the world of `s7` -/
theorem dumped7 : ∃ mH : MedState (HSched XTime), ReachD2 env mw 10 needs W32 steps7 cs7c mH (xOf s7) ∧
    mH.act = s7.med.act ∧ mH.preceding = s7.med.preceding :=
  reach2_reachD2 hyp (by decide) steps7 (show Reach2 env mw 10 needs (oraclesOf steps7) cs7c s7 from reach7) noTies7

/-- the joint invariant after the seven legs of the dumped run -/
example : ∃ (mH : MedState (HSched XTime)) (m : SM), m.act = mH.act ∧ m.preceding = mH.preceding ∧
    JInv2 env mw 10 needs cs7c ((xOf s7).toSys m) := by
  obtain ⟨mH, hD, _, _⟩ := dumped7
  obtain ⟨m, h1, h2, h3⟩ := joint_inv2_resumed hyp (by decide) hD noTies7
  exact ⟨mH, m, h1, h2, h3⟩

/-- C09 in the middle of the seventh leg of the dumped run -/
example : ∃ hi : Inv env ⟨s7.csPrev, ofW (mw.mode (absOf s7.mid))⟩,
    ∀ T, (world2 env mw).live T → Fresh (world2 env mw) ⟨s7.mid, s7.ids, ⟨_, hi⟩⟩ T := by
  obtain ⟨mH, hD, _, _⟩ := dumped7
  obtain ⟨hi, h, _⟩ := c09_fresh_closed2_resumed hyp (by decide) hD noTies7 (by decide)
  exact ⟨hi, h⟩

/-- C12 after the seventh commit of the dumped run -/
example : AllGood env.d env.L s7.cs ∧ Uniform env.nPer s7.cs ∧ ∀ c ∈ s7.cs, RootConsistent env.L c := by
  obtain ⟨mH, hD, _, _⟩ := dumped7
  exact c12_rootConsistent_closed2_resumed hyp (by decide) hD noTies7

/-- commit times of the dumped run never decrease -/
example : cs7c.Pairwise (fun a b => xcfg.lt b.time a.time = false) := by
  obtain ⟨mH, hD, _, _⟩ := dumped7
  exact commit_times_sorted_closed2_resumed hyp (by decide) hD noTies7

/-- … and the dumped run is, leg for leg, an uninterrupted run of the composed system with the heap scheduler -/
example : ∃ mH m' : MedState (HSched XTime), ReachD2 env mw 10 needs W32 (steps7.filter notDump) cs7c m' (xOf s7) ∧
    StRel (LiveEq xcfg) m' mH := by
  obtain ⟨mH, hD, _, _⟩ := dumped7
  obtain ⟨m', h1, h2⟩ := resumed_is_uninterrupted2 hyp (by decide) hD
  exact ⟨mH, m', h1, h2⟩

/-- … and its commits are those of the uninterrupted mediator loop with the heap scheduler on the seven oracle values -/
example : (runLegsE M (heapI xcfg W32) (MedState.init (heapI xcfg W32) M.w) os7).1 = cs7c := by
  obtain ⟨mH, hD, _, _⟩ := dumped7
  exact resumed_commits_uninterrupted2 hyp (by decide) hD

end Example

end JF.SystemInvResume2

/-! # Composite objects WITH cell systems (`JF.Sys3L`) -/

namespace JF.SystemInvResume2.Cells
open JF JF.Act JF.Heap JF.Sched JF.Med JF.CW3 JF.C14 JF.MediatorLoop JF.Sys JF.Sys3 JF.Sys3L JF.Composite JF.C12 JF.Footprints3
  JF.SystemInv3Loop JF.SysGen JF.SystemInvMP2
open JF.C19Loop (Step oraclesOf dumpH StRel runLegsE)
open JF.SystemInvResume (notDump)

section
variable {env : Env ℚ} {geo : ∀ l, Geo (cwEnv env l)} {mw : ModeWiring} {S : TaggerIdx} {needs : HandlerId → Bool} {W : Nat}

/-- **the dumped-and-resumed runs of the composed system of composite objects with cell systems** (heap scheduler): one leg =
`leg … (heapI xcfg W) m o = .ok (m', cm)` and `RStep3 (eraseS m) m.sched.last x o cm x'` (field for field `SysStep3`); a dump replaces
`m` by `dumpH xcfg m`, the composite objects, the occupancies and the ghost fields `x : X3` stay as they are -/
abbrev ReachD3 (env : Env ℚ) (geo : ∀ l, Geo (cwEnv env l)) (mw : ModeWiring) (S : TaggerIdx) (needs : HandlerId → Bool) (W : Nat)
    (ss : List (Step XTime)) (cs : List (Committed XTime)) (mH : MedState (HSched XTime)) (x : X3) : Prop :=
  (T3 env geo mw S needs).ReachD W ss cs mH x

variable {ss : List (Step XTime)} {cs : List (Committed XTime)} {mH : MedState (HSched XTime)} {x : X3}

/-- **the main bridge, heap → spec** -/
theorem reachD3_reach3 (H : Hyp3L env mw S) (hW : 0 < W) (hr : ReachD3 env geo mw S needs W ss cs mH x)
    (ntH : NoTies xcfg xcfg.finite (fun _ => none) cs) :
    ∃ m : SM, Reach3 env geo mw S needs (oraclesOf ss) cs (x.toSys m) ∧ m.act = mH.act ∧ m.preceding = mH.preceding := by
  obtain ⟨m, hreach, ha, hp⟩ := reachD_reach (T := T3 env geo mw S needs) (hyp3_static H) hW hr ntH
  exact ⟨m, reach3_to hreach, ha, hp⟩

/-- **resume = uninterrupted, leg for leg** (no tie hypothesis) -/
theorem resumed_is_uninterrupted3 (H : Hyp3L env mw S) (hW : 0 < W) (hr : ReachD3 env geo mw S needs W ss cs mH x) :
    ∃ m' : MedState (HSched XTime), ReachD3 env geo mw S needs W (ss.filter notDump) cs m' x ∧ StRel (LiveEq xcfg) m' mH :=
  resumed_is_uninterrupted (T := T3 env geo mw S needs) (hyp3_static H) hW hr

/-- the commits of a dumped-and-resumed run are those of the uninterrupted loop with the heap scheduler (no tie hypothesis) -/
theorem resumed_commits_uninterrupted3 (H : Hyp3L env mw S) (hW : 0 < W) (hr : ReachD3 env geo mw S needs W ss cs mH x) :
    (runLegsE (mwire mw.w S needs) (heapI xcfg W) (MedState.init (heapI xcfg W) (mwire mw.w S needs).w) (oraclesOf ss)).1 = cs :=
  resumed_commits_uninterrupted (T := T3 env geo mw S needs) (hyp3_static H) hW hr

/-- **the joint invariant holds after every leg of every dumped-and-resumed run** -/
theorem joint_inv3_resumed (H : Hyp3L env mw S) (hW : 0 < W) (hr : ReachD3 env geo mw S needs W ss cs mH x)
    (ntH : NoTies xcfg xcfg.finite (fun _ => none) cs) (nt : TieFree3 mw cs) :
    ∃ m : SM, m.act = mH.act ∧ m.preceding = mH.preceding ∧ JInv3 env mw S needs cs (x.toSys m) := by
  obtain ⟨m, hreach, ha, hp⟩ := reachD3_reach3 H hW hr ntH
  exact ⟨m, ha, hp, joint_inv3 H hreach nt⟩

/-- `c09_fresh_closed3` along dumped-and-resumed runs -/
theorem c09_fresh_closed3_resumed (H : Hyp3L env mw S) (hW : 0 < W) (hr : ReachD3 env geo mw S needs W ss cs mH x)
    (ntH : NoTies xcfg xcfg.finite (fun _ => none) cs) (nt : TieFree3 mw cs) (h2 : 2 ≤ cs.length) :
    ∃ hi : Inv3 env mw ⟨x.csPrev, .leaf, x.occs⟩,
      (∀ T, (world3 env mw).live T → Fresh (world3 env mw) ⟨x.mid, x.ids, ⟨_, hi⟩⟩ T) ∧
      Act.Run mw.w (world3 env mw) (Tr3 env mw) S ⟨x.mid, x.ids, ⟨_, hi⟩⟩ := by
  obtain ⟨m, hreach, _, _⟩ := reachD3_reach3 H hW hr ntH
  exact c09_fresh_closed3 H hreach nt h2

/-- `c12_rootConsistent_closed3` along dumped-and-resumed runs -/
theorem c12_rootConsistent_closed3_resumed (H : Hyp3L env mw S) (hW : 0 < W) (hr : ReachD3 env geo mw S needs W ss cs mH x)
    (ntH : NoTies xcfg xcfg.finite (fun _ => none) cs) (nt : TieFree3 mw cs) :
    AllGood env.base.d env.base.L x.cs ∧ CW2.Uniform env.base.nPer x.cs ∧ (∀ c ∈ x.cs, RootConsistent env.base.L c) ∧
      (AllRest x.cs ∨ ∃ sq, OneChainM x.cs sq .leaf) := by
  obtain ⟨m, hreach, _, _⟩ := reachD3_reach3 H hW hr ntH
  exact c12_rootConsistent_closed3 H hreach nt

/-- `staysInRecordedCell_closed3` along dumped-and-resumed runs -/
theorem staysInRecordedCell_closed3_resumed (H : Hyp3L env mw S) (hW : 0 < W) (hr : ReachD3 env geo mw S needs W ss cs mH x)
    (ntH : NoTies xcfg xcfg.finite (fun _ => none) cs) (nt : TieFree3 mw cs) {cl : Committed XTime}
    (hl : cs.getLast? = some cl) {E : TaggerIdx} (hE : owner mw.w.wires cl.handler = some E) {lab : Nat}
    (hlab : lab < mw.w.labels.length) (haff : affects (mw.w.tagger E) (.cell lab) = false) :
    StaysInRecordedCell env.base.nPer (env.oe lab) (getOcc x.occs lab) x.cs := by
  obtain ⟨m, hreach, _, _⟩ := reachD3_reach3 H hW hr ntH
  exact staysInRecordedCell_closed3 H hreach nt hl hE hlab haff

/-- `c11_consistent_closed3` along dumped-and-resumed runs -/
theorem c11_consistent_closed3_resumed (H : Hyp3L env mw S) (hW : 0 < W) (hr : ReachD3 env geo mw S needs W ss cs mH x)
    (ntH : NoTies xcfg xcfg.finite (fun _ => none) cs) (nt : TieFree3 mw cs) {lab : Nat} (hlab : lab < mw.w.labels.length) :
    ConsistentOcc (env.oe lab).relevant (unitsOn env.base.nPer (env.oe lab).level (CW2.flags x.csPrev)) (getOcc x.occs lab) := by
  obtain ⟨m, hreach, _, _⟩ := reachD3_reach3 H hW hr ntH
  exact c11_consistent_closed3 H hreach nt hlab

/-- `commit_times_sorted_closed3` along dumped-and-resumed runs -/
theorem commit_times_sorted_closed3_resumed (H : Hyp3L env mw S) (hW : 0 < W) (hr : ReachD3 env geo mw S needs W ss cs mH x)
    (ntH : NoTies xcfg xcfg.finite (fun _ => none) cs) (nt : TieFree3 mw cs) :
    cs.Pairwise (fun a b => xcfg.lt b.time a.time = false) := by
  obtain ⟨m, hreach, _, _⟩ := reachD3_reach3 H hW hr ntH
  exact commit_times_sorted_closed3 H hreach nt

/-- `no_sample_skipped3` along dumped-and-resumed runs -/
theorem no_sample_skipped3_resumed (H : Hyp3L env mw S) (hW : 0 < W) (hr : ReachD3 env geo mw S needs W ss cs mH x)
    (ntH : NoTies xcfg xcfg.finite (fun _ => none) cs) {k : Nat} {cm : Committed XTime} (hk : cs[k]? = some cm)
    {hs : HandlerId} {ts : XTime} (hkind : kindOfH mw.w hs = .sampling)
    (hp : pendPushed (pendOf (fun _ => none) (cs.take k)) cm hs = some ts) (hfin : xcfg.finite ts = true) :
    xcfg.lt ts cm.time = false ∧ (cm.handler = hs → cm.time = ts) := by
  obtain ⟨m, hreach, _, _⟩ := reachD3_reach3 H hW hr ntH
  exact no_sample_skipped3 H hreach hk hkind hp hfin

/-- **spec → heap** (non-vacuity): any run `Reach3` without time ties, with dumps inserted at ANY leg boundaries, is a `ReachD3` run -/
theorem reach3_reachD3 (H : Hyp3L env mw S) (hW : 0 < W) (ss : List (Step XTime)) {s : Sys3}
    (hr : Reach3 env geo mw S needs (oraclesOf ss) cs s) (ntH : NoTies xcfg xcfg.finite (fun _ => none) cs) :
    ∃ mH : MedState (HSched XTime), ReachD3 env geo mw S needs W ss cs mH (xOf3 s) ∧ mH.act = s.med.act ∧
      mH.preceding = s.med.preceding :=
  reach_reachD (T := T3 env geo mw S needs) (hyp3_static H) hW ss (reach3_of hr) ntH

end

/-! ## non-vacuity on the four-leg run of `dipoles/cell_bounded.ini` -/

namespace Example
open JF.SystemInv3Loop.Example

abbrev W32 : Nat := 4294967296

/-- E1's no-tie hypothesis holds for the four commits (0, 1/8, 1/2, 5/8) -/
theorem noTies4 : NoTies xcfg xcfg.finite (fun _ => none) cs4c :=
  noTies_of_check _ _ [] (fun h t e => by cases e) (by decide +kernel)

/-- the four legs with dumps before the first leg, after legs 1, 2 (twice) and 4 -/
def steps4 : List (Step XTime) :=
  [.dump, .leg (mkO s0.cs [occ0] cand1), .dump, .leg (mkO s1.cs occs1 cand2), .dump, .dump, .leg (mkO s2.cs occs2 cand3),
   .leg (mkO s3.cs occs3 cand4), .dump]

theorem dumped4 : ∃ mH : MedState (HSched XTime), ReachD3 env geo mw 9 needs W32 steps4 cs4c mH (xOf3 s4) ∧
    mH.act = s4.med.act ∧ mH.preceding = s4.med.preceding :=
  reach3_reachD3 hyp (by decide) steps4 (show Reach3 env geo mw 9 needs (oraclesOf steps4) cs4c s4 from reach4) noTies4

example : ∃ (mH : MedState (HSched XTime)) (m : SM), m.act = mH.act ∧ m.preceding = mH.preceding ∧
    JInv3 env mw 9 needs cs4c ((xOf3 s4).toSys m) := by
  obtain ⟨mH, hD, _, _⟩ := dumped4
  obtain ⟨m, h1, h2, h3⟩ := joint_inv3_resumed hyp (by decide) hD noTies4 tieFree4
  exact ⟨mH, m, h1, h2, h3⟩

example : ∃ hi : Inv3 env mw ⟨s4.csPrev, .leaf, s4.occs⟩,
    ∀ T, (world3 env mw).live T → Fresh (world3 env mw) ⟨s4.mid, s4.ids, ⟨_, hi⟩⟩ T := by
  obtain ⟨mH, hD, _, _⟩ := dumped4
  obtain ⟨hi, h, _⟩ := c09_fresh_closed3_resumed hyp (by decide) hD noTies4 tieFree4 (by decide)
  exact ⟨hi, h⟩

example : cs4c.Pairwise (fun a b => xcfg.lt b.time a.time = false) := by
  obtain ⟨mH, hD, _, _⟩ := dumped4
  exact commit_times_sorted_closed3_resumed hyp (by decide) hD noTies4 tieFree4

example : ∃ mH m' : MedState (HSched XTime), ReachD3 env geo mw 9 needs W32 (steps4.filter notDump) cs4c m' (xOf3 s4) ∧
    StRel (LiveEq xcfg) m' mH := by
  obtain ⟨mH, hD, _, _⟩ := dumped4
  obtain ⟨m', h1, h2⟩ := resumed_is_uninterrupted3 hyp (by decide) hD
  exact ⟨mH, m', h1, h2⟩

end Example

end JF.SystemInvResume2.Cells
