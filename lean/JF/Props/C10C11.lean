import JF.Props.C10
import JF.Props.C11
import JF.Lemmas.C10C11
/-!
# C10 ⟵ C11: the occupancy invariant C10 assumes is the one C11 proves

`JF/Props/C10.lean` proves "the three cell-based event families cover each other relevant unit exactly once" under the hypothesis
`JF.C10.OccInv` on an occupancy state given as data, and names as a gap that `SingleActiveCellOccupancy` establishes it.
`JF/Props/C11.lean` proves its own mirror invariant `JF.C11.OccInv` for the branch-for-branch model of that class, at every state
of every history satisfying `JF.C11.Reach`.  This module closes the gap:

* `toTaggerOcc` (in `JF/Lemmas/C10C11.lean`; equal to E8's `CW.tocc` by `tocc_eq`) converts C11's state into C10's;
* `occInv_of_c11`: C11's invariant implies C10's for the converted state; `reach_occInv`: at every reachable state;
* `reach_cell_partition_veto`, `reach_cell_partition_bounding`, `reach_cell_targets_nodup`,
  `reach_cell_target_exactly_one_family`, `reach_cell_partition_total`: C10's theorems with no occupancy hypothesis left.

## Where the two invariants did not line up, and the bridging facts
1. *Per cell vs global.*  C11: `recCount s u c ∈ {0, 1}` for every unit and cell.  C10: the stored identifiers (occupants of all
   cells in `yield_cells()` order, then surplus) are a permutation of `relevant.erase a`.  Bridge: `count_storedIds` (sum of the
   per-cell counts over the cells of the grid, with C11's `count_yieldSurplus` for the surplus dictionary), `storedIds_perm`.
2. *Cells.*  C11's cells are abstract numbers, C10's are identifier tuples of a grid, enumerated by `allCells`.  The conversion uses
   the position in that enumeration (as E8 does); `map_idxOf_self` turns "all cells of the grid" into "cell numbers below
   `numCells g`".  **Remaining hypothesis `InGrid`**: the cell number of every relevant unit is below `numCells g`
   (`position_to_cell` returns a cell of the cell system — C16's statement about the real `position_to_cell`; C11's model takes the
   cell numbers as inputs and cannot know the grid).  It is needed — see the last `example` — and only for the *current* cells.
3. *Relevant units.*  C11 has a predicate `rel`, C10 a duplicate-free list.  `IsRelevantList rel relevant` names the relation; it
   is no extra premise: every history has such a list (`reach_relevant_list_exists`; for `initialize` on `units` it is
   `relevantOf units`, `isRelevantList_relevantOf`).
4. *Active unit.*  C10's invariant needs an active unit; C11's allows none (after `initialize`, or when the active unit fails the
   charge filter).  Then no cell-based in-state exists at all (`no_active_no_instates`, no premise needed);
   `reach_cell_partition_total` states both cases.  The active unit's relevance (C10's `active_relevant`) and the validity of its
   cell (`cell_valid`) come from C11's `active` clause and `InGrid`.
5. *Identifiers.*  Unit `u` ↦ `(u,)` (`wrap`), injective; `map_erase_wrap` moves `erase` through it.
-/
namespace JF.C10C11
open JF JF.CellTaggers

/-- **C11's invariant implies C10's.**  For every occupancy state satisfying `JF.C11.OccInv` (for *any* world `rel`, `cellOf`) that
records an active unit `a`, every enumeration `relevant` of the relevant units and every grid containing their cells, the converted
state satisfies `JF.C10.OccInv` for the relevant identifiers, the active identifier `(a,)` and the cell of the grid with the recorded
number `cellOf a` (= `_active_cell`). -/
theorem occInv_of_c11 {rel : UId → Bool} {cellOf : UId → JF.Occ.Cell} {s : JF.Occ.State}
    (h : C11.OccInv rel cellOf s) (g : Grid) (relevant : List UId) (hnd : relevant.Nodup)
    (hmem : ∀ u, u ∈ relevant ↔ rel u = true) (hgrid : ∀ u ∈ relevant, cellOf u < numCells g)
    {a : UId} (ha : s.activeId = some a) :
    C10.OccInv g (toTaggerOcc g s) (idents relevant) (CW.cellAt g (cellOf a)) (wrap a) := by
  have hact : s.activeCell = some (cellOf a) ∧ rel a = true := by
    rcases h.active with ⟨hn, _⟩ | ⟨a', ha', hc, hr⟩
    · rw [hn] at ha; cases ha
    · rw [ha'] at ha; cases ha; exact ⟨hc, hr⟩
  have harel : a ∈ relevant := (hmem a).mpr hact.2
  refine ⟨?_, cellAt_valid g (hgrid a harel), hnd.map wrap_injective, List.mem_map_of_mem harel, ?_⟩
  · simp [toTaggerOcc, ha, hact.1, wrap]
  · rw [stored_toTaggerOcc, idents, idents, ← map_erase_wrap]
    exact (storedIds_perm h g relevant hnd hmem hgrid ha).map wrap


/-! ## every reachable occupancy of C11 -/

/-- **C11's history premise, by name**: `s` is the state of the occupancy after `initialize` on a duplicate-free list of units and
any number of `update`s, `cellOf` the current cell of every unit, where between two calls only a *continuing* active unit changed
its cell and every `update` was handed the true relevance and the true cell of the new active unit (`JF.C11.Reach`). -/
abbrev HistoryPremise (rel : UId → Bool) (s : JF.Occ.State) (cellOf : UId → JF.Occ.Cell) : Prop := C11.Reach rel s cellOf

/-- `relevant` lists the units that pass the charge filter, each once -/
structure IsRelevantList (rel : UId → Bool) (relevant : List UId) : Prop where
  nodup : relevant.Nodup
  mem : ∀ u, u ∈ relevant ↔ rel u = true

/-- **the remaining hypothesis**: the current cell of every relevant unit is a cell of the grid (a statement about the world
`cellOf` = `position_to_cell ∘ position`, not about the occupancy; decidable for a concrete list) -/
def InGrid (g : Grid) (relevant : List UId) (cellOf : UId → JF.Occ.Cell) : Prop := ∀ u ∈ relevant, cellOf u < numCells g

instance (g : Grid) (relevant : List UId) (cellOf : UId → JF.Occ.Cell) : Decidable (InGrid g relevant cellOf) := by
  unfold InGrid; infer_instance

/-- the relevant units of the list handed to `initialize` -/
def relevantOf (units : List JF.Occ.UnitIn) : List UId := (units.filter (·.relevant)).map (·.id)

theorem isRelevantList_relevantOf (units : List JF.Occ.UnitIn) (hnd : (units.map (·.id)).Nodup) :
    IsRelevantList (C11.relOf units) (relevantOf units) := by
  constructor
  · exact hnd.sublist ((List.filter_sublist (l := units)).map _)
  · intro u
    simp only [relevantOf, C11.relOf, List.mem_map, List.mem_filter, List.any_eq_true, Bool.and_eq_true, beq_iff_eq]
    constructor
    · rintro ⟨x, ⟨hx, hr⟩, rfl⟩; exact ⟨x, hx, rfl, hr⟩
    · rintro ⟨x, hx, rfl, hr⟩; exact ⟨x, ⟨hx, hr⟩, rfl⟩

/-- the list of relevant units is not an extra premise: every history has one -/
theorem reach_relevant_list_exists {rel : UId → Bool} {s : JF.Occ.State} {cellOf : UId → JF.Occ.Cell}
    (h : HistoryPremise rel s cellOf) : ∃ relevant, IsRelevantList rel relevant := by
  induction h with
  | init cap units hnd hrel => exact ⟨relevantOf units, hrel ▸ isRelevantList_relevantOf units hnd⟩
  | step _ _ _ _ _ _ _ _ ih => exact ih

/-- **C10's occupancy hypothesis holds at every reachable occupancy of C11** that records an active unit -/
theorem reach_occInv {rel : UId → Bool} {s : JF.Occ.State} {cellOf : UId → JF.Occ.Cell}
    (h : HistoryPremise rel s cellOf) (g : Grid) {relevant : List UId} (hl : IsRelevantList rel relevant)
    (hg : InGrid g relevant cellOf) {a : UId} (ha : s.activeId = some a) :
    C10.OccInv g (toTaggerOcc g s) (idents relevant) (CW.cellAt g (cellOf a)) (wrap a) :=
  occInv_of_c11 (C11.reach_inv h) g relevant hl.nodup hl.mem hg ha


section corollaries
variable {rel : UId → Bool} {s : JF.Occ.State} {cellOf : UId → JF.Occ.Cell}

/-- **C10, cell half (cell-veto variant), for every history of the occupancy model**: cell-veto targets, excluded-cell targets and
surplus targets together are the relevant units other than the active one, each exactly once.  Hypotheses: C11's history premise,
the naming of the relevant units, `InGrid`; case `s.activeId = some a`. -/
theorem reach_cell_partition_veto (h : HistoryPremise rel s cellOf) (g : Grid) {relevant : List UId}
    (hl : IsRelevantList rel relevant) (hg : InGrid g relevant cellOf) {a : UId} (ha : s.activeId = some a) :
    (targetsVeto g (toTaggerOcc g s) ++ targetsExcluded g (toTaggerOcc g s) ++ targetsSurplus (toTaggerOcc g s)).Perm
      ((idents relevant).erase (wrap a)) :=
  C10.cell_partition_veto g _ _ _ _ (reach_occInv h g hl hg ha)

/-- **C10, cell half (cell-bounding-potential variant), for every history of the occupancy model** -/
theorem reach_cell_partition_bounding (h : HistoryPremise rel s cellOf) (g : Grid) {relevant : List UId}
    (hl : IsRelevantList rel relevant) (hg : InGrid g relevant cellOf) {a : UId} (ha : s.activeId = some a) :
    (targetsBounding g (toTaggerOcc g s) ++ targetsExcluded g (toTaggerOcc g s) ++ targetsSurplus (toTaggerOcc g s)).Perm
      ((idents relevant).erase (wrap a)) :=
  C10.cell_partition_bounding g _ _ _ _ (reach_occInv h g hl hg ha)

/-- nobody is treated twice, and the active unit is not its own target -/
theorem reach_cell_targets_nodup (h : HistoryPremise rel s cellOf) (g : Grid) {relevant : List UId}
    (hl : IsRelevantList rel relevant) (hg : InGrid g relevant cellOf) {a : UId} (ha : s.activeId = some a) :
    let t := toTaggerOcc g s
    (targetsVeto g t ++ targetsExcluded g t ++ targetsSurplus t).Nodup ∧
    (targetsBounding g t ++ targetsExcluded g t ++ targetsSurplus t).Nodup ∧
    wrap a ∉ targetsVeto g t ++ targetsExcluded g t ++ targetsSurplus t ∧
    wrap a ∉ targetsBounding g t ++ targetsExcluded g t ++ targetsSurplus t :=
  C10.cell_targets_nodup g _ _ _ _ (reach_occInv h g hl hg ha)

/-- every other relevant unit: its multiplicities in the three families add up to one -/
theorem reach_cell_target_exactly_one_family (h : HistoryPremise rel s cellOf) (g : Grid) {relevant : List UId}
    (hl : IsRelevantList rel relevant) (hg : InGrid g relevant cellOf) {a : UId} (ha : s.activeId = some a)
    (u : UId) (hu : rel u = true) (hua : u ≠ a) :
    let t := toTaggerOcc g s
    (targetsVeto g t).count (wrap u) + (targetsExcluded g t).count (wrap u) + (targetsSurplus t).count (wrap u) = 1 ∧
    (targetsBounding g t).count (wrap u) + (targetsExcluded g t).count (wrap u) + (targetsSurplus t).count (wrap u) = 1 :=
  C10.cell_target_exactly_one_family g _ _ _ _ (reach_occInv h g hl hg ha) (wrap u)
    (List.mem_map_of_mem ((hl.mem u).mpr hu)) (fun e => hua (wrap_injective e))

/-- no recorded active unit (C11 allows it): no cell-based in-state, whatever the state -/
theorem no_active_no_instates (g : Grid) (ha : s.activeId = none) :
    let t := toTaggerOcc g s
    cellVetoTagger t = [] ∧ cellBoundingTagger g t = [] ∧ excludedCellsTagger g t = [] ∧
    surplusCellsTagger t = [] ∧ vetoTargets g t = [] := by
  refine C10.no_active_no_instates g _ ?_
  simp only [toTaggerOcc, ha]
  split <;> simp_all

/-- **both cases in one statement**, with the permutation written on unit numbers (`idents (relevant.erase a)`): at every
reachable occupancy either nothing is yielded, or the recorded pair is the active unit with the cell of its position, the active
unit is relevant, and both variants partition the other relevant units -/
theorem reach_cell_partition_total (h : HistoryPremise rel s cellOf) (g : Grid) {relevant : List UId}
    (hl : IsRelevantList rel relevant) (hg : InGrid g relevant cellOf) :
    let t := toTaggerOcc g s
    match s.activeId with
    | none => cellVetoTagger t = [] ∧ cellBoundingTagger g t = [] ∧ excludedCellsTagger g t = [] ∧
        surplusCellsTagger t = [] ∧ vetoTargets g t = []
    | some a =>
        t.active = some (CW.cellAt g (cellOf a), wrap a) ∧ rel a = true ∧
        (targetsVeto g t ++ targetsExcluded g t ++ targetsSurplus t).Perm (idents (relevant.erase a)) ∧
        (targetsBounding g t ++ targetsExcluded g t ++ targetsSurplus t).Perm (idents (relevant.erase a)) := by
  intro t
  cases ha : s.activeId with
  | none => exact no_active_no_instates g ha
  | some a =>
    have inv := reach_occInv h g hl hg ha
    refine ⟨inv.active, (C11.active_recorded (C11.reach_inv h) ha).2, ?_, ?_⟩
    · rw [idents, map_erase_wrap]; exact reach_cell_partition_veto h g hl hg ha
    · rw [idents, map_erase_wrap]; exact reach_cell_partition_bounding h g hl hg ha

end corollaries


section Example
open JF.Occ

/-- a 3 x 4 periodic grid with one neighbour layer (12 cells; cell `[i, j]` has index `i + 3 j`) -/
def exGrid : Grid := ⟨[3, 4], 1⟩
/-- six units, unit 4 irrelevant (zero charge), cap 1: units 0 and 1 share cell `[0, 0]`, so unit 1 is surplus -/
def exUnits : List UnitIn := [⟨0, true, 0⟩, ⟨1, true, 0⟩, ⟨2, true, 3⟩, ⟨3, true, 8⟩, ⟨4, false, 5⟩, ⟨5, true, 10⟩]
def ex0 : State := Occ.init 1 exUnits
/-- unit 2 (cell `[0, 1]`) becomes active -/
def ex1 : State := C11.upd! ex0 ⟨2, true, 3⟩
/-- it crosses into cell `[1, 1]` (same identifier) -/
def ex2 : State := C11.upd! ex1 ⟨2, true, 4⟩
/-- lifting to unit 0, an occupant of the cell `[0, 0]` that also has a surplus unit; unit 2 is re-inserted under `[1, 1]` -/
def ex3 : State := C11.upd! ex2 ⟨0, true, 0⟩
def exCell0 : UId → Occ.Cell := C11.cellOfUnits exUnits
def exCell1 : UId → Occ.Cell := fun u => if u = 2 then 4 else exCell0 u

theorem ex_reach2 : HistoryPremise (C11.relOf exUnits) ex2 exCell1 := by
  have r0 : C11.Reach (C11.relOf exUnits) ex0 exCell0 := .init 1 exUnits (by decide) rfl
  have r1 : C11.Reach (C11.relOf exUnits) ex1 exCell0 :=
    .step (s := ex0) ⟨2, true, 3⟩ exCell0 ex1 r0 (by decide) (by decide) (fun _ _ => rfl) (by rfl)
  exact .step (s := ex1) ⟨2, true, 4⟩ exCell1 ex2 r1 (by decide) (by decide)
    (by intro u hu; simp only [exCell1]; split
        · rename_i h; subst h; exact absurd ⟨rfl, by decide⟩ hu
        · rfl) (by rfl)

theorem ex_reach3 : HistoryPremise (C11.relOf exUnits) ex3 exCell1 :=
  .step (s := ex2) ⟨0, true, 0⟩ exCell1 ex3 ex_reach2 (by decide) (by decide) (fun _ _ => rfl) (by rfl)

/-- **non-vacuity.**  The hypotheses of the corollaries hold for a concrete history (six units, one irrelevant, one surplus;
`initialize`, then three `update`s: activation, cell crossing, lifting) … -/
example : HistoryPremise (C11.relOf exUnits) ex2 exCell1 ∧ HistoryPremise (C11.relOf exUnits) ex3 exCell1 ∧
    IsRelevantList (C11.relOf exUnits) (relevantOf exUnits) ∧ relevantOf exUnits = [0, 1, 2, 3, 5] ∧
    InGrid exGrid (relevantOf exUnits) exCell1 ∧ ex2.activeId = some 2 ∧ ex3.activeId = some 0 :=
  ⟨ex_reach2, ex_reach3, isRelevantList_relevantOf exUnits (by decide), by decide, by decide, by decide, by decide⟩

/-- … and what they conclude is what evaluation shows: after two `update`s (active unit 2 in cell `[1, 1]`) and after three
(active unit 0 in cell `[0, 0]`) all three families are non-empty and together are the other four relevant units. -/
example :
    (toTaggerOcc exGrid ex2).active = some ([1, 1], [2]) ∧
    targetsVeto exGrid (toTaggerOcc exGrid ex2) = [[5]] ∧ targetsBounding exGrid (toTaggerOcc exGrid ex2) = [[5]] ∧
    targetsExcluded exGrid (toTaggerOcc exGrid ex2) = [[0], [3]] ∧ targetsSurplus (toTaggerOcc exGrid ex2) = [[1]] ∧
    (idents (relevantOf exUnits)).erase (wrap 2) = [[0], [1], [3], [5]] ∧
    (toTaggerOcc exGrid ex3).active = some ([0, 0], [0]) ∧
    targetsVeto exGrid (toTaggerOcc exGrid ex3) = [[3]] ∧ targetsBounding exGrid (toTaggerOcc exGrid ex3) = [[3]] ∧
    targetsExcluded exGrid (toTaggerOcc exGrid ex3) = [[5], [2]] ∧ targetsSurplus (toTaggerOcc exGrid ex3) = [[1]] ∧
    (idents (relevantOf exUnits)).erase (wrap 0) = [[1], [2], [3], [5]] := by decide

/-- the corollary applied to the concrete history -/
example : (targetsVeto exGrid (toTaggerOcc exGrid ex3) ++ targetsExcluded exGrid (toTaggerOcc exGrid ex3) ++
      targetsSurplus (toTaggerOcc exGrid ex3)).Perm ((idents (relevantOf exUnits)).erase (wrap 0)) :=
  reach_cell_partition_veto ex_reach3 exGrid (isRelevantList_relevantOf exUnits (by decide)) (by decide) (by decide)

/-- **`InGrid` is needed.**  C11's cells are abstract numbers; a history whose unit 1 sits in "cell 5" of a two-cell grid satisfies
C11's premise and invariant, but the taggers (which enumerate the cells of the grid) never see unit 1: C10's invariant fails. -/
example : ∃ s cellOf, HistoryPremise (C11.relOf [⟨0, true, 0⟩, ⟨1, true, 5⟩]) s cellOf ∧ s.activeId = some 0 ∧
    ¬ InGrid ⟨[2], 0⟩ [0, 1] cellOf ∧
    ∀ ac, ¬ C10.OccInv ⟨[2], 0⟩ (toTaggerOcc ⟨[2], 0⟩ s) (idents [0, 1]) ac (wrap 0) := by
  refine ⟨C11.upd! (Occ.init 1 [⟨0, true, 0⟩, ⟨1, true, 5⟩]) ⟨0, true, 0⟩, C11.cellOfUnits [⟨0, true, 0⟩, ⟨1, true, 5⟩],
    ?_, by decide, by decide, ?_⟩
  · exact .step (s := Occ.init 1 [⟨0, true, 0⟩, ⟨1, true, 5⟩]) ⟨0, true, 0⟩ _ _ (.init 1 _ (by decide) rfl)
      (by decide) (by decide) (fun _ _ => rfl) (by rfl)
  · intro ac h
    have := h.stored_eq.length_eq
    revert this
    decide

end Example

end JF.C10C11
